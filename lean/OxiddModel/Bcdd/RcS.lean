import OxiddModel.Bcdd.IteS
import OxiddModel.Bdd.RcS

/-!
# The BCDD id store with an explicit reference counter per node

The complement-edge counterpart of `Bdd/RcS.lean`: the store-level algorithms of `Bcdd/ApplyS.lean`
and `Bcdd/IteS.lean` (`binS`, `applyOpS`, `notS`, `iteS` over `StoreC`) extended by

* a **node capacity** (`add_node` fails with `OutOfMemory` when no slot is left), and
* what the Rust code does to the **counters**: every `clone_edge`, `drop_edge` and `EdgeDropGuard`
  of `crates/oxidd-rules-bdd/src/complement_edge/apply_rec.rs` (`apply_bin`, `apply_and`,
  `apply_ite`, the `*_edge` methods of `BooleanFunction`), `complement_edge/mod.rs` (`reduce`,
  `terminal_and`, `terminal_xor`, `not`, `not_owned`, `get_terminal`),
  `crates/oxidd-rules-bdd/src/recursor.rs` (`SequentialRecursor`) and
  `crates/oxidd-manager-index/src/manager.rs` (`add_node`, `LevelViewSet::get_or_insert`,
  `clone_edge`, `drop_edge`, `LevelViewSet::gc`, `Manager::gc`).

What is specific to complement edges:

* an edge is `(tag, target)`; the counter belongs to the **target node** — `f` and `¬f` are two
  references to the same node. `not(&f)` (`Borrowed` with flipped tag) and `not_owned(e)` (owned,
  flipped tag) do not touch any counter; `not_edge` is `not_owned(clone_edge(f))`: one increment,
  no allocation, cannot fail;
* `reduce` normalises the tag: if the then-edge is complemented both children are complemented
  (`t.with_tag_owned(None)`, `e.with_tag_owned(!et)` — the *owned references* move, no counter
  changes) and the result edge carries the complement. The node handed to `get_or_insert` therefore
  always has a regular then-edge (`reduceRaw_then_regular`); `NodeC` stores only its target;
* `terminal_and` / `terminal_xor` return an owned edge in an `EdgeDropGuard`
  (`clone_edge(f|g)`, possibly through `not_owned`, or `get_terminal`), which `apply_bin` turns
  into the result with `into_edge()`;
* the single terminal of the index manager is static for `BCDDTerminal`
  (`StaticTerminalManager`): no counter.

Conventions as in `Bdd/RcS.lean`: the counter of a node is the raw `rc` field (a fresh node has
`2`: unique table + returned edge; `ref_count()` reports `rc - 1`); `Manager::gc` removes the
nodes with `rc == 1` level by level from the top and `free_slot` drops their children; apply-cache
entries hold no counted reference, `get` returns a clone of the value, `gc` clears the cache.

Forgetting the counters, a **successful** run of `binR / applyOpR / notR / iteR` is the run of
`binS / applyOpS / notS / iteS` (`RcSLemmas.lean`), so `Bcdd.PropertiesC06` transfers.
-/
namespace OxiddModel.Bcdd.Rc
open OxiddModel.Bcdd OxiddModel.Bcdd.Refine
open OxiddModel.Bdd.Refine (Policy OpTag Key Cache)
open OxiddModel.Bdd.Rc (rcGet rcSet)

/-- store + apply cache + time stamp (`Refine.StC`) and one counter per slot -/
structure RStC where
  st : StC
  rc : Array Nat

def RStC.store (r : RStC) : StoreC := r.st.store

/-- the state after one cache access -/
def RStC.tickd (r : RStC) : RStC := { r with st := r.st.tickd }

/-- what `InnerNode::ref_count()` reports: the counter without the unique table's own reference -/
def RStC.refCount (r : RStC) (i : Nat) : Nat := rcGet r.rc i - 1

/-- number of occupied slots (`num_inner_nodes`) -/
def _root_.OxiddModel.Bcdd.Refine.StoreC.count (s : StoreC) : Nat := s.nodes.countP Option.isSome

/-! ## `clone_edge`, `drop_edge` -/

/-- `clone_edge`: `retain()` on the target node (whatever the tag); the terminal is static -/
def cloneEdge (r : RStC) (x : EdgeC) : RStC :=
  match x.tgt with
  | .term => r
  | .inner i => { r with rc := rcSet r.rc i (rcGet r.rc i + 1) }

/-- `drop_edge`: `release()` on the target node (never frees: the unique table keeps its
reference) -/
def dropEdge (r : RStC) (x : EdgeC) : RStC :=
  match x.tgt with
  | .term => r
  | .inner i => { r with rc := rcSet r.rc i (rcGet r.rc i - 1) }

/-! ## `reduce` = reduction rule + tag normalisation + `get_or_insert` + `add_node` -/

/-- the children and the result tag as `reduce` builds them (for `t ≠ e`):
`if tt == Complemented { ([t.with_tag_owned(None), e.with_tag_owned(!et)], Complemented) }
 else { ([t, e], None) }` -/
def reduceRaw (t e : EdgeC) : EdgeC × EdgeC × Bool :=
  if t.neg then (⟨false, t.tgt⟩, ⟨!e.neg, e.tgt⟩, true) else (t, e, false)

/-- **then-edge regular**: the node `reduce` hands to the unique table never has a complemented
then-edge -/
theorem reduceRaw_then_regular (t e : EdgeC) : (reduceRaw t e).1.neg = false := by
  unfold reduceRaw
  split
  · rfl
  · rename_i h; simpa using h

/-- the node as stored (`NodeC` keeps only the target of the regular then-edge) -/
def reduceNode (level : Nat) (t e : EdgeC) : NodeC :=
  ⟨level, (reduceRaw t e).1.tgt, (reduceRaw t e).2.1⟩

/-- `reduce(manager, level, t, e, op)` with **owned** `t`, `e`:
* `t == e` (same tag, same target): `drop_edge(e); return Ok(t)`;
* tag normalisation (`reduceRaw`): owned references move, no counter changes;
* unique-table hit (`LevelViewSet::get_or_insert`, `Ok(slot)`): the rejected node is dropped
  (`drop_edge` of both children), then `clone_edge_unchecked(found)`; the result is
  `found.with_tag_owned(tag)`;
* miss, slot available (`add_node`, `Ok`): the children move into the node, `rc = 2`;
* miss, store full (`add_node`, `Err(OutOfMemory)`): `node.drop_with(|e| self.drop_edge(e))`. -/
def mkNodeR (cap : Nat) (r : RStC) (level : Nat) (t e : EdgeC) : Option EdgeC × RStC :=
  if t = e then (some t, dropEdge r e) else
  let n := reduceNode level t e
  let tag := (reduceRaw t e).2.2
  match r.st.store.find? n with
  | some i => (some ⟨tag, .inner i⟩, cloneEdge (dropEdge (dropEdge r t) e) ⟨tag, .inner i⟩)
  | none =>
    if r.st.store.count < cap then
      let a := r.st.store.alloc n
      (some ⟨tag, .inner a.2⟩, { st := { r.st with store := a.1 }, rc := rcSet r.rc a.2 2 })
    else (none, dropEdge (dropEdge r t) e)

/-- a leaking variant: `add_node` returns the error without dropping the children of the rejected
node (the class of the seeded change `C05-oom-leaks-children`) -/
def mkNodeLeak (cap : Nat) (r : RStC) (level : Nat) (t e : EdgeC) : Option EdgeC × RStC :=
  if t = e then (some t, dropEdge r e) else
  let n := reduceNode level t e
  let tag := (reduceRaw t e).2.2
  match r.st.store.find? n with
  | some i => (some ⟨tag, .inner i⟩, cloneEdge (dropEdge (dropEdge r t) e) ⟨tag, .inner i⟩)
  | none =>
    if r.st.store.count < cap then
      let a := r.st.store.alloc n
      (some ⟨tag, .inner a.2⟩, { st := { r.st with store := a.1 }, rc := rcSet r.rc a.2 2 })
    else (none, r)

/-! ## the algorithms -/

/-- `let h = reduce(..)?; apply_cache().add(.., h.borrowed()); Ok(h)` -/
def finishR (cap : Nat) (p : Policy) (r : RStC) (key : Key) (l : Nat) (e1 e0 : EdgeC) :
    Option EdgeC × RStC :=
  match mkNodeR cap r l e1 e0 with
  | (none, r') => (none, r')
  | (some h, r') =>
    (some h, { r' with st := ⟨r'.st.store, p.add r'.st.tick r'.st.cache key (enc h), r'.st.tick + 1⟩ })

/-- `let (t, e) = rec.binary(..)?` / `rec.ternary(..)?` with the `SequentialRecursor`
(`let ra = EdgeDropGuard::new(manager, op(a)?); let rb = EdgeDropGuard::new(manager, op(b)?);`),
followed by `reduce(.., t.into_edge(), e.into_edge(), ..)?` and the cache add: when the second
call fails the guard of the first result drops it -/
def forkR (cap : Nat) (p : Policy) (key : Key) (l : Nat) (c1 c0 : RStC → Option EdgeC × RStC)
    (r : RStC) : Option EdgeC × RStC :=
  match c1 r with
  | (none, r1) => (none, r1)
  | (some t, r1) =>
    match c0 r1 with
    | (none, r0) => (none, dropEdge r0 t)
    | (some e, r0) => finishR cap p r0 key l t e

/-- `not_edge`: `Ok(not_owned(manager.clone_edge(edge)))` — a tag flip on a clone; no allocation,
no failure, the only counter that changes is the one of the operand's node (+1 for the clone) -/
def notR (r : RStC) (f : EdgeC) : Option EdgeC × RStC := (some (notE f), cloneEdge r f)

/-- `apply_bin::<OP>` for `OP ∈ {And, Xor}` (operands borrowed, result owned): `Done(h)` of
`terminal_and` / `terminal_xor` is an owned edge (`clone_edge`, `get_terminal`, `not_owned`) -/
def binR (cap : Nat) (p : Policy) (op : BOp) : Nat → RStC → EdgeC → EdgeC → Option EdgeC × RStC
  | 0, r, f, _ => (some f, cloneEdge r f)
  | fuel+1, r, f, g =>
    match terminalOpS op f g with
    | .done h => (some h, cloneEdge r h)
    | .nodes =>
      -- `if f < g { (f, g) } else { (g, f) }` (borrowed)
      let k := orderPair f g
      match p.get r.st.tick r.st.cache (keyOf op k.1 k.2) with
      | some h => (some (dec h), cloneEdge r.tickd (dec h)) -- `get` returns a clone
      | none =>
        match r.st.store.level? k.1, r.st.store.level? k.2 with
        | some lf, some lg =>
          let l := min lf lg
          forkR cap p (keyOf op k.1 k.2) l
            (fun s => binR cap p op fuel s (r.st.store.cofT l k.1) (r.st.store.cofT l k.2))
            (fun s => binR cap p op fuel s (r.st.store.cofE l k.1) (r.st.store.cofE l k.2)) r.tickd
        | _, _ => (some k.1, cloneEdge r.tickd k.1) -- dangling edge (excluded by the invariant)

/-- `not_owned(x?)`: the tag of an owned result is flipped, an error is passed on -/
def mapNot (x : Option EdgeC × RStC) : Option EdgeC × RStC := (x.1.map notE, x.2)

/-- `and_edge`, `or_edge`, `nand_edge`, `nor_edge`, `xor_edge`, `equiv_edge`, `imp_edge`,
`imp_strict_edge`: `not(&f)` on borrowed operands, `not_owned` on the owned result -/
def applyOpR (cap : Nat) (p : Policy) (op : Op) (fuel : Nat) (r : RStC) (f g : EdgeC) :
    Option EdgeC × RStC :=
  match op with
  | .and => binR cap p .and fuel r f g
  | .or => mapNot (binR cap p .and fuel r (notE f) (notE g))
  | .nand => mapNot (binR cap p .and fuel r f g)
  | .nor => binR cap p .and fuel r (notE f) (notE g)
  | .xor => binR cap p .xor fuel r f g
  | .equiv => mapNot (binR cap p .xor fuel r f g)
  | .imp => mapNot (binR cap p .and fuel r f (notE g))
  | .impStrict => binR cap p .and fuel r (notE f) g

/-- `apply_ite` (operands borrowed, result owned), branch by branch as `iteS` -/
def iteR (cap : Nat) (p : Policy) : Nat → RStC → EdgeC → EdgeC → EdgeC → Option EdgeC × RStC
  | 0, r, f, _, _ => (some f, cloneEdge r f)
  | fuel+1, r, f, g, h =>
    if g.tgt = h.tgt then
      (if g.neg = h.neg then (some g, cloneEdge r g)                       -- `clone_edge(&g)`
       else mapNot (binR cap p .xor fuel r f g))                           -- f ↔ g
    else if f.tgt = g.tgt then
      (if f.neg = g.neg then mapNot (binR cap p .and fuel r (notE f) (notE h))   -- f ∨ h
       else binR cap p .and fuel r (notE f) h)                             -- f < h
    else if f.tgt = h.tgt then
      (if f.neg = h.neg then binR cap p .and fuel r f g
       else mapNot (binR cap p .and fuel r f (notE g)))                    -- f → g
    else
      match f.tgt with
      | .term => (some (if f.neg = false then g else h), cloneEdge r (if f.neg = false then g else h))
      | .inner _ =>
        match g.tgt, h.tgt with
        | .term, .inner _ =>
          if g.neg = false then mapNot (binR cap p .and fuel r (notE f) (notE h))  -- f ∨ h
          else binR cap p .and fuel r (notE f) h                           -- f < h
        | _, .term =>
          if h.neg = false then mapNot (binR cap p .and fuel r f (notE g))  -- f → g
          else binR cap p .and fuel r f g
        | .inner _, .inner _ =>
          match p.get r.st.tick r.st.cache (.ite, [enc f, enc g, enc h]) with
          | some x => (some (dec x), cloneEdge r.tickd (dec x))
          | none =>
            match r.st.store.level? f, r.st.store.level? g, r.st.store.level? h with
            | some lf, some lg, some lh =>
              let l := min (min lf lg) lh
              forkR cap p (.ite, [enc f, enc g, enc h]) l
                (fun s => iteR cap p fuel s (r.st.store.cofT l f) (r.st.store.cofT l g) (r.st.store.cofT l h))
                (fun s => iteR cap p fuel s (r.st.store.cofE l f) (r.st.store.cofE l g) (r.st.store.cofE l h))
                r.tickd
            | _, _, _ => (some f, cloneEdge r.tickd f)

/-- `var_edge`: `get_or_insert(InnerNode::new(level, [⊤, ⊥]))` (`get_terminal(true)`,
`get_terminal(false)`: static, no counter). `not_var_edge` is `not_edge_owned(var_edge(..)?)`. -/
def varR (cap : Nat) (r : RStC) (level : Nat) (neg : Bool) : Option EdgeC × RStC :=
  let x := mkNodeR cap r level (termC true) (termC false)
  if neg then mapNot x else x

/-! ## garbage collection -/

/-- one step of `LevelViewSet::gc` (`retain`): the node in slot `i`, if it is on level `l` and
only the unique table references it (`rc == 1`), is removed from the table and `free_slot`
drops its children -/
def gcSlot (l : Nat) (r : RStC) (i : Nat) : RStC :=
  match r.st.store.get? i with
  | none => r
  | some n =>
    if n.level = l ∧ rcGet r.rc i = 1 then
      dropEdge (dropEdge { r with st := { r.st with store := ⟨r.st.store.nodes.set! i none⟩ } }
        ⟨false, n.t⟩) n.e
    else r

/-- `level.gc(store)` for the unique table of level `l` -/
def gcLevel (r : RStC) (l : Nat) : RStC :=
  (List.range r.st.store.nodes.size).foldl (gcSlot l) r

/-- `Manager::gc`: `pre_gc` clears the apply cache; the unique tables are visited in level order -/
def gcR (numLevels : Nat) (r : RStC) : RStC :=
  (List.range numLevels).foldl gcLevel { r with st := { r.st with cache := [] } }

/-! ## the empty manager -/

def RStC.empty : RStC := ⟨⟨⟨#[]⟩, [], 0⟩, #[]⟩

end OxiddModel.Bcdd.Rc
