import OxiddModel.Bcdd.RcSLemmasAlg
import OxiddModel.Bcdd.RcSLemmasGc

/-!
# Histories over the BCDD counter model

A user of the manager holds a list of handles (owned edges, each with its complement tag) and
issues commands: create a variable, `not` (O(1): clone + tag flip), apply an operation to handles
(each with **its own capacity**, so any of them may fail with OutOfMemory at any allocation point),
clone a handle, drop a handle, collect garbage.
`Cmd.run_rc`: every command keeps `RcInv` for the handle list; `runAll_rc`: so does every sequence.
-/
namespace OxiddModel.Bcdd.Rc
open OxiddModel.Bcdd OxiddModel.Bcdd.Refine
open OxiddModel.Bdd.Refine (Policy OpTag Key Cache)

/-- the manager and the user's handles -/
structure HSt where
  r : RStC
  hs : List EdgeC

/-- operands are positions in the handle list; `cap` is the node capacity during the command -/
inductive Cmd where
  | var (cap level : Nat) (neg : Bool)
  | not (a : Nat)
  | bin (cap fuel : Nat) (op : Op) (a b : Nat)
  | ite (cap fuel a b c : Nat)
  | clone (a : Nat)
  | drop (a : Nat)
  | gc (numLevels : Nat)

/-- a successful operation yields a new handle, a failed one (OutOfMemory) none -/
def pushRes (h : HSt) (res : Option EdgeC × RStC) : HSt :=
  match res with
  | (some x, r') => ⟨r', x :: h.hs⟩
  | (none, r') => ⟨r', h.hs⟩

def Cmd.run (p : Policy) : Cmd → HSt → HSt
  | .var cap level neg, h => pushRes h (varR cap h.r level neg)
  | .not a, h =>
    match h.hs[a]? with
    | some f => pushRes h (notR h.r f)
    | none => h
  | .bin cap fuel op a b, h =>
    match h.hs[a]?, h.hs[b]? with
    | some f, some g => pushRes h (applyOpR cap p op fuel h.r f g)
    | _, _ => h
  | .ite cap fuel a b c, h =>
    match h.hs[a]?, h.hs[b]?, h.hs[c]? with
    | some f, some g, some k => pushRes h (iteR cap p fuel h.r f g k)
    | _, _, _ => h
  | .clone a, h =>
    match h.hs[a]? with
    | some f => ⟨cloneEdge h.r f, f :: h.hs⟩
    | none => h
  | .drop a, h =>
    match h.hs[a]? with
    | some f => ⟨dropEdge h.r f, h.hs.erase f⟩
    | none => h
  | .gc n, h => ⟨gcR n h.r, h.hs⟩

def runAll (p : Policy) (cmds : List Cmd) (h : HSt) : HSt := cmds.foldl (fun h c => c.run p h) h

theorem pushRes_rc {h : HSt} {res : Option EdgeC × RStC}
    (hres : match res with
      | (some x, r') => RcInv r' (x :: h.hs)
      | (none, r') => RcInv r' h.hs) :
    RcInv (pushRes h res).r (pushRes h res).hs := by
  obtain ⟨o, r'⟩ := res
  cases o <;> exact hres

theorem Cmd.run_rc {p : Policy} (pok : p.OK) (c : Cmd) (h : HSt) (hi : RcInv h.r h.hs) :
    RcInv (c.run p h).r (c.run p h).hs := by
  cases c with
  | var cap level neg => exact pushRes_rc (varR_rc hi).2
  | not a =>
    simp only [Cmd.run]
    cases ha : h.hs[a]? with
    | none => exact hi
    | some f => exact pushRes_rc (notR_rc hi (hi.ext_ok f (List.mem_of_getElem? ha))).2
  | bin cap fuel op a b =>
    simp only [Cmd.run]
    cases ha : h.hs[a]? with
    | none => exact hi
    | some f =>
      cases hb : h.hs[b]? with
      | none => exact hi
      | some g =>
        exact pushRes_rc (applyOpR_rc pok cap op fuel h.r f g h.hs hi
          (hi.ext_ok f (List.mem_of_getElem? ha)) (hi.ext_ok g (List.mem_of_getElem? hb))).2
  | ite cap fuel a b c =>
    simp only [Cmd.run]
    cases ha : h.hs[a]? with
    | none => exact hi
    | some f =>
      cases hb : h.hs[b]? with
      | none => exact hi
      | some g =>
        cases hc : h.hs[c]? with
        | none => exact hi
        | some k =>
          exact pushRes_rc (iteR_rc pok cap fuel h.r f g k h.hs hi
            (hi.ext_ok f (List.mem_of_getElem? ha)) (hi.ext_ok g (List.mem_of_getElem? hb))
            (hi.ext_ok k (List.mem_of_getElem? hc))).2
  | clone a =>
    simp only [Cmd.run]
    cases ha : h.hs[a]? with
    | none => exact hi
    | some f => exact cloneEdge_rc hi (hi.ext_ok f (List.mem_of_getElem? ha))
  | drop a =>
    simp only [Cmd.run]
    cases ha : h.hs[a]? with
    | none => exact hi
    | some f =>
      have hf := List.mem_of_getElem? ha
      exact dropEdge_rc (hi.perm (List.perm_cons_erase hf))
  | gc n => exact (gcR_rc n hi).1

theorem runAll_rc {p : Policy} (pok : p.OK) : ∀ (cmds : List Cmd) (h : HSt), RcInv h.r h.hs →
    RcInv (runAll p cmds h).r (runAll p cmds h).hs := by
  intro cmds
  induction cmds with
  | nil => intro h hi; exact hi
  | cons c cs ih => intro h hi; exact ih _ (Cmd.run_rc pok c h hi)

/-! ## an executable test for orderedness (for concrete examples) -/

def orderedB (s : StoreC) : Bool :=
  (List.range s.nodes.size).all fun i =>
    match s.get? i with
    | none => true
    | some n =>
      let ok : Tgt → Bool := fun x =>
        match x with
        | .term => true
        | .inner j =>
          match s.get? j with
          | some m => decide (n.level < m.level)
          | none => true
      ok n.t && ok n.e.tgt

theorem ordered_of_orderedB {s : StoreC} (h : orderedB s = true) : s.Ordered := by
  intro i n j m hi hc hj
  have hlt : i < s.nodes.size := by
    by_cases hlt : i < s.nodes.size
    · exact hlt
    · simp [StoreC.get?, hlt] at hi
  unfold orderedB at h
  rw [List.all_eq_true] at h
  have := h i (List.mem_range.mpr hlt)
  simp only [hi, Bool.and_eq_true] at this
  rcases hc with hc | hc
  · have h1 := this.1
    rw [hc] at h1
    simpa [hj] using h1
  · have h2 := this.2
    rw [hc] at h2
    simpa [hj] using h2

end OxiddModel.Bcdd.Rc
