import OxiddModel.Bcdd.RcSHistory
import OxiddModel.Bcdd.RcSLemmasClean

/-!
# The apply cache stays sound along every history — failures and collections included (BCDD)

`Cmd.run_inv` / `runAll_inv`: `InvC` (hash consing + every cache entry is the result of its key's
operator on its key's operands) is kept by every command of the counter model: variable creation
(success or OutOfMemory), `not`, the eight binary operators and `ite` under any capacity (success
**or OutOfMemory at any allocation point**), `clone`, `drop`, and `gc` (which clears the cache and
only empties slots). The only hypothesis is that the fuel of an operation suffices for its operands
(`Cmd.Valid`, as `CmdC.Valid` in `Bcdd/HistoryS.lean`).
-/
namespace OxiddModel.Bcdd.Rc
open OxiddModel.Bcdd OxiddModel.Bcdd.Refine
open OxiddModel.Bdd.Refine (Policy OpTag Key Cache)

/-- the operands are edges of the store denoting trees the fuel suffices for -/
def Cmd.Valid (c : Cmd) (h : HSt) : Prop :=
  match c with
  | .bin _ fuel _ a b => ∀ f g, h.hs[a]? = some f → h.hs[b]? = some g →
      ∃ ta tb, DenotesC h.r.st.store f ta ∧ DenotesC h.r.st.store g tb ∧ ta.size + tb.size ≤ fuel
  | .ite _ fuel a b c => ∀ f g k, h.hs[a]? = some f → h.hs[b]? = some g → h.hs[c]? = some k →
      ∃ ta tb tc, DenotesC h.r.st.store f ta ∧ DenotesC h.r.st.store g tb ∧
        DenotesC h.r.st.store k tc ∧ ta.size + tb.size + tc.size ≤ fuel
  | _ => True

/-- every command is valid in the state in which it is executed -/
def ValidAll (p : Policy) : List Cmd → HSt → Prop
  | [], _ => True
  | c :: cs, h => c.Valid h ∧ ValidAll p cs (c.run p h)

theorem gcR_cache (n : Nat) (r : RStC) : (gcR n r).st.cache = [] := by
  unfold gcR
  exact gcLevels_ind (P := fun r' => r'.st.cache = [])
    (fun l r' i h => by
      rw [gcSlot_eq]
      cases r'.st.store.get? i with
      | none => exact h
      | some m =>
        simp only
        split
        · rw [freeSlot_cache]; exact h
        · exact h) _ _ rfl

theorem mkNodeR_inv {cap : Nat} {r : RStC} {l : Nat} {t e : EdgeC} (hinv : InvC r.st) :
    InvC (mkNodeR cap r l t e).2.st := by
  obtain ⟨hc, _, hm⟩ := mkNodeR_erase cap r l t e
  have hle : r.st.store.Le (mkNodeR cap r l t e).2.st.store := by
    cases hR : (mkNodeR cap r l t e).1 with
    | none => rw [hR] at hm; simp only at hm; rw [hm]; exact StoreC.Le.refl _
    | some x =>
      rw [hR] at hm; simp only at hm
      have : (mkNodeR cap r l t e).2.st.store = (r.st.store.mkNodeC l t e).1 := by rw [hm]
      rw [this]; exact mkNodeC_le _ _ _ _
  refine ⟨?_, ?_⟩
  · cases hR : (mkNodeR cap r l t e).1 with
    | none => rw [hR] at hm; simp only at hm; rw [hm]; exact hinv.1
    | some x =>
      rw [hR] at hm; simp only at hm
      have : (mkNodeR cap r l t e).2.st.store = (r.st.store.mkNodeC l t e).1 := by rw [hm]
      rw [this]; exact mkNodeC_unique _ _ _ _ hinv.1
  · rw [hc]; exact hinv.2.mono hle

theorem pushRes_st (h : HSt) (res : Option EdgeC × RStC) : (pushRes h res).r = res.2 := by
  obtain ⟨o, r'⟩ := res
  cases o <;> rfl

theorem Cmd.run_inv {p : Policy} (pok : p.OK) (c : Cmd) (h : HSt) (hinv : InvC h.r.st)
    (hv : c.Valid h) : InvC (c.run p h).r.st := by
  cases c with
  | var cap level neg =>
    simp only [Cmd.run, pushRes_st, varR]
    split
    · exact mkNodeR_inv hinv
    · exact mkNodeR_inv hinv
  | not a =>
    simp only [Cmd.run]
    cases ha : h.hs[a]? with
    | none => exact hinv
    | some f => simp only [pushRes_st, notR, cloneEdge_st]; exact hinv
  | bin cap fuel op a b =>
    simp only [Cmd.run]
    cases ha : h.hs[a]? with
    | none => exact hinv
    | some f =>
      cases hb : h.hs[b]? with
      | none => exact hinv
      | some g =>
        obtain ⟨ta, tb, hf, hg, hsz⟩ := hv f g ha hb
        simp only [pushRes_st]
        exact applyOpR_fail_inv pok cap op fuel h.r f g ta tb hinv hf hg hsz
  | ite cap fuel a b c =>
    simp only [Cmd.run]
    cases ha : h.hs[a]? with
    | none => exact hinv
    | some f =>
      cases hb : h.hs[b]? with
      | none => exact hinv
      | some g =>
        cases hc : h.hs[c]? with
        | none => exact hinv
        | some k =>
          obtain ⟨ta, tb, tc, hf, hg, hk, hsz⟩ := hv f g k ha hb hc
          simp only [pushRes_st]
          exact iteR_fail_inv pok cap fuel h.r f g k ta tb tc hinv hf hg hk hsz
  | clone a =>
    simp only [Cmd.run]
    cases ha : h.hs[a]? with
    | none => exact hinv
    | some f => simp only [cloneEdge_st]; exact hinv
  | drop a =>
    simp only [Cmd.run]
    cases ha : h.hs[a]? with
    | none => exact hinv
    | some f => simp only [dropEdge_st]; exact hinv
  | gc n =>
    simp only [Cmd.run]
    refine ⟨?_, ?_⟩
    · intro i j m hi hj
      exact hinv.1 i j m (gcR_sub n h.r i m hi) (gcR_sub n h.r j m hj)
    · rw [gcR_cache]; exact CacheOKC.nil _

theorem runAll_inv {p : Policy} (pok : p.OK) : ∀ (cmds : List Cmd) (h : HSt), InvC h.r.st →
    ValidAll p cmds h → InvC (runAll p cmds h).r.st := by
  intro cmds
  induction cmds with
  | nil => intro h hi _; exact hi
  | cons c cs ih => intro h hi hv; exact ih _ (Cmd.run_inv pok c h hi hv.1) hv.2

end OxiddModel.Bcdd.Rc
