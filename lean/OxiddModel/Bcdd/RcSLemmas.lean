import OxiddModel.Bcdd.RcS
import OxiddModel.Bdd.RcSLemmas

/-!
# Erasure of the counters (BCDD)

* the counters influence nothing else (`cloneEdge_st`, `dropEdge_st`);
* **erasure**: a *successful* run of `mkNodeR / finishR / binR / applyOpR / notR / iteR` is, with the
  counters forgotten, the run of `mkNodeC / finishC / binS / applyOpS / notS / iteS` of
  `Bcdd/ApplyS.lean`, `Bcdd/IteS.lean`: same result edge, same store, same cache, same time stamp —
  for all inputs and capacities, without any hypothesis. (The capacity-free algorithms cannot fail,
  so nothing corresponds to a failing run; what a failing run leaves behind is described by
  `RcSLemmasAlg.lean` and `RcSLemmasOrd.lean`.)
-/
namespace OxiddModel.Bcdd.Rc
open OxiddModel.Bcdd OxiddModel.Bcdd.Refine
open OxiddModel.Bdd.Refine (Policy OpTag Key Cache)
open OxiddModel.Bdd.Rc (rcGet rcSet rcGet_rcSet)

@[simp] theorem cloneEdge_st (r : RStC) (e : EdgeC) : (cloneEdge r e).st = r.st := by
  unfold cloneEdge; split <;> rfl

@[simp] theorem dropEdge_st (r : RStC) (e : EdgeC) : (dropEdge r e).st = r.st := by
  unfold dropEdge; split <;> rfl

@[simp] theorem tickd_st (r : RStC) : r.tickd.st = r.st.tickd := rfl
@[simp] theorem tickd_rc (r : RStC) : r.tickd.rc = r.rc := rfl

/-- the counter does not see the tag: cloning `¬f` is cloning `f` -/
theorem cloneEdge_notE (r : RStC) (f : EdgeC) : cloneEdge r (notE f) = cloneEdge r f := rfl

theorem dropEdge_notE (r : RStC) (f : EdgeC) : dropEdge r (notE f) = dropEdge r f := rfl

/-- `reduce`'s node and tag are those of `StoreC.mkNodeC` -/
theorem mkNodeC_eq (s : StoreC) (l : Nat) (t e : EdgeC) (hte : t ≠ e) :
    s.mkNodeC l t e =
      ((s.getOrInsert (reduceNode l t e)).1, ⟨(reduceRaw t e).2.2, .inner (s.getOrInsert (reduceNode l t e)).2⟩) := by
  unfold StoreC.mkNodeC reduceNode reduceRaw
  simp only [hte, if_false]
  cases t.neg <;> simp

/-- **`mkNodeR` without counters is `mkNodeC`** (on success); on failure the store is unchanged;
cache and time stamp are never touched -/
theorem mkNodeR_erase (cap : Nat) (r : RStC) (l : Nat) (t e : EdgeC) :
    (mkNodeR cap r l t e).2.st.cache = r.st.cache ∧ (mkNodeR cap r l t e).2.st.tick = r.st.tick ∧
    match (mkNodeR cap r l t e).1 with
    | some h => r.st.store.mkNodeC l t e = ((mkNodeR cap r l t e).2.st.store, h)
    | none => (mkNodeR cap r l t e).2.st.store = r.st.store := by
  by_cases hte : t = e
  · subst hte
    simp [mkNodeR, StoreC.mkNodeC]
  · rw [mkNodeC_eq _ _ _ _ hte]
    unfold mkNodeR StoreC.getOrInsert
    simp only [hte, if_false]
    cases hf : r.st.store.find? (reduceNode l t e) with
    | some i => simp
    | none =>
      by_cases hc : r.st.store.count < cap
      · simp [hc]
      · simp [hc]

/-- results of the counted run `x` and the plain run `y` agree whenever `x` succeeds -/
def EraseOK (x : Option EdgeC × RStC) (y : StC × EdgeC) : Prop :=
  ∀ h, x.1 = some h → y = (x.2.st, h)

theorem EraseOK.mapNot {x : Option EdgeC × RStC} {y : StC × EdgeC} (h : EraseOK x y) :
    EraseOK (mapNot x) (y.1, notE y.2) := by
  intro k hk
  obtain ⟨o, r'⟩ := x
  cases o with
  | none => simp [Rc.mapNot] at hk
  | some a =>
    have := h a rfl
    simp only [Rc.mapNot, Option.map_some, Option.some.injEq] at hk
    subst hk
    rw [this]
    rfl

theorem finishR_erase (cap : Nat) (p : Policy) (r : RStC) (key : Key) (l : Nat) (e1 e0 : EdgeC) :
    EraseOK (finishR cap p r key l e1 e0) (finishC p r.st key l e1 e0) := by
  obtain ⟨hc, ht, hm⟩ := mkNodeR_erase cap r l e1 e0
  unfold finishR finishC EraseOK
  cases hR : mkNodeR cap r l e1 e0 with
  | mk o r' =>
    rw [hR] at hc ht hm
    cases o with
    | none => intro h hh; cases hh
    | some x =>
      simp only at hm hc ht ⊢
      intro h hh
      cases hh
      rw [hm, hc, ht]

theorem forkR_erase {cap : Nat} {p : Policy} {key : Key} {l : Nat}
    {c1R c0R : RStC → Option EdgeC × RStC} {c1S c0S : StC → StC × EdgeC}
    (h1 : ∀ r, EraseOK (c1R r) (c1S r.st)) (h0 : ∀ r, EraseOK (c0R r) (c0S r.st)) (r : RStC) :
    EraseOK (forkR cap p key l c1R c0R r)
      (finishC p (c0S (c1S r.st).1).1 key l (c1S r.st).2 (c0S (c1S r.st).1).2) := by
  unfold forkR
  have e1 := h1 r
  cases hc1 : c1R r with
  | mk o1 r1 =>
    rw [hc1] at e1
    cases o1 with
    | none => intro h hh; cases hh
    | some t =>
      have e1' := e1 t rfl
      simp only at e1' ⊢
      have e0 := h0 r1
      cases hc0 : c0R r1 with
      | mk o0 r0 =>
        rw [hc0] at e0
        cases o0 with
        | none => intro h hh; cases hh
        | some e =>
          have e0' := e0 e rfl
          simp only at e0' ⊢
          rw [e1']
          simp only
          rw [e0']
          exact finishR_erase cap p r0 key l t e

theorem notR_erase (r : RStC) (f : EdgeC) : EraseOK (notR r f) (notS r.st f) := by
  intro h hh
  simp only [notR, Option.some.injEq] at hh
  subst hh
  simp [notR, notS]

theorem binR_erase (cap : Nat) (p : Policy) (op : BOp) (fuel : Nat) : ∀ (r : RStC) (f g : EdgeC),
    EraseOK (binR cap p op fuel r f g) (binS p op fuel r.st f g) := by
  induction fuel with
  | zero => intro r f g h hh; simp only [binR, Option.some.injEq] at hh; subst hh; simp [binR, binS]
  | succ fuel ih =>
    intro r f g
    simp only [binR, binS]
    cases hT : terminalOpS op f g with
    | done e => intro h hh; simp only [Option.some.injEq] at hh; subst hh; simp
    | nodes =>
      simp only
      generalize orderPair f g = k
      cases hget : p.get r.st.tick r.st.cache (keyOf op k.1 k.2) with
      | some x => intro h hh; simp only [Option.some.injEq] at hh; subst hh; simp
      | none =>
        cases hlf : r.st.store.level? k.1 with
        | none => intro h hh; simp only [Option.some.injEq] at hh; subst hh; simp
        | some lf =>
          cases hlg : r.st.store.level? k.2 with
          | none => intro h hh; simp only [Option.some.injEq] at hh; subst hh; simp
          | some lg =>
            simp only
            exact forkR_erase
              (c1S := fun s => binS p op fuel s (r.st.store.cofT (min lf lg) k.1) (r.st.store.cofT (min lf lg) k.2))
              (c0S := fun s => binS p op fuel s (r.st.store.cofE (min lf lg) k.1) (r.st.store.cofE (min lf lg) k.2))
              (fun s => ih s _ _) (fun s => ih s _ _) r.tickd

theorem applyOpR_erase' (cap : Nat) (p : Policy) (op : Op) (fuel : Nat) (r : RStC) (f g : EdgeC) :
    EraseOK (applyOpR cap p op fuel r f g) (applyOpS p op fuel r.st f g) := by
  cases op <;> simp only [applyOpR, applyOpS, andS, xorS]
  · exact binR_erase cap p .and fuel r f g
  · exact (binR_erase cap p .and fuel r _ _).mapNot
  · exact (binR_erase cap p .and fuel r _ _).mapNot
  · exact binR_erase cap p .and fuel r _ _
  · exact binR_erase cap p .xor fuel r f g
  · exact (binR_erase cap p .xor fuel r _ _).mapNot
  · exact (binR_erase cap p .and fuel r _ _).mapNot
  · exact binR_erase cap p .and fuel r _ _

theorem EraseOK.clone (r : RStC) (x : EdgeC) : EraseOK (some x, cloneEdge r x) (r.st, x) := by
  intro h hh; simp only [Option.some.injEq] at hh; subst hh; simp

theorem iteR_erase' (cap : Nat) (p : Policy) (fuel : Nat) : ∀ (r : RStC) (f g h : EdgeC),
    EraseOK (iteR cap p fuel r f g h) (iteS p fuel r.st f g h) := by
  induction fuel with
  | zero => intro r f g h; exact EraseOK.clone r f
  | succ fuel ih =>
    intro r f g h
    simp only [iteR, iteS, andS, xorS]
    by_cases h1 : g.tgt = h.tgt
    · simp only [h1, if_true]
      by_cases h2 : g.neg = h.neg
      · simp only [h2, if_true]; exact EraseOK.clone r g
      · simp only [h2, if_false]; exact (binR_erase cap p .xor fuel r _ _).mapNot
    · simp only [h1, if_false]
      by_cases h3 : f.tgt = g.tgt
      · simp only [h3, if_true]
        by_cases h4 : f.neg = g.neg
        · simp only [h4, if_true]; exact (binR_erase cap p .and fuel r _ _).mapNot
        · simp only [h4, if_false]; exact binR_erase cap p .and fuel r _ _
      · simp only [h3, if_false]
        by_cases h5 : f.tgt = h.tgt
        · simp only [h5, if_true]
          by_cases h6 : f.neg = h.neg
          · simp only [h6, if_true]; exact binR_erase cap p .and fuel r _ _
          · simp only [h6, if_false]; exact (binR_erase cap p .and fuel r _ _).mapNot
        · simp only [h5, if_false]
          cases hft : f.tgt with
          | term => simp only; exact EraseOK.clone r _
          | inner i =>
            simp only
            cases hgt : g.tgt with
            | term =>
              cases hht : h.tgt with
              | term => rw [hgt, hht] at h1; exact absurd rfl h1
              | inner k =>
                simp only
                by_cases h7 : g.neg = false
                · simp only [h7, if_true]; exact (binR_erase cap p .and fuel r _ _).mapNot
                · simp only [h7]; exact binR_erase cap p .and fuel r _ _
            | inner j =>
              cases hht : h.tgt with
              | term =>
                simp only
                by_cases h7 : h.neg = false
                · simp only [h7, if_true]; exact (binR_erase cap p .and fuel r _ _).mapNot
                · simp only [h7]; exact binR_erase cap p .and fuel r _ _
              | inner k =>
                simp only
                cases hget : p.get r.st.tick r.st.cache (.ite, [enc f, enc g, enc h]) with
                | some x => exact EraseOK.clone r.tickd (dec x)
                | none =>
                  simp only
                  cases hlf : r.st.store.level? f with
                  | none => exact EraseOK.clone r.tickd f
                  | some lf =>
                    cases hlg : r.st.store.level? g with
                    | none => exact EraseOK.clone r.tickd f
                    | some lg =>
                      cases hlh : r.st.store.level? h with
                      | none => exact EraseOK.clone r.tickd f
                      | some lh =>
                        simp only
                        exact forkR_erase
                          (c1S := fun s => iteS p fuel s (r.st.store.cofT (min (min lf lg) lh) f)
                            (r.st.store.cofT (min (min lf lg) lh) g) (r.st.store.cofT (min (min lf lg) lh) h))
                          (c0S := fun s => iteS p fuel s (r.st.store.cofE (min (min lf lg) lh) f)
                            (r.st.store.cofE (min (min lf lg) lh) g) (r.st.store.cofE (min (min lf lg) lh) h))
                          (fun s => ih s _ _ _) (fun s => ih s _ _ _) r.tickd

end OxiddModel.Bcdd.Rc
