import OxiddModel.Bcdd.RcSLemmasInv

/-!
# The BCDD apply algorithms keep the counters exact — on success and on every failure path

`RcPost r ext R`: the run `R` started in `r` by a caller owning `ext` only extended the store and
ends with exact counters for `result :: ext` (success) resp. `ext` (OutOfMemory).
`finishR_rc`, `forkR_rc` (the sequential recursor with its drop guard), `notR_rc`, `binR_rc`
(both kernels), `applyOpR_rc` (all eight operators: `not(&f)` on the operands and `not_owned` on
the result do not touch a counter), `iteR_rc` (every tagged shortcut): for every capacity, fuel,
policy (`Policy.OK`) and all operands that point to stored nodes. No semantic hypothesis
(denotation, fuel bound) is needed.
-/
namespace OxiddModel.Bcdd.Rc
open OxiddModel.Bcdd OxiddModel.Bcdd.Refine
open OxiddModel.Bdd.Refine (Policy OpTag Key Cache)
open OxiddModel.Bdd.Rc (rcGet rcSet rcGet_rcSet)

/-- postcondition of a run from `r` whose caller owns the edges `ext` -/
def RcPost (r : RStC) (ext : List EdgeC) (R : Option EdgeC × RStC) : Prop :=
  r.st.store.Le R.2.st.store ∧
  match R with
  | (some x, r') => RcInv r' (x :: ext)
  | (none, r') => RcInv r' ext

/-- returning a clone of a stored edge -/
theorem RcPost.clone {r : RStC} {ext : List EdgeC} {x : EdgeC} (h : RcInv r ext)
    (hx : r.st.store.has x) : RcPost r ext (some x, cloneEdge r x) :=
  ⟨by rw [cloneEdge_st]; exact StoreC.Le.refl _, cloneEdge_rc h hx⟩

theorem RcPost.clone_tickd {r : RStC} {ext : List EdgeC} {x : EdgeC} (h : RcInv r ext)
    (hx : r.st.store.has x) : RcPost r ext (some x, cloneEdge r.tickd x) :=
  ⟨by rw [cloneEdge_st]; exact StoreC.Le.refl _, cloneEdge_rc h.tickd hx⟩

/-- `not_owned` on an owned result -/
theorem RcPost.mapNot {r : RStC} {ext : List EdgeC} {R : Option EdgeC × RStC} (h : RcPost r ext R) :
    RcPost r ext (mapNot R) := by
  obtain ⟨o, r'⟩ := R
  cases o with
  | none => exact h
  | some x => exact ⟨h.1, h.2.notE_head⟩

theorem mkNodeR_le (cap : Nat) (r : RStC) (l : Nat) (t e : EdgeC) :
    r.st.store.Le (mkNodeR cap r l t e).2.st.store := by
  unfold mkNodeR
  split
  · simp only [dropEdge_st]; exact StoreC.Le.refl _
  · simp only
    split
    · simp only [cloneEdge_st, dropEdge_st]; exact StoreC.Le.refl _
    · split
      · exact alloc_le _ _
      · simp only [dropEdge_st]; exact StoreC.Le.refl _

/-- `reduce(..)?` + cache add -/
theorem finishR_rc {p : Policy} (pok : p.OK) {cap : Nat} {r : RStC} {key : Key} {l : Nat}
    {t e : EdgeC} {ext : List EdgeC} (h : RcInv r (t :: e :: ext)) :
    RcPost r ext (finishR cap p r key l t e) := by
  have hm := mkNodeR_rc (cap := cap) (l := l) h
  have hle := mkNodeR_le cap r l t e
  unfold finishR
  cases hR : mkNodeR cap r l t e with
  | mk o r' =>
    rw [hR] at hm hle
    cases o with
    | none => exact ⟨hle, hm⟩
    | some x =>
      simp only at hm ⊢
      refine ⟨hle, ⟨hm.ext_ok, hm.kids_ok, ?_, hm.rc_eq⟩⟩
      intro k v hkv
      rcases pok.add_sub _ _ _ _ _ hkv with hold | hnew
      · exact hm.cache_ok k v hold
      · cases hnew
        rw [dec_enc]
        exact hm.ext_ok x List.mem_cons_self

/-- the sequential recursor: first call, second call (the first result is guarded), `reduce`,
cache add — exact counters whichever of the three fails -/
theorem forkR_rc {p : Policy} (pok : p.OK) {cap : Nat} {key : Key} {l : Nat}
    {c1 c0 : RStC → Option EdgeC × RStC} {r : RStC} {ext : List EdgeC}
    (h1 : RcPost r ext (c1 r))
    (h0 : ∀ t r1, RcInv r1 (t :: ext) → r.st.store.Le r1.st.store → RcPost r1 (t :: ext) (c0 r1)) :
    RcPost r ext (forkR cap p key l c1 c0 r) := by
  unfold forkR
  cases hc1 : c1 r with
  | mk o1 r1 =>
    rw [hc1] at h1
    cases o1 with
    | none => exact h1
    | some t =>
      obtain ⟨le1, i1⟩ := h1
      simp only at i1 le1 ⊢
      have h0' := h0 t r1 i1 le1
      cases hc0 : c0 r1 with
      | mk o0 r0 =>
        rw [hc0] at h0'
        obtain ⟨le0, i0⟩ := h0'
        cases o0 with
        | none =>
          simp only at i0 le0 ⊢
          refine ⟨?_, dropEdge_rc i0⟩
          simp only [dropEdge_st]
          exact le1.trans le0
        | some e =>
          simp only at i0 le0 ⊢
          have hf := finishR_rc pok (cap := cap) (key := key) (l := l) i0.swap
          exact ⟨le1.trans (le0.trans hf.1), hf.2⟩

/-! ## cofactors and terminal cases stay inside the store -/

theorem cofT_has {r : RStC} {ext : List EdgeC} (h : RcInv r ext) (l : Nat) {f : EdgeC}
    (hf : r.st.store.has f) : r.st.store.has (r.st.store.cofT l f) := by
  unfold StoreC.cofT
  cases hft : f.tgt with
  | term => exact hf
  | inner i =>
    simp only
    cases hi : r.st.store.get? i with
    | none => exact hf
    | some n =>
      simp only
      split
      · exact (h.kids_ok i n hi).1
      · exact hf

theorem cofE_has {r : RStC} {ext : List EdgeC} (h : RcInv r ext) (l : Nat) {f : EdgeC}
    (hf : r.st.store.has f) : r.st.store.has (r.st.store.cofE l f) := by
  unfold StoreC.cofE
  cases hft : f.tgt with
  | term => exact hf
  | inner i =>
    simp only
    cases hi : r.st.store.get? i with
    | none => exact hf
    | some n =>
      simp only
      split
      · exact (h.kids_ok i n hi).2
      · exact hf

/-- what `terminal_and` / `terminal_xor` return points where an operand points, or to the
terminal -/
theorem terminalOpS_shape (op : BOp) (f g : EdgeC) :
    match terminalOpS op f g with
    | .done h => h.tgt = f.tgt ∨ h.tgt = g.tgt ∨ h.tgt = .term
    | .nodes => True := by
  obtain ⟨fn, ft⟩ := f
  obtain ⟨gn, gt⟩ := g
  cases op <;> cases fn <;> cases gn <;>
    (by_cases hfg : ft = gt
     · subst hfg
       simp [terminalOpS, terminalAndS, terminalXorS, termC]
     · cases ft <;> cases gt <;>
         simp_all [terminalOpS, terminalAndS, terminalXorS, termC, notE])

theorem terminalOpS_done_has {s : StoreC} {op : BOp} {f g h : EdgeC} (hf : s.has f) (hg : s.has g)
    (ht : terminalOpS op f g = .done h) : s.has h := by
  have := terminalOpS_shape op f g
  rw [ht] at this
  unfold StoreC.has at *
  rcases this with e | e | e <;> rw [e]
  · exact hf
  · exact hg
  · trivial

theorem orderPair_has {s : StoreC} {f g : EdgeC} (hf : s.has f) (hg : s.has g) :
    s.has (orderPair f g).1 ∧ s.has (orderPair f g).2 := by
  rcases orderPair_cases f g with h | h <;> rw [h]
  · exact ⟨hf, hg⟩
  · exact ⟨hg, hf⟩

/-! ## the algorithms -/

/-- `not_edge`: one clone, tag flipped -/
theorem notR_rc {r : RStC} {f : EdgeC} {ext : List EdgeC} (h : RcInv r ext)
    (hf : r.st.store.has f) : RcPost r ext (notR r f) :=
  ⟨by simp only [notR, cloneEdge_st]; exact StoreC.Le.refl _, (cloneEdge_rc h hf).notE_head⟩

theorem binR_rc {p : Policy} (pok : p.OK) (cap : Nat) (op : BOp) (fuel : Nat) :
    ∀ (r : RStC) (f g : EdgeC) (ext : List EdgeC), RcInv r ext → r.st.store.has f →
      r.st.store.has g → RcPost r ext (binR cap p op fuel r f g) := by
  induction fuel with
  | zero => intro r f g ext h hf _; exact RcPost.clone h hf
  | succ fuel ih =>
    intro r f g ext h hf hg
    simp only [binR]
    cases hT : terminalOpS op f g with
    | done x => exact RcPost.clone h (terminalOpS_done_has hf hg hT)
    | nodes =>
      simp only
      obtain ⟨hk1, hk2⟩ := orderPair_has hf hg
      generalize orderPair f g = k at hk1 hk2
      cases hget : p.get r.st.tick r.st.cache (keyOf op k.1 k.2) with
      | some x => exact RcPost.clone_tickd h (h.cache_ok _ _ (pok.get_mem _ _ _ _ hget))
      | none =>
        cases hlf : r.st.store.level? k.1 with
        | none => exact RcPost.clone_tickd h hk1
        | some lf =>
          cases hlg : r.st.store.level? k.2 with
          | none => exact RcPost.clone_tickd h hk1
          | some lg =>
            simp only
            exact forkR_rc pok (cap := cap) (r := r.tickd) (ext := ext)
              (c1 := fun s => binR cap p op fuel s (r.st.store.cofT (min lf lg) k.1) (r.st.store.cofT (min lf lg) k.2))
              (c0 := fun s => binR cap p op fuel s (r.st.store.cofE (min lf lg) k.1) (r.st.store.cofE (min lf lg) k.2))
              (ih _ _ _ _ h.tickd (cofT_has h _ hk1) (cofT_has h _ hk2))
              (fun t r1 i1 le1 => ih _ _ _ _ i1 ((cofE_has h _ hk1).mono le1) ((cofE_has h _ hk2).mono le1))

theorem applyOpR_rc {p : Policy} (pok : p.OK) (cap : Nat) (op : Op) (fuel : Nat) (r : RStC)
    (f g : EdgeC) (ext : List EdgeC) (h : RcInv r ext) (hf : r.st.store.has f)
    (hg : r.st.store.has g) : RcPost r ext (applyOpR cap p op fuel r f g) := by
  cases op <;> simp only [applyOpR]
  · exact binR_rc pok cap .and fuel r f g ext h hf hg
  · exact (binR_rc pok cap .and fuel r _ _ ext h (has_notE hf) (has_notE hg)).mapNot
  · exact (binR_rc pok cap .and fuel r f g ext h hf hg).mapNot
  · exact binR_rc pok cap .and fuel r _ _ ext h (has_notE hf) (has_notE hg)
  · exact binR_rc pok cap .xor fuel r f g ext h hf hg
  · exact (binR_rc pok cap .xor fuel r f g ext h hf hg).mapNot
  · exact (binR_rc pok cap .and fuel r _ _ ext h hf (has_notE hg)).mapNot
  · exact binR_rc pok cap .and fuel r _ _ ext h (has_notE hf) hg

theorem iteR_rc {p : Policy} (pok : p.OK) (cap : Nat) (fuel : Nat) :
    ∀ (r : RStC) (f g h : EdgeC) (ext : List EdgeC), RcInv r ext → r.st.store.has f →
      r.st.store.has g → r.st.store.has h → RcPost r ext (iteR cap p fuel r f g h) := by
  induction fuel with
  | zero => intro r f g h ext hi hf _ _; exact RcPost.clone hi hf
  | succ fuel ih =>
    intro r f g h ext hi hf hg hh
    have A := fun (a b : EdgeC) (ha : r.st.store.has a) (hb : r.st.store.has b) =>
      binR_rc pok cap .and fuel r a b ext hi ha hb
    simp only [iteR]
    by_cases h1 : g.tgt = h.tgt
    · simp only [h1, if_true]
      by_cases h2 : g.neg = h.neg
      · simp only [h2, if_true]; exact RcPost.clone hi hg
      · simp only [h2, if_false]; exact (binR_rc pok cap .xor fuel r f g ext hi hf hg).mapNot
    · simp only [h1, if_false]
      by_cases h3 : f.tgt = g.tgt
      · simp only [h3, if_true]
        by_cases h4 : f.neg = g.neg
        · simp only [h4, if_true]; exact (A _ _ (has_notE hf) (has_notE hh)).mapNot
        · simp only [h4, if_false]; exact A _ _ (has_notE hf) hh
      · simp only [h3, if_false]
        by_cases h5 : f.tgt = h.tgt
        · simp only [h5, if_true]
          by_cases h6 : f.neg = h.neg
          · simp only [h6, if_true]; exact A _ _ hf hg
          · simp only [h6, if_false]; exact (A _ _ hf (has_notE hg)).mapNot
        · simp only [h5, if_false]
          cases hft : f.tgt with
          | term =>
            simp only
            split
            · exact RcPost.clone hi hg
            · exact RcPost.clone hi hh
          | inner i =>
            simp only
            cases hgt : g.tgt with
            | term =>
              cases hht : h.tgt with
              | term => rw [hgt, hht] at h1; exact absurd rfl h1
              | inner k =>
                simp only
                split
                · exact (A _ _ (has_notE hf) (has_notE hh)).mapNot
                · exact A _ _ (has_notE hf) hh
            | inner j =>
              cases hht : h.tgt with
              | term =>
                simp only
                split
                · exact (A _ _ hf (has_notE hg)).mapNot
                · exact A _ _ hf hg
              | inner k =>
                simp only
                cases hget : p.get r.st.tick r.st.cache (.ite, [enc f, enc g, enc h]) with
                | some x => exact RcPost.clone_tickd hi (hi.cache_ok _ _ (pok.get_mem _ _ _ _ hget))
                | none =>
                  simp only
                  cases hlf : r.st.store.level? f with
                  | none => exact RcPost.clone_tickd hi hf
                  | some lf =>
                    cases hlg : r.st.store.level? g with
                    | none => exact RcPost.clone_tickd hi hf
                    | some lg =>
                      cases hlh : r.st.store.level? h with
                      | none => exact RcPost.clone_tickd hi hf
                      | some lh =>
                        simp only
                        exact forkR_rc pok (cap := cap) (r := r.tickd) (ext := ext)
                          (c1 := fun s => iteR cap p fuel s (r.st.store.cofT (min (min lf lg) lh) f)
                            (r.st.store.cofT (min (min lf lg) lh) g) (r.st.store.cofT (min (min lf lg) lh) h))
                          (c0 := fun s => iteR cap p fuel s (r.st.store.cofE (min (min lf lg) lh) f)
                            (r.st.store.cofE (min (min lf lg) lh) g) (r.st.store.cofE (min (min lf lg) lh) h))
                          (ih _ _ _ _ _ hi.tickd (cofT_has hi _ hf) (cofT_has hi _ hg) (cofT_has hi _ hh))
                          (fun t r1 i1 le1 => ih _ _ _ _ _ i1 ((cofE_has hi _ hf).mono le1)
                            ((cofE_has hi _ hg).mono le1) ((cofE_has hi _ hh).mono le1))

/-- `var_edge` / `not_var_edge` -/
theorem varR_rc {cap : Nat} {r : RStC} {level : Nat} {neg : Bool} {ext : List EdgeC}
    (h : RcInv r ext) : RcPost r ext (varR cap r level neg) := by
  have h2 : RcInv r (termC true :: termC false :: ext) :=
    cloneEdge_rc (x := termC true) (cloneEdge_rc (x := termC false) h trivial) trivial
  have hp : RcPost r ext (mkNodeR cap r level (termC true) (termC false)) :=
    ⟨mkNodeR_le _ _ _ _ _, mkNodeR_rc h2⟩
  unfold varR
  simp only
  split
  · exact hp.mapNot
  · exact hp

end OxiddModel.Bcdd.Rc
