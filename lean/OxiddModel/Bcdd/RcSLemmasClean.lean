import OxiddModel.Bcdd.RcSLemmas

/-!
# A failing run leaves a sound manager behind (BCDD)

`binR_fail_inv / applyOpR_fail_inv / iteR_fail_inv`: when the capacity-bounded run reports
OutOfMemory — at whichever allocation point — hash consing **and the soundness of the apply cache**
(`InvC`: every entry added before the failure is the result of its key's operator on its key's
operands) still hold in the state it leaves. (That the store is only extended and stays reduced,
ordered and counted is structural: `RcSLemmasAlg`, `RcSLemmasOrd`.)

The successful sub-runs before the failure are the uncapped runs (`binR_erase`), so their
postcondition is `binS_spec`; only the failure paths need the induction.
-/
namespace OxiddModel.Bcdd.Rc
open OxiddModel.Bcdd OxiddModel.Bcdd.Refine OxiddModel.Bcdd.CNode
open OxiddModel.Bdd.Refine (Policy OpTag Key Cache)

/-- a successful counted run satisfies the postcondition of the uncapped run -/
theorem binR_post {p : Policy} (pok : p.OK) (cap : Nat) (op : BOp) (fuel : Nat) (r : RStC)
    (f g : EdgeC) (a b : Edge) (hinv : InvC r.st) (hf : DenotesC r.st.store f a)
    (hg : DenotesC r.st.store g b) (hsz : a.size + b.size ≤ fuel) {e : EdgeC} {r' : RStC}
    (hR : binR cap p op fuel r f g = (some e, r')) :
    PostC r.st.store (applyBin op a b) (r'.st, e) := by
  have h := binS_spec pok op fuel r.st f g a b hinv hf hg hsz
  have := binR_erase cap p op fuel r f g e (by rw [hR])
  rw [this, hR] at h
  exact h

/-- the failure of `reduce` leaves the state as it was (up to counters) -/
theorem finishR_none {cap : Nat} {p : Policy} {r : RStC} {key : Key} {l : Nat} {t e : EdgeC}
    (h : (finishR cap p r key l t e).1 = none) : (finishR cap p r key l t e).2.st = r.st := by
  obtain ⟨hc, ht, hm⟩ := mkNodeR_erase cap r l t e
  unfold finishR at h ⊢
  cases hR : mkNodeR cap r l t e with
  | mk o r' =>
    rw [hR] at hc ht hm h
    cases o with
    | some x => simp at h
    | none =>
      simp only at hm hc ht ⊢
      cases hst : r'.st with
      | mk s c k =>
        rw [hst] at hm hc ht
        simp only at hm hc ht
        subst hm hc ht
        rfl

/-- the invariant survives a failing fork -/
theorem forkR_fail_inv {cap : Nat} {p : Policy} {key : Key} {l : Nat}
    {c1 c0 : RStC → Option EdgeC × RStC} {r : RStC}
    (h1 : (c1 r).1 = none → InvC (c1 r).2.st)
    (h0 : ∀ t r1, c1 r = (some t, r1) → InvC (c0 r1).2.st)
    (hfail : (forkR cap p key l c1 c0 r).1 = none) : InvC (forkR cap p key l c1 c0 r).2.st := by
  unfold forkR at hfail ⊢
  cases hc1 : c1 r with
  | mk o1 r1 =>
    rw [hc1] at h1 hfail
    cases o1 with
    | none => exact h1 rfl
    | some t =>
      have h0' := h0 t r1 hc1
      simp only at hfail ⊢
      cases hc0 : c0 r1 with
      | mk o0 r0 =>
        rw [hc0] at h0' hfail
        cases o0 with
        | none => simp only [dropEdge_st]; exact h0'
        | some e =>
          simp only at hfail ⊢
          rw [finishR_none hfail]
          exact h0'

theorem binR_fail_inv {p : Policy} (pok : p.OK) (cap : Nat) (op : BOp) (fuel : Nat) :
    ∀ (r : RStC) (f g : EdgeC) (a b : Edge), InvC r.st → DenotesC r.st.store f a →
      DenotesC r.st.store g b → a.size + b.size ≤ fuel →
      InvC (binR cap p op fuel r f g).2.st := by
  induction fuel with
  | zero =>
    intro r f g a b _ _ _ hsz
    have := size_pos a.n
    simp only [Edge.size] at hsz
    omega
  | succ fuel ih =>
    intro r f g a b hinv hf hg hsz
    -- a successful run: postcondition of the uncapped run
    cases hres : (binR cap p op (fuel+1) r f g).1 with
    | some e =>
      have hR : binR cap p op (fuel+1) r f g = (some e, (binR cap p op (fuel+1) r f g).2) := by
        rw [← hres]
      exact (binR_post pok cap op (fuel+1) r f g a b hinv hf hg hsz hR).inv
    | none =>
      have hc := terminalOpS_corr op hinv.1 hf hg
      revert hres
      simp only [binR]
      cases hS : terminalOpS op f g with
      | done e => intro hres; simp at hres
      | nodes =>
        cases hT : terminalOp op a b with
        | done t => rw [hS, hT] at hc; exact hc.elim
        | nodes =>
          have hk : ∃ a' b', DenotesC r.st.store (orderPair f g).1 a' ∧
              DenotesC r.st.store (orderPair f g).2 b' ∧
              terminalOp op a' b' = .nodes ∧ a'.size + b'.size ≤ fuel + 1 := by
            rcases orderPair_cases f g with h | h <;> rw [h]
            · exact ⟨a, b, hf, hg, hT, hsz⟩
            · exact ⟨b, a, hg, hf, by rw [terminalOp_comm]; exact hT, by omega⟩
          obtain ⟨a', b', hk1, hk2, hT', hsz'⟩ := hk
          generalize orderPair f g = k at hk1 hk2 ⊢
          simp only
          cases hget : p.get r.st.tick r.st.cache (keyOf op k.1 k.2) with
          | some x => intro hres; simp at hres
          | none =>
            have hsp := terminalOp_spec op a' b'
            rw [hT'] at hsp
            obtain ⟨hla, hlb⟩ := hsp
            obtain ⟨an, a'⟩ := a'
            obtain ⟨bn, b'⟩ := b'
            cases a' with
            | top => simp [isTop] at hla
            | node lf ft fen fe =>
            cases b' with
            | top => simp [isTop] at hlb
            | node lg gt gen ge =>
            rw [level?_denotes hk1, level?_denotes hk2]
            simp only
            have hmin : min lf lg = lf ∨ min lf lg = lg := by omega
            simp only [Edge.size] at hsz'
            have sz1 : (tcofT (min lf lg) ⟨an, .node lf ft fen fe⟩).size +
                (tcofT (min lf lg) ⟨bn, .node lg gt gen ge⟩).size ≤ fuel := by
              have h1 := tcofT_size_le (min lf lg) ⟨an, .node lf ft fen fe⟩
              have h2 := tcofT_size_le (min lf lg) ⟨bn, .node lg gt gen ge⟩
              simp only [Edge.size] at h1 h2 ⊢
              rcases hmin with h | h <;> rw [h] at h1 h2 ⊢
              · have := tcofT_size_lt lf an fen ft fe; simp only [Edge.size] at this; omega
              · have := tcofT_size_lt lg bn gen gt ge; simp only [Edge.size] at this; omega
            have sz0 : (tcofE (min lf lg) ⟨an, .node lf ft fen fe⟩).size +
                (tcofE (min lf lg) ⟨bn, .node lg gt gen ge⟩).size ≤ fuel := by
              have h1 := tcofE_size_le (min lf lg) ⟨an, .node lf ft fen fe⟩
              have h2 := tcofE_size_le (min lf lg) ⟨bn, .node lg gt gen ge⟩
              simp only [Edge.size] at h1 h2 ⊢
              rcases hmin with h | h <;> rw [h] at h1 h2 ⊢
              · have := tcofE_size_lt lf an fen ft fe; simp only [Edge.size] at this; omega
              · have := tcofE_size_lt lg bn gen gt ge; simp only [Edge.size] at this; omega
            intro hres
            refine forkR_fail_inv
              (c1 := fun s => binR cap p op fuel s (r.st.store.cofT (min lf lg) k.1) (r.st.store.cofT (min lf lg) k.2))
              (c0 := fun s => binR cap p op fuel s (r.st.store.cofE (min lf lg) k.1) (r.st.store.cofE (min lf lg) k.2))
              (r := r.tickd) ?_ ?_ hres
            · intro _
              exact ih r.tickd _ _ _ _ hinv.tickd (cofT_denotes (min lf lg) hk1)
                (cofT_denotes (min lf lg) hk2) sz1
            · intro t r1 hc1
              have p1 := binR_post pok cap op fuel r.tickd _ _ _ _ hinv.tickd
                (cofT_denotes (min lf lg) hk1) (cofT_denotes (min lf lg) hk2) sz1 hc1
              exact ih r1 _ _ _ _ p1.inv ((cofE_denotes (min lf lg) hk1).mono p1.le)
                ((cofE_denotes (min lf lg) hk2).mono p1.le) sz0

theorem mapNot_st (x : Option EdgeC × RStC) : (mapNot x).2 = x.2 := rfl

theorem applyOpR_fail_inv {p : Policy} (pok : p.OK) (cap : Nat) (op : Op) (fuel : Nat) (r : RStC)
    (f g : EdgeC) (a b : Edge) (hinv : InvC r.st) (hf : DenotesC r.st.store f a)
    (hg : DenotesC r.st.store g b) (hsz : a.size + b.size ≤ fuel) :
    InvC (applyOpR cap p op fuel r f g).2.st := by
  have hsa : (applyNot a).size = a.size := rfl
  have hsb : (applyNot b).size = b.size := rfl
  cases op <;> simp only [applyOpR, mapNot_st]
  · exact binR_fail_inv pok cap .and fuel r f g a b hinv hf hg hsz
  · exact binR_fail_inv pok cap .and fuel r _ _ _ _ hinv hf.not hg.not (by omega)
  · exact binR_fail_inv pok cap .and fuel r f g a b hinv hf hg hsz
  · exact binR_fail_inv pok cap .and fuel r _ _ _ _ hinv hf.not hg.not (by omega)
  · exact binR_fail_inv pok cap .xor fuel r f g a b hinv hf hg hsz
  · exact binR_fail_inv pok cap .xor fuel r f g a b hinv hf hg hsz
  · exact binR_fail_inv pok cap .and fuel r _ _ _ _ hinv hf hg.not (by omega)
  · exact binR_fail_inv pok cap .and fuel r _ _ _ _ hinv hf.not hg (by omega)

/-- a successful counted `ite` satisfies the postcondition of the uncapped run -/
theorem iteR_post {p : Policy} (pok : p.OK) (cap : Nat) (fuel : Nat) (r : RStC)
    (f g h : EdgeC) (a b c : Edge) (hinv : InvC r.st) (hf : DenotesC r.st.store f a)
    (hg : DenotesC r.st.store g b) (hh : DenotesC r.st.store h c)
    (hsz : a.size + b.size + c.size ≤ fuel) {e : EdgeC} {r' : RStC}
    (hR : iteR cap p fuel r f g h = (some e, r')) :
    PostC r.st.store (applyIte a b c) (r'.st, e) := by
  have hS := iteS_spec pok fuel r.st f g h a b c hinv hf hg hh hsz
  have := iteR_erase' cap p fuel r f g h e (by rw [hR])
  rw [this, hR] at hS
  exact hS

theorem iteR_fail_inv {p : Policy} (pok : p.OK) (cap : Nat) (fuel : Nat) :
    ∀ (r : RStC) (f g h : EdgeC) (a b c : Edge), InvC r.st → DenotesC r.st.store f a →
      DenotesC r.st.store g b → DenotesC r.st.store h c → a.size + b.size + c.size ≤ fuel →
      InvC (iteR cap p fuel r f g h).2.st := by
  induction fuel with
  | zero =>
    intro r f g h a b c _ _ _ _ hsz
    have := size_pos a.n
    simp only [Edge.size] at hsz
    omega
  | succ fuel ih =>
    intro r f g h a b c hinv hf hg hh hsz
    cases hres : (iteR cap p (fuel+1) r f g h).1 with
    | some e =>
      have hR : iteR cap p (fuel+1) r f g h = (some e, (iteR cap p (fuel+1) r f g h).2) := by
        rw [← hres]
      exact (iteR_post pok cap (fuel+1) r f g h a b c hinv hf hg hh hsz hR).inv
    | none =>
      have hsa := size_pos a.n
      have hsb := size_pos b.n
      have hsc := size_pos c.n
      have hna : (applyNot a).size = a.size := rfl
      have hnb : (applyNot b).size = b.size := rfl
      have hnc : (applyNot c).size = c.size := rfl
      simp only [Edge.size] at hsz hna hnb hnc
      -- every shortcut is one of the two kernels on (possibly complemented) operands
      have B := fun (op : BOp) (x y : EdgeC) (u v : Edge) (hx : DenotesC r.st.store x u)
          (hy : DenotesC r.st.store y v) (hs : u.size + v.size ≤ fuel) =>
        binR_fail_inv pok cap op fuel r x y u v hinv hx hy hs
      have sab : a.size + b.size ≤ fuel := by simp only [Edge.size]; omega
      have sac : a.size + c.size ≤ fuel := by simp only [Edge.size]; omega
      revert hres
      simp only [iteR]
      by_cases h1 : g.tgt = h.tgt
      · simp only [h1, if_true]
        by_cases h2 : g.neg = h.neg
        · simp only [h2, if_true]; intro hres; simp at hres
        · simp only [h2, if_false, mapNot_st]; intro _; exact B .xor f g a b hf hg sab
      · simp only [h1, if_false]
        by_cases h3 : f.tgt = g.tgt
        · simp only [h3, if_true]
          by_cases h4 : f.neg = g.neg
          · simp only [h4, if_true, mapNot_st]; intro _
            exact B .and _ _ _ _ hf.not hh.not (by simp only [Edge.size] at *; omega)
          · simp only [h4, if_false]; intro _
            exact B .and _ _ _ _ hf.not hh (by simp only [Edge.size] at *; omega)
        · simp only [h3, if_false]
          by_cases h5 : f.tgt = h.tgt
          · simp only [h5, if_true]
            by_cases h6 : f.neg = h.neg
            · simp only [h6, if_true]; intro _; exact B .and f g a b hf hg sab
            · simp only [h6, if_false, mapNot_st]; intro _
              exact B .and _ _ _ _ hf hg.not (by simp only [Edge.size] at *; omega)
          · simp only [h5, if_false]
            have hu := hinv.1
            have igh := denN_eq_iff hu hg.2 hh.2
            have ifg := denN_eq_iff hu hf.2 hg.2
            have ifh := denN_eq_iff hu hf.2 hh.2
            have h1' : ¬ b.n = c.n := fun e => h1 (igh.mpr e)
            have h3' : ¬ a.n = b.n := fun e => h3 (ifg.mpr e)
            have h5' : ¬ a.n = c.n := fun e => h5 (ifh.mpr e)
            obtain ⟨fn, ft⟩ := f
            obtain ⟨gn, gt⟩ := g
            obtain ⟨hn, ht⟩ := h
            obtain ⟨an, a⟩ := a
            obtain ⟨bn, b⟩ := b
            obtain ⟨cn, c⟩ := c
            obtain ⟨ef, hf2⟩ := hf
            obtain ⟨eg, hg2⟩ := hg
            obtain ⟨eh, hh2⟩ := hh
            simp only at ef eg eh hf2 hg2 hh2 h1 h3 h5 h1' h3' h5'
            subst ef eg eh
            cases hf2 with
            | term => simp only; intro hres; simp at hres
            | @inner i l t en e tt te hi hft hfe =>
              have hdf : DenotesC r.st.store ⟨fn, .inner i⟩ ⟨fn, .node l tt en te⟩ :=
                ⟨rfl, .inner hi hft hfe⟩
              cases hg2 with
              | term =>
                cases hh2 with
                | term => exact absurd rfl h1
                | @inner k l'' t'' en'' e'' tt'' te'' hk hht hhe =>
                  have hdh : DenotesC r.st.store ⟨hn, .inner k⟩ ⟨hn, .node l'' tt'' en'' te''⟩ :=
                    ⟨rfl, .inner hk hht hhe⟩
                  simp only
                  cases gn
                  · simp only [if_true, mapNot_st]; intro _
                    exact B .and _ _ _ _ hdf.not hdh.not (by simp only [Edge.size] at *; omega)
                  · simp only [Bool.true_eq_false, if_false]; intro _
                    exact B .and _ _ _ _ hdf.not hdh (by simp only [Edge.size] at *; omega)
              | @inner j l' t' en' e' tt' te' hj hgt hge =>
                have hdg : DenotesC r.st.store ⟨gn, .inner j⟩ ⟨gn, .node l' tt' en' te'⟩ :=
                  ⟨rfl, .inner hj hgt hge⟩
                cases hh2 with
                | term =>
                  simp only
                  cases hn
                  · simp only [if_true, mapNot_st]; intro _
                    exact B .and _ _ _ _ hdf hdg.not (by simp only [Edge.size] at *; omega)
                  · simp only [Bool.true_eq_false, if_false]; intro _
                    exact B .and _ _ _ _ hdf hdg (by simp only [Edge.size] at *; omega)
                | @inner k l'' t'' en'' e'' tt'' te'' hk hht hhe =>
                  have hdh : DenotesC r.st.store ⟨hn, .inner k⟩ ⟨hn, .node l'' tt'' en'' te''⟩ :=
                    ⟨rfl, .inner hk hht hhe⟩
                  simp only
                  cases hget : p.get r.st.tick r.st.cache
                      (.ite, [enc ⟨fn, .inner i⟩, enc ⟨gn, .inner j⟩, enc ⟨hn, .inner k⟩]) with
                  | some x => intro hres; simp at hres
                  | none =>
                    simp only
                    rw [level?_denotes hdf, level?_denotes hdg, level?_denotes hdh]
                    simp only
                    generalize hl : min (min l l') l'' = m
                    have hmin : m = l ∨ m = l' ∨ m = l'' := by omega
                    have ha1 := tcofT_size_le m ⟨fn, .node l tt en te⟩
                    have hb1 := tcofT_size_le m ⟨gn, .node l' tt' en' te'⟩
                    have hc1 := tcofT_size_le m ⟨hn, .node l'' tt'' en'' te''⟩
                    have ha0 := tcofE_size_le m ⟨fn, .node l tt en te⟩
                    have hb0 := tcofE_size_le m ⟨gn, .node l' tt' en' te'⟩
                    have hc0 := tcofE_size_le m ⟨hn, .node l'' tt'' en'' te''⟩
                    have sz : (tcofT m ⟨fn, .node l tt en te⟩).size +
                        (tcofT m ⟨gn, .node l' tt' en' te'⟩).size +
                        (tcofT m ⟨hn, .node l'' tt'' en'' te''⟩).size ≤ fuel ∧
                        (tcofE m ⟨fn, .node l tt en te⟩).size +
                        (tcofE m ⟨gn, .node l' tt' en' te'⟩).size +
                        (tcofE m ⟨hn, .node l'' tt'' en'' te''⟩).size ≤ fuel := by
                      simp only [Edge.size] at ha1 hb1 hc1 ha0 hb0 hc0 hsz ⊢
                      rcases hmin with h | h | h <;> subst h
                      · have h1 := tcofT_size_lt m fn en tt te
                        have h2 := tcofE_size_lt m fn en tt te
                        simp only [Edge.size] at h1 h2; omega
                      · have h1 := tcofT_size_lt m gn en' tt' te'
                        have h2 := tcofE_size_lt m gn en' tt' te'
                        simp only [Edge.size] at h1 h2; omega
                      · have h1 := tcofT_size_lt m hn en'' tt'' te''
                        have h2 := tcofE_size_lt m hn en'' tt'' te''
                        simp only [Edge.size] at h1 h2; omega
                    intro hres
                    refine forkR_fail_inv
                      (c1 := fun s => iteR cap p fuel s (r.st.store.cofT m ⟨fn, .inner i⟩)
                        (r.st.store.cofT m ⟨gn, .inner j⟩) (r.st.store.cofT m ⟨hn, .inner k⟩))
                      (c0 := fun s => iteR cap p fuel s (r.st.store.cofE m ⟨fn, .inner i⟩)
                        (r.st.store.cofE m ⟨gn, .inner j⟩) (r.st.store.cofE m ⟨hn, .inner k⟩))
                      (r := r.tickd) ?_ ?_ hres
                    · intro _
                      exact ih r.tickd _ _ _ _ _ _ hinv.tickd (cofT_denotes m hdf)
                        (cofT_denotes m hdg) (cofT_denotes m hdh) sz.1
                    · intro t1 r1 hc1'
                      have p1 := iteR_post pok cap fuel r.tickd _ _ _ _ _ _ hinv.tickd
                        (cofT_denotes m hdf) (cofT_denotes m hdg) (cofT_denotes m hdh) sz.1 hc1'
                      exact ih r1 _ _ _ _ _ _ p1.inv ((cofE_denotes m hdf).mono p1.le)
                        ((cofE_denotes m hdg).mono p1.le) ((cofE_denotes m hdh).mono p1.le) sz.2

end OxiddModel.Bcdd.Rc
