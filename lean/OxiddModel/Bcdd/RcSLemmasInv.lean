import OxiddModel.Bcdd.RcSLemmas
import OxiddModel.Bdd.RcSLemmasInv

/-!
# The reference-count invariant (BCDD) and its preservation by the primitives

`RcInv r ext`: for every stored node `rc = 1 + #(edges in ext pointing to it) + #(stored parent
edges)` (the `1` is the unique table's own reference — `ref_count()` reports `rc - 1`), where `ext`
is the multiset (a list, used only up to permutation) of the **externally owned** edges: the
handles of the user plus the temporaries the running algorithm currently owns. Edges count for
their *target*: a handle on `f` and a handle on `¬f` are two references to the same node. The
invariant also contains the closedness facts the counters rely on: external edges, child edges and
cached results point to stored nodes.

`cloneEdge_rc`, `dropEdge_rc`, `mkNodeR_rc` (all branches of `reduce`: reduction, tag
normalisation, unique-table hit, allocation, OutOfMemory).
-/
namespace OxiddModel.Bcdd.Rc
open OxiddModel.Bcdd OxiddModel.Bcdd.Refine
open OxiddModel.Bdd.Refine (Policy OpTag Key Cache)
open OxiddModel.Bdd.Rc (rcGet rcSet rcGet_rcSet sum_map_set sum_map_zero)

/-! ## stored parent edges -/

/-- 1 if the target is slot `i` -/
def cntT (t : Tgt) (i : Nat) : Nat := if t = .inner i then 1 else 0

/-- 1 if the edge (whatever its tag) points to slot `i` -/
def cnt (e : EdgeC) (i : Nat) : Nat := cntT e.tgt i

/-- number of child edges of a slot's content that point to slot `i` -/
def refsOpt (i : Nat) : Option NodeC → Nat
  | none => 0
  | some n => cntT n.t i + cnt n.e i

/-- number of stored parent edges of slot `i` (parents that are garbage included) -/
def parents (s : StoreC) (i : Nat) : Nat := (s.nodes.toList.map (refsOpt i)).sum

/-- number of external edges pointing to slot `i` -/
def extCnt (ext : List EdgeC) (i : Nat) : Nat := (ext.map (cnt · i)).sum

/-- the target is the terminal or an occupied slot -/
def _root_.OxiddModel.Bcdd.Refine.StoreC.hasT (s : StoreC) : Tgt → Prop
  | .term => True
  | .inner i => ∃ n, s.get? i = some n

/-- the edge points to the terminal or to an occupied slot -/
def _root_.OxiddModel.Bcdd.Refine.StoreC.has (s : StoreC) (x : EdgeC) : Prop := s.hasT x.tgt

/-- **the reference-count invariant** -/
structure RcInv (r : RStC) (ext : List EdgeC) : Prop where
  /-- every externally owned edge points to a stored node -/
  ext_ok : ∀ e ∈ ext, r.st.store.has e
  /-- the children of stored nodes are stored -/
  kids_ok : ∀ i n, r.st.store.get? i = some n → r.st.store.hasT n.t ∧ r.st.store.has n.e
  /-- cached results point to stored nodes (the cache is cleared at `gc`) -/
  cache_ok : ∀ k v, (k, v) ∈ r.st.cache → r.st.store.has (dec v)
  /-- counter = table's reference + external references + stored parent edges -/
  rc_eq : ∀ i n, r.st.store.get? i = some n →
    rcGet r.rc i = 1 + extCnt ext i + parents r.st.store i

theorem _root_.OxiddModel.Bcdd.Refine.StoreC.hasT.mono {s s' : StoreC} (hle : s.Le s') {t : Tgt}
    (h : s.hasT t) : s'.hasT t := by
  cases t with
  | term => trivial
  | inner i => obtain ⟨n, hn⟩ := h; exact ⟨n, hle i n hn⟩

theorem _root_.OxiddModel.Bcdd.Refine.StoreC.has.mono {s s' : StoreC} (hle : s.Le s') {e : EdgeC}
    (h : s.has e) : s'.has e := StoreC.hasT.mono hle h

theorem has_notE {s : StoreC} {e : EdgeC} (h : s.has e) : s.has (notE e) := h

theorem has_termC (s : StoreC) (b : Bool) : s.has (termC b) := trivial

theorem extCnt_cons (x : EdgeC) (ext : List EdgeC) (i : Nat) :
    extCnt (x :: ext) i = extCnt ext i + cnt x i := by
  simp only [extCnt, List.map_cons, List.sum_cons]; omega

theorem extCnt_perm {ext ext' : List EdgeC} (h : ext.Perm ext') (i : Nat) :
    extCnt ext i = extCnt ext' i := by
  induction h with
  | nil => rfl
  | cons x _ ih => simp only [extCnt_cons, ih]
  | swap x y l => simp only [extCnt_cons]; omega
  | trans _ _ ih1 ih2 => rw [ih1, ih2]

theorem extCnt_zero_of_not_mem {ext : List EdgeC} {i : Nat}
    (h : ∀ e ∈ ext, e.tgt ≠ .inner i) : extCnt ext i = 0 := by
  apply sum_map_zero
  intro e he
  simp [cnt, cntT, h e he]

theorem extCnt_pos {ext : List EdgeC} {i : Nat} (h : 0 < extCnt ext i) :
    ∃ e ∈ ext, e.tgt = .inner i := by
  apply Classical.byContradiction
  intro hno
  have : extCnt ext i = 0 := extCnt_zero_of_not_mem (fun e he ht => hno ⟨e, he, ht⟩)
  omega

/-- `ext` matters only as a multiset -/
theorem RcInv.perm {r : RStC} {ext ext' : List EdgeC} (h : RcInv r ext) (hp : ext.Perm ext') :
    RcInv r ext' where
  ext_ok e he := h.ext_ok e (hp.mem_iff.mpr he)
  kids_ok := h.kids_ok
  cache_ok := h.cache_ok
  rc_eq i n hi := by rw [h.rc_eq i n hi, extCnt_perm hp]

theorem RcInv.swap {r : RStC} {a b : EdgeC} {ext : List EdgeC} (h : RcInv r (a :: b :: ext)) :
    RcInv r (b :: a :: ext) := h.perm (List.Perm.swap b a ext)

/-- the tag of an owned edge is irrelevant for the counters (`not_owned`) -/
theorem RcInv.notE_head {r : RStC} {a : EdgeC} {ext : List EdgeC} (h : RcInv r (a :: ext)) :
    RcInv r (notE a :: ext) where
  ext_ok e he := by
    rcases List.mem_cons.mp he with rfl | he
    · exact h.ext_ok a List.mem_cons_self
    · exact h.ext_ok e (List.mem_cons_of_mem _ he)
  kids_ok := h.kids_ok
  cache_ok := h.cache_ok
  rc_eq i n hi := by
    rw [h.rc_eq i n hi]
    simp only [extCnt_cons, cnt, notE_tgt]

/-- the counters are not looked at by the other components -/
theorem RcInv.tickd {r : RStC} {ext : List EdgeC} (h : RcInv r ext) : RcInv r.tickd ext :=
  ⟨h.ext_ok, h.kids_ok, h.cache_ok, h.rc_eq⟩

/-! ## `clone_edge` / `drop_edge` -/

theorem rcGet_cloneEdge (r : RStC) (x : EdgeC) (k : Nat) :
    rcGet (cloneEdge r x).rc k = rcGet r.rc k + cnt x k := by
  unfold cloneEdge cnt cntT
  cases hx : x.tgt with
  | term => simp
  | inner j =>
    simp only [rcGet_rcSet]
    by_cases hkj : k = j
    · subst hkj; simp
    · have : Tgt.inner j ≠ Tgt.inner k := fun e => hkj (by cases e; rfl)
      simp [hkj, this]

theorem rcGet_dropEdge (r : RStC) (x : EdgeC) (k : Nat) :
    rcGet (dropEdge r x).rc k = rcGet r.rc k - cnt x k := by
  unfold dropEdge cnt cntT
  cases hx : x.tgt with
  | term => simp
  | inner j =>
    simp only [rcGet_rcSet]
    by_cases hkj : k = j
    · subst hkj; simp
    · have : Tgt.inner j ≠ Tgt.inner k := fun e => hkj (by cases e; rfl)
      simp [hkj, this]

/-- cloning an edge to a stored node adds one external reference -/
theorem cloneEdge_rc {r : RStC} {ext : List EdgeC} {x : EdgeC} (h : RcInv r ext)
    (hx : r.st.store.has x) : RcInv (cloneEdge r x) (x :: ext) := by
  refine ⟨?_, ?_, ?_, ?_⟩
  · intro e he
    rw [cloneEdge_st]
    rcases List.mem_cons.mp he with rfl | he
    · exact hx
    · exact h.ext_ok e he
  · rw [cloneEdge_st]; exact h.kids_ok
  · rw [cloneEdge_st]; exact h.cache_ok
  · intro i n hi
    rw [cloneEdge_st] at hi ⊢
    rw [rcGet_cloneEdge, extCnt_cons, h.rc_eq i n hi]
    omega

/-- dropping an externally owned edge removes one external reference -/
theorem dropEdge_rc {r : RStC} {ext : List EdgeC} {x : EdgeC} (h : RcInv r (x :: ext)) :
    RcInv (dropEdge r x) ext := by
  refine ⟨?_, ?_, ?_, ?_⟩
  · intro e he
    rw [dropEdge_st]
    exact h.ext_ok e (List.mem_cons_of_mem _ he)
  · rw [dropEdge_st]; exact h.kids_ok
  · rw [dropEdge_st]; exact h.cache_ok
  · intro i n hi
    rw [dropEdge_st] at hi ⊢
    have := h.rc_eq i n hi
    rw [extCnt_cons] at this
    rw [rcGet_dropEdge]
    omega

/-- a dropped edge was really counted: no underflow, the node keeps the table's reference -/
theorem dropEdge_no_underflow {r : RStC} {ext : List EdgeC} {b : Bool} {j : Nat}
    (h : RcInv r (⟨b, .inner j⟩ :: ext)) : 2 ≤ rcGet r.rc j := by
  obtain ⟨n, hn⟩ := h.ext_ok ⟨b, .inner j⟩ List.mem_cons_self
  have := h.rc_eq j n hn
  simp only [extCnt_cons, cnt, cntT, if_true] at this
  omega

/-! ## parents under allocation and freeing -/

theorem mem_nodes_get? {s : StoreC} {n : NodeC} (h : some n ∈ s.nodes.toList) :
    ∃ k, s.get? k = some n := by
  obtain ⟨k, hk, hkn⟩ := List.mem_iff_getElem.mp h
  refine ⟨k, ?_⟩
  have hk' : k < s.nodes.size := by simpa using hk
  have : s.nodes[k] = some n := by simpa using hkn
  simp [StoreC.get?, hk', this]

/-- no stored node points to `j` ⇒ no parent edges -/
theorem parents_zero {s : StoreC} {j : Nat}
    (h : ∀ k n, s.get? k = some n → n.t ≠ .inner j ∧ n.e.tgt ≠ .inner j) : parents s j = 0 := by
  apply sum_map_zero
  intro o ho
  cases o with
  | none => rfl
  | some n =>
    obtain ⟨k, hk⟩ := mem_nodes_get? ho
    obtain ⟨h1, h2⟩ := h k n hk
    simp [refsOpt, cnt, cntT, h1, h2]

theorem parents_alloc (s : StoreC) (n : NodeC) (i : Nat) :
    parents (s.alloc n).1 i = parents s i + (cntT n.t i + cnt n.e i) := by
  unfold StoreC.alloc parents
  split
  · rename_i k hk
    obtain ⟨hlt, heq⟩ := Array.findIdx?_eq_some_iff_findIdx_eq.mp hk
    have hnone := Array.findIdx_getElem (xs := s.nodes) (p := (· == none)) (w := by rw [heq]; exact hlt)
    simp only [heq] at hnone
    have hn : s.nodes[k] = none := beq_iff_eq.mp hnone
    have hl : k < s.nodes.toList.length := by simpa using hlt
    have := sum_map_set (refsOpt i) s.nodes.toList k (some n) hl
    have hk0 : refsOpt i s.nodes.toList[k] = 0 := by
      have : s.nodes.toList[k] = none := by simpa using hn
      rw [this]; rfl
    rw [hk0] at this
    simp only [Array.set!_eq_setIfInBounds, Array.toList_setIfInBounds]
    simpa [refsOpt] using this
  · simp [refsOpt]

theorem get?_free (s : StoreC) (k j : Nat) :
    (⟨s.nodes.set! k none⟩ : StoreC).get? j = if j = k then none else s.get? j := by
  simp only [StoreC.get?, Array.set!_eq_setIfInBounds, Array.getElem?_setIfInBounds]
  by_cases hj : j = k
  · subst hj
    by_cases hlt : j < s.nodes.size
    · simp [hlt]
    · simp [hlt]
  · simp [hj, Ne.symm hj]

theorem parents_free (s : StoreC) (k : Nat) (n : NodeC) (i : Nat) (h : s.get? k = some n) :
    parents ⟨s.nodes.set! k none⟩ i + (cntT n.t i + cnt n.e i) = parents s i := by
  unfold parents
  have hlt : k < s.nodes.size := by
    by_cases hlt : k < s.nodes.size
    · exact hlt
    · simp [StoreC.get?, hlt] at h
  have hn : s.nodes[k] = some n := by
    simpa [StoreC.get?, hlt] using h
  have hl : k < s.nodes.toList.length := by simpa using hlt
  have := sum_map_set (refsOpt i) s.nodes.toList k none hl
  have hk0 : refsOpt i s.nodes.toList[k] = cntT n.t i + cnt n.e i := by
    have : s.nodes.toList[k] = some n := by simpa using hn
    rw [this]; rfl
  rw [hk0] at this
  simp only [Array.set!_eq_setIfInBounds, Array.toList_setIfInBounds]
  simpa [refsOpt] using this

/-! ## `reduce` -/

theorem has_of_find {s : StoreC} {n : NodeC} {i : Nat} {b : Bool} (h : s.find? n = some i) :
    s.has ⟨b, .inner i⟩ := ⟨n, find?_some h⟩

/-- the children of the normalised node point where `t` and `e` point -/
theorem reduceNode_t (l : Nat) (t e : EdgeC) : (reduceNode l t e).t = t.tgt := by
  unfold reduceNode reduceRaw; split <;> rfl

theorem reduceNode_e_tgt (l : Nat) (t e : EdgeC) : (reduceNode l t e).e.tgt = e.tgt := by
  unfold reduceNode reduceRaw; split <;> rfl

theorem reduceNode_level (l : Nat) (t e : EdgeC) : (reduceNode l t e).level = l := rfl

theorem reduceNode_refs (l : Nat) (t e : EdgeC) (i : Nat) :
    cntT (reduceNode l t e).t i + cnt (reduceNode l t e).e i = cnt t i + cnt e i := by
  simp only [cnt, reduceNode_t, reduceNode_e_tgt]

/-- **`mkNodeR_rc`**: `reduce` consumes the two owned children; on success the caller owns the
result instead, on OutOfMemory it owns nothing more — in every branch the counters are exact. -/
theorem mkNodeR_rc {cap : Nat} {r : RStC} {l : Nat} {t e : EdgeC} {ext : List EdgeC}
    (h : RcInv r (t :: e :: ext)) :
    match mkNodeR cap r l t e with
    | (some x, r') => RcInv r' (x :: ext)
    | (none, r') => RcInv r' ext := by
  unfold mkNodeR
  by_cases hte : t = e
  · simp only [hte, if_true]
    subst hte
    exact dropEdge_rc h
  · simp only [hte, if_false]
    cases hf : r.st.store.find? (reduceNode l t e) with
    | some i =>
      simp only
      have h2 : RcInv (dropEdge (dropEdge r t) e) ext := dropEdge_rc (dropEdge_rc h)
      refine cloneEdge_rc h2 ?_
      simp only [dropEdge_st]
      exact has_of_find hf
    | none =>
      simp only
      by_cases hc : r.st.store.count < cap
      · simp only [hc, if_true]
        -- allocation
        generalize hnode : reduceNode l t e = node
        have hrefs := reduceNode_refs l t e
        have hnt := reduceNode_t l t e
        have hne := reduceNode_e_tgt l t e
        rw [hnode] at hrefs hnt hne
        have hle := alloc_le r.st.store node
        have hfresh := alloc_fresh r.st.store node
        generalize hj : (r.st.store.alloc node).2 = j at hfresh
        have hget := get?_alloc r.st.store node
        rw [hj] at hget
        have hnot : ∀ x : Tgt, r.st.store.hasT x → x ≠ .inner j := by
          intro x hx hxe
          subst hxe
          obtain ⟨n, hn⟩ := hx
          rw [hfresh] at hn; cases hn
        have ht := h.ext_ok t List.mem_cons_self
        have he := h.ext_ok e (List.mem_cons_of_mem _ List.mem_cons_self)
        refine ⟨?_, ?_, ?_, ?_⟩
        · intro x hx
          rcases List.mem_cons.mp hx with rfl | hx
          · exact ⟨node, by simp [hget]⟩
          · exact (h.ext_ok x (List.mem_cons_of_mem _ (List.mem_cons_of_mem _ hx))).mono hle
        · intro i n hi
          simp only [hget] at hi
          split at hi
          · cases hi
            refine ⟨?_, ?_⟩
            · rw [hnt]; exact StoreC.hasT.mono hle ht
            · show (r.st.store.alloc node).1.hasT node.e.tgt
              rw [hne]; exact StoreC.hasT.mono hle he
          · obtain ⟨h1, h2⟩ := h.kids_ok i n hi
            exact ⟨h1.mono hle, h2.mono hle⟩
        · intro k v hkv
          exact (h.cache_ok k v hkv).mono hle
        · intro i n hi
          simp only [hget] at hi
          simp only [rcGet_rcSet, parents_alloc, hrefs]
          split at hi
          · rename_i hij
            subst hij
            cases hi
            simp only [if_true, extCnt_cons]
            have hz : parents r.st.store i = 0 := parents_zero (fun k n hk =>
              ⟨hnot _ (h.kids_ok k n hk).1, hnot _ (h.kids_ok k n hk).2⟩)
            have hce : extCnt ext i = 0 := extCnt_zero_of_not_mem (fun x hx =>
              hnot _ (h.ext_ok x (List.mem_cons_of_mem _ (List.mem_cons_of_mem _ hx))))
            simp [hz, hce, cnt, cntT, hnot _ ht, hnot _ he]
          · rename_i hij
            have := h.rc_eq i n hi
            simp only [extCnt_cons] at this
            have hne' : Tgt.inner j ≠ Tgt.inner i := fun e => hij (by cases e; rfl)
            simp only [hij, if_false, extCnt_cons, cnt, cntT, hne']
            simp only [cnt, cntT] at this
            omega
      · simp only [hc, if_false]
        exact dropEdge_rc (dropEdge_rc h)

end OxiddModel.Bcdd.Rc
