import OxiddModel.Bcdd.RcSHistory

/-!
# The algorithms keep the BCDD store ordered, hash-consed and reduced — on success and on failure

`ShapeInv N r`: children of stored nodes are on strictly larger levels (what `gcR_exact` assumes),
all levels are `< N`, every cache entry maps operands that are all at level `≥ L` to a result at
level `≥ L` (`CacheLv`), **no two slots hold the same node** (`StoreC.Unique`: the canonical-tag
invariant — together with the regular then-edge, which the node type enforces and
`reduceRaw_then_regular` proves of `reduce`, a function and its complement share one node) and
**no stored node has two identical children** (`StoreC.NoRed`).
`binR_ord / applyOpR_ord / iteR_ord`: with operands at level `≥ L` the result is at level `≥ L` and
`ShapeInv` is kept — on success and after OutOfMemory at any allocation point;
`Cmd.run_ord`, `runAll_ord`: along every history.
-/
namespace OxiddModel.Bcdd.Rc
open OxiddModel.Bcdd OxiddModel.Bcdd.Refine
open OxiddModel.Bdd.Refine (Policy OpTag Key Cache)
open OxiddModel.Bdd.Rc (rcGet rcSet rcGet_rcSet)

/-- the target is the terminal or a stored node at level `≥ L` -/
def AboveT (s : StoreC) (L : Nat) : Tgt → Prop
  | .term => True
  | .inner i => ∃ n, s.get? i = some n ∧ L ≤ n.level

/-- the edge points to the terminal or to a stored node at level `≥ L` -/
def Above (s : StoreC) (L : Nat) (x : EdgeC) : Prop := AboveT s L x.tgt

theorem AboveT.mono {s s' : StoreC} {L : Nat} {t : Tgt} (hle : s.Le s') (h : AboveT s L t) :
    AboveT s' L t := by
  cases t with
  | term => trivial
  | inner i => obtain ⟨n, hn, hl⟩ := h; exact ⟨n, hle i n hn, hl⟩

theorem Above.mono {s s' : StoreC} {L : Nat} {e : EdgeC} (hle : s.Le s') (h : Above s L e) :
    Above s' L e := AboveT.mono hle h

theorem AboveT.weaken {s : StoreC} {L L' : Nat} {t : Tgt} (hL : L' ≤ L) (h : AboveT s L t) :
    AboveT s L' t := by
  cases t with
  | term => trivial
  | inner i => obtain ⟨n, hn, hl⟩ := h; exact ⟨n, hn, by omega⟩

theorem Above.weaken {s : StoreC} {L L' : Nat} {e : EdgeC} (hL : L' ≤ L) (h : Above s L e) :
    Above s L' e := AboveT.weaken hL h

theorem AboveT.hasT {s : StoreC} {L : Nat} {t : Tgt} (h : AboveT s L t) : s.hasT t := by
  cases t with
  | term => trivial
  | inner i => obtain ⟨n, hn, _⟩ := h; exact ⟨n, hn⟩

theorem Above.has {s : StoreC} {L : Nat} {e : EdgeC} (h : Above s L e) : s.has e := AboveT.hasT h

theorem Above.notE {s : StoreC} {L : Nat} {e : EdgeC} (h : Above s L e) : Above s L (notE e) := h

theorem Above.of_le_has {s s' : StoreC} {L : Nat} {e : EdgeC} (hle : s.Le s') (hh : s.has e)
    (h : Above s' L e) : Above s L e := by
  unfold Above StoreC.has at *
  cases ht : e.tgt with
  | term => trivial
  | inner i =>
    rw [ht] at hh h
    obtain ⟨n, hn⟩ := hh
    obtain ⟨n', hn', hl⟩ := h
    have := hle i n hn
    rw [this] at hn'; cases hn'
    exact ⟨n, hn, hl⟩

theorem AboveT.level_le {s : StoreC} {L i : Nat} {n : NodeC} (h : AboveT s L (.inner i))
    (hn : s.get? i = some n) : L ≤ n.level := by
  obtain ⟨n', hn', hl⟩ := h
  rw [hn] at hn'; cases hn'; exact hl

/-- cache entries respect levels -/
def CacheLv (s : StoreC) (c : Cache) : Prop :=
  ∀ k v, (k, v) ∈ c → (∀ o ∈ k.2, s.has (dec o)) ∧
    ∀ L, (∀ o ∈ k.2, Above s L (dec o)) → Above s L (dec v)

theorem CacheLv.mono {s s' : StoreC} {c : Cache} (h : CacheLv s c) (hle : s.Le s') : CacheLv s' c := by
  intro k v hkv
  obtain ⟨h1, h2⟩ := h k v hkv
  refine ⟨fun o ho => (h1 o ho).mono hle, fun L hL => ?_⟩
  exact (h2 L (fun o ho => Above.of_le_has hle (h1 o ho) (hL o ho))).mono hle

structure ShapeInv (N : Nat) (r : RStC) : Prop where
  ord : r.st.store.Ordered
  bound : ∀ i n, r.st.store.get? i = some n → n.level < N
  cache : CacheLv r.st.store r.st.cache
  /-- hash consing: no two slots hold the same node -/
  uniq : r.st.store.Unique
  /-- no stored node has two identical children -/
  nored : r.st.store.NoRed

theorem ShapeInv.tickd {N : Nat} {r : RStC} (h : ShapeInv N r) : ShapeInv N r.tickd :=
  ⟨h.ord, h.bound, h.cache, h.uniq, h.nored⟩

theorem ShapeInv.of_st {N : Nat} {r r' : RStC} (h : ShapeInv N r) (hs : r'.st = r.st) :
    ShapeInv N r' := by
  refine ⟨?_, ?_, ?_, ?_, ?_⟩ <;> rw [hs]
  · exact h.ord
  · exact h.bound
  · exact h.cache
  · exact h.uniq
  · exact h.nored

/-- postcondition: invariant kept, a result is at level `≥ L` -/
def OrdPost (N L : Nat) (R : Option EdgeC × RStC) : Prop :=
  ShapeInv N R.2 ∧ ∀ x, R.1 = some x → Above R.2.st.store L x

theorem OrdPost.weaken {N L L' : Nat} {R : Option EdgeC × RStC} (hL : L' ≤ L) (h : OrdPost N L R) :
    OrdPost N L' R := ⟨h.1, fun x hx => (h.2 x hx).weaken hL⟩

theorem OrdPost.clone {N L : Nat} {r : RStC} {x : EdgeC} (h : ShapeInv N r)
    (hx : Above r.st.store L x) : OrdPost N L (some x, cloneEdge r x) := by
  refine ⟨h.of_st (cloneEdge_st r x), ?_⟩
  intro y hy
  cases hy
  simp only [cloneEdge_st]
  exact hx

theorem OrdPost.clone_tickd {N L : Nat} {r : RStC} {x : EdgeC} (h : ShapeInv N r)
    (hx : Above r.st.store L x) : OrdPost N L (some x, cloneEdge r.tickd x) :=
  OrdPost.clone (r := r.tickd) h.tickd hx

theorem OrdPost.mapNot {N L : Nat} {R : Option EdgeC × RStC} (h : OrdPost N L R) :
    OrdPost N L (mapNot R) := by
  obtain ⟨o, r'⟩ := R
  refine ⟨h.1, ?_⟩
  intro x hx
  cases o with
  | none => simp [Rc.mapNot] at hx
  | some y =>
    simp only [Rc.mapNot, Option.map_some, Option.some.injEq] at hx
    subst hx
    exact (h.2 y rfl).notE

/-- children are strictly below their parent -/
theorem child_above {r : RStC} {ext : List EdgeC} {N : Nat} (hrc : RcInv r ext) (ho : ShapeInv N r)
    {i : Nat} {n : NodeC} (hi : r.st.store.get? i = some n) :
    AboveT r.st.store (n.level + 1) n.t ∧ Above r.st.store (n.level + 1) n.e := by
  obtain ⟨h1, h2⟩ := hrc.kids_ok i n hi
  constructor
  · cases ht : n.t with
    | term => trivial
    | inner j =>
      rw [ht] at h1
      obtain ⟨m, hm⟩ := h1
      exact ⟨m, hm, ho.ord i n j m hi (.inl ht) hm⟩
  · unfold Above StoreC.has at *
    cases he : n.e.tgt with
    | term => trivial
    | inner j =>
      rw [he] at h2
      obtain ⟨m, hm⟩ := h2
      exact ⟨m, hm, ho.ord i n j m hi (.inr he) hm⟩

/-! ## `reduce` -/

theorem mkNodeR_ord {N cap : Nat} {r : RStC} {l : Nat} {t e : EdgeC} {ext : List EdgeC}
    (hrc : RcInv r (t :: e :: ext)) (ho : ShapeInv N r) (hl : l < N)
    (ht : Above r.st.store (l + 1) t) (he : Above r.st.store (l + 1) e) :
    OrdPost N l (mkNodeR cap r l t e) := by
  -- hash consing and reducedness come from the erasure to `mkNodeC`
  have hshape : (mkNodeR cap r l t e).2.st.store.Unique ∧ (mkNodeR cap r l t e).2.st.store.NoRed := by
    obtain ⟨_, _, hm⟩ := mkNodeR_erase cap r l t e
    cases hR : (mkNodeR cap r l t e).1 with
    | none => rw [hR] at hm; simp only at hm; rw [hm]; exact ⟨ho.uniq, ho.nored⟩
    | some x =>
      rw [hR] at hm; simp only at hm
      have : (mkNodeR cap r l t e).2.st.store = (r.st.store.mkNodeC l t e).1 := by rw [hm]
      rw [this]
      exact ⟨mkNodeC_unique _ _ _ _ ho.uniq, mkNodeC_nored _ _ _ _ ho.nored⟩
  revert hshape
  unfold mkNodeR
  by_cases hte : t = e
  · simp only [hte, if_true]
    intro _
    refine ⟨ho.of_st (dropEdge_st r e), ?_⟩
    intro x hx; cases hx
    simp only [dropEdge_st]
    exact he.weaken (by omega)
  · simp only [hte, if_false]
    cases hf : r.st.store.find? (reduceNode l t e) with
    | some i =>
      simp only
      intro _
      refine ⟨ho.of_st (by simp), ?_⟩
      intro x hx; cases hx
      simp only [cloneEdge_st, dropEdge_st]
      exact ⟨_, find?_some hf, Nat.le_refl _⟩
    | none =>
      simp only
      by_cases hc : r.st.store.count < cap
      · simp only [hc, if_true]
        intro hshape
        generalize hnode : reduceNode l t e = node at hshape
        have hnt := reduceNode_t l t e
        have hne := reduceNode_e_tgt l t e
        have hnl := reduceNode_level l t e
        rw [hnode] at hnt hne hnl
        have hle := alloc_le r.st.store node
        have hfresh := alloc_fresh r.st.store node
        generalize hj : (r.st.store.alloc node).2 = j at hfresh
        have hget := get?_alloc r.st.store node
        rw [hj] at hget
        have hnot : ∀ x : Tgt, r.st.store.hasT x → x ≠ .inner j := by
          intro x hx hxe
          subst hxe
          obtain ⟨n, hn⟩ := hx
          rw [hfresh] at hn; cases hn
        refine ⟨⟨?_, ?_, ?_, hshape.1, hshape.2⟩, ?_⟩
        · -- ordered
          intro i n k m hi hch hk
          simp only [hget] at hi hk
          split at hi
          · cases hi
            -- the new node: its children are old nodes at level > l
            have hkj : k ≠ j := by
              intro hkj; subst hkj
              rcases hch with hch | hch
              · rw [hnt] at hch; exact hnot _ ht.has hch
              · rw [hne] at hch; exact hnot _ he.has hch
            simp only [hkj, if_false] at hk
            rcases hch with hch | hch
            · rw [hnt] at hch
              unfold Above at ht; rw [hch] at ht
              have := ht.level_le hk; omega
            · rw [hne] at hch
              unfold Above at he; rw [hch] at he
              have := he.level_le hk; omega
          · -- an old node: its children are old nodes
            have hk' := hrc.kids_ok i n hi
            have hkj : k ≠ j := by
              intro hkj; subst hkj
              rcases hch with hch | hch
              · exact hnot _ hk'.1 hch
              · exact hnot _ hk'.2 hch
            simp only [hkj, if_false] at hk
            exact ho.ord i n k m hi hch hk
        · intro i n hi
          simp only [hget] at hi
          split at hi
          · cases hi; omega
          · exact ho.bound i n hi
        · exact ho.cache.mono hle
        · intro x hx; cases hx
          exact ⟨node, by simp [hget], by omega⟩
      · simp only [hc, if_false]
        intro _
        refine ⟨ho.of_st (by simp), ?_⟩
        intro x hx; cases hx

/-- `reduce(..)?` + cache add; the key's operands bound the level from above -/
theorem finishR_ord {p : Policy} (pok : p.OK) {N cap : Nat} {r : RStC} {key : Key} {l : Nat}
    {t e : EdgeC} {ext : List EdgeC} (hrc : RcInv r (t :: e :: ext)) (ho : ShapeInv N r) (hl : l < N)
    (ht : Above r.st.store (l + 1) t) (he : Above r.st.store (l + 1) e)
    (hkey : ∀ o ∈ key.2, r.st.store.has (dec o))
    (hlev : ∀ L, (∀ o ∈ key.2, Above r.st.store L (dec o)) → L ≤ l) :
    OrdPost N l (finishR cap p r key l t e) := by
  have hm := mkNodeR_ord (cap := cap) hrc ho hl ht he
  have hle := mkNodeR_le cap r l t e
  unfold finishR
  cases hR : mkNodeR cap r l t e with
  | mk o r' =>
    rw [hR] at hm hle
    cases o with
    | none => exact ⟨hm.1, fun x hx => by cases hx⟩
    | some x =>
      simp only at hle ⊢
      have hx := hm.2 x rfl
      simp only at hx
      refine ⟨⟨hm.1.ord, hm.1.bound, ?_, hm.1.uniq, hm.1.nored⟩, ?_⟩
      · intro k v hkv
        simp only at hkv ⊢
        rcases pok.add_sub _ _ _ _ _ hkv with hold | hnew
        · exact hm.1.cache k v hold
        · cases hnew
          refine ⟨fun o ho' => (hkey o ho').mono hle, fun L hL => ?_⟩
          have : L ≤ l := hlev L (fun o ho' => Above.of_le_has hle (hkey o ho') (hL o ho'))
          rw [dec_enc]
          exact hx.weaken this
      · intro y hy; cases hy; exact hx

theorem forkR_ord {p : Policy} (pok : p.OK) {N cap : Nat} {key : Key} {l : Nat}
    {c1 c0 : RStC → Option EdgeC × RStC} {r : RStC} {ext : List EdgeC} (hl : l < N)
    (h1 : RcPost r ext (c1 r)) (h1o : OrdPost N (l + 1) (c1 r))
    (h0 : ∀ t r1, RcInv r1 (t :: ext) → r.st.store.Le r1.st.store → ShapeInv N r1 →
      RcPost r1 (t :: ext) (c0 r1) ∧ OrdPost N (l + 1) (c0 r1))
    (hkey : ∀ o ∈ key.2, r.st.store.has (dec o))
    (hlev : ∀ L, (∀ o ∈ key.2, Above r.st.store L (dec o)) → L ≤ l) :
    OrdPost N l (forkR cap p key l c1 c0 r) := by
  unfold forkR
  cases hc1 : c1 r with
  | mk o1 r1 =>
    rw [hc1] at h1 h1o
    cases o1 with
    | none => exact ⟨h1o.1, fun x hx => by cases hx⟩
    | some t =>
      obtain ⟨le1, i1⟩ := h1
      simp only at i1 le1 ⊢
      have ht1 := h1o.2 t rfl
      simp only at ht1
      obtain ⟨h0r, h0o⟩ := h0 t r1 i1 le1 h1o.1
      cases hc0 : c0 r1 with
      | mk o0 r0 =>
        rw [hc0] at h0r h0o
        obtain ⟨le0, i0⟩ := h0r
        cases o0 with
        | none =>
          simp only
          exact ⟨h0o.1.of_st (dropEdge_st r0 t), fun x hx => by cases hx⟩
        | some e =>
          simp only at i0 le0 ⊢
          have he0 := h0o.2 e rfl
          simp only at he0
          have hle := le1.trans le0
          exact finishR_ord pok i0.swap h0o.1 hl (ht1.mono le0) he0
            (fun o ho' => (hkey o ho').mono hle)
            (fun L hL => hlev L (fun o ho' => Above.of_le_has hle (hkey o ho') (hL o ho')))

/-! ## cofactors -/

theorem level?_some {s : StoreC} {f : EdgeC} {lf : Nat} (h : s.level? f = some lf) :
    ∃ i n, f.tgt = .inner i ∧ s.get? i = some n ∧ n.level = lf := by
  unfold StoreC.level? at h
  cases hf : f.tgt with
  | term => rw [hf] at h; cases h
  | inner i =>
    rw [hf] at h
    simp only at h
    cases hi : s.get? i with
    | none => rw [hi] at h; cases h
    | some n => rw [hi] at h; simp at h; exact ⟨i, n, rfl, hi, h⟩

theorem cofT_above {r : RStC} {ext : List EdgeC} {N : Nat} (hrc : RcInv r ext) (ho : ShapeInv N r)
    {f : EdgeC} {lf l : Nat} (hlf : r.st.store.level? f = some lf) (hle : l ≤ lf) :
    Above r.st.store (l + 1) (r.st.store.cofT l f) := by
  obtain ⟨i, n, hf, hi, hn⟩ := level?_some hlf
  simp only [StoreC.cofT, hf, hi]
  split
  · rename_i heq
    have := (child_above hrc ho hi).1
    rw [heq] at this; exact this
  · rename_i hne
    unfold Above
    rw [hf]
    exact ⟨n, hi, by omega⟩

theorem cofE_above {r : RStC} {ext : List EdgeC} {N : Nat} (hrc : RcInv r ext) (ho : ShapeInv N r)
    {f : EdgeC} {lf l : Nat} (hlf : r.st.store.level? f = some lf) (hle : l ≤ lf) :
    Above r.st.store (l + 1) (r.st.store.cofE l f) := by
  obtain ⟨i, n, hf, hi, hn⟩ := level?_some hlf
  simp only [StoreC.cofE, hf, hi]
  split
  · rename_i heq
    have := (child_above hrc ho hi).2
    rw [heq] at this; exact this
  · rename_i hne
    unfold Above
    rw [hf]
    exact ⟨n, hi, by omega⟩

theorem above_level? {s : StoreC} {f : EdgeC} {L lf : Nat} (h : Above s L f)
    (hlf : s.level? f = some lf) : L ≤ lf := by
  obtain ⟨i, n, hf, hi, hn⟩ := level?_some hlf
  unfold Above at h
  rw [hf] at h
  have := h.level_le hi
  omega

/-! ## the algorithms -/

theorem terminalOpS_done_above {s : StoreC} {L : Nat} {op : BOp} {f g h : EdgeC}
    (hf : Above s L f) (hg : Above s L g) (ht : terminalOpS op f g = .done h) : Above s L h := by
  have := terminalOpS_shape op f g
  rw [ht] at this
  unfold Above at *
  rcases this with e | e | e <;> rw [e]
  · exact hf
  · exact hg
  · trivial

theorem binR_ord {p : Policy} (pok : p.OK) (N cap : Nat) (op : BOp) (fuel : Nat) :
    ∀ (r : RStC) (f g : EdgeC) (ext : List EdgeC) (L : Nat), RcInv r ext → ShapeInv N r →
      Above r.st.store L f → Above r.st.store L g → OrdPost N L (binR cap p op fuel r f g) := by
  induction fuel with
  | zero => intro r f g ext L _ ho hf _; exact OrdPost.clone ho hf
  | succ fuel ih =>
    intro r f g ext L hrc ho hf hg
    simp only [binR]
    cases hT : terminalOpS op f g with
    | done x => exact OrdPost.clone ho (terminalOpS_done_above hf hg hT)
    | nodes =>
      simp only
      have hk : Above r.st.store L (orderPair f g).1 ∧ Above r.st.store L (orderPair f g).2 := by
        rcases orderPair_cases f g with h | h <;> rw [h]
        · exact ⟨hf, hg⟩
        · exact ⟨hg, hf⟩
      obtain ⟨hk1, hk2⟩ := hk
      generalize orderPair f g = k at hk1 hk2
      have hkeyAll : ∀ o ∈ (keyOf op k.1 k.2).2, Above r.st.store L (dec o) := by
        intro o ho'
        simp only [keyOf, List.mem_cons, List.mem_nil_iff, or_false] at ho'
        rcases ho' with rfl | rfl <;> rw [dec_enc] <;> assumption
      cases hget : p.get r.st.tick r.st.cache (keyOf op k.1 k.2) with
      | some x =>
        exact OrdPost.clone_tickd ho ((ho.cache _ _ (pok.get_mem _ _ _ _ hget)).2 L hkeyAll)
      | none =>
        cases hlf : r.st.store.level? k.1 with
        | none => exact OrdPost.clone_tickd ho hk1
        | some lf =>
          cases hlg : r.st.store.level? k.2 with
          | none => exact OrdPost.clone_tickd ho hk1
          | some lg =>
            simp only
            have hLf := above_level? hk1 hlf
            have hLg := above_level? hk2 hlg
            obtain ⟨i, nf, _, hi, hnf⟩ := level?_some hlf
            have hlN : min lf lg < N := by
              have := ho.bound i nf hi; omega
            refine OrdPost.weaken (show L ≤ min lf lg by omega) ?_
            refine forkR_ord pok (N := N) (cap := cap) (r := r.tickd) (ext := ext) hlN
              (c1 := fun s => binR cap p op fuel s (r.st.store.cofT (min lf lg) k.1) (r.st.store.cofT (min lf lg) k.2))
              (c0 := fun s => binR cap p op fuel s (r.st.store.cofE (min lf lg) k.1) (r.st.store.cofE (min lf lg) k.2))
              (binR_rc pok cap op fuel _ _ _ _ hrc.tickd (cofT_has hrc _ hk1.has) (cofT_has hrc _ hk2.has))
              (ih _ _ _ _ _ hrc.tickd ho.tickd (cofT_above hrc ho hlf (by omega))
                (cofT_above hrc ho hlg (by omega)))
              (fun t r1 i1 le1 o1 =>
                ⟨binR_rc pok cap op fuel _ _ _ _ i1 ((cofE_has hrc _ hk1.has).mono le1)
                  ((cofE_has hrc _ hk2.has).mono le1),
                 ih _ _ _ _ _ i1 o1 ((cofE_above hrc ho hlf (by omega)).mono le1)
                  ((cofE_above hrc ho hlg (by omega)).mono le1)⟩)
              ?_ ?_
            · intro o ho'
              exact (hkeyAll o ho').has
            · intro L' hL'
              have a := above_level? (by simpa [dec_enc] using hL' (enc k.1) (by simp [keyOf])) hlf
              have b := above_level? (by simpa [dec_enc] using hL' (enc k.2) (by simp [keyOf])) hlg
              omega

theorem applyOpR_ord {p : Policy} (pok : p.OK) (N cap : Nat) (op : Op) (fuel : Nat) (r : RStC)
    (f g : EdgeC) (ext : List EdgeC) (L : Nat) (hrc : RcInv r ext) (ho : ShapeInv N r)
    (hf : Above r.st.store L f) (hg : Above r.st.store L g) :
    OrdPost N L (applyOpR cap p op fuel r f g) := by
  cases op <;> simp only [applyOpR]
  · exact binR_ord pok N cap .and fuel r f g ext L hrc ho hf hg
  · exact (binR_ord pok N cap .and fuel r _ _ ext L hrc ho hf.notE hg.notE).mapNot
  · exact (binR_ord pok N cap .and fuel r f g ext L hrc ho hf hg).mapNot
  · exact binR_ord pok N cap .and fuel r _ _ ext L hrc ho hf.notE hg.notE
  · exact binR_ord pok N cap .xor fuel r f g ext L hrc ho hf hg
  · exact (binR_ord pok N cap .xor fuel r f g ext L hrc ho hf hg).mapNot
  · exact (binR_ord pok N cap .and fuel r _ _ ext L hrc ho hf hg.notE).mapNot
  · exact binR_ord pok N cap .and fuel r _ _ ext L hrc ho hf.notE hg

theorem iteR_ord {p : Policy} (pok : p.OK) (N cap : Nat) (fuel : Nat) :
    ∀ (r : RStC) (f g h : EdgeC) (ext : List EdgeC) (L : Nat), RcInv r ext → ShapeInv N r →
      Above r.st.store L f → Above r.st.store L g → Above r.st.store L h →
      OrdPost N L (iteR cap p fuel r f g h) := by
  induction fuel with
  | zero => intro r f g h ext L _ ho hf _ _; exact OrdPost.clone ho hf
  | succ fuel ih =>
    intro r f g h ext L hrc ho hf hg hh
    have A := fun (a b : EdgeC) (ha : Above r.st.store L a) (hb : Above r.st.store L b) =>
      binR_ord pok N cap .and fuel r a b ext L hrc ho ha hb
    simp only [iteR]
    by_cases h1 : g.tgt = h.tgt
    · simp only [h1, if_true]
      by_cases h2 : g.neg = h.neg
      · simp only [h2, if_true]; exact OrdPost.clone ho hg
      · simp only [h2, if_false]
        exact (binR_ord pok N cap .xor fuel r f g ext L hrc ho hf hg).mapNot
    · simp only [h1, if_false]
      by_cases h3 : f.tgt = g.tgt
      · simp only [h3, if_true]
        by_cases h4 : f.neg = g.neg
        · simp only [h4, if_true]; exact (A _ _ hf.notE hh.notE).mapNot
        · simp only [h4, if_false]; exact A _ _ hf.notE hh
      · simp only [h3, if_false]
        by_cases h5 : f.tgt = h.tgt
        · simp only [h5, if_true]
          by_cases h6 : f.neg = h.neg
          · simp only [h6, if_true]; exact A _ _ hf hg
          · simp only [h6, if_false]; exact (A _ _ hf hg.notE).mapNot
        · simp only [h5, if_false]
          cases hft : f.tgt with
          | term =>
            simp only
            split
            · exact OrdPost.clone ho hg
            · exact OrdPost.clone ho hh
          | inner i =>
            simp only
            cases hgt : g.tgt with
            | term =>
              cases hht : h.tgt with
              | term => rw [hgt, hht] at h1; exact absurd rfl h1
              | inner k =>
                simp only
                split
                · exact (A _ _ hf.notE hh.notE).mapNot
                · exact A _ _ hf.notE hh
            | inner j =>
              cases hht : h.tgt with
              | term =>
                simp only
                split
                · exact (A _ _ hf hg.notE).mapNot
                · exact A _ _ hf hg
              | inner k =>
                simp only
                have hkeyAll : ∀ o ∈ [enc f, enc g, enc h], Above r.st.store L (dec o) := by
                  intro o ho'
                  simp only [List.mem_cons, List.mem_nil_iff, or_false] at ho'
                  rcases ho' with rfl | rfl | rfl <;> rw [dec_enc] <;> assumption
                cases hget : p.get r.st.tick r.st.cache (.ite, [enc f, enc g, enc h]) with
                | some x =>
                  exact OrdPost.clone_tickd ho ((ho.cache _ _ (pok.get_mem _ _ _ _ hget)).2 L hkeyAll)
                | none =>
                  simp only
                  cases hlf : r.st.store.level? f with
                  | none => exact OrdPost.clone_tickd ho hf
                  | some lf =>
                    cases hlg : r.st.store.level? g with
                    | none => exact OrdPost.clone_tickd ho hf
                    | some lg =>
                      cases hlh : r.st.store.level? h with
                      | none => exact OrdPost.clone_tickd ho hf
                      | some lh =>
                        simp only
                        have hLf := above_level? hf hlf
                        have hLg := above_level? hg hlg
                        have hLh := above_level? hh hlh
                        obtain ⟨i', nf, _, hi, hnf⟩ := level?_some hlf
                        have hlN : min (min lf lg) lh < N := by
                          have := ho.bound i' nf hi; omega
                        refine OrdPost.weaken (show L ≤ min (min lf lg) lh by omega) ?_
                        refine forkR_ord pok (N := N) (cap := cap) (r := r.tickd) (ext := ext) hlN
                          (c1 := fun s => iteR cap p fuel s (r.st.store.cofT (min (min lf lg) lh) f)
                            (r.st.store.cofT (min (min lf lg) lh) g) (r.st.store.cofT (min (min lf lg) lh) h))
                          (c0 := fun s => iteR cap p fuel s (r.st.store.cofE (min (min lf lg) lh) f)
                            (r.st.store.cofE (min (min lf lg) lh) g) (r.st.store.cofE (min (min lf lg) lh) h))
                          (iteR_rc pok cap fuel _ _ _ _ _ hrc.tickd (cofT_has hrc _ hf.has)
                            (cofT_has hrc _ hg.has) (cofT_has hrc _ hh.has))
                          (ih _ _ _ _ _ _ hrc.tickd ho.tickd (cofT_above hrc ho hlf (by omega))
                            (cofT_above hrc ho hlg (by omega)) (cofT_above hrc ho hlh (by omega)))
                          (fun t r1 i1 le1 o1 =>
                            ⟨iteR_rc pok cap fuel _ _ _ _ _ i1 ((cofE_has hrc _ hf.has).mono le1)
                              ((cofE_has hrc _ hg.has).mono le1) ((cofE_has hrc _ hh.has).mono le1),
                             ih _ _ _ _ _ _ i1 o1 ((cofE_above hrc ho hlf (by omega)).mono le1)
                              ((cofE_above hrc ho hlg (by omega)).mono le1)
                              ((cofE_above hrc ho hlh (by omega)).mono le1)⟩)
                          ?_ ?_
                        · intro o ho'
                          exact (hkeyAll o ho').has
                        · intro L' hL'
                          have a := above_level? (by simpa [dec_enc] using hL' (enc f) (by simp)) hlf
                          have b := above_level? (by simpa [dec_enc] using hL' (enc g) (by simp)) hlg
                          have c := above_level? (by simpa [dec_enc] using hL' (enc h) (by simp)) hlh
                          omega

/-! ## histories -/

/-- variables are created on existing levels -/
def Cmd.OK (N : Nat) : Cmd → Prop
  | .var _ level _ => level < N
  | _ => True

theorem has_above_zero {s : StoreC} {e : EdgeC} (h : s.has e) : Above s 0 e := by
  unfold Above StoreC.has at *
  cases ht : e.tgt with
  | term => trivial
  | inner i => rw [ht] at h; obtain ⟨n, hn⟩ := h; exact ⟨n, hn, Nat.zero_le _⟩

theorem pushRes_ord {N L : Nat} {h : HSt} {res : Option EdgeC × RStC} (ho : OrdPost N L res) :
    ShapeInv N (pushRes h res).r := by
  obtain ⟨o, r'⟩ := res
  cases o <;> exact ho.1

theorem sub_unique {s s' : StoreC} (h : s.Unique) (hs : Sub s' s) : s'.Unique :=
  fun i j n hi hj => h i j n (hs i n hi) (hs j n hj)

theorem sub_nored {s s' : StoreC} (h : s.NoRed) (hs : Sub s' s) : s'.NoRed :=
  fun i n hi => h i n (hs i n hi)

theorem gcR_ord {N : Nat} {r : RStC} (n : Nat) (ho : ShapeInv N r) : ShapeInv N (gcR n r) := by
  have hsub := gcR_sub n r
  refine ⟨ordered_sub ho.ord hsub, fun i m hi => ho.bound i m (hsub i m hi), ?_,
    sub_unique ho.uniq hsub, sub_nored ho.nored hsub⟩
  have : (gcR n r).st.cache = [] := by
    unfold gcR
    exact gcLevels_ind (P := fun r' => r'.st.cache = [])
      (fun l r' i h => by
        rw [gcSlot_eq]
        cases r'.st.store.get? i with
        | none => exact h
        | some m =>
          simp only
          split
          · rw [freeSlot_cache]; exact h
          · exact h) _ _ rfl
  rw [this]
  intro k v hkv; cases hkv

theorem varR_ord {N cap : Nat} {r : RStC} {level : Nat} {neg : Bool} {ext : List EdgeC}
    (hi : RcInv r ext) (ho : ShapeInv N r) (hl : level < N) :
    OrdPost N level (varR cap r level neg) := by
  have hv : RcInv r (termC true :: termC false :: ext) :=
    cloneEdge_rc (x := termC true) (cloneEdge_rc (x := termC false) hi trivial) trivial
  have hp := mkNodeR_ord (cap := cap) hv ho hl trivial trivial
  unfold varR
  simp only
  split
  · exact hp.mapNot
  · exact hp

theorem Cmd.run_ord {p : Policy} (pok : p.OK) {N : Nat} (c : Cmd) (hc : c.OK N) (h : HSt)
    (hi : RcInv h.r h.hs) (ho : ShapeInv N h.r) : ShapeInv N (c.run p h).r := by
  cases c with
  | var cap level neg => exact pushRes_ord (varR_ord hi ho hc)
  | not a =>
    simp only [Cmd.run]
    cases ha : h.hs[a]? with
    | none => exact ho
    | some f => exact ho.of_st (cloneEdge_st _ _)
  | bin cap fuel op a b =>
    simp only [Cmd.run]
    cases ha : h.hs[a]? with
    | none => exact ho
    | some f =>
      cases hb : h.hs[b]? with
      | none => exact ho
      | some g =>
        exact pushRes_ord (applyOpR_ord pok N cap op fuel h.r f g h.hs 0 hi ho
          (has_above_zero (hi.ext_ok f (List.mem_of_getElem? ha)))
          (has_above_zero (hi.ext_ok g (List.mem_of_getElem? hb))))
  | ite cap fuel a b c =>
    simp only [Cmd.run]
    cases ha : h.hs[a]? with
    | none => exact ho
    | some f =>
      cases hb : h.hs[b]? with
      | none => exact ho
      | some g =>
        cases hc' : h.hs[c]? with
        | none => exact ho
        | some k =>
          exact pushRes_ord (iteR_ord pok N cap fuel h.r f g k h.hs 0 hi ho
            (has_above_zero (hi.ext_ok f (List.mem_of_getElem? ha)))
            (has_above_zero (hi.ext_ok g (List.mem_of_getElem? hb)))
            (has_above_zero (hi.ext_ok k (List.mem_of_getElem? hc'))))
  | clone a =>
    simp only [Cmd.run]
    cases ha : h.hs[a]? with
    | none => exact ho
    | some f => exact ho.of_st (cloneEdge_st _ _)
  | drop a =>
    simp only [Cmd.run]
    cases ha : h.hs[a]? with
    | none => exact ho
    | some f => exact ho.of_st (dropEdge_st _ _)
  | gc n => exact gcR_ord n ho

theorem runAll_ord {p : Policy} (pok : p.OK) {N : Nat} : ∀ (cmds : List Cmd) (h : HSt),
    (∀ c ∈ cmds, c.OK N) → RcInv h.r h.hs → ShapeInv N h.r →
    RcInv (runAll p cmds h).r (runAll p cmds h).hs ∧ ShapeInv N (runAll p cmds h).r := by
  intro cmds
  induction cmds with
  | nil => intro h _ hi ho; exact ⟨hi, ho⟩
  | cons c cs ih =>
    intro h hok hi ho
    exact ih _ (fun c' hc' => hok c' (List.mem_cons_of_mem _ hc'))
      (Cmd.run_rc pok c h hi) (Cmd.run_ord pok c (hok c List.mem_cons_self) h hi ho)

end OxiddModel.Bcdd.Rc
