import OxiddModel.Bcdd.Quant

/-! `restrict`: the result denotes the cofactor of `f` with respect to the partial assignment that
the code reads off the literal cube (with polarity tracking through complement tags). -/
namespace OxiddModel.Bcdd
open CNode

/-- the literals `(level, polarity)` that `restrict::inner` reads off the cube diagram `vn` reached
with accumulated polarity `vneg` -/
def litsGo : Bool → CNode → List (Nat × Bool)
  | _, .top => []
  | vneg, .node vl vt ven ve =>
    if vt.isTop then (if vneg then (vl, false) :: litsGo (!ven) ve else [(vl, true)])
    else (vl, true) :: litsGo vneg vt

def litsOf (vars : Edge) : List (Nat × Bool) := litsGo vars.neg vars.n

/-- `σ` overridden by the listed literals -/
def assign (σ : Nat → Bool) (lits : List (Nat × Bool)) : Nat → Bool :=
  fun l => match lits.lookup l with
    | some b => b
    | none => σ l

theorem assign_nil (σ : Nat → Bool) (l : Nat) : assign σ [] l = σ l := rfl

theorem assign_cons (σ : Nat → Bool) (v : Nat) (b : Bool) (L : List (Nat × Bool)) (l : Nat) :
    assign σ ((v, b) :: L) l = if l = v then b else assign σ L l := by
  simp only [assign, List.lookup_cons]
  by_cases h : l = v
  · subst h; simp
  · have : (l == v) = false := by simp [h]
    simp [this, h]

theorem litsGo_ge {m : Nat} {vn : CNode} (h : Ordered m vn) (vneg : Bool) :
    ∀ p ∈ litsGo vneg vn, m ≤ p.1 := by
  induction h generalizing vneg with
  | top => intro p hp; cases hp
  | @node n l t e en hl _ _ iht ihe =>
    intro p hp
    simp only [litsGo] at hp
    split at hp
    · split at hp
      · simp only [List.mem_cons] at hp
        rcases hp with rfl | hp
        · exact hl
        · have := ihe _ p hp; omega
      · simp only [List.mem_singleton] at hp
        subst hp; exact hl
    · simp only [List.mem_cons] at hp
      rcases hp with rfl | hp
      · exact hl
      · have := iht _ p hp; omega

theorem assign_lt {σ : Nat → Bool} {L : List (Nat × Bool)} {m l : Nat} (h : ∀ p ∈ L, m ≤ p.1) (hl : l < m) :
    assign σ L l = σ l := by
  induction L with
  | nil => rfl
  | cons p L ih =>
    obtain ⟨v, b⟩ := p
    rw [assign_cons]
    have : m ≤ v := h (v, b) List.mem_cons_self
    rw [if_neg (by omega)]
    exact ih (fun p hp => h p (List.mem_cons_of_mem _ hp))

/-- dropping a literal above the top level of `f` does not change the value -/
theorem eval_assign_cons_lt {f : Edge} {n v : Nat} (hf : Ordered n f.n) (hv : v < n) (b : Bool)
    (σ : Nat → Bool) (L : List (Nat × Bool)) :
    f.eval (assign σ ((v, b) :: L)) = f.eval (assign σ L) :=
  Edge.eval_indep hf _ _ (fun w hw => by rw [assign_cons, if_neg (by omega)])

theorem eval_assign_nil {f : Edge} (σ : Nat → Bool) : f.eval (assign σ []) = f.eval σ := rfl

theorem eval_retag (r : Edge) (b : Bool) (σ : Nat → Bool) :
    Edge.eval σ ⟨r.neg != b, r.n⟩ = (b != r.eval σ) := by
  simp only [Edge.eval]; cases r.neg <;> cases b <;> cases r.n.eval σ <;> rfl

theorem restrictGo_eval (fn : CNode) (fneg : Bool) (vn : CNode) (vneg : Bool) :
    ∀ (n m : Nat), Ordered n fn → Ordered m vn → ∀ σ,
    (restrictGo fn fneg vn vneg).eval σ = (⟨fneg, fn⟩ : Edge).eval (assign σ (litsGo vneg vn)) := by
  fun_induction restrictGo fn fneg vn vneg with
  | case1 fneg vneg fl ft fen fe vl vt ven ve hgt t e r iht ihe =>
    intro n m hf hv σ
    cases hf with
    | node hn hft hfe =>
    rw [eval_retag, mk_eval, iht _ _ hft hv σ, ihe _ _ hfe hv σ]
    have hfl : assign σ (litsGo vneg (.node vl vt ven ve)) fl = σ fl :=
      assign_lt (litsGo_ge hv.node_self vneg) hgt
    simp only [Edge.eval, CNode.eval, hfl]
    cases σ fl <;> simp
  | case2 fneg vneg fl ft fen fe vl ven ve hle hlt l1 a1 b1 c1 ih =>
    intro n m hf hv σ
    cases hv with
    | node hm hvt hve =>
    rw [ih _ _ hf hvt σ]
    simp only [litsGo, isTop, Bool.false_eq_true, if_false]
    exact (eval_assign_cons_lt (f := ⟨fneg, .node fl ft fen fe⟩) hf.node_self hlt true σ _).symm
  | case3 fneg fl ft fen fe vl ven hle hlt l2 a2 b2 c2 ih =>
    intro n m hf hv σ
    cases hv with
    | node hm hvt hve =>
    rw [ih _ _ hf hve σ]
    simp only [litsGo, isTop, if_true]
    exact (eval_assign_cons_lt (f := ⟨fneg, .node fl ft fen fe⟩) hf.node_self hlt false σ _).symm
  | case4 fneg fl ft fen fe vl ven hle hlt =>
    intro n m hf hv σ
    simp only [litsGo, isTop, if_true]
    exact (eval_assign_cons_lt (f := ⟨fneg, .node fl ft fen fe⟩) hf.node_self hlt false σ []).symm
  | case5 fneg vneg fl ft fen fe vl ven ve hle hlt hvn =>
    intro n m hf hv σ
    simp only [litsGo, isTop, if_true, hvn]
    exact (eval_assign_cons_lt (f := ⟨fneg, .node fl ft fen fe⟩) hf.node_self hlt true σ []).symm
  | case6 fneg vneg fl ft fen fe vl ven ve hle hge l1 a1 b1 c1 ih =>
    intro n m hf hv σ
    have heq : vl = fl := by omega
    subst heq
    cases hv with
    | node hm hvt hve =>
    cases hf with
    | node hn hft hfe =>
    rw [ih _ _ hft hvt σ]
    simp only [litsGo, isTop, Bool.false_eq_true, if_false]
    rw [node_eval_true (by rw [assign_cons, if_pos rfl])]
    exact (eval_assign_cons_lt (f := ⟨fneg, ft⟩) hft (Nat.lt_succ_self _) true σ _).symm
  | case7 fneg vneg fl ft fen fe vl ven ve hle hge hvn =>
    intro n m hf hv σ
    have heq : vl = fl := by omega
    subst heq
    cases hf with
    | node hn hft hfe =>
    have hvn' : vneg = false := by cases vneg <;> simp_all
    simp only [litsGo, isTop, if_true, hvn', Bool.false_eq_true, if_false]
    rw [node_eval_true (by rw [assign_cons, if_pos rfl])]
    exact (eval_assign_cons_lt (f := ⟨fneg, ft⟩) hft (Nat.lt_succ_self _) true σ []).symm
  | case8 fneg vneg fl ft fen fe vl ven hle hge hvn l2 a2 b2 c2 ih =>
    intro n m hf hv σ
    have heq : vl = fl := by omega
    subst heq
    cases hv with
    | node hm hvt hve =>
    cases hf with
    | node hn hft hfe =>
    have hvn' : vneg = true := by cases vneg <;> simp_all
    rw [ih _ _ hfe hve σ]
    simp only [litsGo, isTop, if_true, hvn']
    rw [node_eval_false (by rw [assign_cons, if_pos rfl])]
    exact (eval_assign_cons_lt (f := ⟨fneg != fen, fe⟩) hfe (Nat.lt_succ_self _) false σ _).symm
  | case9 fneg vneg fl ft fen fe vl ven hle hge hvn =>
    intro n m hf hv σ
    have heq : vl = fl := by omega
    subst heq
    cases hf with
    | node hn hft hfe =>
    have hvn' : vneg = true := by cases vneg <;> simp_all
    simp only [litsGo, isTop, if_true, hvn']
    rw [node_eval_false (by rw [assign_cons, if_pos rfl])]
    exact (eval_assign_cons_lt (f := ⟨fneg != fen, fe⟩) hfe (Nat.lt_succ_self _) false σ []).symm
  | case10 fn fneg vn vneg hno =>
    intro n m hf hv σ
    cases fn with
    | top => rfl
    | node fl ft fen fe =>
      cases vn with
      | top => rfl
      | node vl vt ven ve => exact (hno _ _ _ _ _ _ _ _ rfl rfl).elim

theorem restrictGo_nf (fn : CNode) (fneg : Bool) (vn : CNode) (vneg : Bool) :
    ∀ (n : Nat), (⟨fneg, fn⟩ : Edge).NF n → (restrictGo fn fneg vn vneg).NF n := by
  fun_induction restrictGo fn fneg vn vneg with
  | case1 fneg vneg fl ft fen fe vl vt ven ve hgt t e r iht ihe =>
    intro n hf
    have : r.NF n := mk_nf (nf_node_le hf) (iht _ (nf_cofT hf false)) (ihe _ (nf_cofE hf fen))
    exact this
  | case2 fneg vneg fl ft fen fe vl ven ve hle hlt l1 a1 b1 c1 ih => intro n hf; exact ih n hf
  | case3 fneg fl ft fen fe vl ven hle hlt l2 a2 b2 c2 ih => intro n hf; exact ih n hf
  | case4 => intro n hf; exact hf
  | case5 => intro n hf; exact hf
  | case6 fneg vneg fl ft fen fe vl ven ve hle hge l1 a1 b1 c1 ih =>
    intro n hf; exact (ih _ (nf_cofT hf fneg)).mono (by have := nf_node_le hf; omega)
  | case7 fneg vneg fl ft fen fe vl ven ve hle hge hvn =>
    intro n hf; exact (nf_cofT hf fneg).mono (by have := nf_node_le hf; omega)
  | case8 fneg vneg fl ft fen fe vl ven hle hge hvn l2 a2 b2 c2 ih =>
    intro n hf; exact (ih _ (nf_cofE hf (fneg != fen))).mono (by have := nf_node_le hf; omega)
  | case9 fneg vneg fl ft fen fe vl ven hle hge hvn =>
    intro n hf; exact (nf_cofE hf (fneg != fen)).mono (by have := nf_node_le hf; omega)
  | case10 fn fneg vn vneg hno => intro n hf; exact hf

/-- `restrict(f, vars)` denotes `f` under the assignment overridden by the literals of the cube -/
theorem restrict_eval (f vars : Edge) (n m : Nat) (hf : Ordered n f.n) (hv : Ordered m vars.n)
    (σ : Nat → Bool) : (restrict f vars).eval σ = f.eval (assign σ (litsOf vars)) :=
  restrictGo_eval f.n f.neg vars.n vars.neg n m hf hv σ

theorem restrict_nf (f vars : Edge) (n : Nat) (hf : f.NF n) : (restrict f vars).NF n :=
  restrictGo_nf f.n f.neg vars.n vars.neg n hf

/-! ## what a cube diagram denotes -/

/-- the shape `restrict` assumes of `vars` (its `debug_assert!`s): a conjunction of literals, read
with accumulated polarity `vneg` -/
def IsCube : Bool → CNode → Prop
  | vneg, .top => vneg = false
  | vneg, .node _ vt ven ve =>
    if vt.isTop then
      (if vneg then IsCube (!ven) ve          -- ¬x ∧ φ
       else ve = .top ∧ ven = true)           -- x
    else ve = .top ∧ ven = (!vneg) ∧ IsCube vneg vt   -- x ∧ φ

/-- a cube diagram is true exactly under the assignments satisfying the literals read off by
`restrict` -/
theorem cube_eval (vn : CNode) : ∀ (vneg : Bool), IsCube vneg vn → ∀ σ,
    ((⟨vneg, vn⟩ : Edge).eval σ = true ↔ ∀ p ∈ litsGo vneg vn, σ p.1 = p.2) := by
  induction vn with
  | top =>
    intro vneg h σ
    simp only [IsCube] at h
    subst h
    simp [Edge.eval, CNode.eval, litsGo]
  | node vl vt ven ve iht ihe =>
    intro vneg h σ
    simp only [IsCube] at h
    simp only [litsGo]
    split at h
    · rename_i htop
      have hvt : vt = .top := by cases vt <;> simp_all [isTop]
      subst hvt
      simp only [isTop, if_true]
      split at h
      · rename_i hneg
        simp only [hneg, if_true, List.forall_mem_cons]
        rw [← ihe (!ven) h σ]
        simp only [Edge.eval, CNode.eval]
        cases σ vl <;> cases ven <;> cases ve.eval σ <;> simp
      · rename_i hneg
        obtain ⟨h1, h2⟩ := h
        subst h1 h2
        have : vneg = false := by cases vneg <;> simp_all
        subst this
        simp only [Bool.false_eq_true, if_false, List.forall_mem_cons]
        simp only [Edge.eval, CNode.eval]
        cases σ vl <;> simp
    · rename_i htop
      obtain ⟨h1, h2, h3⟩ := h
      subst h1 h2
      simp only [htop, Bool.false_eq_true, ↓reduceIte, List.forall_mem_cons]
      rw [← iht vneg h3 σ]
      simp only [Edge.eval, CNode.eval]
      cases σ vl <;> cases vneg <;> cases vt.eval σ <;> simp

/-- a variable set: a conjunction of positive literals -/
def IsVarSet : CNode → Prop
  | .top => True
  | .node _ t en e => en = true ∧ e = .top ∧ IsVarSet t

theorem varSet_eval (vn : CNode) (h : IsVarSet vn) (σ : Nat → Bool) :
    ((⟨false, vn⟩ : Edge).eval σ = true ↔ ∀ v ∈ varsOf vn, σ v = true) := by
  induction vn with
  | top => simp [Edge.eval, CNode.eval, varsOf]
  | node l t en e iht _ =>
    obtain ⟨h1, h2, h3⟩ := h
    subst h1 h2
    simp only [varsOf, List.forall_mem_cons]
    rw [← iht h3]
    simp only [Edge.eval, CNode.eval]
    cases σ l <;> simp

end OxiddModel.Bcdd
