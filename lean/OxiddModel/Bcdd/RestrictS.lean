import OxiddModel.Bcdd.ApplyCX

/-!
# `restrict` on the BCDD store, with the apply cache

`restrictS` follows `restrict` of `crates/oxidd-rules-bdd/src/complement_edge/apply_rec.rs`:

* the tail-recursive `inner` walk (`restrictInnerC`): no cache access, no node creation. It carries
  the accumulated polarities `f_neg` / `vars_neg` next to the *nodes* of `f` and of the cube, skips
  the literals of the cube above the top of `f`, follows the selected child of `f` while the top
  literal is at the level of `f`, and stops with `Done(f with tag f_neg)` or, as soon as `f` is above
  the top-most remaining literal, with `Rec { vars.with_tag(vars_neg), f, f_neg, fnode }`;
* for `Rec`: cache query under the key `(Restrict, [f_untagged, vars])` — **the node the walk
  stopped at, without tag; the cube edge the walk stopped at, with the accumulated tag** — a hit
  `r` is returned as `r.tag ^ f_neg`; otherwise recursion on the two *raw* children of `fnode`
  (`child(0)` has tag `None`, `child(1)` its stored tag) with `vars`, `reduce`, cache add of the
  **untagged-`f` result**, and the returned edge is `result.tag ^ f_neg`.

`restrictS_spec`: for every admissible policy and sound cache the result denotes `restrict a v`,
and — every node created is a node of the result — store and result are
`internE s (restrict a v)` (`PostCX`, including canonicity).
-/
namespace OxiddModel.Bcdd.Refine
open OxiddModel.Bcdd OxiddModel.Bcdd.CNode
open OxiddModel.Bdd.Refine (Policy OpTag Key Cache)

/-! ## complementing by a Boolean: `tag ^ f_tag` -/

/-- `result.with_tag_owned(result_tag ^ f_tag)` on tree edges -/
def xorTag (b : Bool) (x : Edge) : Edge := ⟨x.neg != b, x.n⟩
/-- … on store edges -/
def xorTagE (b : Bool) (x : EdgeC) : EdgeC := ⟨x.neg != b, x.tgt⟩

theorem xorTag_false (x : Edge) : xorTag false x = x := by
  obtain ⟨n, t⟩ := x; simp [xorTag]
theorem xorTag_true (x : Edge) : xorTag true x = applyNot x := by
  obtain ⟨n, t⟩ := x; cases n <;> rfl
theorem xorTagE_false (x : EdgeC) : xorTagE false x = x := by
  obtain ⟨n, t⟩ := x; simp [xorTagE]
theorem xorTagE_true (x : EdgeC) : xorTagE true x = notE x := by
  obtain ⟨n, t⟩ := x; cases n <;> rfl

theorem DenotesC.xorTag {s : StoreC} {x : EdgeC} {a : Edge} (b : Bool) (h : DenotesC s x a) :
    DenotesC s (xorTagE b x) (xorTag b a) := ⟨by simp [xorTagE, Refine.xorTag, h.1], h.2⟩

theorem PostCX.xorTag {reg : Nat → List Edge} {s : StoreC} {T : Edge} {R : StC × EdgeC} (b : Bool)
    (h : PostCX reg s T R) : PostCX reg s (xorTag b T) (R.1, xorTagE b R.2) := by
  cases b
  · rw [xorTag_false, xorTagE_false]; exact h
  · rw [xorTag_true, xorTagE_true]; exact h.not

/-! ## tree level: unfolding `restrictGo` -/

theorem restrictGo_top_l (fneg : Bool) (vn : CNode) (vneg : Bool) :
    restrictGo .top fneg vn vneg = ⟨fneg, .top⟩ := by
  rw [restrictGo]
  intro _ _ _ _ _ _ _ _ h; cases h

theorem restrictGo_top_r (fn : CNode) (fneg vneg : Bool) :
    restrictGo fn fneg .top vneg = ⟨fneg, fn⟩ := by
  rw [restrictGo]
  intro _ _ _ _ _ _ _ _ _ h; cases h

theorem restrictGo_gt {fl vl : Nat} (ft fe vt ve : CNode) (fen ven fneg vneg : Bool) (h : vl > fl) :
    restrictGo (.node fl ft fen fe) fneg (.node vl vt ven ve) vneg =
      xorTag fneg (mk fl (restrictGo ft false (.node vl vt ven ve) vneg)
        (restrictGo fe fen (.node vl vt ven ve) vneg)) := by
  rw [restrictGo.eq_def]; simp only [h, if_true, xorTag]

theorem restrictGo_lt_node {fl vl l1 : Nat} (ft fe a1 c1 ve : CNode) (fen ven b1 fneg vneg : Bool)
    (h : vl < fl) :
    restrictGo (.node fl ft fen fe) fneg (.node vl (.node l1 a1 b1 c1) ven ve) vneg =
      restrictGo (.node fl ft fen fe) fneg (.node l1 a1 b1 c1) vneg := by
  have h' : ¬ vl > fl := by omega
  rw [restrictGo.eq_def]; simp only [h, h', if_true, if_false]

theorem restrictGo_lt_top_pos {fl vl : Nat} (ft fe ve : CNode) (fen ven fneg : Bool) (h : vl < fl) :
    restrictGo (.node fl ft fen fe) fneg (.node vl .top ven ve) false =
      ⟨fneg, .node fl ft fen fe⟩ := by
  have h' : ¬ vl > fl := by omega
  rw [restrictGo.eq_def]; simp [h, h']

theorem restrictGo_lt_top_neg_node {fl vl l2 : Nat} (ft fe a2 c2 : CNode) (fen ven b2 fneg : Bool)
    (h : vl < fl) :
    restrictGo (.node fl ft fen fe) fneg (.node vl .top ven (.node l2 a2 b2 c2)) true =
      restrictGo (.node fl ft fen fe) fneg (.node l2 a2 b2 c2) (!ven) := by
  have h' : ¬ vl > fl := by omega
  rw [restrictGo.eq_def]; simp [h, h']

theorem restrictGo_lt_top_neg_top {fl vl : Nat} (ft fe : CNode) (fen ven fneg : Bool) (h : vl < fl) :
    restrictGo (.node fl ft fen fe) fneg (.node vl .top ven .top) true =
      ⟨fneg, .node fl ft fen fe⟩ := by
  have h' : ¬ vl > fl := by omega
  rw [restrictGo.eq_def]; simp [h, h']

theorem restrictGo_eq_node {l l1 : Nat} (ft fe a1 c1 ve : CNode) (fen ven b1 fneg vneg : Bool) :
    restrictGo (.node l ft fen fe) fneg (.node l (.node l1 a1 b1 c1) ven ve) vneg =
      restrictGo ft fneg (.node l1 a1 b1 c1) vneg := by
  rw [restrictGo.eq_def]; simp only [Nat.lt_irrefl, gt_iff_lt, if_false]

theorem restrictGo_eq_top_pos {l : Nat} (ft fe ve : CNode) (fen ven fneg : Bool) :
    restrictGo (.node l ft fen fe) fneg (.node l .top ven ve) false = ⟨fneg, ft⟩ := by
  rw [restrictGo.eq_def]; simp

theorem restrictGo_eq_top_neg_node {l l2 : Nat} (ft fe a2 c2 : CNode) (fen ven b2 fneg : Bool) :
    restrictGo (.node l ft fen fe) fneg (.node l .top ven (.node l2 a2 b2 c2)) true =
      restrictGo fe (fneg != fen) (.node l2 a2 b2 c2) (!ven) := by
  rw [restrictGo.eq_def]; simp

theorem restrictGo_eq_top_neg_top {l : Nat} (ft fe : CNode) (fen ven fneg : Bool) :
    restrictGo (.node l ft fen fe) fneg (.node l .top ven .top) true = ⟨fneg != fen, fe⟩ := by
  rw [restrictGo.eq_def]; simp

/-! ## the tail-recursive walk -/

/-- `InnerResult`: `Done(edge)` or `Rec { vars, f, f_neg, fnode }` (`vars` already retagged with
`vars_neg`; `f` is kept as the node it points to, its own tag is never used again) -/
inductive InnerResC where
  | done (r : EdgeC)
  | recur (f : Tgt) (fneg : Bool) (vars : EdgeC)
deriving Repr, DecidableEq

/-- the entry check of `restrict` (both operands inner nodes, else `f`) together with the
tail-recursive `inner`; `f`/`vars` are the nodes pointed to, `fneg`/`vneg` the accumulated
polarities `f_neg`/`vars_neg` -/
def restrictInnerC (s : StoreC) : Nat → Tgt → Bool → Tgt → Bool → InnerResC
  | 0, f, fneg, _, _ => .done ⟨fneg, f⟩
  | fuel+1, f, fneg, vars, vneg =>
    match f, vars with
    | .inner i, .inner j =>
      match s.get? i, s.get? j with
      | some fn, some vn =>
        if vn.level > fn.level then
          -- f above vars
          .recur f fneg ⟨vneg, vars⟩
        else if vn.level < fn.level then
          -- vars above f
          match vn.t with
          | .inner _ => restrictInnerC s fuel f fneg vn.t vneg -- shape x ∧ φ (`vt.tag` is `None`)
          | .term =>
            if vneg then
              -- shape ¬x ∧ φ
              match vn.e.tgt with
              | .inner _ => restrictInnerC s fuel f fneg vn.e.tgt (!vn.e.neg) -- `ve.tag != Complemented`
              | .term => .done ⟨fneg, f⟩ -- shape ¬x
            else .done ⟨fneg, f⟩ -- shape x
        else
          -- top var at the level of f ⇒ select accordingly
          match vn.t with
          | .inner _ => restrictInnerC s fuel fn.t fneg vn.t vneg -- x ∧ φ ⇒ then branch (tag `None`)
          | .term =>
            if !vneg then .done ⟨fneg, fn.t⟩ -- shape x ⇒ then branch
            else
              -- shape ¬x ∧ φ ⇒ else branch, `f_neg ^ (f.tag == Complemented)`
              match vn.e.tgt with
              | .inner _ => restrictInnerC s fuel fn.e.tgt (fneg != fn.e.neg) vn.e.tgt (!vn.e.neg)
              | .term => .done ⟨fneg != fn.e.neg, fn.e.tgt⟩ -- shape ¬x
      | _, _ => .done ⟨fneg, f⟩ -- dangling edge (excluded by `DenN`)
    | _, _ => .done ⟨fneg, f⟩

/-- what the walk guarantees -/
def InnerOKC (s : StoreC) (a : CNode) (aneg : Bool) (v : CNode) (vneg : Bool) : InnerResC → Prop
  | .done r => DenotesC s r (restrictGo a aneg v vneg)
  | .recur f' fneg' vars' =>
    ∃ i fl ft fen fe ftt fte vneg' vl vtt ven vte, f' = .inner i ∧
      s.get? i = some ⟨fl, ft, ⟨fen, fe⟩⟩ ∧ DenN s ft ftt ∧ DenN s fe fte ∧
      DenotesC s vars' ⟨vneg', .node vl vtt ven vte⟩ ∧ vl > fl ∧
      restrictGo a aneg v vneg =
        restrictGo (.node fl ftt fen fte) fneg' (.node vl vtt ven vte) vneg' ∧
      (CNode.node fl ftt fen fte).size ≤ a.size ∧ (CNode.node vl vtt ven vte).size ≤ v.size

theorem InnerOKC.congr {s : StoreC} {a v a' v' : CNode} {aneg vneg aneg' vneg' : Bool}
    {r : InnerResC} (he : restrictGo a aneg v vneg = restrictGo a' aneg' v' vneg')
    (hsa : a'.size ≤ a.size) (hsv : v'.size ≤ v.size) (h : InnerOKC s a' aneg' v' vneg' r) :
    InnerOKC s a aneg v vneg r := by
  cases r with
  | done r => simp only [InnerOKC] at h ⊢; rw [he]; exact h
  | recur f' fneg' vars' =>
    simp only [InnerOKC] at h ⊢
    obtain ⟨i, fl, ft, fen, fe, ftt, fte, vn2, vl, vtt, ven, vte, h1, h2, h3, h4, h5, h6, h7, h8, h9⟩ := h
    exact ⟨i, fl, ft, fen, fe, ftt, fte, vn2, vl, vtt, ven, vte, h1, h2, h3, h4, h5, h6,
      he.trans h7, Nat.le_trans h8 hsa, Nat.le_trans h9 hsv⟩

theorem restrictInnerC_ok (s : StoreC) (fuel : Nat) :
    ∀ (f : Tgt) (fneg : Bool) (vars : Tgt) (vneg : Bool) (a v : CNode),
    DenN s f a → DenN s vars v → a.size + v.size ≤ fuel →
    InnerOKC s a fneg v vneg (restrictInnerC s fuel f fneg vars vneg) := by
  induction fuel with
  | zero => intro f fneg vars vneg a v _ _ hsz; have := size_pos a; omega
  | succ fuel ih =>
    intro f fneg vars vneg a v hf hv hsz
    cases hf with
    | term =>
      simp only [restrictInnerC, InnerOKC, restrictGo_top_l]
      exact ⟨rfl, .term⟩
    | @inner i fl ft fen fe ftt fte hi hft hfe =>
      have hdf : DenN s (.inner i) (.node fl ftt fen fte) := .inner hi hft hfe
      cases hv with
      | term =>
        simp only [restrictInnerC, InnerOKC, restrictGo_top_r]
        exact ⟨rfl, hdf⟩
      | @inner j vl vt ven ve vtt vte hj hvt hve =>
        have hdv : DenN s (.inner j) (.node vl vtt ven vte) := .inner hj hvt hve
        simp only [CNode.size] at hsz
        simp only [restrictInnerC, hi, hj]
        by_cases hgt : vl > fl
        · simp only [hgt, if_true, InnerOKC]
          exact ⟨i, fl, ft, fen, fe, ftt, fte, vneg, vl, vtt, ven, vte, rfl, hi, hft, hfe,
            ⟨rfl, hdv⟩, hgt, rfl, Nat.le_refl _, Nat.le_refl _⟩
        · simp only [hgt, if_false]
          by_cases hlt : vl < fl
          · simp only [hlt, if_true]
            cases hvt with
            | @inner j1 l1 t1 en1 e1 tt1 te1 hj1 ht1 he1 =>
              have hd1 : DenN s (.inner j1) (.node l1 tt1 en1 te1) := .inner hj1 ht1 he1
              have := ih (.inner i) fneg (.inner j1) vneg _ _ hdf hd1
                (by simp only [CNode.size] at hsz ⊢; omega)
              exact this.congr (restrictGo_lt_node _ _ _ _ _ _ _ _ _ _ hlt)
                (by simp only [CNode.size]; omega) (by simp only [CNode.size]; omega)
            | term =>
              cases vneg
              · simp only [Bool.false_eq_true, if_false, InnerOKC, restrictGo_lt_top_pos _ _ _ _ _ _ hlt]
                exact ⟨rfl, hdf⟩
              · simp only [if_true]
                cases hve with
                | @inner j2 l2 t2 en2 e2 tt2 te2 hj2 ht2 he2 =>
                  have hd2 : DenN s (.inner j2) (.node l2 tt2 en2 te2) := .inner hj2 ht2 he2
                  have := ih (.inner i) fneg (.inner j2) (!ven) _ _ hdf hd2
                    (by simp only [CNode.size] at hsz ⊢; omega)
                  exact this.congr (restrictGo_lt_top_neg_node _ _ _ _ _ _ _ _ hlt)
                    (by simp only [CNode.size]; omega) (by simp only [CNode.size]; omega)
                | term =>
                  simp only [InnerOKC, restrictGo_lt_top_neg_top _ _ _ _ _ hlt]
                  exact ⟨rfl, hdf⟩
          · have heq : vl = fl := by omega
            subst heq
            simp only [hlt, if_false]
            cases hvt with
            | @inner j1 l1 t1 en1 e1 tt1 te1 hj1 ht1 he1 =>
              have hd1 : DenN s (.inner j1) (.node l1 tt1 en1 te1) := .inner hj1 ht1 he1
              have := ih ft fneg (.inner j1) vneg _ _ hft hd1
                (by simp only [CNode.size] at hsz ⊢; omega)
              exact this.congr (restrictGo_eq_node _ _ _ _ _ _ _ _ _ _)
                (by simp only [CNode.size]; omega) (by simp only [CNode.size]; omega)
            | term =>
              cases vneg
              · simp only [Bool.not_false, if_true, InnerOKC, restrictGo_eq_top_pos]
                exact ⟨rfl, hft⟩
              · simp only [Bool.not_true, Bool.false_eq_true, if_false]
                cases hve with
                | @inner j2 l2 t2 en2 e2 tt2 te2 hj2 ht2 he2 =>
                  have hd2 : DenN s (.inner j2) (.node l2 tt2 en2 te2) := .inner hj2 ht2 he2
                  have := ih fe (fneg != fen) (.inner j2) (!ven) _ _ hfe hd2
                    (by simp only [CNode.size] at hsz ⊢; omega)
                  exact this.congr (restrictGo_eq_top_neg_node _ _ _ _ _ _ _ _)
                    (by simp only [CNode.size]; omega) (by simp only [CNode.size]; omega)
                | term =>
                  simp only [InnerOKC, restrictGo_eq_top_neg_top]
                  exact ⟨rfl, hfe⟩

/-! ## the algorithm -/

/-- `restrict` -/
def restrictS (p : Policy) : Nat → StC → EdgeC → EdgeC → StC × EdgeC
  | 0, st, f, _ => (st, f)
  | fuel+1, st, f, vars =>
    match restrictInnerC st.store (fuel + 1) f.tgt f.neg vars.tgt vars.neg with
    | .done r => (st, r)
    | .recur f' fneg vars' =>
      -- f above top-most restrict variable: query apply cache under `(f_untagged, vars)`
      match p.get st.tick st.cache (encKeyC (restrictKey ⟨false, f'⟩ vars')) with
      | some r => (st.tickd, xorTagE fneg (dec r)) -- `result.tag ^ f_tag`
      | none =>
        match f' with
        | .term => (st.tickd, ⟨fneg, f'⟩) -- unreachable: `Rec` carries an inner node
        | .inner i =>
          match st.store.get? i with
          | none => (st.tickd, ⟨fneg, f'⟩) -- dangling edge (excluded by `DenotesC`)
          | some fn =>
            -- `fnode.child(0)`, `fnode.child(1)`: the stored edges, no tag pushed
            let r1 := restrictS p fuel st.tickd ⟨false, fn.t⟩ vars'
            let r0 := restrictS p fuel r1.1 fn.e vars'
            let m := finishC p r0.1 (encKeyC (restrictKey ⟨false, f'⟩ vars')) fn.level r1.2 r0.2
            (m.1, xorTagE fneg m.2)

theorem restrictKey_means {reg : Nat → List Edge} {s : StoreC} {f vars : EdgeC} {a v : Edge}
    (hf : DenotesC s f a) (hv : DenotesC s vars v) :
    KeyMeansC reg s (encKeyC (restrictKey f vars)) (restrict a v) :=
  KeyMeansC.of (restrictKey_wf f vars) (DenotesLC.two hf hv) rfl

theorem restrictS_spec {p : Policy} (pok : p.OK) (reg : Nat → List Edge) (fuel : Nat) :
    ∀ (st : StC) (f vars : EdgeC) (a v : Edge),
    InvCX reg st → DenotesC st.store f a → DenotesC st.store vars v → a.size + v.size ≤ fuel →
    PostCX reg st.store (restrict a v) (restrictS p fuel st f vars) := by
  induction fuel with
  | zero =>
    intro st f vars a v _ _ _ hsz
    have := size_pos a.n
    simp only [Edge.size] at hsz
    omega
  | succ fuel ih =>
    intro st f vars a v hinv hf hv hsz
    simp only [Edge.size] at hsz
    have hin := restrictInnerC_ok st.store (fuel + 1) f.tgt f.neg vars.tgt vars.neg a.n v.n
      hf.2 hv.2 hsz
    show PostCX reg st.store (restrictGo a.n a.neg v.n v.neg) _
    rw [← hf.1, ← hv.1]
    simp only [restrictS]
    revert hin
    cases restrictInnerC st.store (fuel + 1) f.tgt f.neg vars.tgt vars.neg with
    | done r =>
      intro hin
      exact PostCX.done hinv hin
    | recur f' fneg' vars' =>
      simp only [InnerOKC]
      rintro ⟨i, fl, ft, fen, fe, ftt, fte, vn2, vl, vtt, ven, vte, rfl, hi, hft, hfe, hdv, hgt,
        heq, hs1, hs2⟩
      have hdf : DenotesC st.store ⟨false, .inner i⟩ ⟨false, .node fl ftt fen fte⟩ :=
        ⟨rfl, .inner hi hft hfe⟩
      rw [heq, restrictGo_gt _ _ _ _ _ _ _ _ hgt]
      have hkey := restrictKey_means (reg := reg) hdf hdv
      have hr0 : restrict ⟨false, .node fl ftt fen fte⟩ ⟨vn2, .node vl vtt ven vte⟩ =
          mk fl (restrictGo ftt false (.node vl vtt ven vte) vn2)
            (restrictGo fte fen (.node vl vtt ven vte) vn2) := by
        show restrictGo _ _ _ _ = _
        rw [restrictGo_gt _ _ _ _ _ _ _ _ hgt, xorTag_false]
      rw [hr0] at hkey
      cases hget : p.get st.tick st.cache (encKeyC (restrictKey ⟨false, .inner i⟩ vars')) with
      | some r =>
        have hent := hinv.2 _ _ (pok.get_mem _ _ _ _ hget)
        have := hent.hit (restrictKey_wf _ _) (DenotesLC.two hdf hdv) rfl
        rw [hr0] at this
        exact (PostCX.done (st := st.tickd) hinv.tickd this).xorTag fneg'
      | none =>
        simp only [hi]
        simp only [CNode.size] at hs1 hs2
        have p1 := ih st.tickd ⟨false, ft⟩ vars' ⟨false, ftt⟩ _ hinv.tickd ⟨rfl, hft⟩ hdv
          (by simp only [Edge.size, CNode.size]; omega)
        have p0 := ih _ ⟨fen, fe⟩ vars' ⟨fen, fte⟩ _ p1.inv ⟨rfl, hfe.mono p1.le⟩ (hdv.mono p1.le)
          (by simp only [Edge.size, CNode.size]; omega)
        exact (finishC_postX pok p1 p0 _ fl hkey).xorTag fneg'

end OxiddModel.Bcdd.Refine
