import OxiddModel.Bcdd.Canon

/-! `sat_count`: over exact naturals the recursion `(c_then + c_else) >> 1` from the terminal value
`2^vars` (and `0` for the complemented terminal, tags pushed into the cofactors) returns exactly
the number of satisfying assignments. -/
namespace OxiddModel.Bcdd
open CNode

/-- number of assignments to the levels `[k, k+d)` (all other levels as in `σ`) that satisfy `F` —
the reference notion of model counting, independent of any diagram -/
def cntF (F : (Nat → Bool) → Bool) : (Nat → Bool) → Nat → Nat → Nat
  | σ, _, 0 => if F σ then 1 else 0
  | σ, k, d+1 => cntF F (upd σ k true) (k+1) d + cntF F (upd σ k false) (k+1) d

theorem cntF_congr (F G : (Nat → Bool) → Bool) (d : Nat) : ∀ (σ : Nat → Bool) (k : Nat),
    (∀ ρ, (∀ w, w < k → ρ w = σ w) → F ρ = G ρ) → cntF F σ k d = cntF G σ k d := by
  induction d with
  | zero => intro σ k h; simp only [cntF, h σ (fun _ _ => rfl)]
  | succ d ih =>
    intro σ k h
    simp only [cntF]
    rw [ih (upd σ k true) (k+1), ih (upd σ k false) (k+1)]
    · intro ρ hρ
      exact h ρ (fun w hw => by rw [hρ w (by omega)]; exact upd_ne σ false (by omega))
    · intro ρ hρ
      exact h ρ (fun w hw => by rw [hρ w (by omega)]; exact upd_ne σ true (by omega))

theorem cntF_const (c : Bool) (d : Nat) : ∀ (σ : Nat → Bool) (k : Nat),
    cntF (fun _ => c) σ k d = if c then 2 ^ d else 0 := by
  induction d with
  | zero => intro σ k; cases c <;> rfl
  | succ d ih =>
    intro σ k
    simp only [cntF, ih]
    cases c
    · rfl
    · simp only [if_true, Nat.pow_succ]; omega

/-- models of `F` and of `¬F` partition the `2^d` assignments -/
theorem cntF_not (F : (Nat → Bool) → Bool) (d : Nat) : ∀ (σ : Nat → Bool) (k : Nat),
    cntF F σ k d + cntF (fun τ => !F τ) σ k d = 2 ^ d := by
  induction d with
  | zero => intro σ k; simp only [cntF]; by_cases h : F σ = true <;> simp [h]
  | succ d ih =>
    intro σ k
    simp only [cntF, Nat.pow_succ]
    have := ih (upd σ k true) (k+1)
    have := ih (upd σ k false) (k+1)
    omega

/-- all levels of the diagram are `< N` -/
def Below (N : Nat) : CNode → Prop
  | .top => True
  | .node l t _ e => l < N ∧ Below N t ∧ Below N e

/-- a count established at level `l` holds at every level `k ≤ l` above a function that does not
depend on the levels `[k, l)` (each skipped level doubles the models and halves the weight) -/
theorem cnt_lift (X C : Nat) (F : (Nat → Bool) → Bool) (l N : Nat) (hl : l ≤ N)
    (h : ∀ σ, X = C * (2 ^ l * cntF F σ l (N - l))) :
    ∀ j, j ≤ l → ∀ σ, X = C * (2 ^ (l - j) * cntF F σ (l - j) (N - (l - j))) := by
  intro j
  induction j with
  | zero => intro _ σ; exact h σ
  | succ j ih =>
    intro hj σ
    have ih' := ih (by omega)
    have hk : l - j = (l - (j+1)) + 1 := by omega
    generalize l - (j+1) = k at hk ⊢
    rw [hk] at ih'
    have hd : N - k = (N - (k+1)) + 1 := by omega
    rw [hd]
    simp only [cntF]
    have ea := ih' (upd σ k true)
    have eb := ih' (upd σ k false)
    generalize cntF F (upd σ k true) (k+1) (N - (k+1)) = a at ea ⊢
    generalize cntF F (upd σ k false) (k+1) (N - (k+1)) = b at eb ⊢
    have e1 : X = 2 * (C * (2 ^ k * a)) := by rw [ea, Nat.pow_succ]; ac_rfl
    have e2 : X = 2 * (C * (2 ^ k * b)) := by rw [eb, Nat.pow_succ]; ac_rfl
    rw [Nat.mul_add, Nat.mul_add]
    omega

theorem satCountGo_spec (vars N : Nat) (hN : N ≤ vars) (n : CNode) : ∀ (tag : Bool) (k : Nat) (σ : Nat → Bool),
    Ordered k n → Below N n → k ≤ N →
    satCountGo vars tag n = 2 ^ (vars - N) * (2 ^ k * cntF (fun τ => Edge.eval τ ⟨tag, n⟩) σ k (N - k)) := by
  induction n with
  | top =>
    intro tag k σ _ _ hk
    have hc : (fun τ => Edge.eval τ ⟨tag, CNode.top⟩) = fun _ => !tag := by
      funext τ; cases tag <;> rfl
    rw [hc, cntF_const]
    cases tag
    · simp only [satCountGo, Bool.false_eq_true, if_false, Bool.not_false, if_true]
      rw [← Nat.pow_add, ← Nat.pow_add]
      congr 1; omega
    · simp [satCountGo]
  | node l t en e iht ihe =>
    intro tag k σ ho hb hk
    cases ho with
    | node hkl hot hoe =>
    obtain ⟨hlN, hbt, hbe⟩ := hb
    -- the count at the node's own level
    have hl : ∀ σ, satCountGo vars tag (.node l t en e) =
        2 ^ (vars - N) * (2 ^ l * cntF (fun τ => Edge.eval τ ⟨tag, .node l t en e⟩) σ l (N - l)) := by
      intro σ
      have hd : N - l = (N - (l+1)) + 1 := by omega
      rw [hd]
      simp only [cntF, satCountGo]
      rw [cntF_congr _ (fun τ => Edge.eval τ ⟨tag, t⟩) _ (upd σ l true) (l+1)
        (fun ρ hρ => node_eval_true (by rw [hρ l (Nat.lt_succ_self _), upd_same]))]
      rw [cntF_congr _ (fun τ => Edge.eval τ ⟨tag != en, e⟩) _ (upd σ l false) (l+1)
        (fun ρ hρ => node_eval_false (by rw [hρ l (Nat.lt_succ_self _), upd_same]))]
      rw [iht tag (l+1) (upd σ l true) hot hbt (by omega), ihe (tag != en) (l+1) (upd σ l false) hoe hbe (by omega)]
      generalize cntF _ (upd σ l true) (l+1) (N - (l+1)) = a
      generalize cntF _ (upd σ l false) (l+1) (N - (l+1)) = b
      generalize 2 ^ (vars - N) = C
      have e1 : C * (2 ^ (l+1) * a) = 2 * (C * (2 ^ l * a)) := by rw [Nat.pow_succ]; ac_rfl
      have e2 : C * (2 ^ (l+1) * b) = 2 * (C * (2 ^ l * b)) := by rw [Nat.pow_succ]; ac_rfl
      rw [e1, e2, Nat.shiftRight_eq_div_pow, Nat.mul_add, Nat.mul_add]
      omega
    have := cnt_lift _ _ _ l N (by omega) hl (l - k) (by omega) σ
    have hlk : l - (l - k) = k := by omega
    rw [hlk] at this
    exact this

/-- the count of a diagram over `N ≤ vars` variables whose levels are all `< N` -/
theorem satCount_exact (vars N : Nat) (hN : N ≤ vars) (f : Edge) (ho : Ordered 0 f.n) (hb : Below N f.n)
    (σ : Nat → Bool) : satCount vars f = 2 ^ (vars - N) * cntF (fun τ => f.eval τ) σ 0 N := by
  have := satCountGo_spec vars N hN f.n f.neg 0 σ ho hb (Nat.zero_le _)
  rw [Nat.pow_zero, Nat.one_mul, Nat.sub_zero] at this
  exact this

/-- the complement identity `#SAT(¬f) = 2^vars − #SAT(f)` holds for the tag-pushing recursion -/
theorem satCount_not (vars N : Nat) (hN : N ≤ vars) (f : Edge) (ho : Ordered 0 f.n) (hb : Below N f.n) :
    satCount vars (applyNot f) = 2 ^ vars - satCount vars f := by
  rw [satCount_exact vars N hN f ho hb (fun _ => false),
    satCount_exact vars N hN (applyNot f) ho hb (fun _ => false)]
  have h := cntF_not (fun τ => f.eval τ) N (fun _ => false) 0
  have hn : (fun τ => (applyNot f).eval τ) = fun τ => !f.eval τ := by funext τ; simp
  rw [hn]
  have hp : 2 ^ vars = 2 ^ (vars - N) * 2 ^ N := by rw [← Nat.pow_add]; congr 1; omega
  rw [hp, ← h, Nat.mul_add]
  omega

end OxiddModel.Bcdd
