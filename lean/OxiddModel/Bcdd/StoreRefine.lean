import OxiddModel.Bcdd.Ite

/-!
# The BCDD node store: hash-consed nodes with ids and complement tags

The *store level* below the tree model of `Bcdd/Model.lean`, for the complement-edge rules
(`crates/oxidd-rules-bdd/src/complement_edge/mod.rs`):

* an edge `EdgeC` is a pair `(neg, tgt)` of a complement tag and a target (`Tgt.term` = the single
  terminal `⊤`, `Tgt.inner i` = slot `i` of the store),
* a stored node `NodeC` is `⟨level, t, e⟩` where the then-child `t` is only a *target* (the
  then-edge of a stored node is always regular, `EdgeTag::None`) and the else-child is a full edge,
* `StoreC.mkNodeC` is `reduce`: `if t == e { return t }`; if the then-edge is complemented, both
  children are complemented and the node is returned through a complemented edge; then
  `get_or_insert` into the unique table (lookup-or-allocate, `getOrInsert`).

`DenotesC s x a` relates a store edge to the tree-level `Edge` (`(neg, CNode)`) it unfolds to.

* `DenotesC.functional`, `DenotesC.mono` (store extension `StoreC.Le`),
* `StoreC.Unique` (no two slots hold the same node) ⇒ `denotesC_inj` / `denotesC_eq_iff`: equality
  of store edges ⇔ equality of the denoted tree edges. This is what justifies `Model.lean`'s use of
  tree equality (`f.n = g.n`, `f.neg = g.neg`, `t = e` in `mk`) where the Rust code compares node
  ids and tags,
* `mkNodeC_le`, `mkNodeC_unique`, `mkNodeC_denotes` (`mkNodeC` refines `mk`), `mkNodeC_not` (the
  complement of both children is the complement of the result, on the *same* node),
* `internE`: the canonical way to enter a tree edge into a store (`internE_of_denotes`: idempotent
  on what is present), used to show that store and result of an operation do not depend on the
  apply cache.

Everything lives in `OxiddModel.Bcdd.Refine`.
-/
namespace OxiddModel.Bcdd.Refine
open OxiddModel.Bcdd OxiddModel.Bcdd.CNode

/-! ## store level -/

/-- what an edge points to: the terminal `⊤` or the inner node in slot `i` -/
inductive Tgt where
  | term : Tgt
  | inner : Nat → Tgt
deriving DecidableEq, Repr, Inhabited

/-- a store edge: complement tag + target -/
structure EdgeC where
  neg : Bool
  tgt : Tgt
deriving DecidableEq, Repr, Inhabited

/-- a stored node; the then-edge is regular, so only its target is kept -/
structure NodeC where
  level : Nat
  t : Tgt
  e : EdgeC
deriving DecidableEq, Repr

structure StoreC where
  nodes : Array (Option NodeC)
deriving Repr

/-- `not` / `not_owned`: flip the tag (no node access) -/
def notE (x : EdgeC) : EdgeC := ⟨!x.neg, x.tgt⟩

/-- `get_terminal(manager, val)` -/
def termC (val : Bool) : EdgeC := ⟨!val, .term⟩

@[simp] theorem notE_neg (x : EdgeC) : (notE x).neg = !x.neg := rfl
@[simp] theorem notE_tgt (x : EdgeC) : (notE x).tgt = x.tgt := rfl
theorem notE_notE (x : EdgeC) : notE (notE x) = x := by
  obtain ⟨n, t⟩ := x; simp [notE]

theorem notE_inj {x y : EdgeC} (h : notE x = notE y) : x = y := by
  rw [← notE_notE x, ← notE_notE y, h]

def StoreC.get? (s : StoreC) (i : Nat) : Option NodeC := (s.nodes[i]?).join

/-- unique-table lookup -/
def StoreC.find? (s : StoreC) (n : NodeC) : Option Nat :=
  s.nodes.findIdx? (· == some n)

/-- slot allocation: first free slot, else grow -/
def StoreC.alloc (s : StoreC) (n : NodeC) : StoreC × Nat :=
  match s.nodes.findIdx? (· == none) with
  | some i => (⟨s.nodes.set! i (some n)⟩, i)
  | none => (⟨s.nodes.push (some n)⟩, s.nodes.size)

/-- `LevelView::get_or_insert` -/
def StoreC.getOrInsert (s : StoreC) (n : NodeC) : StoreC × Nat :=
  match s.find? n with
  | some i => (s, i)
  | none => s.alloc n

/-- `reduce` (complement_edge/mod.rs): `if t == e { return t }`; a complemented then-edge is
normalised by complementing both children and the returned edge; then `get_or_insert` -/
def StoreC.mkNodeC (s : StoreC) (level : Nat) (t e : EdgeC) : StoreC × EdgeC :=
  if t = e then (s, t) else
  if t.neg then
    let r := s.getOrInsert ⟨level, t.tgt, ⟨!e.neg, e.tgt⟩⟩
    (r.1, ⟨true, .inner r.2⟩)
  else
    let r := s.getOrInsert ⟨level, t.tgt, e⟩
    (r.1, ⟨false, .inner r.2⟩)

/-- the tree node a target unfolds to -/
inductive DenN (s : StoreC) : Tgt → CNode → Prop
  | term : DenN s .term .top
  | inner : s.get? i = some ⟨l, t, ⟨en, e⟩⟩ → DenN s t tt → DenN s e te →
      DenN s (.inner i) (.node l tt en te)

/-- the tree edge a store edge unfolds to: same tag, target unfolds to the node -/
def DenotesC (s : StoreC) (x : EdgeC) (a : Edge) : Prop := x.neg = a.neg ∧ DenN s x.tgt a.n

theorem DenN.functional {s : StoreC} {x : Tgt} {a b : CNode}
    (ha : DenN s x a) (hb : DenN s x b) : a = b := by
  induction ha generalizing b with
  | term => cases hb; rfl
  | inner hi _ _ iht ihe =>
    cases hb with
    | inner hi' ht' he' =>
      rw [hi] at hi'; cases hi'
      rw [iht ht', ihe he']

theorem DenotesC.functional {s : StoreC} {x : EdgeC} {a b : Edge}
    (ha : DenotesC s x a) (hb : DenotesC s x b) : a = b := by
  obtain ⟨an, a⟩ := a
  obtain ⟨bn, b⟩ := b
  have h1 : an = bn := ha.1.symm.trans hb.1
  have h2 : a = b := DenN.functional ha.2 hb.2
  rw [h1, h2]

/-- store extension: every occupied slot keeps its content -/
def StoreC.Le (s s' : StoreC) : Prop := ∀ i n, s.get? i = some n → s'.get? i = some n

theorem StoreC.Le.refl (s : StoreC) : s.Le s := fun _ _ h => h
theorem StoreC.Le.trans {a b c : StoreC} (h1 : a.Le b) (h2 : b.Le c) : a.Le c :=
  fun i n h => h2 i n (h1 i n h)

theorem DenN.mono {s s' : StoreC} (h : s.Le s') {x : Tgt} {a : CNode}
    (ha : DenN s x a) : DenN s' x a := by
  induction ha with
  | term => exact .term
  | inner hi _ _ iht ihe => exact .inner (h _ _ hi) iht ihe

theorem DenotesC.mono {s s' : StoreC} (h : s.Le s') {x : EdgeC} {a : Edge}
    (ha : DenotesC s x a) : DenotesC s' x a := ⟨ha.1, ha.2.mono h⟩

/-- `not` on store edges refines `applyNot` on tree edges -/
theorem DenotesC.not {s : StoreC} {x : EdgeC} {a : Edge} (h : DenotesC s x a) :
    DenotesC s (notE x) (applyNot a) := ⟨by simp [h.1], h.2⟩

theorem DenotesC.term (s : StoreC) (b : Bool) : DenotesC s (termC b) (terminal b) :=
  ⟨rfl, .term⟩

theorem DenotesC.mk {s : StoreC} {b : Bool} {x : Tgt} {n : CNode} (h : DenN s x n) :
    DenotesC s ⟨b, x⟩ ⟨b, n⟩ := ⟨rfl, h⟩

/-! ## slots -/

theorem get?_alloc (s : StoreC) (n : NodeC) (j : Nat) :
    (s.alloc n).1.get? j = if j = (s.alloc n).2 then some n else s.get? j := by
  unfold StoreC.alloc
  split
  · rename_i i hi
    have hlt : i < s.nodes.size := (Array.findIdx?_eq_some_iff_findIdx_eq.mp hi).1
    simp only [StoreC.get?]
    by_cases hj : j = i
    · subst hj; simp [Array.set!, hlt]
    · simp [Array.set!, hj, Ne.symm hj]
  · simp only [StoreC.get?]
    by_cases hj : j = s.nodes.size
    · subst hj; simp
    · simp [Array.getElem?_push, hj]

theorem find?_some {s : StoreC} {n : NodeC} {i : Nat} (h : s.find? n = some i) :
    s.get? i = some n := by
  unfold StoreC.find? at h
  obtain ⟨hlt, heq⟩ := Array.findIdx?_eq_some_iff_findIdx_eq.mp h
  have := Array.findIdx_getElem (xs := s.nodes) (p := (· == some n)) (w := by rw [heq]; exact hlt)
  simp only [heq] at this
  simp [StoreC.get?, hlt, beq_iff_eq.mp this]

theorem find?_none {s : StoreC} {n : NodeC} (h : s.find? n = none) : ∀ i, s.get? i ≠ some n := by
  intro i hi
  unfold StoreC.find? at h
  rw [Array.findIdx?_eq_none_iff] at h
  unfold StoreC.get? at hi
  cases hx : s.nodes[i]? with
  | none => simp [hx] at hi
  | some x =>
    have hmem : x ∈ s.nodes := Array.mem_of_getElem? hx
    have := h x hmem
    simp [hx] at hi
    subst hi
    simp at this

theorem alloc_fresh (s : StoreC) (n : NodeC) : s.get? (s.alloc n).2 = none := by
  unfold StoreC.alloc
  split
  · rename_i i hi
    obtain ⟨hlt, heq⟩ := Array.findIdx?_eq_some_iff_findIdx_eq.mp hi
    have := Array.findIdx_getElem (xs := s.nodes) (p := (· == none)) (w := by rw [heq]; exact hlt)
    simp only [heq] at this
    simp [StoreC.get?, hlt, beq_iff_eq.mp this]
  · simp [StoreC.get?]

theorem alloc_le (s : StoreC) (n : NodeC) : s.Le (s.alloc n).1 := by
  intro i m hi
  rw [get?_alloc]
  split
  · rename_i h; subst h; rw [alloc_fresh] at hi; cases hi
  · exact hi

/-- no two slots hold the same node (the hash-consing invariant of the unique table) -/
def StoreC.Unique (s : StoreC) : Prop :=
  ∀ i j n, s.get? i = some n → s.get? j = some n → i = j

theorem getOrInsert_le (s : StoreC) (n : NodeC) : s.Le (s.getOrInsert n).1 := by
  unfold StoreC.getOrInsert
  split
  · exact StoreC.Le.refl _
  · exact alloc_le _ _

/-- after `get_or_insert` the returned slot holds the node -/
theorem getOrInsert_get (s : StoreC) (n : NodeC) :
    (s.getOrInsert n).1.get? (s.getOrInsert n).2 = some n := by
  unfold StoreC.getOrInsert
  split
  · rename_i i hi; exact find?_some hi
  · rw [get?_alloc]; simp

theorem getOrInsert_unique (s : StoreC) (n : NodeC) (hu : s.Unique) :
    (s.getOrInsert n).1.Unique := by
  unfold StoreC.getOrInsert
  split
  · exact hu
  · rename_i hnone
    intro i j m hi hj
    simp only [get?_alloc] at hi hj
    split at hi <;> split at hj
    · omega
    · cases hi; exact absurd hj (find?_none hnone j)
    · cases hj; exact absurd hi (find?_none hnone i)
    · exact hu i j m hi hj

/-- a node that is present is found: nothing is allocated, its own slot is returned -/
theorem getOrInsert_of_present {s : StoreC} (hu : s.Unique) {n : NodeC} {i : Nat}
    (hi : s.get? i = some n) : s.getOrInsert n = (s, i) := by
  unfold StoreC.getOrInsert
  cases hf : s.find? n with
  | none => exact absurd hi (find?_none hf i)
  | some j => rw [hu j i _ (find?_some hf) hi]

/-! ## `reduce` -/

theorem mkNodeC_le (s : StoreC) (l : Nat) (t e : EdgeC) : s.Le (s.mkNodeC l t e).1 := by
  unfold StoreC.mkNodeC
  split
  · exact StoreC.Le.refl _
  · split <;> exact getOrInsert_le _ _

theorem mkNodeC_unique (s : StoreC) (l : Nat) (t e : EdgeC) (hu : s.Unique) :
    (s.mkNodeC l t e).1.Unique := by
  unfold StoreC.mkNodeC
  split
  · exact hu
  · split <;> exact getOrInsert_unique _ _ hu

/-- denotation of targets is injective -/
def StoreC.InjN (s : StoreC) : Prop := ∀ x y a, DenN s x a → DenN s y a → x = y

theorem injN_of_unique {s : StoreC} (hu : s.Unique) : s.InjN := by
  intro x y a hx hy
  induction hx generalizing y with
  | term => cases hy; rfl
  | @inner i l t en e tt te hi _ _ iht ihe =>
    cases hy with
    | @inner j _ t' _ e' _ _ hj ht' he' =>
      have h1 := iht _ ht'
      have h2 := ihe _ he'
      subst h1 h2
      rw [hu i j _ hi hj]

/-- **edge equality is tree-edge equality** (one direction: `DenotesC.functional`) -/
theorem denotesC_inj {s : StoreC} (hu : s.Unique) {x y : EdgeC} {a : Edge}
    (hx : DenotesC s x a) (hy : DenotesC s y a) : x = y := by
  obtain ⟨xn, xt⟩ := x
  obtain ⟨yn, yt⟩ := y
  have h1 : xn = yn := hx.1.trans hy.1.symm
  have h2 : xt = yt := injN_of_unique hu _ _ _ hx.2 hy.2
  rw [h1, h2]

/-- in a hash-consed store two edges are equal iff the tree edges they denote are equal: the
Rust comparisons `f == g` (id and tag) are the tree comparisons of `Model.lean` -/
theorem denotesC_eq_iff {s : StoreC} (hu : s.Unique) {x y : EdgeC} {a b : Edge}
    (hx : DenotesC s x a) (hy : DenotesC s y b) : x = y ↔ a = b :=
  ⟨fun h => DenotesC.functional hx (h ▸ hy), fun h => denotesC_inj hu hx (h ▸ hy)⟩

/-- the same for the untagged comparison `f.with_tag(None) == g.with_tag(None)` -/
theorem denN_eq_iff {s : StoreC} (hu : s.Unique) {x y : Tgt} {a b : CNode}
    (hx : DenN s x a) (hy : DenN s y b) : x = y ↔ a = b :=
  ⟨fun h => DenN.functional hx (h ▸ hy), fun h => injN_of_unique hu _ _ _ hx (h ▸ hy)⟩

/-- `mkNodeC` refines `mk` -/
theorem mkNodeC_denotes (s : StoreC) (l : Nat) (t e : EdgeC) (tt te : Edge)
    (ht : DenotesC s t tt) (he : DenotesC s e te) (hu : s.Unique) :
    DenotesC (s.mkNodeC l t e).1 (s.mkNodeC l t e).2 (mk l tt te) := by
  unfold StoreC.mkNodeC
  unfold mk
  by_cases hte : t = e
  · subst hte
    have := DenotesC.functional ht he
    simp [this]; exact he
  · have hne : tt ≠ te := fun h => hte ((denotesC_eq_iff hu ht he).mpr h)
    simp only [hte, hne, if_false]
    obtain ⟨tn, tg⟩ := t
    obtain ⟨en, eg⟩ := e
    obtain ⟨ttn, ttg⟩ := tt
    obtain ⟨ten, teg⟩ := te
    obtain ⟨h1, ht2⟩ := ht
    obtain ⟨h2, he2⟩ := he
    simp only at h1 h2 ht2 he2
    subst h1 h2
    cases tn
    · simp only [Bool.false_eq_true, if_false]
      have hle := getOrInsert_le s ⟨l, tg, ⟨en, eg⟩⟩
      exact ⟨rfl, .inner (getOrInsert_get s _) (ht2.mono hle) (he2.mono hle)⟩
    · simp only [if_true]
      have hle := getOrInsert_le s ⟨l, tg, ⟨!en, eg⟩⟩
      exact ⟨rfl, .inner (getOrInsert_get s _) (ht2.mono hle) (he2.mono hle)⟩

/-- complementing both children complements the result and allocates the same node: the two
polarities of a function share one node -/
theorem mkNodeC_not (s : StoreC) (l : Nat) (t e : EdgeC) :
    s.mkNodeC l (notE t) (notE e) = ((s.mkNodeC l t e).1, notE (s.mkNodeC l t e).2) := by
  unfold StoreC.mkNodeC
  by_cases hte : t = e
  · subst hte; simp
  · have hte' : notE t ≠ notE e := fun h => hte (notE_inj h)
    simp only [hte, hte', if_false]
    obtain ⟨tn, tt⟩ := t
    obtain ⟨en, et⟩ := e
    cases tn <;> simp [notE]

/-- with a regular then-edge the result of `reduce` is regular -/
theorem mkNodeC_neg_regular (s : StoreC) (l : Nat) (t e : EdgeC) (h : t.neg = false) :
    (s.mkNodeC l t e).2.neg = false := by
  unfold StoreC.mkNodeC
  split
  · exact h
  · simp [h]

/-! ## reducedness of the store, canonical interning -/

/-- no stored node has two identical children (then-edge regular = else-edge) -/
def StoreC.NoRed (s : StoreC) : Prop := ∀ i n, s.get? i = some n → (⟨false, n.t⟩ : EdgeC) ≠ n.e

theorem getOrInsert_nored (s : StoreC) (n : NodeC) (hr : s.NoRed) (hn : (⟨false, n.t⟩ : EdgeC) ≠ n.e) :
    (s.getOrInsert n).1.NoRed := by
  unfold StoreC.getOrInsert
  split
  · exact hr
  · intro i m hi
    simp only [get?_alloc] at hi
    split at hi
    · cases hi; exact hn
    · exact hr i m hi

theorem mkNodeC_nored (s : StoreC) (l : Nat) (t e : EdgeC) (hr : s.NoRed) :
    (s.mkNodeC l t e).1.NoRed := by
  unfold StoreC.mkNodeC
  split
  · exact hr
  · rename_i hte
    obtain ⟨tn, tt⟩ := t
    obtain ⟨en, et⟩ := e
    cases tn
    · simp only [Bool.false_eq_true, if_false]
      exact getOrInsert_nored _ _ hr hte
    · simp only [if_true]
      refine getOrInsert_nored _ _ hr ?_
      intro h
      apply hte
      cases en <;> simp_all

/-- enter a tree node into the store bottom-up, then-child first (the order in which the
recursive apply algorithms create nodes); returns the target -/
def internN (s : StoreC) : CNode → StoreC × Tgt
  | .top => (s, .term)
  | .node l t en e =>
    let r1 := internN s t
    let r0 := internN r1.1 e
    let m := r0.1.mkNodeC l ⟨false, r1.2⟩ ⟨en, r0.2⟩
    (m.1, m.2.tgt)

/-- enter a tree edge: intern the node, keep the tag -/
def internE (s : StoreC) (a : Edge) : StoreC × EdgeC :=
  let r := internN s a.n
  (r.1, ⟨a.neg, r.2⟩)

theorem internN_le (s : StoreC) (a : CNode) : s.Le (internN s a).1 := by
  induction a generalizing s with
  | top => exact StoreC.Le.refl _
  | node l t en e iht ihe =>
    simp only [internN]
    exact (iht s).trans ((ihe _).trans (mkNodeC_le _ _ _ _))

theorem internN_unique (s : StoreC) (a : CNode) (hu : s.Unique) : (internN s a).1.Unique := by
  induction a generalizing s with
  | top => exact hu
  | node l t en e iht ihe =>
    simp only [internN]
    exact mkNodeC_unique _ _ _ _ (ihe _ (iht s hu))

theorem internN_nored (s : StoreC) (a : CNode) (hr : s.NoRed) : (internN s a).1.NoRed := by
  induction a generalizing s with
  | top => exact hr
  | node l t en e iht ihe =>
    simp only [internN]
    exact mkNodeC_nored _ _ _ _ (ihe _ (iht s hr))

theorem internE_le (s : StoreC) (a : Edge) : s.Le (internE s a).1 := internN_le s a.n
theorem internE_unique (s : StoreC) (a : Edge) (hu : s.Unique) : (internE s a).1.Unique :=
  internN_unique s a.n hu
theorem internE_nored (s : StoreC) (a : Edge) (hr : s.NoRed) : (internE s a).1.NoRed :=
  internN_nored s a.n hr

/-- a node that is already present is found again: nothing is allocated, the same target is
returned -/
theorem internN_of_den {s : StoreC} (hu : s.Unique) (hr : s.NoRed) {x : Tgt} {a : CNode}
    (h : DenN s x a) : internN s a = (s, x) := by
  induction h with
  | term => rfl
  | @inner i l t en e tt te hi _ _ iht ihe =>
    simp only [internN, iht, ihe]
    have hte : (⟨false, t⟩ : EdgeC) ≠ ⟨en, e⟩ := hr i _ hi
    unfold StoreC.mkNodeC
    simp only [hte, if_false, Bool.false_eq_true]
    rw [getOrInsert_of_present hu hi]

theorem internE_of_denotes {s : StoreC} (hu : s.Unique) (hr : s.NoRed) {x : EdgeC} {a : Edge}
    (h : DenotesC s x a) : internE s a = (s, x) := by
  obtain ⟨xn, xt⟩ := x
  simp only [internE, internN_of_den hu hr h.2]
  have : a.neg = xn := h.1.symm
  rw [this]

/-- interning a reduced node yields a target denoting it -/
theorem internN_den (s : StoreC) (a : CNode) (hu : s.Unique) (ha : Reduced a) :
    DenN (internN s a).1 (internN s a).2 a := by
  induction a generalizing s with
  | top => exact .term
  | node l t en e iht ihe =>
    simp only [internN]
    have h1 := iht s hu ha.2.1
    have u1 := internN_unique s t hu
    have h0 := ihe _ u1 ha.2.2
    have u0 := internN_unique _ e u1
    have hd := mkNodeC_denotes (internN (internN s t).1 e).1 l ⟨false, (internN s t).2⟩
      ⟨en, (internN (internN s t).1 e).2⟩ ⟨false, t⟩ ⟨en, e⟩
      (DenotesC.mk (h1.mono (internN_le _ e))) (DenotesC.mk h0) u0
    have hmk : mk l ⟨false, t⟩ ⟨en, e⟩ = ⟨false, .node l t en e⟩ := by
      unfold mk
      have hne : (⟨false, t⟩ : Edge) ≠ ⟨en, e⟩ := by
        intro h
        injection h with h1 h2
        exact ha.1 ⟨h1.symm, h2⟩
      simp [hne]
    rw [hmk] at hd
    exact hd.2

theorem internE_denotes (s : StoreC) (a : Edge) (hu : s.Unique) (ha : Reduced a.n) :
    DenotesC (internE s a).1 (internE s a).2 a := ⟨rfl, internN_den s a.n hu ha⟩

end OxiddModel.Bcdd.Refine
