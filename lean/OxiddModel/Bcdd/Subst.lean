import OxiddModel.Bcdd.Restrict

/-! `substitute`: simultaneous substitution of replacement functions for variables. -/
namespace OxiddModel.Bcdd
open CNode

/-- the assignment under which `f` is evaluated after substituting `subst` (level ↦ replacement) -/
def substAssign (subst : List Edge) (σ : Nat → Bool) : Nat → Bool :=
  fun l => match subst[l]? with
    | some r => r.eval σ
    | none => σ l

theorem substitute_eval (subst : List Edge) (fn : CNode) : ∀ (fneg : Bool) (n : Nat), Ordered n fn → ∀ σ,
    (substitute subst ⟨fneg, fn⟩).eval σ = (⟨fneg, fn⟩ : Edge).eval (substAssign subst σ) := by
  induction fn with
  | top => intro fneg n _ σ; rw [substitute]; rfl
  | node l t en e iht ihe =>
    intro fneg n hf σ
    rw [substitute]
    cases hf with
    | node hn ht he =>
    split
    · -- `level >= subst.len()`: no level of `f` is substituted
      rename_i hnone
      have hlen : subst.length ≤ l := by
        rcases Nat.lt_or_ge l subst.length with h | h
        · rw [List.getElem?_eq_getElem h] at hnone; cases hnone
        · exact h
      exact Edge.eval_indep (a := ⟨fneg, .node l t en e⟩) (.node (Nat.le_refl l) ht he) _ _ (fun w hw => by
        simp only [substAssign]
        rw [List.getElem?_eq_none (by omega)])
    · rename_i r hsome
      rw [applyIte_eval, iht fneg _ ht σ, ihe (fneg != en) _ he σ]
      have hl : substAssign subst σ l = r.eval σ := by simp only [substAssign, hsome]
      cases hr : r.eval σ
      · rw [hr] at hl
        simp only [Bool.false_eq_true, if_false]
        exact (node_eval_false hl).symm
      · rw [hr] at hl
        simp only [if_true]
        exact (node_eval_true hl).symm

theorem substitute_nf (subst : List Edge) (hs : ∀ r ∈ subst, r.NF 0) (fn : CNode) :
    ∀ (fneg : Bool) (n : Nat), (⟨fneg, fn⟩ : Edge).NF n → (substitute subst ⟨fneg, fn⟩).NF 0 := by
  induction fn with
  | top => intro fneg n hf; rw [substitute]; exact hf.mono (Nat.zero_le _)
  | node l t en e iht ihe =>
    intro fneg n hf
    rw [substitute]
    split
    · exact hf.mono (Nat.zero_le _)
    · rename_i r hsome
      exact applyIte_nf _ _ _ 0 (hs r (List.mem_of_getElem? hsome))
        (iht fneg _ (nf_cofT hf fneg)) (ihe (fneg != en) _ (nf_cofE hf (fneg != en)))

/-! ## `substitute_prepare` -/

theorem foldl_max_ge (pairs : List (Nat × Edge)) (m : Nat) :
    m ≤ pairs.foldl (fun m p => max m (p.1 + 1)) m := by
  induction pairs generalizing m with
  | nil => exact Nat.le_refl _
  | cons p ps ih => exact Nat.le_trans (Nat.le_max_left _ _) (ih _)

theorem lookup_lt_len (pairs : List (Nat × Edge)) (m l : Nat) (r : Edge) (h : pairs.lookup l = some r) :
    l < pairs.foldl (fun m p => max m (p.1 + 1)) m := by
  induction pairs generalizing m with
  | nil => cases h
  | cons p ps ih =>
    obtain ⟨v, x⟩ := p
    simp only [List.lookup_cons] at h
    simp only [List.foldl_cons]
    by_cases hv : l = v
    · subst hv
      have := foldl_max_ge ps (max m (l + 1))
      have := Nat.le_max_right m (l + 1)
      omega
    · have : (l == v) = false := by simp [hv]
      rw [this] at h
      exact ih _ h

/-- the vector built by `substitute_prepare` maps a level to its replacement, and every other
level (whether inside the vector, where it is mapped to its own variable, or beyond) to itself -/
theorem substPrepare_assign (pairs : List (Nat × Edge)) (σ : Nat → Bool) (l : Nat) :
    substAssign (substPrepare pairs) σ l =
      match pairs.lookup l with
      | some r => r.eval σ
      | none => σ l := by
  simp only [substAssign, substPrepare]
  by_cases hl : l < pairs.foldl (fun m p => max m (p.1 + 1)) 0
  · rw [List.getElem?_eq_getElem (by simpa using hl)]
    simp only [List.getElem_map, List.getElem_range]
    cases pairs.lookup l <;> simp
  · rw [List.getElem?_eq_none (by simpa using hl)]
    cases h : pairs.lookup l with
    | none => rfl
    | some r => exact absurd (lookup_lt_len pairs 0 l r h) hl

theorem lookup_mem (pairs : List (Nat × Edge)) (l : Nat) (x : Edge) (h : pairs.lookup l = some x) :
    (l, x) ∈ pairs := by
  induction pairs with
  | nil => cases h
  | cons p ps ih =>
    obtain ⟨v, y⟩ := p
    simp only [List.lookup_cons] at h
    by_cases hv : l = v
    · subst hv; simp at h; subst h; exact List.mem_cons_self
    · have : (l == v) = false := by simp [hv]
      rw [this] at h
      exact List.mem_cons_of_mem _ (ih h)

theorem substPrepare_nf (pairs : List (Nat × Edge)) (hp : ∀ p ∈ pairs, p.2.NF 0) :
    ∀ r ∈ substPrepare pairs, r.NF 0 := by
  intro r hr
  simp only [substPrepare, List.mem_map, List.mem_range] at hr
  obtain ⟨l, _, rfl⟩ := hr
  cases h : pairs.lookup l with
  | none => exact (var_nf l).mono (Nat.zero_le _)
  | some x =>
    simp only
    have : (l, x) ∈ pairs := lookup_mem pairs l x h
    exact hp _ this

end OxiddModel.Bcdd
