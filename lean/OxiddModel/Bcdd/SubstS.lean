import OxiddModel.Bcdd.ApplyCX

/-!
# `substitute_prepare` and `substitute` on the BCDD store, with the apply cache

* `substPrepareS` = `substitute_prepare` (`complement_edge/apply_rec.rs`): the vector *level ↦
  replacement edge* up to the lowest substituted level; a level that is not mentioned gets the
  variable node of that level, created with `get_or_insert(InnerNode::new(level, [⊤, ¬⊤]))`
  (`StoreC.mkNodeC` on the two terminals does exactly that: regular then-edge, no reduction). It
  refines the tree-level `substPrepare`.
* `substituteS` = `substitute`: terminal / level beyond the vector ⇒ `f`; cache query under the key
  `(Substitute, [f], [cache_id])` — **`f` with its complement tag**; the replacement vector itself
  is *not* part of the key, only the numeric `cache_id` —; cofactors with
  `collect_cofactors(f.tag(), node)`; recursion on both; `apply_ite(subst[level], t, e)`; cache add.

The meaning of a `Substitute` entry is relative to the *registry* `reg : id ↦ vector`
(`specCX reg .substitute [a] [id] = substitute (reg id) a`), and `substituteS_spec` has the
hypothesis `DenotesLC st.store subst (reg id)`: the vector passed together with `id` is the one
registered under `id` (uniqueness of `Substitution::id()`).

Fuel: `fuel` bounds the recursion on `f`; `af` is handed to the inner `apply_ite` calls
(`substNeed` suffices).
-/
namespace OxiddModel.Bcdd.Refine
open OxiddModel.Bcdd OxiddModel.Bcdd.CNode
open OxiddModel.Bdd.Refine (Policy OpTag Key Cache)

/-! ## tree level: unfolding `substitute` -/

theorem substitute_top (sv : List Edge) (fneg : Bool) : substitute sv ⟨fneg, .top⟩ = ⟨fneg, .top⟩ := by
  rw [substitute]

theorem substitute_node_none (sv : List Edge) {fneg en : Bool} {l : Nat} {t e : CNode}
    (h : sv[l]? = none) : substitute sv ⟨fneg, .node l t en e⟩ = ⟨fneg, .node l t en e⟩ := by
  rw [substitute]; simp only [h]

theorem substitute_node_some (sv : List Edge) {fneg en : Bool} {l : Nat} {t e : CNode} {r : Edge}
    (h : sv[l]? = some r) :
    substitute sv ⟨fneg, .node l t en e⟩ =
      applyIte r (substitute sv ⟨fneg, t⟩) (substitute sv ⟨fneg != en, e⟩) := by
  rw [substitute]; simp only [h]

/-! ## operand lists -/

theorem DenotesLC.getElem? {s : StoreC} {es : List EdgeC} {ts : List Edge} (h : DenotesLC s es ts)
    (l : Nat) :
    (es[l]? = none ∧ ts[l]? = none) ∨ ∃ e t, es[l]? = some e ∧ ts[l]? = some t ∧ DenotesC s e t := by
  induction h generalizing l with
  | nil => exact .inl ⟨rfl, rfl⟩
  | @cons e t es ts hd _ ih =>
    cases l with
    | zero => exact .inr ⟨e, t, rfl, rfl, hd⟩
    | succ l => simpa using ih l

theorem DenotesLC.one {s : StoreC} {e : EdgeC} {t : Edge} (h : DenotesC s e t) :
    DenotesLC s [e] [t] := .cons h .nil

/-! ## `substitute_prepare` -/

/-- the `(level, replacement)` pairs on both levels -/
inductive DenotesPC (s : StoreC) : List (Nat × EdgeC) → List (Nat × Edge) → Prop
  | nil : DenotesPC s [] []
  | cons : DenotesC s e t → DenotesPC s ps pts → DenotesPC s ((l, e) :: ps) ((l, t) :: pts)

theorem DenotesPC.mono {s s' : StoreC} (hle : s.Le s') {ps : List (Nat × EdgeC)}
    {pts : List (Nat × Edge)} (h : DenotesPC s ps pts) : DenotesPC s' ps pts := by
  induction h with
  | nil => exact .nil
  | cons hd _ ih => exact .cons (hd.mono hle) ih

theorem DenotesPC.lookup {s : StoreC} {ps : List (Nat × EdgeC)} {pts : List (Nat × Edge)}
    (h : DenotesPC s ps pts) (l : Nat) :
    (ps.lookup l = none ∧ pts.lookup l = none) ∨
      ∃ e t, ps.lookup l = some e ∧ pts.lookup l = some t ∧ DenotesC s e t := by
  induction h with
  | nil => exact .inl ⟨rfl, rfl⟩
  | @cons e t ps pts k hd _ ih =>
    simp only [List.lookup]
    by_cases hk : l = k
    · subst hk; simp only [beq_self_eq_true]; exact .inr ⟨e, t, rfl, rfl, hd⟩
    · have : (l == k) = false := by simp [hk]
      simp only [this]; exact ih

theorem DenotesPC.len {s : StoreC} {ps : List (Nat × EdgeC)} {pts : List (Nat × Edge)}
    (h : DenotesPC s ps pts) (init : Nat) :
    ps.foldl (fun m p => max m (p.1 + 1)) init = pts.foldl (fun m p => max m (p.1 + 1)) init := by
  induction h generalizing init with
  | nil => rfl
  | cons _ _ ih => simp only [List.foldl]; exact ih _

/-- the second loop of `substitute_prepare` over the levels `ls` -/
def prepLoopC (pairs : List (Nat × EdgeC)) : StoreC → List Nat → StoreC × List EdgeC
  | s, [] => (s, [])
  | s, l :: ls =>
    match pairs.lookup l with
    | some r =>
      let rest := prepLoopC pairs s ls
      (rest.1, r :: rest.2)
    | none =>
      -- `get_or_insert(InnerNode::new(level, [⊤, ¬⊤]))`
      let m := s.mkNodeC l (termC true) (termC false)
      let rest := prepLoopC pairs m.1 ls
      (rest.1, m.2 :: rest.2)

/-- `substitute_prepare` -/
def substPrepareS (s : StoreC) (pairs : List (Nat × EdgeC)) : StoreC × List EdgeC :=
  prepLoopC pairs s (List.range (pairs.foldl (fun m p => max m (p.1 + 1)) 0))

theorem mk_var (l : Nat) : mk l (terminal true) (terminal false) = var l := by
  simp [mk, terminal, var]

theorem prepLoopC_spec (pairs : List (Nat × EdgeC)) (pairsT : List (Nat × Edge)) (ls : List Nat) :
    ∀ (s : StoreC), s.Unique → DenotesPC s pairs pairsT →
    s.Le (prepLoopC pairs s ls).1 ∧ (prepLoopC pairs s ls).1.Unique ∧
    (s.NoRed → (prepLoopC pairs s ls).1.NoRed) ∧
    DenotesLC (prepLoopC pairs s ls).1 (prepLoopC pairs s ls).2
      (ls.map fun l => match pairsT.lookup l with
        | some r => r
        | none => var l) := by
  induction ls with
  | nil => intro s hu _; exact ⟨StoreC.Le.refl _, hu, id, .nil⟩
  | cons l ls ih =>
    intro s hu hp
    simp only [prepLoopC, List.map]
    rcases hp.lookup l with ⟨h1, h2⟩ | ⟨e, t, h1, h2, hd⟩
    · simp only [h1, h2]
      have hle := mkNodeC_le s l (termC true) (termC false)
      have hu' := mkNodeC_unique s l (termC true) (termC false) hu
      obtain ⟨r1, r2, r3, r4⟩ := ih _ hu' (hp.mono hle)
      have hd := mkNodeC_denotes s l (termC true) (termC false) _ _ (DenotesC.term s true)
        (DenotesC.term s false) hu
      rw [mk_var] at hd
      exact ⟨hle.trans r1, r2, fun hr => r3 (mkNodeC_nored _ _ _ _ hr), .cons (hd.mono r1) r4⟩
    · simp only [h1, h2]
      obtain ⟨r1, r2, r3, r4⟩ := ih s hu hp
      exact ⟨r1, r2, r3, .cons (hd.mono r1) r4⟩

/-- **`substitute_prepare` refines `substPrepare`**: the store is only extended (by variable
nodes), hash consing and reducedness are kept, and the returned edges denote the tree-level
replacement vector -/
theorem substPrepareS_spec (s : StoreC) (pairs : List (Nat × EdgeC)) (pairsT : List (Nat × Edge))
    (hu : s.Unique) (hp : DenotesPC s pairs pairsT) :
    s.Le (substPrepareS s pairs).1 ∧ (substPrepareS s pairs).1.Unique ∧
    (s.NoRed → (substPrepareS s pairs).1.NoRed) ∧
    DenotesLC (substPrepareS s pairs).1 (substPrepareS s pairs).2 (substPrepare pairsT) := by
  have := prepLoopC_spec pairs pairsT
    (List.range (pairs.foldl (fun m p => max m (p.1 + 1)) 0)) s hu hp
  simp only [substPrepareS, substPrepare, ← hp.len 0]
  exact this

/-! ## `substitute` -/

/-- fuel that suffices for the inner `apply_ite` calls of `substitute sv ⟨fneg, fn⟩` -/
def substNeed (sv : List Edge) : Bool → CNode → Nat
  | _, .top => 0
  | fneg, .node l t en e =>
    match sv[l]? with
    | none => 0
    | some r =>
      max (max (substNeed sv fneg t) (substNeed sv (fneg != en) e))
        (r.size + (substitute sv ⟨fneg, t⟩).size + (substitute sv ⟨fneg != en, e⟩).size)

/-- `substitute` -/
def substituteS (p : Policy) (subst : List EdgeC) (id : Nat) (af : Nat) :
    Nat → StC → EdgeC → StC × EdgeC
  | 0, st, f => (st, f)
  | fuel+1, st, f =>
    match f.tgt with
    | .term => (st, f)
    | .inner i =>
      match st.store.get? i with
      | none => (st, f) -- dangling edge (excluded by `DenotesC`)
      | some fn =>
        match subst[fn.level]? with
        | none => (st, f) -- `level >= subst.len()`
        | some rep =>
          -- query apply cache: `f` with its tag, the numeric substitution id
          match p.get st.tick st.cache (encKeyC (substKey f id)) with
          | some h => (st.tickd, dec h)
          | none =>
            -- `collect_cofactors(f.tag(), node)`
            let r1 := substituteS p subst id af fuel st.tickd ⟨f.neg, fn.t⟩
            let r0 := substituteS p subst id af fuel r1.1 ⟨f.neg != fn.e.neg, fn.e.tgt⟩
            let r := iteS p af r0.1 rep r1.2 r0.2
            addC p r.1 (encKeyC (substKey f id)) r.2

theorem substKey_means {reg : Nat → List Edge} {s : StoreC} {f : EdgeC} {a : Edge} (id : Nat)
    (hf : DenotesC s f a) : KeyMeansC reg s (encKeyC (substKey f id)) (substitute (reg id) a) :=
  KeyMeansC.of (substKey_wf f id) (DenotesLC.one hf) rfl

theorem substituteS_spec {p : Policy} (pok : p.OK) (reg : Nat → List Edge) (subst : List EdgeC)
    (id : Nat) (af : Nat) (fuel : Nat) : ∀ (st : StC) (f : EdgeC) (a : Edge),
    InvCX reg st → DenotesLC st.store subst (reg id) → DenotesC st.store f a → a.size ≤ fuel →
    substNeed (reg id) a.neg a.n ≤ af →
    PostCW reg st.store (substitute (reg id) a) (substituteS p subst id af fuel st f) := by
  induction fuel with
  | zero =>
    intro st f a _ _ _ hsz _
    have := size_pos a.n
    simp only [Edge.size] at hsz
    omega
  | succ fuel ih =>
    intro st f a hinv hsub hf hsz hneed
    obtain ⟨fn, ft⟩ := f
    obtain ⟨an, a⟩ := a
    obtain ⟨h1, h2⟩ := hf
    simp only at h1 h2 hneed
    subst h1
    cases h2 with
    | term =>
      simp only [substituteS, substitute_top]
      exact PostCW.done hinv ⟨rfl, .term⟩
    | @inner i l t en e tt te hi hft hfe =>
      have hdf : DenotesC st.store ⟨fn, .inner i⟩ ⟨fn, .node l tt en te⟩ :=
        ⟨rfl, .inner hi hft hfe⟩
      simp only [Edge.size, CNode.size] at hsz
      simp only [substituteS, hi]
      rcases hsub.getElem? l with ⟨h1, h2⟩ | ⟨rep, rt, h1, h2, hrep⟩
      · simp only [h1]
        rw [substitute_node_none _ h2]
        exact PostCW.done hinv hdf
      · simp only [h1]
        simp only [substNeed, h2] at hneed
        have hkey := substKey_means (reg := reg) id hdf
        rw [substitute_node_some _ h2] at hkey ⊢
        cases hget : p.get st.tick st.cache (encKeyC (substKey ⟨fn, .inner i⟩ id)) with
        | some r =>
          have hent := hinv.2 _ _ (pok.get_mem _ _ _ _ hget)
          have := hent.hit (substKey_wf _ id) (DenotesLC.one hdf) rfl
          rw [substitute_node_some _ h2] at this
          exact PostCW.done (st := st.tickd) hinv.tickd this
        | none =>
          simp only
          have hct : DenotesC st.store ⟨fn, t⟩ ⟨fn, tt⟩ := ⟨rfl, hft⟩
          have hce : DenotesC st.store ⟨fn != en, e⟩ ⟨fn != en, te⟩ := ⟨rfl, hfe⟩
          have p1 := ih st.tickd _ _ hinv.tickd hsub hct (by simp only [Edge.size]; omega)
            (by simp only; omega)
          have p0 := ih _ _ _ p1.inv (hsub.mono p1.le) (hce.mono p1.le)
            (by simp only [Edge.size]; omega) (by simp only; omega)
          have pa := (iteS_specX pok reg af _ _ _ _ _ _ _ p0.inv
            (hrep.mono (p1.le.trans p0.le)) (p1.den.mono p0.le) p0.den (by omega)).toPostCW
          have pa' : PostCW reg st.store _ _ :=
            PostCW.trans (p1.le.trans p0.le) (fun hr => p0.nored (p1.nored hr)) pa
          exact addC_postW pok pa' _ hkey

/-! ## `substitute_edge` = prepare, then substitute -/

/-- `FunctionSubst::substitute_edge`: `substitute_prepare(pairs)`, then
`substitute(f, &subst, substitution.id())` -/
def substituteEdgeS (p : Policy) (pairs : List (Nat × EdgeC)) (id : Nat) (af fuel : Nat)
    (st : StC) (f : EdgeC) : StC × EdgeC :=
  let pr := substPrepareS st.store pairs
  substituteS p pr.2 id af fuel ⟨pr.1, st.cache, st.tick⟩ f

theorem substituteEdgeS_spec {p : Policy} (pok : p.OK) (reg : Nat → List Edge)
    (pairs : List (Nat × EdgeC)) (pairsT : List (Nat × Edge)) (id : Nat) (af fuel : Nat)
    (st : StC) (f : EdgeC) (a : Edge) (hinv : InvCX reg st)
    (hp : DenotesPC st.store pairs pairsT)
    (hreg : reg id = substPrepare pairsT) (hf : DenotesC st.store f a) (hsz : a.size ≤ fuel)
    (hneed : substNeed (substPrepare pairsT) a.neg a.n ≤ af) :
    PostCW reg st.store (substitute (substPrepare pairsT) a)
      (substituteEdgeS p pairs id af fuel st f) := by
  obtain ⟨h1, h2, h3, h4⟩ := substPrepareS_spec st.store pairs pairsT hinv.1 hp
  have hinv' : InvCX reg ⟨(substPrepareS st.store pairs).1, st.cache, st.tick⟩ :=
    ⟨h2, hinv.2.mono h1⟩
  have := substituteS_spec pok reg (substPrepareS st.store pairs).2 id af fuel
    ⟨(substPrepareS st.store pairs).1, st.cache, st.tick⟩ f a hinv' (hreg ▸ h4) (hf.mono h1) hsz
    (hreg ▸ hneed)
  rw [hreg] at this
  exact PostCW.trans h1 h3 this

end OxiddModel.Bcdd.Refine
