import OxiddModel.Bcdd.IteS

/-!
# An interleaving machine for the BCDD `apply_bin` and `apply_ite` (complement edges)

`Bdd/Threads.lean` defines a small-step machine for the apply algorithms of BDDs *without*
complement edges. This file is its counterpart for
`crates/oxidd-rules-bdd/src/complement_edge/apply_rec.rs` (`apply_bin::<And|Xor>` with the
`ParallelRecursor` / `SequentialRecursor` of `crates/oxidd-rules-bdd/src/recursor.rs`) on the BCDD
store model `StoreC` of `Bcdd/StoreRefine.lean` and the state `StC` (unique table + apply cache +
time stamp) of `Bcdd/ApplyS.lean`.

## control state of a running operation: `Task`

* `call d c` — at the entry of the recursive call `c` with remaining split depth `d`
  (`ParallelRecursor.remaining_depth`; `0` = `SequentialRecursor`);
* `miss d c key` — the cache query missed; the operands (already ordered `f < g`, as the code does
  before it builds the key) are kept in `c`;
* `seq1 fr c0 t1` — sequential recursor: then-branch `t1` running, else-call `c0` pending;
* `seq0 fr r1 t0` — then-result `r1` held (`EdgeDropGuard`), else-branch `t0` running;
* `par fr t1 t0` — parallel recursor (`workers().join`): both branches running;
* `made key r` — `reduce` done, before `apply_cache().add`;
* `neg t` — the result of `t` will be complemented (`not_owned`, a tag flip: the derived
  connectives `or/nand/equiv/imp`);
* `ret r` — finished with result edge `r`.

One step of a task (`Task.step`) performs exactly one atomic action `Act` on the shared state, or a
thread-local transition:

* `Act.cacheGet` — the cache query (`apply_cache().get`), under the bucket lock;
* `Act.mk l t e` — `reduce`: `if t == e {return t}`, **complement-edge normalisation** (a
  complemented then-edge is replaced by complementing both children, the tag moves to the result
  edge), then `get_or_insert` under the level's mutex (`StoreC.mkNodeC`);
* `Act.cacheAdd key r` — `apply_cache().add`, under the bucket lock.

Reading level and children of operand nodes (`Call.expand`) is local: stored nodes are immutable.
The program text is that of `binS` (`ApplyS.lean`) and `iteS` (`IteS.lean`): same terminal cases,
the operand swap before the key, lookup before recursion, `mkNodeC` then add; `apply_ite`'s
delegations to `apply_and` / `apply_bin::<Xor>` are thread-local steps to a `call` of `bin`,
wrapped in `neg` where the code complements the result. `Bcdd/ThreadsSeq.lean` proves that a task
running alone with split depth `0` goes through exactly `binS`'s / `iteS`'s state and edge.

## the machine

`Cfg` = shared state + the list of top-level operations (one per user thread / worker); a schedule
is a list of `Sel = (tid, path)`: task `tid` makes one step, `path` resolves the choice at `par`
nodes (outermost first). Every interleaving of the atomic actions of all sub-tasks of all
operations is a schedule, and vice versa.

**Assumptions of the model (not proved here):** the three actions are atomic (level mutex around
`get_or_insert`; bucket lock with `try_lock` for the cache — a failing `try_lock` is a `Policy`
that misses/drops); sequentially consistent memory; no collection and no reordering runs while an
operation is in progress (the manager's shared lock; C07 lock model), so no node is freed.
-/
namespace OxiddModel.Bcdd.Threads
open OxiddModel.Bcdd OxiddModel.Bcdd.CNode OxiddModel.Bcdd.Refine
open OxiddModel.Bdd.Refine (Policy OpTag Key Cache)

/-! ## calls, frames, tasks -/

/-- a (recursive) call of `apply_bin::<OP>` or of `apply_ite` -/
inductive Call where
  | bin (op : BOp) (f g : EdgeC)
  | ite (f g h : EdgeC)
deriving DecidableEq, Repr

/-- what a frame keeps across its recursive calls: the cache key and the level of the new node -/
structure Frame where
  key : Key
  lvl : Nat
deriving DecidableEq, Repr

inductive Task where
  | call (d : Nat) (c : Call)
  | miss (d : Nat) (c : Call) (key : Key)
  | seq1 (fr : Frame) (c0 : Call) (t1 : Task)
  | seq0 (fr : Frame) (r1 : EdgeC) (t0 : Task)
  | par (fr : Frame) (t1 t0 : Task)
  | made (key : Key) (r : EdgeC)
  | neg (t : Task)
  | ret (r : EdgeC)
deriving DecidableEq, Repr

/-- the result of a finished task -/
def Task.ret? : Task → Option EdgeC
  | .ret r => some r
  | _ => none

/-- the atomic actions on the shared state -/
inductive Act where
  | cacheGet
  | mk (l : Nat) (t e : EdgeC)
  | cacheAdd (key : Key) (r : EdgeC)
deriving DecidableEq, Repr

/-- effect of an action on the shared state; compare `binS`/`finishC`: a cache access advances
the time stamp, `reduce` changes the store only -/
def Act.run (p : Policy) : Act → StC → StC
  | .cacheGet, st => st.tickd
  | .mk l t e, st => { st with store := (st.store.mkNodeC l t e).1 }
  | .cacheAdd key r, st => ⟨st.store, p.add st.tick st.cache key (enc r), st.tick + 1⟩

def runOpt (p : Policy) : Option Act → StC → StC
  | some a, st => a.run p st
  | none, st => st

abbrev Out := Option Act × Task

/-- the cache query of a call that is not a terminal case -/
def query (p : Policy) (st : StC) (d : Nat) (c : Call) (key : Key) : Out :=
  match p.get st.tick st.cache key with
  | some h => (some .cacheGet, .ret (dec h))
  | none => (some .cacheGet, .miss d c key)

/-- entry of a call: `terminal_and` / `terminal_xor` (thread-local: they compare edges and tags),
the operand swap `if f < g {(f, g)} else {(g, f)}`, then the cache query on the swapped pair -/
def Call.entry (p : Policy) (st : StC) (d : Nat) : Call → Out
  | .bin op f g =>
    match terminalOpS op f g with
    | .done h => (none, .ret h)
    | .nodes =>
      let k := orderPair f g
      query p st d (.bin op k.1 k.2) (keyOf op k.1 k.2)
  | .ite f g h =>
    -- `apply_ite`: the comparisons of untagged edges, each followed by the tag comparison and the
    -- delegation to `apply_bin::<Xor>` / `apply_and` through `not` tags (same text as `iteS`)
    if g.tgt = h.tgt then
      (if g.neg = h.neg then (none, .ret g)
       else (none, .neg (.call d (.bin .xor f g))))
    else if f.tgt = g.tgt then
      (if f.neg = g.neg then (none, .neg (.call d (.bin .and (notE f) (notE h))))
       else (none, .call d (.bin .and (notE f) h)))
    else if f.tgt = h.tgt then
      (if f.neg = h.neg then (none, .call d (.bin .and f g))
       else (none, .neg (.call d (.bin .and f (notE g)))))
    else
      match f.tgt with
      | .term => (none, .ret (if f.neg = false then g else h))
      | .inner _ =>
        match g.tgt, h.tgt with
        | .term, .inner _ =>
          if g.neg = false then (none, .neg (.call d (.bin .and (notE f) (notE h))))
          else (none, .call d (.bin .and (notE f) h))
        | _, .term =>
          if h.neg = false then (none, .neg (.call d (.bin .and f (notE g))))
          else (none, .call d (.bin .and f g))
        | .inner _, .inner _ => query p st d (.ite f g h) (.ite, [enc f, enc g, enc h])

/-- `Recursor::binary`: the sequential recursor (`d = 0`) runs the then-call first, the parallel
recursor forks both calls with `remaining_depth - 1` -/
def fork (d : Nat) (fr : Frame) (c1 c0 : Call) : Task :=
  match d with
  | 0 => .seq1 fr c0 (.call 0 c1)
  | d + 1 => .par fr (.call d c1) (.call d c0)

/-- after a miss: read levels and children, `collect_cofactors` with the tag of the incoming edge
pushed to the children (`StoreC.cofT/cofE`), start the recursive calls -/
def Call.expand (s : StoreC) (d : Nat) (key : Key) : Call → Task
  | .bin op f g =>
    match s.level? f, s.level? g with
    | some lf, some lg =>
      let l := min lf lg
      fork d ⟨key, l⟩ (.bin op (s.cofT l f) (s.cofT l g)) (.bin op (s.cofE l f) (s.cofE l g))
    | _, _ => .ret f
  | .ite f g h =>
    match s.level? f, s.level? g, s.level? h with
    | some lf, some lg, some lh =>
      let l := min (min lf lg) lh
      fork d ⟨key, l⟩ (.ite (s.cofT l f) (s.cofT l g) (s.cofT l h))
        (.ite (s.cofE l f) (s.cofE l g) (s.cofE l h))
    | _, _, _ => .ret f

/-- `reduce` as one atomic action; the task remembers the edge (node **and tag**) it got back -/
def reduceOut (st : StC) (fr : Frame) (r1 r0 : EdgeC) : Out :=
  (some (.mk fr.lvl r1 r0), .made fr.key (st.store.mkNodeC fr.lvl r1 r0).2)

/-- which branch of a `par` node moves: the one the scheduler asks for (`true`/empty path = then)
unless it is finished already -/
def pickLeft (path : List Bool) (t1 t0 : Task) : Bool :=
  match t1.ret?, t0.ret? with
  | some _, _ => false
  | none, some _ => true
  | none, none => path.headD true

/-- **one step of a task** in shared state `st`. A finished task stutters. -/
def Task.step (p : Policy) (st : StC) : Task → List Bool → Out
  | .ret r, _ => (none, .ret r)
  | .call d c, _ => c.entry p st d
  | .miss d c key, _ => (none, c.expand st.store d key)
  | .seq1 fr c0 t1, path =>
    match t1.ret? with
    | some r1 => (none, .seq0 fr r1 (.call 0 c0))
    | none => let o := t1.step p st path; (o.1, .seq1 fr c0 o.2)
  | .seq0 fr r1 t0, path =>
    match t0.ret? with
    | some r0 => reduceOut st fr r1 r0
    | none => let o := t0.step p st path; (o.1, .seq0 fr r1 o.2)
  | .par fr t1 t0, path =>
    match t1.ret?, t0.ret? with
    | some r1, some r0 => reduceOut st fr r1 r0
    | _, _ =>
      if pickLeft path t1 t0 then
        let o := t1.step p st path.tail; (o.1, .par fr o.2 t0)
      else
        let o := t0.step p st path.tail; (o.1, .par fr t1 o.2)
  | .made key r, _ => (some (.cacheAdd key r), .ret r)
  | .neg t, path =>
    match t.ret? with
    | some r => (none, .ret (notE r))
    | none => let o := t.step p st path; (o.1, .neg o.2)

/-- the `*_edge` methods of `BooleanFunction` for BCDD (`applyOpS`): `and`/`xor` directly, the
other six through `not` tags around `apply_and` / `apply_bin::<Xor>` -/
def startOp (d : Nat) (op : Op) (f g : EdgeC) : Task :=
  match op with
  | .and => .call d (.bin .and f g)
  | .or => .neg (.call d (.bin .and (notE f) (notE g)))
  | .nand => .neg (.call d (.bin .and f g))
  | .nor => .call d (.bin .and (notE f) (notE g))
  | .xor => .call d (.bin .xor f g)
  | .equiv => .neg (.call d (.bin .xor f g))
  | .imp => .neg (.call d (.bin .and f (notE g)))
  | .impStrict => .call d (.bin .and (notE f) g)

/-! ## the machine -/

structure Cfg where
  st : StC
  tasks : List Task

/-- a scheduling decision: task `tid` makes one step, `path` picks the branch at `par` nodes -/
structure Sel where
  tid : Nat
  path : List Bool
deriving DecidableEq, Repr

/-- the selection names a live (existing, unfinished) task -/
def Cfg.enabled (c : Cfg) (s : Sel) : Bool :=
  match c.tasks[s.tid]? with
  | some t => t.ret?.isNone
  | none => false

/-- **one step of the machine**; a selection that is not enabled does nothing -/
def Cfg.step (p : Policy) (c : Cfg) (s : Sel) : Cfg :=
  match c.tasks[s.tid]? with
  | none => c
  | some t =>
    match t.ret? with
    | some _ => c
    | none =>
      let o := t.step p c.st s.path
      ⟨runOpt p o.1 c.st, c.tasks.set s.tid o.2⟩

def Cfg.run (p : Policy) (c : Cfg) : List Sel → Cfg
  | [] => c
  | s :: ss => (c.step p s).run p ss

def Cfg.allDone (c : Cfg) : Bool := c.tasks.all (fun t => t.ret?.isSome)

/-- every selection of the schedule is enabled when it is taken -/
def Cfg.allEnabled (p : Policy) (c : Cfg) : List Sel → Bool
  | [] => true
  | s :: ss => c.enabled s && (c.step p s).allEnabled p ss

/-- the `made` frames of a task: the cache entries it is about to insert -/
def Task.mades : Task → List (Key × EdgeC)
  | .call _ _ => []
  | .miss _ _ _ => []
  | .seq1 _ _ t1 => t1.mades
  | .seq0 _ _ t0 => t0.mades
  | .par _ t1 t0 => t1.mades ++ t0.mades
  | .made key r => [(key, r)]
  | .neg t => t.mades
  | .ret _ => []

end OxiddModel.Bcdd.Threads
