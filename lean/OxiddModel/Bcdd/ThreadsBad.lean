import OxiddModel.Bcdd.PropertiesC07R

/-!
# Why the machine's atomicity assumptions and counter operations are needed (negative witnesses)

* `split_reduce_breaks_unique` — `reduce`'s `get_or_insert` must be **one** atomic action (the
  level mutex): if the lookup and the insertion were separate actions, two tasks computing the same
  sub-problem could both miss and both insert; the store then holds the same node twice, `Unique`
  (hash consing) is lost and with it edge equality = function equality.
* `no_free_ownership` — every owned edge has to be paid for by a `retain`: from exact counters, a
  task that starts owning an edge to a stored node *without* a counter increment (a cache hit or a
  terminal case that returns the borrowed operand instead of `clone_edge`) makes the counters
  inexact, for every state and every edge. This is the class of defect the `clone_edge` in
  `Task.rstep` (`call` case) stands for.
* `double_release_breaks` — dually, releasing an edge that is not owned breaks exactness.
-/
namespace OxiddModel.Bcdd.Threads
open OxiddModel.Bcdd OxiddModel.Bcdd.CNode OxiddModel.Bcdd.Refine OxiddModel.Bcdd.Rc
open OxiddModel.Bdd.Refine (Policy OpTag Key Cache)
open OxiddModel.Bdd.Rc (rcGet rcSet)

/-- the node `x0 ? x2 : ¬(x1 ⊕ x2)`-ish that two tasks are about to create in `exStore` -/
def exNew : NodeC := ⟨0, .inner 0, ⟨true, .inner 3⟩⟩

/-- **`get_or_insert` must be atomic.** Both tasks looked the node up (miss), then both insert. -/
theorem split_reduce_breaks_unique :
    exStore.Unique ∧ exStore.find? exNew = none ∧
    ¬ ((exStore.alloc exNew).1.alloc exNew).1.Unique ∧
    -- whereas two *atomic* `get_or_insert`s keep hash consing and return the same slot
    ((exStore.getOrInsert exNew).1.getOrInsert exNew).1.Unique ∧
    ((exStore.getOrInsert exNew).1.getOrInsert exNew).2 = (exStore.getOrInsert exNew).2 := by
  refine ⟨exStore_unique, by decide +kernel, ?_, ?_, by decide +kernel⟩
  · intro h
    have := h 5 6 exNew (by decide +kernel) (by decide +kernel)
    omega
  · exact getOrInsert_unique _ _ (getOrInsert_unique _ _ exStore_unique)

/-- **No ownership without a retain.** -/
theorem no_free_ownership {r : RStC} {ext : List EdgeC} (h : RcInv r ext) (b : Bool) (k : Nat)
    (n : NodeC) (hk : r.st.store.get? k = some n) : ¬ RcInv r (⟨b, .inner k⟩ :: ext) := by
  intro h'
  have e1 := h.rc_eq k n hk
  have e2 := h'.rc_eq k n hk
  rw [extCnt_cons] at e2
  simp only [cnt, cntT, if_true] at e2
  omega

/-- **No release without ownership**: after `drop_edge` of an edge nobody owns the counters are
too small — for every state with exact counters and every edge to a stored node. -/
theorem double_release_breaks {r : RStC} {ext : List EdgeC} (h : RcInv r ext) (b : Bool) (k : Nat)
    (n : NodeC) (hk : r.st.store.get? k = some n) : ¬ RcInv (dropEdge r ⟨b, .inner k⟩) ext := by
  intro h'
  have e1 := h.rc_eq k n hk
  have hk' : (dropEdge r ⟨b, .inner k⟩).st.store.get? k = some n := by rw [dropEdge_st]; exact hk
  have e2 := h'.rc_eq k n hk'
  rw [rcGet_dropEdge, dropEdge_st] at e2
  simp only [cnt, cntT, if_true] at e2
  omega

/-- non-vacuity of the two counter witnesses on the example state -/
example := no_free_ownership exR_rc true 3 _ (by decide +kernel :
  exR.st.store.get? 3 = some ⟨1, .inner 0, ⟨true, .inner 0⟩⟩)
example := double_release_breaks exR_rc true 3 _ (by decide +kernel :
  exR.st.store.get? 3 = some ⟨1, .inner 0, ⟨true, .inner 0⟩⟩)

end OxiddModel.Bcdd.Threads
