import OxiddModel.Bcdd.Threads

/-!
# The invariant of the BCDD interleaving machine and its preservation by every step

`TaskOK s t T n`: in store `s` the task `t` is *computing the tree edge `T`* and needs at most `n`
more steps of its own: every operand it holds denotes a tree, the frames' keys are sound for what
the frame computes, results already obtained denote the right trees. The predicate is monotone in
the store (`TaskOK.mono`), so steps of *other* tasks — which only extend the store — do not disturb
it; `Task.step_ok` shows that a step of the task itself keeps the shared-state invariant
(`InvC` = hash consing + sound cache, and `NoRed`), extends the store, keeps `TaskOK` for the same
`T` and strictly decreases the bound.
-/
namespace OxiddModel.Bcdd.Threads
open OxiddModel.Bcdd OxiddModel.Bcdd.CNode OxiddModel.Bcdd.Refine
open OxiddModel.Bdd.Refine (Policy OpTag Key Cache)

/-- bound on the number of own steps of a call whose operand trees have total size `≤ k` -/
def W : Nat → Nat
  | 0 => 1
  | k + 1 => 2 * W k + 8

theorem W_pos (k : Nat) : 1 ≤ W k := by
  cases k <;> simp only [W] <;> omega

theorem W_mono {k k' : Nat} (h : k ≤ k') : W k ≤ W k' := by
  induction h with
  | refl => exact Nat.le_refl _
  | step _ ih => simp only [W]; omega

/-- the key is sound for a frame that computes `T` -/
def KeyOK (s : StoreC) (key : Key) (T : Edge) : Prop :=
  ∃ es ts, key.2 = es.map enc ∧ DenotesLC s es ts ∧ specC key.1 ts = some T

theorem KeyOK.mono {s s' : StoreC} (hle : s.Le s') {key : Key} {T : Edge} (h : KeyOK s key T) :
    KeyOK s' key T := by
  obtain ⟨es, ts, h1, h2, h3⟩ := h
  exact ⟨es, ts, h1, h2.mono hle, h3⟩

/-- the call computes `T`; its operand trees have total size `≤ k` -/
def CallSpec (s : StoreC) (c : Call) (T : Edge) (k : Nat) : Prop :=
  match c with
  | .bin op f g =>
    ∃ a b, DenotesC s f a ∧ DenotesC s g b ∧ T = applyBin op a b ∧ a.size + b.size ≤ k
  | .ite f g h =>
    ∃ a b c, DenotesC s f a ∧ DenotesC s g b ∧ DenotesC s h c ∧ T = applyIte a b c ∧
      a.size + b.size + c.size ≤ k

theorem CallSpec.mono {s s' : StoreC} (hle : s.Le s') {c : Call} {T : Edge} {k : Nat}
    (h : CallSpec s c T k) : CallSpec s' c T k := by
  cases c with
  | bin op f g =>
    obtain ⟨a, b, h1, h2, h3, h4⟩ := h
    exact ⟨a, b, h1.mono hle, h2.mono hle, h3, h4⟩
  | ite f g h' =>
    obtain ⟨a, b, c, h1, h2, h3, h4, h5⟩ := h
    exact ⟨a, b, c, h1.mono hle, h2.mono hle, h3.mono hle, h4, h5⟩

/-- after the miss: the operands are two inner nodes (no terminal case applies), they are the
ordered pair the key was built from -/
def MissSpec (s : StoreC) (c : Call) (key : Key) (T : Edge) (k : Nat) : Prop :=
  match c with
  | .bin op f g =>
    ∃ a b, DenotesC s f a ∧ DenotesC s g b ∧ terminalOp op a b = .nodes ∧ T = applyBin op a b ∧
      a.size + b.size ≤ k + 1 ∧ key = keyOf op f g
  | .ite f g h =>
    ∃ a b c, DenotesC s f a ∧ DenotesC s g b ∧ DenotesC s h c ∧
      ¬ b.n = c.n ∧ ¬ a.n = b.n ∧ ¬ a.n = c.n ∧ a.n ≠ .top ∧ b.n ≠ .top ∧ c.n ≠ .top ∧
      T = applyIte a b c ∧ a.size + b.size + c.size ≤ k + 1 ∧ key = (.ite, [enc f, enc g, enc h])

theorem MissSpec.mono {s s' : StoreC} (hle : s.Le s') {c : Call} {key : Key} {T : Edge} {k : Nat}
    (h : MissSpec s c key T k) : MissSpec s' c key T k := by
  cases c with
  | bin op f g =>
    obtain ⟨a, b, h1, h2, h3, h4, h5, h6⟩ := h
    exact ⟨a, b, h1.mono hle, h2.mono hle, h3, h4, h5, h6⟩
  | ite f g h' =>
    obtain ⟨a, b, c, h1, h2, h3, h4⟩ := h
    exact ⟨a, b, c, h1.mono hle, h2.mono hle, h3.mono hle, h4⟩

inductive TaskOK (s : StoreC) : Task → Edge → Nat → Prop
  | ret {r T n} : DenotesC s r T → TaskOK s (.ret r) T n
  | call {d c T k n} : CallSpec s c T k → W k ≤ n → TaskOK s (.call d c) T n
  | miss {d c key T k n} : MissSpec s c key T k → 2 * W k + 7 ≤ n → TaskOK s (.miss d c key) T n
  | seq1 {fr c0 t1 T T1 T0 k0 n1 n} : T = mk fr.lvl T1 T0 → KeyOK s fr.key T → CallSpec s c0 T0 k0 →
      TaskOK s t1 T1 n1 → n1 + W k0 + 4 ≤ n → TaskOK s (.seq1 fr c0 t1) T n
  | seq0 {fr r1 t0 T T1 T0 n0 n} : T = mk fr.lvl T1 T0 → KeyOK s fr.key T → DenotesC s r1 T1 →
      TaskOK s t0 T0 n0 → n0 + 3 ≤ n → TaskOK s (.seq0 fr r1 t0) T n
  | par {fr t1 t0 T T1 T0 n1 n0 n} : T = mk fr.lvl T1 T0 → KeyOK s fr.key T → TaskOK s t1 T1 n1 →
      TaskOK s t0 T0 n0 → n1 + n0 + 3 ≤ n → TaskOK s (.par fr t1 t0) T n
  | made {key r T n} : KeyOK s key T → DenotesC s r T → 1 ≤ n → TaskOK s (.made key r) T n
  | neg {t T T' n' n} : T = applyNot T' → TaskOK s t T' n' → n' + 1 ≤ n → TaskOK s (.neg t) T n

theorem TaskOK.mono {s s' : StoreC} (hle : s.Le s') {t : Task} {T : Edge} {n : Nat}
    (h : TaskOK s t T n) : TaskOK s' t T n := by
  induction h with
  | ret h => exact .ret (h.mono hle)
  | call h hn => exact .call (h.mono hle) hn
  | miss h hn => exact .miss (h.mono hle) hn
  | seq1 hT hk hc _ hn ih => exact .seq1 hT (hk.mono hle) (hc.mono hle) ih hn
  | seq0 hT hk hr _ hn ih => exact .seq0 hT (hk.mono hle) (hr.mono hle) ih hn
  | par hT hk _ _ hn ih1 ih0 => exact .par hT (hk.mono hle) ih1 ih0 hn
  | made hk hr hn => exact .made (hk.mono hle) (hr.mono hle) hn
  | neg hT _ hn ih => exact .neg hT ih hn

theorem TaskOK.weaken {s : StoreC} {t : Task} {T : Edge} {n n' : Nat}
    (h : TaskOK s t T n) (hn : n ≤ n') : TaskOK s t T n' := by
  cases h with
  | ret h => exact .ret h
  | call h h' => exact .call h (by omega)
  | miss h h' => exact .miss h (by omega)
  | seq1 hT hk hc h1 h' => exact .seq1 hT hk hc h1 (by omega)
  | seq0 hT hk hr h0 h' => exact .seq0 hT hk hr h0 (by omega)
  | par hT hk h1 h0 h' => exact .par hT hk h1 h0 (by omega)
  | made hk hr h' => exact .made hk hr (by omega)
  | neg hT h h' => exact .neg hT h (by omega)

/-- a finished task holds the edge of its tree -/
theorem TaskOK.ret_den {s : StoreC} {t : Task} {T : Edge} {n : Nat} {r : EdgeC}
    (h : TaskOK s t T n) (hr : t.ret? = some r) : DenotesC s r T := by
  cases h <;> simp only [Task.ret?] at hr <;> (try cases hr)
  assumption

/-! ## the actions keep the shared-state invariant -/

/-- what a step guarantees about the shared state -/
structure StOK (st st' : StC) : Prop where
  inv : InvC st'
  le : st.store.Le st'.store
  nored : st.store.NoRed → st'.store.NoRed

theorem StOK.refl {st : StC} (h : InvC st) : StOK st st := ⟨h, StoreC.Le.refl _, id⟩

theorem StOK.tickd {st : StC} (h : InvC st) : StOK st st.tickd := ⟨h.tickd, StoreC.Le.refl _, id⟩

theorem StOK.mkNode {st : StC} (h : InvC st) (l : Nat) (t e : EdgeC) (p : Policy) :
    StOK st ((Act.mk l t e).run p st) :=
  ⟨⟨mkNodeC_unique _ _ _ _ h.1, h.2.mono (mkNodeC_le _ _ _ _)⟩, mkNodeC_le _ _ _ _,
    fun hr => mkNodeC_nored _ _ _ _ hr⟩

theorem StOK.add {p : Policy} (pok : p.OK) {st : StC} (h : InvC st) {key : Key} {r : EdgeC}
    {T : Edge} (hk : KeyOK st.store key T) (hr : DenotesC st.store r T) :
    StOK st ((Act.cacheAdd key r).run p st) := by
  refine ⟨⟨h.1, ?_⟩, StoreC.Le.refl _, id⟩
  obtain ⟨es, ts, h1, h2, h3⟩ := hk
  exact CacheOKC.add pok h.2 ⟨es, ts, T, h1, h2, h3, by rw [dec_enc]; exact hr⟩ _

/-! ## sizes of the cofactors -/

theorem cof_sizes {op : BOp} {a b : Edge} {k : Nat} (hT : terminalOp op a b = .nodes)
    (hsz : a.size + b.size ≤ k + 1) :
    ∃ an lf ft fen fe bn lg gt gen ge, a = ⟨an, .node lf ft fen fe⟩ ∧ b = ⟨bn, .node lg gt gen ge⟩ ∧
      (tcofT (min lf lg) a).size + (tcofT (min lf lg) b).size ≤ k ∧
      (tcofE (min lf lg) a).size + (tcofE (min lf lg) b).size ≤ k := by
  have hsp := terminalOp_spec op a b
  rw [hT] at hsp
  obtain ⟨hla, hlb⟩ := hsp
  obtain ⟨an, a'⟩ := a
  obtain ⟨bn, b'⟩ := b
  cases a' with
  | top => simp [isTop] at hla
  | node lf ft fen fe =>
  cases b' with
  | top => simp [isTop] at hlb
  | node lg gt gen ge =>
  refine ⟨an, lf, ft, fen, fe, bn, lg, gt, gen, ge, rfl, rfl, ?_, ?_⟩
  · have hmin : min lf lg = lf ∨ min lf lg = lg := by omega
    have h1 := tcofT_size_le (min lf lg) ⟨an, .node lf ft fen fe⟩
    have h2 := tcofT_size_le (min lf lg) ⟨bn, .node lg gt gen ge⟩
    simp only [Edge.size] at h1 h2 hsz ⊢
    rcases hmin with h | h <;> rw [h] at h1 h2 ⊢
    · have := tcofT_size_lt lf an fen ft fe; simp only [Edge.size] at this; omega
    · have := tcofT_size_lt lg bn gen gt ge; simp only [Edge.size] at this; omega
  · have hmin : min lf lg = lf ∨ min lf lg = lg := by omega
    have h1 := tcofE_size_le (min lf lg) ⟨an, .node lf ft fen fe⟩
    have h2 := tcofE_size_le (min lf lg) ⟨bn, .node lg gt gen ge⟩
    simp only [Edge.size] at h1 h2 hsz ⊢
    rcases hmin with h | h <;> rw [h] at h1 h2 ⊢
    · have := tcofE_size_lt lf an fen ft fe; simp only [Edge.size] at this; omega
    · have := tcofE_size_lt lg bn gen gt ge; simp only [Edge.size] at this; omega

/-! ## entry and expansion of a call -/

/-- the result of a step: new shared state fine, task still computing `T`, bound decreased -/
def StepOK (p : Policy) (st : StC) (o : Out) (T : Edge) (n : Nat) : Prop :=
  StOK st (runOpt p o.1 st) ∧ ∃ n', n' < n ∧ TaskOK (runOpt p o.1 st).store o.2 T n'

theorem entry_ok_bin {p : Policy} (pok : p.OK) {st : StC} (hinv : InvC st) {op : BOp}
    {f g : EdgeC} {a b : Edge} {k n : Nat} (d : Nat) (hf : DenotesC st.store f a)
    (hg : DenotesC st.store g b) (hsz : a.size + b.size ≤ k) (hn : W k ≤ n) :
    StepOK p st ((Call.bin op f g).entry p st d) (applyBin op a b) n := by
  have hcorr := terminalOpS_corr op hinv.1 hf hg
  have hW := W_pos k
  simp only [Call.entry]
  cases hS : terminalOpS op f g with
  | done e =>
    cases hT : terminalOp op a b with
    | done t =>
      rw [hS, hT] at hcorr
      rw [applyBin_done hT]
      exact ⟨StOK.refl hinv, 0, by omega, .ret hcorr⟩
    | nodes => rw [hS, hT] at hcorr; exact hcorr.elim
  | nodes =>
    cases hT : terminalOp op a b with
    | done t => rw [hS, hT] at hcorr; exact hcorr.elim
    | nodes =>
      have hk : ∃ a' b', DenotesC st.store (orderPair f g).1 a' ∧
          DenotesC st.store (orderPair f g).2 b' ∧ applyBin op a b = applyBin op a' b' ∧
          terminalOp op a' b' = .nodes ∧ a'.size + b'.size ≤ k := by
        rcases orderPair_cases f g with h | h <;> rw [h]
        · exact ⟨a, b, hf, hg, rfl, hT, hsz⟩
        · exact ⟨b, a, hg, hf, applyBin_comm op a b, by rw [terminalOp_comm]; exact hT,
            by omega⟩
      obtain ⟨a', b', hk1, hk2, hab, hT', hsz'⟩ := hk
      rw [hab]
      generalize orderPair f g = kk at hk1 hk2 ⊢
      have hkd : DenotesLC st.store [kk.1, kk.2] [a', b'] := DenotesLC.two hk1 hk2
      simp only [query]
      split
      · rename_i r hr
        have hent := hinv.2 _ _ (pok.get_mem _ _ _ _ hr)
        refine ⟨StOK.tickd hinv, 0, by omega, .ret ?_⟩
        exact EntryOKC.hit (es := [kk.1, kk.2]) hent hkd (specC_opTag op a' b')
      · refine ⟨StOK.tickd hinv, ?_⟩
        have hpa := size_pos a'.n
        have hpb := size_pos b'.n
        simp only [Edge.size] at hsz'
        cases k with
        | zero => omega
        | succ k' =>
          refine ⟨2 * W k' + 7, by simp only [W] at hn; omega, ?_⟩
          exact .miss ⟨a', b', hk1, hk2, hT', rfl, by simp only [Edge.size]; omega, rfl⟩
            (Nat.le_refl _)


theorem entry_ok_ite {p : Policy} (pok : p.OK) {st : StC} (hinv : InvC st)
    {f g h : EdgeC} {a b c : Edge} {k n : Nat} (d : Nat) (hf : DenotesC st.store f a)
    (hg : DenotesC st.store g b) (hh : DenotesC st.store h c)
    (hsz : a.size + b.size + c.size ≤ k) (hn : W k ≤ n) :
    StepOK p st ((Call.ite f g h).entry p st d) (applyIte a b c) n := by
  have hu := hinv.1
  have igh := denN_eq_iff hu hg.2 hh.2
  have ifg := denN_eq_iff hu hf.2 hg.2
  have ifh := denN_eq_iff hu hf.2 hh.2
  have hsa := size_pos a.n
  have hsb := size_pos b.n
  have hsc := size_pos c.n
  have hna : (applyNot a).size = a.size := rfl
  have hnb : (applyNot b).size = b.size := rfl
  have hnc : (applyNot c).size = c.size := rfl
  simp only [Edge.size] at hsz hna hnb hnc
  cases k with
  | zero => omega
  | succ k' =>
  have hW := W_pos k'
  simp only [W] at hn
  have callOK : ∀ (op : BOp) (x y : EdgeC) (X Y : Edge), DenotesC st.store x X →
      DenotesC st.store y Y → X.size + Y.size ≤ k' →
      StepOK p st (none, .call d (.bin op x y)) (applyBin op X Y) n := by
    intro op x y X Y hx hy hle
    exact ⟨StOK.refl hinv, W k', by omega, .call ⟨X, Y, hx, hy, rfl, hle⟩ (Nat.le_refl _)⟩
  have negOK : ∀ (op : BOp) (x y : EdgeC) (X Y : Edge), DenotesC st.store x X →
      DenotesC st.store y Y → X.size + Y.size ≤ k' →
      StepOK p st (none, .neg (.call d (.bin op x y))) (applyNot (applyBin op X Y)) n := by
    intro op x y X Y hx hy hle
    exact ⟨StOK.refl hinv, W k' + 1, by omega,
      .neg rfl (.call ⟨X, Y, hx, hy, rfl, hle⟩ (Nat.le_refl _)) (Nat.le_refl _)⟩
  have retOK : ∀ (e : EdgeC) (T : Edge), DenotesC st.store e T →
      StepOK p st (none, .ret e) T n := by
    intro e T he
    exact ⟨StOK.refl hinv, 0, by omega, .ret he⟩
  simp only [Call.entry]
  by_cases h1 : g.tgt = h.tgt
  · have h1' : b.n = c.n := igh.mp h1
    simp only [h1, if_true]
    by_cases h2 : g.neg = h.neg
    · have h2' : b.neg = c.neg := by rw [← hg.1, ← hh.1]; exact h2
      simp only [h2, if_true]
      rw [applyIte_gh_same h1' h2']
      exact retOK _ _ hg
    · have h2' : ¬ b.neg = c.neg := by rw [← hg.1, ← hh.1]; exact h2
      simp only [h2, if_false]
      rw [applyIte_gh_diff h1' h2']
      exact negOK .xor _ _ _ _ hf hg (by simp only [Edge.size]; omega)
  · have h1' : ¬ b.n = c.n := fun e => h1 (igh.mpr e)
    simp only [h1, if_false]
    by_cases h3 : f.tgt = g.tgt
    · have h3' : a.n = b.n := ifg.mp h3
      simp only [h3, if_true]
      by_cases h4 : f.neg = g.neg
      · have h4' : a.neg = b.neg := by rw [← hf.1, ← hg.1]; exact h4
        simp only [h4, if_true]
        rw [applyIte_fg_same h1' h3' h4']
        exact negOK .and _ _ _ _ hf.not hh.not (by simp only [Edge.size] at *; omega)
      · have h4' : ¬ a.neg = b.neg := by rw [← hf.1, ← hg.1]; exact h4
        simp only [h4, if_false]
        rw [applyIte_fg_diff h1' h3' h4']
        exact callOK .and _ _ _ _ hf.not hh (by simp only [Edge.size] at *; omega)
    · have h3' : ¬ a.n = b.n := fun e => h3 (ifg.mpr e)
      simp only [h3, if_false]
      by_cases h5 : f.tgt = h.tgt
      · have h5' : a.n = c.n := ifh.mp h5
        simp only [h5, if_true]
        by_cases h6 : f.neg = h.neg
        · have h6' : a.neg = c.neg := by rw [← hf.1, ← hh.1]; exact h6
          simp only [h6, if_true]
          rw [applyIte_fh_same h1' h3' h5' h6']
          exact callOK .and _ _ _ _ hf hg (by simp only [Edge.size]; omega)
        · have h6' : ¬ a.neg = c.neg := by rw [← hf.1, ← hh.1]; exact h6
          simp only [h6, if_false]
          rw [applyIte_fh_diff h1' h3' h5' h6']
          exact negOK .and _ _ _ _ hf hg.not (by simp only [Edge.size] at *; omega)
      · have h5' : ¬ a.n = c.n := fun e => h5 (ifh.mpr e)
        simp only [h5, if_false]
        obtain ⟨fn, ft⟩ := f
        obtain ⟨gn, gt⟩ := g
        obtain ⟨hn', ht⟩ := h
        obtain ⟨an, a⟩ := a
        obtain ⟨bn, b⟩ := b
        obtain ⟨cn, c⟩ := c
        obtain ⟨ef, hf2⟩ := hf
        obtain ⟨eg, hg2⟩ := hg
        obtain ⟨eh, hh2⟩ := hh
        simp only at ef eg eh hf2 hg2 hh2 h1 h3 h5 h1' h3' h5'
        subst ef eg eh
        cases hf2 with
        | term =>
          simp only
          rw [applyIte_ftop h1' h3' h5']
          cases fn
          · exact retOK _ _ ⟨rfl, hg2⟩
          · exact retOK _ _ ⟨rfl, hh2⟩
        | @inner i l t en e tt te hi hft hfe =>
          have hdf : DenotesC st.store ⟨fn, .inner i⟩ ⟨fn, .node l tt en te⟩ :=
            ⟨rfl, .inner hi hft hfe⟩
          cases hg2 with
          | term =>
            cases hh2 with
            | term => exact absurd rfl h1
            | @inner k l'' t'' en'' e'' tt'' te'' hk hht hhe =>
              have hdh : DenotesC st.store ⟨hn', .inner k⟩ ⟨hn', .node l'' tt'' en'' te''⟩ :=
                ⟨rfl, .inner hk hht hhe⟩
              simp only
              rw [applyIte_gtop h5']
              cases gn
              · simp only [if_true]
                exact negOK .and _ _ _ _ hdf.not hdh.not (by simp only [Edge.size] at *; omega)
              · simp only [Bool.true_eq_false, if_false]
                exact callOK .and _ _ _ _ hdf.not hdh (by simp only [Edge.size] at *; omega)
          | @inner j l' t' en' e' tt' te' hj hgt hge =>
            have hdg : DenotesC st.store ⟨gn, .inner j⟩ ⟨gn, .node l' tt' en' te'⟩ :=
              ⟨rfl, .inner hj hgt hge⟩
            cases hh2 with
            | term =>
              simp only
              rw [applyIte_htop (g := ⟨gn, .node l' tt' en' te'⟩) (by simp) h3']
              cases hn'
              · simp only [if_true]
                exact negOK .and _ _ _ _ hdf hdg.not (by simp only [Edge.size] at *; omega)
              · simp only [Bool.true_eq_false, if_false]
                exact callOK .and _ _ _ _ hdf hdg (by simp only [Edge.size] at *; omega)
            | @inner k l'' t'' en'' e'' tt'' te'' hk hht hhe =>
              have hdh : DenotesC st.store ⟨hn', .inner k⟩ ⟨hn', .node l'' tt'' en'' te''⟩ :=
                ⟨rfl, .inner hk hht hhe⟩
              simp only [query]
              split
              · rename_i r hr
                have hent := hinv.2 _ _ (pok.get_mem _ _ _ _ hr)
                refine ⟨StOK.tickd hinv, 0, by omega, .ret ?_⟩
                exact EntryOKC.hit (es := [⟨fn, .inner i⟩, ⟨gn, .inner j⟩, ⟨hn', .inner k⟩]) hent
                  (DenotesLC.three hdf hdg hdh) rfl
              · refine ⟨StOK.tickd hinv, 2 * W k' + 7, by omega, ?_⟩
                exact .miss ⟨_, _, _, hdf, hdg, hdh, h1', h3', h5', by simp, by simp, by simp, rfl,
                  by simp only [Edge.size]; omega, rfl⟩ (Nat.le_refl _)

theorem entry_ok {p : Policy} (pok : p.OK) {st : StC} (hinv : InvC st) {c : Call} {T : Edge}
    {k n : Nat} (d : Nat) (hc : CallSpec st.store c T k) (hn : W k ≤ n) :
    StepOK p st (c.entry p st d) T n := by
  cases c with
  | bin op f g =>
    obtain ⟨a, b, hf, hg, hT, hsz⟩ := hc
    subst hT
    exact entry_ok_bin pok hinv d hf hg hsz hn
  | ite f g h =>
    obtain ⟨a, b, c, hf, hg, hh, hT, hsz⟩ := hc
    subst hT
    exact entry_ok_ite pok hinv d hf hg hh hsz hn

theorem fork_ok {s : StoreC} {d : Nat} {fr : Frame} {c1 c0 : Call} {T T1 T0 : Edge} {k : Nat}
    (hT : T = mk fr.lvl T1 T0) (hk : KeyOK s fr.key T) (h1 : CallSpec s c1 T1 k)
    (h0 : CallSpec s c0 T0 k) : TaskOK s (fork d fr c1 c0) T (2 * W k + 4) := by
  cases d with
  | zero => exact .seq1 hT hk h0 (.call h1 (Nat.le_refl _)) (by omega)
  | succ d => exact .par hT hk (.call h1 (Nat.le_refl _)) (.call h0 (Nat.le_refl _)) (by omega)

theorem expand_ok {s : StoreC} {c : Call} {key : Key} {T : Edge} {k : Nat} (d : Nat)
    (hm : MissSpec s c key T k) : TaskOK s (c.expand s d key) T (2 * W k + 4) := by
  cases c with
  | bin op f g =>
    obtain ⟨a, b, hf, hg, hT, hTe, hsz, hkey⟩ := hm
    obtain ⟨an, lf, ft, fen, fe, bn, lg, gt, gen, ge, ha, hb, sz1, sz0⟩ := cof_sizes hT hsz
    subst ha hb
    simp only [Call.expand]
    rw [level?_denotes hf, level?_denotes hg]
    simp only
    refine fork_ok
      (T1 := applyBin op (tcofT (min lf lg) ⟨an, .node lf ft fen fe⟩)
        (tcofT (min lf lg) ⟨bn, .node lg gt gen ge⟩))
      (T0 := applyBin op (tcofE (min lf lg) ⟨an, .node lf ft fen fe⟩)
        (tcofE (min lf lg) ⟨bn, .node lg gt gen ge⟩)) ?_ ?_ ?_ ?_
    · rw [hTe, applyBin_nodes hT]
    · subst hkey
      refine ⟨[f, g], _, rfl, DenotesLC.two hf hg, ?_⟩
      show specC (opTag op) _ = _
      rw [specC_opTag, hTe]
    · exact ⟨_, _, cofT_denotes _ hf, cofT_denotes _ hg, rfl, sz1⟩
    · exact ⟨_, _, cofE_denotes _ hf, cofE_denotes _ hg, rfl, sz0⟩
  | ite f g h =>
    obtain ⟨a, b, c, hf, hg, hh, h1', h3', h5', na, nb, nc, hTe, hsz, hkey⟩ := hm
    obtain ⟨an, a⟩ := a
    obtain ⟨bn, b⟩ := b
    obtain ⟨cn, c⟩ := c
    cases a with
    | top => exact absurd rfl na
    | node l tt en te =>
    cases b with
    | top => exact absurd rfl nb
    | node l' tt' en' te' =>
    cases c with
    | top => exact absurd rfl nc
    | node l'' tt'' en'' te'' =>
    simp only at h1' h3' h5'
    simp only [Call.expand]
    rw [level?_denotes hf, level?_denotes hg, level?_denotes hh]
    simp only
    generalize hl : min (min l l') l'' = m
    have hmin : m = l ∨ m = l' ∨ m = l'' := by omega
    have ha1 := tcofT_size_le m ⟨an, .node l tt en te⟩
    have hb1 := tcofT_size_le m ⟨bn, .node l' tt' en' te'⟩
    have hc1 := tcofT_size_le m ⟨cn, .node l'' tt'' en'' te''⟩
    have ha0 := tcofE_size_le m ⟨an, .node l tt en te⟩
    have hb0 := tcofE_size_le m ⟨bn, .node l' tt' en' te'⟩
    have hc0 := tcofE_size_le m ⟨cn, .node l'' tt'' en'' te''⟩
    have sz : (tcofT m ⟨an, .node l tt en te⟩).size +
        (tcofT m ⟨bn, .node l' tt' en' te'⟩).size +
        (tcofT m ⟨cn, .node l'' tt'' en'' te''⟩).size ≤ k ∧
        (tcofE m ⟨an, .node l tt en te⟩).size +
        (tcofE m ⟨bn, .node l' tt' en' te'⟩).size +
        (tcofE m ⟨cn, .node l'' tt'' en'' te''⟩).size ≤ k := by
      simp only [Edge.size] at ha1 hb1 hc1 ha0 hb0 hc0 hsz ⊢
      rcases hmin with h | h | h <;> subst h
      · have h1 := tcofT_size_lt m an en tt te
        have h2 := tcofE_size_lt m an en tt te
        simp only [Edge.size] at h1 h2; omega
      · have h1 := tcofT_size_lt m bn en' tt' te'
        have h2 := tcofE_size_lt m bn en' tt' te'
        simp only [Edge.size] at h1 h2; omega
      · have h1 := tcofT_size_lt m cn en'' tt'' te''
        have h2 := tcofE_size_lt m cn en'' tt'' te''
        simp only [Edge.size] at h1 h2; omega
    refine fork_ok
      (T1 := applyIte (tcofT m ⟨an, .node l tt en te⟩) (tcofT m ⟨bn, .node l' tt' en' te'⟩)
        (tcofT m ⟨cn, .node l'' tt'' en'' te''⟩))
      (T0 := applyIte (tcofE m ⟨an, .node l tt en te⟩) (tcofE m ⟨bn, .node l' tt' en' te'⟩)
        (tcofE m ⟨cn, .node l'' tt'' en'' te''⟩)) ?_ ?_ ?_ ?_
    · rw [hTe, applyIte_rec h1' h3' h5', hl]
    · subst hkey
      refine ⟨[f, g, h], _, rfl, DenotesLC.three hf hg hh, ?_⟩
      show some (applyIte _ _ _) = _
      rw [hTe]
    · exact ⟨_, _, _, cofT_denotes _ hf, cofT_denotes _ hg, cofT_denotes _ hh, rfl, sz.1⟩
    · exact ⟨_, _, _, cofE_denotes _ hf, cofE_denotes _ hg, cofE_denotes _ hh, rfl, sz.2⟩

theorem reduce_ok {p : Policy} {st : StC} (hinv : InvC st) {fr : Frame} {r1 r0 : EdgeC}
    {T T1 T0 : Edge} {n : Nat} (hT : T = mk fr.lvl T1 T0) (hk : KeyOK st.store fr.key T)
    (h1 : DenotesC st.store r1 T1) (h0 : DenotesC st.store r0 T0) (hn : 2 ≤ n) :
    StepOK p st (reduceOut st fr r1 r0) T n := by
  refine ⟨StOK.mkNode hinv _ _ _ p, 1, by omega, ?_⟩
  subst hT
  exact .made (hk.mono (mkNodeC_le _ _ _ _))
    (mkNodeC_denotes st.store fr.lvl r1 r0 T1 T0 h1 h0 hinv.1) (Nat.le_refl _)

/-! ## every step of a task keeps everything -/

theorem pickLeft_true {path : List Bool} {t1 t0 : Task} (h : pickLeft path t1 t0 = true) :
    t1.ret? = none := by
  unfold pickLeft at h
  split at h <;> simp_all

theorem pickLeft_false {path : List Bool} {t1 t0 : Task} (h : pickLeft path t1 t0 = false)
    (hb : ¬ (∃ r1 r0, t1.ret? = some r1 ∧ t0.ret? = some r0)) : t0.ret? = none := by
  unfold pickLeft at h
  split at h
  · rename_i r1 h1
    cases h0 : t0.ret? with
    | none => rfl
    | some r0 => exact absurd ⟨_, _, h1, h0⟩ hb
  · cases h
  · assumption

theorem Task.step_ok {p : Policy} (pok : p.OK) {st : StC} (hinv : InvC st) {t : Task} {T : Edge}
    {n : Nat} (h : TaskOK st.store t T n) :
    ∀ (path : List Bool), t.ret? = none → StepOK p st (t.step p st path) T n := by
  induction h with
  | ret h => intro _ hr; simp [Task.ret?] at hr
  | call hc hn => intro path _; exact entry_ok pok hinv _ hc hn
  | @miss d c key T k n hm hn =>
    intro path _
    exact ⟨StOK.refl hinv, 2 * W k + 4, by omega, expand_ok d hm⟩
  | @seq1 fr c0 t1 T T1 T0 k0 n1 n hT hk hc h1 hn ih =>
    intro path _
    simp only [Task.step]
    cases hr : t1.ret? with
    | some r1 =>
      simp only
      refine ⟨StOK.refl hinv, W k0 + 3, by omega, ?_⟩
      exact .seq0 hT hk (h1.ret_den hr) (.call hc (Nat.le_refl _)) (Nat.le_refl _)
    | none =>
      simp only
      obtain ⟨hst, n', hlt, hok⟩ := ih path hr
      exact ⟨hst, n' + W k0 + 4, by omega,
        .seq1 hT (hk.mono hst.le) (hc.mono hst.le) hok (Nat.le_refl _)⟩
  | @seq0 fr r1 t0 T T1 T0 n0 n hT hk hr1 h0 hn ih =>
    intro path _
    simp only [Task.step]
    cases hr : t0.ret? with
    | some r0 =>
      simp only
      exact reduce_ok hinv hT hk hr1 (h0.ret_den hr) (by omega)
    | none =>
      simp only
      obtain ⟨hst, n', hlt, hok⟩ := ih path hr
      exact ⟨hst, n' + 3, by omega,
        .seq0 hT (hk.mono hst.le) (hr1.mono hst.le) hok (Nat.le_refl _)⟩
  | @par fr t1 t0 T T1 T0 n1 n0 n hT hk h1 h0 hn ih1 ih0 =>
    intro path _
    by_cases hb : ∃ r1 r0, t1.ret? = some r1 ∧ t0.ret? = some r0
    · obtain ⟨r1, r0, e1, e0⟩ := hb
      simp only [Task.step, e1, e0]
      exact reduce_ok hinv hT hk (h1.ret_den e1) (h0.ret_den e0) (by omega)
    · have hstep : Task.step p st (.par fr t1 t0) path =
          if pickLeft path t1 t0 then
            ((t1.step p st path.tail).1, .par fr (t1.step p st path.tail).2 t0)
          else ((t0.step p st path.tail).1, .par fr t1 (t0.step p st path.tail).2) := by
        simp only [Task.step]
        split
        · rename_i r1 r0 e1 e0; exact absurd ⟨_, _, e1, e0⟩ hb
        · rfl
      rw [hstep]
      cases hp : pickLeft path t1 t0 with
      | true =>
        simp only [if_true]
        obtain ⟨hst, n', hlt, hok⟩ := ih1 path.tail (pickLeft_true hp)
        exact ⟨hst, n' + n0 + 3, by omega,
          .par hT (hk.mono hst.le) hok (h0.mono hst.le) (Nat.le_refl _)⟩
      | false =>
        simp only [Bool.false_eq_true, if_false]
        obtain ⟨hst, n', hlt, hok⟩ := ih0 path.tail (pickLeft_false hp hb)
        exact ⟨hst, n1 + n' + 3, by omega,
          .par hT (hk.mono hst.le) (h1.mono hst.le) hok (Nat.le_refl _)⟩
  | @made key r T n hk hr hn =>
    intro path _
    simp only [Task.step]
    exact ⟨StOK.add pok hinv hk hr, 0, by omega, .ret hr⟩
  | @neg t T T' n' n hT h hn ih =>
    intro path _
    simp only [Task.step]
    cases hr : t.ret? with
    | some r =>
      simp only
      refine ⟨StOK.refl hinv, 0, by omega, .ret ?_⟩
      rw [hT]; exact (h.ret_den hr).not
    | none =>
      simp only
      obtain ⟨hst, n'', hlt, hok⟩ := ih path hr
      exact ⟨hst, n'' + 1, by omega, .neg hT hok (Nat.le_refl _)⟩

end OxiddModel.Bcdd.Threads
