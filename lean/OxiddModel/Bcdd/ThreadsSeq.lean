import OxiddModel.Bcdd.ThreadsRun

/-!
# A task running alone with the sequential recursor *is* `binS` / `applyOpS`

The program text of the machine (`Threads.lean`) is meant to be that of the store-level model
`binS` (`ApplyS.lean`), which the store-level streams tie to the real code. This file proves it:
a task `call 0 (bin op f g)` that is the only one scheduled goes, step by step, through exactly
the shared states of `binS p op fuel st f g` and ends in `ret` of exactly its result edge — same
store (slot for slot), same cache, same time stamp, same edge. Likewise `startOp 0 op f g` and
`applyOpS`. So the interleaving theorems of `PropertiesC07T.lean` are statements about a machine
whose sequential instance coincides with the model that is compared with the code.
-/
namespace OxiddModel.Bcdd.Threads
open OxiddModel.Bcdd OxiddModel.Bcdd.CNode OxiddModel.Bcdd.Refine
open OxiddModel.Bdd.Refine (Policy OpTag Key Cache)

/-- one step of a task running alone (all `par` choices: default) -/
def step1 (p : Policy) (x : Task × StC) : Task × StC :=
  ((x.1.step p x.2 []).2, runOpt p (x.1.step p x.2 []).1 x.2)

/-- finitely many steps of an unfinished task running alone -/
inductive Steps (p : Policy) : Task × StC → Task × StC → Prop
  | refl (x) : Steps p x x
  | step {x y} : x.1.ret? = none → Steps p (step1 p x) y → Steps p x y

theorem Steps.trans {p : Policy} {x y z : Task × StC} (h1 : Steps p x y) (h2 : Steps p y z) :
    Steps p x z := by
  induction h1 with
  | refl => exact h2
  | step hr _ ih => exact .step hr (ih h2)

theorem Steps.one {p : Policy} {x : Task × StC} (hr : x.1.ret? = none) : Steps p x (step1 p x) :=
  .step hr (.refl _)

/-- steps of the then-branch are steps of the `seq1` frame -/
theorem Steps.seq1 {p : Policy} (fr : Frame) (c0 : Call) {x y : Task × StC} (h : Steps p x y) :
    Steps p (.seq1 fr c0 x.1, x.2) (.seq1 fr c0 y.1, y.2) := by
  induction h with
  | refl => exact .refl _
  | @step x y hr _ ih =>
    refine .step rfl ?_
    have : step1 p (.seq1 fr c0 x.1, x.2) = (.seq1 fr c0 (step1 p x).1, (step1 p x).2) := by
      simp only [step1, Task.step, hr]
    rw [this]; exact ih

theorem Steps.seq0 {p : Policy} (fr : Frame) (r1 : EdgeC) {x y : Task × StC} (h : Steps p x y) :
    Steps p (.seq0 fr r1 x.1, x.2) (.seq0 fr r1 y.1, y.2) := by
  induction h with
  | refl => exact .refl _
  | @step x y hr _ ih =>
    refine .step rfl ?_
    have : step1 p (.seq0 fr r1 x.1, x.2) = (.seq0 fr r1 (step1 p x).1, (step1 p x).2) := by
      simp only [step1, Task.step, hr]
    rw [this]; exact ih

theorem Steps.neg {p : Policy} {x y : Task × StC} (h : Steps p x y) :
    Steps p (.neg x.1, x.2) (.neg y.1, y.2) := by
  induction h with
  | refl => exact .refl _
  | @step x y hr _ ih =>
    refine .step rfl ?_
    have : step1 p (.neg x.1, x.2) = (.neg (step1 p x).1, (step1 p x).2) := by
      simp only [step1, Task.step, hr]
    rw [this]; exact ih

/-- **the machine's sequential instance is `binS`** -/
theorem steps_binS {p : Policy} (pok : p.OK) (op : BOp) (fuel : Nat) :
    ∀ (st : StC) (f g : EdgeC) (a b : Edge),
    InvC st → DenotesC st.store f a → DenotesC st.store g b → a.size + b.size ≤ fuel →
    Steps p (.call 0 (.bin op f g), st) (.ret (binS p op fuel st f g).2, (binS p op fuel st f g).1) := by
  induction fuel with
  | zero =>
    intro st f g a b _ _ _ hsz
    have := size_pos a.n
    simp only [Edge.size] at hsz
    omega
  | succ fuel ih =>
    intro st f g a b hinv hf hg hsz
    have hc := terminalOpS_corr op hinv.1 hf hg
    cases hS : terminalOpS op f g with
    | done e =>
      have e1 : step1 p (.call 0 (.bin op f g), st) = (.ret e, st) := by
        simp only [step1, Task.step, Call.entry, hS, runOpt]
      have e2 : binS p op (fuel + 1) st f g = (st, e) := by simp only [binS, hS]
      rw [e2, ← e1]; exact Steps.one rfl
    | nodes =>
      cases hT : terminalOp op a b with
      | done t => rw [hS, hT] at hc; exact hc.elim
      | nodes =>
        have hk : ∃ a' b', DenotesC st.store (orderPair f g).1 a' ∧
            DenotesC st.store (orderPair f g).2 b' ∧
            terminalOp op a' b' = .nodes ∧ a'.size + b'.size ≤ fuel + 1 := by
          rcases orderPair_cases f g with h | h <;> rw [h]
          · exact ⟨a, b, hf, hg, hT, hsz⟩
          · exact ⟨b, a, hg, hf, by rw [terminalOp_comm]; exact hT, by omega⟩
        obtain ⟨a', b', hk1, hk2, hT', hsz'⟩ := hk
        cases hget : p.get st.tick st.cache (keyOf op (orderPair f g).1 (orderPair f g).2) with
        | some r =>
          have e1 : step1 p (.call 0 (.bin op f g), st) = (.ret (dec r), st.tickd) := by
            simp only [step1, Task.step, Call.entry, hS, query, hget, runOpt, Act.run]
          have e2 : binS p op (fuel + 1) st f g = (st.tickd, dec r) := by
            simp only [binS, hS, hget]
          rw [e2, ← e1]; exact Steps.one rfl
        | none =>
          obtain ⟨an, lf, ft, fen, fe, bn, lg, gt, gen, ge, ha', hb', sz1, sz0⟩ := cof_sizes hT' hsz'
          subst ha' hb'
          have hl1 := level?_denotes hk1
          have hl2 := level?_denotes hk2
          generalize hkk : orderPair f g = k at hk1 hk2 hget hl1 hl2
          -- the two recursive runs of `binS`
          have p1 := binS_spec pok op fuel st.tickd _ _ _ _ hinv.tickd
            (cofT_denotes (min lf lg) hk1) (cofT_denotes (min lf lg) hk2) sz1
          have s1 := ih st.tickd _ _ _ _ hinv.tickd
            (cofT_denotes (min lf lg) hk1) (cofT_denotes (min lf lg) hk2) sz1
          have s0 := ih _ _ _ _ _ p1.inv ((cofE_denotes (min lf lg) hk1).mono p1.le)
            ((cofE_denotes (min lf lg) hk2).mono p1.le) sz0
          simp only [StC.tickd_store] at s1 s0
          have e2 : binS p op (fuel + 1) st f g =
              finishC p (binS p op fuel (binS p op fuel st.tickd (st.store.cofT (min lf lg) k.1)
                  (st.store.cofT (min lf lg) k.2)).1 (st.store.cofE (min lf lg) k.1)
                  (st.store.cofE (min lf lg) k.2)).1 (keyOf op k.1 k.2) (min lf lg)
                (binS p op fuel st.tickd (st.store.cofT (min lf lg) k.1)
                  (st.store.cofT (min lf lg) k.2)).2
                (binS p op fuel (binS p op fuel st.tickd (st.store.cofT (min lf lg) k.1)
                  (st.store.cofT (min lf lg) k.2)).1 (st.store.cofE (min lf lg) k.1)
                  (st.store.cofE (min lf lg) k.2)).2 := by
            simp only [binS, hS, hkk, hget, hl1, hl2]
          rw [e2]
          generalize binS p op fuel st.tickd (st.store.cofT (min lf lg) k.1)
            (st.store.cofT (min lf lg) k.2) = R1 at s1 s0 ⊢
          generalize binS p op fuel R1.1 (st.store.cofE (min lf lg) k.1)
            (st.store.cofE (min lf lg) k.2) = R0 at s0 ⊢
          -- entry: the miss
          have e1 : step1 p (.call 0 (.bin op f g), st) =
              (.miss 0 (.bin op k.1 k.2) (keyOf op k.1 k.2), st.tickd) := by
            simp only [step1, Task.step, Call.entry, hS, query, hkk, hget, runOpt, Act.run]
          refine .step rfl ?_
          rw [e1]
          -- expansion
          have e3 : step1 p (.miss 0 (.bin op k.1 k.2) (keyOf op k.1 k.2), st.tickd) =
              (.seq1 ⟨keyOf op k.1 k.2, min lf lg⟩
                (.bin op (st.store.cofE (min lf lg) k.1) (st.store.cofE (min lf lg) k.2))
                (.call 0 (.bin op (st.store.cofT (min lf lg) k.1) (st.store.cofT (min lf lg) k.2))),
               st.tickd) := by
            simp only [step1, Task.step, Call.expand, StC.tickd_store, hl1, hl2, fork, runOpt]
          refine .step rfl ?_
          rw [e3]
          refine (Steps.seq1 _ _ s1).trans ?_
          refine .step rfl ?_
          have e4 : step1 p (.seq1 ⟨keyOf op k.1 k.2, min lf lg⟩
                (.bin op (st.store.cofE (min lf lg) k.1) (st.store.cofE (min lf lg) k.2))
                (.ret R1.2), R1.1) =
              (.seq0 ⟨keyOf op k.1 k.2, min lf lg⟩ R1.2
                (.call 0 (.bin op (st.store.cofE (min lf lg) k.1) (st.store.cofE (min lf lg) k.2))),
               R1.1) := by
            simp only [step1, Task.step, Task.ret?, runOpt]
          rw [e4]
          refine (Steps.seq0 _ _ s0).trans ?_
          refine .step rfl ?_
          have e5 : step1 p (.seq0 ⟨keyOf op k.1 k.2, min lf lg⟩ R1.2 (.ret R0.2), R0.1) =
              (.made (keyOf op k.1 k.2) (R0.1.store.mkNodeC (min lf lg) R1.2 R0.2).2,
               { R0.1 with store := (R0.1.store.mkNodeC (min lf lg) R1.2 R0.2).1 }) := by
            simp only [step1, Task.step, Task.ret?, reduceOut, runOpt, Act.run]
          rw [e5]
          refine .step rfl ?_
          have e6 : step1 p (.made (keyOf op k.1 k.2) (R0.1.store.mkNodeC (min lf lg) R1.2 R0.2).2,
               { R0.1 with store := (R0.1.store.mkNodeC (min lf lg) R1.2 R0.2).1 }) =
              (.ret (finishC p R0.1 (keyOf op k.1 k.2) (min lf lg) R1.2 R0.2).2,
               (finishC p R0.1 (keyOf op k.1 k.2) (min lf lg) R1.2 R0.2).1) := by
            simp only [step1, Task.step, runOpt, Act.run, finishC]
          rw [e6]
          exact .refl _

/-- the eight connectives: `startOp 0` is `applyOpS` -/
theorem steps_applyOpS {p : Policy} (pok : p.OK) (op : Op) (fuel : Nat) (st : StC) (f g : EdgeC)
    (a b : Edge) (hinv : InvC st) (hf : DenotesC st.store f a) (hg : DenotesC st.store g b)
    (hsz : a.size + b.size ≤ fuel) :
    Steps p (startOp 0 op f g, st)
      (.ret (applyOpS p op fuel st f g).2, (applyOpS p op fuel st f g).1) := by
  have hsa : (applyNot a).size = a.size := rfl
  have hsb : (applyNot b).size = b.size := rfl
  have negret : ∀ (r : EdgeC) (s : StC), Steps p (.neg (.ret r), s) (.ret (notE r), s) := by
    intro r s
    have : step1 p (.neg (.ret r), s) = (.ret (notE r), s) := by
      simp only [step1, Task.step, Task.ret?, runOpt]
    rw [← this]; exact Steps.one rfl
  cases op <;> simp only [startOp, applyOpS, andS, xorS]
  · exact steps_binS pok .and fuel st f g a b hinv hf hg hsz
  · exact (Steps.neg (steps_binS pok .and fuel st _ _ _ _ hinv hf.not hg.not (by omega))).trans
      (negret _ _)
  · exact (Steps.neg (steps_binS pok .and fuel st f g a b hinv hf hg hsz)).trans (negret _ _)
  · exact steps_binS pok .and fuel st _ _ _ _ hinv hf.not hg.not (by omega)
  · exact steps_binS pok .xor fuel st f g a b hinv hf hg hsz
  · exact (Steps.neg (steps_binS pok .xor fuel st f g a b hinv hf hg hsz)).trans (negret _ _)
  · exact (Steps.neg (steps_binS pok .and fuel st _ _ _ _ hinv hf hg.not (by omega))).trans
      (negret _ _)
  · exact steps_binS pok .and fuel st _ _ _ _ hinv hf.not hg (by omega)

/-- **the machine's sequential instance of `apply_ite` is `iteS`** -/
theorem steps_iteS {p : Policy} (pok : p.OK) (fuel : Nat) :
    ∀ (st : StC) (f g h : EdgeC) (a b c : Edge),
    InvC st → DenotesC st.store f a → DenotesC st.store g b → DenotesC st.store h c →
    a.size + b.size + c.size ≤ fuel →
    Steps p (.call 0 (.ite f g h), st) (.ret (iteS p fuel st f g h).2, (iteS p fuel st f g h).1) := by
  induction fuel with
  | zero =>
    intro st f g h a b c _ _ _ _ hsz
    have := size_pos a.n
    simp only [Edge.size] at hsz
    omega
  | succ fuel ih =>
    intro st f g h a b c hinv hf hg hh hsz
    have hu := hinv.1
    have igh := denN_eq_iff hu hg.2 hh.2
    have ifg := denN_eq_iff hu hf.2 hg.2
    have ifh := denN_eq_iff hu hf.2 hh.2
    have hsa := size_pos a.n
    have hsb := size_pos b.n
    have hsc := size_pos c.n
    have hna : (applyNot a).size = a.size := rfl
    have hnb : (applyNot b).size = b.size := rfl
    have hnc : (applyNot c).size = c.size := rfl
    simp only [Edge.size] at hsz hna hnb hnc
    have negret : ∀ (r : EdgeC) (s : StC), Steps p (.neg (.ret r), s) (.ret (notE r), s) := by
      intro r s
      have : step1 p (.neg (.ret r), s) = (.ret (notE r), s) := by
        simp only [step1, Task.step, Task.ret?, runOpt]
      rw [← this]; exact Steps.one rfl
    have viaCall : ∀ (op : BOp) (x y : EdgeC) (X Y : Edge), DenotesC st.store x X →
        DenotesC st.store y Y → X.size + Y.size ≤ fuel →
        step1 p (.call 0 (.ite f g h), st) = (.call 0 (.bin op x y), st) →
        Steps p (.call 0 (.ite f g h), st)
          (.ret (binS p op fuel st x y).2, (binS p op fuel st x y).1) := by
      intro op x y X Y hx hy hle e1
      refine .step rfl ?_
      rw [e1]
      exact steps_binS pok op fuel st x y X Y hinv hx hy hle
    have viaNeg : ∀ (op : BOp) (x y : EdgeC) (X Y : Edge), DenotesC st.store x X →
        DenotesC st.store y Y → X.size + Y.size ≤ fuel →
        step1 p (.call 0 (.ite f g h), st) = (.neg (.call 0 (.bin op x y)), st) →
        Steps p (.call 0 (.ite f g h), st)
          (.ret (notE (binS p op fuel st x y).2), (binS p op fuel st x y).1) := by
      intro op x y X Y hx hy hle e1
      refine .step rfl ?_
      rw [e1]
      exact (Steps.neg (steps_binS pok op fuel st x y X Y hinv hx hy hle)).trans (negret _ _)
    by_cases h1 : g.tgt = h.tgt
    · by_cases h2 : g.neg = h.neg
      · have e1 : step1 p (.call 0 (.ite f g h), st) = (.ret g, st) := by
          simp only [step1, Task.step, Call.entry, h1, h2, if_true, runOpt]
        have e2 : iteS p (fuel + 1) st f g h = (st, g) := by
          simp only [iteS, h1, h2, if_true]
        rw [e2, ← e1]; exact Steps.one rfl
      · have e2 : iteS p (fuel + 1) st f g h =
            ((binS p .xor fuel st f g).1, notE (binS p .xor fuel st f g).2) := by
          simp only [iteS, xorS, h1, h2, if_true, if_false]
        rw [e2]
        exact viaNeg .xor f g a b hf hg (by simp only [Edge.size]; omega)
          (by simp only [step1, Task.step, Call.entry, h1, h2, if_true, if_false, runOpt])
    · by_cases h3 : f.tgt = g.tgt
      · by_cases h4 : f.neg = g.neg
        · have e2 : iteS p (fuel + 1) st f g h =
              ((binS p .and fuel st (notE f) (notE h)).1,
                notE (binS p .and fuel st (notE f) (notE h)).2) := by
            simp only [iteS, andS, h1, h3, h4, if_true, if_false]
          rw [e2]
          exact viaNeg .and _ _ _ _ hf.not hh.not (by simp only [Edge.size] at *; omega)
            (by simp only [step1, Task.step, Call.entry, h1, h3, h4, if_true, if_false, runOpt])
        · have e2 : iteS p (fuel + 1) st f g h = binS p .and fuel st (notE f) h := by
            simp only [iteS, andS, h1, h3, h4, if_true, if_false]
          rw [e2]
          exact viaCall .and _ _ _ _ hf.not hh (by simp only [Edge.size] at *; omega)
            (by simp only [step1, Task.step, Call.entry, h1, h3, h4, if_true, if_false, runOpt])
      · by_cases h5 : f.tgt = h.tgt
        · by_cases h6 : f.neg = h.neg
          · have e2 : iteS p (fuel + 1) st f g h = binS p .and fuel st f g := by
              simp only [iteS, andS]
              rw [if_neg h1, if_neg h3, if_pos h5, if_pos h6]
            rw [e2]
            exact viaCall .and _ _ _ _ hf hg (by simp only [Edge.size]; omega)
              (by simp only [step1, Task.step, Call.entry]
                  rw [if_neg h1, if_neg h3, if_pos h5, if_pos h6]; rfl)
          · have e2 : iteS p (fuel + 1) st f g h =
                ((binS p .and fuel st f (notE g)).1, notE (binS p .and fuel st f (notE g)).2) := by
              simp only [iteS, andS]
              rw [if_neg h1, if_neg h3, if_pos h5, if_neg h6]
            rw [e2]
            exact viaNeg .and _ _ _ _ hf hg.not (by simp only [Edge.size] at *; omega)
              (by simp only [step1, Task.step, Call.entry]
                  rw [if_neg h1, if_neg h3, if_pos h5, if_neg h6]; rfl)
        · have h1' : ¬ b.n = c.n := fun e => h1 (igh.mpr e)
          have h3' : ¬ a.n = b.n := fun e => h3 (ifg.mpr e)
          have h5' : ¬ a.n = c.n := fun e => h5 (ifh.mpr e)
          obtain ⟨fn, ft⟩ := f
          obtain ⟨gn, gt⟩ := g
          obtain ⟨hn', ht⟩ := h
          obtain ⟨an, a⟩ := a
          obtain ⟨bn, b⟩ := b
          obtain ⟨cn, c⟩ := c
          obtain ⟨ef, hf2⟩ := hf
          obtain ⟨eg, hg2⟩ := hg
          obtain ⟨eh, hh2⟩ := hh
          simp only at ef eg eh hf2 hg2 hh2 h1 h3 h5 h1' h3' h5'
          subst ef eg eh
          cases hf2 with
          | term =>
            have e1 : step1 p (.call 0 (.ite ⟨fn, .term⟩ ⟨gn, gt⟩ ⟨hn', ht⟩), st) =
                (.ret (if fn = false then ⟨gn, gt⟩ else ⟨hn', ht⟩), st) := by
              simp only [step1, Task.step, Call.entry, h1, h3, h5, if_false, runOpt]
            have e2 : iteS p (fuel + 1) st ⟨fn, .term⟩ ⟨gn, gt⟩ ⟨hn', ht⟩ =
                (st, if fn = false then ⟨gn, gt⟩ else ⟨hn', ht⟩) := by
              simp only [iteS, h1, h3, h5, if_false]
            rw [e2, ← e1]; exact Steps.one rfl
          | @inner i l t en e tt te hi hft hfe =>
            have hdf : DenotesC st.store ⟨fn, .inner i⟩ ⟨fn, .node l tt en te⟩ :=
              ⟨rfl, .inner hi hft hfe⟩
            cases hg2 with
            | term =>
              cases hh2 with
              | term => exact absurd rfl h1
              | @inner k l'' t'' en'' e'' tt'' te'' hk hht hhe =>
                have hdh : DenotesC st.store ⟨hn', .inner k⟩ ⟨hn', .node l'' tt'' en'' te''⟩ :=
                  ⟨rfl, .inner hk hht hhe⟩
                cases gn
                · have e2 : iteS p (fuel + 1) st ⟨fn, .inner i⟩ ⟨false, .term⟩ ⟨hn', .inner k⟩ =
                      ((binS p .and fuel st (notE ⟨fn, .inner i⟩) (notE ⟨hn', .inner k⟩)).1,
                        notE (binS p .and fuel st (notE ⟨fn, .inner i⟩)
                          (notE ⟨hn', .inner k⟩)).2) := by
                    simp only [iteS, andS, h1, h3, h5, if_true, if_false]
                  rw [e2]
                  exact viaNeg .and _ _ _ _ hdf.not hdh.not (by simp only [Edge.size] at *; omega)
                    (by simp only [step1, Task.step, Call.entry, h1, h3, h5, if_true, if_false,
                      runOpt])
                · have e2 : iteS p (fuel + 1) st ⟨fn, .inner i⟩ ⟨true, .term⟩ ⟨hn', .inner k⟩ =
                      binS p .and fuel st (notE ⟨fn, .inner i⟩) ⟨hn', .inner k⟩ := by
                    simp only [iteS, andS, h1, h3, h5, if_false, Bool.true_eq_false]
                  rw [e2]
                  exact viaCall .and _ _ _ _ hdf.not hdh (by simp only [Edge.size] at *; omega)
                    (by simp only [step1, Task.step, Call.entry, h1, h3, h5, if_false,
                      Bool.true_eq_false, runOpt])
            | @inner j l' t' en' e' tt' te' hj hgt hge =>
              have hdg : DenotesC st.store ⟨gn, .inner j⟩ ⟨gn, .node l' tt' en' te'⟩ :=
                ⟨rfl, .inner hj hgt hge⟩
              cases hh2 with
              | term =>
                cases hn'
                · have e2 : iteS p (fuel + 1) st ⟨fn, .inner i⟩ ⟨gn, .inner j⟩ ⟨false, .term⟩ =
                      ((binS p .and fuel st ⟨fn, .inner i⟩ (notE ⟨gn, .inner j⟩)).1,
                        notE (binS p .and fuel st ⟨fn, .inner i⟩ (notE ⟨gn, .inner j⟩)).2) := by
                    simp only [iteS, andS, h1, h3, h5, if_true, if_false]
                  rw [e2]
                  exact viaNeg .and _ _ _ _ hdf hdg.not (by simp only [Edge.size] at *; omega)
                    (by simp only [step1, Task.step, Call.entry, h1, h3, h5, if_true, if_false,
                      runOpt])
                · have e2 : iteS p (fuel + 1) st ⟨fn, .inner i⟩ ⟨gn, .inner j⟩ ⟨true, .term⟩ =
                      binS p .and fuel st ⟨fn, .inner i⟩ ⟨gn, .inner j⟩ := by
                    simp only [iteS, andS, h1, h3, h5, if_false, Bool.true_eq_false]
                  rw [e2]
                  exact viaCall .and _ _ _ _ hdf hdg (by simp only [Edge.size] at *; omega)
                    (by simp only [step1, Task.step, Call.entry, h1, h3, h5, if_false,
                      Bool.true_eq_false, runOpt])
              | @inner k l'' t'' en'' e'' tt'' te'' hk hht hhe =>
                have hdh : DenotesC st.store ⟨hn', .inner k⟩ ⟨hn', .node l'' tt'' en'' te''⟩ :=
                  ⟨rfl, .inner hk hht hhe⟩
                generalize hF : (⟨fn, .inner i⟩ : EdgeC) = F at hdf h1 h3 h5
                generalize hG : (⟨gn, .inner j⟩ : EdgeC) = G at hdg h1 h3 h5
                generalize hH : (⟨hn', .inner k⟩ : EdgeC) = H at hdh h1 h3 h5
                have hFt : F.tgt = .inner i := by rw [← hF]
                have hGt : G.tgt = .inner j := by rw [← hG]
                have hHt : H.tgt = .inner k := by rw [← hH]
                cases hget : p.get st.tick st.cache (.ite, [enc F, enc G, enc H]) with
                | some r =>
                  have e1 : step1 p (.call 0 (.ite F G H), st) = (.ret (dec r), st.tickd) := by
                    simp only [step1, Task.step, Call.entry, h1, h3, h5, if_false, hFt, hGt, hHt,
                      query, hget, runOpt, Act.run]
                  have e2 : iteS p (fuel + 1) st F G H = (st.tickd, dec r) := by
                    simp only [iteS, h1, h3, h5, if_false, hFt, hGt, hHt, hget]
                  rw [e2, ← e1]; exact Steps.one rfl
                | none =>
                  have hl1 := level?_denotes hdf
                  have hl2 := level?_denotes hdg
                  have hl3 := level?_denotes hdh
                  generalize hl : min (min l l') l'' = m
                  have hmin : m = l ∨ m = l' ∨ m = l'' := by omega
                  have ha1 := tcofT_size_le m ⟨fn, .node l tt en te⟩
                  have hb1 := tcofT_size_le m ⟨gn, .node l' tt' en' te'⟩
                  have hc1 := tcofT_size_le m ⟨hn', .node l'' tt'' en'' te''⟩
                  have ha0 := tcofE_size_le m ⟨fn, .node l tt en te⟩
                  have hb0 := tcofE_size_le m ⟨gn, .node l' tt' en' te'⟩
                  have hc0 := tcofE_size_le m ⟨hn', .node l'' tt'' en'' te''⟩
                  have sz : (tcofT m ⟨fn, .node l tt en te⟩).size +
                      (tcofT m ⟨gn, .node l' tt' en' te'⟩).size +
                      (tcofT m ⟨hn', .node l'' tt'' en'' te''⟩).size ≤ fuel ∧
                      (tcofE m ⟨fn, .node l tt en te⟩).size +
                      (tcofE m ⟨gn, .node l' tt' en' te'⟩).size +
                      (tcofE m ⟨hn', .node l'' tt'' en'' te''⟩).size ≤ fuel := by
                    simp only [Edge.size] at ha1 hb1 hc1 ha0 hb0 hc0 hsz ⊢
                    rcases hmin with h | h | h <;> subst h
                    · have h1 := tcofT_size_lt m fn en tt te
                      have h2 := tcofE_size_lt m fn en tt te
                      simp only [Edge.size] at h1 h2; omega
                    · have h1 := tcofT_size_lt m gn en' tt' te'
                      have h2 := tcofE_size_lt m gn en' tt' te'
                      simp only [Edge.size] at h1 h2; omega
                    · have h1 := tcofT_size_lt m hn' en'' tt'' te''
                      have h2 := tcofE_size_lt m hn' en'' tt'' te''
                      simp only [Edge.size] at h1 h2; omega
                  have p1 := iteS_spec pok fuel st.tickd _ _ _ _ _ _ hinv.tickd (cofT_denotes m hdf)
                    (cofT_denotes m hdg) (cofT_denotes m hdh) sz.1
                  have s1 := ih st.tickd _ _ _ _ _ _ hinv.tickd (cofT_denotes m hdf)
                    (cofT_denotes m hdg) (cofT_denotes m hdh) sz.1
                  have s0 := ih _ _ _ _ _ _ _ p1.inv ((cofE_denotes m hdf).mono p1.le)
                    ((cofE_denotes m hdg).mono p1.le) ((cofE_denotes m hdh).mono p1.le) sz.2
                  simp only [StC.tickd_store] at s1 s0
                  have e2 : iteS p (fuel + 1) st F G H =
                      finishC p (iteS p fuel (iteS p fuel st.tickd (st.store.cofT m F)
                          (st.store.cofT m G) (st.store.cofT m H)).1 (st.store.cofE m F)
                          (st.store.cofE m G) (st.store.cofE m H)).1 (.ite, [enc F, enc G, enc H]) m
                        (iteS p fuel st.tickd (st.store.cofT m F) (st.store.cofT m G)
                          (st.store.cofT m H)).2
                        (iteS p fuel (iteS p fuel st.tickd (st.store.cofT m F)
                          (st.store.cofT m G) (st.store.cofT m H)).1 (st.store.cofE m F)
                          (st.store.cofE m G) (st.store.cofE m H)).2 := by
                    simp only [iteS, h1, h3, h5, if_false, hFt, hGt, hHt, hget, hl1, hl2, hl3, hl]
                  rw [e2]
                  generalize iteS p fuel st.tickd (st.store.cofT m F) (st.store.cofT m G)
                    (st.store.cofT m H) = R1 at s1 s0 ⊢
                  generalize iteS p fuel R1.1 (st.store.cofE m F) (st.store.cofE m G)
                    (st.store.cofE m H) = R0 at s0 ⊢
                  have e1 : step1 p (.call 0 (.ite F G H), st) =
                      (.miss 0 (.ite F G H) (.ite, [enc F, enc G, enc H]), st.tickd) := by
                    simp only [step1, Task.step, Call.entry, h1, h3, h5, if_false, hFt, hGt, hHt,
                      query, hget, runOpt, Act.run]
                  refine .step rfl ?_
                  rw [e1]
                  have e3 : step1 p (.miss 0 (.ite F G H) (.ite, [enc F, enc G, enc H]), st.tickd) =
                      (.seq1 ⟨(.ite, [enc F, enc G, enc H]), m⟩
                        (.ite (st.store.cofE m F) (st.store.cofE m G) (st.store.cofE m H))
                        (.call 0 (.ite (st.store.cofT m F) (st.store.cofT m G) (st.store.cofT m H))),
                       st.tickd) := by
                    simp only [step1, Task.step, Call.expand, StC.tickd_store, hl1, hl2, hl3, hl,
                      fork, runOpt]
                  refine .step rfl ?_
                  rw [e3]
                  refine (Steps.seq1 _ _ s1).trans ?_
                  refine .step rfl ?_
                  have e4 : step1 p (.seq1 ⟨(.ite, [enc F, enc G, enc H]), m⟩
                        (.ite (st.store.cofE m F) (st.store.cofE m G) (st.store.cofE m H))
                        (.ret R1.2), R1.1) =
                      (.seq0 ⟨(.ite, [enc F, enc G, enc H]), m⟩ R1.2
                        (.call 0 (.ite (st.store.cofE m F) (st.store.cofE m G) (st.store.cofE m H))),
                       R1.1) := by
                    simp only [step1, Task.step, Task.ret?, runOpt]
                  rw [e4]
                  refine (Steps.seq0 _ _ s0).trans ?_
                  refine .step rfl ?_
                  have e5 : step1 p (.seq0 ⟨(.ite, [enc F, enc G, enc H]), m⟩ R1.2 (.ret R0.2),
                        R0.1) =
                      (.made (.ite, [enc F, enc G, enc H]) (R0.1.store.mkNodeC m R1.2 R0.2).2,
                       { R0.1 with store := (R0.1.store.mkNodeC m R1.2 R0.2).1 }) := by
                    simp only [step1, Task.step, Task.ret?, reduceOut, runOpt, Act.run]
                  rw [e5]
                  refine .step rfl ?_
                  have e6 : step1 p (.made (.ite, [enc F, enc G, enc H])
                        (R0.1.store.mkNodeC m R1.2 R0.2).2,
                       { R0.1 with store := (R0.1.store.mkNodeC m R1.2 R0.2).1 }) =
                      (.ret (finishC p R0.1 (.ite, [enc F, enc G, enc H]) m R1.2 R0.2).2,
                       (finishC p R0.1 (.ite, [enc F, enc G, enc H]) m R1.2 R0.2).1) := by
                    simp only [step1, Task.step, runOpt, Act.run, finishC]
                  rw [e6]
                  exact .refl _

/-- `Steps` as a schedule of the machine: the one task is selected `n` times -/
theorem Steps.run {p : Policy} {x y : Task × StC} (h : Steps p x y) :
    ∃ n, Cfg.run p ⟨x.2, [x.1]⟩ (List.replicate n ⟨0, []⟩) = ⟨y.2, [y.1]⟩ ∧
      Cfg.allEnabled p ⟨x.2, [x.1]⟩ (List.replicate n ⟨0, []⟩) = true := by
  induction h with
  | refl => exact ⟨0, rfl, rfl⟩
  | @step x y hr _ ih =>
    obtain ⟨n, hn, hen⟩ := ih
    have hs : Cfg.step p ⟨x.2, [x.1]⟩ ⟨0, []⟩ = ⟨(step1 p x).2, [(step1 p x).1]⟩ := by
      simp [Cfg.step, hr, step1]
    refine ⟨n + 1, ?_, ?_⟩
    · simp only [List.replicate_succ, Cfg.run, hs]; exact hn
    · simp only [List.replicate_succ, Cfg.allEnabled, hs, Bool.and_eq_true]
      exact ⟨by simp [Cfg.enabled, hr], hen⟩

end OxiddModel.Bcdd.Threads
