import OxiddModel.Bcdd.RcSLemmas

/-!
# The out-of-memory threshold of the BCDD operators — exactly

The counted, capacity-bounded run (`binR / applyOpR / notR / iteR cap`, `Bcdd/RcS.lean`) against
the uncapped run (`binS / applyOpS / notS / iteS`, `Bcdd/ApplyS.lean`, `Bcdd/IteS.lean`):
`BothC cap s RC RS` says that the capped run only extends the store, never exceeds the capacity,
*is* the uncapped run when it succeeds (and then fits), reports the error only with a full store,
and succeeds whenever the uncapped run fits. It is proved structurally for `reduce`, the sequential
recursor, both kernels, the eight operators, `not` and `ite` — for every cache policy, cache
content, store, counters, operands and fuel, without any hypothesis.

The consequence is a *prediction*: with

  `needed := (uncapped run from st).store.count − st.store.count`

(no mention of the capacity) the capped run reports OutOfMemory **iff**
`0 < needed ∧ cap < st.store.count + needed`, i.e. in a store within its capacity iff fewer than
`needed` slots are free.

Semantic part: the final store of the uncapped run is `internE s T` for the specified result edge
`T` (`PostC.canon`), hence `needed = fresh s T` — the number of **nodes** of `T` the store does not
hold. `internE` enters the *node* of a tree edge and keeps the tag on the edge, so a complemented
result shares every node with its complement: `fresh s (¬T) = fresh s T` (`fresh_not`), and `not`
needs nothing (`neededNot_eq`).
-/
namespace OxiddModel.Bcdd.Rc
open OxiddModel.Bcdd OxiddModel.Bcdd.Refine OxiddModel.Bcdd.CNode
open OxiddModel.Bdd.Refine (Policy OpTag Key Cache)

/-! ## counting nodes -/

theorem count_alloc (s : StoreC) (n : NodeC) : (s.alloc n).1.count = s.count + 1 := by
  unfold StoreC.alloc
  split
  · rename_i i hi
    obtain ⟨hlt, heq⟩ := Array.findIdx?_eq_some_iff_findIdx_eq.mp hi
    have hnone := Array.findIdx_getElem (xs := s.nodes) (p := (· == none)) (w := by rw [heq]; exact hlt)
    simp only [heq] at hnone
    have hn : s.nodes[i] = none := beq_iff_eq.mp hnone
    simp only [StoreC.count, Array.set!_eq_setIfInBounds, Array.setIfInBounds_def, hlt, dite_true]
    rw [Array.countP_set]
    simp [hn]
  · simp [StoreC.count]

theorem count_getOrInsert (s : StoreC) (n : NodeC) :
    (s.getOrInsert n).1.count = if s.find? n = none then s.count + 1 else s.count := by
  unfold StoreC.getOrInsert
  cases hf : s.find? n with
  | none => simp [count_alloc]
  | some i => simp

/-- `reduce` allocates at most one node, and exactly one iff the children differ and the
normalised node is not in the unique table -/
theorem count_mkNodeC (s : StoreC) (l : Nat) (t e : EdgeC) :
    (s.mkNodeC l t e).1.count =
      if t ≠ e ∧ s.find? (reduceNode l t e) = none then s.count + 1 else s.count := by
  by_cases hte : t = e
  · simp [StoreC.mkNodeC, hte]
  · rw [mkNodeC_eq s l t e hte]
    simp only [count_getOrInsert, ne_eq, hte, not_false_eq_true, true_and]

theorem count_mkNodeC_ge (s : StoreC) (l : Nat) (t e : EdgeC) :
    s.count ≤ (s.mkNodeC l t e).1.count := by
  rw [count_mkNodeC]; split <;> omega

/-- the run from `s` to `s'` fits into capacity `cap`: the final count is within the capacity, or
nothing was allocated at all -/
def Fits (cap : Nat) (s s' : StoreC) : Prop := s'.count ≤ cap ∨ s'.count = s.count

theorem Fits.trans {cap : Nat} {a b c : StoreC} (h1 : Fits cap a b) (h2 : Fits cap b c) :
    Fits cap a c := by
  unfold Fits at *; omega

theorem Fits.split {cap : Nat} {a b c : StoreC} (h : Fits cap a c) (h1 : a.count ≤ b.count)
    (h2 : b.count ≤ c.count) : Fits cap a b ∧ Fits cap b c := by
  unfold Fits at *; omega

theorem Fits.refl (cap : Nat) (s : StoreC) : Fits cap s s := .inr rfl

/-! ## the relation between the capped and the uncapped run -/

/-- the capped, counted run `RC` (`none` = OutOfMemory) against the uncapped run `RS`, both started
in store `s` -/
structure BothC (cap : Nat) (s : StoreC) (RC : Option EdgeC × RStC) (RS : StC × EdgeC) : Prop where
  le : s.Le RC.2.st.store
  mono : s.count ≤ RC.2.st.store.count
  bound : s.count ≤ cap → RC.2.st.store.count ≤ cap
  /-- success: the capped run *is* the uncapped run, and it fits -/
  ok : ∀ e, RC.1 = some e → RS = (RC.2.st, e) ∧ Fits cap s RC.2.st.store
  /-- error: the store is full -/
  err : RC.1 = none → cap ≤ RC.2.st.store.count
  monoS : s.count ≤ RS.1.store.count
  /-- the capped run succeeds whenever the uncapped run fits -/
  fits : Fits cap s RS.1.store → RC.1 = some RS.2 ∧ RC.2.st = RS.1

theorem BothC.pure (cap : Nat) {s : StoreC} {r' : RStC} (e : EdgeC) (hs : r'.st.store = s) :
    BothC cap s (some e, r') (r'.st, e) where
  le := hs ▸ StoreC.Le.refl _
  mono := by rw [hs]; exact Nat.le_refl _
  bound h := by rw [hs]; exact h
  ok e' h := by cases h; exact ⟨rfl, hs ▸ Fits.refl _ _⟩
  err h := by cases h
  monoS := by rw [hs]; exact Nat.le_refl _
  fits _ := ⟨rfl, rfl⟩

/-- returning a clone of an edge -/
theorem BothC.clone (cap : Nat) (r : RStC) (x : EdgeC) :
    BothC cap r.st.store (some x, cloneEdge r x) (r.st, x) := by
  have h := BothC.pure cap (s := r.st.store) (r' := cloneEdge r x) x (by rw [cloneEdge_st])
  rw [cloneEdge_st] at h
  exact h

theorem BothC.mapNot {cap : Nat} {s : StoreC} {RC : Option EdgeC × RStC} {RS : StC × EdgeC}
    (h : BothC cap s RC RS) : BothC cap s (mapNot RC) (RS.1, notE RS.2) := by
  obtain ⟨o, r'⟩ := RC
  refine ⟨h.le, h.mono, h.bound, ?_, ?_, h.monoS, ?_⟩
  · intro e he
    cases o with
    | none => simp [Rc.mapNot] at he
    | some x =>
      simp only [Rc.mapNot, Option.map_some, Option.some.injEq] at he
      subst he
      obtain ⟨h1, h2⟩ := h.ok x rfl
      exact ⟨by rw [h1]; rfl, h2⟩
  · intro he
    cases o with
    | none => exact h.err rfl
    | some x => simp [Rc.mapNot] at he
  · intro hf
    obtain ⟨h1, h2⟩ := h.fits hf
    simp only at h1 h2
    exact ⟨by simp [Rc.mapNot, h1], h2⟩

/-- `reduce(..)?` + cache add against `finishC` -/
theorem finishR_both (cap : Nat) (p : Policy) (r : RStC) (key : Key) (l : Nat) (e1 e0 : EdgeC) :
    BothC cap r.st.store (finishR cap p r key l e1 e0) (finishC p r.st key l e1 e0) := by
  have hcnt := count_mkNodeC r.st.store l e1 e0
  by_cases hte : e1 = e0
  · -- reduction rule: nothing is allocated
    have hR : finishR cap p r key l e1 e0 = (some e1,
        { dropEdge r e0 with st := ⟨r.st.store, p.add r.st.tick r.st.cache key (enc e1), r.st.tick + 1⟩ }) := by
      simp [finishR, mkNodeR, hte]
    have hS : finishC p r.st key l e1 e0 =
        (⟨r.st.store, p.add r.st.tick r.st.cache key (enc e1), r.st.tick + 1⟩, e1) := by
      simp [finishC, StoreC.mkNodeC, hte]
    rw [hR, hS]
    exact BothC.pure cap (r' := { dropEdge r e0 with
      st := ⟨r.st.store, p.add r.st.tick r.st.cache key (enc e1), r.st.tick + 1⟩ }) e1 rfl
  · have hmk := mkNodeC_eq r.st.store l e1 e0 hte
    cases hf : r.st.store.find? (reduceNode l e1 e0) with
    | some i =>
      -- unique-table hit
      have hgo : r.st.store.getOrInsert (reduceNode l e1 e0) = (r.st.store, i) := by
        simp [StoreC.getOrInsert, hf]
      have hR : finishR cap p r key l e1 e0 = (some ⟨(reduceRaw e1 e0).2.2, .inner i⟩,
          { cloneEdge (dropEdge (dropEdge r e1) e0) ⟨(reduceRaw e1 e0).2.2, .inner i⟩ with
            st := ⟨r.st.store, p.add r.st.tick r.st.cache key (enc ⟨(reduceRaw e1 e0).2.2, .inner i⟩),
              r.st.tick + 1⟩ }) := by
        simp [finishR, mkNodeR, hte, hf]
      have hS : finishC p r.st key l e1 e0 =
          (⟨r.st.store, p.add r.st.tick r.st.cache key (enc ⟨(reduceRaw e1 e0).2.2, .inner i⟩),
            r.st.tick + 1⟩, ⟨(reduceRaw e1 e0).2.2, .inner i⟩) := by
        simp [finishC, hmk, hgo]
      rw [hR, hS]
      exact BothC.pure cap (r' := { cloneEdge (dropEdge (dropEdge r e1) e0) ⟨(reduceRaw e1 e0).2.2, .inner i⟩ with
        st := ⟨r.st.store, p.add r.st.tick r.st.cache key (enc ⟨(reduceRaw e1 e0).2.2, .inner i⟩),
          r.st.tick + 1⟩ }) _ rfl
    | none =>
      have hgo : r.st.store.getOrInsert (reduceNode l e1 e0) = r.st.store.alloc (reduceNode l e1 e0) := by
        simp [StoreC.getOrInsert, hf]
      have hcS : (finishC p r.st key l e1 e0).1.store.count = r.st.store.count + 1 := by
        simp [finishC, hmk, hgo, count_alloc]
      by_cases hc : r.st.store.count < cap
      · -- allocation
        have hR : finishR cap p r key l e1 e0 =
            (some ⟨(reduceRaw e1 e0).2.2, .inner (r.st.store.alloc (reduceNode l e1 e0)).2⟩,
              { st := ⟨(r.st.store.alloc (reduceNode l e1 e0)).1,
                  p.add r.st.tick r.st.cache key
                    (enc ⟨(reduceRaw e1 e0).2.2, .inner (r.st.store.alloc (reduceNode l e1 e0)).2⟩),
                  r.st.tick + 1⟩,
                rc := Bdd.Rc.rcSet r.rc (r.st.store.alloc (reduceNode l e1 e0)).2 2 }) := by
          simp [finishR, mkNodeR, hte, hf, hc]
        have hS : finishC p r.st key l e1 e0 =
            (⟨(r.st.store.alloc (reduceNode l e1 e0)).1,
              p.add r.st.tick r.st.cache key
                (enc ⟨(reduceRaw e1 e0).2.2, .inner (r.st.store.alloc (reduceNode l e1 e0)).2⟩),
              r.st.tick + 1⟩,
             ⟨(reduceRaw e1 e0).2.2, .inner (r.st.store.alloc (reduceNode l e1 e0)).2⟩) := by
          simp [finishC, hmk, hgo]
        rw [hR, hS]
        have hca := count_alloc r.st.store (reduceNode l e1 e0)
        refine ⟨alloc_le _ _, (by simp only; omega), (fun _ => by simp only; omega), ?_, ?_,
          (by simp only; omega), fun _ => ⟨rfl, rfl⟩⟩
        · intro e he; cases he
          exact ⟨rfl, .inl (by simp only; omega)⟩
        · intro he; cases he
      · -- OutOfMemory
        have hR : finishR cap p r key l e1 e0 = (none, dropEdge (dropEdge r e1) e0) := by
          simp [finishR, mkNodeR, hte, hf, hc]
        rw [hR]
        refine ⟨(by simp only [dropEdge_st]; exact StoreC.Le.refl _), (by simp only [dropEdge_st]; omega),
          (fun h => by simp only [dropEdge_st]; exact h), ?_, ?_, (by omega), ?_⟩
        · intro e he; cases he
        · intro _; simp only [dropEdge_st]; omega
        · intro hfit
          unfold Fits at hfit
          omega

/-- the sequential recursor against the uncapped composition -/
theorem forkR_both {cap : Nat} {p : Policy} {key : Key} {l : Nat}
    {c1R c0R : RStC → Option EdgeC × RStC} {c1S c0S : StC → StC × EdgeC} {r : RStC}
    (h1 : BothC cap r.st.store (c1R r) (c1S r.st))
    (h0 : ∀ r1, BothC cap r1.st.store (c0R r1) (c0S r1.st)) :
    BothC cap r.st.store (forkR cap p key l c1R c0R r)
      (finishC p (c0S (c1S r.st).1).1 key l (c1S r.st).2 (c0S (c1S r.st).1).2) := by
  -- the uncapped side grows monotonically
  have hS1 := h1.monoS
  have hfinS : ∀ (st : StC) (a b : EdgeC), st.store.count ≤ (finishC p st key l a b).1.store.count :=
    fun st a b => count_mkNodeC_ge _ _ _ _
  cases hc1 : c1R r with
  | mk o1 r1 =>
    rw [hc1] at h1
    cases o1 with
    | none =>
      -- the then-branch fails
      have hR : forkR cap p key l c1R c0R r = (none, r1) := by simp [forkR, hc1]
      rw [hR]
      have hS0 := (h0 ⟨(c1S r.st).1, r1.rc⟩).monoS
      refine ⟨h1.le, h1.mono, h1.bound, (fun e he => by cases he), fun _ => h1.err rfl, ?_, ?_⟩
      · have := hfinS (c0S (c1S r.st).1).1 (c1S r.st).2 (c0S (c1S r.st).1).2
        simp only at hS0 ⊢
        omega
      · intro hfit
        have := hfinS (c0S (c1S r.st).1).1 (c1S r.st).2 (c0S (c1S r.st).1).2
        simp only at hS0
        obtain ⟨fa, _⟩ := hfit.split hS1 (by omega)
        have := (h1.fits fa).1
        cases this
    | some t =>
      obtain ⟨e1, f1⟩ := h1.ok t rfl
      simp only at e1 f1
      have h0' := h0 r1
      have es : (c1S r.st).1 = r1.st := by rw [e1]
      have et : (c1S r.st).2 = t := by rw [e1]
      rw [es, et]
      have hS0 := h0'.monoS
      cases hc0 : c0R r1 with
      | mk o0 r0 =>
        rw [hc0] at h0'
        cases o0 with
        | none =>
          -- the else-branch fails: the guard drops the then-result
          have hR : forkR cap p key l c1R c0R r = (none, dropEdge r0 t) := by simp [forkR, hc1, hc0]
          rw [hR]
          have hm1 := h1.mono
          have hm0 := h0'.mono
          simp only at hm1 hm0
          refine ⟨(by simp only [dropEdge_st]; exact h1.le.trans h0'.le),
            (by simp only [dropEdge_st]; omega),
            (fun b => by simp only [dropEdge_st]; exact h0'.bound (h1.bound b)),
            (fun e he => by cases he), (fun _ => by simp only [dropEdge_st]; exact h0'.err rfl), ?_, ?_⟩
          · have := hfinS (c0S r1.st).1 t (c0S r1.st).2
            omega
          · intro hfit
            have hfin := hfinS (c0S r1.st).1 t (c0S r1.st).2
            have hS1' : r.st.store.count ≤ r1.st.store.count := hm1
            obtain ⟨_, fbc⟩ := hfit.split hS1' (by omega)
            obtain ⟨fb, _⟩ := fbc.split hS0 hfin
            have := (h0'.fits fb).1
            cases this
        | some e =>
          obtain ⟨e0, f0⟩ := h0'.ok e rfl
          simp only at e0 f0
          have hR : forkR cap p key l c1R c0R r = finishR cap p r0 key l t e := by
            simp [forkR, hc1, hc0]
          rw [hR, e0]
          show BothC cap r.st.store (finishR cap p r0 key l t e) (finishC p r0.st key l t e)
          have hf := finishR_both cap p r0 key l t e
          have hm1 := h1.mono
          have hm0 := h0'.mono
          simp only at hm1 hm0
          refine ⟨h1.le.trans (h0'.le.trans hf.le), (by have := hf.mono; omega),
            (fun b => hf.bound (h0'.bound (h1.bound b))),
            (fun x hx => ⟨(hf.ok x hx).1, f1.trans (f0.trans (hf.ok x hx).2)⟩), hf.err,
            (by have := hf.monoS; omega), ?_⟩
          intro hfit
          have hfin := hf.monoS
          obtain ⟨_, fbc⟩ := hfit.split (b := r1.st.store) hm1 (by omega)
          obtain ⟨_, fc⟩ := fbc.split (b := r0.st.store) hm0 hfin
          exact hf.fits fc

/-! ## the algorithms -/

theorem notR_both (cap : Nat) (r : RStC) (f : EdgeC) :
    BothC cap r.st.store (notR r f) (notS r.st f) := by
  have h := BothC.pure cap (s := r.st.store) (r' := cloneEdge r f) (notE f) (by rw [cloneEdge_st])
  rw [cloneEdge_st] at h
  exact h

theorem binR_both (cap : Nat) (p : Policy) (op : BOp) (fuel : Nat) : ∀ (r : RStC) (f g : EdgeC),
    BothC cap r.st.store (binR cap p op fuel r f g) (binS p op fuel r.st f g) := by
  induction fuel with
  | zero => intro r f g; exact BothC.clone cap r f
  | succ fuel ih =>
    intro r f g
    simp only [binR, binS]
    cases hT : terminalOpS op f g with
    | done e => exact BothC.clone cap r e
    | nodes =>
      simp only
      generalize orderPair f g = k
      cases hget : p.get r.st.tick r.st.cache (keyOf op k.1 k.2) with
      | some x => exact BothC.clone cap r.tickd (dec x)
      | none =>
        cases hlf : r.st.store.level? k.1 with
        | none => exact BothC.clone cap r.tickd k.1
        | some lf =>
          cases hlg : r.st.store.level? k.2 with
          | none => exact BothC.clone cap r.tickd k.1
          | some lg =>
            simp only
            exact forkR_both (r := r.tickd)
              (c1S := fun s => binS p op fuel s (r.st.store.cofT (min lf lg) k.1) (r.st.store.cofT (min lf lg) k.2))
              (c0S := fun s => binS p op fuel s (r.st.store.cofE (min lf lg) k.1) (r.st.store.cofE (min lf lg) k.2))
              (ih _ _ _) (fun r1 => ih r1 _ _)

theorem applyOpR_both (cap : Nat) (p : Policy) (op : Op) (fuel : Nat) (r : RStC) (f g : EdgeC) :
    BothC cap r.st.store (applyOpR cap p op fuel r f g) (applyOpS p op fuel r.st f g) := by
  cases op <;> simp only [applyOpR, applyOpS, andS, xorS]
  · exact binR_both cap p .and fuel r f g
  · exact (binR_both cap p .and fuel r _ _).mapNot
  · exact (binR_both cap p .and fuel r _ _).mapNot
  · exact binR_both cap p .and fuel r _ _
  · exact binR_both cap p .xor fuel r f g
  · exact (binR_both cap p .xor fuel r _ _).mapNot
  · exact (binR_both cap p .and fuel r _ _).mapNot
  · exact binR_both cap p .and fuel r _ _

theorem iteR_both (cap : Nat) (p : Policy) (fuel : Nat) : ∀ (r : RStC) (f g h : EdgeC),
    BothC cap r.st.store (iteR cap p fuel r f g h) (iteS p fuel r.st f g h) := by
  induction fuel with
  | zero => intro r f g h; exact BothC.clone cap r f
  | succ fuel ih =>
    intro r f g h
    simp only [iteR, iteS, andS, xorS]
    by_cases h1 : g.tgt = h.tgt
    · simp only [h1, if_true]
      by_cases h2 : g.neg = h.neg
      · simp only [h2, if_true]; exact BothC.clone cap r g
      · simp only [h2, if_false]; exact (binR_both cap p .xor fuel r _ _).mapNot
    · simp only [h1, if_false]
      by_cases h3 : f.tgt = g.tgt
      · simp only [h3, if_true]
        by_cases h4 : f.neg = g.neg
        · simp only [h4, if_true]; exact (binR_both cap p .and fuel r _ _).mapNot
        · simp only [h4, if_false]; exact binR_both cap p .and fuel r _ _
      · simp only [h3, if_false]
        by_cases h5 : f.tgt = h.tgt
        · simp only [h5, if_true]
          by_cases h6 : f.neg = h.neg
          · simp only [h6, if_true]; exact binR_both cap p .and fuel r _ _
          · simp only [h6, if_false]; exact (binR_both cap p .and fuel r _ _).mapNot
        · simp only [h5, if_false]
          cases hft : f.tgt with
          | term => simp only; exact BothC.clone cap r _
          | inner i =>
            simp only
            cases hgt : g.tgt with
            | term =>
              cases hht : h.tgt with
              | term => rw [hgt, hht] at h1; exact absurd rfl h1
              | inner k =>
                simp only
                by_cases h7 : g.neg = false
                · simp only [h7, if_true]; exact (binR_both cap p .and fuel r _ _).mapNot
                · simp only [h7]; exact binR_both cap p .and fuel r _ _
            | inner j =>
              cases hht : h.tgt with
              | term =>
                simp only
                by_cases h7 : h.neg = false
                · simp only [h7, if_true]; exact (binR_both cap p .and fuel r _ _).mapNot
                · simp only [h7]; exact binR_both cap p .and fuel r _ _
              | inner k =>
                simp only
                cases hget : p.get r.st.tick r.st.cache (.ite, [enc f, enc g, enc h]) with
                | some x => exact BothC.clone cap r.tickd (dec x)
                | none =>
                  simp only
                  cases hlf : r.st.store.level? f with
                  | none => exact BothC.clone cap r.tickd f
                  | some lf =>
                    cases hlg : r.st.store.level? g with
                    | none => exact BothC.clone cap r.tickd f
                    | some lg =>
                      cases hlh : r.st.store.level? h with
                      | none => exact BothC.clone cap r.tickd f
                      | some lh =>
                        simp only
                        exact forkR_both (r := r.tickd)
                          (c1S := fun s => iteS p fuel s (r.st.store.cofT (min (min lf lg) lh) f)
                            (r.st.store.cofT (min (min lf lg) lh) g) (r.st.store.cofT (min (min lf lg) lh) h))
                          (c0S := fun s => iteS p fuel s (r.st.store.cofE (min (min lf lg) lh) f)
                            (r.st.store.cofE (min (min lf lg) lh) g) (r.st.store.cofE (min (min lf lg) lh) h))
                          (ih _ _ _ _) (fun r1 => ih r1 _ _ _)

/-! ## the threshold, from `BothC` alone -/

/-- number of nodes a run started in store `s` has added -/
def growth (s : StoreC) (R : StC × EdgeC) : Nat := R.1.store.count - s.count

section
variable {cap : Nat} {s : StoreC} {RC : Option EdgeC × RStC} {RS : StC × EdgeC}

theorem BothC.count_eq (h : BothC cap s RC RS) : RS.1.store.count = s.count + growth s RS := by
  have := h.monoS
  unfold growth; omega

/-- **the error is reported exactly when the uncapped run does not fit** -/
theorem BothC.oom_iff_not_fits (h : BothC cap s RC RS) : RC.1 = none ↔ ¬ Fits cap s RS.1.store := by
  constructor
  · intro hn hfit
    rw [(h.fits hfit).1] at hn
    cases hn
  · intro hnf
    cases hR : RC.1 with
    | none => rfl
    | some e =>
      obtain ⟨heq, hfit⟩ := h.ok e hR
      rw [heq] at hnf
      exact absurd hfit hnf

/-- the threshold, no hypothesis on the state at all: OutOfMemory iff the operation allocates at
least one node and the capacity is below `count + needed` -/
theorem BothC.oom_iff (h : BothC cap s RC RS) :
    RC.1 = none ↔ 0 < growth s RS ∧ cap < s.count + growth s RS := by
  rw [h.oom_iff_not_fits]
  have := h.count_eq
  unfold Fits
  omega

/-- for a store within its capacity: OutOfMemory iff fewer than `needed` slots are free -/
theorem BothC.oom_iff_free (h : BothC cap s RC RS) (hc : s.count ≤ cap) :
    RC.1 = none ↔ cap - s.count < growth s RS := by
  rw [h.oom_iff]; omega

/-- success is complete agreement with the uncapped run, and happens exactly when enough slots
are free -/
theorem BothC.ok_iff (h : BothC cap s RC RS) (hc : s.count ≤ cap) :
    (RC.1 = some RS.2 ∧ RC.2.st = RS.1) ↔ growth s RS ≤ cap - s.count := by
  constructor
  · intro heq
    have : ¬ (RC.1 = none) := by rw [heq.1]; simp
    rw [h.oom_iff_free hc] at this
    omega
  · intro hle
    apply h.fits
    have := h.count_eq
    unfold Fits; omega

/-- after a successful run exactly `needed` more slots are in use; after a failed one the store is
exactly full -/
theorem BothC.final_count (h : BothC cap s RC RS) (hc : s.count ≤ cap) :
    RC.2.st.store.count = if RC.1 = none then cap else s.count + growth s RS := by
  split
  · rename_i hn
    exact Nat.le_antisymm (h.bound hc) (h.err hn)
  · rename_i hs
    cases hR : RC.1 with
    | none => exact absurd hR hs
    | some e =>
      obtain ⟨heq, _⟩ := h.ok e hR
      rw [← h.count_eq, heq]
end

/-! ## `needed` -/

/-- nodes a binary operator allocates from state `st` when nothing stops it -/
def neededApply (p : Policy) (op : Op) (fuel : Nat) (st : StC) (f g : EdgeC) : Nat :=
  growth st.store (applyOpS p op fuel st f g)

/-- nodes `not` allocates: none -/
def neededNot (st : StC) (f : EdgeC) : Nat := growth st.store (notS st f)

/-- nodes `apply_ite` allocates -/
def neededIte (p : Policy) (fuel : Nat) (st : StC) (f g h : EdgeC) : Nat :=
  growth st.store (iteS p fuel st f g h)

/-! ## semantic part: `needed` is a function of the store and the result only -/

/-- number of **nodes** that entering the tree edge `T` into store `s` allocates: the distinct
inner sub-diagrams of `T.n` (modulo complement: a node and its complement are one node) that `s`
does not hold yet -/
def fresh (s : StoreC) (T : Edge) : Nat := (internE s T).1.count - s.count

/-- **a complemented result shares every node with its complement** -/
theorem fresh_not (s : StoreC) (T : Edge) : fresh s (applyNot T) = fresh s T := rfl

theorem PostC.growth_eq {s : StoreC} {T : Edge} {R : StC × EdgeC} (h : PostC s T R) (hr : s.NoRed) :
    growth s R = fresh s T := by
  have := congrArg Prod.fst (h.canon hr)
  simp only at this
  unfold growth fresh
  rw [this]

theorem neededApply_eq {p : Policy} (pok : p.OK) (op : Op) (fuel : Nat) (st : StC) (f g : EdgeC)
    (a b : Edge) (hinv : InvC st) (hr : st.store.NoRed) (hf : DenotesC st.store f a)
    (hg : DenotesC st.store g b) (hfuel : a.size + b.size ≤ fuel) :
    neededApply p op fuel st f g = fresh st.store (applyOp op a b) :=
  PostC.growth_eq (applyOpS_spec pok op fuel st f g a b hinv hf hg hfuel) hr

theorem neededNot_eq (st : StC) (f : EdgeC) : neededNot st f = 0 := by
  simp [neededNot, growth, notS]

theorem neededIte_eq {p : Policy} (pok : p.OK) (fuel : Nat) (st : StC) (f g h : EdgeC)
    (a b c : Edge) (hinv : InvC st) (hr : st.store.NoRed) (hf : DenotesC st.store f a)
    (hg : DenotesC st.store g b) (hh : DenotesC st.store h c)
    (hfuel : a.size + b.size + c.size ≤ fuel) :
    neededIte p fuel st f g h = fresh st.store (applyIte a b c) :=
  PostC.growth_eq (iteS_spec pok fuel st f g h a b c hinv hf hg hh hfuel) hr

/-! ## `fresh`: bounds -/

/-- inner nodes of a tree (with repetition) -/
def innerSize : CNode → Nat
  | .top => 0
  | .node _ t _ e => innerSize t + innerSize e + 1

theorem count_internN_ge (s : StoreC) (T : CNode) : s.count ≤ (internN s T).1.count := by
  induction T generalizing s with
  | top => exact Nat.le_refl _
  | node l t en e iht ihe =>
    simp only [internN]
    exact Nat.le_trans (iht s) (Nat.le_trans (ihe _) (count_mkNodeC_ge _ _ _ _))

theorem count_internN_le (s : StoreC) (T : CNode) : (internN s T).1.count ≤ s.count + innerSize T := by
  induction T generalizing s with
  | top => exact Nat.le_refl _
  | node l t en e iht ihe =>
    simp only [internN, innerSize]
    have h1 := iht s
    have h0 := ihe (internN s t).1
    have := count_mkNodeC (internN (internN s t).1 e).1 l ⟨false, (internN s t).2⟩
      ⟨en, (internN (internN s t).1 e).2⟩
    split at this <;> omega

/-- never more than the result has inner nodes -/
theorem fresh_le (s : StoreC) (T : Edge) : fresh s T ≤ innerSize T.n := by
  have := count_internN_le s T.n
  unfold fresh internE; simp only; omega

/-- a result that is already stored — through an edge of either polarity — costs nothing -/
theorem fresh_of_denotes {s : StoreC} (hu : s.Unique) (hr : s.NoRed) {x : EdgeC} {T : Edge}
    (h : DenotesC s x T) : fresh s T = 0 := by
  unfold fresh
  rw [internE_of_denotes hu hr h]
  exact Nat.sub_self _

end OxiddModel.Bcdd.Rc
