import OxiddModel.Bcdd.Pick
import OxiddModel.Bcdd.SatCount
import OxiddModel.Bdd.Uniform

/-!
# Uniform cube picking on complement-edge BDDs — lemmas for C13

`pick_cube_uniform_edge` (`oxidd-core/src/function.rs`) on a BCDD: the closure reads the tag of the
edge it is given, `cofactors_node(tag, node)` pushes that tag into the two children
(`then = (tag, t)`, `else = (tag ⊕ en, e)`), and the two counts are `sat_count_edge` of these
*cofactors* over all `vars = num_levels` variables. `pick_cube_edge::inner`
(`complement_edge/apply_rec.rs`) consults the closure only if neither cofactor is `⊥` (`¬⊤`).

`uniformPathNoTag` is the sampler of the seeded defect `C13-uniform-ignores-tag`, which counts the
stored children `(child(0), child(1)) = ((None, t), (en, e))` instead of the cofactors.

The random source, `Frac`, `takeThen`, `fracSum` etc. are shared with `OxiddModel.Bdd.Uniform`.
-/
namespace OxiddModel.Bcdd
open CNode
open OxiddModel.Bdd (Frac takeThen fracAdd fracSum natSum natSum_append fracSum_weights)

/-! ## vocabulary -/

/-- `pick_cube_edge::inner` with the closure of `pick_cube_uniform_edge`; `tag` is the tag of the
incoming edge. A random number is consumed exactly when the closure is called. -/
def uniformPath (vars : Nat) : List Frac → Bool → CNode → List (Nat × Bool)
  | _, _, .top => []
  | rs, tag, .node l t en e =>
    let asked := isFalse ⟨tag, t⟩ = false ∧ isFalse ⟨tag != en, e⟩ = false
    let c := pickChoice ⟨tag, t⟩ ⟨tag != en, e⟩
      (takeThen (rs.headD ⟨0, 1⟩) (satCountGo vars tag t) (satCountGo vars (tag != en) e))
    let rs' := if asked then rs.tail else rs
    if c then (l, true) :: uniformPath vars rs' tag t
    else (l, false) :: uniformPath vars rs' (tag != en) e

/-- `pick_cube_uniform_edge`: `None` for `⊥ = ¬⊤`, the all-don't-care vector for `⊤` -/
def pickUniform (vars : Nat) (rs : List Frac) (f : Edge) : Option (List (Nat × Bool)) :=
  match f.n with
  | .top => if f.neg then none else some []
  | .node .. => some (uniformPath vars rs f.neg f.n)

/-- the pairs `(t_count, e_count)` the closure computes, in the order in which it is consulted -/
def uniformCounts (vars : Nat) : List Frac → Bool → CNode → List (Nat × Nat)
  | _, _, .top => []
  | rs, tag, .node _ t en e =>
    if isFalse ⟨tag, t⟩ then uniformCounts vars rs (tag != en) e
    else if isFalse ⟨tag != en, e⟩ then uniformCounts vars rs tag t
    else
      (satCountGo vars tag t, satCountGo vars (tag != en) e) ::
        (if takeThen (rs.headD ⟨0, 1⟩) (satCountGo vars tag t) (satCountGo vars (tag != en) e)
          then uniformCounts vars rs.tail tag t else uniformCounts vars rs.tail (tag != en) e)

/-- the sampler of the seeded defect: the closure counts `node.child(0)`, `node.child(1)` as stored
(tags `None` and `en`) and ignores the tag of the incoming edge; the forced-branch detection of
`pick_cube_edge` is unchanged -/
def uniformPathNoTag (vars : Nat) : List Frac → Bool → CNode → List (Nat × Bool)
  | _, _, .top => []
  | rs, tag, .node l t en e =>
    let asked := isFalse ⟨tag, t⟩ = false ∧ isFalse ⟨tag != en, e⟩ = false
    let c := pickChoice ⟨tag, t⟩ ⟨tag != en, e⟩
      (takeThen (rs.headD ⟨0, 1⟩) (satCountGo vars false t) (satCountGo vars en e))
    let rs' := if asked then rs.tail else rs
    if c then (l, true) :: uniformPathNoTag vars rs' tag t
    else (l, false) :: uniformPathNoTag vars rs' (tag != en) e

/-- probability with which the sampler takes value `b` at a node with cofactors `T`, `E` -/
def stepProb (vars : Nat) (T E : Edge) (b : Bool) : Nat × Nat :=
  if isFalse T then (if b then (0, 1) else (1, 1))
  else if isFalse E then (if b then (1, 1) else (0, 1))
  else (if b then satCount vars T else satCount vars E, satCount vars T + satCount vars E)

/-- the same for the defective sampler: the decision between two non-`⊥` cofactors is taken with the
counts of the stored children -/
def stepProbNoTag (vars : Nat) (tag : Bool) (t : CNode) (en : Bool) (e : CNode) (b : Bool) : Nat × Nat :=
  if isFalse ⟨tag, t⟩ then (if b then (0, 1) else (1, 1))
  else if isFalse ⟨tag != en, e⟩ then (if b then (1, 1) else (0, 1))
  else (if b then satCountGo vars false t else satCountGo vars en e,
        satCountGo vars false t + satCountGo vars en e)

/-- `(numerator, denominator)` of the probability that the sampler returns the decision list `c` -/
def cubeProbGo (vars : Nat) : Bool → CNode → List (Nat × Bool) → Nat × Nat
  | tag, .top, [] => (if tag then 0 else 1, 1)
  | _, .top, _ :: _ => (0, 1)
  | _, .node .., [] => (0, 1)
  | tag, .node l t en e, (l', b) :: p =>
    if l' = l then
      let r := if b then cubeProbGo vars tag t p else cubeProbGo vars (tag != en) e p
      ((stepProb vars ⟨tag, t⟩ ⟨tag != en, e⟩ b).1 * r.1, (stepProb vars ⟨tag, t⟩ ⟨tag != en, e⟩ b).2 * r.2)
    else (0, 1)

def cubeProb (vars : Nat) (f : Edge) (c : List (Nat × Bool)) : Nat × Nat := cubeProbGo vars f.neg f.n c

def cubeProbNoTagGo (vars : Nat) : Bool → CNode → List (Nat × Bool) → Nat × Nat
  | tag, .top, [] => (if tag then 0 else 1, 1)
  | _, .top, _ :: _ => (0, 1)
  | _, .node .., [] => (0, 1)
  | tag, .node l t en e, (l', b) :: p =>
    if l' = l then
      let r := if b then cubeProbNoTagGo vars tag t p else cubeProbNoTagGo vars (tag != en) e p
      ((stepProbNoTag vars tag t en e b).1 * r.1, (stepProbNoTag vars tag t en e b).2 * r.2)
    else (0, 1)

/-- `c` is the decision list of a path from the edge `(tag, n)` to `⊤` reached with an even number
of complements, i.e. to the *value* true -/
def RootPathGo : Bool → CNode → List (Nat × Bool) → Prop
  | tag, .top, [] => tag = false
  | _, .top, _ :: _ => False
  | _, .node .., [] => False
  | tag, .node l t en e, (l', b) :: p =>
    l' = l ∧ (if b then RootPathGo tag t p else RootPathGo (tag != en) e p)

def RootPath (f : Edge) (c : List (Nat × Bool)) : Prop := RootPathGo f.neg f.n c

/-- the path an assignment follows -/
def pathOfGo (σ : Nat → Bool) : Bool → CNode → List (Nat × Bool)
  | _, .top => []
  | tag, .node l t en e => (l, σ l) :: (if σ l then pathOfGo σ tag t else pathOfGo σ (tag != en) e)

def pathOf (σ : Nat → Bool) (f : Edge) : List (Nat × Bool) := pathOfGo σ f.neg f.n

/-- probability of the total assignment `σ`: the cube it lies in, times `1/2` per don't care -/
def modelProb (vars : Nat) (f : Edge) (σ : Nat → Bool) : Nat × Nat :=
  ((cubeProb vars f (pathOf σ f)).1, (cubeProb vars f (pathOf σ f)).2 * 2 ^ (vars - (pathOf σ f).length))

/-- all paths to the value true -/
def rootPathsGo : Bool → CNode → List (List (Nat × Bool))
  | tag, .top => if tag then [] else [[]]
  | tag, .node l t en e =>
    (rootPathsGo tag t).map ((l, true) :: ·) ++ (rootPathsGo (tag != en) e).map ((l, false) :: ·)

def rootPaths (f : Edge) : List (List (Nat × Bool)) := rootPathsGo f.neg f.n

/-! ## basic facts -/

theorem isFalse_mk (tag : Bool) (n : CNode) : isFalse ⟨tag, n⟩ = true ↔ (tag = true ∧ n = .top) := by
  cases n <;> cases tag <;> simp [isFalse, isTop]

theorem rootPathGo_ne_false {tag : Bool} {n : CNode} {c : List (Nat × Bool)} (h : RootPathGo tag n c) :
    isFalse ⟨tag, n⟩ = false := by
  cases n with
  | top =>
    cases c with
    | nil => simp only [RootPathGo] at h; subst h; rfl
    | cons q p => simp [RootPathGo] at h
  | node l t en e => simp [isFalse, isTop]

/-- the sampler is `pick_cube` with some choice function -/
theorem pickPath_congr {k : Nat} {n : CNode} (ho : Ordered k n) (tag : Bool) (c1 c2 : Nat → Bool)
    (h : ∀ l, k ≤ l → c1 l = c2 l) : pickPath c1 tag n = pickPath c2 tag n := by
  induction ho generalizing tag with
  | top => rfl
  | @node k l t e en hl _ _ iht ihe =>
    simp only [pickPath, h _ hl]
    rw [iht tag (fun l hl' => h l (by omega)), ihe (tag != en) (fun l hl' => h l (by omega))]

theorem uniformPath_as_choice (vars : Nat) {k : Nat} {n : CNode} (ho : Ordered k n) (rs : List Frac)
    (tag : Bool) : ∃ choice : Nat → Bool, uniformPath vars rs tag n = pickPath choice tag n := by
  induction ho generalizing rs tag with
  | top => exact ⟨fun _ => false, rfl⟩
  | @node k l t e en hl ht he iht ihe =>
    simp only [uniformPath, pickPath]
    generalize takeThen (rs.headD ⟨0, 1⟩) (satCountGo vars tag t) (satCountGo vars (tag != en) e) = c0
    generalize (if isFalse ⟨tag, t⟩ = false ∧ isFalse ⟨tag != en, e⟩ = false then rs.tail else rs) = rs'
    obtain ⟨ct, hct⟩ := iht rs' tag
    obtain ⟨ce, hce⟩ := ihe rs' (tag != en)
    cases h : pickChoice ⟨tag, t⟩ ⟨tag != en, e⟩ c0
    · refine ⟨fun x => if x = l then c0 else ce x, ?_⟩
      simp only [if_true, h, Bool.false_eq_true, if_false, hce]
      rw [pickPath_congr he (tag != en) ce (fun x => if x = l then c0 else ce x)
        (fun x hx => by simp; omega)]
    · refine ⟨fun x => if x = l then c0 else ct x, ?_⟩
      simp only [if_true, h, hct]
      rw [pickPath_congr ht tag ct (fun x => if x = l then c0 else ct x) (fun x hx => by simp; omega)]

/-! ## counts -/

/-- every `>> 1` is exact: twice the count of `(tag, node)` is the sum of the counts of its two
cofactors (all over `vars` variables) -/
theorem satCountGo_node_twice {vars k l : Nat} {t e : CNode} {en : Bool} (ho : Ordered k (.node l t en e))
    (hb : Below vars (.node l t en e)) (tag : Bool) :
    2 * satCountGo vars tag (.node l t en e) = satCountGo vars tag t + satCountGo vars (tag != en) e := by
  cases ho with
  | node hkl ht he =>
    have hlv : l < vars := hb.1
    have h1 := satCountGo_spec vars vars (Nat.le_refl _) t tag (l+1) (fun _ => false) ht hb.2.1 (by omega)
    have h2 := satCountGo_spec vars vars (Nat.le_refl _) e (tag != en) (l+1) (fun _ => false) he hb.2.2 (by omega)
    simp only [satCountGo]
    rw [h1, h2, Nat.shiftRight_eq_div_pow, Nat.pow_one, Nat.sub_self, Nat.pow_zero, Nat.one_mul,
      Nat.one_mul, ← Nat.mul_add, Nat.pow_succ, Nat.mul_comm (2 ^ l) 2, Nat.mul_assoc,
      Nat.mul_div_cancel_left _ (by omega)]

/-- the count of a reduced edge other than `⊥` is positive -/
theorem satCountGo_pos {vars k : Nat} {n : CNode} (ho : Ordered k n) (hr : Reduced n) (hb : Below vars n)
    (tag : Bool) (hs : isFalse ⟨tag, n⟩ = false) : 0 < satCountGo vars tag n := by
  induction ho generalizing tag with
  | top =>
    cases tag
    · simp [satCountGo, Nat.two_pow_pos]
    · simp [isFalse, isTop] at hs
  | @node k l t e en hkl ht he iht ihe =>
    have h2 := satCountGo_node_twice (.node hkl ht he) hb tag
    cases hT : isFalse ⟨tag, t⟩
    · have := iht hr.2.1 hb.2.1 tag hT; omega
    · cases hE : isFalse ⟨tag != en, e⟩
      · have := ihe hr.2.2 hb.2.2 (tag != en) hE; omega
      · exact (cof_not_both_false hr hT hE).elim

theorem uniformCounts_pos {vars k : Nat} {n : CNode} (ho : Ordered k n) (hr : Reduced n)
    (hb : Below vars n) (rs : List Frac) (tag : Bool) :
    ∀ p ∈ uniformCounts vars rs tag n, 0 < p.1 ∧ 0 < p.2 := by
  induction ho generalizing rs tag with
  | top => simp [uniformCounts]
  | @node k l t e en hkl ht he iht ihe =>
    simp only [uniformCounts]
    split
    · exact ihe hr.2.2 hb.2.2 rs _
    · split
      · exact iht hr.2.1 hb.2.1 rs _
      · rename_i h1 h2
        intro p hp
        rcases List.mem_cons.mp hp with rfl | hp
        · exact ⟨satCountGo_pos ht hr.2.1 hb.2.1 tag (by simpa using h1),
            satCountGo_pos he hr.2.2 hb.2.2 _ (by simpa using h2)⟩
        · split at hp
          · exact iht hr.2.1 hb.2.1 _ _ p hp
          · exact ihe hr.2.2 hb.2.2 _ _ p hp

/-! ## paths -/

theorem uniformPath_rootPath (vars : Nat) (rs : List Frac) {n : CNode} (hr : Reduced n) (tag : Bool)
    (hs : isFalse ⟨tag, n⟩ = false) : RootPathGo tag n (uniformPath vars rs tag n) := by
  induction n generalizing rs tag with
  | top => cases tag <;> simp_all [uniformPath, RootPathGo, isFalse, isTop]
  | node l t en e iht ihe =>
    simp only [uniformPath]
    generalize takeThen (rs.headD ⟨0, 1⟩) (satCountGo vars tag t) (satCountGo vars (tag != en) e) = c0
    generalize (if isFalse ⟨tag, t⟩ = false ∧ isFalse ⟨tag != en, e⟩ = false then rs.tail else rs) = rs'
    have hch := pickChoice_child_ne_false (tag := tag) hr c0
    cases h : pickChoice ⟨tag, t⟩ ⟨tag != en, e⟩ c0
    · rw [h] at hch
      simp only [Bool.false_eq_true, if_false, RootPathGo, true_and] at hch ⊢
      exact ihe rs' hr.2.2 _ ((isFalse_false_iff _).mpr hch)
    · rw [h] at hch
      simp only [if_true, RootPathGo, true_and] at hch ⊢
      exact iht rs' hr.2.1 _ ((isFalse_false_iff _).mpr hch)

theorem rootPathGo_length {vars k : Nat} {n : CNode} (ho : Ordered k n) (hb : Below vars n)
    (hk : k ≤ vars) {tag : Bool} {c : List (Nat × Bool)} (hw : RootPathGo tag n c) :
    c.length + k ≤ vars := by
  induction ho generalizing tag c with
  | top => cases c with
    | nil => simpa using hk
    | cons q p => simp [RootPathGo] at hw
  | @node k l t e en hkl _ _ iht ihe =>
    cases c with
    | nil => simp [RootPathGo] at hw
    | cons q p =>
      obtain ⟨l', b⟩ := q
      simp only [RootPathGo] at hw
      have hlv : l < vars := hb.1
      cases b
      · have := ihe hb.2.2 (by omega) (by simpa using hw.2)
        simp only [List.length_cons]; omega
      · have := iht hb.2.1 (by omega) (by simpa using hw.2)
        simp only [List.length_cons]; omega

/-! ## the telescoping product -/

theorem stepProb_den_pos {vars k l : Nat} {t e : CNode} {en : Bool} (ho : Ordered k (.node l t en e))
    (hr : Reduced (.node l t en e)) (hb : Below vars (.node l t en e)) (tag b : Bool) :
    0 < (stepProb vars ⟨tag, t⟩ ⟨tag != en, e⟩ b).2 := by
  unfold stepProb
  cases ho with
  | node _ ht he =>
    split
    · cases b <;> simp
    · split
      · cases b <;> simp
      · rename_i h1 h2
        have := satCountGo_pos ht hr.2.1 hb.2.1 tag (by simpa using h1)
        simp only [satCount]; omega

theorem stepProb_eq {vars k l : Nat} {t e : CNode} {en : Bool} (ho : Ordered k (.node l t en e))
    (hb : Below vars (.node l t en e)) (tag b : Bool)
    (hne : isFalse (if b then (⟨tag, t⟩ : Edge) else ⟨tag != en, e⟩) = false) :
    (stepProb vars ⟨tag, t⟩ ⟨tag != en, e⟩ b).1 * (2 * satCountGo vars tag (.node l t en e)) =
      satCount vars (if b then (⟨tag, t⟩ : Edge) else ⟨tag != en, e⟩) *
        (stepProb vars ⟨tag, t⟩ ⟨tag != en, e⟩ b).2 := by
  rw [satCountGo_node_twice ho hb]
  unfold stepProb
  cases h1 : isFalse ⟨tag, t⟩
  · cases h2 : isFalse ⟨tag != en, e⟩
    · cases b <;> simp [satCount]
    · obtain ⟨ha, hb'⟩ := (isFalse_mk _ _).mp h2
      cases b
      · simp [h2] at hne
      · simp [satCount, ha, hb', satCountGo]
  · obtain ⟨ha, hb'⟩ := (isFalse_mk _ _).mp h1
    cases b
    · simp [satCount, ha, hb', satCountGo]
    · simp [h1] at hne

theorem cubeProbGo_telescope {vars k : Nat} {n : CNode} (ho : Ordered k n) (hr : Reduced n)
    (hb : Below vars n) {tag : Bool} {c : List (Nat × Bool)} (hw : RootPathGo tag n c) :
    (cubeProbGo vars tag n c).1 * satCountGo vars tag n * 2 ^ c.length =
        2 ^ vars * (cubeProbGo vars tag n c).2 ∧
      0 < (cubeProbGo vars tag n c).2 := by
  induction ho generalizing tag c with
  | top =>
    cases c with
    | nil => simp only [RootPathGo] at hw; subst hw; simp [cubeProbGo, satCountGo]
    | cons q p => simp [RootPathGo] at hw
  | @node k l t e en hkl ht he iht ihe =>
    cases c with
    | nil => simp [RootPathGo] at hw
    | cons q p =>
      obtain ⟨l', b⟩ := q
      simp only [RootPathGo] at hw
      obtain ⟨rfl, hw⟩ := hw
      have hne : isFalse (if b then (⟨tag, t⟩ : Edge) else ⟨tag != en, e⟩) = false := by
        cases b
        · exact rootPathGo_ne_false (by simpa using hw)
        · exact rootPathGo_ne_false (by simpa using hw)
      have hs := stepProb_eq (.node hkl ht he) hb tag b hne
      have hd := stepProb_den_pos (.node hkl ht he) hr hb tag b
      simp only [cubeProbGo, if_true, List.length_cons]
      generalize (stepProb vars ⟨tag, t⟩ ⟨tag != en, e⟩ b).1 = sn at hs hd ⊢
      generalize (stepProb vars ⟨tag, t⟩ ⟨tag != en, e⟩ b).2 = sd at hs hd ⊢
      generalize satCountGo vars tag (.node l' t en e) = cn at hs ⊢
      cases b
      · obtain ⟨ih1, ih2⟩ := ihe hr.2.2 hb.2.2 (c := p) (by simpa using hw)
        simp only [Bool.false_eq_true, if_false, satCount] at hs ⊢
        generalize (cubeProbGo vars (tag != en) e p).1 = rn at ih1 ih2 ⊢
        generalize (cubeProbGo vars (tag != en) e p).2 = rd at ih1 ih2 ⊢
        generalize satCountGo vars (tag != en) e = cc at hs ih1
        refine ⟨?_, Nat.mul_pos hd ih2⟩
        calc sn * rn * cn * 2 ^ (p.length + 1)
            = (sn * (2 * cn)) * (rn * 2 ^ p.length) := by rw [Nat.pow_succ]; ac_rfl
          _ = (cc * sd) * (rn * 2 ^ p.length) := by rw [hs]
          _ = sd * (rn * cc * 2 ^ p.length) := by ac_rfl
          _ = sd * (2 ^ vars * rd) := by rw [ih1]
          _ = 2 ^ vars * (sd * rd) := by ac_rfl
      · obtain ⟨ih1, ih2⟩ := iht hr.2.1 hb.2.1 (c := p) (by simpa using hw)
        simp only [if_true, satCount] at hs ⊢
        generalize (cubeProbGo vars tag t p).1 = rn at ih1 ih2 ⊢
        generalize (cubeProbGo vars tag t p).2 = rd at ih1 ih2 ⊢
        generalize satCountGo vars tag t = cc at hs ih1
        refine ⟨?_, Nat.mul_pos hd ih2⟩
        calc sn * rn * cn * 2 ^ (p.length + 1)
            = (sn * (2 * cn)) * (rn * 2 ^ p.length) := by rw [Nat.pow_succ]; ac_rfl
          _ = (cc * sd) * (rn * 2 ^ p.length) := by rw [hs]
          _ = sd * (rn * cc * 2 ^ p.length) := by ac_rfl
          _ = sd * (2 ^ vars * rd) := by rw [ih1]
          _ = 2 ^ vars * (sd * rd) := by ac_rfl

/-! ## models and their cubes -/

theorem pathOfGo_rootPath (σ : Nat → Bool) (n : CNode) (tag : Bool)
    (h : (⟨tag, n⟩ : Edge).eval σ = true) : RootPathGo tag n (pathOfGo σ tag n) := by
  induction n generalizing tag with
  | top => cases tag <;> simp_all [pathOfGo, RootPathGo, Edge.eval, CNode.eval]
  | node l t en e iht ihe =>
    simp only [pathOfGo, RootPathGo, true_and]
    cases hσ : σ l
    · rw [node_eval_false hσ] at h
      simpa using ihe _ h
    · rw [node_eval_true hσ] at h
      simpa using iht _ h

theorem pathOfGo_sat (σ : Nat → Bool) (n : CNode) (tag : Bool) : Sat σ (pathOfGo σ tag n) := by
  induction n generalizing tag with
  | top => intro p hp; simp [pathOfGo] at hp
  | node l t en e iht ihe =>
    intro p hp
    simp only [pathOfGo] at hp
    rcases List.mem_cons.mp hp with rfl | hp
    · rfl
    · cases hσ : σ l
      · rw [hσ] at hp; exact ihe _ p (by simpa using hp)
      · rw [hσ] at hp; exact iht _ p (by simpa using hp)

theorem sat_cons {σ : Nat → Bool} {l : Nat} {b : Bool} {p : List (Nat × Bool)} :
    Sat σ ((l, b) :: p) ↔ σ l = b ∧ Sat σ p := by
  constructor
  · intro h
    exact ⟨h (l, b) (List.mem_cons_self ..), fun q hq => h q (List.mem_cons_of_mem _ hq)⟩
  · rintro ⟨h1, h2⟩ q hq
    rcases List.mem_cons.mp hq with rfl | hq
    · exact h1
    · exact h2 q hq

theorem rootPathGo_unique {n : CNode} {tag : Bool} {c : List (Nat × Bool)} (hw : RootPathGo tag n c)
    (σ : Nat → Bool) (hσ : Sat σ c) : c = pathOfGo σ tag n := by
  induction n generalizing tag c with
  | top =>
    cases c with
    | nil => rfl
    | cons q p => simp [RootPathGo] at hw
  | node l t en e iht ihe =>
    cases c with
    | nil => simp [RootPathGo] at hw
    | cons q p =>
      obtain ⟨l', b⟩ := q
      simp only [RootPathGo] at hw
      obtain ⟨rfl, hw⟩ := hw
      rw [sat_cons] at hσ
      simp only [pathOfGo, hσ.1]
      cases b
      · simp only [Bool.false_eq_true, if_false] at hw ⊢; rw [ihe hw hσ.2]
      · simp only [if_true] at hw ⊢; rw [iht hw hσ.2]

theorem rootPathGo_implies {n : CNode} {tag : Bool} {c : List (Nat × Bool)} (hw : RootPathGo tag n c)
    (σ : Nat → Bool) (hσ : Sat σ c) : (⟨tag, n⟩ : Edge).eval σ = true := by
  induction n generalizing tag c with
  | top =>
    cases c with
    | nil => simp only [RootPathGo] at hw; subst hw; rfl
    | cons q p => simp [RootPathGo] at hw
  | node l t en e iht ihe =>
    cases c with
    | nil => simp [RootPathGo] at hw
    | cons q p =>
      obtain ⟨l', b⟩ := q
      simp only [RootPathGo] at hw
      obtain ⟨rfl, hw⟩ := hw
      rw [sat_cons] at hσ
      cases b
      · rw [node_eval_false hσ.1]; exact ihe (by simpa using hw) hσ.2
      · rw [node_eval_true hσ.1]; exact iht (by simpa using hw) hσ.2

theorem cubeProbGo_pathOf_nonmodel (vars : Nat) (σ : Nat → Bool) (n : CNode) (tag : Bool)
    (h : (⟨tag, n⟩ : Edge).eval σ = false) : (cubeProbGo vars tag n (pathOfGo σ tag n)).1 = 0 := by
  induction n generalizing tag with
  | top => cases tag <;> simp_all [pathOfGo, cubeProbGo, Edge.eval, CNode.eval]
  | node l t en e iht ihe =>
    simp only [pathOfGo, cubeProbGo, if_true]
    cases hσ : σ l
    · rw [node_eval_false hσ] at h
      simp [ihe _ h]
    · rw [node_eval_true hσ] at h
      simp [iht _ h]

/-! ## every path can be returned -/

/-- the random numbers that lead the sampler along a given path -/
def drawsFor (vars : Nat) : Bool → CNode → List (Nat × Bool) → List Frac
  | tag, .node _ t en e, (_, b) :: p =>
    let rest := if b then drawsFor vars tag t p else drawsFor vars (tag != en) e p
    if isFalse ⟨tag, t⟩ = true ∨ isFalse ⟨tag != en, e⟩ = true then rest
    else Bdd.drawFor (satCountGo vars tag t) (satCountGo vars (tag != en) e) b :: rest
  | _, _, _ => []

theorem drawsFor_spec {vars k : Nat} {n : CNode} (ho : Ordered k n) (hr : Reduced n) (hb : Below vars n)
    {tag : Bool} {c : List (Nat × Bool)} (hw : RootPathGo tag n c) :
    uniformPath vars (drawsFor vars tag n c) tag n = c ∧
      ∀ r ∈ drawsFor vars tag n c, r.num < r.den := by
  induction ho generalizing tag c with
  | top =>
    cases c with
    | nil => simp [uniformPath, drawsFor]
    | cons q p => simp [RootPathGo] at hw
  | @node k l t e en hkl ht he iht ihe =>
    cases c with
    | nil => simp [RootPathGo] at hw
    | cons q p =>
      obtain ⟨l', b⟩ := q
      simp only [RootPathGo] at hw
      obtain ⟨rfl, hw⟩ := hw
      cases b
      · simp only [Bool.false_eq_true, if_false] at hw
        obtain ⟨ih1, ih2⟩ := ihe hr.2.2 hb.2.2 hw
        have hE := rootPathGo_ne_false hw
        simp only [uniformPath, drawsFor, Bool.false_eq_true, if_false, pickChoice, hE]
        cases hT : isFalse ⟨tag, t⟩
        · have hct := satCountGo_pos ht hr.2.1 hb.2.1 tag hT
          have hce := satCountGo_pos he hr.2.2 hb.2.2 _ hE
          simp only [Bool.false_eq_true, or_self, if_false, and_self, if_true, List.headD_cons,
            List.tail_cons, Bdd.takeThen_drawFor hct false]
          refine ⟨by rw [ih1], ?_⟩
          intro r hr'
          rcases List.mem_cons.mp hr' with rfl | hr'
          · exact Bdd.drawFor_lt hce false
          · exact ih2 r hr'
        · simp only [true_or, if_true, Bool.true_eq_false, false_and, if_false]
          exact ⟨by simp [ih1], ih2⟩
      · simp only [if_true] at hw
        obtain ⟨ih1, ih2⟩ := iht hr.2.1 hb.2.1 hw
        have hT := rootPathGo_ne_false hw
        simp only [uniformPath, drawsFor, if_true, pickChoice, hT]
        cases hE : isFalse ⟨tag != en, e⟩
        · have hct := satCountGo_pos ht hr.2.1 hb.2.1 tag hT
          have hce := satCountGo_pos he hr.2.2 hb.2.2 _ hE
          simp only [Bool.false_eq_true, or_self, if_false, and_self, if_true, List.headD_cons,
            List.tail_cons, Bdd.takeThen_drawFor hct true]
          refine ⟨by rw [ih1], ?_⟩
          intro r hr'
          rcases List.mem_cons.mp hr' with rfl | hr'
          · exact Bdd.drawFor_lt hce true
          · exact ih2 r hr'
        · simp only [or_true, if_true, Bool.false_eq_true, if_false, Bool.true_eq_false, and_false]
          exact ⟨by rw [ih1], ih2⟩

/-! ## enumeration of the cubes and the total probability -/

theorem mem_rootPathsGo {n : CNode} {tag : Bool} {c : List (Nat × Bool)} :
    c ∈ rootPathsGo tag n ↔ RootPathGo tag n c := by
  induction n generalizing tag c with
  | top =>
    cases tag <;> cases c <;> simp [rootPathsGo, RootPathGo]
  | node l t en e iht ihe =>
    cases c with
    | nil => simp [rootPathsGo, RootPathGo]
    | cons q p =>
      obtain ⟨l', b⟩ := q
      simp only [rootPathsGo, List.mem_append, List.mem_map, List.cons.injEq, Prod.mk.injEq,
        RootPathGo]
      constructor
      · rintro (⟨a, ha, ⟨rfl, rfl⟩, rfl⟩ | ⟨a, ha, ⟨rfl, rfl⟩, rfl⟩)
        · exact ⟨rfl, by simpa using iht.mp ha⟩
        · exact ⟨rfl, by simpa using ihe.mp ha⟩
      · rintro ⟨rfl, h⟩
        cases b
        · exact .inr ⟨p, ihe.mpr (by simpa using h), ⟨rfl, rfl⟩, rfl⟩
        · exact .inl ⟨p, iht.mpr (by simpa using h), ⟨rfl, rfl⟩, rfl⟩

theorem rootPathsGo_nodup (n : CNode) (tag : Bool) : (rootPathsGo tag n).Nodup := by
  induction n generalizing tag with
  | top => cases tag <;> simp [rootPathsGo]
  | node l t en e iht ihe =>
    simp only [rootPathsGo]
    rw [List.nodup_append]
    refine ⟨?_, ?_, ?_⟩
    · exact List.Pairwise.map _ (fun a b h => by simpa using h) (iht tag)
    · exact List.Pairwise.map _ (fun a b h => by simpa using h) (ihe _)
    · intro a ha b hb
      simp only [List.mem_map] at ha hb
      obtain ⟨_, _, rfl⟩ := ha
      obtain ⟨_, _, rfl⟩ := hb
      simp

theorem rootPathsGo_weight {vars k : Nat} {n : CNode} (ho : Ordered k n) (hb : Below vars n)
    (hk : k ≤ vars) (tag : Bool) :
    natSum ((rootPathsGo tag n).map (Bdd.cubeWeight vars)) = satCountGo vars tag n := by
  induction ho generalizing tag with
  | top => cases tag <;> simp [rootPathsGo, natSum, Bdd.cubeWeight, satCountGo]
  | @node k l t e en hkl ht he iht ihe =>
    have hlv : l < vars := hb.1
    have h2 := satCountGo_node_twice (.node hkl ht he) hb tag
    have ht' := iht hb.2.1 (by omega) tag
    have he' := ihe hb.2.2 (by omega) (tag != en)
    have lt : ∀ p ∈ rootPathsGo tag t, p.length < vars := fun p hp => by
      have := rootPathGo_length ht hb.2.1 (by omega) (mem_rootPathsGo.mp hp); omega
    have le : ∀ p ∈ rootPathsGo (tag != en) e, p.length < vars := fun p hp => by
      have := rootPathGo_length he hb.2.2 (by omega) (mem_rootPathsGo.mp hp); omega
    have w1 := Bdd.natSum_weights_cons vars (l, true) (rootPathsGo tag t) lt
    have w2 := Bdd.natSum_weights_cons vars (l, false) (rootPathsGo (tag != en) e) le
    simp only [rootPathsGo, List.map_append, natSum_append]
    omega

end OxiddModel.Bcdd
