import OxiddModel.Bcdd.KeysCX
import OxiddModel.Bcdd.PropertiesC06

/-!
# Concrete stores and key-parameterised variants for the negative witnesses of
`Bcdd/PropertiesC04S.lean`

Supporting definitions only; the witness theorems themselves are headline theorems in
`PropertiesC04S.lean`.

* `unfoldC?` / `unfoldC?_sound`: deciding `DenotesC` on concrete stores.
* `exC`: a store with `x1`, `x0 ∧ x1`, `x0 ∨ x1`, `x0` (their complements are the same nodes);
  `wC`: a three-variable store for the `restrict` witness in which the inner walk moves.
* `quantSK`, `restrictSK`, `applyQuantSK`, `substituteSK`: **the same code as `quantS`, `restrictS`,
  `applyQuantS`, `substituteS` with the cache keys as parameters** (`…SK_real`: instantiated with the
  keys of the Rust code they *are* those functions). The defective key functions (`qk…`, `rk…`,
  `ak…`, `sk…`) drop or replace one key component each; among them the two seeded patterns
  `qkShadow` (the entry is added under the variable set *without* its popped top variable while the
  lookup uses the full set) and `rkOuter` (`restrict` keyed by the edge the outer call started with
  instead of the node the inner walk reached).
-/
namespace OxiddModel.Bcdd.C04SW
open OxiddModel.Bcdd OxiddModel.Bcdd.CNode OxiddModel.Bcdd.Refine
open OxiddModel.Bdd.Refine (Policy OpTag Key Cache)

/-! ## deciding `DenotesC` on concrete stores -/

/-- unfold a target into the tree node it denotes -/
def unfoldN? (s : StoreC) : Nat → Tgt → Option CNode
  | _, .term => some .top
  | 0, .inner _ => none
  | fuel+1, .inner i =>
    match s.get? i with
    | none => none
    | some n =>
      match unfoldN? s fuel n.t, unfoldN? s fuel n.e.tgt with
      | some t, some e => some (.node n.level t n.e.neg e)
      | _, _ => none

def unfoldC? (s : StoreC) (fuel : Nat) (x : EdgeC) : Option Edge :=
  (unfoldN? s fuel x.tgt).map fun n => ⟨x.neg, n⟩

theorem unfoldN?_sound {s : StoreC} (fuel : Nat) : ∀ {x : Tgt} {a : CNode},
    unfoldN? s fuel x = some a → DenN s x a := by
  induction fuel with
  | zero =>
    intro x a h
    cases x with
    | term => simp only [unfoldN?, Option.some.injEq] at h; subst h; exact .term
    | inner i => simp [unfoldN?] at h
  | succ fuel ih =>
    intro x a h
    cases x with
    | term => simp only [unfoldN?, Option.some.injEq] at h; subst h; exact .term
    | inner i =>
      simp only [unfoldN?] at h
      cases hi : s.get? i with
      | none => simp [hi] at h
      | some n =>
        simp only [hi] at h
        cases ht : unfoldN? s fuel n.t with
        | none => simp [ht] at h
        | some t =>
          cases he : unfoldN? s fuel n.e.tgt with
          | none => simp [ht, he] at h
          | some e =>
            simp only [ht, he, Option.some.injEq] at h
            subst h
            obtain ⟨l, nt, ⟨nen, ne⟩⟩ := n
            exact .inner hi (ih ht) (ih he)

theorem unfoldC?_sound {s : StoreC} (fuel : Nat) {x : EdgeC} {a : Edge}
    (h : unfoldC? s fuel x = some a) : DenotesC s x a := by
  unfold unfoldC? at h
  cases hn : unfoldN? s fuel x.tgt with
  | none => simp [hn] at h
  | some n =>
    simp only [hn, Option.map_some, Option.some.injEq] at h
    subst h
    exact ⟨rfl, unfoldN?_sound fuel hn⟩

/-! ## the two-variable example store -/

/-- `x1` (as a variable set: `{x1}`) -/
def cX1 : Edge := var 1
/-- `x0` -/
def cX0 : Edge := var 0
/-- `x0 ∧ x1` (as a variable set: `{x0, x1}`) -/
def cAnd : Edge := ⟨false, .node 0 (.node 1 .top true .top) true .top⟩
/-- `x0 ∨ x1` -/
def cOr : Edge := ⟨false, .node 0 .top false (.node 1 .top true .top)⟩

/-- `#0 = x1`, `#1 = x0 ∧ x1`, `#2 = x0 ∨ x1`, `#3 = x0` -/
def exC : StoreC := (internE (internE (internE ⟨#[]⟩ cAnd).1 cOr).1 cX0).1

example : exC.nodes =
    #[some ⟨1, .term, ⟨true, .term⟩⟩, some ⟨0, .inner 0, ⟨true, .term⟩⟩,
      some ⟨0, .term, ⟨false, .inner 0⟩⟩, some ⟨0, .term, ⟨true, .term⟩⟩] := by decide +kernel

theorem exC_unique : exC.Unique :=
  internE_unique _ _ (internE_unique _ _ (internE_unique _ _ C06.empty_unique))
theorem exC_nored : exC.NoRed :=
  internE_nored _ _ (internE_nored _ _ (internE_nored _ _ C06.empty_nored))

theorem exC_x1 : DenotesC exC ⟨false, .inner 0⟩ cX1 := unfoldC?_sound 3 (by decide +kernel)
theorem exC_and : DenotesC exC ⟨false, .inner 1⟩ cAnd := unfoldC?_sound 3 (by decide +kernel)
theorem exC_or : DenotesC exC ⟨false, .inner 2⟩ cOr := unfoldC?_sound 3 (by decide +kernel)
theorem exC_x0 : DenotesC exC ⟨false, .inner 3⟩ cX0 := unfoldC?_sound 3 (by decide +kernel)
theorem exC_nx1 : DenotesC exC ⟨true, .inner 0⟩ (applyNot cX1) := exC_x1.not
theorem exC_nor : DenotesC exC ⟨true, .inner 2⟩ (applyNot cOr) := exC_or.not

/-- any registry will do where no substitution is involved -/
def regC0 : Nat → List Edge := fun _ => []

theorem exC_inv (reg : Nat → List Edge) : InvCX reg ⟨exC, [], 0⟩ :=
  ⟨exC_unique, CacheOKCX.nil _ _⟩

/-! ## the three-variable store for `restrict` -/

def wX2n : CNode := .node 2 .top true .top
/-- `x1 ∧ x2` -/
def wG : Edge := ⟨false, .node 1 wX2n true .top⟩
/-- `x1 ∨ x2` -/
def wH : Edge := ⟨false, .node 1 .top false wX2n⟩
/-- `f = x0 ? x1 ∧ x2 : x1 ∨ x2` -/
def wF : Edge := ⟨false, .node 0 wG.n false wH.n⟩
/-- the cube `x0 ∧ x2` -/
def wCubeP : Edge := ⟨false, .node 0 wX2n true .top⟩
/-- the cube `¬x0 ∧ x2` = `¬(x0 ? ⊤ : ¬x2)` -/
def wCubeN : Edge := ⟨true, .node 0 .top true wX2n⟩
/-- `x1` -/
def wX1 : Edge := var 1

/-- `#0 = x2`, `#1 = x1 ∧ x2`, `#2 = x1 ∨ x2`, `#3 = f`, `#4 = x0 ∧ x2`, `#5 = x0 ? ⊤ : ¬x2`,
`#6 = x1` -/
def wC : StoreC := (internE (internE (internE (internE ⟨#[]⟩ wF).1 wCubeP).1 wCubeN).1 wX1).1

example : wC.nodes =
    #[some ⟨2, .term, ⟨true, .term⟩⟩, some ⟨1, .inner 0, ⟨true, .term⟩⟩,
      some ⟨1, .term, ⟨false, .inner 0⟩⟩, some ⟨0, .inner 1, ⟨false, .inner 2⟩⟩,
      some ⟨0, .inner 0, ⟨true, .term⟩⟩, some ⟨0, .term, ⟨true, .inner 0⟩⟩,
      some ⟨1, .term, ⟨true, .term⟩⟩] := by decide +kernel

theorem wC_unique : wC.Unique :=
  internE_unique _ _ (internE_unique _ _ (internE_unique _ _ (internE_unique _ _ C06.empty_unique)))
theorem wC_nored : wC.NoRed :=
  internE_nored _ _ (internE_nored _ _ (internE_nored _ _ (internE_nored _ _ C06.empty_nored)))

theorem wC_x2 : DenotesC wC ⟨false, .inner 0⟩ (var 2) := unfoldC?_sound 4 (by decide +kernel)
theorem wC_g : DenotesC wC ⟨false, .inner 1⟩ wG := unfoldC?_sound 4 (by decide +kernel)
theorem wC_f : DenotesC wC ⟨false, .inner 3⟩ wF := unfoldC?_sound 4 (by decide +kernel)
theorem wC_cubeP : DenotesC wC ⟨false, .inner 4⟩ wCubeP := unfoldC?_sound 4 (by decide +kernel)
theorem wC_cubeN : DenotesC wC ⟨true, .inner 5⟩ wCubeN := unfoldC?_sound 4 (by decide +kernel)

/-! ## `quant` with the cache keys as parameters -/

/-- the key functions receive the quantifier, `f`, the popped `vars` and `vt` -/
abbrev QKey := Quant → EdgeC → EdgeC → EdgeC → Key

/-- `quantS` with the key of the lookup (`kget`) and of the insertion (`kadd`) as parameters -/
def quantSK (kget kadd : QKey) (p : Policy) (q : Quant) (af : Nat) :
    Nat → StC → EdgeC → EdgeC → StC × EdgeC
  | 0, st, f, _ => (st, f)
  | fuel+1, st, f, vars =>
    match f.tgt with
    | .term =>
      if q ≠ .unique || vars.tgt.isTerm then (st, f) else (st, termC false)
    | .inner i =>
      match st.store.get? i with
      | none => (st, f)
      | some fn =>
        let vars := if q ≠ .unique then st.store.setPopC af vars fn.level else vars
        match vars.tgt with
        | .term => (st, f)
        | .inner j =>
          match st.store.get? j with
          | none => (st, f)
          | some vn =>
            if q = .unique ∧ vn.level < fn.level then (st, termC false) else
            let vt : EdgeC := if vn.level = fn.level then ⟨false, vn.t⟩ else vars
            match p.get st.tick st.cache (kget q f vars vt) with
            | some r => (st.tickd, dec r)
            | none =>
              let r1 := quantSK kget kadd p q af fuel st.tickd ⟨f.neg, fn.t⟩ vt
              let r0 := quantSK kget kadd p q af fuel r1.1 ⟨f.neg != fn.e.neg, fn.e.tgt⟩ vt
              if fn.level = vn.level then
                let r := applyOpS p q.toOp af r0.1 r1.2 r0.2
                addC p r.1 (kadd q f vars vt) r.2
              else
                finishC p r0.1 (kadd q f vars vt) fn.level r1.2 r0.2

/-- the key of the Rust code: `(Q, [f, vars])` -/
def qkReal : QKey := fun q f vars _ => encKeyC (quantKey q f vars)
/-- variable set dropped -/
def qkNoVars : QKey := fun q f _ _ => encKeyC ⟨.quant q, [f], []⟩
/-- the seeded pattern: the insertion is keyed by `vt` (the set *without* its popped top variable) -/
def qkShadow : QKey := fun q f _ vt => encKeyC (quantKey q f vt)
/-- complement tag of `f` dropped -/
def qkNoTag : QKey := fun q f vars _ => encKeyC (quantKey q ⟨false, f.tgt⟩ vars)
/-- quantifier dropped (all three memoise under `Forall`) -/
def qkNoQ : QKey := fun _ f vars _ => encKeyC (quantKey .forall_ f vars)

theorem quantSK_real (p : Policy) (q : Quant) (af fuel : Nat) : ∀ (st : StC) (f vars : EdgeC),
    quantSK qkReal qkReal p q af fuel st f vars = quantS p q af fuel st f vars := by
  induction fuel with
  | zero => intro st f vars; rfl
  | succ fuel ih =>
    intro st f vars
    simp only [quantSK, quantS, qkReal, ih]
    rfl

/-! ## `restrict` with the cache key as parameter -/

/-- the key function receives the edge `f` the *outer* call started with, the node `f'` the inner
walk reached, and the cube edge `vars'` the walk reached (retagged) -/
abbrev RKey := EdgeC → Tgt → EdgeC → Key

/-- `restrictS` with the key as parameter; `xorHit = false` returns a cached result without
applying `^ f_tag` -/
def restrictSK (key : RKey) (xorHit : Bool) (p : Policy) : Nat → StC → EdgeC → EdgeC → StC × EdgeC
  | 0, st, f, _ => (st, f)
  | fuel+1, st, f, vars =>
    match restrictInnerC st.store (fuel + 1) f.tgt f.neg vars.tgt vars.neg with
    | .done r => (st, r)
    | .recur f' fneg vars' =>
      match p.get st.tick st.cache (key f f' vars') with
      | some r => (st.tickd, if xorHit then xorTagE fneg (dec r) else dec r)
      | none =>
        match f' with
        | .term => (st.tickd, ⟨fneg, f'⟩)
        | .inner i =>
          match st.store.get? i with
          | none => (st.tickd, ⟨fneg, f'⟩)
          | some fn =>
            let r1 := restrictSK key xorHit p fuel st.tickd ⟨false, fn.t⟩ vars'
            let r0 := restrictSK key xorHit p fuel r1.1 fn.e vars'
            let m := finishC p r0.1 (key f f' vars') fn.level r1.2 r0.2
            (m.1, xorTagE fneg m.2)

/-- the key of the Rust code: `(Restrict, [f'_untagged, vars'])` -/
def rkReal : RKey := fun _ f' vars' => encKeyC (restrictKey ⟨false, f'⟩ vars')
/-- cube dropped -/
def rkNoCube : RKey := fun _ f' _ => encKeyC ⟨.restrict, [⟨false, f'⟩], []⟩
/-- the seeded pattern: keyed by the (untagged) edge the outer call started with -/
def rkOuter : RKey := fun f _ vars' => encKeyC (restrictKey ⟨false, f.tgt⟩ vars')
/-- accumulated tag of the cube dropped -/
def rkVarsNoTag : RKey := fun _ f' vars' => encKeyC (restrictKey ⟨false, f'⟩ ⟨false, vars'.tgt⟩)

theorem restrictSK_real (p : Policy) (fuel : Nat) : ∀ (st : StC) (f vars : EdgeC),
    restrictSK rkReal true p fuel st f vars = restrictS p fuel st f vars := by
  induction fuel with
  | zero => intro st f vars; rfl
  | succ fuel ih =>
    intro st f vars
    simp only [restrictSK, restrictS, rkReal, ih, if_true]
    rfl

/-! ## `apply_quant` with the cache key as parameter -/

abbrev AKey := Quant → QOp → EdgeC → EdgeC → EdgeC → Key

/-- `applyQuantS` with the key as parameter -/
def applyQuantSK (key : AKey) (p : Policy) (q : Quant) (op : QOp) (af : Nat) :
    Nat → StC → EdgeC → EdgeC → EdgeC → StC × EdgeC
  | 0, st, f, _, _ => (st, f)
  | fuel+1, st, f, g, vars =>
    match terminalOpS op.bop f g with
    | .nodes =>
      let k := orderPair f g
      aqBodyK key p q op af (applyQuantSK key p q op af fuel) st k.1 k.2 vars
    | .done h =>
      if op = .uniqueNand then quantS p q af af st (notE h) vars else quantS p q af af st h vars

/-- the key of the Rust code: `(from_apply_quant(Q, OP), [f, g, vars])` -/
def akReal : AKey := fun q op f g vars => encKeyC (applyQuantKey q op f g vars)
/-- native operator dropped (`Xor` memoised under the `And` operator) -/
def akNoOp : AKey := fun q _ f g vars => encKeyC (applyQuantKey q .and f g vars)
/-- quantifier dropped -/
def akNoQ : AKey := fun _ op f g vars => encKeyC (applyQuantKey .forall_ op f g vars)
/-- second operand dropped -/
def akNoG : AKey := fun q op f _ vars => encKeyC ⟨.applyQuant q op, [f, vars], []⟩
/-- variable set dropped -/
def akNoVars : AKey := fun q op f g _ => encKeyC ⟨.applyQuant q op, [f, g], []⟩
/-- complement tags of the operands dropped -/
def akNoTags : AKey := fun q op f g vars =>
  encKeyC (applyQuantKey q op ⟨false, f.tgt⟩ ⟨false, g.tgt⟩ vars)

theorem applyQuantSK_real (p : Policy) (q : Quant) (op : QOp) (af fuel : Nat) :
    ∀ (st : StC) (f g vars : EdgeC),
    applyQuantSK akReal p q op af fuel st f g vars = applyQuantS p q op af fuel st f g vars := by
  induction fuel with
  | zero => intro st f g vars; rfl
  | succ fuel ih =>
    intro st f g vars
    have hrec : applyQuantSK akReal p q op af fuel = applyQuantS p q op af fuel := by
      funext st f g vars; exact ih st f g vars
    simp only [applyQuantSK, applyQuantS, hrec]
    rfl

/-! ## `substitute` with the cache key as parameter -/

abbrev SKey := EdgeC → Nat → Key

def substituteSK (key : SKey) (p : Policy) (subst : List EdgeC) (id : Nat) (af : Nat) :
    Nat → StC → EdgeC → StC × EdgeC
  | 0, st, f => (st, f)
  | fuel+1, st, f =>
    match f.tgt with
    | .term => (st, f)
    | .inner i =>
      match st.store.get? i with
      | none => (st, f)
      | some fn =>
        match subst[fn.level]? with
        | none => (st, f)
        | some rep =>
          match p.get st.tick st.cache (key f id) with
          | some h => (st.tickd, dec h)
          | none =>
            let r1 := substituteSK key p subst id af fuel st.tickd ⟨f.neg, fn.t⟩
            let r0 := substituteSK key p subst id af fuel r1.1 ⟨f.neg != fn.e.neg, fn.e.tgt⟩
            let r := iteS p af r0.1 rep r1.2 r0.2
            addC p r.1 (key f id) r.2

/-- the key of the Rust code: `(Substitute, [f], [cache_id])` -/
def skReal : SKey := fun f id => encKeyC (substKey f id)
/-- substitution id dropped -/
def skNoId : SKey := fun f _ => encKeyC ⟨.substitute, [f], []⟩
/-- complement tag of `f` dropped -/
def skNoTag : SKey := fun f id => encKeyC (substKey ⟨false, f.tgt⟩ id)

theorem substituteSK_real (p : Policy) (subst : List EdgeC) (id af fuel : Nat) :
    ∀ (st : StC) (f : EdgeC),
    substituteSK skReal p subst id af fuel st f = substituteS p subst id af fuel st f := by
  induction fuel with
  | zero => intro st f; rfl
  | succ fuel ih =>
    intro st f
    simp only [substituteSK, substituteS, skReal, ih]
    rfl

/-- two replacement vectors for level 0: `x0 ↦ x1` and `x0 ↦ ¬x1` -/
def cSub1 : List EdgeC := [⟨false, .inner 0⟩]
def cSub2 : List EdgeC := [⟨true, .inner 0⟩]
def cSv1 : List Edge := [cX1]
def cSv2 : List Edge := [applyNot cX1]

theorem exC_sub1 : DenotesLC exC cSub1 cSv1 := .cons exC_x1 .nil
theorem exC_sub2 : DenotesLC exC cSub2 cSv2 := .cons exC_nx1 .nil

end OxiddModel.Bcdd.C04SW
