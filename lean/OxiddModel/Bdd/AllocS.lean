import OxiddModel.Bdd.CapS

/-!
# Arbitrary slot allocation: the results do not depend on where nodes are placed

`Store.mkNodeA alloc` is `reduce` over a store whose allocator `alloc : Store → Node → Nat` may
pick **any free slot** (`AllocOK alloc`: the chosen index is free, `get? = none`; it may lie beyond
the end of the array, which then grows with empty padding). This covers

* the index-based manager: free-list head, bump allocation, thread-local chunks
  (`crates/oxidd-manager-index/src/manager.rs`, `add_node` / `get_slot_from_shared`), and
* the pointer-based manager, where the "index" is any address the allocator returns
  (`crates/oxidd-manager-pointer`).

`Store.mkNode` of `StoreRefine.lean` is the instance `alloc = firstFree`.

Contents: `put`, `mkNodeA` and its lemmas; well-formedness `Store.WF` (no dangling child edges),
`Present s t` (some edge of `s` denotes `t`), `SameTrees`; `internA` with the two-store theorem
`internA_same`: interning the same tree into two stores that hold the same trees and equally many
nodes, with two different allocators, yields stores that again hold the same trees and equally
many nodes. The algorithms `notA/applyA/iteA` follow in `ApplyA.lean`.
-/
namespace OxiddModel.Bdd.Refine
open OxiddModel.Bdd OxiddModel.Bdd.BDD

/-! ## writing a node at an arbitrary free index -/

/-- write `n` at index `i`; the array grows with empty slots if `i` is beyond the end -/
def Store.put (s : Store) (i : Nat) (n : Node) : Store :=
  if i < s.nodes.size then ⟨s.nodes.set! i (some n)⟩
  else ⟨(s.nodes ++ Array.replicate (i - s.nodes.size) none).push (some n)⟩

theorem get?_put (s : Store) (i : Nat) (n : Node) (j : Nat) :
    (s.put i n).get? j = if j = i then some n else s.get? j := by
  unfold Store.put
  split
  · rename_i hlt
    simp only [Store.get?]
    by_cases hj : j = i
    · subst hj; simp [Array.set!, hlt]
    · simp [Array.set!, hj, Ne.symm hj]
  · rename_i hge
    simp only [Store.get?, Array.getElem?_push, Array.size_append, Array.size_replicate]
    have hsz : s.nodes.size + (i - s.nodes.size) = i := by omega
    rw [hsz]
    by_cases hj : j = i
    · simp [hj]
    · simp only [hj, if_false, Array.getElem?_append, Array.getElem?_replicate]
      by_cases hlt : j < s.nodes.size
      · simp [hlt]
      · simp only [hlt, if_false]
        have : s.nodes[j]? = none := by simp; omega
        rw [this]
        split <;> rfl

theorem count_put (s : Store) (i : Nat) (n : Node) (hfree : s.get? i = none) :
    (s.put i n).count = s.count + 1 := by
  unfold Store.put
  split
  · rename_i hlt
    have hn : s.nodes[i] = none := by
      simp only [Store.get?] at hfree
      cases hx : s.nodes[i] with
      | none => rfl
      | some x => simp [hlt, hx] at hfree
    simp only [Store.count, Array.set!_eq_setIfInBounds, Array.setIfInBounds_def, hlt, dite_true]
    rw [Array.countP_set]
    simp [hn]
  · simp [Store.count, Array.countP_append, Array.countP_replicate]

abbrev Alloc := Store → Node → Nat

/-- the allocator returns a free slot -/
def AllocOK (alloc : Alloc) : Prop := ∀ (s : Store) (n : Node), s.get? (alloc s n) = none

/-- `reduce` over an arbitrary allocator -/
def Store.mkNodeA (alloc : Alloc) (s : Store) (level : Nat) (t e : Edge) : Store × Edge :=
  if t = e then (s, t) else
  match s.find? ⟨level, t, e⟩ with
  | some i => (s, .inner i)
  | none => (s.put (alloc s ⟨level, t, e⟩) ⟨level, t, e⟩, .inner (alloc s ⟨level, t, e⟩))

theorem put_le {s : Store} {i : Nat} (n : Node) (hfree : s.get? i = none) : s.Le (s.put i n) := by
  intro j m hj
  rw [get?_put]
  split
  · rename_i h; subst h; rw [hfree] at hj; cases hj
  · exact hj

theorem mkNodeA_le {alloc : Alloc} (hok : AllocOK alloc) (s : Store) (l : Nat) (t e : Edge) :
    s.Le (s.mkNodeA alloc l t e).1 := by
  unfold Store.mkNodeA
  split
  · exact Store.Le.refl _
  · split
    · exact Store.Le.refl _
    · exact put_le _ (hok _ _)

theorem mkNodeA_denotes {alloc : Alloc} (hok : AllocOK alloc) (s : Store) (l : Nat) (t e : Edge)
    (tt te : BDD) (ht : Denotes s t tt) (he : Denotes s e te) (inj : s.Inj) :
    Denotes (s.mkNodeA alloc l t e).1 (s.mkNodeA alloc l t e).2 (mk l tt te) := by
  have hle := mkNodeA_le hok s l t e
  unfold Store.mkNodeA at *
  unfold mk
  by_cases hte : t = e
  · subst hte
    have := Denotes.functional ht he
    simp [this]; exact he
  · have hne : tt ≠ te := fun h => hte (inj _ _ _ ht (h ▸ he))
    simp only [hte, hne, if_false] at *
    split
    · rename_i i hi
      exact .inner (find?_some hi) ht he
    · rename_i hnone
      simp only [hnone] at hle
      refine .inner ?_ (ht.mono hle) (he.mono hle)
      rw [get?_put]; simp

theorem mkNodeA_unique {alloc : Alloc} (s : Store) (l : Nat) (t e : Edge) (hu : s.Unique) :
    (s.mkNodeA alloc l t e).1.Unique := by
  unfold Store.mkNodeA
  split
  · exact hu
  · split
    · exact hu
    · rename_i hnone
      intro i j n hi hj
      simp only [get?_put] at hi hj
      split at hi <;> split at hj
      · omega
      · cases hi; exact absurd hj (find?_none hnone j)
      · cases hj; exact absurd hi (find?_none hnone i)
      · exact hu i j n hi hj

theorem mkNodeA_nored {alloc : Alloc} (s : Store) (l : Nat) (t e : Edge) (hr : s.NoRed) :
    (s.mkNodeA alloc l t e).1.NoRed := by
  unfold Store.mkNodeA
  split
  · exact hr
  · rename_i hte
    split
    · exact hr
    · intro i n hi
      simp only [get?_put] at hi
      split at hi
      · cases hi; exact hte
      · exact hr i n hi

/-- the allocator of `Store.alloc`: first empty slot, else the end -/
def firstFree : Alloc := fun s n => (s.alloc n).2

theorem firstFree_ok : AllocOK firstFree := fun s n => alloc_fresh s n

theorem alloc_eq_put (s : Store) (n : Node) : (s.alloc n).1 = s.put (s.alloc n).2 n := by
  unfold Store.alloc
  split
  · rename_i i hi
    have hlt : i < s.nodes.size := (Array.findIdx?_eq_some_iff_findIdx_eq.mp hi).1
    simp [Store.put, hlt]
  · simp [Store.put]

/-- `Store.mkNode` is the instance `alloc = firstFree` -/
theorem mkNode_eq_mkNodeA (s : Store) (l : Nat) (t e : Edge) :
    s.mkNode l t e = s.mkNodeA firstFree l t e := by
  unfold Store.mkNode Store.mkNodeA firstFree
  by_cases hte : t = e
  · simp [hte]
  · cases hf : s.find? ⟨l, t, e⟩ with
    | some i => simp [hte]
    | none => simp only [hte, if_false, alloc_eq_put]

/-- bump allocation: always the end of the array -/
def bumpAlloc : Alloc := fun s _ => s.nodes.size
theorem bumpAlloc_ok : AllocOK bumpAlloc := fun s _ => by simp [Store.get?, bumpAlloc]

/-- "some address": beyond the end by an arbitrary, node-dependent offset (thread-local chunks of
the index-based manager, or heap addresses of the pointer-based manager) -/
def farAlloc (off : Node → Nat) : Alloc := fun s n => s.nodes.size + off n
theorem farAlloc_ok (off : Node → Nat) : AllocOK (farAlloc off) := fun s n => by
  simp [Store.get?, farAlloc]

/-! ## well-formedness, the set of trees of a store -/

/-- every stored node unfolds to a tree: no dangling child edges -/
def Store.WF (s : Store) : Prop := ∀ i n, s.get? i = some n → ∃ t, Denotes s (.inner i) t

/-- some edge of the store denotes `t` -/
def Present (s : Store) (t : BDD) : Prop := ∃ e, Denotes s e t

/-- the two stores hold the same trees (as sets) -/
def SameTrees (s₁ s₂ : Store) : Prop := ∀ t, Present s₁ t ↔ Present s₂ t

theorem SameTrees.refl (s : Store) : SameTrees s s := fun _ => Iff.rfl
theorem SameTrees.symm {a b : Store} (h : SameTrees a b) : SameTrees b a := fun t => (h t).symm
theorem SameTrees.trans {a b c : Store} (h1 : SameTrees a b) (h2 : SameTrees b c) : SameTrees a c :=
  fun t => (h1 t).trans (h2 t)

/-- in a hash-consed reduced store every denoted tree is reduced -/
theorem denotes_reduced {s : Store} (hu : s.Unique) (hr : s.NoRed) {x : Edge} {a : BDD}
    (h : Denotes s x a) : Reduced a := by
  induction h with
  | term => trivial
  | @inner i l t e tt te hi ht he iht ihe =>
    refine ⟨fun heq => ?_, iht, ihe⟩
    exact hr i _ hi (inj_of_unique hu _ _ _ ht (heq ▸ he))

theorem mkNodeA_wf {alloc : Alloc} (hok : AllocOK alloc) {s : Store} {l : Nat} {t e : Edge}
    {tt te : BDD} (hw : s.WF) (ht : Denotes s t tt) (he : Denotes s e te) :
    (s.mkNodeA alloc l t e).1.WF := by
  have hle := mkNodeA_le hok s l t e
  by_cases hte : t = e
  · simpa [Store.mkNodeA, hte] using hw
  · cases hf : s.find? ⟨l, t, e⟩ with
    | some i => simpa [Store.mkNodeA, hte, hf] using hw
    | none =>
      simp only [Store.mkNodeA, hte, if_false, hf] at hle ⊢
      intro j n hj
      rw [get?_put] at hj
      split at hj
      · rename_i hji
        cases hj
        subst hji
        exact ⟨_, .inner (show (s.put _ _).get? _ = some ⟨l, t, e⟩ by rw [get?_put]; simp)
          (ht.mono hle) (he.mono hle)⟩
      · obtain ⟨u, hu⟩ := hw j n hj
        exact ⟨u, hu.mono hle⟩

/-- is a fresh node needed? exactly when the tree is not present yet -/
theorem find?_none_iff_absent {s : Store} (hu : s.Unique) {l : Nat} {t e : Edge} {tt te : BDD}
    (ht : Denotes s t tt) (he : Denotes s e te) :
    s.find? ⟨l, t, e⟩ = none ↔ ¬ Present s (.node l tt te) := by
  constructor
  · intro hnone ⟨x, hx⟩
    cases hx with
    | @inner j _ t' e' _ _ hj ht' he' =>
      have h1 := inj_of_unique hu _ _ _ ht' ht
      have h2 := inj_of_unique hu _ _ _ he' he
      subst h1 h2
      exact find?_none hnone j hj
  · intro habs
    cases hf : s.find? ⟨l, t, e⟩ with
    | none => rfl
    | some i => exact absurd ⟨.inner i, .inner (find?_some hf) ht he⟩ habs

/-- **which trees a `reduce` adds**: exactly `mk l tt te` -/
theorem mkNodeA_present {alloc : Alloc} (hok : AllocOK alloc) {s : Store} {l : Nat} {t e : Edge}
    {tt te : BDD} (hu : s.Unique) (hw : s.WF) (ht : Denotes s t tt) (he : Denotes s e te) (u : BDD) :
    Present (s.mkNodeA alloc l t e).1 u ↔ Present s u ∨ u = mk l tt te := by
  have hden := mkNodeA_denotes hok s l t e tt te ht he (inj_of_unique hu)
  have hle := mkNodeA_le hok s l t e
  constructor
  · rintro ⟨x, hx⟩
    unfold Store.mkNodeA at hx hle
    by_cases hte : t = e
    · simp only [hte, if_true] at hx; exact .inl ⟨x, hx⟩
    · simp only [hte, if_false] at hx hle
      cases hf : s.find? ⟨l, t, e⟩ with
      | some i => simp only [hf] at hx; exact .inl ⟨x, hx⟩
      | none =>
        simp only [hf] at hx hle
        have hne : tt ≠ te := fun h => hte (inj_of_unique hu _ _ _ ht (h ▸ he))
        -- every tree of the new store is a tree of the old store or the new node's tree
        have key : ∀ x u, Denotes (s.put (alloc s ⟨l, t, e⟩) ⟨l, t, e⟩) x u →
            Present s u ∨ u = .node l tt te := by
          intro x u hx
          induction hx with
          | term => exact .inl ⟨_, .term⟩
          | @inner j l' t' e' tt' te' hj ht' he' _ _ =>
            rw [get?_put] at hj
            split at hj
            · cases hj
              have h1 := Denotes.functional ht' (ht.mono hle)
              have h2 := Denotes.functional he' (he.mono hle)
              subst h1 h2
              exact .inr rfl
            · rename_i hji
              obtain ⟨u', hu'⟩ := hw j _ hj
              have := Denotes.functional (hu'.mono hle)
                (Denotes.inner (by rw [get?_put, if_neg hji]; exact hj) ht' he')
              subst this
              exact .inl ⟨_, hu'⟩
        rcases key x u hx with h | h
        · exact .inl h
        · exact .inr (by simp [mk, hne, h])
  · rintro (⟨x, hx⟩ | h)
    · exact ⟨x, hx.mono hle⟩
    · subst h; exact ⟨_, hden⟩

/-- **how many nodes a `reduce` adds**: one iff `mk l tt te` is not present yet -/
theorem count_mkNodeA {alloc : Alloc} (hok : AllocOK alloc) {s : Store} {l : Nat} {t e : Edge}
    {tt te : BDD} (hu : s.Unique) (ht : Denotes s t tt) (he : Denotes s e te) :
    (Present s (mk l tt te) → (s.mkNodeA alloc l t e).1.count = s.count) ∧
    (¬ Present s (mk l tt te) → (s.mkNodeA alloc l t e).1.count = s.count + 1) := by
  by_cases hte : t = e
  · subst hte
    have := Denotes.functional ht he
    subst this
    have e1 : (s.mkNodeA alloc l t t).1 = s := by simp [Store.mkNodeA]
    have e2 : mk l tt tt = tt := by simp [mk]
    rw [e1, e2]
    exact ⟨fun _ => rfl, fun h => absurd ⟨t, ht⟩ h⟩
  · have hne : tt ≠ te := fun h => hte (inj_of_unique hu _ _ _ ht (h ▸ he))
    have e2 : mk l tt te = .node l tt te := by simp [mk, hne]
    rw [e2]
    cases hf : s.find? ⟨l, t, e⟩ with
    | some i =>
      have e1 : (s.mkNodeA alloc l t e).1 = s := by simp [Store.mkNodeA, hte, hf]
      rw [e1]
      exact ⟨fun _ => rfl, fun h => absurd ⟨.inner i, .inner (find?_some hf) ht he⟩ h⟩
    | none =>
      have e1 : (s.mkNodeA alloc l t e).1 = s.put (alloc s ⟨l, t, e⟩) ⟨l, t, e⟩ := by
        simp [Store.mkNodeA, hte, hf]
      rw [e1]
      exact ⟨fun h => absurd h ((find?_none_iff_absent hu ht he).mp hf),
        fun _ => count_put _ _ _ (hok _ _)⟩

/-! ## canonical interning with an arbitrary allocator -/

def internA (alloc : Alloc) (s : Store) : BDD → Store × Edge
  | .leaf b => (s, .term b)
  | .node l t e =>
    let r1 := internA alloc s t
    let r0 := internA alloc r1.1 e
    r0.1.mkNodeA alloc l r1.2 r0.2

theorem intern_eq_internA (s : Store) (a : BDD) : intern s a = internA firstFree s a := by
  induction a generalizing s with
  | leaf b => rfl
  | node l t e iht ihe => simp only [intern, internA, iht, ihe, mkNode_eq_mkNodeA]

theorem internA_le {alloc : Alloc} (hok : AllocOK alloc) (s : Store) (a : BDD) :
    s.Le (internA alloc s a).1 := by
  induction a generalizing s with
  | leaf b => exact Store.Le.refl _
  | node l t e iht ihe =>
    simp only [internA]
    exact (iht s).trans ((ihe _).trans (mkNodeA_le hok _ _ _ _))

theorem internA_unique {alloc : Alloc} (s : Store) (a : BDD) (hu : s.Unique) :
    (internA alloc s a).1.Unique := by
  induction a generalizing s with
  | leaf b => exact hu
  | node l t e iht ihe =>
    simp only [internA]
    exact mkNodeA_unique _ _ _ _ (ihe _ (iht s hu))

theorem internA_nored {alloc : Alloc} (s : Store) (a : BDD) (hr : s.NoRed) :
    (internA alloc s a).1.NoRed := by
  induction a generalizing s with
  | leaf b => exact hr
  | node l t e iht ihe =>
    simp only [internA]
    exact mkNodeA_nored _ _ _ _ (ihe _ (iht s hr))

theorem internA_of_denotes {alloc : Alloc} {s : Store} (hu : s.Unique) (hr : s.NoRed) {x : Edge}
    {a : BDD} (h : Denotes s x a) : internA alloc s a = (s, x) := by
  induction h with
  | term => rfl
  | @inner i l t e tt te hi _ _ iht ihe =>
    simp only [internA, iht, ihe]
    have hte : t ≠ e := hr i _ hi
    unfold Store.mkNodeA
    simp only [hte, if_false]
    cases hf : s.find? ⟨l, t, e⟩ with
    | none => exact absurd hi (find?_none hf i)
    | some j => rw [hu j i _ (find?_some hf) hi]

/-- interning a reduced tree: the edge denotes it, all invariants are kept -/
theorem internA_spec {alloc : Alloc} (hok : AllocOK alloc) (s : Store) (a : BDD) (hu : s.Unique)
    (hw : s.WF) (ha : Reduced a) :
    Denotes (internA alloc s a).1 (internA alloc s a).2 a ∧ (internA alloc s a).1.WF := by
  induction a generalizing s with
  | leaf b => exact ⟨.term, hw⟩
  | node l t e iht ihe =>
    simp only [internA]
    obtain ⟨h1, w1⟩ := iht s hu hw ha.2.1
    have u1 := internA_unique (alloc := alloc) s t hu
    obtain ⟨h0, w0⟩ := ihe _ u1 w1 ha.2.2
    have u0 := internA_unique (alloc := alloc) _ e u1
    have h1' := h1.mono (internA_le hok _ e)
    have := mkNodeA_denotes hok _ l _ _ _ _ h1' h0 (inj_of_unique u0)
    exact ⟨by simpa [mk, ha.1] using this, mkNodeA_wf hok w0 h1' h0⟩

/-- **Interning is allocator independent up to renaming of slots.** Two stores holding the same
trees and equally many nodes, two allocators, the same reduced tree: afterwards they hold the same
trees and equally many nodes again. -/
theorem internA_same {a₁ a₂ : Alloc} (ok₁ : AllocOK a₁) (ok₂ : AllocOK a₂) (T : BDD) :
    ∀ (s₁ s₂ : Store), s₁.Unique → s₂.Unique → s₁.WF → s₂.WF → Reduced T → SameTrees s₁ s₂ →
    s₁.count = s₂.count →
    SameTrees (internA a₁ s₁ T).1 (internA a₂ s₂ T).1 ∧
    (internA a₁ s₁ T).1.count = (internA a₂ s₂ T).1.count := by
  induction T with
  | leaf b => intro s₁ s₂ _ _ _ _ _ hs hc; exact ⟨hs, hc⟩
  | node l A B ihA ihB =>
    intro s₁ s₂ u₁ u₂ w₁ w₂ hT hs hc
    simp only [internA]
    obtain ⟨sA, cA⟩ := ihA s₁ s₂ u₁ u₂ w₁ w₂ hT.2.1 hs hc
    obtain ⟨dA₁, wA₁⟩ := internA_spec ok₁ s₁ A u₁ w₁ hT.2.1
    obtain ⟨dA₂, wA₂⟩ := internA_spec ok₂ s₂ A u₂ w₂ hT.2.1
    have uA₁ := internA_unique (alloc := a₁) s₁ A u₁
    have uA₂ := internA_unique (alloc := a₂) s₂ A u₂
    obtain ⟨sB, cB⟩ := ihB _ _ uA₁ uA₂ wA₁ wA₂ hT.2.2 sA cA
    obtain ⟨dB₁, wB₁⟩ := internA_spec ok₁ _ B uA₁ wA₁ hT.2.2
    obtain ⟨dB₂, wB₂⟩ := internA_spec ok₂ _ B uA₂ wA₂ hT.2.2
    have uB₁ := internA_unique (alloc := a₁) _ B uA₁
    have uB₂ := internA_unique (alloc := a₂) _ B uA₂
    have dA₁' := dA₁.mono (internA_le ok₁ _ B)
    have dA₂' := dA₂.mono (internA_le ok₂ _ B)
    refine ⟨fun u => ?_, ?_⟩
    · rw [mkNodeA_present ok₁ uB₁ wB₁ dA₁' dB₁, mkNodeA_present ok₂ uB₂ wB₂ dA₂' dB₂, sB u]
    · have c₁ := count_mkNodeA (l := l) ok₁ uB₁ dA₁' dB₁
      have c₂ := count_mkNodeA (l := l) ok₂ uB₂ dA₂' dB₂
      by_cases hp : Present (internA a₁ (internA a₁ s₁ A).1 B).1 (mk l A B)
      · rw [c₁.1 hp, c₂.1 ((sB _).mp hp), cB]
      · rw [c₁.2 hp, c₂.2 (fun h => hp ((sB _).mpr h)), cB]

end OxiddModel.Bdd.Refine
