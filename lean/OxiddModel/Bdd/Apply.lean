import OxiddModel.Bdd.Lemmas

/-! `apply_bin` and `apply_ite`: pointwise semantics and normal-form preservation, for all trees. -/
namespace OxiddModel.Bdd
open BDD

theorem applyBin_eval (op : Op) (f g : BDD) (σ : Nat → Bool) :
    (applyBin op f g).eval σ = op.sem (f.eval σ) (g.eval σ) := by
  fun_induction applyBin op f g with
  | case1 f g r h => exact terminalCase_sound op f g r h σ
  | case2 lf ft fe lg gt ge l h ih1 ih2 =>
    simp only [dite_eq_ite] at ih1 ih2
    rw [mk_eval, ih1, ih2]
    cases hσ : σ l
    · simp only [Bool.false_eq_true, if_false]
      rw [cof_eval_false σ l lf ft fe hσ, cof_eval_false σ l lg gt ge hσ]
    · simp only [if_true]
      rw [cof_eval_true σ l lf ft fe hσ, cof_eval_true σ l lg gt ge hσ]
  | case3 f g h hne =>
    exfalso
    obtain ⟨⟨lf, ft, fe, rfl⟩, ⟨lg, gt, ge, rfl⟩⟩ := terminalCase_none op f g h
    exact hne _ _ _ _ _ _ rfl rfl

theorem applyBin_ordered (op : Op) (f g : BDD) (n : Nat) (hf : Ordered n f) (hg : Ordered n g) :
    Ordered n (applyBin op f g) := by
  fun_induction applyBin op f g generalizing n with
  | case1 f g r h => exact terminalCase_ordered op f g r n h hf hg
  | case2 lf ft fe lg gt ge l h ih1 ih2 =>
    simp only [dite_eq_ite] at ih1 ih2
    have hlf : l ≤ lf := Nat.min_le_left _ _
    have hlg : l ≤ lg := Nat.min_le_right _ _
    have hn : n ≤ l := by
      cases hf with | node a _ _ => cases hg with | node b _ _ => exact Nat.le_min.mpr ⟨a, b⟩
    exact mk_ordered hn
      (ih1 _ (cof_ordered_t hlf hf) (cof_ordered_t hlg hg))
      (ih2 _ (cof_ordered_e hlf hf) (cof_ordered_e hlg hg))
  | case3 f g h hne => exact .leaf

theorem applyBin_reduced (op : Op) (f g : BDD) (hf : Reduced f) (hg : Reduced g) :
    Reduced (applyBin op f g) := by
  fun_induction applyBin op f g with
  | case1 f g r h => exact terminalCase_reduced op f g r h hf hg
  | case2 lf ft fe lg gt ge l h ih1 ih2 =>
    simp only [dite_eq_ite] at ih1 ih2
    exact mk_reduced (ih1 (cof_reduced_t hf) (cof_reduced_t hg)) (ih2 (cof_reduced_e hf) (cof_reduced_e hg))
  | case3 f g h hne => trivial

theorem applyBin_nf (op : Op) (f g : BDD) (n : Nat) (hf : NF n f) (hg : NF n g) :
    NF n (applyBin op f g) :=
  ⟨applyBin_ordered op f g n hf.1 hg.1, applyBin_reduced op f g hf.2 hg.2⟩

end OxiddModel.Bdd
