import OxiddModel.Bdd.AllocS

/-!
# `apply_not`, `apply_bin::<OP>`, `apply_ite` over an arbitrary allocator

`notA/applyA/iteA alloc p` are `notS/applyS/iteS p` of `ApplyS.lean` with `Store.mkNodeA alloc`
in place of `Store.mkNode` (text and proofs are the same; `notS = notA firstFree` etc., see
`notS_eq_notA`). `PostA alloc s T R`: invariant, store only extended, result denotes `T`, and
store and result are `internA alloc s T` — whatever the cache did.
-/
namespace OxiddModel.Bdd.Refine
open OxiddModel.Bdd OxiddModel.Bdd.BDD

/-! ## the algorithms -/

/-- the common tail of the three algorithms: `reduce`, then `apply_cache().add(..)` -/
def finishA (alloc : Alloc) (p : Policy) (st : St) (key : Key) (l : Nat) (e1 e0 : Edge) : St × Edge :=
  let m := st.store.mkNodeA alloc l e1 e0
  (⟨m.1, p.add st.tick st.cache key m.2, st.tick + 1⟩, m.2)

/-- `apply_not` -/
def notA (alloc : Alloc) (p : Policy) : Nat → St → Edge → St × Edge
  | 0, st, f => (st, f)
  | fuel+1, st, f =>
    match f with
    | .term b => (st, .term (!b))
    | .inner i =>
      -- query apply cache
      match p.get st.tick st.cache (.not, [f]) with
      | some h => (st.tickd, h)
      | none =>
        match st.store.get? i with
        | none => (st.tickd, f) -- dangling edge (excluded by `Denotes`)
        | some n =>
          let r1 := notA alloc p fuel st.tickd n.t
          let r0 := notA alloc p fuel r1.1 n.e
          finishA alloc p r0.1 (.not, [f]) n.level r1.2 r0.2

/-- `apply_bin::<OP>` -/
def applyA (alloc : Alloc) (p : Policy) (op : Op) : Nat → St → Edge → Edge → St × Edge
  | 0, st, f, _ => (st, f)
  | fuel+1, st, f, g =>
    match terminalBinS op f g with
    | .done h => (st, h)
    | .notOf h => notA alloc p fuel st h
    | .binary tag o1 o2 =>
      -- query apply cache
      match p.get st.tick st.cache (tag, [o1, o2]) with
      | some h => (st.tickd, h)
      | none =>
        match st.store.level? f, st.store.level? g with
        | some lf, some lg =>
          let l := min lf lg
          let r1 := applyA alloc p op fuel st.tickd (st.store.cofT l f) (st.store.cofT l g)
          let r0 := applyA alloc p op fuel r1.1 (st.store.cofE l f) (st.store.cofE l g)
          finishA alloc p r0.1 (tag, [o1, o2]) l r1.2 r0.2
        | _, _ => (st.tickd, f) -- dangling edge (excluded by `Denotes`)

/-- `apply_ite` -/
def iteA (alloc : Alloc) (p : Policy) : Nat → St → Edge → Edge → Edge → St × Edge
  | 0, st, f, _, _ => (st, f)
  | fuel+1, st, f, g, h =>
    if g = h then (st, g) else
    if f = g then applyA alloc p .or fuel st f h else
    if f = h then applyA alloc p .and fuel st f g else
    match f with
    | .term b => (st, if b then g else h)
    | .inner _ =>
      match g, h with
      | .term true, .inner _ => applyA alloc p .or fuel st f h
      | .term false, .inner _ => applyA alloc p .impStrict fuel st f h
      | .inner _, .term true => applyA alloc p .imp fuel st f g
      | .inner _, .term false => applyA alloc p .and fuel st f g
      | .term gb, .term _ => if gb then (st, f) else notA alloc p fuel st f
      | .inner _, .inner _ =>
        -- query apply cache
        match p.get st.tick st.cache (.ite, [f, g, h]) with
        | some r => (st.tickd, r)
        | none =>
          match st.store.level? f, st.store.level? g, st.store.level? h with
          | some lf, some lg, some lh =>
            let l := min (min lf lg) lh
            let r1 := iteA alloc p fuel st.tickd (st.store.cofT l f) (st.store.cofT l g) (st.store.cofT l h)
            let r0 := iteA alloc p fuel r1.1 (st.store.cofE l f) (st.store.cofE l g) (st.store.cofE l h)
            finishA alloc p r0.1 (.ite, [f, g, h]) l r1.2 r0.2
          | _, _, _ => (st.tickd, f) -- dangling edge (excluded by `Denotes`)

/-! ## the postcondition -/

/-- what every operation guarantees when started in store `s` to compute the tree `T` -/
structure PostA (alloc : Alloc) (s : Store) (T : BDD) (R : St × Edge) : Prop where
  /-- hash consing and cache soundness hold afterwards -/
  inv : Inv R.1
  /-- the store is only extended -/
  le : s.Le R.1.store
  /-- the result edge denotes the specified tree -/
  den : Denotes R.1.store R.2 T
  /-- store and result are the canonical ones, whatever the cache did -/
  canon : s.NoRed → (R.1.store, R.2) = internA alloc s T

theorem PostA.done {alloc : Alloc} {st : St} {e : Edge} {T : BDD} (hinv : Inv st) (hd : Denotes st.store e T) :
    PostA alloc st.store T (st, e) where
  inv := hinv
  le := Store.Le.refl _
  den := hd
  canon hr := (internA_of_denotes (alloc := alloc) hinv.1 hr hd).symm

theorem PostA.nored {alloc : Alloc} {s : Store} {T : BDD} {R : St × Edge} (h : PostA alloc s T R) (hr : s.NoRed) :
    R.1.store.NoRed := by
  have := h.canon hr
  have h1 : R.1.store = (internA alloc s T).1 := congrArg Prod.fst this
  rw [h1]; exact internA_nored (alloc := alloc) s T hr

/-- the two recursive results are combined by `reduce` + cache add -/
theorem finishA_post {alloc : Alloc} (hok : AllocOK alloc) {p : Policy} (pok : p.OK) {s : Store} {R1 R0 : St × Edge} {T1 T0 : BDD}
    (h1 : PostA alloc s T1 R1) (h0 : PostA alloc R1.1.store T0 R0) (key : Key) (l : Nat)
    (hkey : ∃ ts, DenotesL s key.2 ts ∧ specOf key.1 ts = some (mk l T1 T0)) :
    PostA alloc s (mk l T1 T0) (finishA alloc p R0.1 key l R1.2 R0.2) := by
  have inj0 := inj_of_unique h0.inv.1
  have denm := mkNodeA_denotes hok R0.1.store l R1.2 R0.2 T1 T0 (h1.den.mono h0.le) h0.den inj0
  have lem := mkNodeA_le hok R0.1.store l R1.2 R0.2
  have hle : s.Le (R0.1.store.mkNodeA alloc l R1.2 R0.2).1 := h1.le.trans (h0.le.trans lem)
  refine ⟨⟨mkNodeA_unique _ _ _ _ h0.inv.1, ?_⟩, hle, denm, ?_⟩
  · obtain ⟨ts, hd, hs⟩ := hkey
    exact CacheOK.add pok (h0.inv.2.mono lem) ⟨ts, _, hd.mono hle, hs, denm⟩ _
  · intro hr
    have c1 := h1.canon hr
    have hr1 := h1.nored hr
    have c0 := h0.canon hr1
    show ((R0.1.store.mkNodeA alloc l R1.2 R0.2).1, (R0.1.store.mkNodeA alloc l R1.2 R0.2).2) = internA alloc s (mk l T1 T0)
    have e1s : R1.1.store = (internA alloc s T1).1 := congrArg Prod.fst c1
    have e1e : R1.2 = (internA alloc s T1).2 := congrArg Prod.snd c1
    have e0s : R0.1.store = (internA alloc R1.1.store T0).1 := congrArg Prod.fst c0
    have e0e : R0.2 = (internA alloc R1.1.store T0).2 := congrArg Prod.snd c0
    unfold mk
    by_cases hT : T1 = T0
    · subst hT
      simp only [if_true]
      have hi := internA_of_denotes (alloc := alloc) h1.inv.1 hr1 h1.den
      rw [hi] at e0s e0e
      simp only at e0s e0e
      rw [e0s, e0e]
      simp only [Store.mkNodeA, if_true]
      rw [← c1]
    · simp only [hT, if_false, internA]
      rw [← e1s, ← e1e, ← e0s, ← e0e]

/-! ## `apply_not` -/

theorem notA_spec {alloc : Alloc} (hok : AllocOK alloc) {p : Policy} (pok : p.OK) (fuel : Nat) : ∀ (st : St) (f : Edge) (a : BDD),
    Inv st → Denotes st.store f a → a.size ≤ fuel →
    PostA alloc st.store (applyNot a) (notA alloc p fuel st f) := by
  induction fuel with
  | zero =>
    intro st f a _ _ hsz
    have := size_pos a
    omega
  | succ fuel ih =>
    intro st f a hinv hf hsz
    cases hf with
    | @term x => exact PostA.done hinv .term
    | @inner i l t e tt te hi hft hfe =>
      have hdf : Denotes st.store (.inner i) (.node l tt te) := .inner hi hft hfe
      simp only [notA]
      split
      · -- cache hit
        rename_i r hr
        have hent := hinv.2 _ _ (pok.get_mem _ _ _ _ hr)
        exact PostA.done (st := st.tickd) hinv.tickd (hent.hit (DenotesL.one hdf) rfl)
      · -- cache miss
        simp only [hi]
        simp only [BDD.size] at hsz
        have p1 := ih st.tickd t tt hinv.tickd hft (by omega)
        have p0 := ih _ e te p1.inv (hfe.mono p1.le) (by omega)
        exact finishA_post hok pok p1 p0 (.not, [.inner i]) l ⟨_, DenotesL.one hdf, rfl⟩

/-! ## `apply_bin::<OP>` -/

theorem applyA_spec {alloc : Alloc} (hok : AllocOK alloc) {p : Policy} (pok : p.OK) (op : Op) (fuel : Nat) :
    ∀ (st : St) (f g : Edge) (a b : BDD),
    Inv st → Denotes st.store f a → Denotes st.store g b → a.size + b.size ≤ fuel →
    PostA alloc st.store (applyBin op a b) (applyA alloc p op fuel st f g) := by
  induction fuel with
  | zero =>
    intro st f g a b _ _ _ hsz
    have := size_pos a
    omega
  | succ fuel ih =>
    intro st f g a b hinv hf hg hsz
    have hinj := inj_of_unique hinv.1
    have hc := terminalBinS_corr op hinj hf hg
    have hsa := size_pos a
    have hsb := size_pos b
    simp only [applyA]
    cases hS : terminalBinS op f g with
    | done e =>
      cases hT : terminalBin op a b with
      | done t =>
        rw [hS, hT] at hc
        rw [applyBin_done hT]
        exact PostA.done hinv hc
      | notOf t => rw [hS, hT] at hc; exact hc.elim
      | binary o x y => rw [hS, hT] at hc; exact hc.elim
    | notOf e =>
      cases hT : terminalBin op a b with
      | done t => rw [hS, hT] at hc; exact hc.elim
      | notOf t =>
        rw [hS, hT] at hc
        rw [applyBin_notOf hT]
        have hsh := terminalBin_shape op a b
        rw [hT] at hsh
        have : t.size ≤ fuel := by
          rcases hsh with h | h <;> subst h <;> omega
        exact notA_spec hok pok fuel st e t hinv hc this
      | binary o x y => rw [hS, hT] at hc; exact hc.elim
    | binary tag o1 o2 =>
      cases hT : terminalBin op a b with
      | done t => rw [hS, hT] at hc; exact hc.elim
      | notOf t => rw [hS, hT] at hc; exact hc.elim
      | binary o x y =>
        rw [hS, hT] at hc
        obtain ⟨htag, _, _, _, hkey⟩ := hc
        subst htag
        -- the key denotes the operands, in one or the other order
        have hkd : ∃ ts, DenotesL st.store [o1, o2] ts ∧
            specOf (tagOf op) ts = some (applyBin op a b) := by
          rcases hkey with ⟨h1, h2⟩ | ⟨hcm, h1, h2⟩
          · subst h1 h2; exact ⟨_, DenotesL.two hf hg, specOf_tagOf op a b⟩
          · subst h1 h2
            exact ⟨_, DenotesL.two hg hf, by rw [specOf_tagOf, applyBin_comm op hcm]⟩
        simp only
        split
        · -- cache hit
          rename_i r hr
          have hent := hinv.2 _ _ (pok.get_mem _ _ _ _ hr)
          obtain ⟨ts, hd, hs⟩ := hkd
          exact PostA.done (st := st.tickd) hinv.tickd (hent.hit hd hs)
        · -- cache miss: both operands are inner nodes
          have hsp := terminalBin_spec op a b
          rw [hT] at hsp
          obtain ⟨_, _, _, hla, hlb⟩ := hsp
          cases a with
          | leaf _ => simp [isLeaf] at hla
          | node lf ft fe =>
          cases b with
          | leaf _ => simp [isLeaf] at hlb
          | node lg gt ge =>
          rw [level?_denotes hf, level?_denotes hg]
          simp only
          rw [applyBin_binary hT]
          have hmin : min lf lg = lf ∨ min lf lg = lg := by omega
          have sz1 : (tcofT (min lf lg) (.node lf ft fe)).size +
              (tcofT (min lf lg) (.node lg gt ge)).size ≤ fuel := by
            have h1 := tcofT_size_le (min lf lg) (.node lf ft fe)
            have h2 := tcofT_size_le (min lf lg) (.node lg gt ge)
            rcases hmin with h | h <;> rw [h] at h1 h2 ⊢
            · have := tcofT_size_lt lf ft fe; omega
            · have := tcofT_size_lt lg gt ge; omega
          have sz0 : (tcofE (min lf lg) (.node lf ft fe)).size +
              (tcofE (min lf lg) (.node lg gt ge)).size ≤ fuel := by
            have h1 := tcofE_size_le (min lf lg) (.node lf ft fe)
            have h2 := tcofE_size_le (min lf lg) (.node lg gt ge)
            rcases hmin with h | h <;> rw [h] at h1 h2 ⊢
            · have := tcofE_size_lt lf ft fe; omega
            · have := tcofE_size_lt lg gt ge; omega
          have p1 := ih st.tickd _ _ _ _ hinv.tickd (cofT_denotes (min lf lg) hf)
            (cofT_denotes (min lf lg) hg) sz1
          have p0 := ih _ _ _ _ _ p1.inv ((cofE_denotes (min lf lg) hf).mono p1.le)
            ((cofE_denotes (min lf lg) hg).mono p1.le) sz0
          obtain ⟨ts, hd, hs⟩ := hkd
          rw [applyBin_binary hT] at hs
          exact finishA_post hok pok p1 p0 (tagOf op, [o1, o2]) (min lf lg) ⟨ts, hd, hs⟩

/-! ## `apply_ite` -/

theorem iteA_spec {alloc : Alloc} (hok : AllocOK alloc) {p : Policy} (pok : p.OK) (fuel : Nat) :
    ∀ (st : St) (f g h : Edge) (a b c : BDD),
    Inv st → Denotes st.store f a → Denotes st.store g b → Denotes st.store h c →
    a.size + b.size + c.size ≤ fuel →
    PostA alloc st.store (applyIte a b c) (iteA alloc p fuel st f g h) := by
  induction fuel with
  | zero =>
    intro st f g h a b c _ _ _ _ hsz
    have := size_pos a
    omega
  | succ fuel ih =>
    intro st f g h a b c hinv hf hg hh hsz
    have hinj := inj_of_unique hinv.1
    have hsa := size_pos a
    have hsb := size_pos b
    have hsc := size_pos c
    simp only [iteA]
    by_cases hgh : g = h
    · subst hgh
      have := Denotes.functional hg hh
      subst this
      simp only [if_true]
      rw [applyIte_gh]
      exact PostA.done hinv hg
    · have hbc : b ≠ c := fun e => hgh (hinj _ _ _ hg (e ▸ hh))
      simp only [hgh, if_false]
      by_cases hfg : f = g
      · subst hfg
        have := Denotes.functional hf hg
        subst this
        simp only [if_true]
        rw [applyIte_fg hbc]
        exact applyA_spec hok pok .or fuel st f h a c hinv hf hh (by omega)
      · have hab : a ≠ b := fun e => hfg (hinj _ _ _ hf (e ▸ hg))
        simp only [hfg, if_false]
        by_cases hfh : f = h
        · subst hfh
          have := Denotes.functional hf hh
          subst this
          simp only [if_true]
          rw [applyIte_fh hab]
          exact applyA_spec hok pok .and fuel st f g a b hinv hf hg (by omega)
        · have hac : a ≠ c := fun e => hfh (hinj _ _ _ hf (e ▸ hh))
          simp only [hfh, if_false]
          cases hf with
          | @term x =>
            simp only
            rw [applyIte_leaf hbc hab hac]
            cases x
            · exact PostA.done hinv hh
            · exact PostA.done hinv hg
          | @inner i l t e tt te hi hft hfe =>
            have hdf : Denotes st.store (.inner i) (.node l tt te) := .inner hi hft hfe
            cases hg with
            | @term y =>
              cases hh with
              | @term z =>
                cases y <;> cases z <;> first
                  | exact absurd rfl hgh
                  | (simp only [Bool.false_eq_true, if_false]
                     rw [applyIte.eq_def]; simp only [hbc, hab, hac, if_false, Bool.false_eq_true]
                     exact notA_spec hok pok fuel st _ _ hinv hdf (by omega))
                  | (simp only [if_true]
                     rw [applyIte.eq_def]; simp only [hbc, hab, hac, if_false, if_true]
                     exact PostA.done hinv hdf)
              | @inner k l'' t'' e'' tt'' te'' hk hht hhe =>
                have hdh : Denotes st.store (.inner k) (.node l'' tt'' te'') := .inner hk hht hhe
                cases y
                · simp only
                  rw [applyIte.eq_def]; simp only [hbc, hab, hac, if_false]
                  exact applyA_spec hok pok .impStrict fuel st _ _ _ _ hinv hdf hdh (by omega)
                · simp only
                  rw [applyIte.eq_def]; simp only [hbc, hab, hac, if_false]
                  exact applyA_spec hok pok .or fuel st _ _ _ _ hinv hdf hdh (by omega)
            | @inner j l' t' e' tt' te' hj hgt hge =>
              have hdg : Denotes st.store (.inner j) (.node l' tt' te') := .inner hj hgt hge
              cases hh with
              | @term z =>
                cases z
                · simp only
                  rw [applyIte.eq_def]; simp only [hbc, hab, hac, if_false]
                  exact applyA_spec hok pok .and fuel st _ _ _ _ hinv hdf hdg (by omega)
                · simp only
                  rw [applyIte.eq_def]; simp only [hbc, hab, hac, if_false]
                  exact applyA_spec hok pok .imp fuel st _ _ _ _ hinv hdf hdg (by omega)
              | @inner k l'' t'' e'' tt'' te'' hk hht hhe =>
                have hdh : Denotes st.store (.inner k) (.node l'' tt'' te'') := .inner hk hht hhe
                simp only
                split
                · -- cache hit
                  rename_i r hr
                  have hent := hinv.2 _ _ (pok.get_mem _ _ _ _ hr)
                  exact PostA.done (st := st.tickd) hinv.tickd
                    (hent.hit (DenotesL.three hdf hdg hdh) rfl)
                · -- cache miss
                  rw [level?_denotes hdf, level?_denotes hdg, level?_denotes hdh]
                  simp only
                  rw [applyIte_rec hbc hab hac]
                  generalize hl : min (min l l') l'' = m
                  have hmin : m = l ∨ m = l' ∨ m = l'' := by omega
                  have ha1 := tcofT_size_le m (.node l tt te)
                  have hb1 := tcofT_size_le m (.node l' tt' te')
                  have hc1 := tcofT_size_le m (.node l'' tt'' te'')
                  have ha0 := tcofE_size_le m (.node l tt te)
                  have hb0 := tcofE_size_le m (.node l' tt' te')
                  have hc0 := tcofE_size_le m (.node l'' tt'' te'')
                  have sz : (tcofT m (.node l tt te)).size + (tcofT m (.node l' tt' te')).size +
                      (tcofT m (.node l'' tt'' te'')).size ≤ fuel ∧
                      (tcofE m (.node l tt te)).size + (tcofE m (.node l' tt' te')).size +
                      (tcofE m (.node l'' tt'' te'')).size ≤ fuel := by
                    rcases hmin with h | h | h <;> subst h
                    · have := tcofT_size_lt m tt te; have := tcofE_size_lt m tt te; omega
                    · have := tcofT_size_lt m tt' te'; have := tcofE_size_lt m tt' te'; omega
                    · have := tcofT_size_lt m tt'' te''; have := tcofE_size_lt m tt'' te''; omega
                  have p1 := ih st.tickd _ _ _ _ _ _ hinv.tickd (cofT_denotes m hdf)
                    (cofT_denotes m hdg) (cofT_denotes m hdh) sz.1
                  have p0 := ih _ _ _ _ _ _ _ p1.inv ((cofE_denotes m hdf).mono p1.le)
                    ((cofE_denotes m hdg).mono p1.le) ((cofE_denotes m hdh).mono p1.le) sz.2
                  refine finishA_post hok pok p1 p0 (.ite, [.inner i, .inner j, .inner k]) m
                    ⟨_, DenotesL.three hdf hdg hdh, ?_⟩
                  show some (applyIte _ _ _) = _
                  rw [applyIte_rec hbc hab hac, hl]

/-! ## the index-based default is an instance -/

theorem finishS_eq_finishA (p : Policy) (st : St) (key : Key) (l : Nat) (e1 e0 : Edge) :
    finishS p st key l e1 e0 = finishA firstFree p st key l e1 e0 := by
  simp only [finishS, finishA, mkNode_eq_mkNodeA]

theorem notS_eq_notA (p : Policy) (fuel : Nat) : ∀ (st : St) (f : Edge),
    notS p fuel st f = notA firstFree p fuel st f := by
  induction fuel with
  | zero => intro st f; rfl
  | succ fuel ih => intro st f; simp only [notS, notA, ih, finishS_eq_finishA]; rfl

theorem applyS_eq_applyA (p : Policy) (op : Op) (fuel : Nat) : ∀ (st : St) (f g : Edge),
    applyS p op fuel st f g = applyA firstFree p op fuel st f g := by
  induction fuel with
  | zero => intro st f g; rfl
  | succ fuel ih =>
    intro st f g; simp only [applyS, applyA, ih, finishS_eq_finishA, notS_eq_notA]; rfl

theorem iteS_eq_iteA (p : Policy) (fuel : Nat) : ∀ (st : St) (f g h : Edge),
    iteS p fuel st f g h = iteA firstFree p fuel st f g h := by
  induction fuel with
  | zero => intro st f g h; rfl
  | succ fuel ih =>
    intro st f g h
    simp only [iteS, iteA, ih, finishS_eq_finishA, notS_eq_notA, applyS_eq_applyA]
    rfl

end OxiddModel.Bdd.Refine
