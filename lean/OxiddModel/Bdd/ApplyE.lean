import OxiddModel.Bdd.ApplyS

/-!
# The apply algorithms under interference (rely/guarantee)

The same algorithms as in `ApplyS.lean`, but an adversarial *environment*
`env : step → held edges → state → state` is invoked at every atomic point:

* at the entry of every (recursive) call,
* after the cache query (i.e. between the cache access and reading the operand nodes),
* before the node is created (`reduce`), and
* between node creation and the cache add.

The environment stands for everything other threads may do in between: create nodes, add, evict
or overwrite cache entries, clear the cache, and collect nodes that are not reachable from the
edges this thread holds. `EnvOK env` demands only that each environment step keeps the invariant
(`Store.Unique`, `CacheOK`) and the denotation of the edges in the `held` list — the edges the
thread owns a reference to (operands of all callers, cofactors still needed, results already
computed). In addition a *schedule* `sch : step → Bool` decides at each fork which of the two
recursive calls runs first (the parallel recursor's `join`).

`notE_spec`, `applyE_spec`, `iteE_spec`: for **every** `EnvOK` environment, every schedule, every
step numbering and every list of edges held by callers, the result denotes the tree-level
result, the invariant holds afterwards and all held edges still denote what they denoted.
-/
namespace OxiddModel.Bdd.Refine
open OxiddModel.Bdd OxiddModel.Bdd.BDD

abbrev Env := Nat → List Edge → St → St

/-- the edges in `H` keep their denotation -/
def StableOn (H : List Edge) (s s' : Store) : Prop :=
  ∀ e, e ∈ H → ∀ t, Denotes s e t → Denotes s' e t

theorem StableOn.refl (H : List Edge) (s : Store) : StableOn H s s := fun _ _ _ h => h
theorem StableOn.trans {H : List Edge} {a b c : Store} (h1 : StableOn H a b) (h2 : StableOn H b c) :
    StableOn H a c := fun e he t hd => h2 e he t (h1 e he t hd)
theorem StableOn.of_le {H : List Edge} {a b : Store} (h : a.Le b) : StableOn H a b :=
  fun _ _ _ hd => hd.mono h
theorem StableOn.subset {H H' : List Edge} {a b : Store} (h : StableOn H a b)
    (hs : ∀ e, e ∈ H' → e ∈ H) : StableOn H' a b := fun e he t hd => h e (hs e he) t hd

theorem DenotesL.stable {H : List Edge} {s s' : Store} (hst : StableOn H s s') {es : List Edge}
    {ts : List BDD} (h : DenotesL s es ts) (hs : ∀ e, e ∈ es → e ∈ H) : DenotesL s' es ts := by
  induction h with
  | nil => exact .nil
  | cons hd _ ih =>
    exact .cons (hst _ (hs _ List.mem_cons_self) _ hd)
      (ih (fun e he => hs e (List.mem_cons_of_mem _ he)))

/-- the rely condition: what every step of the environment must respect -/
def EnvOK (env : Env) : Prop :=
  ∀ k H st, Inv st → Inv (env k H st) ∧ StableOn H st.store (env k H st).store

/-- which recursive call of a fork runs first (`true`: then-branch first, as in the sequential
recursor) -/
abbrev Sched := Nat → Bool

/-! ## the algorithms; results are (state, edge, next step number) -/

/-- `reduce` + cache add with an environment step before each -/
def finishE (p : Policy) (env : Env) (k : Nat) (H : List Edge) (st : St) (key : Key) (l : Nat)
    (e1 e0 : Edge) : St × Edge × Nat :=
  let st2 := env k (e1 :: e0 :: H) st
  let m := st2.store.mkNode l e1 e0
  let st3 := env (k + 1) (m.2 :: H) ⟨m.1, st2.cache, st2.tick⟩
  (⟨st3.store, p.add st3.tick st3.cache key m.2, st3.tick + 1⟩, m.2, k + 2)

/-- `apply_not` under interference -/
def notE (p : Policy) (env : Env) (sch : Sched) : Nat → Nat → List Edge → St → Edge → St × Edge × Nat
  | 0, k, _, st, f => (st, f, k)
  | fuel+1, k, held, st0, f =>
    let H := f :: held
    let st := env k H st0
    match f with
    | .term b => (st, .term (!b), k + 1)
    | .inner i =>
      match p.get st.tick st.cache (.not, [f]) with
      | some h => (st.tickd, h, k + 1)
      | none =>
        let st := env (k + 1) H st.tickd
        match st.store.get? i with
        | none => (st, f, k + 2)
        | some n =>
          if sch k then
            let r1 := notE p env sch fuel (k + 2) (n.e :: H) st n.t
            let r0 := notE p env sch fuel r1.2.2 (r1.2.1 :: H) r1.1 n.e
            finishE p env r0.2.2 H r0.1 (.not, [f]) n.level r1.2.1 r0.2.1
          else
            let r0 := notE p env sch fuel (k + 2) (n.t :: H) st n.e
            let r1 := notE p env sch fuel r0.2.2 (r0.2.1 :: H) r0.1 n.t
            finishE p env r1.2.2 H r1.1 (.not, [f]) n.level r1.2.1 r0.2.1

/-- `apply_bin::<OP>` under interference -/
def applyE (p : Policy) (env : Env) (sch : Sched) (op : Op) :
    Nat → Nat → List Edge → St → Edge → Edge → St × Edge × Nat
  | 0, k, _, st, f, _ => (st, f, k)
  | fuel+1, k, held, st0, f, g =>
    let H := f :: g :: held
    let st := env k H st0
    match terminalBinS op f g with
    | .done h => (st, h, k + 1)
    | .notOf h => notE p env sch fuel (k + 1) H st h
    | .binary tag o1 o2 =>
      match p.get st.tick st.cache (tag, [o1, o2]) with
      | some h => (st.tickd, h, k + 1)
      | none =>
        let st := env (k + 1) H st.tickd
        match st.store.level? f, st.store.level? g with
        | some lf, some lg =>
          let l := min lf lg
          let f1 := st.store.cofT l f
          let g1 := st.store.cofT l g
          let f0 := st.store.cofE l f
          let g0 := st.store.cofE l g
          if sch k then
            let r1 := applyE p env sch op fuel (k + 2) (f0 :: g0 :: H) st f1 g1
            let r0 := applyE p env sch op fuel r1.2.2 (r1.2.1 :: H) r1.1 f0 g0
            finishE p env r0.2.2 H r0.1 (tag, [o1, o2]) l r1.2.1 r0.2.1
          else
            let r0 := applyE p env sch op fuel (k + 2) (f1 :: g1 :: H) st f0 g0
            let r1 := applyE p env sch op fuel r0.2.2 (r0.2.1 :: H) r0.1 f1 g1
            finishE p env r1.2.2 H r1.1 (tag, [o1, o2]) l r1.2.1 r0.2.1
        | _, _ => (st, f, k + 2)

/-! ## postcondition under interference -/

structure PostE (s : Store) (H : List Edge) (T : BDD) (R : St × Edge × Nat) : Prop where
  /-- hash consing and cache soundness hold afterwards -/
  inv : Inv R.1
  /-- all held edges denote what they denoted -/
  stable : StableOn H s R.1.store
  /-- the result edge denotes the specified tree -/
  den : Denotes R.1.store R.2.1 T

theorem PostE.pre {s0 s : Store} {H H' : List Edge} {T : BDD} {R : St × Edge × Nat}
    (h0 : StableOn H s0 s) (h : PostE s H' T R) (hs : ∀ e, e ∈ H → e ∈ H') : PostE s0 H T R :=
  ⟨h.inv, h0.trans (h.stable.subset hs), h.den⟩

theorem finishE_post {p : Policy} (pok : p.OK) {env : Env} (hok : EnvOK env) {st : St}
    (hinv : Inv st) {e1 e0 : Edge} {T1 T0 : BDD} (d1 : Denotes st.store e1 T1)
    (d0 : Denotes st.store e0 T0) (key : Key) (l k : Nat) (H : List Edge)
    (hkey : ∃ ts, DenotesL st.store key.2 ts ∧ specOf key.1 ts = some (mk l T1 T0))
    (hsub : ∀ e, e ∈ key.2 → e ∈ H) :
    PostE st.store H (mk l T1 T0) (finishE p env k H st key l e1 e0) := by
  obtain ⟨inv2, st2⟩ := hok k (e1 :: e0 :: H) st hinv
  simp only [finishE]
  generalize env k (e1 :: e0 :: H) st = S2 at inv2 st2 ⊢
  have den1 := st2 e1 (by simp) _ d1
  have den0 := st2 e0 (by simp) _ d0
  have denm := mkNode_denotes S2.store l e1 e0 _ _ den1 den0 (inj_of_unique inv2.1)
  have lem := mkNode_le S2.store l e1 e0
  have inv2' : Inv ⟨(S2.store.mkNode l e1 e0).1, S2.cache, S2.tick⟩ :=
    ⟨mkNode_unique _ _ _ _ inv2.1, inv2.2.mono lem⟩
  obtain ⟨inv3, st3⟩ := hok (k + 1) ((S2.store.mkNode l e1 e0).2 :: H) _ inv2'
  generalize env (k + 1) ((S2.store.mkNode l e1 e0).2 :: H)
    ⟨(S2.store.mkNode l e1 e0).1, S2.cache, S2.tick⟩ = S3 at inv3 st3 ⊢
  have denm3 := st3 _ (by simp) _ denm
  have stab : StableOn H st.store S3.store :=
    (st2.subset (fun e he => List.mem_cons_of_mem _ (List.mem_cons_of_mem _ he))).trans
      ((StableOn.of_le lem).trans (st3.subset (fun e he => List.mem_cons_of_mem _ he)))
  obtain ⟨ts, hd, hs⟩ := hkey
  exact ⟨⟨inv3.1, CacheOK.add pok inv3.2 ⟨ts, _, hd.stable stab hsub, hs, denm3⟩ _⟩, stab, denm3⟩

/-! ## `apply_not` under interference -/

theorem notE_spec {p : Policy} (pok : p.OK) {env : Env} (hok : EnvOK env) (sch : Sched)
    (fuel : Nat) : ∀ (k : Nat) (held : List Edge) (st : St) (f : Edge) (a : BDD),
    Inv st → Denotes st.store f a → a.size ≤ fuel →
    PostE st.store (f :: held) (applyNot a) (notE p env sch fuel k held st f) := by
  induction fuel with
  | zero =>
    intro k held st f a _ _ hsz
    have := size_pos a
    omega
  | succ fuel ih =>
    intro k held st0 f a hinv0 hf0 hsz
    obtain ⟨hinv, hst⟩ := hok k (f :: held) st0 hinv0
    have hf := hst f (by simp) _ hf0
    simp only [notE]
    generalize env k (f :: held) st0 = st at hinv hst hf ⊢
    cases hf with
    | @term x => exact ⟨hinv, hst, .term⟩
    | @inner i l t e tt te hi hft hfe =>
      have hdf : Denotes st.store (.inner i) (.node l tt te) := .inner hi hft hfe
      simp only
      split
      · -- cache hit
        rename_i r hr
        have hent := hinv.2 _ _ (pok.get_mem _ _ _ _ hr)
        exact ⟨hinv.tickd, hst, hent.hit (DenotesL.one hdf) rfl⟩
      · -- cache miss; the environment runs before the node is read
        obtain ⟨hinv', hst'⟩ := hok (k + 1) (.inner i :: held) st.tickd hinv.tickd
        have hdf' := hst' _ (by simp) _ hdf
        generalize env (k + 1) (.inner i :: held) st.tickd = st' at hinv' hst' hdf' ⊢
        refine PostE.pre (hst.trans hst') ?_ (fun e he => he)
        clear hst hst' hinv hi hft hfe hdf
        cases hdf' with
        | @inner _ _ t' e' _ _ hi' hft' hfe' =>
        have hdf' : Denotes st'.store (.inner i) (.node l tt te) := .inner hi' hft' hfe'
        simp only [hi']
        simp only [BDD.size] at hsz
        have target : applyNot (.node l tt te) = mk l (applyNot tt) (applyNot te) := rfl
        rw [target]
        have hkey : ∀ e, e ∈ [Edge.inner i] → e ∈ Edge.inner i :: held := by
          intro e he; simp at he; subst he; simp
        split
        · -- then-branch first
          have p1 := ih (k + 2) (e' :: .inner i :: held) st' t' tt hinv' hft' (by omega)
          generalize notE p env sch fuel (k + 2) (e' :: .inner i :: held) st' t' = R1 at p1 ⊢
          have hfe1 := p1.stable e' (by simp) _ hfe'
          have p0 := ih R1.2.2 (R1.2.1 :: .inner i :: held) R1.1 e' te p1.inv hfe1 (by omega)
          generalize notE p env sch fuel R1.2.2 (R1.2.1 :: .inner i :: held) R1.1 e' = R0 at p0 ⊢
          have den1 := p0.stable R1.2.1 (by simp) _ p1.den
          have stab : StableOn (.inner i :: held) st'.store R0.1.store :=
            (p1.stable.subset (fun e he => List.mem_cons_of_mem _ (List.mem_cons_of_mem _ he))).trans
              (p0.stable.subset (fun e he => List.mem_cons_of_mem _ (List.mem_cons_of_mem _ he)))
          have hdf0 := stab _ (by simp) _ hdf'
          exact PostE.pre stab
            (finishE_post pok hok p0.inv den1 p0.den (.not, [.inner i]) l R0.2.2 _
              ⟨_, DenotesL.one hdf0, rfl⟩ hkey) (fun e he => he)
        · -- else-branch first
          have p0 := ih (k + 2) (t' :: .inner i :: held) st' e' te hinv' hfe' (by omega)
          generalize notE p env sch fuel (k + 2) (t' :: .inner i :: held) st' e' = R0 at p0 ⊢
          have hft0 := p0.stable t' (by simp) _ hft'
          have p1 := ih R0.2.2 (R0.2.1 :: .inner i :: held) R0.1 t' tt p0.inv hft0 (by omega)
          generalize notE p env sch fuel R0.2.2 (R0.2.1 :: .inner i :: held) R0.1 t' = R1 at p1 ⊢
          have den0 := p1.stable R0.2.1 (by simp) _ p0.den
          have stab : StableOn (.inner i :: held) st'.store R1.1.store :=
            (p0.stable.subset (fun e he => List.mem_cons_of_mem _ (List.mem_cons_of_mem _ he))).trans
              (p1.stable.subset (fun e he => List.mem_cons_of_mem _ (List.mem_cons_of_mem _ he)))
          have hdf1 := stab _ (by simp) _ hdf'
          exact PostE.pre stab
            (finishE_post pok hok p1.inv p1.den den0 (.not, [.inner i]) l R1.2.2 _
              ⟨_, DenotesL.one hdf1, rfl⟩ hkey) (fun e he => he)

/-! ## `apply_bin::<OP>` under interference -/

theorem mem_tail2 {α} {a b : α} {l : List α} : ∀ e, e ∈ l → e ∈ a :: b :: l :=
  fun _ he => List.mem_cons_of_mem _ (List.mem_cons_of_mem _ he)

theorem applyE_spec {p : Policy} (pok : p.OK) {env : Env} (hok : EnvOK env) (sch : Sched) (op : Op)
    (fuel : Nat) : ∀ (k : Nat) (held : List Edge) (st : St) (f g : Edge) (a b : BDD),
    Inv st → Denotes st.store f a → Denotes st.store g b → a.size + b.size ≤ fuel →
    PostE st.store (f :: g :: held) (applyBin op a b) (applyE p env sch op fuel k held st f g) := by
  induction fuel with
  | zero =>
    intro k held st f g a b _ _ _ hsz
    have := size_pos a
    omega
  | succ fuel ih =>
    intro k held st0 f g a b hinv0 hf0 hg0 hsz
    obtain ⟨hinv, hst⟩ := hok k (f :: g :: held) st0 hinv0
    have hf := hst f (by simp) _ hf0
    have hg := hst g (by simp) _ hg0
    simp only [applyE]
    generalize env k (f :: g :: held) st0 = st at hinv hst hf hg ⊢
    have hinj := inj_of_unique hinv.1
    have hc := terminalBinS_corr op hinj hf hg
    have hsa := size_pos a
    have hsb := size_pos b
    cases hS : terminalBinS op f g with
    | done e =>
      cases hT : terminalBin op a b with
      | done t =>
        rw [hS, hT] at hc
        rw [applyBin_done hT]
        exact ⟨hinv, hst, hc⟩
      | notOf t => rw [hS, hT] at hc; exact hc.elim
      | binary o x y => rw [hS, hT] at hc; exact hc.elim
    | notOf e =>
      cases hT : terminalBin op a b with
      | done t => rw [hS, hT] at hc; exact hc.elim
      | notOf t =>
        rw [hS, hT] at hc
        rw [applyBin_notOf hT]
        have hsh := terminalBin_shape op a b
        rw [hT] at hsh
        have : t.size ≤ fuel := by
          rcases hsh with h | h <;> subst h <;> omega
        exact PostE.pre hst (notE_spec pok hok sch fuel (k + 1) (f :: g :: held) st e t hinv hc this)
          (fun e he => List.mem_cons_of_mem _ he)
      | binary o x y => rw [hS, hT] at hc; exact hc.elim
    | binary tag o1 o2 =>
      cases hT : terminalBin op a b with
      | done t => rw [hS, hT] at hc; exact hc.elim
      | notOf t => rw [hS, hT] at hc; exact hc.elim
      | binary o x y =>
        rw [hS, hT] at hc
        obtain ⟨htag, _, _, _, hkey⟩ := hc
        subst htag
        have hsub : ∀ e, e ∈ [o1, o2] → e ∈ f :: g :: held := by
          intro e he
          simp only [List.mem_cons, List.not_mem_nil, or_false] at he
          rcases hkey with ⟨h1, h2⟩ | ⟨_, h1, h2⟩ <;> subst h1 h2 <;> rcases he with h | h <;>
            subst h <;> simp
        -- the key denotes the operands, in one or the other order
        have hkd : ∀ s' : Store, Denotes s' f a → Denotes s' g b → ∃ ts, DenotesL s' [o1, o2] ts ∧
            specOf (tagOf op) ts = some (applyBin op a b) := by
          intro s' hf hg
          rcases hkey with ⟨h1, h2⟩ | ⟨hcm, h1, h2⟩
          · subst h1 h2; exact ⟨_, DenotesL.two hf hg, specOf_tagOf op a b⟩
          · subst h1 h2
            exact ⟨_, DenotesL.two hg hf, by rw [specOf_tagOf, applyBin_comm op hcm]⟩
        simp only
        split
        · -- cache hit
          rename_i r hr
          have hent := hinv.2 _ _ (pok.get_mem _ _ _ _ hr)
          obtain ⟨ts, hd, hs⟩ := hkd _ hf hg
          exact ⟨hinv.tickd, hst, hent.hit hd hs⟩
        · -- cache miss; the environment runs before the operand nodes are read
          obtain ⟨hinv', hst'⟩ := hok (k + 1) (f :: g :: held) st.tickd hinv.tickd
          have hf' := hst' _ (by simp) _ hf
          have hg' := hst' _ (by simp) _ hg
          generalize env (k + 1) (f :: g :: held) st.tickd = st' at hinv' hst' hf' hg' ⊢
          refine PostE.pre (hst.trans hst') ?_ (fun e he => he)
          clear hst hst' hinv hf hg hinj hf0 hg0
          have hsp := terminalBin_spec op a b
          rw [hT] at hsp
          obtain ⟨_, _, _, hla, hlb⟩ := hsp
          cases a with
          | leaf _ => simp [isLeaf] at hla
          | node lf ft fe =>
          cases b with
          | leaf _ => simp [isLeaf] at hlb
          | node lg gt ge =>
          rw [level?_denotes hf', level?_denotes hg']
          simp only
          rw [applyBin_binary hT]
          generalize hl : min lf lg = m
          have hmin : m = lf ∨ m = lg := by omega
          have h1a := tcofT_size_le m (.node lf ft fe)
          have h1b := tcofT_size_le m (.node lg gt ge)
          have h0a := tcofE_size_le m (.node lf ft fe)
          have h0b := tcofE_size_le m (.node lg gt ge)
          have sz : (tcofT m (.node lf ft fe)).size + (tcofT m (.node lg gt ge)).size ≤ fuel ∧
              (tcofE m (.node lf ft fe)).size + (tcofE m (.node lg gt ge)).size ≤ fuel := by
            rcases hmin with h | h <;> subst h
            · have := tcofT_size_lt m ft fe; have := tcofE_size_lt m ft fe; omega
            · have := tcofT_size_lt m gt ge; have := tcofE_size_lt m gt ge; omega
          have d1f := cofT_denotes m hf'
          have d1g := cofT_denotes m hg'
          have d0f := cofE_denotes m hf'
          have d0g := cofE_denotes m hg'
          generalize st'.store.cofT m f = f1 at d1f ⊢
          generalize st'.store.cofT m g = g1 at d1g ⊢
          generalize st'.store.cofE m f = f0 at d0f ⊢
          generalize st'.store.cofE m g = g0 at d0g ⊢
          split
          · -- then-branch first
            have p1 := ih (k + 2) (f0 :: g0 :: f :: g :: held) st' f1 g1 _ _ hinv' d1f d1g sz.1
            generalize applyE p env sch op fuel (k + 2) (f0 :: g0 :: f :: g :: held) st' f1 g1 = R1
              at p1 ⊢
            have d0f1 := p1.stable f0 (by simp) _ d0f
            have d0g1 := p1.stable g0 (by simp) _ d0g
            have p0 := ih R1.2.2 (R1.2.1 :: f :: g :: held) R1.1 f0 g0 _ _ p1.inv d0f1 d0g1 sz.2
            generalize applyE p env sch op fuel R1.2.2 (R1.2.1 :: f :: g :: held) R1.1 f0 g0 = R0
              at p0 ⊢
            have den1 := p0.stable R1.2.1 (by simp) _ p1.den
            have stab : StableOn (f :: g :: held) st'.store R0.1.store :=
              (p1.stable.subset (fun e he => mem_tail2 _ (mem_tail2 _ he))).trans
                (p0.stable.subset (fun e he => mem_tail2 _ (List.mem_cons_of_mem _ he)))
            obtain ⟨ts, hd, hs⟩ := hkd _ (stab _ (by simp) _ hf') (stab _ (by simp) _ hg')
            rw [applyBin_binary hT, hl] at hs
            exact PostE.pre stab
              (finishE_post pok hok p0.inv den1 p0.den (tagOf op, [o1, o2]) m R0.2.2 _
                ⟨ts, hd, hs⟩ hsub) (fun e he => he)
          · -- else-branch first
            have p0 := ih (k + 2) (f1 :: g1 :: f :: g :: held) st' f0 g0 _ _ hinv' d0f d0g sz.2
            generalize applyE p env sch op fuel (k + 2) (f1 :: g1 :: f :: g :: held) st' f0 g0 = R0
              at p0 ⊢
            have d1f0 := p0.stable f1 (by simp) _ d1f
            have d1g0 := p0.stable g1 (by simp) _ d1g
            have p1 := ih R0.2.2 (R0.2.1 :: f :: g :: held) R0.1 f1 g1 _ _ p0.inv d1f0 d1g0 sz.1
            generalize applyE p env sch op fuel R0.2.2 (R0.2.1 :: f :: g :: held) R0.1 f1 g1 = R1
              at p1 ⊢
            have den0 := p1.stable R0.2.1 (by simp) _ p0.den
            have stab : StableOn (f :: g :: held) st'.store R1.1.store :=
              (p0.stable.subset (fun e he => mem_tail2 _ (mem_tail2 _ he))).trans
                (p1.stable.subset (fun e he => mem_tail2 _ (List.mem_cons_of_mem _ he)))
            obtain ⟨ts, hd, hs⟩ := hkd _ (stab _ (by simp) _ hf') (stab _ (by simp) _ hg')
            rw [applyBin_binary hT, hl] at hs
            exact PostE.pre stab
              (finishE_post pok hok p1.inv p1.den den0 (tagOf op, [o1, o2]) m R1.2.2 _
                ⟨ts, hd, hs⟩ hsub) (fun e he => he)

/-! ## `apply_ite` under interference -/

/-- `apply_ite` under interference -/
def iteE (p : Policy) (env : Env) (sch : Sched) :
    Nat → Nat → List Edge → St → Edge → Edge → Edge → St × Edge × Nat
  | 0, k, _, st, f, _, _ => (st, f, k)
  | fuel+1, k, held, st0, f, g, h =>
    let H := f :: g :: h :: held
    let st := env k H st0
    if g = h then (st, g, k + 1) else
    if f = g then applyE p env sch .or fuel (k + 1) H st f h else
    if f = h then applyE p env sch .and fuel (k + 1) H st f g else
    match f with
    | .term b => (st, if b then g else h, k + 1)
    | .inner _ =>
      match g, h with
      | .term true, .inner _ => applyE p env sch .or fuel (k + 1) H st f h
      | .term false, .inner _ => applyE p env sch .impStrict fuel (k + 1) H st f h
      | .inner _, .term true => applyE p env sch .imp fuel (k + 1) H st f g
      | .inner _, .term false => applyE p env sch .and fuel (k + 1) H st f g
      | .term gb, .term _ => if gb then (st, f, k + 1) else notE p env sch fuel (k + 1) H st f
      | .inner _, .inner _ =>
        match p.get st.tick st.cache (.ite, [f, g, h]) with
        | some r => (st.tickd, r, k + 1)
        | none =>
          let st := env (k + 1) H st.tickd
          match st.store.level? f, st.store.level? g, st.store.level? h with
          | some lf, some lg, some lh =>
            let l := min (min lf lg) lh
            let f1 := st.store.cofT l f
            let g1 := st.store.cofT l g
            let h1 := st.store.cofT l h
            let f0 := st.store.cofE l f
            let g0 := st.store.cofE l g
            let h0 := st.store.cofE l h
            if sch k then
              let r1 := iteE p env sch fuel (k + 2) (f0 :: g0 :: h0 :: H) st f1 g1 h1
              let r0 := iteE p env sch fuel r1.2.2 (r1.2.1 :: H) r1.1 f0 g0 h0
              finishE p env r0.2.2 H r0.1 (.ite, [f, g, h]) l r1.2.1 r0.2.1
            else
              let r0 := iteE p env sch fuel (k + 2) (f1 :: g1 :: h1 :: H) st f0 g0 h0
              let r1 := iteE p env sch fuel r0.2.2 (r0.2.1 :: H) r0.1 f1 g1 h1
              finishE p env r1.2.2 H r1.1 (.ite, [f, g, h]) l r1.2.1 r0.2.1
          | _, _, _ => (st, f, k + 2)

theorem mem_tail3 {α} {a b c : α} {l : List α} : ∀ e, e ∈ l → e ∈ a :: b :: c :: l :=
  fun _ he => List.mem_cons_of_mem _ (List.mem_cons_of_mem _ (List.mem_cons_of_mem _ he))

theorem iteE_spec {p : Policy} (pok : p.OK) {env : Env} (hok : EnvOK env) (sch : Sched)
    (fuel : Nat) : ∀ (k : Nat) (held : List Edge) (st : St) (f g h : Edge) (a b c : BDD),
    Inv st → Denotes st.store f a → Denotes st.store g b → Denotes st.store h c →
    a.size + b.size + c.size ≤ fuel →
    PostE st.store (f :: g :: h :: held) (applyIte a b c) (iteE p env sch fuel k held st f g h) := by
  induction fuel with
  | zero =>
    intro k held st f g h a b c _ _ _ _ hsz
    have := size_pos a
    omega
  | succ fuel ih =>
    intro k held st0 f g h a b c hinv0 hf0 hg0 hh0 hsz
    obtain ⟨hinv, hst⟩ := hok k (f :: g :: h :: held) st0 hinv0
    have hf := hst f (by simp) _ hf0
    have hg := hst g (by simp) _ hg0
    have hh := hst h (by simp) _ hh0
    simp only [iteE]
    generalize env k (f :: g :: h :: held) st0 = st at hinv hst hf hg hh ⊢
    have hinj := inj_of_unique hinv.1
    have hsa := size_pos a
    have hsb := size_pos b
    have hsc := size_pos c
    -- a delegated binary operation on two of the operands
    have deleg : ∀ (op : Op) (x y : Edge) (tx ty : BDD), Denotes st.store x tx →
        Denotes st.store y ty → tx.size + ty.size ≤ fuel →
        PostE st0.store (f :: g :: h :: held) (applyBin op tx ty)
          (applyE p env sch op fuel (k + 1) (f :: g :: h :: held) st x y) :=
      fun op x y tx ty hx hy hs =>
        PostE.pre hst (applyE_spec pok hok sch op fuel (k + 1) _ st x y tx ty hinv hx hy hs)
          (fun e he => mem_tail2 _ he)
    by_cases hgh : g = h
    · subst hgh
      have := Denotes.functional hg hh
      subst this
      simp only [if_true]
      rw [applyIte_gh]
      exact ⟨hinv, hst, hg⟩
    · have hbc : b ≠ c := fun e => hgh (hinj _ _ _ hg (e ▸ hh))
      simp only [hgh, if_false]
      by_cases hfg : f = g
      · subst hfg
        have := Denotes.functional hf hg
        subst this
        simp only [if_true]
        rw [applyIte_fg hbc]
        exact deleg .or f h a c hf hh (by omega)
      · have hab : a ≠ b := fun e => hfg (hinj _ _ _ hf (e ▸ hg))
        simp only [hfg, if_false]
        by_cases hfh : f = h
        · subst hfh
          have := Denotes.functional hf hh
          subst this
          simp only [if_true]
          rw [applyIte_fh hab]
          exact deleg .and f g a b hf hg (by omega)
        · have hac : a ≠ c := fun e => hfh (hinj _ _ _ hf (e ▸ hh))
          simp only [hfh, if_false]
          cases hf with
          | @term x =>
            simp only
            rw [applyIte_leaf hbc hab hac]
            cases x
            · exact ⟨hinv, hst, hh⟩
            · exact ⟨hinv, hst, hg⟩
          | @inner i l t e tt te hi hft hfe =>
            have hdf : Denotes st.store (.inner i) (.node l tt te) := .inner hi hft hfe
            cases hg with
            | @term y =>
              cases hh with
              | @term z =>
                cases y <;> cases z <;> first
                  | exact absurd rfl hgh
                  | (simp only [Bool.false_eq_true, if_false]
                     rw [applyIte.eq_def]; simp only [hbc, hab, hac, if_false, Bool.false_eq_true]
                     exact PostE.pre hst (notE_spec pok hok sch fuel (k + 1) _ st _ _ hinv hdf (by omega))
                       (fun e he => List.mem_cons_of_mem _ he))
                  | (simp only [if_true]
                     rw [applyIte.eq_def]; simp only [hbc, hab, hac, if_false, if_true]
                     exact ⟨hinv, hst, hdf⟩)
              | @inner k' l'' t'' e'' tt'' te'' hk hht hhe =>
                have hdh : Denotes st.store (.inner k') (.node l'' tt'' te'') := .inner hk hht hhe
                cases y
                · simp only
                  rw [applyIte.eq_def]; simp only [hbc, hab, hac, if_false]
                  exact deleg .impStrict _ _ _ _ hdf hdh (by omega)
                · simp only
                  rw [applyIte.eq_def]; simp only [hbc, hab, hac, if_false]
                  exact deleg .or _ _ _ _ hdf hdh (by omega)
            | @inner j l' t' e' tt' te' hj hgt hge =>
              have hdg : Denotes st.store (.inner j) (.node l' tt' te') := .inner hj hgt hge
              cases hh with
              | @term z =>
                cases z
                · simp only
                  rw [applyIte.eq_def]; simp only [hbc, hab, hac, if_false]
                  exact deleg .and _ _ _ _ hdf hdg (by omega)
                · simp only
                  rw [applyIte.eq_def]; simp only [hbc, hab, hac, if_false]
                  exact deleg .imp _ _ _ _ hdf hdg (by omega)
              | @inner k' l'' t'' e'' tt'' te'' hk hht hhe =>
                have hdh : Denotes st.store (.inner k') (.node l'' tt'' te'') := .inner hk hht hhe
                simp only
                split
                · -- cache hit
                  rename_i r hr
                  have hent := hinv.2 _ _ (pok.get_mem _ _ _ _ hr)
                  exact ⟨hinv.tickd, hst, hent.hit (DenotesL.three hdf hdg hdh) rfl⟩
                · -- cache miss; the environment runs before the operand nodes are read
                  obtain ⟨hinv', hst'⟩ := hok (k + 1) (.inner i :: .inner j :: .inner k' :: held)
                    st.tickd hinv.tickd
                  have hf' := hst' _ (by simp) _ hdf
                  have hg' := hst' _ (by simp) _ hdg
                  have hh' := hst' _ (by simp) _ hdh
                  generalize env (k + 1) (.inner i :: .inner j :: .inner k' :: held) st.tickd = st'
                    at hinv' hst' hf' hg' hh' ⊢
                  refine PostE.pre (hst.trans hst') ?_ (fun e he => he)
                  clear hst hst' hinv hdf hdg hdh hinj hf0 hg0 hh0 deleg hi hj hk hft hfe hgt hge hht hhe
                  rw [level?_denotes hf', level?_denotes hg', level?_denotes hh']
                  simp only
                  rw [applyIte_rec hbc hab hac]
                  generalize hl : min (min l l') l'' = m
                  have hmin : m = l ∨ m = l' ∨ m = l'' := by omega
                  have ha1 := tcofT_size_le m (.node l tt te)
                  have hb1 := tcofT_size_le m (.node l' tt' te')
                  have hc1 := tcofT_size_le m (.node l'' tt'' te'')
                  have ha0 := tcofE_size_le m (.node l tt te)
                  have hb0 := tcofE_size_le m (.node l' tt' te')
                  have hc0 := tcofE_size_le m (.node l'' tt'' te'')
                  have sz : (tcofT m (.node l tt te)).size + (tcofT m (.node l' tt' te')).size +
                      (tcofT m (.node l'' tt'' te'')).size ≤ fuel ∧
                      (tcofE m (.node l tt te)).size + (tcofE m (.node l' tt' te')).size +
                      (tcofE m (.node l'' tt'' te'')).size ≤ fuel := by
                    rcases hmin with h | h | h <;> subst h
                    · have := tcofT_size_lt m tt te; have := tcofE_size_lt m tt te; omega
                    · have := tcofT_size_lt m tt' te'; have := tcofE_size_lt m tt' te'; omega
                    · have := tcofT_size_lt m tt'' te''; have := tcofE_size_lt m tt'' te''; omega
                  have d1f := cofT_denotes m hf'
                  have d1g := cofT_denotes m hg'
                  have d1h := cofT_denotes m hh'
                  have d0f := cofE_denotes m hf'
                  have d0g := cofE_denotes m hg'
                  have d0h := cofE_denotes m hh'
                  generalize st'.store.cofT m (.inner i) = f1 at d1f ⊢
                  generalize st'.store.cofT m (.inner j) = g1 at d1g ⊢
                  generalize st'.store.cofT m (.inner k') = h1 at d1h ⊢
                  generalize st'.store.cofE m (.inner i) = f0 at d0f ⊢
                  generalize st'.store.cofE m (.inner j) = g0 at d0g ⊢
                  generalize st'.store.cofE m (.inner k') = h0 at d0h ⊢
                  have hsub : ∀ e, e ∈ [Edge.inner i, .inner j, .inner k'] →
                      e ∈ Edge.inner i :: .inner j :: .inner k' :: held := by
                    intro e he
                    simp only [List.mem_cons, List.not_mem_nil, or_false] at he
                    rcases he with h | h | h <;> subst h <;> simp
                  have hspec : specOf .ite [BDD.node l tt te, .node l' tt' te', .node l'' tt'' te''] =
                      some (mk m (applyIte (tcofT m (.node l tt te)) (tcofT m (.node l' tt' te'))
                        (tcofT m (.node l'' tt'' te''))) (applyIte (tcofE m (.node l tt te))
                        (tcofE m (.node l' tt' te')) (tcofE m (.node l'' tt'' te'')))) := by
                    show some (applyIte _ _ _) = _
                    rw [applyIte_rec hbc hab hac, hl]
                  split
                  · -- then-branch first
                    have p1 := ih (k + 2) (f0 :: g0 :: h0 :: .inner i :: .inner j :: .inner k' :: held)
                      st' f1 g1 h1 _ _ _ hinv' d1f d1g d1h sz.1
                    generalize iteE p env sch fuel (k + 2)
                      (f0 :: g0 :: h0 :: .inner i :: .inner j :: .inner k' :: held) st' f1 g1 h1 = R1
                      at p1 ⊢
                    have d0f1 := p1.stable f0 (by simp) _ d0f
                    have d0g1 := p1.stable g0 (by simp) _ d0g
                    have d0h1 := p1.stable h0 (by simp) _ d0h
                    have p0 := ih R1.2.2 (R1.2.1 :: .inner i :: .inner j :: .inner k' :: held) R1.1
                      f0 g0 h0 _ _ _ p1.inv d0f1 d0g1 d0h1 sz.2
                    generalize iteE p env sch fuel R1.2.2
                      (R1.2.1 :: .inner i :: .inner j :: .inner k' :: held) R1.1 f0 g0 h0 = R0 at p0 ⊢
                    have den1 := p0.stable R1.2.1 (by simp) _ p1.den
                    have stab : StableOn (.inner i :: .inner j :: .inner k' :: held) st'.store
                        R0.1.store :=
                      (p1.stable.subset (fun e he => mem_tail3 _ (mem_tail3 _ he))).trans
                        (p0.stable.subset (fun e he => mem_tail3 _ (List.mem_cons_of_mem _ he)))
                    exact PostE.pre stab
                      (finishE_post pok hok p0.inv den1 p0.den (.ite, [.inner i, .inner j, .inner k'])
                        m R0.2.2 _ ⟨_, DenotesL.three (stab _ (by simp) _ hf')
                          (stab _ (by simp) _ hg') (stab _ (by simp) _ hh'), hspec⟩ hsub)
                      (fun e he => he)
                  · -- else-branch first
                    have p0 := ih (k + 2) (f1 :: g1 :: h1 :: .inner i :: .inner j :: .inner k' :: held)
                      st' f0 g0 h0 _ _ _ hinv' d0f d0g d0h sz.2
                    generalize iteE p env sch fuel (k + 2)
                      (f1 :: g1 :: h1 :: .inner i :: .inner j :: .inner k' :: held) st' f0 g0 h0 = R0
                      at p0 ⊢
                    have d1f0 := p0.stable f1 (by simp) _ d1f
                    have d1g0 := p0.stable g1 (by simp) _ d1g
                    have d1h0 := p0.stable h1 (by simp) _ d1h
                    have p1 := ih R0.2.2 (R0.2.1 :: .inner i :: .inner j :: .inner k' :: held) R0.1
                      f1 g1 h1 _ _ _ p0.inv d1f0 d1g0 d1h0 sz.1
                    generalize iteE p env sch fuel R0.2.2
                      (R0.2.1 :: .inner i :: .inner j :: .inner k' :: held) R0.1 f1 g1 h1 = R1 at p1 ⊢
                    have den0 := p1.stable R0.2.1 (by simp) _ p0.den
                    have stab : StableOn (.inner i :: .inner j :: .inner k' :: held) st'.store
                        R1.1.store :=
                      (p0.stable.subset (fun e he => mem_tail3 _ (mem_tail3 _ he))).trans
                        (p1.stable.subset (fun e he => mem_tail3 _ (List.mem_cons_of_mem _ he)))
                    exact PostE.pre stab
                      (finishE_post pok hok p1.inv p1.den den0 (.ite, [.inner i, .inner j, .inner k'])
                        m R1.2.2 _ ⟨_, DenotesL.three (stab _ (by simp) _ hf')
                          (stab _ (by simp) _ hg') (stab _ (by simp) _ hh'), hspec⟩ hsub)
                      (fun e he => he)

end OxiddModel.Bdd.Refine
