import OxiddModel.Bdd.Quant

/-!
# `apply_quant`: the combined apply-and-quantify operation equals apply followed by quantify
-/
namespace OxiddModel.Bdd
open BDD

/-! ## cofactor selection as done by `apply_quant` (`flevel <= glevel`, `flevel >= glevel`) -/

theorem cofc_upd_true {c : Prop} [Decidable c] {n L lf : Nat} {ft fe : BDD} (hc : c ↔ lf = L)
    (hL : L ≤ lf) (ho : Ordered n (.node lf ft fe)) (τ : Nat → Bool) :
    (BDD.node lf ft fe).eval (upd τ L true) = (if c then ft else BDD.node lf ft fe).eval τ := by
  cases ho with
  | node hn ht he =>
    by_cases h : c
    · rw [if_pos h]; have := hc.mp h; subst this; exact eval_node_upd_true ht τ
    · rw [if_neg h]
      have : L < lf := by
        have : lf ≠ L := fun e => h (hc.mpr e)
        omega
      exact eval_upd_lt (.node (Nat.le_refl _) ht he) this τ true

theorem cofc_upd_false {c : Prop} [Decidable c] {n L lf : Nat} {ft fe : BDD} (hc : c ↔ lf = L)
    (hL : L ≤ lf) (ho : Ordered n (.node lf ft fe)) (τ : Nat → Bool) :
    (BDD.node lf ft fe).eval (upd τ L false) = (if c then fe else BDD.node lf ft fe).eval τ := by
  cases ho with
  | node hn ht he =>
    by_cases h : c
    · rw [if_pos h]; have := hc.mp h; subst this; exact eval_node_upd_false he τ
    · rw [if_neg h]
      have : L < lf := by
        have : lf ≠ L := fun e => h (hc.mpr e)
        omega
      exact eval_upd_lt (.node (Nat.le_refl _) ht he) this τ false

theorem cofc_ordered_t {c : Prop} [Decidable c] {n L lf : Nat} {ft fe : BDD} (hc : c ↔ lf = L)
    (hL : L ≤ lf) (ho : Ordered n (.node lf ft fe)) :
    Ordered (L+1) (if c then ft else BDD.node lf ft fe) := by
  cases ho with
  | node hn ht he =>
    by_cases h : c
    · rw [if_pos h]; have := hc.mp h; subst this; exact ht
    · rw [if_neg h]
      have : lf ≠ L := fun e => h (hc.mpr e)
      exact .node (by omega) ht he

theorem cofc_ordered_e {c : Prop} [Decidable c] {n L lf : Nat} {ft fe : BDD} (hc : c ↔ lf = L)
    (hL : L ≤ lf) (ho : Ordered n (.node lf ft fe)) :
    Ordered (L+1) (if c then fe else BDD.node lf ft fe) := by
  cases ho with
  | node hn ht he =>
    by_cases h : c
    · rw [if_pos h]; have := hc.mp h; subst this; exact he
    · rw [if_neg h]
      have : lf ≠ L := fun e => h (hc.mpr e)
      exact .node (by omega) ht he

theorem cofc_reduced_t {c : Prop} [Decidable c] {lf : Nat} {ft fe : BDD} (hr : Reduced (.node lf ft fe)) :
    Reduced (if c then ft else BDD.node lf ft fe) := by
  split
  · exact hr.2.1
  · exact hr

theorem cofc_reduced_e {c : Prop} [Decidable c] {lf : Nat} {ft fe : BDD} (hr : Reduced (.node lf ft fe)) :
    Reduced (if c then fe else BDD.node lf ft fe) := by
  split
  · exact hr.2.2
  · exact hr

theorem le_iff_eq_min (a b : Nat) : a ≤ b ↔ a = min a b := by omega
theorem ge_iff_eq_min (a b : Nat) : a ≥ b ↔ b = min a b := by omega

/-! ## results of `terminal_bin` are ordered / reduced -/

theorem terminalBin_done_ordered {op : Op} {f g h : BDD} {n : Nat} (hb : terminalBin op f g = .done h)
    (hf : Ordered n f) (hg : Ordered n g) : Ordered n h :=
  terminalCase_ordered op f g h n (by simp [terminalCase, hb]) hf hg

theorem terminalBin_not_ordered {op : Op} {f g h : BDD} {n : Nat} (hb : terminalBin op f g = .notOf h)
    (hf : Ordered n f) (hg : Ordered n g) : Ordered n (applyNot h) :=
  terminalCase_ordered op f g _ n (by simp [terminalCase, hb]) hf hg

theorem terminalBin_done_reduced {op : Op} {f g h : BDD} (hb : terminalBin op f g = .done h)
    (hf : Reduced f) (hg : Reduced g) : Reduced h :=
  terminalCase_reduced op f g h (by simp [terminalCase, hb]) hf hg

theorem terminalBin_done_sem {op : Op} {f g h : BDD} (hb : terminalBin op f g = .done h) (σ : Nat → Bool) :
    h.eval σ = op.sem (f.eval σ) (g.eval σ) :=
  terminalCase_sound op f g h (by simp [terminalCase, hb]) σ

theorem terminalBin_not_sem {op : Op} {f g h : BDD} (hb : terminalBin op f g = .notOf h) (σ : Nat → Bool) :
    (applyNot h).eval σ = op.sem (f.eval σ) (g.eval σ) :=
  terminalCase_sound op f g _ (by simp [terminalCase, hb]) σ

/-! ## the common set-up of the recursive cases -/

/-- facts about the operand pair and the popped variable set used in all recursive cases -/
theorem aq_setup (q : Quant) (op : Op) {n m lf lg : Nat} {ft fe gt ge vars : BDD}
    (hf : Ordered n (.node lf ft fe)) (hg : Ordered n (.node lg gt ge)) (hv : IsVarSet m vars) :
    let L := min lf lg
    let G := fun τ => op.sem ((BDD.node lf ft fe).eval τ) ((BDD.node lg gt ge).eval τ)
    let vars' := if q ≠ .unique then setPop vars L else vars
    (∀ l, l < L → Indep G l) ∧
    qsem q (varsOf vars') G = qsem q (varsOf vars) G ∧
    IsVarSet m vars' ∧
    (∀ vl vt ve, vars' = .node vl vt ve → q ≠ .unique → L ≤ vl) ∧
    n ≤ L := by
  intro L G vars'
  have hfo : Ordered lf (.node lf ft fe) := by
    cases hf with | node _ a b => exact .node (Nat.le_refl _) a b
  have hgo : Ordered lg (.node lg gt ge) := by
    cases hg with | node _ a b => exact .node (Nat.le_refl _) a b
  have hind : ∀ l, l < L → Indep G l := by
    intro l hl σ b
    have h1 : l < lf := Nat.lt_of_lt_of_le hl (Nat.min_le_left _ _)
    have h2 : l < lg := Nat.lt_of_lt_of_le hl (Nat.min_le_right _ _)
    show op.sem _ _ = op.sem _ _
    rw [eval_upd_lt hfo h1, eval_upd_lt hgo h2]
  refine ⟨hind, ?_, ?_, ?_, ?_⟩
  · show qsem q (varsOf (if q ≠ .unique then setPop vars L else vars)) G = _
    split
    · rename_i hq; exact qsem_setPop hq vars L hind
    · rfl
  · show IsVarSet m (if q ≠ .unique then setPop vars L else vars)
    split
    · exact hv.setPop L
    · exact hv
  · intro vl vt ve h hq
    have h' : (if q ≠ .unique then setPop vars L else vars) = .node vl vt ve := h
    rw [if_pos hq] at h'
    exact setPop_node_ge h'
  · cases hf with | node a _ _ => cases hg with | node b _ _ => exact Nat.le_min.mpr ⟨a, b⟩

/-! ## semantics -/

/-- **`applyQuant_sem`** -/
theorem applyQuant_sem (q : Quant) (op : Op) {n m : Nat} {f g vars : BDD} (hf : Ordered n f)
    (hg : Ordered n g) (hv : IsVarSet m vars) (σ : Nat → Bool) :
    (applyQuant q op f g vars).eval σ
      = qsem q (varsOf vars) (fun τ => op.sem (f.eval τ) (g.eval τ)) σ := by
  fun_induction applyQuant q op f g vars generalizing n m σ with
  | case1 f g vars h hb =>
    rw [quant_sem q (terminalBin_not_ordered hb hf hg) hv]
    exact congrFun (qsem_congr q _ (terminalBin_not_sem hb)) σ
  | case2 f g vars h hb =>
    rw [quant_sem q (terminalBin_done_ordered hb hf hg) hv]
    exact congrFun (qsem_congr q _ (terminalBin_done_sem hb)) σ
  | case3 vars a b c lf ft fe lg gt ge L vars' x =>
    rename_i hvars0 hb
    have hvars' : (if q ≠ .unique then setPop vars (min lf lg) else vars) = .leaf x := hvars0
    obtain ⟨_, hsem, _, _, _⟩ := aq_setup q op hf hg hv
    rw [← hsem, applyBin_eval, hvars']; rfl
  | case4 vars a b c lf ft fe lg gt ge L vars' vl vt ve hvars0 =>
    rename_i hlt hb
    have hvars' : (if q ≠ .unique then setPop vars (min lf lg) else vars) = .node vl vt ve := hvars0
    obtain ⟨hind, hsem, _, _, _⟩ := aq_setup q op hf hg hv
    obtain ⟨hlt, hq⟩ := hlt
    rw [← hsem, hvars', varsOf, hq, qsem_unique_above (hind vl hlt)]; rfl
  | case5 vars a b c lf ft fe lg gt ge L vars' vl vt ve hvars0 h1 =>
    rename_i h2 hb
    exfalso
    have hvars' : (if q ≠ .unique then setPop vars (min lf lg) else vars) = .node vl vt ve := hvars0
    obtain ⟨_, _, _, hge, _⟩ := aq_setup q op hf hg hv
    have hq : q ≠ .unique := fun h => h1 ⟨h2, h⟩
    have := hge vl vt ve hvars' hq
    omega
  | case6 vars a b c lf ft fe lg gt ge L vars' vt ve hvars0 h1 h2 vt' t e hb =>
    rename_i ih1 ih2
    have hvars' : (if q ≠ .unique then setPop vars (min lf lg) else vars) = .node L vt ve := hvars0
    obtain ⟨hind, hsem, hv', _, hn⟩ := aq_setup q op hf hg hv
    simp only [dite_eq_ite] at ih1 ih2
    have hvt' : vt' = vt := dif_pos rfl
    have hv'' : IsVarSet m (.node L vt ve) := hvars' ▸ hv'
    cases hv'' with
    | node hmL hvt =>
    have hL1 : L ≤ lf := Nat.min_le_left _ _
    have hL2 : L ≤ lg := Nat.min_le_right _ _
    have hvt'' : IsVarSet (L+1) vt' := hvt' ▸ hvt
    rw [← hsem, hvars', varsOf, applyBin_eval]
    show q.op.sem ((applyQuant q op _ _ vt').eval σ) ((applyQuant q op _ _ vt').eval σ) = _
    simp only [dite_eq_ite]
    rw [ih1 (cofc_ordered_t (le_iff_eq_min lf lg) hL1 hf) (cofc_ordered_t (ge_iff_eq_min lf lg) hL2 hg) hvt'',
      ih2 (cofc_ordered_e (le_iff_eq_min lf lg) hL1 hf) (cofc_ordered_e (ge_iff_eq_min lf lg) hL2 hg) hvt'',
      hvt']
    refine (qsem_step_eq q (hvt.not_mem (Nat.lt_succ_self _)) ?_ ?_ σ).symm
    · intro τ
      show op.sem _ _ = op.sem _ _
      rw [cofc_upd_true (le_iff_eq_min lf lg) hL1 hf, cofc_upd_true (ge_iff_eq_min lf lg) hL2 hg]
    · intro τ
      show op.sem _ _ = op.sem _ _
      rw [cofc_upd_false (le_iff_eq_min lf lg) hL1 hf, cofc_upd_false (ge_iff_eq_min lf lg) hL2 hg]
  | case7 vars a b c lf ft fe lg gt ge L vars' vl vt ve hvars0 h1 h2 vt' t e hne hb =>
    rename_i ih1 ih2
    have hvars' : (if q ≠ .unique then setPop vars (min lf lg) else vars) = .node vl vt ve := hvars0
    obtain ⟨hind, hsem, hv', _, hn⟩ := aq_setup q op hf hg hv
    simp only [dite_eq_ite] at ih1 ih2
    have hvt' : vt' = .node vl vt ve := (dif_neg (fun h => hne h.symm)).trans hvars0
    have hv'' : IsVarSet m (.node vl vt ve) := hvars' ▸ hv'
    have hlt : L < vl := by
      have : ¬ L > vl := h2
      have : ¬ L = vl := hne
      omega
    have hvs : IsVarSet (L+1) (.node vl vt ve) := by
      cases hv'' with
      | node _ hvt => exact .node (by omega) hvt
    have hL1 : L ≤ lf := Nat.min_le_left _ _
    have hL2 : L ≤ lg := Nat.min_le_right _ _
    have hvt'' : IsVarSet (L+1) vt' := by rw [hvt']; exact hvs
    rw [← hsem, hvars', mk_eval]
    show (if σ L then (applyQuant q op _ _ vt').eval σ else (applyQuant q op _ _ vt').eval σ) = _
    simp only [dite_eq_ite]
    rw [ih1 (cofc_ordered_t (le_iff_eq_min lf lg) hL1 hf) (cofc_ordered_t (ge_iff_eq_min lf lg) hL2 hg) hvt'',
      ih2 (cofc_ordered_e (le_iff_eq_min lf lg) hL1 hf) (cofc_ordered_e (ge_iff_eq_min lf lg) hL2 hg) hvt'',
      hvt']
    have hnm : L ∉ varsOf (.node vl vt ve) := hvs.not_mem (Nat.lt_succ_self _)
    refine (qsem_step_ne q hnm ?_ ?_ σ).symm
    · intro τ
      show op.sem _ _ = op.sem _ _
      rw [cofc_upd_true (le_iff_eq_min lf lg) hL1 hf, cofc_upd_true (ge_iff_eq_min lf lg) hL2 hg]
    · intro τ
      show op.sem _ _ = op.sem _ _
      rw [cofc_upd_false (le_iff_eq_min lf lg) hL1 hf, cofc_upd_false (ge_iff_eq_min lf lg) hL2 hg]
  | case8 f g vars a b c hb hne =>
    exfalso
    have hs := terminalBin_spec op f g
    rw [hb] at hs
    obtain ⟨_, _, _, h1, h2⟩ := hs
    cases f with
    | leaf _ => simp [isLeaf] at h1
    | node lf ft fe =>
      cases g with
      | leaf _ => simp [isLeaf] at h2
      | node lg gt ge => exact hne _ _ _ _ _ _ rfl rfl

/-! ## normal form -/

theorem case8_absurd {op : Op} {f g : BDD} {a : Op} {b c : BDD}
    (hb : terminalBin op f g = .binary a b c)
    (hne : ∀ (lf : Nat) (ft fe : BDD) (lg : Nat) (gt ge : BDD), f = .node lf ft fe → g = .node lg gt ge → False) :
    False := by
  have hs := terminalBin_spec op f g
  rw [hb] at hs
  obtain ⟨_, _, _, h1, h2⟩ := hs
  cases f with
  | leaf _ => simp [isLeaf] at h1
  | node lf ft fe =>
    cases g with
    | leaf _ => simp [isLeaf] at h2
    | node lg gt ge => exact hne _ _ _ _ _ _ rfl rfl

theorem applyQuant_ordered (q : Quant) (op : Op) {n : Nat} {f g : BDD} (vars : BDD) (hf : Ordered n f)
    (hg : Ordered n g) : Ordered n (applyQuant q op f g vars) := by
  fun_induction applyQuant q op f g vars generalizing n with
  | case1 f g vars h hb => exact quant_ordered q vars (terminalBin_not_ordered hb hf hg)
  | case2 f g vars h hb => exact quant_ordered q vars (terminalBin_done_ordered hb hf hg)
  | case3 => exact applyBin_ordered _ _ _ _ hf hg
  | case4 => exact .leaf
  | case5 => exact applyBin_ordered _ _ _ _ hf hg
  | case6 vars a b c lf ft fe lg gt ge L vars' vt ve hvars0 h1 h2 vt' t e hb =>
    rename_i ih1 ih2
    simp only [dite_eq_ite] at ih1 ih2
    have hL1 : L ≤ lf := Nat.min_le_left _ _
    have hL2 : L ≤ lg := Nat.min_le_right _ _
    have hn : n ≤ L := by
      cases hf with | node a _ _ => cases hg with | node b _ _ => exact Nat.le_min.mpr ⟨a, b⟩
    have h1 := ih1 (cofc_ordered_t (le_iff_eq_min lf lg) hL1 hf) (cofc_ordered_t (ge_iff_eq_min lf lg) hL2 hg)
    have h2 := ih2 (cofc_ordered_e (le_iff_eq_min lf lg) hL1 hf) (cofc_ordered_e (ge_iff_eq_min lf lg) hL2 hg)
    have := applyBin_ordered q.op _ _ _ h1 h2
    show Ordered n (applyBin q.op (applyQuant q op _ _ vt') (applyQuant q op _ _ vt'))
    simp only [dite_eq_ite]
    exact this.mono (by omega)
  | case7 vars a b c lf ft fe lg gt ge L vars' vl vt ve hvars0 h1 h2 vt' t e hne hb =>
    rename_i ih1 ih2
    simp only [dite_eq_ite] at ih1 ih2
    have hL1 : L ≤ lf := Nat.min_le_left _ _
    have hL2 : L ≤ lg := Nat.min_le_right _ _
    have hn : n ≤ L := by
      cases hf with | node a _ _ => cases hg with | node b _ _ => exact Nat.le_min.mpr ⟨a, b⟩
    have h1 := ih1 (cofc_ordered_t (le_iff_eq_min lf lg) hL1 hf) (cofc_ordered_t (ge_iff_eq_min lf lg) hL2 hg)
    have h2 := ih2 (cofc_ordered_e (le_iff_eq_min lf lg) hL1 hf) (cofc_ordered_e (ge_iff_eq_min lf lg) hL2 hg)
    have := mk_ordered hn h1 h2
    show Ordered n (mk L (applyQuant q op _ _ vt') (applyQuant q op _ _ vt'))
    simp only [dite_eq_ite]
    exact this
  | case8 => exact .leaf

theorem applyQuant_reduced (q : Quant) (op : Op) {f g : BDD} (vars : BDD) (hf : Reduced f)
    (hg : Reduced g) : Reduced (applyQuant q op f g vars) := by
  fun_induction applyQuant q op f g vars with
  | case1 f g vars h hb => exact quant_reduced q vars (applyNot_reduced _)
  | case2 f g vars h hb => exact quant_reduced q vars (terminalBin_done_reduced hb hf hg)
  | case3 => exact applyBin_reduced _ _ _ hf hg
  | case4 => trivial
  | case5 => exact applyBin_reduced _ _ _ hf hg
  | case6 vars a b c lf ft fe lg gt ge L vars' vt ve hvars0 h1 h2 vt' t e hb =>
    rename_i ih1 ih2
    simp only [dite_eq_ite] at ih1 ih2
    have := applyBin_reduced q.op _ _ (ih1 (cofc_reduced_t hf) (cofc_reduced_t hg))
      (ih2 (cofc_reduced_e hf) (cofc_reduced_e hg))
    show Reduced (applyBin q.op (applyQuant q op _ _ vt') (applyQuant q op _ _ vt'))
    simp only [dite_eq_ite]
    exact this
  | case7 vars a b c lf ft fe lg gt ge L vars' vl vt ve hvars0 h1 h2 vt' t e hne hb =>
    rename_i ih1 ih2
    simp only [dite_eq_ite] at ih1 ih2
    have := mk_reduced (l := L) (ih1 (cofc_reduced_t hf) (cofc_reduced_t hg))
      (ih2 (cofc_reduced_e hf) (cofc_reduced_e hg))
    show Reduced (mk L (applyQuant q op _ _ vt') (applyQuant q op _ _ vt'))
    simp only [dite_eq_ite]
    exact this
  | case8 => trivial

/-- **`applyQuant_nf`** (for every `vars` operand) -/
theorem applyQuant_nf (q : Quant) (op : Op) {n : Nat} {f g : BDD} (vars : BDD) (hf : NF n f) (hg : NF n g) :
    NF n (applyQuant q op f g vars) :=
  ⟨applyQuant_ordered q op vars hf.1 hg.1, applyQuant_reduced q op vars hf.2 hg.2⟩

/-- **`applyQuant_eq`**: the combined operation returns the *same diagram* as the plain operator
followed by the quantification -/
theorem applyQuant_eq (q : Quant) (op : Op) {n m : Nat} {f g vars : BDD} (hf : NF n f) (hg : NF n g)
    (hv : IsVarSet m vars) : applyQuant q op f g vars = quant q (applyBin op f g) vars := by
  have hfg := applyBin_nf op f g n hf hg
  refine (nf_eq_iff _ _ n (applyQuant_nf q op vars hf hg) (quant_nf q vars hfg)).mpr (fun σ => ?_)
  rw [applyQuant_sem q op hf.1 hg.1 hv, quant_sem q hfg.1 hv]
  exact congrFun (qsem_congr q _ (fun τ => (applyBin_eval op f g τ).symm)) σ

end OxiddModel.Bdd
