import OxiddModel.Bdd.QuantS
import OxiddModel.Bdd.ApplyQuant

/-!
# `apply_quant::<Q, OP>` on the store, with the apply cache

`applyQuantS` follows `apply_quant` of `crates/oxidd-rules-bdd/src/simple/apply_rec.rs` (one
function for all three quantifiers; `apply_forall/exists/unique` dispatch to it):

* `terminal_bin::<OP>(f, g)`: `Done(h)` ⇒ `quant::<Q>(h, vars)`; `Not(h)` ⇒
  `quant::<Q>(apply_not(h), vars)`; `Binary(_, f, g)` ⇒ **continue with the operands as
  normalised by `terminal_bin`** (swapped if `OP` is commutative and `f > g`);
* `set_pop(vars, min_level)` (not for `Unique`); empty set or all variables above ⇒
  `apply_bin::<OP>(f, g)`; `Unique` with a variable above both ⇒ `⊥`;
* cache query under `(from_apply_quant(Q, OP), [f, g, vars])` — three edge operands, quantifier
  and inner operator folded into the operator — with the normalised `f`, `g` and the popped `vars`;
* recursion on the cofactors, then `apply_bin::<Q>(t, e)` or `reduce`; cache add.

Tree level: unfolding lemmas for `applyQuant`, and `applyQuant_comm` (for a commutative `OP` the
operand order is irrelevant), which is what makes the operand normalisation sound.

`applyQuantS_spec`: for all trees `a`, `b`, `v` there is a fuel bound `N` (depending on the trees
only) such that for every admissible policy, every sound cache, every store and all edges denoting
`a`, `b`, `v`: the result denotes `applyQuant q op a b v`, the store is only extended, and
`Unique`, `CacheOKX`, `NoRed` are preserved.
-/
namespace OxiddModel.Bdd.Refine
open OxiddModel.Bdd OxiddModel.Bdd.BDD

/-! ## tree level -/

theorem applyQuant_done {q : Quant} {op : Op} {f g h : BDD} (vars : BDD)
    (hb : terminalBin op f g = .done h) : applyQuant q op f g vars = quant q h vars := by
  rw [applyQuant.eq_def]; simp only [hb]

theorem applyQuant_notOf {q : Quant} {op : Op} {f g h : BDD} (vars : BDD)
    (hb : terminalBin op f g = .notOf h) :
    applyQuant q op f g vars = quant q (applyNot h) vars := by
  rw [applyQuant.eq_def]; simp only [hb]

/-- the operands of the then-recursion (`if flevel <= glevel { children } else { (f, f) }`) -/
def aqT (fl : Nat) (ft fe : BDD) (gl : Nat) : BDD := if fl ≤ gl then ft else .node fl ft fe
/-- the operands of the else-recursion -/
def aqE (fl : Nat) (ft fe : BDD) (gl : Nat) : BDD := if fl ≤ gl then fe else .node fl ft fe

/-- the variable set handed to the recursive calls -/
def aqVt (vars' : BDD) (minl : Nat) : BDD :=
  match vars' with
  | .leaf b => .leaf b
  | .node vl vt ve => if vl = minl then vt else .node vl vt ve

/-- the body of `apply_quant` for two inner nodes, after the (optional) `set_pop` -/
def aqStep (q : Quant) (op : Op) (fl : Nat) (ft fe : BDD) (gl : Nat) (gt ge : BDD) (vars' : BDD) :
    BDD :=
  match vars' with
  | .leaf _ => applyBin op (.node fl ft fe) (.node gl gt ge)
  | .node vl vt ve =>
    if vl < min fl gl ∧ q = .unique then .leaf false else
    if min fl gl > vl then applyBin op (.node fl ft fe) (.node gl gt ge) else
    if min fl gl = vl then
      applyBin q.op
        (applyQuant q op (aqT fl ft fe gl) (aqT gl gt ge fl) (aqVt (.node vl vt ve) (min fl gl)))
        (applyQuant q op (aqE fl ft fe gl) (aqE gl gt ge fl) (aqVt (.node vl vt ve) (min fl gl)))
    else
      mk (min fl gl)
        (applyQuant q op (aqT fl ft fe gl) (aqT gl gt ge fl) (aqVt (.node vl vt ve) (min fl gl)))
        (applyQuant q op (aqE fl ft fe gl) (aqE gl gt ge fl) (aqVt (.node vl vt ve) (min fl gl)))

theorem applyQuant_binary {q : Quant} {op o : Op} {fl gl : Nat} {ft fe gt ge x y : BDD}
    (vars : BDD) (hb : terminalBin op (.node fl ft fe) (.node gl gt ge) = .binary o x y) :
    applyQuant q op (.node fl ft fe) (.node gl gt ge) vars =
      aqStep q op fl ft fe gl gt ge (popVars q vars (min fl gl)) := by
  rw [applyQuant.eq_def]; simp only [hb]
  unfold popVars
  generalize (if q ≠ .unique then setPop vars (min fl gl) else vars) = vars'
  cases vars' with
  | leaf b => rfl
  | node vl vt ve => simp only [aqStep, aqT, aqE, aqVt, ge_iff_le]

/-- the cache key is normalised soundly: the popped set gives the same result -/
theorem applyQuant_popVars {q : Quant} {op o : Op} {fl gl : Nat} {ft fe gt ge x y : BDD}
    (vars : BDD) (hb : terminalBin op (.node fl ft fe) (.node gl gt ge) = .binary o x y) :
    applyQuant q op (.node fl ft fe) (.node gl gt ge) (popVars q vars (min fl gl)) =
      applyQuant q op (.node fl ft fe) (.node gl gt ge) vars := by
  rw [applyQuant_binary _ hb, applyQuant_binary _ hb, popVars_idem]

theorem terminalBin_binary_nodes {op o : Op} {f g x y : BDD}
    (hb : terminalBin op f g = .binary o x y) :
    ∃ fl ft fe gl gt ge, f = .node fl ft fe ∧ g = .node gl gt ge := by
  have := terminalBin_spec op f g
  rw [hb] at this
  obtain ⟨_, _, _, hf, hg⟩ := this
  cases f with
  | leaf _ => simp [isLeaf] at hf
  | node fl ft fe =>
    cases g with
    | leaf _ => simp [isLeaf] at hg
    | node gl gt ge => exact ⟨_, _, _, _, _, _, rfl, rfl⟩

theorem aqT_size_le (fl : Nat) (ft fe : BDD) (gl : Nat) :
    (aqT fl ft fe gl).size ≤ (BDD.node fl ft fe).size := by
  unfold aqT; split <;> simp only [BDD.size] <;> omega

theorem aqE_size_le (fl : Nat) (ft fe : BDD) (gl : Nat) :
    (aqE fl ft fe gl).size ≤ (BDD.node fl ft fe).size := by
  unfold aqE; split <;> simp only [BDD.size] <;> omega

theorem aqT_size_lt {fl gl : Nat} (ft fe : BDD) (h : fl ≤ gl) :
    (aqT fl ft fe gl).size < (BDD.node fl ft fe).size := by
  unfold aqT; simp only [h, if_true, BDD.size]; omega

theorem aqE_size_lt {fl gl : Nat} (ft fe : BDD) (h : fl ≤ gl) :
    (aqE fl ft fe gl).size < (BDD.node fl ft fe).size := by
  unfold aqE; simp only [h, if_true, BDD.size]; omega

theorem aq_sizes (fl : Nat) (ft fe : BDD) (gl : Nat) (gt ge : BDD) :
    (aqT fl ft fe gl).size + (aqT gl gt ge fl).size <
      (BDD.node fl ft fe).size + (BDD.node gl gt ge).size ∧
    (aqE fl ft fe gl).size + (aqE gl gt ge fl).size <
      (BDD.node fl ft fe).size + (BDD.node gl gt ge).size := by
  have h1 := aqT_size_le fl ft fe gl
  have h2 := aqT_size_le gl gt ge fl
  have h3 := aqE_size_le fl ft fe gl
  have h4 := aqE_size_le gl gt ge fl
  by_cases h : fl ≤ gl
  · have := aqT_size_lt ft fe h
    have := aqE_size_lt ft fe h
    omega
  · have h' : gl ≤ fl := by omega
    have := aqT_size_lt gt ge h'
    have := aqE_size_lt gt ge h'
    omega

/-- **for a commutative inner operator the operand order of `apply_quant` is irrelevant** — the
reason why `apply_quant` may continue with the operands as normalised by `terminal_bin` (and
memoise under them) -/
theorem applyQuant_comm (q : Quant) (op : Op) (hc : Op.comm op = true) (n : Nat) :
    ∀ (f g vars : BDD), f.size + g.size ≤ n →
      applyQuant q op f g vars = applyQuant q op g f vars := by
  induction n with
  | zero => intro f g _ h; have := size_pos f; omega
  | succ n ih =>
    intro f g vars hsz
    have hcm := terminalBin_comm op hc f g
    cases hb : terminalBin op f g with
    | done h =>
      rw [hb] at hcm
      rw [applyQuant_done _ hb, applyQuant_done _ hcm]
    | notOf h =>
      rw [hb] at hcm
      rw [applyQuant_notOf _ hb, applyQuant_notOf _ hcm]
    | binary o x y =>
      rw [hb] at hcm
      obtain ⟨fl, ft, fe, gl, gt, ge, rfl, rfl⟩ := terminalBin_binary_nodes hb
      rw [applyQuant_binary _ hb, applyQuant_binary _ hcm, Nat.min_comm gl fl]
      generalize popVars q vars (min fl gl) = v'
      have hab := applyBin_comm op hc (.node fl ft fe) (.node gl gt ge)
      have hs := aq_sizes fl ft fe gl gt ge
      cases v' with
      | leaf b => simp only [aqStep]; exact hab
      | node vl vt ve =>
        simp only [aqStep, Nat.min_comm gl fl]
        rw [hab, ih (aqT fl ft fe gl) (aqT gl gt ge fl) _ (by omega),
          ih (aqE fl ft fe gl) (aqE gl gt ge fl) _ (by omega)]

/-! ## the algorithm -/

/-- the part of `apply_quant` after `terminal_bin` returned `Binary(_, f, g)`; `rec` is the
recursive call -/
def aqBodyS (p : Policy) (q : Quant) (op : Op) (af : Nat)
    (rec : St → Edge → Edge → Edge → St × Edge) (st : St) (f g vars : Edge) : St × Edge :=
  match f, g with
  | .inner i, .inner k =>
    match st.store.get? i, st.store.get? k with
    | some fn, some gn =>
      let minl := min fn.level gn.level
      let vars := if q ≠ .unique then st.store.setPopS af vars minl else vars
      match vars with
      | .term _ =>
        -- empty variable set: just apply operation
        applyS p op af st f g
      | .inner j =>
        match st.store.get? j with
        | none => (st, f) -- dangling edge (excluded by `Denotes`)
        | some vn =>
          if vn.level < minl ∧ q = .unique then (st, .term false) else
          if minl > vn.level then
            -- beyond the variables to be quantified, so simply apply
            applyS p op af st f g
          else
          -- query the cache
          match p.get st.tick st.cache (encKey (applyQuantKey q op f g vars)) with
          | some r => (st.tickd, r)
          | none =>
            let vt := if vn.level = minl then vn.t else vars
            let fte := if fn.level ≤ gn.level then (fn.t, fn.e) else (f, f)
            let gte := if gn.level ≤ fn.level then (gn.t, gn.e) else (g, g)
            let r1 := rec st.tickd fte.1 gte.1 vt
            let r0 := rec r1.1 fte.2 gte.2 vt
            if minl = vn.level then
              let r := applyS p q.op af r0.1 r1.2 r0.2
              addS p r.1 (encKey (applyQuantKey q op f g vars)) r.2
            else
              finishS p r0.1 (encKey (applyQuantKey q op f g vars)) minl r1.2 r0.2
    | _, _ => (st, f) -- dangling edge
  | _, _ => (st, f) -- unreachable: "Terminal cases handled above"

/-- `apply_quant::<Q, OP>` -/
def applyQuantS (p : Policy) (q : Quant) (op : Op) (af : Nat) :
    Nat → St → Edge → Edge → Edge → St × Edge
  | 0, st, f, _, _ => (st, f)
  | fuel+1, st, f, g, vars =>
    match terminalBinS op f g with
    | .binary _ o1 o2 => aqBodyS p q op af (applyQuantS p q op af fuel) st o1 o2 vars
    | .notOf h =>
      let inverse := notS p af st h
      quantS p q af af inverse.1 inverse.2 vars
    | .done h => quantS p q af af st h vars

/-! ## specification -/

theorem applyQuantKey_means {reg : Nat → List BDD} {s : Store} {q : Quant} {op : Op}
    {f g vars : Edge} {a b v : BDD} (hf : Denotes s f a) (hg : Denotes s g b)
    (hv : Denotes s vars v) :
    KeyMeans reg s (encKey (applyQuantKey q op f g vars)) (applyQuant q op a b v) :=
  KeyMeans.of (applyQuantKey_wf q op f g vars) (DenotesL.three hf hg hv) rfl

/-- what is required of the recursive call for operand trees `a`, `b`, `v` -/
def RecOK (reg : Nat → List BDD) (q : Quant) (op : Op)
    (rec : St → Edge → Edge → Edge → St × Edge) (a b v : BDD) : Prop :=
  ∀ (st : St) (f g vars : Edge), InvX reg st → Denotes st.store f a → Denotes st.store g b →
    Denotes st.store vars v → PostW reg st.store (applyQuant q op a b v) (rec st f g vars)

/-- the body, given correct recursive calls and enough fuel for the inner calls -/
theorem aqBodyS_post {p : Policy} (pok : p.OK) (reg : Nat → List BDD) (q : Quant) (op : Op)
    (af : Nat) (rec : St → Edge → Edge → Edge → St × Edge)
    {fl gl : Nat} {ft fe gt ge v : BDD} {o : Op} {x y : BDD}
    (hb : terminalBin op (.node fl ft fe) (.node gl gt ge) = .binary o x y)
    (hrec1 : RecOK reg q op rec (aqT fl ft fe gl) (aqT gl gt ge fl)
      (aqVt (popVars q v (min fl gl)) (min fl gl)))
    (hrec0 : RecOK reg q op rec (aqE fl ft fe gl) (aqE gl gt ge fl)
      (aqVt (popVars q v (min fl gl)) (min fl gl)))
    (hv : v.size ≤ af) (hfg : (BDD.node fl ft fe).size + (BDD.node gl gt ge).size ≤ af)
    (hte : (applyQuant q op (aqT fl ft fe gl) (aqT gl gt ge fl)
        (aqVt (popVars q v (min fl gl)) (min fl gl))).size +
      (applyQuant q op (aqE fl ft fe gl) (aqE gl gt ge fl)
        (aqVt (popVars q v (min fl gl)) (min fl gl))).size ≤ af)
    (st : St) (f g vars : Edge) (hinv : InvX reg st)
    (hf : Denotes st.store f (.node fl ft fe)) (hg : Denotes st.store g (.node gl gt ge))
    (hvars : Denotes st.store vars v) :
    PostW reg st.store (applyQuant q op (.node fl ft fe) (.node gl gt ge) v)
      (aqBodyS p q op af rec st f g vars) := by
  cases hf with
  | @inner i _ t e _ _ hi hft hfe =>
  cases hg with
  | @inner k _ t' e' _ _ hk hgt hge =>
  have hdf : Denotes st.store (.inner i) (.node fl ft fe) := .inner hi hft hfe
  have hdg : Denotes st.store (.inner k) (.node gl gt ge) := .inner hk hgt hge
  have hpop : Denotes st.store
      (if q ≠ .unique then st.store.setPopS af vars (min fl gl) else vars)
      (popVars q v (min fl gl)) := by
    unfold popVars
    split
    · exact setPopS_denotes _ af hvars hv
    · exact hvars
  have happly := (applyS_specX pok reg op af st _ _ _ _ hinv hdf hdg hfg).toW
  rw [← applyQuant_popVars _ hb, applyQuant_binary _ hb, popVars_idem]
  simp only [aqBodyS, hi, hk]
  generalize (if q ≠ .unique then st.store.setPopS af vars (min fl gl) else vars) = vars' at hpop ⊢
  generalize hv' : popVars q v (min fl gl) = v' at hpop hrec1 hrec0 hte
  cases hpop with
  | @term z => simp only [aqStep]; exact happly
  | @inner j vl vt ve vtt vte hj hvt hve =>
    have hdv : Denotes st.store (.inner j) (.node vl vtt vte) := .inner hj hvt hve
    simp only [hj, aqStep]
    by_cases hu : vl < min fl gl ∧ q = .unique
    · simp only [hu, and_self, if_true]
      exact PostW.done hinv .term
    · simp only [hu, if_false]
      by_cases hbey : min fl gl > vl
      · simp only [hbey, if_true]
        exact happly
      · simp only [hbey, if_false]
        have hkey : KeyMeans reg st.store (encKey (applyQuantKey q op (.inner i) (.inner k) (.inner j)))
            (aqStep q op fl ft fe gl gt ge (.node vl vtt vte)) := by
          have := applyQuantKey_means (reg := reg) (q := q) (op := op) hdf hdg hdv
          rw [applyQuant_binary _ hb, ← hv', popVars_idem, hv'] at this
          exact this
        simp only [aqStep, hbey, if_false] at hkey
        cases hget : p.get st.tick st.cache
            (encKey (applyQuantKey q op (.inner i) (.inner k) (.inner j))) with
        | some r =>
          have hent := hinv.2 _ _ (pok.get_mem _ _ _ _ hget)
          have := hent.hit (applyQuantKey_wf q op _ _ _) (DenotesL.three hdf hdg hdv) rfl
          rw [applyQuant_binary _ hb, ← hv', popVars_idem, hv'] at this
          simp only [aqStep, hbey, if_false] at this
          exact PostW.done (st := st.tickd) hinv.tickd this
        | none =>
          simp only
          -- the operands of the recursive calls
          have hvt' : Denotes st.store (if vl = min fl gl then vt else .inner j)
              (aqVt (.node vl vtt vte) (min fl gl)) := by
            simp only [aqVt]; split
            · exact hvt
            · exact hdv
          have hf1 : Denotes st.store (if fl ≤ gl then (t, e) else (.inner i, .inner i)).1
              (aqT fl ft fe gl) := by
            unfold aqT; split
            · exact hft
            · exact hdf
          have hf0 : Denotes st.store (if fl ≤ gl then (t, e) else (.inner i, .inner i)).2
              (aqE fl ft fe gl) := by
            unfold aqE; split
            · exact hfe
            · exact hdf
          have hg1 : Denotes st.store (if gl ≤ fl then (t', e') else (.inner k, .inner k)).1
              (aqT gl gt ge fl) := by
            unfold aqT; split
            · exact hgt
            · exact hdg
          have hg0 : Denotes st.store (if gl ≤ fl then (t', e') else (.inner k, .inner k)).2
              (aqE gl gt ge fl) := by
            unfold aqE; split
            · exact hge
            · exact hdg
          by_cases hlv : min fl gl = vl
          · subst hlv
            simp only [if_true] at hkey hvt' ⊢
            have p1 := hrec1 st.tickd _ _ _ hinv.tickd hf1 hg1 hvt'
            have p0 := hrec0 _ _ _ _ p1.inv (hf0.mono p1.le) (hg0.mono p1.le) (hvt'.mono p1.le)
            have pa := (applyS_specX pok reg q.op af _ _ _ _ _ p0.inv (p1.den.mono p0.le) p0.den
              hte).toW
            have pa' : PostW reg st.store _ _ :=
              PostW.trans (p1.le.trans p0.le) (fun hr => p0.nored (p1.nored hr)) pa
            exact addS_postW pok pa' _ hkey
          · have hvl : ¬ vl = min fl gl := fun h => hlv h.symm
            simp only [hlv, hvl, if_false] at hkey hvt' ⊢
            have p1 := hrec1 st.tickd _ _ _ hinv.tickd hf1 hg1 hvt'
            have p0 := hrec0 _ _ _ _ p1.inv (hf0.mono p1.le) (hg0.mono p1.le) (hvt'.mono p1.le)
            exact finishS_postW pok p1 p0 _ _ hkey

/-- **`apply_quant::<Q, OP>` with cache refines `applyQuant q op`.** -/
theorem applyQuantS_spec (reg : Nat → List BDD) (q : Quant) (op : Op) (n : Nat) :
    ∀ (a b v : BDD), a.size + b.size ≤ n →
    ∃ N, ∀ (p : Policy), p.OK → ∀ (af fuel : Nat), N ≤ af → a.size + b.size ≤ fuel →
      ∀ (st : St) (f g vars : Edge), InvX reg st → Denotes st.store f a → Denotes st.store g b →
        Denotes st.store vars v →
        PostW reg st.store (applyQuant q op a b v) (applyQuantS p q op af fuel st f g vars) := by
  induction n with
  | zero => intro a b _ h; have := size_pos a; omega
  | succ n ih =>
    intro a b v hsz
    cases hT : terminalBin op a b with
    | done t =>
      refine ⟨max t.size (quantNeed q t v), ?_⟩
      intro p pok af fuel hN hfuel st f g vars hinv hf hg hv
      have hsa := size_pos a
      obtain ⟨fuel, rfl⟩ : ∃ k, fuel = k + 1 := ⟨fuel - 1, by omega⟩
      have hc := terminalBinS_corr op (inj_of_unique hinv.1) hf hg
      rw [hT] at hc
      rw [applyQuant_done _ hT]
      simp only [applyQuantS]
      cases hS : terminalBinS op f g with
      | done e =>
        rw [hS] at hc
        exact quantS_spec pok reg q af af st e vars t v hinv hc hv (by omega) (by omega)
      | notOf e => rw [hS] at hc; exact hc.elim
      | binary _ _ _ => rw [hS] at hc; exact hc.elim
    | notOf t =>
      refine ⟨max t.size (max (applyNot t).size (quantNeed q (applyNot t) v)), ?_⟩
      intro p pok af fuel hN hfuel st f g vars hinv hf hg hv
      have hsa := size_pos a
      obtain ⟨fuel, rfl⟩ : ∃ k, fuel = k + 1 := ⟨fuel - 1, by omega⟩
      have hc := terminalBinS_corr op (inj_of_unique hinv.1) hf hg
      rw [hT] at hc
      rw [applyQuant_notOf _ hT]
      simp only [applyQuantS]
      cases hS : terminalBinS op f g with
      | done e => rw [hS] at hc; exact hc.elim
      | notOf e =>
        rw [hS] at hc
        have pn := (notS_specX pok reg af st e t hinv hc (by omega)).toW
        have pq := quantS_spec pok reg q af af _ _ vars _ v pn.inv pn.den (hv.mono pn.le)
          (by omega) (by omega)
        exact PostW.trans pn.le pn.nored pq
      | binary _ _ _ => rw [hS] at hc; exact hc.elim
    | binary o x y =>
      obtain ⟨fl, ft, fe, gl, gt, ge, rfl, rfl⟩ := terminalBin_binary_nodes hT
      have hTc : Op.comm op = true →
          terminalBin op (.node gl gt ge) (.node fl ft fe) = .binary o y x := by
        intro hcm
        have := terminalBin_comm op hcm (.node fl ft fe) (.node gl gt ge)
        rw [hT] at this
        exact this
      have hs := aq_sizes fl ft fe gl gt ge
      have hs' := aq_sizes gl gt ge fl ft fe
      -- bounds for the recursive calls, in both operand orders
      obtain ⟨N1, h1⟩ := ih (aqT fl ft fe gl) (aqT gl gt ge fl)
        (aqVt (popVars q v (min fl gl)) (min fl gl)) (by omega)
      obtain ⟨N0, h0⟩ := ih (aqE fl ft fe gl) (aqE gl gt ge fl)
        (aqVt (popVars q v (min fl gl)) (min fl gl)) (by omega)
      obtain ⟨N1', h1'⟩ := ih (aqT gl gt ge fl) (aqT fl ft fe gl)
        (aqVt (popVars q v (min gl fl)) (min gl fl)) (by omega)
      obtain ⟨N0', h0'⟩ := ih (aqE gl gt ge fl) (aqE fl ft fe gl)
        (aqVt (popVars q v (min gl fl)) (min gl fl)) (by omega)
      refine ⟨max (max (max N1 N0) (max N1' N0'))
        (max (max v.size ((BDD.node fl ft fe).size + (BDD.node gl gt ge).size))
          (max ((applyQuant q op (aqT fl ft fe gl) (aqT gl gt ge fl)
                (aqVt (popVars q v (min fl gl)) (min fl gl))).size +
              (applyQuant q op (aqE fl ft fe gl) (aqE gl gt ge fl)
                (aqVt (popVars q v (min fl gl)) (min fl gl))).size)
            ((applyQuant q op (aqT gl gt ge fl) (aqT fl ft fe gl)
                (aqVt (popVars q v (min gl fl)) (min gl fl))).size +
              (applyQuant q op (aqE gl gt ge fl) (aqE fl ft fe gl)
                (aqVt (popVars q v (min gl fl)) (min gl fl))).size))), ?_⟩
      intro p pok af fuel hN hfuel st f g vars hinv hf hg hv
      have hsa := size_pos (BDD.node fl ft fe)
      obtain ⟨fuel, rfl⟩ : ∃ k, fuel = k + 1 := ⟨fuel - 1, by omega⟩
      have hc := terminalBinS_corr op (inj_of_unique hinv.1) hf hg
      rw [hT] at hc
      simp only [applyQuantS]
      cases hS : terminalBinS op f g with
      | done e => rw [hS] at hc; exact hc.elim
      | notOf e => rw [hS] at hc; exact hc.elim
      | binary tag o1 o2 =>
        rw [hS] at hc
        obtain ⟨_, _, _, _, hkey⟩ := hc
        simp only
        rcases hkey with ⟨e1, e2⟩ | ⟨hcm, e1, e2⟩
        · subst e1 e2
          refine aqBodyS_post pok reg q op af _ hT ?_ ?_ (by omega) (by omega) (by omega)
            st _ _ vars hinv hf hg hv
          · intro st' f' g' vars' hinv' hf' hg' hv'
            exact h1 p pok af fuel (by omega) (by omega) st' f' g' vars' hinv' hf' hg' hv'
          · intro st' f' g' vars' hinv' hf' hg' hv'
            exact h0 p pok af fuel (by omega) (by omega) st' f' g' vars' hinv' hf' hg' hv'
        · subst e1 e2
          rw [applyQuant_comm q op hcm _ _ _ _ (Nat.le_refl _)]
          refine aqBodyS_post pok reg q op af _ (hTc hcm) ?_ ?_ (by omega) (by omega) (by omega)
            st _ _ vars hinv hg hf hv
          · intro st' f' g' vars' hinv' hf' hg' hv'
            exact h1' p pok af fuel (by omega) (by omega) st' f' g' vars' hinv' hf' hg' hv'
          · intro st' f' g' vars' hinv' hf' hg' hv'
            exact h0' p pok af fuel (by omega) (by omega) st' f' g' vars' hinv' hf' hg' hv'

end OxiddModel.Bdd.Refine
