import OxiddModel.Bdd.CacheS

/-!
# `apply_not`, `apply_bin::<OP>`, `apply_ite` on the store, with the apply cache

`notS`, `applyS op`, `iteS` follow `crates/oxidd-rules-bdd/src/simple/apply_rec.rs` step by step:
terminal cases → cache query (full key: tag + operands) → cofactors by level comparison →
recursive calls, then-branch first → `reduce` (`Store.mkNode`) → cache add. Recursion is by fuel;
the specifications hold whenever the fuel is at least the sum of the operand sizes.

The state `St` threads the store, the cache and a time stamp `tick` that is advanced at every
cache access and handed to the `Policy`, so the cache may behave differently at every access.

`Post s T R` is the common postcondition: invariant, store only extended, result denotes `T`, and
*the resulting store and edge are those of `intern s T`* (independent of cache and policy).
`notS_spec`, `applyS_spec`, `iteS_spec` establish it for the three algorithms, for every policy
satisfying `Policy.OK`, every `CacheOK` cache, all operands and all stores.
-/
namespace OxiddModel.Bdd.Refine
open OxiddModel.Bdd OxiddModel.Bdd.BDD

structure St where
  store : Store
  cache : Cache
  tick : Nat

/-- the state after one cache access -/
def St.tickd (st : St) : St := { st with tick := st.tick + 1 }

@[simp] theorem St.tickd_store (st : St) : st.tickd.store = st.store := rfl
@[simp] theorem St.tickd_cache (st : St) : st.tickd.cache = st.cache := rfl

/-- the invariant: hash consing + sound cache -/
def Inv (st : St) : Prop := st.store.Unique ∧ CacheOK st.store st.cache

theorem Inv.tickd {st : St} (h : Inv st) : Inv st.tickd := h

/-! ## reading nodes -/

/-- level of the node an edge points to (`None` for terminals) -/
def Store.level? (s : Store) : Edge → Option Nat
  | .term _ => none
  | .inner i => (s.get? i).map (·.level)

/-- then-cofactor for the expansion at level `l`: the then-child if the node is at level `l`,
the edge itself otherwise -/
def Store.cofT (s : Store) (l : Nat) : Edge → Edge
  | .term b => .term b
  | .inner i =>
    match s.get? i with
    | some n => if n.level = l then n.t else .inner i
    | none => .inner i

/-- else-cofactor for the expansion at level `l` -/
def Store.cofE (s : Store) (l : Nat) : Edge → Edge
  | .term b => .term b
  | .inner i =>
    match s.get? i with
    | some n => if n.level = l then n.e else .inner i
    | none => .inner i

theorem level?_denotes {s : Store} {f : Edge} {l : Nat} {tt te : BDD}
    (h : Denotes s f (.node l tt te)) : s.level? f = some l := by
  cases h with
  | inner hi _ _ => simp [Store.level?, hi]

theorem cofT_denotes {s : Store} {f : Edge} {a : BDD} (l : Nat) (h : Denotes s f a) :
    Denotes s (s.cofT l f) (tcofT l a) := by
  cases h with
  | term => exact .term
  | @inner i l' t e tt te hi ht he =>
    simp only [Store.cofT, hi, tcofT]
    split
    · exact ht
    · exact .inner hi ht he

theorem cofE_denotes {s : Store} {f : Edge} {a : BDD} (l : Nat) (h : Denotes s f a) :
    Denotes s (s.cofE l f) (tcofE l a) := by
  cases h with
  | term => exact .term
  | @inner i l' t e tt te hi ht he =>
    simp only [Store.cofE, hi, tcofE]
    split
    · exact he
    · exact .inner hi ht he

/-! ## the algorithms -/

/-- the common tail of the three algorithms: `reduce`, then `apply_cache().add(..)` -/
def finishS (p : Policy) (st : St) (key : Key) (l : Nat) (e1 e0 : Edge) : St × Edge :=
  let m := st.store.mkNode l e1 e0
  (⟨m.1, p.add st.tick st.cache key m.2, st.tick + 1⟩, m.2)

/-- `apply_not` -/
def notS (p : Policy) : Nat → St → Edge → St × Edge
  | 0, st, f => (st, f)
  | fuel+1, st, f =>
    match f with
    | .term b => (st, .term (!b))
    | .inner i =>
      -- query apply cache
      match p.get st.tick st.cache (.not, [f]) with
      | some h => (st.tickd, h)
      | none =>
        match st.store.get? i with
        | none => (st.tickd, f) -- dangling edge (excluded by `Denotes`)
        | some n =>
          let r1 := notS p fuel st.tickd n.t
          let r0 := notS p fuel r1.1 n.e
          finishS p r0.1 (.not, [f]) n.level r1.2 r0.2

/-- `apply_bin::<OP>` -/
def applyS (p : Policy) (op : Op) : Nat → St → Edge → Edge → St × Edge
  | 0, st, f, _ => (st, f)
  | fuel+1, st, f, g =>
    match terminalBinS op f g with
    | .done h => (st, h)
    | .notOf h => notS p fuel st h
    | .binary tag o1 o2 =>
      -- query apply cache
      match p.get st.tick st.cache (tag, [o1, o2]) with
      | some h => (st.tickd, h)
      | none =>
        match st.store.level? f, st.store.level? g with
        | some lf, some lg =>
          let l := min lf lg
          let r1 := applyS p op fuel st.tickd (st.store.cofT l f) (st.store.cofT l g)
          let r0 := applyS p op fuel r1.1 (st.store.cofE l f) (st.store.cofE l g)
          finishS p r0.1 (tag, [o1, o2]) l r1.2 r0.2
        | _, _ => (st.tickd, f) -- dangling edge (excluded by `Denotes`)

/-- `apply_ite` -/
def iteS (p : Policy) : Nat → St → Edge → Edge → Edge → St × Edge
  | 0, st, f, _, _ => (st, f)
  | fuel+1, st, f, g, h =>
    if g = h then (st, g) else
    if f = g then applyS p .or fuel st f h else
    if f = h then applyS p .and fuel st f g else
    match f with
    | .term b => (st, if b then g else h)
    | .inner _ =>
      match g, h with
      | .term true, .inner _ => applyS p .or fuel st f h
      | .term false, .inner _ => applyS p .impStrict fuel st f h
      | .inner _, .term true => applyS p .imp fuel st f g
      | .inner _, .term false => applyS p .and fuel st f g
      | .term gb, .term _ => if gb then (st, f) else notS p fuel st f
      | .inner _, .inner _ =>
        -- query apply cache
        match p.get st.tick st.cache (.ite, [f, g, h]) with
        | some r => (st.tickd, r)
        | none =>
          match st.store.level? f, st.store.level? g, st.store.level? h with
          | some lf, some lg, some lh =>
            let l := min (min lf lg) lh
            let r1 := iteS p fuel st.tickd (st.store.cofT l f) (st.store.cofT l g) (st.store.cofT l h)
            let r0 := iteS p fuel r1.1 (st.store.cofE l f) (st.store.cofE l g) (st.store.cofE l h)
            finishS p r0.1 (.ite, [f, g, h]) l r1.2 r0.2
          | _, _, _ => (st.tickd, f) -- dangling edge (excluded by `Denotes`)

/-! ## the postcondition -/

/-- what every operation guarantees when started in store `s` to compute the tree `T` -/
structure Post (s : Store) (T : BDD) (R : St × Edge) : Prop where
  /-- hash consing and cache soundness hold afterwards -/
  inv : Inv R.1
  /-- the store is only extended -/
  le : s.Le R.1.store
  /-- the result edge denotes the specified tree -/
  den : Denotes R.1.store R.2 T
  /-- store and result are the canonical ones, whatever the cache did -/
  canon : s.NoRed → (R.1.store, R.2) = intern s T

theorem Post.done {st : St} {e : Edge} {T : BDD} (hinv : Inv st) (hd : Denotes st.store e T) :
    Post st.store T (st, e) where
  inv := hinv
  le := Store.Le.refl _
  den := hd
  canon hr := (intern_of_denotes hinv.1 hr hd).symm

theorem Post.nored {s : Store} {T : BDD} {R : St × Edge} (h : Post s T R) (hr : s.NoRed) :
    R.1.store.NoRed := by
  have := h.canon hr
  have h1 : R.1.store = (intern s T).1 := congrArg Prod.fst this
  rw [h1]; exact intern_nored s T hr

/-- the two recursive results are combined by `reduce` + cache add -/
theorem finishS_post {p : Policy} (pok : p.OK) {s : Store} {R1 R0 : St × Edge} {T1 T0 : BDD}
    (h1 : Post s T1 R1) (h0 : Post R1.1.store T0 R0) (key : Key) (l : Nat)
    (hkey : ∃ ts, DenotesL s key.2 ts ∧ specOf key.1 ts = some (mk l T1 T0)) :
    Post s (mk l T1 T0) (finishS p R0.1 key l R1.2 R0.2) := by
  have inj0 := inj_of_unique h0.inv.1
  have denm := mkNode_denotes R0.1.store l R1.2 R0.2 T1 T0 (h1.den.mono h0.le) h0.den inj0
  have lem := mkNode_le R0.1.store l R1.2 R0.2
  have hle : s.Le (R0.1.store.mkNode l R1.2 R0.2).1 := h1.le.trans (h0.le.trans lem)
  refine ⟨⟨mkNode_unique _ _ _ _ h0.inv.1, ?_⟩, hle, denm, ?_⟩
  · obtain ⟨ts, hd, hs⟩ := hkey
    exact CacheOK.add pok (h0.inv.2.mono lem) ⟨ts, _, hd.mono hle, hs, denm⟩ _
  · intro hr
    have c1 := h1.canon hr
    have hr1 := h1.nored hr
    have c0 := h0.canon hr1
    show ((R0.1.store.mkNode l R1.2 R0.2).1, (R0.1.store.mkNode l R1.2 R0.2).2) = intern s (mk l T1 T0)
    have e1s : R1.1.store = (intern s T1).1 := congrArg Prod.fst c1
    have e1e : R1.2 = (intern s T1).2 := congrArg Prod.snd c1
    have e0s : R0.1.store = (intern R1.1.store T0).1 := congrArg Prod.fst c0
    have e0e : R0.2 = (intern R1.1.store T0).2 := congrArg Prod.snd c0
    unfold mk
    by_cases hT : T1 = T0
    · subst hT
      simp only [if_true]
      have hi := intern_of_denotes h1.inv.1 hr1 h1.den
      rw [hi] at e0s e0e
      simp only at e0s e0e
      rw [e0s, e0e]
      simp only [Store.mkNode, if_true]
      rw [← c1]
    · simp only [hT, if_false, intern]
      rw [← e1s, ← e1e, ← e0s, ← e0e]

/-! ## `apply_not` -/

theorem notS_spec {p : Policy} (pok : p.OK) (fuel : Nat) : ∀ (st : St) (f : Edge) (a : BDD),
    Inv st → Denotes st.store f a → a.size ≤ fuel →
    Post st.store (applyNot a) (notS p fuel st f) := by
  induction fuel with
  | zero =>
    intro st f a _ _ hsz
    have := size_pos a
    omega
  | succ fuel ih =>
    intro st f a hinv hf hsz
    cases hf with
    | @term x => exact Post.done hinv .term
    | @inner i l t e tt te hi hft hfe =>
      have hdf : Denotes st.store (.inner i) (.node l tt te) := .inner hi hft hfe
      simp only [notS]
      split
      · -- cache hit
        rename_i r hr
        have hent := hinv.2 _ _ (pok.get_mem _ _ _ _ hr)
        exact Post.done (st := st.tickd) hinv.tickd (hent.hit (DenotesL.one hdf) rfl)
      · -- cache miss
        simp only [hi]
        simp only [BDD.size] at hsz
        have p1 := ih st.tickd t tt hinv.tickd hft (by omega)
        have p0 := ih _ e te p1.inv (hfe.mono p1.le) (by omega)
        exact finishS_post pok p1 p0 (.not, [.inner i]) l ⟨_, DenotesL.one hdf, rfl⟩

/-! ## `apply_bin::<OP>` -/

theorem applyS_spec {p : Policy} (pok : p.OK) (op : Op) (fuel : Nat) :
    ∀ (st : St) (f g : Edge) (a b : BDD),
    Inv st → Denotes st.store f a → Denotes st.store g b → a.size + b.size ≤ fuel →
    Post st.store (applyBin op a b) (applyS p op fuel st f g) := by
  induction fuel with
  | zero =>
    intro st f g a b _ _ _ hsz
    have := size_pos a
    omega
  | succ fuel ih =>
    intro st f g a b hinv hf hg hsz
    have hinj := inj_of_unique hinv.1
    have hc := terminalBinS_corr op hinj hf hg
    have hsa := size_pos a
    have hsb := size_pos b
    simp only [applyS]
    cases hS : terminalBinS op f g with
    | done e =>
      cases hT : terminalBin op a b with
      | done t =>
        rw [hS, hT] at hc
        rw [applyBin_done hT]
        exact Post.done hinv hc
      | notOf t => rw [hS, hT] at hc; exact hc.elim
      | binary o x y => rw [hS, hT] at hc; exact hc.elim
    | notOf e =>
      cases hT : terminalBin op a b with
      | done t => rw [hS, hT] at hc; exact hc.elim
      | notOf t =>
        rw [hS, hT] at hc
        rw [applyBin_notOf hT]
        have hsh := terminalBin_shape op a b
        rw [hT] at hsh
        have : t.size ≤ fuel := by
          rcases hsh with h | h <;> subst h <;> omega
        exact notS_spec pok fuel st e t hinv hc this
      | binary o x y => rw [hS, hT] at hc; exact hc.elim
    | binary tag o1 o2 =>
      cases hT : terminalBin op a b with
      | done t => rw [hS, hT] at hc; exact hc.elim
      | notOf t => rw [hS, hT] at hc; exact hc.elim
      | binary o x y =>
        rw [hS, hT] at hc
        obtain ⟨htag, _, _, _, hkey⟩ := hc
        subst htag
        -- the key denotes the operands, in one or the other order
        have hkd : ∃ ts, DenotesL st.store [o1, o2] ts ∧
            specOf (tagOf op) ts = some (applyBin op a b) := by
          rcases hkey with ⟨h1, h2⟩ | ⟨hcm, h1, h2⟩
          · subst h1 h2; exact ⟨_, DenotesL.two hf hg, specOf_tagOf op a b⟩
          · subst h1 h2
            exact ⟨_, DenotesL.two hg hf, by rw [specOf_tagOf, applyBin_comm op hcm]⟩
        simp only
        split
        · -- cache hit
          rename_i r hr
          have hent := hinv.2 _ _ (pok.get_mem _ _ _ _ hr)
          obtain ⟨ts, hd, hs⟩ := hkd
          exact Post.done (st := st.tickd) hinv.tickd (hent.hit hd hs)
        · -- cache miss: both operands are inner nodes
          have hsp := terminalBin_spec op a b
          rw [hT] at hsp
          obtain ⟨_, _, _, hla, hlb⟩ := hsp
          cases a with
          | leaf _ => simp [isLeaf] at hla
          | node lf ft fe =>
          cases b with
          | leaf _ => simp [isLeaf] at hlb
          | node lg gt ge =>
          rw [level?_denotes hf, level?_denotes hg]
          simp only
          rw [applyBin_binary hT]
          have hmin : min lf lg = lf ∨ min lf lg = lg := by omega
          have sz1 : (tcofT (min lf lg) (.node lf ft fe)).size +
              (tcofT (min lf lg) (.node lg gt ge)).size ≤ fuel := by
            have h1 := tcofT_size_le (min lf lg) (.node lf ft fe)
            have h2 := tcofT_size_le (min lf lg) (.node lg gt ge)
            rcases hmin with h | h <;> rw [h] at h1 h2 ⊢
            · have := tcofT_size_lt lf ft fe; omega
            · have := tcofT_size_lt lg gt ge; omega
          have sz0 : (tcofE (min lf lg) (.node lf ft fe)).size +
              (tcofE (min lf lg) (.node lg gt ge)).size ≤ fuel := by
            have h1 := tcofE_size_le (min lf lg) (.node lf ft fe)
            have h2 := tcofE_size_le (min lf lg) (.node lg gt ge)
            rcases hmin with h | h <;> rw [h] at h1 h2 ⊢
            · have := tcofE_size_lt lf ft fe; omega
            · have := tcofE_size_lt lg gt ge; omega
          have p1 := ih st.tickd _ _ _ _ hinv.tickd (cofT_denotes (min lf lg) hf)
            (cofT_denotes (min lf lg) hg) sz1
          have p0 := ih _ _ _ _ _ p1.inv ((cofE_denotes (min lf lg) hf).mono p1.le)
            ((cofE_denotes (min lf lg) hg).mono p1.le) sz0
          obtain ⟨ts, hd, hs⟩ := hkd
          rw [applyBin_binary hT] at hs
          exact finishS_post pok p1 p0 (tagOf op, [o1, o2]) (min lf lg) ⟨ts, hd, hs⟩

/-! ## `apply_ite` -/

theorem applyIte_gh (a b : BDD) : applyIte a b b = b := by
  rw [applyIte.eq_def]; simp

theorem applyIte_fg {a c : BDD} (h : a ≠ c) : applyIte a a c = applyBin .or a c := by
  rw [applyIte.eq_def]; simp [h]

theorem applyIte_fh {a b : BDD} (h : a ≠ b) : applyIte a b a = applyBin .and a b := by
  rw [applyIte.eq_def]; simp [h, Ne.symm h]

theorem applyIte_leaf {x : Bool} {b c : BDD} (hbc : b ≠ c) (hab : .leaf x ≠ b) (hac : .leaf x ≠ c) :
    applyIte (.leaf x) b c = if x then b else c := by
  rw [applyIte.eq_def]; simp [hbc, hab, hac]

theorem applyIte_rec {lf lg lh : Nat} {ft fe gt ge ht he : BDD}
    (hbc : BDD.node lg gt ge ≠ .node lh ht he) (hab : BDD.node lf ft fe ≠ .node lg gt ge)
    (hac : BDD.node lf ft fe ≠ .node lh ht he) :
    applyIte (.node lf ft fe) (.node lg gt ge) (.node lh ht he) =
      mk (min (min lf lg) lh)
        (applyIte (tcofT (min (min lf lg) lh) (.node lf ft fe)) (tcofT (min (min lf lg) lh) (.node lg gt ge))
          (tcofT (min (min lf lg) lh) (.node lh ht he)))
        (applyIte (tcofE (min (min lf lg) lh) (.node lf ft fe)) (tcofE (min (min lf lg) lh) (.node lg gt ge))
          (tcofE (min (min lf lg) lh) (.node lh ht he))) := by
  rw [applyIte.eq_def]; simp only [hbc, hab, hac, if_false, tcofT, tcofE]

theorem iteS_spec {p : Policy} (pok : p.OK) (fuel : Nat) :
    ∀ (st : St) (f g h : Edge) (a b c : BDD),
    Inv st → Denotes st.store f a → Denotes st.store g b → Denotes st.store h c →
    a.size + b.size + c.size ≤ fuel →
    Post st.store (applyIte a b c) (iteS p fuel st f g h) := by
  induction fuel with
  | zero =>
    intro st f g h a b c _ _ _ _ hsz
    have := size_pos a
    omega
  | succ fuel ih =>
    intro st f g h a b c hinv hf hg hh hsz
    have hinj := inj_of_unique hinv.1
    have hsa := size_pos a
    have hsb := size_pos b
    have hsc := size_pos c
    simp only [iteS]
    by_cases hgh : g = h
    · subst hgh
      have := Denotes.functional hg hh
      subst this
      simp only [if_true]
      rw [applyIte_gh]
      exact Post.done hinv hg
    · have hbc : b ≠ c := fun e => hgh (hinj _ _ _ hg (e ▸ hh))
      simp only [hgh, if_false]
      by_cases hfg : f = g
      · subst hfg
        have := Denotes.functional hf hg
        subst this
        simp only [if_true]
        rw [applyIte_fg hbc]
        exact applyS_spec pok .or fuel st f h a c hinv hf hh (by omega)
      · have hab : a ≠ b := fun e => hfg (hinj _ _ _ hf (e ▸ hg))
        simp only [hfg, if_false]
        by_cases hfh : f = h
        · subst hfh
          have := Denotes.functional hf hh
          subst this
          simp only [if_true]
          rw [applyIte_fh hab]
          exact applyS_spec pok .and fuel st f g a b hinv hf hg (by omega)
        · have hac : a ≠ c := fun e => hfh (hinj _ _ _ hf (e ▸ hh))
          simp only [hfh, if_false]
          cases hf with
          | @term x =>
            simp only
            rw [applyIte_leaf hbc hab hac]
            cases x
            · exact Post.done hinv hh
            · exact Post.done hinv hg
          | @inner i l t e tt te hi hft hfe =>
            have hdf : Denotes st.store (.inner i) (.node l tt te) := .inner hi hft hfe
            cases hg with
            | @term y =>
              cases hh with
              | @term z =>
                cases y <;> cases z <;> first
                  | exact absurd rfl hgh
                  | (simp only [Bool.false_eq_true, if_false]
                     rw [applyIte.eq_def]; simp only [hbc, hab, hac, if_false, Bool.false_eq_true]
                     exact notS_spec pok fuel st _ _ hinv hdf (by omega))
                  | (simp only [if_true]
                     rw [applyIte.eq_def]; simp only [hbc, hab, hac, if_false, if_true]
                     exact Post.done hinv hdf)
              | @inner k l'' t'' e'' tt'' te'' hk hht hhe =>
                have hdh : Denotes st.store (.inner k) (.node l'' tt'' te'') := .inner hk hht hhe
                cases y
                · simp only
                  rw [applyIte.eq_def]; simp only [hbc, hab, hac, if_false]
                  exact applyS_spec pok .impStrict fuel st _ _ _ _ hinv hdf hdh (by omega)
                · simp only
                  rw [applyIte.eq_def]; simp only [hbc, hab, hac, if_false]
                  exact applyS_spec pok .or fuel st _ _ _ _ hinv hdf hdh (by omega)
            | @inner j l' t' e' tt' te' hj hgt hge =>
              have hdg : Denotes st.store (.inner j) (.node l' tt' te') := .inner hj hgt hge
              cases hh with
              | @term z =>
                cases z
                · simp only
                  rw [applyIte.eq_def]; simp only [hbc, hab, hac, if_false]
                  exact applyS_spec pok .and fuel st _ _ _ _ hinv hdf hdg (by omega)
                · simp only
                  rw [applyIte.eq_def]; simp only [hbc, hab, hac, if_false]
                  exact applyS_spec pok .imp fuel st _ _ _ _ hinv hdf hdg (by omega)
              | @inner k l'' t'' e'' tt'' te'' hk hht hhe =>
                have hdh : Denotes st.store (.inner k) (.node l'' tt'' te'') := .inner hk hht hhe
                simp only
                split
                · -- cache hit
                  rename_i r hr
                  have hent := hinv.2 _ _ (pok.get_mem _ _ _ _ hr)
                  exact Post.done (st := st.tickd) hinv.tickd
                    (hent.hit (DenotesL.three hdf hdg hdh) rfl)
                · -- cache miss
                  rw [level?_denotes hdf, level?_denotes hdg, level?_denotes hdh]
                  simp only
                  rw [applyIte_rec hbc hab hac]
                  generalize hl : min (min l l') l'' = m
                  have hmin : m = l ∨ m = l' ∨ m = l'' := by omega
                  have ha1 := tcofT_size_le m (.node l tt te)
                  have hb1 := tcofT_size_le m (.node l' tt' te')
                  have hc1 := tcofT_size_le m (.node l'' tt'' te'')
                  have ha0 := tcofE_size_le m (.node l tt te)
                  have hb0 := tcofE_size_le m (.node l' tt' te')
                  have hc0 := tcofE_size_le m (.node l'' tt'' te'')
                  have sz : (tcofT m (.node l tt te)).size + (tcofT m (.node l' tt' te')).size +
                      (tcofT m (.node l'' tt'' te'')).size ≤ fuel ∧
                      (tcofE m (.node l tt te)).size + (tcofE m (.node l' tt' te')).size +
                      (tcofE m (.node l'' tt'' te'')).size ≤ fuel := by
                    rcases hmin with h | h | h <;> subst h
                    · have := tcofT_size_lt m tt te; have := tcofE_size_lt m tt te; omega
                    · have := tcofT_size_lt m tt' te'; have := tcofE_size_lt m tt' te'; omega
                    · have := tcofT_size_lt m tt'' te''; have := tcofE_size_lt m tt'' te''; omega
                  have p1 := ih st.tickd _ _ _ _ _ _ hinv.tickd (cofT_denotes m hdf)
                    (cofT_denotes m hdg) (cofT_denotes m hdh) sz.1
                  have p0 := ih _ _ _ _ _ _ _ p1.inv ((cofE_denotes m hdf).mono p1.le)
                    ((cofE_denotes m hdg).mono p1.le) ((cofE_denotes m hdh).mono p1.le) sz.2
                  refine finishS_post pok p1 p0 (.ite, [.inner i, .inner j, .inner k]) m
                    ⟨_, DenotesL.three hdf hdg hdh, ?_⟩
                  show some (applyIte _ _ _) = _
                  rw [applyIte_rec hbc hab hac, hl]

end OxiddModel.Bdd.Refine
