import OxiddModel.Bdd.CacheX

/-!
# `apply_not`, `apply_bin`, `apply_ite` on a cache that also holds the extended entry kinds

`quant`, `apply_quant`, `restrict` and `substitute` call `apply_bin`, `apply_not` and `apply_ite`
on the *same* apply cache into which they put their own entries. The specifications of
`ApplyS.lean` are stated for `CacheOK` (entries of the ten base operators only); here they are
re-established, for the unchanged definitions `notS`, `applyS`, `iteS`, under the extended
invariant `InvX reg st = Unique ∧ CacheOKX reg` of `CacheX.lean`. The proofs are those of
`ApplyS.lean`; the only facts about cache entries they use are `EntryOKX.baseHit` (a hit under a
base key denotes `specOf`) and `KeyMeans.base`.

Two postconditions:
* `PostX reg s T R` — as `Post`: invariant, store extended, result denotes `T`, reducedness kept,
  and *store and result are `intern s T`* (no node is created that is not part of the result);
  holds for `not`/`bin`/`ite` and for `restrict`.
* `PostW reg s T R` — the same without the last clause; this is what `quant`, `apply_quant` and
  `substitute` guarantee: they create intermediate results (the two quantified cofactors, the
  substituted children) that are not part of the final diagram, and whether those are created
  depends on cache hits.
-/
namespace OxiddModel.Bdd.Refine
open OxiddModel.Bdd OxiddModel.Bdd.BDD

/-- the invariant: hash consing + sound cache (extended entry kinds) -/
def InvX (reg : Nat → List BDD) (st : St) : Prop :=
  st.store.Unique ∧ CacheOKX reg st.store st.cache

theorem InvX.tickd {reg : Nat → List BDD} {st : St} (h : InvX reg st) : InvX reg st.tickd := h

theorem Inv.toX (reg : Nat → List BDD) {st : St} (h : Inv st) : InvX reg st := ⟨h.1, h.2.toX reg⟩

/-- postcondition without canonicity of the store -/
structure PostW (reg : Nat → List BDD) (s : Store) (T : BDD) (R : St × Edge) : Prop where
  /-- hash consing and cache soundness hold afterwards -/
  inv : InvX reg R.1
  /-- the store is only extended -/
  le : s.Le R.1.store
  /-- the result edge denotes the specified tree -/
  den : Denotes R.1.store R.2 T
  /-- the reduction rule is kept as a store invariant -/
  nored : s.NoRed → R.1.store.NoRed

/-! ## the postcondition with canonicity -/

/-- what every operation guarantees when started in store `s` to compute the tree `T` -/
structure PostX (reg : Nat → List BDD) (s : Store) (T : BDD) (R : St × Edge) : Prop where
  /-- hash consing and cache soundness hold afterwards -/
  inv : InvX reg R.1
  /-- the store is only extended -/
  le : s.Le R.1.store
  /-- the result edge denotes the specified tree -/
  den : Denotes R.1.store R.2 T
  /-- the reduction rule is kept as a store invariant -/
  nored : s.NoRed → R.1.store.NoRed
  /-- store and result are the canonical ones, whatever the cache did -/
  canon : s.NoRed → (R.1.store, R.2) = intern s T

theorem PostX.toW {reg : Nat → List BDD} {s : Store} {T : BDD} {R : St × Edge}
    (h : PostX reg s T R) : PostW reg s T R := ⟨h.inv, h.le, h.den, h.nored⟩

theorem PostX.done {reg : Nat → List BDD} {st : St} {e : Edge} {T : BDD} (hinv : InvX reg st)
    (hd : Denotes st.store e T) : PostX reg st.store T (st, e) where
  inv := hinv
  le := Store.Le.refl _
  den := hd
  nored hr := hr
  canon hr := (intern_of_denotes hinv.1 hr hd).symm

theorem PostW.done {reg : Nat → List BDD} {st : St} {e : Edge} {T : BDD} (hinv : InvX reg st)
    (hd : Denotes st.store e T) : PostW reg st.store T (st, e) := (PostX.done hinv hd).toW

/-- a result obtained in a later store is a result for the earlier one -/
theorem PostW.trans {reg : Nat → List BDD} {s s' : Store} {T : BDD} {R : St × Edge}
    (hle : s.Le s') (hnr : s.NoRed → s'.NoRed) (h : PostW reg s' T R) : PostW reg s T R :=
  ⟨h.inv, hle.trans h.le, h.den, fun hr => h.nored (hnr hr)⟩

/-- `apply_cache().add(key, r)` after the result `r` has been computed -/
def addS (p : Policy) (st : St) (key : Key) (r : Edge) : St × Edge :=
  (⟨st.store, p.add st.tick st.cache key r, st.tick + 1⟩, r)

theorem addS_postW {p : Policy} (pok : p.OK) {reg : Nat → List BDD} {s : Store} {T : BDD}
    {R : St × Edge} (h : PostW reg s T R) (key : Key) (hkey : KeyMeans reg s key T) :
    PostW reg s T (addS p R.1 key R.2) :=
  ⟨⟨h.inv.1, CacheOKX.add pok h.inv.2 (hkey _ _ h.le h.den) _⟩, h.le, h.den, h.nored⟩

theorem addS_postX {p : Policy} (pok : p.OK) {reg : Nat → List BDD} {s : Store} {T : BDD}
    {R : St × Edge} (h : PostX reg s T R) (key : Key) (hkey : KeyMeans reg s key T) :
    PostX reg s T (addS p R.1 key R.2) :=
  ⟨⟨h.inv.1, CacheOKX.add pok h.inv.2 (hkey _ _ h.le h.den) _⟩, h.le, h.den, h.nored, h.canon⟩

/-- the two recursive results are combined by `reduce` + cache add (no canonicity claim) -/
theorem finishS_postW {p : Policy} (pok : p.OK) {reg : Nat → List BDD} {s : Store}
    {R1 R0 : St × Edge} {T1 T0 : BDD}
    (h1 : PostW reg s T1 R1) (h0 : PostW reg R1.1.store T0 R0) (key : Key) (l : Nat)
    (hkey : KeyMeans reg s key (mk l T1 T0)) :
    PostW reg s (mk l T1 T0) (finishS p R0.1 key l R1.2 R0.2) := by
  have inj0 := inj_of_unique h0.inv.1
  have denm := mkNode_denotes R0.1.store l R1.2 R0.2 T1 T0 (h1.den.mono h0.le) h0.den inj0
  have lem := mkNode_le R0.1.store l R1.2 R0.2
  have hle : s.Le (R0.1.store.mkNode l R1.2 R0.2).1 := h1.le.trans (h0.le.trans lem)
  refine ⟨⟨mkNode_unique _ _ _ _ h0.inv.1, ?_⟩, hle, denm, ?_⟩
  · exact CacheOKX.add pok (h0.inv.2.mono lem) (hkey _ _ hle denm) _
  · intro hr
    exact mkNode_nored _ _ _ _ (h0.nored (h1.nored hr))

/-- the two recursive results are combined by `reduce` + cache add -/
theorem finishS_postX {p : Policy} (pok : p.OK) {reg : Nat → List BDD} {s : Store}
    {R1 R0 : St × Edge} {T1 T0 : BDD}
    (h1 : PostX reg s T1 R1) (h0 : PostX reg R1.1.store T0 R0) (key : Key) (l : Nat)
    (hkey : KeyMeans reg s key (mk l T1 T0)) :
    PostX reg s (mk l T1 T0) (finishS p R0.1 key l R1.2 R0.2) := by
  have W := finishS_postW pok h1.toW h0.toW key l hkey
  refine ⟨W.inv, W.le, W.den, W.nored, ?_⟩
  intro hr
  have c1 := h1.canon hr
  have hr1 := h1.nored hr
  have c0 := h0.canon hr1
  show ((R0.1.store.mkNode l R1.2 R0.2).1, (R0.1.store.mkNode l R1.2 R0.2).2) = intern s (mk l T1 T0)
  have e1s : R1.1.store = (intern s T1).1 := congrArg Prod.fst c1
  have e1e : R1.2 = (intern s T1).2 := congrArg Prod.snd c1
  have e0s : R0.1.store = (intern R1.1.store T0).1 := congrArg Prod.fst c0
  have e0e : R0.2 = (intern R1.1.store T0).2 := congrArg Prod.snd c0
  unfold mk
  by_cases hT : T1 = T0
  · subst hT
    simp only [if_true]
    have hi := intern_of_denotes h1.inv.1 hr1 h1.den
    rw [hi] at e0s e0e
    simp only at e0s e0e
    rw [e0s, e0e]
    simp only [Store.mkNode, if_true]
    rw [← c1]
  · simp only [hT, if_false, intern]
    rw [← e1s, ← e1e, ← e0s, ← e0e]

/-! ## `apply_not` -/

theorem notS_specX {p : Policy} (pok : p.OK) (reg : Nat → List BDD) (fuel : Nat) : ∀ (st : St) (f : Edge) (a : BDD),
    InvX reg st → Denotes st.store f a → a.size ≤ fuel →
    PostX reg st.store (applyNot a) (notS p fuel st f) := by
  induction fuel with
  | zero =>
    intro st f a _ _ hsz
    have := size_pos a
    omega
  | succ fuel ih =>
    intro st f a hinv hf hsz
    cases hf with
    | @term x => exact PostX.done hinv .term
    | @inner i l t e tt te hi hft hfe =>
      have hdf : Denotes st.store (.inner i) (.node l tt te) := .inner hi hft hfe
      simp only [notS]
      split
      · -- cache hit
        rename_i r hr
        have hent := hinv.2 _ _ (pok.get_mem _ _ _ _ hr)
        exact PostX.done (st := st.tickd) hinv.tickd (hent.baseHit (DenotesL.one hdf) rfl)
      · -- cache miss
        simp only [hi]
        simp only [BDD.size] at hsz
        have p1 := ih st.tickd t tt hinv.tickd hft (by omega)
        have p0 := ih _ e te p1.inv (hfe.mono p1.le) (by omega)
        exact finishS_postX pok p1 p0 (.not, [.inner i]) l (KeyMeans.base (DenotesL.one hdf) rfl)

/-! ## `apply_bin::<OP>` -/

theorem applyS_specX {p : Policy} (pok : p.OK) (reg : Nat → List BDD) (op : Op) (fuel : Nat) :
    ∀ (st : St) (f g : Edge) (a b : BDD),
    InvX reg st → Denotes st.store f a → Denotes st.store g b → a.size + b.size ≤ fuel →
    PostX reg st.store (applyBin op a b) (applyS p op fuel st f g) := by
  induction fuel with
  | zero =>
    intro st f g a b _ _ _ hsz
    have := size_pos a
    omega
  | succ fuel ih =>
    intro st f g a b hinv hf hg hsz
    have hinj := inj_of_unique hinv.1
    have hc := terminalBinS_corr op hinj hf hg
    have hsa := size_pos a
    have hsb := size_pos b
    simp only [applyS]
    cases hS : terminalBinS op f g with
    | done e =>
      cases hT : terminalBin op a b with
      | done t =>
        rw [hS, hT] at hc
        rw [applyBin_done hT]
        exact PostX.done hinv hc
      | notOf t => rw [hS, hT] at hc; exact hc.elim
      | binary o x y => rw [hS, hT] at hc; exact hc.elim
    | notOf e =>
      cases hT : terminalBin op a b with
      | done t => rw [hS, hT] at hc; exact hc.elim
      | notOf t =>
        rw [hS, hT] at hc
        rw [applyBin_notOf hT]
        have hsh := terminalBin_shape op a b
        rw [hT] at hsh
        have : t.size ≤ fuel := by
          rcases hsh with h | h <;> subst h <;> omega
        exact notS_specX pok reg fuel st e t hinv hc this
      | binary o x y => rw [hS, hT] at hc; exact hc.elim
    | binary tag o1 o2 =>
      cases hT : terminalBin op a b with
      | done t => rw [hS, hT] at hc; exact hc.elim
      | notOf t => rw [hS, hT] at hc; exact hc.elim
      | binary o x y =>
        rw [hS, hT] at hc
        obtain ⟨htag, _, _, _, hkey⟩ := hc
        subst htag
        -- the key denotes the operands, in one or the other order
        have hkd : ∃ ts, DenotesL st.store [o1, o2] ts ∧
            specOf (tagOf op) ts = some (applyBin op a b) := by
          rcases hkey with ⟨h1, h2⟩ | ⟨hcm, h1, h2⟩
          · subst h1 h2; exact ⟨_, DenotesL.two hf hg, specOf_tagOf op a b⟩
          · subst h1 h2
            exact ⟨_, DenotesL.two hg hf, by rw [specOf_tagOf, applyBin_comm op hcm]⟩
        simp only
        split
        · -- cache hit
          rename_i r hr
          have hent := hinv.2 _ _ (pok.get_mem _ _ _ _ hr)
          obtain ⟨ts, hd, hs⟩ := hkd
          exact PostX.done (st := st.tickd) hinv.tickd (hent.baseHit hd hs)
        · -- cache miss: both operands are inner nodes
          have hsp := terminalBin_spec op a b
          rw [hT] at hsp
          obtain ⟨_, _, _, hla, hlb⟩ := hsp
          cases a with
          | leaf _ => simp [isLeaf] at hla
          | node lf ft fe =>
          cases b with
          | leaf _ => simp [isLeaf] at hlb
          | node lg gt ge =>
          rw [level?_denotes hf, level?_denotes hg]
          simp only
          rw [applyBin_binary hT]
          have hmin : min lf lg = lf ∨ min lf lg = lg := by omega
          have sz1 : (tcofT (min lf lg) (.node lf ft fe)).size +
              (tcofT (min lf lg) (.node lg gt ge)).size ≤ fuel := by
            have h1 := tcofT_size_le (min lf lg) (.node lf ft fe)
            have h2 := tcofT_size_le (min lf lg) (.node lg gt ge)
            rcases hmin with h | h <;> rw [h] at h1 h2 ⊢
            · have := tcofT_size_lt lf ft fe; omega
            · have := tcofT_size_lt lg gt ge; omega
          have sz0 : (tcofE (min lf lg) (.node lf ft fe)).size +
              (tcofE (min lf lg) (.node lg gt ge)).size ≤ fuel := by
            have h1 := tcofE_size_le (min lf lg) (.node lf ft fe)
            have h2 := tcofE_size_le (min lf lg) (.node lg gt ge)
            rcases hmin with h | h <;> rw [h] at h1 h2 ⊢
            · have := tcofE_size_lt lf ft fe; omega
            · have := tcofE_size_lt lg gt ge; omega
          have p1 := ih st.tickd _ _ _ _ hinv.tickd (cofT_denotes (min lf lg) hf)
            (cofT_denotes (min lf lg) hg) sz1
          have p0 := ih _ _ _ _ _ p1.inv ((cofE_denotes (min lf lg) hf).mono p1.le)
            ((cofE_denotes (min lf lg) hg).mono p1.le) sz0
          obtain ⟨ts, hd, hs⟩ := hkd
          rw [applyBin_binary hT] at hs
          exact finishS_postX pok p1 p0 (tagOf op, [o1, o2]) (min lf lg) (KeyMeans.base hd hs)

/-! ## `apply_ite` -/

theorem iteS_specX {p : Policy} (pok : p.OK) (reg : Nat → List BDD) (fuel : Nat) :
    ∀ (st : St) (f g h : Edge) (a b c : BDD),
    InvX reg st → Denotes st.store f a → Denotes st.store g b → Denotes st.store h c →
    a.size + b.size + c.size ≤ fuel →
    PostX reg st.store (applyIte a b c) (iteS p fuel st f g h) := by
  induction fuel with
  | zero =>
    intro st f g h a b c _ _ _ _ hsz
    have := size_pos a
    omega
  | succ fuel ih =>
    intro st f g h a b c hinv hf hg hh hsz
    have hinj := inj_of_unique hinv.1
    have hsa := size_pos a
    have hsb := size_pos b
    have hsc := size_pos c
    simp only [iteS]
    by_cases hgh : g = h
    · subst hgh
      have := Denotes.functional hg hh
      subst this
      simp only [if_true]
      rw [applyIte_gh]
      exact PostX.done hinv hg
    · have hbc : b ≠ c := fun e => hgh (hinj _ _ _ hg (e ▸ hh))
      simp only [hgh, if_false]
      by_cases hfg : f = g
      · subst hfg
        have := Denotes.functional hf hg
        subst this
        simp only [if_true]
        rw [applyIte_fg hbc]
        exact applyS_specX pok reg .or fuel st f h a c hinv hf hh (by omega)
      · have hab : a ≠ b := fun e => hfg (hinj _ _ _ hf (e ▸ hg))
        simp only [hfg, if_false]
        by_cases hfh : f = h
        · subst hfh
          have := Denotes.functional hf hh
          subst this
          simp only [if_true]
          rw [applyIte_fh hab]
          exact applyS_specX pok reg .and fuel st f g a b hinv hf hg (by omega)
        · have hac : a ≠ c := fun e => hfh (hinj _ _ _ hf (e ▸ hh))
          simp only [hfh, if_false]
          cases hf with
          | @term x =>
            simp only
            rw [applyIte_leaf hbc hab hac]
            cases x
            · exact PostX.done hinv hh
            · exact PostX.done hinv hg
          | @inner i l t e tt te hi hft hfe =>
            have hdf : Denotes st.store (.inner i) (.node l tt te) := .inner hi hft hfe
            cases hg with
            | @term y =>
              cases hh with
              | @term z =>
                cases y <;> cases z <;> first
                  | exact absurd rfl hgh
                  | (simp only [Bool.false_eq_true, if_false]
                     rw [applyIte.eq_def]; simp only [hbc, hab, hac, if_false, Bool.false_eq_true]
                     exact notS_specX pok reg fuel st _ _ hinv hdf (by omega))
                  | (simp only [if_true]
                     rw [applyIte.eq_def]; simp only [hbc, hab, hac, if_false, if_true]
                     exact PostX.done hinv hdf)
              | @inner k l'' t'' e'' tt'' te'' hk hht hhe =>
                have hdh : Denotes st.store (.inner k) (.node l'' tt'' te'') := .inner hk hht hhe
                cases y
                · simp only
                  rw [applyIte.eq_def]; simp only [hbc, hab, hac, if_false]
                  exact applyS_specX pok reg .impStrict fuel st _ _ _ _ hinv hdf hdh (by omega)
                · simp only
                  rw [applyIte.eq_def]; simp only [hbc, hab, hac, if_false]
                  exact applyS_specX pok reg .or fuel st _ _ _ _ hinv hdf hdh (by omega)
            | @inner j l' t' e' tt' te' hj hgt hge =>
              have hdg : Denotes st.store (.inner j) (.node l' tt' te') := .inner hj hgt hge
              cases hh with
              | @term z =>
                cases z
                · simp only
                  rw [applyIte.eq_def]; simp only [hbc, hab, hac, if_false]
                  exact applyS_specX pok reg .and fuel st _ _ _ _ hinv hdf hdg (by omega)
                · simp only
                  rw [applyIte.eq_def]; simp only [hbc, hab, hac, if_false]
                  exact applyS_specX pok reg .imp fuel st _ _ _ _ hinv hdf hdg (by omega)
              | @inner k l'' t'' e'' tt'' te'' hk hht hhe =>
                have hdh : Denotes st.store (.inner k) (.node l'' tt'' te'') := .inner hk hht hhe
                simp only
                split
                · -- cache hit
                  rename_i r hr
                  have hent := hinv.2 _ _ (pok.get_mem _ _ _ _ hr)
                  exact PostX.done (st := st.tickd) hinv.tickd
                    (hent.baseHit (DenotesL.three hdf hdg hdh) rfl)
                · -- cache miss
                  rw [level?_denotes hdf, level?_denotes hdg, level?_denotes hdh]
                  simp only
                  rw [applyIte_rec hbc hab hac]
                  generalize hl : min (min l l') l'' = m
                  have hmin : m = l ∨ m = l' ∨ m = l'' := by omega
                  have ha1 := tcofT_size_le m (.node l tt te)
                  have hb1 := tcofT_size_le m (.node l' tt' te')
                  have hc1 := tcofT_size_le m (.node l'' tt'' te'')
                  have ha0 := tcofE_size_le m (.node l tt te)
                  have hb0 := tcofE_size_le m (.node l' tt' te')
                  have hc0 := tcofE_size_le m (.node l'' tt'' te'')
                  have sz : (tcofT m (.node l tt te)).size + (tcofT m (.node l' tt' te')).size +
                      (tcofT m (.node l'' tt'' te'')).size ≤ fuel ∧
                      (tcofE m (.node l tt te)).size + (tcofE m (.node l' tt' te')).size +
                      (tcofE m (.node l'' tt'' te'')).size ≤ fuel := by
                    rcases hmin with h | h | h <;> subst h
                    · have := tcofT_size_lt m tt te; have := tcofE_size_lt m tt te; omega
                    · have := tcofT_size_lt m tt' te'; have := tcofE_size_lt m tt' te'; omega
                    · have := tcofT_size_lt m tt'' te''; have := tcofE_size_lt m tt'' te''; omega
                  have p1 := ih st.tickd _ _ _ _ _ _ hinv.tickd (cofT_denotes m hdf)
                    (cofT_denotes m hdg) (cofT_denotes m hdh) sz.1
                  have p0 := ih _ _ _ _ _ _ _ p1.inv ((cofE_denotes m hdf).mono p1.le)
                    ((cofE_denotes m hdg).mono p1.le) ((cofE_denotes m hdh).mono p1.le) sz.2
                  refine finishS_postX pok p1 p0 (.ite, [.inner i, .inner j, .inner k]) m
                    (KeyMeans.base (DenotesL.three hdf hdg hdh) ?_)
                  show some (applyIte _ _ _) = _
                  rw [applyIte_rec hbc hab hac, hl]



end OxiddModel.Bdd.Refine
