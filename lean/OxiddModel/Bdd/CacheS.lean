import OxiddModel.Bdd.StoreRefine

/-!
# Apply-cache model, operator tags, edge-level `terminal_bin`

* `OpTag` = the `BDDOp` values used as apply-cache operators by `apply_not`, `apply_bin::<OP>`,
  `apply_ite`; a cache key is the **full** pair (operator tag, operand list) as in
  `EntryGuard::get` of `crates/oxidd-cache/src/direct.rs`.
* `Policy` = what the cache implementation does with an abstract set of entries:
  `get tick cache key` may miss although the key is present (eviction, `try_lock` failure),
  `add tick cache key value` may drop the new entry and may drop or overwrite old ones.
  `Policy.OK` is all the algorithms rely on: *a hit returns a value stored under exactly this key*
  and *`add` creates no entries other than the one it is given*. `Policy.exact` (never forgets)
  and `Policy.dm` (direct mapped with an arbitrary hash function, capacity and lock-failure
  pattern) are instances.
* `CacheOK s c`: every entry maps its key to an edge denoting the specified result (`specOf`).
* `terminalBinS`: `terminal_bin::<OP>` on edges, including the operand swap `f > g` of the
  commutative operators, with `terminalBinS_corr`: it agrees with the tree-level `terminalBin`
  whenever edge equality coincides with tree equality (`Store.Inj`).
-/
namespace OxiddModel.Bdd.Refine
open OxiddModel.Bdd OxiddModel.Bdd.BDD

/-! ## tree level: commutativity, unfolding equations, cofactors -/

/-- the operators for which `terminal_bin` normalises the operand order -/
def Op.comm : Op → Bool
  | .and | .or | .nand | .nor | .xor | .equiv => true
  | .imp | .impStrict => false

def Operation.swap : Operation → Operation
  | .done r => .done r
  | .notOf h => .notOf h
  | .binary op f g => .binary op g f

theorem terminalBin_comm (op : Op) (hc : Op.comm op = true) (f g : BDD) :
    terminalBin op g f = Operation.swap (terminalBin op f g) := by
  cases op <;> simp only [Op.comm] at hc <;> (try cases hc) <;> simp only [terminalBin] <;>
    (by_cases hfg : f = g
     · subst hfg; simp [Operation.swap]
     · have hgf : ¬ g = f := fun h => hfg h.symm
       simp only [hfg, hgf, if_false]
       cases f with
       | leaf a =>
         cases g with
         | leaf b => cases a <;> cases b <;> simp_all [Operation.swap]
         | node lg gt ge => cases a <;> simp [Operation.swap]
       | node lf ft fe =>
         cases g with
         | leaf b => cases b <;> simp [Operation.swap]
         | node lg gt ge => simp [Operation.swap])

theorem terminalCase_comm (op : Op) (hc : Op.comm op = true) (f g : BDD) :
    terminalCase op g f = terminalCase op f g := by
  unfold terminalCase
  rw [terminalBin_comm op hc f g]
  cases terminalBin op f g <;> rfl

/-- `apply_bin` of a commutative operator is commutative on all trees, which is why memoising
under the normalised key `(min f g, max f g)` is sound -/
theorem applyBin_comm (op : Op) (hc : Op.comm op = true) (f g : BDD) :
    applyBin op f g = applyBin op g f := by
  fun_induction applyBin op f g with
  | case1 f g r h =>
    rw [applyBin.eq_def, terminalCase_comm op hc, h]
  | case2 lf ft fe lg gt ge l h ih1 ih2 =>
    simp only [dite_eq_ite] at ih1 ih2
    rw [applyBin.eq_def (g := BDD.node lf ft fe), terminalCase_comm op hc, h]
    simp only
    rw [Nat.min_comm lg lf, ← ih1, ← ih2]
  | case3 f g h hne =>
    exfalso
    obtain ⟨⟨lf, ft, fe, rfl⟩, ⟨lg, gt, ge, rfl⟩⟩ := terminalCase_none op f g h
    exact hne _ _ _ _ _ _ rfl rfl

/-- then-cofactor with respect to level `l` as selected by the apply algorithms -/
def tcofT (l : Nat) : BDD → BDD
  | .node la t e => if la = l then t else .node la t e
  | .leaf b => .leaf b

/-- else-cofactor with respect to level `l` -/
def tcofE (l : Nat) : BDD → BDD
  | .node la t e => if la = l then e else .node la t e
  | .leaf b => .leaf b

theorem tcofT_size_le (l : Nat) (a : BDD) : (tcofT l a).size ≤ a.size := by
  cases a with
  | leaf b => simp [tcofT]
  | node la t e => simp only [tcofT]; split <;> simp only [BDD.size] <;> omega

theorem tcofE_size_le (l : Nat) (a : BDD) : (tcofE l a).size ≤ a.size := by
  cases a with
  | leaf b => simp [tcofE]
  | node la t e => simp only [tcofE]; split <;> simp only [BDD.size] <;> omega

theorem tcofT_size_lt (l : Nat) (t e : BDD) : (tcofT l (.node l t e)).size < (BDD.node l t e).size := by
  simp only [tcofT, if_true, BDD.size]; omega

theorem tcofE_size_lt (l : Nat) (t e : BDD) : (tcofE l (.node l t e)).size < (BDD.node l t e).size := by
  simp only [tcofE, if_true, BDD.size]; omega

theorem applyBin_done {op : Op} {a b r : BDD} (h : terminalBin op a b = .done r) :
    applyBin op a b = r := by
  rw [applyBin.eq_def]; simp [terminalCase, h]

theorem applyBin_notOf {op : Op} {a b r : BDD} (h : terminalBin op a b = .notOf r) :
    applyBin op a b = applyNot r := by
  rw [applyBin.eq_def]; simp [terminalCase, h]

theorem applyBin_binary {op o : Op} {lf lg : Nat} {ft fe gt ge x y : BDD}
    (h : terminalBin op (.node lf ft fe) (.node lg gt ge) = .binary o x y) :
    applyBin op (.node lf ft fe) (.node lg gt ge) =
      mk (min lf lg)
        (applyBin op (tcofT (min lf lg) (.node lf ft fe)) (tcofT (min lf lg) (.node lg gt ge)))
        (applyBin op (tcofE (min lf lg) (.node lf ft fe)) (tcofE (min lf lg) (.node lg gt ge))) := by
  rw [applyBin.eq_def]; simp [terminalCase, h, tcofT, tcofE]

/-! ## keys, cache, policies -/

/-- the `BDDOp` values under which `apply_not`, `apply_bin::<OP>` and `apply_ite` memoise -/
inductive OpTag where
  | not | and | or | nand | nor | xor | equiv | imp | impStrict | ite
deriving DecidableEq, Repr, Inhabited

/-- `OP as BDDOp`: the tag `terminal_bin::<OP>` puts into `Operation::Binary` -/
def tagOf : Op → OpTag
  | .and => .and
  | .or => .or
  | .nand => .nand
  | .nor => .nor
  | .xor => .xor
  | .equiv => .equiv
  | .imp => .imp
  | .impStrict => .impStrict

theorem tagOf_inj {a b : Op} (h : tagOf a = tagOf b) : a = b := by
  cases a <;> cases b <;> first | rfl | cases h

abbrev Key := OpTag × List Edge
abbrev Cache := List (Key × Edge)

/-- behaviour of the cache implementation; the first argument is a time stamp, so that the
behaviour may change from access to access (lock contention) -/
structure Policy where
  get : Nat → Cache → Key → Option Edge
  add : Nat → Cache → Key → Edge → Cache

/-- the two facts about the cache the algorithms rely on -/
structure Policy.OK (p : Policy) : Prop where
  /-- a hit returns a value that is stored under *exactly* the queried key (tag and all operands) -/
  get_mem : ∀ n c k r, p.get n c k = some r → (k, r) ∈ c
  /-- `add` may forget anything, but it invents nothing -/
  add_sub : ∀ n c k r x, x ∈ p.add n c k r → x ∈ c ∨ x = (k, r)

theorem lookup_mem {α β} [BEq α] [LawfulBEq α] {l : List (α × β)} {k : α} {v : β}
    (h : l.lookup k = some v) : (k, v) ∈ l := by
  induction l with
  | nil => simp [List.lookup] at h
  | cons p ps ih =>
    obtain ⟨k', v'⟩ := p
    simp only [List.lookup] at h
    split at h
    · rename_i heq
      have := beq_iff_eq.mp heq
      cases h; subst this; exact List.mem_cons_self
    · exact List.mem_cons_of_mem _ (ih h)

/-- the ideal cache: unbounded, never misses a present key -/
def Policy.exact : Policy where
  get _ c k := c.lookup k
  add _ c k r := (k, r) :: c

theorem Policy.exact_ok : Policy.exact.OK where
  get_mem _ _ _ _ h := lookup_mem h
  add_sub _ _ _ _ x h := by
    simp only [Policy.exact, List.mem_cons] at h
    rcases h with h | h
    · exact .inr h
    · exact .inl h

/-- no cache at all (`apply-cache` feature off) -/
def Policy.none : Policy where
  get _ _ _ := Option.none
  add _ c _ _ := c

theorem Policy.none_ok : Policy.none.OK where
  get_mem _ _ _ _ h := by simp [Policy.none] at h
  add_sub _ _ _ _ _ h := .inl h

/-- a direct-mapped cache (`DMApplyCache`): `cap` buckets, bucket of a key chosen by an arbitrary
`hash`; `lock t = false` models a failing `try_lock` at time `t` (the access is skipped);
inserting evicts whatever occupies the bucket -/
def Policy.dm (cap : Nat) (hash : Key → Nat) (lock : Nat → Bool) : Policy where
  get t c k := if lock t then c.lookup k else Option.none
  add t c k r :=
    if lock t then (k, r) :: c.filter (fun x => hash x.1 % cap != hash k % cap) else c

theorem Policy.dm_ok (cap : Nat) (hash : Key → Nat) (lock : Nat → Bool) :
    (Policy.dm cap hash lock).OK where
  get_mem t c k r h := by
    simp only [Policy.dm] at h
    split at h
    · exact lookup_mem h
    · cases h
  add_sub t c k r x h := by
    simp only [Policy.dm] at h
    split at h
    · simp only [List.mem_cons, List.mem_filter] at h
      rcases h with h | h
      · exact .inr h
      · exact .inl h.1
    · exact .inl h

/-! ## what a cache entry must mean -/

/-- the tree-level function an operator tag stands for (`none`: wrong operand count) -/
def specOf : OpTag → List BDD → Option BDD
  | .not, [a] => some (applyNot a)
  | .and, [a, b] => some (applyBin .and a b)
  | .or, [a, b] => some (applyBin .or a b)
  | .nand, [a, b] => some (applyBin .nand a b)
  | .nor, [a, b] => some (applyBin .nor a b)
  | .xor, [a, b] => some (applyBin .xor a b)
  | .equiv, [a, b] => some (applyBin .equiv a b)
  | .imp, [a, b] => some (applyBin .imp a b)
  | .impStrict, [a, b] => some (applyBin .impStrict a b)
  | .ite, [a, b, c] => some (applyIte a b c)
  | _, _ => none

theorem specOf_tagOf (op : Op) (a b : BDD) : specOf (tagOf op) [a, b] = some (applyBin op a b) := by
  cases op <;> rfl

inductive DenotesL (s : Store) : List Edge → List BDD → Prop
  | nil : DenotesL s [] []
  | cons : Denotes s e t → DenotesL s es ts → DenotesL s (e :: es) (t :: ts)

theorem DenotesL.functional {s : Store} {es : List Edge} {ts ts' : List BDD}
    (h : DenotesL s es ts) (h' : DenotesL s es ts') : ts = ts' := by
  induction h generalizing ts' with
  | nil => cases h'; rfl
  | cons hd _ ih =>
    cases h' with
    | cons hd' htl' => rw [Denotes.functional hd hd', ih htl']

theorem DenotesL.mono {s s' : Store} (hle : s.Le s') {es : List Edge} {ts : List BDD}
    (h : DenotesL s es ts) : DenotesL s' es ts := by
  induction h with
  | nil => exact .nil
  | cons hd _ ih => exact .cons (hd.mono hle) ih

theorem DenotesL.one {s : Store} {e : Edge} {t : BDD} (h : Denotes s e t) : DenotesL s [e] [t] :=
  .cons h .nil
theorem DenotesL.two {s : Store} {e1 e2 : Edge} {t1 t2 : BDD} (h1 : Denotes s e1 t1)
    (h2 : Denotes s e2 t2) : DenotesL s [e1, e2] [t1, t2] := .cons h1 (.cons h2 .nil)
theorem DenotesL.three {s : Store} {e1 e2 e3 : Edge} {t1 t2 t3 : BDD} (h1 : Denotes s e1 t1)
    (h2 : Denotes s e2 t2) (h3 : Denotes s e3 t3) : DenotesL s [e1, e2, e3] [t1, t2, t3] :=
  .cons h1 (.cons h2 (.cons h3 .nil))

/-- the entry `k ↦ r` is sound in store `s`: all operands denote trees and `r` denotes the result
of the tagged operator on them -/
def EntryOK (s : Store) (k : Key) (r : Edge) : Prop :=
  ∃ ts T, DenotesL s k.2 ts ∧ specOf k.1 ts = some T ∧ Denotes s r T

def CacheOK (s : Store) (c : Cache) : Prop := ∀ k r, (k, r) ∈ c → EntryOK s k r

theorem EntryOK.mono {s s' : Store} {k : Key} {r : Edge} (h : EntryOK s k r) (hle : s.Le s') :
    EntryOK s' k r := by
  obtain ⟨ts, T, h1, h2, h3⟩ := h
  exact ⟨ts, T, h1.mono hle, h2, h3.mono hle⟩

theorem CacheOK.mono {s s' : Store} {c : Cache} (h : CacheOK s c) (hle : s.Le s') : CacheOK s' c :=
  fun k r hm => (h k r hm).mono hle

/-- what a hit means: the returned edge denotes the specified result for the queried operands -/
theorem EntryOK.hit {s : Store} {k : Key} {r : Edge} {ts : List BDD} {T : BDD}
    (h : EntryOK s k r) (hd : DenotesL s k.2 ts) (hs : specOf k.1 ts = some T) : Denotes s r T := by
  obtain ⟨ts', T', h1, h2, h3⟩ := h
  have := DenotesL.functional h1 hd
  subst this
  rw [hs] at h2; cases h2
  exact h3

theorem CacheOK.nil (s : Store) : CacheOK s [] := fun _ _ h => by cases h

/-- evicting entries (any sub-collection of the entries) keeps the cache sound -/
theorem CacheOK.sub {s : Store} {c c' : Cache} (h : CacheOK s c) (hs : ∀ x, x ∈ c' → x ∈ c) :
    CacheOK s c' := fun k r hm => h k r (hs _ hm)

/-- adding through any admissible policy keeps the cache sound if the new entry is sound
(this covers insertion, overwriting, eviction of the previous bucket content, dropped adds) -/
theorem CacheOK.add {p : Policy} (pok : p.OK) {s : Store} {c : Cache} (h : CacheOK s c) {k : Key}
    {r : Edge} (he : EntryOK s k r) (n : Nat) : CacheOK s (p.add n c k r) := by
  intro k' r' hm
  rcases pok.add_sub n c k r _ hm with h' | h'
  · exact h k' r' h'
  · cases h'; exact he

/-! ## `terminal_bin` on edges -/

/-- the order used for `f > g`: by id; terminals below inner nodes (index-based manager) -/
def Edge.gt : Edge → Edge → Bool
  | .inner i, .inner j => decide (j < i)
  | .inner _, .term _ => true
  | .term _, .inner _ => false
  | .term a, .term b => a && !b

/-- result of `terminal_bin` at edge level -/
inductive OperationS where
  | done : Edge → OperationS
  | notOf : Edge → OperationS
  | binary : OpTag → Edge → Edge → OperationS
deriving Repr, DecidableEq

/-- `terminal_bin::<OP>` (simple/mod.rs) on edges -/
def terminalBinS (op : Op) (f g : Edge) : OperationS :=
  match op with
  | .and =>
    if f = g then .done f else
    match f, g with
    | .inner _, .inner _ => if f.gt g then .binary .and g f else .binary .and f g
    | .term false, _ => .done (.term false)
    | _, .term false => .done (.term false)
    | .term true, _ => .done g
    | _, .term true => .done f
  | .or =>
    if f = g then .done f else
    match f, g with
    | .inner _, .inner _ => if f.gt g then .binary .or g f else .binary .or f g
    | .term true, _ => .done (.term true)
    | _, .term true => .done (.term true)
    | .term false, _ => .done g
    | _, .term false => .done f
  | .nand =>
    if f = g then .notOf f else
    match f, g with
    | .inner _, .inner _ => if f.gt g then .binary .nand g f else .binary .nand f g
    | .term false, _ => .done (.term true)
    | _, .term false => .done (.term true)
    | .term true, _ => .notOf g
    | _, .term true => .notOf f
  | .nor =>
    if f = g then .notOf f else
    match f, g with
    | .inner _, .inner _ => if f.gt g then .binary .nor g f else .binary .nor f g
    | .term true, _ => .done (.term false)
    | _, .term true => .done (.term false)
    | .term false, _ => .notOf g
    | _, .term false => .notOf f
  | .xor =>
    if f = g then .done (.term false) else
    match f, g with
    | .inner _, .inner _ => if f.gt g then .binary .xor g f else .binary .xor f g
    | .term false, _ => .done g
    | _, .term false => .done f
    | .term true, _ => .notOf g
    | _, .term true => .notOf f
  | .equiv =>
    if f = g then .done (.term true) else
    match f, g with
    | .inner _, .inner _ => if f.gt g then .binary .equiv g f else .binary .equiv f g
    | .term true, _ => .done g
    | _, .term true => .done f
    | .term false, _ => .notOf g
    | _, .term false => .notOf f
  | .imp =>
    if f = g then .done (.term true) else
    match f, g with
    | .inner _, .inner _ => .binary .imp f g
    | .term false, _ => .done (.term true)
    | _, .term true => .done (.term true)
    | .term true, _ => .done g
    | _, .term false => .notOf f
  | .impStrict =>
    if f = g then .done (.term false) else
    match f, g with
    | .inner _, .inner _ => .binary .impStrict f g
    | .term true, _ => .done (.term false)
    | _, .term false => .done (.term false)
    | .term false, _ => .done g
    | _, .term true => .notOf f

/-- correspondence of an edge-level and a tree-level `terminal_bin` result for operands `f ↦ a`,
`g ↦ b` -/
def OpCorr (s : Store) (op : Op) (f g : Edge) (a b : BDD) : OperationS → Operation → Prop
  | .done e, .done t => Denotes s e t
  | .notOf e, .notOf t => Denotes s e t
  | .binary tag o1 o2, .binary op' a' b' =>
    tag = tagOf op ∧ op' = op ∧ a' = a ∧ b' = b ∧
      ((o1 = f ∧ o2 = g) ∨ (Op.comm op = true ∧ o1 = g ∧ o2 = f))
  | _, _ => False

/-- **`terminal_bin` on edges refines `terminalBin` on trees** in every store in which edge
equality is tree equality -/
theorem terminalBinS_corr (op : Op) {s : Store} (inj : s.Inj) {f g : Edge} {a b : BDD}
    (hf : Denotes s f a) (hg : Denotes s g b) :
    OpCorr s op f g a b (terminalBinS op f g) (terminalBin op a b) := by
  by_cases hfg : f = g
  · subst hfg
    have := Denotes.functional hf hg
    subst this
    cases op <;> simp only [terminalBinS, terminalBin, if_true, OpCorr] <;>
      first | exact hf | exact .term
  · have hab : a ≠ b := fun h => hfg (inj _ _ _ hf (h ▸ hg))
    cases hf with
    | @term x =>
      cases hg with
      | @term y =>
        cases op <;> cases x <;> cases y <;>
          first
          | exact absurd rfl hfg
          | (simp only [terminalBinS, terminalBin, hfg, hab, if_false, OpCorr]; exact .term)
      | @inner j l t e tt te hj hgt hge =>
        have hg' : Denotes s (.inner j) (.node l tt te) := .inner hj hgt hge
        cases op <;> cases x <;>
          simp only [terminalBinS, terminalBin, hfg, hab, if_false, OpCorr] <;>
          first | exact .term | exact hg'
    | @inner i l t e tt te hi hft hfe =>
      have hf' : Denotes s (.inner i) (.node l tt te) := .inner hi hft hfe
      cases hg with
      | @term y =>
        cases op <;> cases y <;>
          simp only [terminalBinS, terminalBin, hfg, hab, if_false, OpCorr] <;>
          first | exact .term | exact hf'
      | @inner j l' t' e' tt' te' hj hgt hge =>
        cases op <;>
          simp only [terminalBinS, terminalBin, hfg, hab, if_false] <;>
          (try split) <;> simp [OpCorr, tagOf, Op.comm]

/-- **each operator is memoised under its own tag**: whatever key `terminal_bin::<OP>` hands to
the apply cache carries the tag of `OP` and exactly the two operands (possibly swapped, and only
for a commutative `OP`) -/
theorem terminalBinS_tag (op : Op) (f g : Edge) (tag : OpTag) (o1 o2 : Edge)
    (h : terminalBinS op f g = .binary tag o1 o2) :
    tag = tagOf op ∧ ((o1 = f ∧ o2 = g) ∨ (Op.comm op = true ∧ o1 = g ∧ o2 = f)) := by
  cases op <;> simp only [terminalBinS] at h <;>
    (split at h
     · cases h
     · split at h <;> (try split at h) <;> cases h <;> simp [tagOf, Op.comm])

end OxiddModel.Bdd.Refine
