import OxiddModel.Bdd.ApplyS

/-!
# Extended apply-cache keys: every `BDDOp`, edge operands and numeric operands

`CacheS.lean` models the apply-cache keys of `apply_not`, `apply_bin::<OP>` and `apply_ite`:
`Key = OpTag × List Edge` with the ten tags `Not … Ite`. The remaining recursive algorithms of
`crates/oxidd-rules-bdd/src/simple/apply_rec.rs` use the other `BDDOp` values and, for
`substitute`, a numeric operand (`get_extended(Substitute, (&[f], &[cache_id]))`):

| Rust call                                  | `XKey`                                        |
|--------------------------------------------|-----------------------------------------------|
| `get(Forall/Exists/Unique, &[f, vars])`     | `⟨.quant q, [f, vars], []⟩`                   |
| `get(from_apply_quant(Q, OP), &[f,g,vars])` | `⟨.applyQuant q op, [f, g, vars], []⟩`        |
| `get(Restrict, &[f, vars])`                 | `⟨.restrict, [f, vars], []⟩`                  |
| `get_extended(Substitute, (&[f], &[id]))`   | `⟨.substitute, [f], [id]⟩`                    |
| `get(Not/And/…/Ite, operands)`              | `⟨.base tag, operands, []⟩`                   |

An `XKey` is what `EntryGuard::get` of `crates/oxidd-cache/src/direct.rs` compares: the operator,
the edge operands, the numeric operands (and their counts). The cache itself, its `Policy` and
`Policy.OK` are the ones of `CacheS.lean`; an `XKey` is stored as a generic `Key` by `encKey`:

* backwards compatible: `encKey ⟨.base tag, es, []⟩ = (tag, es)`, so `notS`/`applyS`/`iteS` of
  `ApplyS.lean` run unchanged on a cache that also contains the new kinds of entries;
* every other key is `(Not, [#code, #|es|, es…, nums…])` with `code = BDDOp as u8` (the generic
  key type has only ten tags, so the discriminant travels in front of the operand words, as in
  `Zbdd/SetOpsS.lean`); a `Not` key of `apply_not` has exactly one operand, so there is no clash;
* `encKey_inj`: on well-formed keys (`XKey.WF`: a base operator has its own arity and no numeric
  operands) the encoding is injective — operator, every edge operand and every numeric operand
  are recovered. All cache-key theorems are consequences of this and `Policy.OK.get_mem`.

`EntryOKX reg s k r`: the entry `k ↦ r` is sound in store `s` — `k` encodes a well-formed `XKey`
whose edge operands denote trees and `r` denotes `specX reg` of them. `reg : Nat → List BDD` is the
substitution *registry*: the replacement vector (level ↦ tree) a substitution id stands for. That
it is a *function* of the id is the uniqueness assumption of `Substitution::id()`.
-/
namespace OxiddModel.Bdd.Refine
open OxiddModel.Bdd OxiddModel.Bdd.BDD

/-! ## operators and their discriminants -/

/-- all values of `BDDOp` (simple/mod.rs) -/
inductive XOp where
  /-- `Not`, `And` … `ImpStrict`, `Ite` -/
  | base (t : OpTag)
  | substitute
  | restrict
  /-- `Forall`, `Exists`, `Unique` -/
  | quant (q : Quant)
  /-- `BDDOp::from_apply_quant(Q, OP)`: `ForallAnd` … `UniqueImpStrict` -/
  | applyQuant (q : Quant) (op : Op)
deriving DecidableEq, Repr, Inhabited

def OpTag.code : OpTag → Nat
  | .not => 0 | .and => 1 | .or => 2 | .nand => 3 | .nor => 4 | .xor => 5 | .equiv => 6
  | .imp => 7 | .impStrict => 8 | .ite => 9

/-- position of the quantifier block in `BDDOp` -/
def qcode : Quant → Nat
  | .forall_ => 0 | .exists_ => 1 | .unique => 2

/-- position of the inner operator inside a `Forall*`/`Exists*`/`Unique*` block -/
def opcode : Op → Nat
  | .and => 0 | .or => 1 | .nand => 2 | .nor => 3 | .xor => 4 | .equiv => 5 | .imp => 6
  | .impStrict => 7

/-- `BDDOp as u8` -/
def XOp.code : XOp → Nat
  | .base t => t.code
  | .substitute => 10
  | .restrict => 11
  | .quant q => 12 + qcode q
  | .applyQuant q op => 15 + 8 * qcode q + opcode op

theorem OpTag.code_lt (t : OpTag) : t.code < 10 := by cases t <;> simp [OpTag.code]
theorem qcode_lt (q : Quant) : qcode q < 3 := by cases q <;> simp [qcode]
theorem opcode_lt (o : Op) : opcode o < 8 := by cases o <;> simp [opcode]

theorem OpTag.code_inj {a b : OpTag} (h : a.code = b.code) : a = b := by
  cases a <;> cases b <;> first | rfl | (simp [OpTag.code] at h)
theorem qcode_inj {a b : Quant} (h : qcode a = qcode b) : a = b := by
  cases a <;> cases b <;> first | rfl | (simp [qcode] at h)
theorem opcode_inj {a b : Op} (h : opcode a = opcode b) : a = b := by
  cases a <;> cases b <;> first | rfl | (simp [opcode] at h)

/-- distinct operators have distinct discriminants -/
theorem XOp.code_inj {a b : XOp} (h : a.code = b.code) : a = b := by
  cases a with
  | base t =>
    have := t.code_lt
    cases b with
    | base t' => simp only [XOp.code] at h; rw [OpTag.code_inj h]
    | substitute => simp only [XOp.code] at h; omega
    | restrict => simp only [XOp.code] at h; omega
    | quant q => simp only [XOp.code] at h; omega
    | applyQuant q o => simp only [XOp.code] at h; omega
  | substitute =>
    cases b with
    | base t' => have := t'.code_lt; simp only [XOp.code] at h; omega
    | substitute => rfl
    | restrict => simp only [XOp.code] at h; omega
    | quant q => simp only [XOp.code] at h; omega
    | applyQuant q o => simp only [XOp.code] at h; omega
  | restrict =>
    cases b with
    | base t' => have := t'.code_lt; simp only [XOp.code] at h; omega
    | substitute => simp only [XOp.code] at h; omega
    | restrict => rfl
    | quant q => simp only [XOp.code] at h; omega
    | applyQuant q o => simp only [XOp.code] at h; omega
  | quant q =>
    have := qcode_lt q
    cases b with
    | base t' => have := t'.code_lt; simp only [XOp.code] at h; omega
    | substitute => simp only [XOp.code] at h; omega
    | restrict => simp only [XOp.code] at h; omega
    | quant q' =>
      simp only [XOp.code] at h
      rw [qcode_inj (a := q) (b := q') (by omega)]
    | applyQuant q' o => simp only [XOp.code] at h; omega
  | applyQuant q o =>
    have := qcode_lt q
    have := opcode_lt o
    cases b with
    | base t' => have := t'.code_lt; simp only [XOp.code] at h; omega
    | substitute => simp only [XOp.code] at h; omega
    | restrict => simp only [XOp.code] at h; omega
    | quant q' => have := qcode_lt q'; simp only [XOp.code] at h; omega
    | applyQuant q' o' =>
      have := qcode_lt q'
      have := opcode_lt o'
      simp only [XOp.code] at h
      rw [qcode_inj (a := q) (b := q') (by omega), opcode_inj (a := o) (b := o') (by omega)]

/-! ## keys -/

/-- a cache key as passed to `get`/`add`/`get_extended`/`add_extended`: operator, edge operands,
numeric operands -/
structure XKey where
  op : XOp
  operands : List Edge
  nums : List Nat
deriving DecidableEq, Repr

/-- number of edge operands of the operators of `CacheS.lean` -/
def OpTag.arity : OpTag → Nat
  | .not => 1
  | .ite => 3
  | _ => 2

/-- a base operator is used with its own arity and without numeric operands (always the case for
the keys the algorithms build) -/
def XKey.WF (k : XKey) : Prop :=
  match k.op with
  | .base t => k.nums = [] ∧ k.operands.length = t.arity
  | _ => True

/-- the key as one key of the generic cache of `CacheS.lean` -/
def encKey (k : XKey) : Key :=
  match k.op, k.nums with
  | .base t, [] => (t, k.operands)
  | _, _ => (.not, .inner k.op.code :: .inner k.operands.length ::
      (k.operands ++ k.nums.map .inner))

theorem encKey_base (t : OpTag) (es : List Edge) : encKey ⟨.base t, es, []⟩ = (t, es) := rfl

theorem encKey_ext {k : XKey} (h : ∀ t, k.op ≠ .base t) :
    encKey k = (.not, .inner k.op.code :: .inner k.operands.length ::
      (k.operands ++ k.nums.map .inner)) := by
  obtain ⟨op, es, ns⟩ := k
  cases op with
  | base t => exact absurd rfl (h t)
  | _ => rfl

theorem map_inner_inj {xs ys : List Nat} (h : xs.map Edge.inner = ys.map Edge.inner) : xs = ys := by
  have := congrArg (List.map (fun e => match e with
    | Edge.inner i => i | Edge.term _ => 0)) h
  simpa [List.map_map, Function.comp_def] using this

/-- **the encoding is injective** on well-formed keys: two keys are equal as cache keys only if
operator, every edge operand and every numeric operand (and their counts) agree -/
theorem encKey_inj {k k' : XKey} (hk : k.WF) (hk' : k'.WF) (h : encKey k = encKey k') : k = k' := by
  obtain ⟨op, es, ns⟩ := k
  obtain ⟨op', es', ns'⟩ := k'
  -- the generic case: both keys carry their discriminant
  have gen : ∀ (o o' : XOp),
      ((OpTag.not, Edge.inner o.code :: Edge.inner es.length :: (es ++ ns.map Edge.inner)) : Key) =
        (OpTag.not, Edge.inner o'.code :: Edge.inner es'.length :: (es' ++ ns'.map Edge.inner)) →
      o = o' ∧ es = es' ∧ ns = ns' := by
    intro o o' h
    simp only [Prod.mk.injEq, List.cons.injEq, Edge.inner.injEq, true_and] at h
    obtain ⟨h1, h2, h3⟩ := h
    obtain ⟨h4, h5⟩ := List.append_inj h3 h2
    exact ⟨XOp.code_inj h1, h4, map_inner_inj h5⟩
  cases op with
  | base t =>
    obtain ⟨hn, hl⟩ := hk
    simp only at hn hl
    subst hn
    cases op' with
    | base t' =>
      obtain ⟨hn', _⟩ := hk'
      simp only at hn'
      subst hn'
      simp only [encKey, Prod.mk.injEq] at h
      rw [h.1, h.2]
    | substitute | restrict | quant _ | applyQuant _ _ =>
      simp only [encKey, Prod.mk.injEq] at h
      obtain ⟨ht, he⟩ := h
      subst ht
      rw [he] at hl
      simp [OpTag.arity] at hl
  | substitute | restrict | quant _ | applyQuant _ _ =>
    cases op' with
    | base t' =>
      obtain ⟨hn', hl'⟩ := hk'
      simp only at hn' hl'
      subst hn'
      simp only [encKey, Prod.mk.injEq] at h
      obtain ⟨ht, he⟩ := h
      subst ht
      rw [← he] at hl'
      simp [OpTag.arity] at hl'
    | substitute | restrict | quant _ | applyQuant _ _ =>
      obtain ⟨h1, h2, h3⟩ := gen _ _ h
      subst h2 h3
      exact congrArg (fun o => (⟨o, es, ns⟩ : XKey)) h1

/-! ## what a cache entry must mean -/

/-- the tree-level function an operator stands for; `reg` maps a substitution id to the
replacement vector it was created for (`none`: wrong operand counts) -/
def specX (reg : Nat → List BDD) : XOp → List BDD → List Nat → Option BDD
  | .base t, ts, [] => specOf t ts
  | .substitute, [a], [id] => some (substitute (reg id) a)
  | .restrict, [a, v], [] => some (restrict a v)
  | .quant q, [a, v], [] => some (quant q a v)
  | .applyQuant q op, [a, b, v], [] => some (applyQuant q op a b v)
  | _, _, _ => none

theorem specOf_arity {t : OpTag} {ts : List BDD} {T : BDD} (h : specOf t ts = some T) :
    ts.length = t.arity := by
  rcases ts with _ | ⟨a, _ | ⟨b, _ | ⟨c, _ | ⟨d, l⟩⟩⟩⟩ <;> cases t <;>
    first | rfl | (simp [specOf] at h)

theorem DenotesL.length {s : Store} {es : List Edge} {ts : List BDD} (h : DenotesL s es ts) :
    es.length = ts.length := by
  induction h with
  | nil => rfl
  | cons _ _ ih => simp [ih]

/-- the entry `k ↦ r` is sound in store `s` (relative to the substitution registry `reg`) -/
def EntryOKX (reg : Nat → List BDD) (s : Store) (k : Key) (r : Edge) : Prop :=
  ∃ xk ts T, k = encKey xk ∧ xk.WF ∧ DenotesL s xk.operands ts ∧
    specX reg xk.op ts xk.nums = some T ∧ Denotes s r T

def CacheOKX (reg : Nat → List BDD) (s : Store) (c : Cache) : Prop :=
  ∀ k r, (k, r) ∈ c → EntryOKX reg s k r

theorem EntryOKX.mono {reg : Nat → List BDD} {s s' : Store} {k : Key} {r : Edge}
    (h : EntryOKX reg s k r) (hle : s.Le s') : EntryOKX reg s' k r := by
  obtain ⟨xk, ts, T, h0, hw, h1, h2, h3⟩ := h
  exact ⟨xk, ts, T, h0, hw, h1.mono hle, h2, h3.mono hle⟩

theorem CacheOKX.mono {reg : Nat → List BDD} {s s' : Store} {c : Cache} (h : CacheOKX reg s c)
    (hle : s.Le s') : CacheOKX reg s' c := fun k r hm => (h k r hm).mono hle

/-- what a hit means: the returned edge denotes the specified result for the queried operands -/
theorem EntryOKX.hit {reg : Nat → List BDD} {s : Store} {xk : XKey} {r : Edge} {ts : List BDD}
    {T : BDD} (h : EntryOKX reg s (encKey xk) r) (hw : xk.WF) (hd : DenotesL s xk.operands ts)
    (hs : specX reg xk.op ts xk.nums = some T) : Denotes s r T := by
  obtain ⟨xk', ts', T', h0, hw', h1, h2, h3⟩ := h
  have := encKey_inj hw hw' h0
  subst this
  have := DenotesL.functional h1 hd
  subst this
  rw [hs] at h2; cases h2
  exact h3

theorem EntryOKX.intro {reg : Nat → List BDD} {s : Store} {xk : XKey} {r : Edge} {ts : List BDD}
    {T : BDD} (hw : xk.WF) (hd : DenotesL s xk.operands ts)
    (hs : specX reg xk.op ts xk.nums = some T) (hr : Denotes s r T) :
    EntryOKX reg s (encKey xk) r := ⟨xk, ts, T, rfl, hw, hd, hs, hr⟩

theorem baseKey_wf {s : Store} {tag : OpTag} {es : List Edge} {ts : List BDD} {T : BDD}
    (hd : DenotesL s es ts) (hs : specOf tag ts = some T) : (⟨.base tag, es, []⟩ : XKey).WF :=
  ⟨rfl, by rw [hd.length]; exact specOf_arity hs⟩

/-- a hit for a key of `apply_not`/`apply_bin`/`apply_ite` -/
theorem EntryOKX.baseHit {reg : Nat → List BDD} {s : Store} {tag : OpTag} {es : List Edge}
    {r : Edge} {ts : List BDD} {T : BDD} (h : EntryOKX reg s (tag, es) r) (hd : DenotesL s es ts)
    (hs : specOf tag ts = some T) : Denotes s r T :=
  EntryOKX.hit (xk := ⟨.base tag, es, []⟩) h (baseKey_wf hd hs) hd hs

theorem EntryOKX.baseIntro {reg : Nat → List BDD} {s : Store} {tag : OpTag} {es : List Edge}
    {r : Edge} {ts : List BDD} {T : BDD} (hd : DenotesL s es ts) (hs : specOf tag ts = some T)
    (hr : Denotes s r T) : EntryOKX reg s (tag, es) r :=
  EntryOKX.intro (xk := ⟨.base tag, es, []⟩) (baseKey_wf hd hs) hd hs hr

/-- an old-style sound entry (`CacheS.EntryOK`) is sound in the extended sense, so every cache
produced by the algorithms of `ApplyS.lean` is an admissible starting point -/
theorem EntryOK.toX (reg : Nat → List BDD) {s : Store} {k : Key} {r : Edge} (h : EntryOK s k r) :
    EntryOKX reg s k r := by
  obtain ⟨ts, T, h1, h2, h3⟩ := h
  exact EntryOKX.baseIntro (tag := k.1) (es := k.2) h1 h2 h3

theorem CacheOK.toX (reg : Nat → List BDD) {s : Store} {c : Cache} (h : CacheOK s c) :
    CacheOKX reg s c := fun k r hm => (h k r hm).toX reg

theorem CacheOKX.nil (reg : Nat → List BDD) (s : Store) : CacheOKX reg s [] :=
  fun _ _ h => by cases h

/-- evicting entries keeps the cache sound -/
theorem CacheOKX.sub {reg : Nat → List BDD} {s : Store} {c c' : Cache} (h : CacheOKX reg s c)
    (hs : ∀ x, x ∈ c' → x ∈ c) : CacheOKX reg s c' := fun k r hm => h k r (hs _ hm)

/-- adding through any admissible policy keeps the cache sound if the new entry is sound -/
theorem CacheOKX.add {p : Policy} (pok : p.OK) {reg : Nat → List BDD} {s : Store} {c : Cache}
    (h : CacheOKX reg s c) {k : Key} {r : Edge} (he : EntryOKX reg s k r) (n : Nat) :
    CacheOKX reg s (p.add n c k r) := by
  intro k' r' hm
  rcases pok.add_sub n c k r _ hm with h' | h'
  · exact h k' r' h'
  · cases h'; exact he

/-- the key stands for the tree `T`: in every extension of the store, an edge denoting `T` makes a
sound entry under this key -/
def KeyMeans (reg : Nat → List BDD) (s : Store) (key : Key) (T : BDD) : Prop :=
  ∀ s' r, s.Le s' → Denotes s' r T → EntryOKX reg s' key r

theorem KeyMeans.of {reg : Nat → List BDD} {s : Store} {xk : XKey} {ts : List BDD} {T : BDD}
    (hw : xk.WF) (hd : DenotesL s xk.operands ts) (hs : specX reg xk.op ts xk.nums = some T) :
    KeyMeans reg s (encKey xk) T :=
  fun _ _ hle hr => EntryOKX.intro hw (hd.mono hle) hs hr

theorem KeyMeans.base {reg : Nat → List BDD} {s : Store} {tag : OpTag} {es : List Edge}
    {ts : List BDD} {T : BDD} (hd : DenotesL s es ts) (hs : specOf tag ts = some T) :
    KeyMeans reg s (tag, es) T :=
  fun _ _ hle hr => EntryOKX.baseIntro (hd.mono hle) hs hr

theorem KeyMeans.mono {reg : Nat → List BDD} {s s' : Store} {key : Key} {T : BDD}
    (h : KeyMeans reg s key T) (hle : s.Le s') : KeyMeans reg s' key T :=
  fun s'' r hle' hr => h s'' r (hle.trans hle') hr

/-! ## the keys the algorithms build -/

/-- `quant::<Q>`: `get(Forall|Exists|Unique, &[f, vars])` -/
def quantKey (q : Quant) (f vars : Edge) : XKey := ⟨.quant q, [f, vars], []⟩
/-- `apply_quant::<Q, OP>`: `get(from_apply_quant(Q, OP), &[f, g, vars])` -/
def applyQuantKey (q : Quant) (op : Op) (f g vars : Edge) : XKey :=
  ⟨.applyQuant q op, [f, g, vars], []⟩
/-- `restrict`: `get(Restrict, &[f, vars])` -/
def restrictKey (f vars : Edge) : XKey := ⟨.restrict, [f, vars], []⟩
/-- `substitute`: `get_extended(Substitute, (&[f], &[cache_id]))` -/
def substKey (f : Edge) (id : Nat) : XKey := ⟨.substitute, [f], [id]⟩

theorem quantKey_wf (q : Quant) (f vars : Edge) : (quantKey q f vars).WF := trivial
theorem applyQuantKey_wf (q : Quant) (op : Op) (f g vars : Edge) : (applyQuantKey q op f g vars).WF :=
  trivial
theorem restrictKey_wf (f vars : Edge) : (restrictKey f vars).WF := trivial
theorem substKey_wf (f : Edge) (id : Nat) : (substKey f id).WF := trivial

end OxiddModel.Bdd.Refine
