import OxiddModel.Bdd.Lemmas

/-! Canonicity of reduced ordered BDDs: two normal-form trees with the same denotation are equal. -/
namespace OxiddModel.Bdd
open BDD

def upd (σ : Nat → Bool) (v : Nat) (b : Bool) : Nat → Bool := fun w => if w = v then b else σ w

theorem upd_ne (σ : Nat → Bool) {v w : Nat} (b : Bool) (h : w ≠ v) : upd σ v b w = σ w := by
  simp [upd, h]

theorem eval_node_upd_true {v : Nat} {t e : BDD} (ht : Ordered (v+1) t) (σ : Nat → Bool) :
    (BDD.node v t e).eval (upd σ v true) = t.eval σ := by
  simp only [eval, upd, if_true]
  exact eval_indep ht _ _ (fun w hw => upd_ne σ true (by omega))

theorem eval_node_upd_false {v : Nat} {t e : BDD} (he : Ordered (v+1) e) (σ : Nat → Bool) :
    (BDD.node v t e).eval (upd σ v false) = e.eval σ := by
  simp only [eval, upd, if_true]
  simp
  exact eval_indep he _ _ (fun w hw => upd_ne σ false (by omega))

/-- **Canonicity.** -/
theorem canon (a b : BDD) (n : Nat) (ha : Ordered n a) (hb : Ordered n b) (ra : Reduced a) (rb : Reduced b)
    (h : ∀ σ, a.eval σ = b.eval σ) : a = b := by
  match a, b with
  | .leaf x, .leaf y =>
    have := h (fun _ => false); simp [eval] at this; rw [this]
  | .leaf x, .node w t' e' =>
    exfalso
    cases hb with
    | node hw ht' he' =>
      have h1 : BDD.leaf x = t' := canon (.leaf x) t' (w+1) .leaf ht' trivial rb.2.1 (fun σ => by
        rw [← eval_node_upd_true (e := e') ht' σ, ← h]; rfl)
      have h2 : BDD.leaf x = e' := canon (.leaf x) e' (w+1) .leaf he' trivial rb.2.2 (fun σ => by
        rw [← eval_node_upd_false (t := t') he' σ, ← h]; rfl)
      exact rb.1 (h1 ▸ h2 ▸ rfl)
  | .node v t e, .leaf y =>
    exfalso
    cases ha with
    | node hv ht he =>
      have h1 : t = BDD.leaf y := canon t (.leaf y) (v+1) ht .leaf ra.2.1 trivial (fun σ => by
        rw [← eval_node_upd_true (e := e) ht σ, h]; rfl)
      have h2 : e = BDD.leaf y := canon e (.leaf y) (v+1) he .leaf ra.2.2 trivial (fun σ => by
        rw [← eval_node_upd_false (t := t) he σ, h]; rfl)
      exact ra.1 (h1 ▸ h2 ▸ rfl)
  | .node v t e, .node w t' e' =>
    cases ha with
    | node hv ht he =>
    cases hb with
    | node hw ht' he' =>
      rcases Nat.lt_trichotomy v w with hlt | heq | hgt
      · exfalso
        have hb' : Ordered (v+1) (.node w t' e') := .node (by omega) ht' he'
        have h1 : t = .node w t' e' := canon t _ (v+1) ht hb' ra.2.1 rb (fun σ => by
          rw [← eval_node_upd_true (e := e) ht σ, h]
          exact eval_indep hb' _ _ (fun u hu => by simp [upd]; omega))
        have h2 : e = .node w t' e' := canon e _ (v+1) he hb' ra.2.2 rb (fun σ => by
          rw [← eval_node_upd_false (t := t) he σ, h]
          exact eval_indep hb' _ _ (fun u hu => by simp [upd]; omega))
        exact ra.1 (h1 ▸ h2 ▸ rfl)
      · subst heq
        have h1 : t = t' := canon t t' (v+1) ht ht' ra.2.1 rb.2.1 (fun σ => by
          rw [← eval_node_upd_true (e := e) ht σ, h, eval_node_upd_true ht'])
        have h2 : e = e' := canon e e' (v+1) he he' ra.2.2 rb.2.2 (fun σ => by
          rw [← eval_node_upd_false (t := t) he σ, h, eval_node_upd_false he'])
        rw [h1, h2]
      · exfalso
        have ha' : Ordered (w+1) (.node v t e) := .node (by omega) ht he
        have h1 : .node v t e = t' := canon _ t' (w+1) ha' ht' ra rb.2.1 (fun σ => by
          rw [← eval_node_upd_true (e := e') ht' σ, ← h]
          exact eval_indep ha' _ _ (fun u hu => by simp [upd]; omega))
        have h2 : .node v t e = e' := canon _ e' (w+1) ha' he' ra rb.2.2 (fun σ => by
          rw [← eval_node_upd_false (t := t') he' σ, ← h]
          exact eval_indep ha' _ _ (fun u hu => by simp [upd]; omega))
        exact rb.1 (h1 ▸ h2 ▸ rfl)
termination_by a.size + b.size
decreasing_by all_goals simp_wf <;> simp [size] <;> omega

/-- handles are equal iff they denote the same function (tree level) -/
theorem nf_eq_iff (a b : BDD) (n : Nat) (ha : NF n a) (hb : NF n b) :
    a = b ↔ ∀ σ, a.eval σ = b.eval σ :=
  ⟨fun h _ => h ▸ rfl, canon a b n ha.1 hb.1 ha.2 hb.2⟩

/-- a normal-form diagram is ⊥ iff it is unsatisfiable, ⊤ iff it is valid -/
theorem nf_false_iff (a : BDD) (n : Nat) (ha : NF n a) : a = .leaf false ↔ ∀ σ, a.eval σ = false :=
  nf_eq_iff a (.leaf false) n ha ⟨.leaf, trivial⟩

theorem nf_true_iff (a : BDD) (n : Nat) (ha : NF n a) : a = .leaf true ↔ ∀ σ, a.eval σ = true :=
  nf_eq_iff a (.leaf true) n ha ⟨.leaf, trivial⟩

end OxiddModel.Bdd
