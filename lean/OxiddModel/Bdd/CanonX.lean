import OxiddModel.Bdd.KeysX

/-!
# Store-level canonicity of `quant` and `substitute` from *closed* caches

For `not`/`bin`/`ite`/`restrict` the store after an operation is `intern s T` for every sound cache
(`PostX.canon`). For `quant` and `substitute` this fails for arbitrary sound caches
(`quant_ids_depend_on_cache`): they create intermediate results (the quantified cofactors, the
substituted children) that are not part of the final diagram, and a cache hit skips their creation.

In the real manager a cache entry never outlives the nodes created while it was computed (dead
nodes are only removed by a gc, and a gc clears the apply cache). This is the notion of a
**closed** cache: `ClosedX reg s c` — for every `quant`/`substitute` entry of `c`, all
intermediate trees of its computation (`qInter`, `sInter`) are present in `s`. The empty cache is
closed, closedness is preserved by all operations proved here and by store extension, and from a
closed cache the final store and the result edge of `quant`/`substitute` are determined by the
operands alone:

  `(store', edge) = intern (internAll s (qInter q a v)) (quant q a v)`

(`quantS_canon`, `substituteS_canon`) — whatever the policy, the cache content, the time stamp and
the fuel. `apply_quant` entries are not covered (their intermediates are not tracked: `interX`
gives `[]`), and no canonicity statement is made for `applyQuantS`.
-/
namespace OxiddModel.Bdd.Refine
open OxiddModel.Bdd OxiddModel.Bdd.BDD

/-! ## interning a sequence of trees -/

/-- intern the trees of `l` one after the other -/
def internAll (s : Store) (l : List BDD) : Store := l.foldl (fun s t => (intern s t).1) s

theorem internAll_append (s : Store) (l l' : List BDD) :
    internAll s (l ++ l') = internAll (internAll s l) l' := by
  simp [internAll, List.foldl_append]

theorem internAll_snoc (s : Store) (l : List BDD) (t : BDD) :
    internAll s (l ++ [t]) = (intern (internAll s l) t).1 := by
  simp [internAll, List.foldl_append]

def PresentX (s : Store) (t : BDD) : Prop := ∃ x, Denotes s x t

theorem PresentX.mono {s s' : Store} {t : BDD} (h : PresentX s t) (hle : s.Le s') : PresentX s' t :=
  h.elim fun x hx => ⟨x, hx.mono hle⟩

/-- interning trees that are already present changes nothing -/
theorem internAll_present {s : Store} (hu : s.Unique) (hr : s.NoRed) {l : List BDD}
    (h : ∀ t, t ∈ l → PresentX s t) : internAll s l = s := by
  induction l with
  | nil => rfl
  | cons t l ih =>
    obtain ⟨x, hx⟩ := h t List.mem_cons_self
    have : internAll s (t :: l) = internAll (intern s t).1 l := rfl
    rw [this, intern_of_denotes hu hr hx]
    exact ih (fun t' ht' => h t' (List.mem_cons_of_mem _ ht'))

/-! ## postcondition with the trace of intermediate trees -/

/-- `PostW`, plus: store and result are obtained by interning the intermediate trees `I` in order
and then the result `T`; all intermediate trees are present afterwards -/
structure PostC (reg : Nat → List BDD) (s : Store) (I : List BDD) (T : BDD) (R : St × Edge) :
    Prop where
  w : PostW reg s T R
  canon : (R.1.store, R.2) = intern (internAll s I) T
  pres : ∀ t, t ∈ I → PresentX R.1.store t

theorem PostC.ofX {reg : Nat → List BDD} {s : Store} {T : BDD} {R : St × Edge} (hr : s.NoRed)
    (h : PostX reg s T R) : PostC reg s [] T R :=
  ⟨h.toW, h.canon hr, fun _ ht => by cases ht⟩

/-- a result that is served without touching the store (terminal case or cache hit), when all
intermediate trees are already present -/
theorem PostC.hit {reg : Nat → List BDD} {st st' : St} {I : List BDD} {T : BDD} {r : Edge}
    (hs : st'.store = st.store) (hinv : InvX reg st') (hr : st.store.NoRed)
    (hpres : ∀ t, t ∈ I → PresentX st.store t) (hd : Denotes st.store r T) :
    PostC reg st.store I T (st', r) := by
  have hinv' := hinv
  rw [InvX, hs] at hinv'
  refine ⟨⟨hinv, hs ▸ Store.Le.refl _, hs ▸ hd, fun h => hs ▸ h⟩, ?_, fun t ht => hs ▸ hpres t ht⟩
  rw [internAll_present hinv'.1 hr hpres, intern_of_denotes hinv'.1 hr hd, hs]

/-- two recursive results, then an operation that is canonical on its own (`apply_bin`,
`apply_ite`, `reduce`) -/
theorem PostC.thenX {reg : Nat → List BDD} {s : Store} {I1 I0 : List BDD} {T1 T0 T : BDD}
    {R1 R0 Rx : St × Edge} (hr : s.NoRed) (h1 : PostC reg s I1 T1 R1)
    (h0 : PostC reg R1.1.store I0 T0 R0) (hx : PostX reg R0.1.store T Rx) :
    PostC reg s (I1 ++ [T1] ++ (I0 ++ [T0])) T Rx := by
  have hr1 := h1.w.nored hr
  have hr0 := h0.w.nored hr1
  refine ⟨PostW.trans (h1.w.le.trans h0.w.le) (fun _ => hr0) hx.toW, ?_, ?_⟩
  · have e1 : R1.1.store = (intern (internAll s I1) T1).1 := congrArg Prod.fst h1.canon
    have e0 : R0.1.store = (intern (internAll R1.1.store I0) T0).1 := congrArg Prod.fst h0.canon
    rw [hx.canon hr0, internAll_append, internAll_snoc, internAll_snoc, ← e1, ← e0]
  · intro t ht
    simp only [List.mem_append, List.mem_singleton] at ht
    rcases ht with (ht | ht) | (ht | ht)
    · exact (h1.pres t ht).mono (h0.w.le.trans hx.le)
    · subst ht; exact ⟨_, h1.w.den.mono (h0.w.le.trans hx.le)⟩
    · exact (h0.pres t ht).mono hx.le
    · subst ht; exact ⟨_, h0.w.den.mono hx.le⟩

theorem PostC.add {p : Policy} (pok : p.OK) {reg : Nat → List BDD} {s : Store} {I : List BDD}
    {T : BDD} {R : St × Edge} (h : PostC reg s I T R) (key : Key) (hkey : KeyMeans reg s key T) :
    PostC reg s I T (addS p R.1 key R.2) :=
  ⟨addS_postW pok h.w key hkey, h.canon, h.pres⟩

/-- `reduce` + cache add, seen from the store before it -/
theorem finishS_postX' {p : Policy} (pok : p.OK) {reg : Nat → List BDD} {s : Store}
    {R1 R0 : St × Edge} {T1 T0 : BDD} (h1 : PostW reg s T1 R1) (h0 : PostW reg R1.1.store T0 R0)
    (key : Key) (l : Nat) (hkey : KeyMeans reg s key (mk l T1 T0)) :
    PostX reg R0.1.store (mk l T1 T0) (finishS p R0.1 key l R1.2 R0.2) :=
  finishS_postX pok (R1 := (R0.1, R1.2)) (R0 := (R0.1, R0.2))
    (PostX.done h0.inv (h1.den.mono h0.le)) (PostX.done h0.inv h0.den) key l
    (hkey.mono (h1.le.trans h0.le))

/-! ## closed caches -/

/-- the intermediate trees of `quant q f vars`: the two recursive results and their
intermediates -/
def qInter (q : Quant) : BDD → BDD → List BDD
  | .leaf _, _ => []
  | .node fl ft fe, vars =>
    match popVars q vars fl with
    | .leaf _ => []
    | .node vl vt ve =>
      if q = .unique ∧ vl < fl then [] else
      if fl = vl then
        qInter q ft vt ++ [quant q ft vt] ++ (qInter q fe vt ++ [quant q fe vt])
      else
        qInter q ft (.node vl vt ve) ++ [quant q ft (.node vl vt ve)] ++
          (qInter q fe (.node vl vt ve) ++ [quant q fe (.node vl vt ve)])

theorem qInter_popVars (q : Quant) (fl : Nat) (ft fe vars : BDD) :
    qInter q (.node fl ft fe) (popVars q vars fl) = qInter q (.node fl ft fe) vars := by
  simp only [qInter, popVars_idem]

/-- the intermediate trees of `substitute sv f` -/
def sInter (sv : List BDD) : BDD → List BDD
  | .leaf _ => []
  | .node l t e =>
    match sv[l]? with
    | none => []
    | some _ => sInter sv t ++ [substitute sv t] ++ (sInter sv e ++ [substitute sv e])

/-- the intermediate trees of the computation an entry stands for (`apply_quant`: not tracked) -/
def interX (reg : Nat → List BDD) : XOp → List BDD → List Nat → List BDD
  | .quant q, [a, v], [] => qInter q a v
  | .substitute, [a], [id] => sInter (reg id) a
  | _, _, _ => []

/-- all intermediate trees of the computation the key stands for are present -/
def ClosedEntry (reg : Nat → List BDD) (s : Store) (k : Key) : Prop :=
  ∀ xk ts, k = encKey xk → xk.WF → DenotesL s xk.operands ts →
    ∀ t, t ∈ interX reg xk.op ts xk.nums → PresentX s t

def ClosedX (reg : Nat → List BDD) (s : Store) (c : Cache) : Prop :=
  ∀ k r, (k, r) ∈ c → ClosedEntry reg s k

theorem ClosedX.nil (reg : Nat → List BDD) (s : Store) : ClosedX reg s [] :=
  fun _ _ h => by cases h

/-- closedness survives store extension (for a sound cache: the operands of its entries are edges
of the smaller store already) -/
theorem ClosedX.mono {reg : Nat → List BDD} {s s' : Store} {c : Cache} (h : ClosedX reg s c)
    (hc : CacheOKX reg s c) (hle : s.Le s') : ClosedX reg s' c := by
  intro k r hm xk ts hk hw hd t ht
  obtain ⟨xk0, ts0, T, hk0, hw0, hd0, _, _⟩ := hc k r hm
  have := encKey_inj hw hw0 (hk.symm.trans hk0)
  subst this
  have := DenotesL.functional hd (hd0.mono hle)
  subst this
  exact (h k r hm xk ts hk hw hd0 t ht).mono hle

theorem ClosedX.sub {reg : Nat → List BDD} {s : Store} {c c' : Cache} (h : ClosedX reg s c)
    (hs : ∀ x, x ∈ c' → x ∈ c) : ClosedX reg s c' := fun k r hm => h k r (hs _ hm)

theorem ClosedEntry.base {reg : Nat → List BDD} {s : Store} {k : Key} (hb : IsBaseKey k) :
    ClosedEntry reg s k := by
  intro xk ts hk hw _ t ht
  obtain ⟨op, es, ns⟩ := xk
  cases op with
  | base tag => simp [interX] at ht
  | substitute | restrict | quant _ | applyQuant _ _ =>
    exact absurd (hk ▸ hb) (not_isBaseKey_ext (fun t h => by cases h))

theorem ClosedEntry.restrict {reg : Nat → List BDD} {s : Store} (f vars : Edge) :
    ClosedEntry reg s (encKey (restrictKey f vars)) := by
  intro xk ts hk hw _ t ht
  have := encKey_inj (restrictKey_wf f vars) hw hk
  subst this
  simp [restrictKey, interX] at ht

theorem ClosedX.add {p : Policy} (pok : p.OK) {reg : Nat → List BDD} {s : Store} {c : Cache}
    (h : ClosedX reg s c) {key : Key} (hk : ClosedEntry reg s key) (t : Nat) (r : Edge) :
    ClosedX reg s (p.add t c key r) := by
  intro k' r' hm
  rcases pok.add_sub t c key r _ hm with h' | h'
  · exact h k' r' h'
  · cases h'; exact hk

/-- an operation that only adds base-key entries keeps the cache closed -/
theorem ClosedX.grows_base {reg : Nat → List BDD} {s s' : Store} {c c' : Cache}
    (h : ClosedX reg s c) (hc : CacheOKX reg s c) (hle : s.Le s') (hg : Grows IsBaseKey c c') :
    ClosedX reg s' c' := by
  intro k r hm
  rcases hg (k, r) hm with h' | h'
  · exact (h.mono hc hle) k r h'
  · exact ClosedEntry.base h'

theorem closedEntry_quant {reg : Nat → List BDD} {s : Store} {q : Quant} {f vars : Edge}
    {a v : BDD} (hf : Denotes s f a) (hv : Denotes s vars v)
    (hp : ∀ t, t ∈ qInter q a v → PresentX s t) :
    ClosedEntry reg s (encKey (quantKey q f vars)) := by
  intro xk ts hk hw hd t ht
  have := encKey_inj (quantKey_wf q f vars) hw hk
  subst this
  have := DenotesL.functional hd (DenotesL.two hf hv)
  subst this
  exact hp t ht

theorem closedEntry_subst {reg : Nat → List BDD} {s : Store} {f : Edge} {id : Nat} {a : BDD}
    (hf : Denotes s f a) (hp : ∀ t, t ∈ sInter (reg id) a → PresentX s t) :
    ClosedEntry reg s (encKey (substKey f id)) := by
  intro xk ts hk hw hd t ht
  have := encKey_inj (substKey_wf f id) hw hk
  subst this
  have := DenotesL.functional hd (DenotesL.one hf)
  subst this
  exact hp t ht

/-- what a closed cache says at a hit of a quantification key -/
theorem ClosedX.quant_hit {reg : Nat → List BDD} {s : Store} {c : Cache} (h : ClosedX reg s c)
    {q : Quant} {f vars r : Edge} {a v : BDD} (hm : (encKey (quantKey q f vars), r) ∈ c)
    (hf : Denotes s f a) (hv : Denotes s vars v) : ∀ t, t ∈ qInter q a v → PresentX s t :=
  h _ r hm (quantKey q f vars) [a, v] rfl (quantKey_wf q f vars) (DenotesL.two hf hv)

theorem ClosedX.subst_hit {reg : Nat → List BDD} {s : Store} {c : Cache} (h : ClosedX reg s c)
    {f r : Edge} {id : Nat} {a : BDD} (hm : (encKey (substKey f id), r) ∈ c)
    (hf : Denotes s f a) : ∀ t, t ∈ sInter (reg id) a → PresentX s t :=
  h _ r hm (substKey f id) [a] rfl (substKey_wf f id) (DenotesL.one hf)

/-! ## `quant` from a closed cache -/

theorem quantS_canon {p : Policy} (pok : p.OK) (reg : Nat → List BDD) (q : Quant) (af : Nat)
    (fuel : Nat) : ∀ (st : St) (f vars : Edge) (a v : BDD),
    InvX reg st → ClosedX reg st.store st.cache → st.store.NoRed →
    Denotes st.store f a → Denotes st.store vars v → a.size ≤ fuel → quantNeed q a v ≤ af →
    PostC reg st.store (qInter q a v) (quant q a v) (quantS p q af fuel st f vars) ∧
    ClosedX reg (quantS p q af fuel st f vars).1.store (quantS p q af fuel st f vars).1.cache := by
  induction fuel with
  | zero =>
    intro st f vars a v _ _ _ _ _ hsz _
    have := size_pos a
    omega
  | succ fuel ih =>
    intro st f vars a v hinv hcl hr hf hv hsz hneed
    have nopres : ∀ t, t ∈ ([] : List BDD) → PresentX st.store t := fun _ h => by cases h
    cases hf with
    | @term x =>
      simp only [quantS, quant_leaf, isTerm_denotes hv, qInter]
      split
      · exact ⟨PostC.hit rfl hinv hr nopres .term, hcl⟩
      · exact ⟨PostC.hit rfl hinv hr nopres .term, hcl⟩
    | @inner i l t e tt te hi hft hfe =>
      have hdf : Denotes st.store (.inner i) (.node l tt te) := .inner hi hft hfe
      simp only [BDD.size] at hsz
      simp only [quantNeed] at hneed
      have hpop : Denotes st.store
          (if q ≠ .unique then st.store.setPopS af vars l else vars) (popVars q v l) := by
        unfold popVars
        split
        · exact setPopS_denotes l af hv (by omega)
        · exact hv
      rw [← quant_popVars, quant_node', popVars_idem, ← qInter_popVars]
      simp only [quantS, hi]
      generalize (if q ≠ .unique then st.store.setPopS af vars l else vars) = vars' at hpop ⊢
      have hqi : qInter q (.node l tt te) (popVars q v l) =
          (match popVars q v l with
            | .leaf _ => []
            | .node vl vt ve =>
              if q = .unique ∧ vl < l then [] else
              if l = vl then
                qInter q tt vt ++ [quant q tt vt] ++ (qInter q te vt ++ [quant q te vt])
              else
                qInter q tt (.node vl vt ve) ++ [quant q tt (.node vl vt ve)] ++
                  (qInter q te (.node vl vt ve) ++ [quant q te (.node vl vt ve)])) := by
        simp only [qInter, popVars_idem]
      rw [hqi]
      have hqi' : ∀ w, popVars q w l = popVars q v l →
          qInter q (.node l tt te) w = qInter q (.node l tt te) (popVars q v l) := by
        intro w hw
        rw [← qInter_popVars q l tt te w, hw]
      generalize hv' : popVars q v l = v' at hpop hneed hqi hqi'
      cases hpop with
      | @term y => exact ⟨PostC.hit rfl hinv hr nopres hdf, hcl⟩
      | @inner j vl vt ve vtt vte hj hvt hve =>
        have hdv : Denotes st.store (.inner j) (.node vl vtt vte) := .inner hj hvt hve
        simp only [hj, quantStep]
        by_cases hu : q = .unique ∧ vl < l
        · simp only [hu, and_self, if_true]
          exact ⟨PostC.hit rfl hinv hr nopres .term, hcl⟩
        · simp only [hu, if_false] at hneed hqi ⊢
          have hpv : popVars q (.node vl vtt vte) l = .node vl vtt vte := by
            rw [← hv', popVars_idem]
          have hkey : KeyMeans reg st.store (encKey (quantKey q (.inner i) (.inner j)))
              (quantStep q l tt te (.node vl vtt vte)) := by
            have := quantKey_means (reg := reg) (q := q) hdf hdv
            rw [quant_node', hpv] at this
            exact this
          simp only [quantStep, hu, if_false] at hkey
          cases hget : p.get st.tick st.cache (encKey (quantKey q (.inner i) (.inner j))) with
          | some r =>
            have hmem := pok.get_mem _ _ _ _ hget
            have hent := hinv.2 _ _ hmem
            have hd := hent.hit (quantKey_wf q _ _) (DenotesL.two hdf hdv) rfl
            rw [quant_node', hpv] at hd
            simp only [quantStep, hu, if_false] at hd
            have hp := hcl.quant_hit hmem hdf hdv
            rw [hqi' _ hpv, hqi] at hp
            exact ⟨PostC.hit (st' := st.tickd) rfl hinv.tickd hr hp hd, hcl⟩
          | none =>
            simp only
            by_cases hlv : l = vl
            · subst hlv
              simp only [if_true] at hneed hkey hqi ⊢
              obtain ⟨p1, c1⟩ := ih st.tickd t vt tt vtt hinv.tickd hcl hr hft hvt (by omega)
                (by omega)
              have hr1 := p1.w.nored hr
              obtain ⟨p0, c0⟩ := ih _ e vt te vtt p1.w.inv c1 hr1 (hfe.mono p1.w.le)
                (hvt.mono p1.w.le) (by omega) (by omega)
              have px := applyS_specX pok reg q.op af _ _ _ _ _ p0.w.inv (p1.w.den.mono p0.w.le)
                p0.w.den (by omega)
              have pc := PostC.thenX hr p1 p0 px
              have pa := pc.add pok _ hkey
              refine ⟨pa, ?_⟩
              refine ClosedX.add pok
                (c0.grows_base p0.w.inv.2 px.le (applyS_grows pok q.op af _ _ _)) ?_ _ _
              refine closedEntry_quant (hdf.mono pc.w.le) (hdv.mono pc.w.le) ?_
              rw [hqi' _ hpv, hqi]
              exact pc.pres
            · have hvl : ¬ vl = l := fun h => hlv h.symm
              simp only [hlv, hvl, if_false] at hneed hkey hqi ⊢
              obtain ⟨p1, c1⟩ := ih st.tickd t (.inner j) tt _ hinv.tickd hcl hr hft hdv (by omega)
                (by omega)
              have hr1 := p1.w.nored hr
              obtain ⟨p0, c0⟩ := ih _ e (.inner j) te _ p1.w.inv c1 hr1 (hfe.mono p1.w.le)
                (hdv.mono p1.w.le) (by omega) (by omega)
              have px := finishS_postX' pok p1.w p0.w _ l hkey
              have pc := PostC.thenX hr p1 p0 px
              refine ⟨pc, ?_⟩
              refine ClosedX.add pok (c0.mono p0.w.inv.2 (mkNode_le _ l _ _)) ?_ _ _
              refine closedEntry_quant (hdf.mono pc.w.le) (hdv.mono pc.w.le) ?_
              rw [hqi' _ hpv, hqi]
              exact pc.pres

/-! ## `substitute` from a closed cache -/

theorem substituteS_canon {p : Policy} (pok : p.OK) (reg : Nat → List BDD) (subst : List Edge)
    (id : Nat) (af : Nat) (fuel : Nat) : ∀ (st : St) (f : Edge) (a : BDD),
    InvX reg st → ClosedX reg st.store st.cache → st.store.NoRed →
    DenotesL st.store subst (reg id) → Denotes st.store f a → a.size ≤ fuel →
    substNeed (reg id) a ≤ af →
    PostC reg st.store (sInter (reg id) a) (substitute (reg id) a)
      (substituteS p subst id af fuel st f) ∧
    ClosedX reg (substituteS p subst id af fuel st f).1.store
      (substituteS p subst id af fuel st f).1.cache := by
  induction fuel with
  | zero => intro st f a _ _ _ _ _ hsz _; have := size_pos a; omega
  | succ fuel ih =>
    intro st f a hinv hcl hr hsub hf hsz hneed
    have nopres : ∀ t, t ∈ ([] : List BDD) → PresentX st.store t := fun _ h => by cases h
    cases hf with
    | @term x => exact ⟨PostC.hit rfl hinv hr nopres .term, hcl⟩
    | @inner i l t e tt te hi hft hfe =>
      have hdf : Denotes st.store (.inner i) (.node l tt te) := .inner hi hft hfe
      simp only [BDD.size] at hsz
      simp only [substituteS, hi]
      rcases hsub.getElem? l with ⟨h1, h2⟩ | ⟨rep, rt, h1, h2, hrep⟩
      · simp only [h1, sInter, h2]
        rw [substitute_node_none _ _ h2]
        exact ⟨PostC.hit rfl hinv hr nopres hdf, hcl⟩
      · simp only [h1, sInter, h2]
        simp only [substNeed, h2] at hneed
        have hkey := substKey_means (reg := reg) id hdf
        have hsi : sInter (reg id) (.node l tt te) =
            sInter (reg id) tt ++ [substitute (reg id) tt] ++
              (sInter (reg id) te ++ [substitute (reg id) te]) := by
          simp only [sInter, h2]
        rw [substitute_node_some _ _ h2] at hkey ⊢
        cases hget : p.get st.tick st.cache (encKey (substKey (.inner i) id)) with
        | some r =>
          have hmem := pok.get_mem _ _ _ _ hget
          have hent := hinv.2 _ _ hmem
          have hd := hent.hit (substKey_wf _ id) (DenotesL.one hdf) rfl
          rw [substitute_node_some _ _ h2] at hd
          have hp := hcl.subst_hit hmem hdf
          rw [hsi] at hp
          exact ⟨PostC.hit (st' := st.tickd) rfl hinv.tickd hr hp hd, hcl⟩
        | none =>
          simp only
          obtain ⟨p1, c1⟩ := ih st.tickd t tt hinv.tickd hcl hr hsub hft (by omega) (by omega)
          have hr1 := p1.w.nored hr
          obtain ⟨p0, c0⟩ := ih _ e te p1.w.inv c1 hr1 (hsub.mono p1.w.le) (hfe.mono p1.w.le)
            (by omega) (by omega)
          have px := iteS_specX pok reg af _ _ _ _ _ _ _ p0.w.inv
            (hrep.mono (p1.w.le.trans p0.w.le)) (p1.w.den.mono p0.w.le) p0.w.den (by omega)
          have pc := PostC.thenX hr p1 p0 px
          have pa := pc.add pok _ hkey
          refine ⟨pa, ?_⟩
          refine ClosedX.add pok
            (c0.grows_base p0.w.inv.2 px.le (iteS_grows pok af _ _ _ _)) ?_ _ _
          refine closedEntry_subst (hdf.mono pc.w.le) ?_
          rw [hsi]
          exact pc.pres

end OxiddModel.Bdd.Refine
