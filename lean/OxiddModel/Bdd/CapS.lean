import OxiddModel.Bdd.Guarantee

/-!
# Node capacity: out-of-memory as an error (store level)

`Store.mkNodeC cap` is `Store.mkNode` with a node capacity: when a *fresh* slot is needed and the
number of stored nodes is already `cap`, it returns `none` (`Err(OutOfMemory)`) and leaves the
store unchanged. This mirrors `add_node` of `crates/oxidd-manager-index/src/manager.rs` (on
failure the rejected node is dropped, i.e. its children are released; reference counts are derived
in this model, so "released" = "nothing changed"). Reductions (`t = e`) and unique-table hits
succeed on a full store.

`notC/applyC/iteC cap` are `notS/applyS/iteS` with `mkNodeC` and immediate error propagation
(the Rust `?`); nodes and cache entries created before the failure stay (garbage / still sound).

The relation between the capped and the uncapped runs is captured by two structural facts proved
for all three algorithms (no semantic hypotheses needed):

* `Sound`: whatever the capped run returns, the store is extended, hash consing is kept, the count
  stays `≤ cap`; on success the capped run **is** the uncapped run (same edge, store, cache, time
  stamp) and the run `Fits`; on error the store is full.
* `Complete`: if the uncapped run `Fits cap` (final count `≤ cap`, or no node allocated at all) the
  capped run succeeds.

and one semantic fact (`…_inv`): the cache stays sound (`CacheOK`) also when the run fails midway.
-/
namespace OxiddModel.Bdd.Refine
open OxiddModel.Bdd OxiddModel.Bdd.BDD

/-! ## counting nodes -/

/-- number of stored nodes (`num_inner_nodes`) -/
def Store.count (s : Store) : Nat := s.nodes.countP Option.isSome

theorem count_alloc (s : Store) (n : Node) : (s.alloc n).1.count = s.count + 1 := by
  unfold Store.alloc
  split
  · rename_i i hi
    obtain ⟨hlt, heq⟩ := Array.findIdx?_eq_some_iff_findIdx_eq.mp hi
    have hnone := Array.findIdx_getElem (xs := s.nodes) (p := (· == none)) (w := by rw [heq]; exact hlt)
    simp only [heq] at hnone
    have hn : s.nodes[i] = none := beq_iff_eq.mp hnone
    simp only [Store.count, Array.set!_eq_setIfInBounds, Array.setIfInBounds_def, hlt, dite_true]
    rw [Array.countP_set]
    simp [hn]
  · simp [Store.count]

theorem count_mkNode (s : Store) (l : Nat) (t e : Edge) :
    (s.mkNode l t e).1.count = s.count ∨
    ((s.mkNode l t e).1.count = s.count + 1 ∧ t ≠ e ∧ s.find? ⟨l, t, e⟩ = none) := by
  unfold Store.mkNode
  split
  · exact .inl rfl
  · rename_i hte
    split
    · exact .inl rfl
    · rename_i hnone
      exact .inr ⟨count_alloc _ _, hte, hnone⟩

theorem count_mkNode_ge (s : Store) (l : Nat) (t e : Edge) : s.count ≤ (s.mkNode l t e).1.count := by
  rcases count_mkNode s l t e with h | h <;> omega

/-- a collection never increases the number of nodes -/
theorem sweep_count_le (s : Store) (roots : List Edge) : (s.sweep roots).count ≤ s.count := by
  have key : ∀ (l : List (Option Node)) (f : Nat → Option Node → Option Node),
      (∀ i o, (f i o).isSome = true → o.isSome = true) →
      (l.mapIdx f).countP Option.isSome ≤ l.countP Option.isSome := by
    intro l
    induction l with
    | nil => intro f _; simp
    | cons x xs ih =>
      intro f hf
      rw [List.mapIdx_cons, List.countP_cons, List.countP_cons]
      have h1 := ih (fun i => f (i + 1)) (fun i o => hf (i + 1) o)
      have h2 := hf 0 x
      cases hx : (f 0 x).isSome <;> cases hy : x.isSome <;> simp_all <;> omega
  simp only [Store.count, Store.sweep, ← Array.countP_toList, Array.toList_mapIdx]
  apply key
  intro i o h
  split at h
  · exact h
  · cases h

theorem sweep_nored {s : Store} (roots : List Edge) (hr : s.NoRed) : (s.sweep roots).NoRed := by
  intro i n hi
  rw [get?_sweep] at hi
  split at hi
  · exact hr i n hi
  · cases hi

/-! ## `reduce` with a capacity -/

/-- `reduce` when `add_node` may fail: `none` = `Err(OutOfMemory)`, store unchanged -/
def Store.mkNodeC (cap : Nat) (s : Store) (level : Nat) (t e : Edge) : Option (Store × Edge) :=
  if t = e then some (s, t) else
  match s.find? ⟨level, t, e⟩ with
  | some i => some (s, .inner i)
  | none =>
    if s.count < cap then
      let r := s.alloc ⟨level, t, e⟩
      some (r.1, .inner r.2)
    else none

/-- the run from `s` to `s'` fits into capacity `cap`: the final count is within the capacity, or
nothing was allocated at all -/
def Fits (cap : Nat) (s s' : Store) : Prop := s'.count ≤ cap ∨ s'.count = s.count

theorem Fits.trans {cap : Nat} {a b c : Store} (h1 : Fits cap a b) (h2 : Fits cap b c) :
    Fits cap a c := by
  unfold Fits at *; omega

theorem Fits.split {cap : Nat} {a b c : Store} (h : Fits cap a c) (h1 : a.count ≤ b.count)
    (h2 : b.count ≤ c.count) : Fits cap a b ∧ Fits cap b c := by
  unfold Fits at *; omega

theorem Fits.refl (cap : Nat) (s : Store) : Fits cap s s := .inr rfl

theorem Fits.mono {c c' : Nat} {a b : Store} (h : Fits c a b) (hc : c ≤ c') : Fits c' a b := by
  unfold Fits at *; omega

theorem mkNodeC_some {cap : Nat} {s : Store} {l : Nat} {t e : Edge} {m : Store × Edge}
    (h : s.mkNodeC cap l t e = some m) : m = s.mkNode l t e ∧ Fits cap s m.1 := by
  by_cases hte : t = e
  · simp only [Store.mkNodeC, hte, if_true, Option.some.injEq] at h
    subst h
    simp [Store.mkNode, hte, Fits]
  · cases hf : s.find? ⟨l, t, e⟩ with
    | some i =>
      simp only [Store.mkNodeC, hte, if_false, hf, Option.some.injEq] at h
      subst h
      simp [Store.mkNode, hte, hf, Fits]
    | none =>
      simp only [Store.mkNodeC, hte, if_false, hf] at h
      split at h
      · simp only [Option.some.injEq] at h
        subst h
        refine ⟨by simp [Store.mkNode, hte, hf], .inl ?_⟩
        show (s.alloc _).1.count ≤ cap
        rw [count_alloc]; omega
      · cases h

theorem mkNodeC_none {cap : Nat} {s : Store} {l : Nat} {t e : Edge}
    (h : s.mkNodeC cap l t e = none) : cap ≤ s.count := by
  unfold Store.mkNodeC at h
  split at h
  · cases h
  · split at h
    · cases h
    · split at h
      · cases h
      · omega

theorem mkNodeC_of_fits {cap : Nat} {s : Store} {l : Nat} {t e : Edge}
    (h : Fits cap s (s.mkNode l t e).1) : s.mkNodeC cap l t e = some (s.mkNode l t e) := by
  by_cases hte : t = e
  · simp [Store.mkNodeC, Store.mkNode, hte]
  · cases hf : s.find? ⟨l, t, e⟩ with
    | some i => simp [Store.mkNodeC, Store.mkNode, hte, hf]
    | none =>
      have hc : (s.mkNode l t e).1.count = s.count + 1 := by
        simp only [Store.mkNode, hte, if_false, hf]
        exact count_alloc _ _
      have hlt : s.count < cap := by unfold Fits at h; omega
      simp [Store.mkNodeC, Store.mkNode, hte, hf, hlt]

/-! ## the algorithms with a capacity; results are (`none` = OutOfMemory, state) -/

/-- `reduce(..)?` + cache add -/
def finishC (cap : Nat) (p : Policy) (st : St) (key : Key) (l : Nat) (e1 e0 : Edge) :
    Option Edge × St :=
  match st.store.mkNodeC cap l e1 e0 with
  | none => (none, st)
  | some m => (some m.2, ⟨m.1, p.add st.tick st.cache key m.2, st.tick + 1⟩)

/-- `let (t, e) = rec.binary(..)?; reduce(..)?; cache.add(..)` with the sequential recursor:
the then-call, on success the else-call, on success `finishC`; an error is returned at once -/
def forkC (cap : Nat) (p : Policy) (key : Key) (l : Nat) (c1 c0 : St → Option Edge × St) (st : St) :
    Option Edge × St :=
  match c1 st with
  | (none, st1) => (none, st1)
  | (some r1, st1) =>
    match c0 st1 with
    | (none, st0) => (none, st0)
    | (some r0, st0) => finishC cap p st0 key l r1 r0

/-- the uncapped counterpart (this is what `notS/applyS/iteS` do in their recursive case) -/
def forkS (p : Policy) (key : Key) (l : Nat) (c1 c0 : St → St × Edge) (st : St) : St × Edge :=
  let r1 := c1 st
  let r0 := c0 r1.1
  finishS p r0.1 key l r1.2 r0.2

/-- `apply_not` with a node capacity -/
def notC (cap : Nat) (p : Policy) : Nat → St → Edge → Option Edge × St
  | 0, st, f => (some f, st)
  | fuel+1, st, f =>
    match f with
    | .term b => (some (.term (!b)), st)
    | .inner i =>
      match p.get st.tick st.cache (.not, [f]) with
      | some h => (some h, st.tickd)
      | none =>
        match st.store.get? i with
        | none => (some f, st.tickd)
        | some n =>
          forkC cap p (.not, [f]) n.level (fun s => notC cap p fuel s n.t)
            (fun s => notC cap p fuel s n.e) st.tickd

/-- `apply_bin::<OP>` with a node capacity -/
def applyC (cap : Nat) (p : Policy) (op : Op) : Nat → St → Edge → Edge → Option Edge × St
  | 0, st, f, _ => (some f, st)
  | fuel+1, st, f, g =>
    match terminalBinS op f g with
    | .done h => (some h, st)
    | .notOf h => notC cap p fuel st h
    | .binary tag o1 o2 =>
      match p.get st.tick st.cache (tag, [o1, o2]) with
      | some h => (some h, st.tickd)
      | none =>
        match st.store.level? f, st.store.level? g with
        | some lf, some lg =>
          let l := min lf lg
          forkC cap p (tag, [o1, o2]) l
            (fun s => applyC cap p op fuel s (st.store.cofT l f) (st.store.cofT l g))
            (fun s => applyC cap p op fuel s (st.store.cofE l f) (st.store.cofE l g)) st.tickd
        | _, _ => (some f, st.tickd)

/-- `apply_ite` with a node capacity -/
def iteC (cap : Nat) (p : Policy) : Nat → St → Edge → Edge → Edge → Option Edge × St
  | 0, st, f, _, _ => (some f, st)
  | fuel+1, st, f, g, h =>
    if g = h then (some g, st) else
    if f = g then applyC cap p .or fuel st f h else
    if f = h then applyC cap p .and fuel st f g else
    match f with
    | .term b => (some (if b then g else h), st)
    | .inner _ =>
      match g, h with
      | .term true, .inner _ => applyC cap p .or fuel st f h
      | .term false, .inner _ => applyC cap p .impStrict fuel st f h
      | .inner _, .term true => applyC cap p .imp fuel st f g
      | .inner _, .term false => applyC cap p .and fuel st f g
      | .term gb, .term _ => if gb then (some f, st) else notC cap p fuel st f
      | .inner _, .inner _ =>
        match p.get st.tick st.cache (.ite, [f, g, h]) with
        | some r => (some r, st.tickd)
        | none =>
          match st.store.level? f, st.store.level? g, st.store.level? h with
          | some lf, some lg, some lh =>
            let l := min (min lf lg) lh
            forkC cap p (.ite, [f, g, h]) l
              (fun s => iteC cap p fuel s (st.store.cofT l f) (st.store.cofT l g) (st.store.cofT l h))
              (fun s => iteC cap p fuel s (st.store.cofE l f) (st.store.cofE l g) (st.store.cofE l h))
              st.tickd
          | _, _, _ => (some f, st.tickd)

/-! ## structural relation between capped and uncapped runs -/

/-- what the capped run `RC` from store `s` guarantees, relative to the uncapped run `RS` -/
structure Sound (cap : Nat) (s : Store) (RC : Option Edge × St) (RS : St × Edge) : Prop where
  le : s.Le RC.2.store
  uniq : s.Unique → RC.2.store.Unique
  mono : s.count ≤ RC.2.store.count
  bound : s.count ≤ cap → RC.2.store.count ≤ cap
  /-- success: the capped run *is* the uncapped run, and it fits -/
  ok : ∀ e, RC.1 = some e → RS = (RC.2, e) ∧ Fits cap s RC.2.store
  /-- error: the store is full -/
  err : RC.1 = none → cap ≤ RC.2.store.count

/-- the capped run succeeds whenever the uncapped run fits -/
structure Complete (cap : Nat) (s : Store) (RC : Option Edge × St) (RS : St × Edge) : Prop where
  mono : s.count ≤ RS.1.store.count
  fits : Fits cap s RS.1.store → RC = (some RS.2, RS.1)

theorem Sound.pure (cap : Nat) {s : Store} {st' : St} (e : Edge) (hs : st'.store = s) :
    Sound cap s (some e, st') (st', e) where
  le := hs ▸ Store.Le.refl _
  uniq h := hs ▸ h
  mono := by rw [hs]; exact Nat.le_refl _
  bound h := by rw [hs]; exact h
  ok e' h := by cases h; exact ⟨rfl, hs ▸ Fits.refl _ _⟩
  err h := by cases h

theorem Complete.pure (cap : Nat) {s : Store} {st' : St} (e : Edge) (hs : st'.store = s) :
    Complete cap s (some e, st') (st', e) where
  mono := by rw [hs]; exact Nat.le_refl _
  fits _ := rfl

theorem finishC_sound (cap : Nat) (p : Policy) (st : St) (key : Key) (l : Nat) (e1 e0 : Edge) :
    Sound cap st.store (finishC cap p st key l e1 e0) (finishS p st key l e1 e0) := by
  unfold finishC
  cases h : st.store.mkNodeC cap l e1 e0 with
  | none =>
    exact ⟨Store.Le.refl _, id, Nat.le_refl _, id, (fun e he => by cases he), fun _ => mkNodeC_none h⟩
  | some m =>
    obtain ⟨hm, hf⟩ := mkNodeC_some h
    subst hm
    refine ⟨mkNode_le _ _ _ _, mkNode_unique _ _ _ _, count_mkNode_ge _ _ _ _, ?_, ?_, ?_⟩
    · intro hb; unfold Fits at hf; show (st.store.mkNode l e1 e0).1.count ≤ cap; omega
    · intro e he; cases he; exact ⟨rfl, hf⟩
    · intro he; cases he

theorem finishC_complete (cap : Nat) (p : Policy) (st : St) (key : Key) (l : Nat) (e1 e0 : Edge) :
    Complete cap st.store (finishC cap p st key l e1 e0) (finishS p st key l e1 e0) where
  mono := count_mkNode_ge _ _ _ _
  fits h := by
    have : Fits cap st.store (st.store.mkNode l e1 e0).1 := h
    unfold finishC
    rw [mkNodeC_of_fits this]
    rfl

theorem forkC_sound {cap : Nat} {p : Policy} {key : Key} {l : Nat}
    {c1C c0C : St → Option Edge × St} {c1S c0S : St → St × Edge} {st : St}
    (h1 : Sound cap st.store (c1C st) (c1S st)) (h0 : ∀ st1, Sound cap st1.store (c0C st1) (c0S st1)) :
    Sound cap st.store (forkC cap p key l c1C c0C st) (forkS p key l c1S c0S st) := by
  unfold forkC forkS
  cases hc1 : c1C st with
  | mk o1 st1 =>
    rw [hc1] at h1
    cases o1 with
    | none => exact ⟨h1.le, h1.uniq, h1.mono, h1.bound, (fun e he => by cases he), h1.err⟩
    | some r1 =>
      obtain ⟨e1, f1⟩ := h1.ok r1 rfl
      have h0' := h0 st1
      simp only [e1]
      cases hc0 : c0C st1 with
      | mk o0 st0 =>
        rw [hc0] at h0'
        cases o0 with
        | none =>
          exact ⟨h1.le.trans h0'.le, fun u => h0'.uniq (h1.uniq u), Nat.le_trans h1.mono h0'.mono,
            fun b => h0'.bound (h1.bound b), (fun e he => by cases he), h0'.err⟩
        | some r0 =>
          obtain ⟨e0, f0⟩ := h0'.ok r0 rfl
          simp only [e0]
          have hf := finishC_sound cap p st0 key l r1 r0
          exact ⟨h1.le.trans (h0'.le.trans hf.le), fun u => hf.uniq (h0'.uniq (h1.uniq u)),
            Nat.le_trans h1.mono (Nat.le_trans h0'.mono hf.mono),
            fun b => hf.bound (h0'.bound (h1.bound b)),
            fun e he => ⟨(hf.ok e he).1, f1.trans (f0.trans (hf.ok e he).2)⟩, hf.err⟩

theorem forkC_complete {cap : Nat} {p : Policy} {key : Key} {l : Nat}
    {c1C c0C : St → Option Edge × St} {c1S c0S : St → St × Edge} {st : St}
    (h1 : Complete cap st.store (c1C st) (c1S st)) (h0 : ∀ st1, Complete cap st1.store (c0C st1) (c0S st1)) :
    Complete cap st.store (forkC cap p key l c1C c0C st) (forkS p key l c1S c0S st) := by
  have h0' := h0 (c1S st).1
  have hf := finishC_complete cap p (c0S (c1S st).1).1 key l (c1S st).2 (c0S (c1S st).1).2
  refine ⟨Nat.le_trans h1.mono (Nat.le_trans h0'.mono hf.mono), fun hfit => ?_⟩
  have hfit' : Fits cap st.store (finishS p (c0S (c1S st).1).1 key l (c1S st).2 (c0S (c1S st).1).2).1.store :=
    hfit
  obtain ⟨fa, fbc⟩ := hfit'.split h1.mono (Nat.le_trans h0'.mono hf.mono)
  obtain ⟨fb, fc⟩ := fbc.split h0'.mono hf.mono
  unfold forkC forkS
  rw [h1.fits fa]
  simp only
  rw [h0'.fits fb]
  simp only
  exact hf.fits fc

/-- the invariant survives a failing fork -/
theorem forkC_inv {cap : Nat} {p : Policy} {key : Key} {l : Nat} {c1 c0 : St → Option Edge × St}
    {st : St} (h1 : Inv (c1 st).2) (h0 : ∀ e st1, c1 st = (some e, st1) → Inv (c0 st1).2)
    (hs : ∀ e st', forkC cap p key l c1 c0 st = (some e, st') → Inv st') :
    Inv (forkC cap p key l c1 c0 st).2 := by
  cases hR : forkC cap p key l c1 c0 st with
  | mk o st' =>
    cases o with
    | some e => exact hs e st' hR
    | none =>
      unfold forkC at hR
      cases hc1 : c1 st with
      | mk o1 st1 =>
        rw [hc1] at hR h1
        cases o1 with
        | none => cases hR; exact h1
        | some r1 =>
          have h0' := h0 r1 st1 hc1
          simp only at hR
          cases hc0 : c0 st1 with
          | mk o0 st0 =>
            rw [hc0] at hR h0'
            cases o0 with
            | none => cases hR; exact h0'
            | some r0 =>
              simp only [finishC] at hR
              cases hm : st0.store.mkNodeC cap l r1 r0 with
              | none => rw [hm] at hR; cases hR; exact h0'
              | some m => rw [hm] at hR; cases hR

/-! ## the three algorithms: capped vs. uncapped -/

/-- `Sound ∧ Complete` -/
def Both (cap : Nat) (st : Store) (RC : Option Edge × St) (RS : St × Edge) : Prop :=
  Sound cap st RC RS ∧ Complete cap st RC RS

theorem Both.pure (cap : Nat) {st : Store} {st' : St} (e : Edge) (hs : st'.store = st) :
    Both cap st (some e, st') (st', e) := ⟨Sound.pure cap e hs, Complete.pure cap e hs⟩

theorem forkC_both {cap : Nat} {p : Policy} {key : Key} {l : Nat}
    {c1C c0C : St → Option Edge × St} {c1S c0S : St → St × Edge} {st : St}
    (h1 : Both cap st.store (c1C st) (c1S st)) (h0 : ∀ st1, Both cap st1.store (c0C st1) (c0S st1)) :
    Both cap st.store (forkC cap p key l c1C c0C st) (forkS p key l c1S c0S st) :=
  ⟨forkC_sound h1.1 (fun s => (h0 s).1), forkC_complete h1.2 (fun s => (h0 s).2)⟩

theorem notC_both (cap : Nat) (p : Policy) (fuel : Nat) : ∀ (st : St) (f : Edge),
    Both cap st.store (notC cap p fuel st f) (notS p fuel st f) := by
  induction fuel with
  | zero => intro st f; exact Both.pure cap f rfl
  | succ fuel ih =>
    intro st f
    cases f with
    | term b => exact Both.pure cap _ rfl
    | inner i =>
      cases hget : p.get st.tick st.cache (.not, [.inner i]) with
      | some h => simp only [notC, notS, hget]; exact Both.pure cap _ rfl
      | none =>
        cases hi : st.store.get? i with
        | none => simp only [notC, notS, hget, hi]; exact Both.pure cap _ rfl
        | some n =>
          simp only [notC, notS, hget, hi]
          exact forkC_both (c1C := fun s => notC cap p fuel s n.t) (c0C := fun s => notC cap p fuel s n.e)
            (c1S := fun s => notS p fuel s n.t) (c0S := fun s => notS p fuel s n.e)
            (st := st.tickd) (ih _ _) (fun st1 => ih st1 _)

theorem applyC_both (cap : Nat) (p : Policy) (op : Op) (fuel : Nat) : ∀ (st : St) (f g : Edge),
    Both cap st.store (applyC cap p op fuel st f g) (applyS p op fuel st f g) := by
  induction fuel with
  | zero => intro st f g; exact Both.pure cap f rfl
  | succ fuel ih =>
    intro st f g
    cases hT : terminalBinS op f g with
    | done e => simp only [applyC, applyS, hT]; exact Both.pure cap _ rfl
    | notOf e => simp only [applyC, applyS, hT]; exact notC_both cap p fuel st e
    | binary tag o1 o2 =>
      cases hget : p.get st.tick st.cache (tag, [o1, o2]) with
      | some h => simp only [applyC, applyS, hT, hget]; exact Both.pure cap _ rfl
      | none =>
        cases hlf : st.store.level? f with
        | none => simp only [applyC, applyS, hT, hget, hlf]; exact Both.pure cap _ rfl
        | some lf =>
          cases hlg : st.store.level? g with
          | none => simp only [applyC, applyS, hT, hget, hlf, hlg]; exact Both.pure cap _ rfl
          | some lg =>
            simp only [applyC, applyS, hT, hget, hlf, hlg]
            exact forkC_both
              (c1C := fun s => applyC cap p op fuel s (st.store.cofT (min lf lg) f) (st.store.cofT (min lf lg) g))
              (c0C := fun s => applyC cap p op fuel s (st.store.cofE (min lf lg) f) (st.store.cofE (min lf lg) g))
              (c1S := fun s => applyS p op fuel s (st.store.cofT (min lf lg) f) (st.store.cofT (min lf lg) g))
              (c0S := fun s => applyS p op fuel s (st.store.cofE (min lf lg) f) (st.store.cofE (min lf lg) g))
              (st := st.tickd) (ih _ _ _) (fun st1 => ih st1 _ _)

theorem iteC_both (cap : Nat) (p : Policy) (fuel : Nat) : ∀ (st : St) (f g h : Edge),
    Both cap st.store (iteC cap p fuel st f g h) (iteS p fuel st f g h) := by
  induction fuel with
  | zero => intro st f g h; exact Both.pure cap f rfl
  | succ fuel ih =>
    intro st f g h
    simp only [iteC, iteS]
    by_cases hgh : g = h
    · simp only [hgh, if_true]; exact Both.pure cap _ rfl
    · simp only [hgh, if_false]
      by_cases hfg : f = g
      · simp only [hfg, if_true]; exact applyC_both cap p _ fuel st _ _
      · simp only [hfg, if_false]
        by_cases hfh : f = h
        · simp only [hfh, if_true]; exact applyC_both cap p _ fuel st _ _
        · simp only [hfh, if_false]
          cases f with
          | term b => exact Both.pure cap _ rfl
          | inner i =>
            cases g with
            | term y =>
              cases h with
              | term z =>
                cases y
                · exact notC_both cap p fuel st _
                · exact Both.pure cap _ rfl
              | inner k => cases y <;> exact applyC_both cap p _ fuel st _ _
            | inner j =>
              cases h with
              | term z => cases z <;> exact applyC_both cap p _ fuel st _ _
              | inner k =>
                simp only
                cases hget : p.get st.tick st.cache (.ite, [.inner i, .inner j, .inner k]) with
                | some r => exact Both.pure cap _ rfl
                | none =>
                  simp only
                  cases hlf : st.store.level? (.inner i) with
                  | none => exact Both.pure cap _ rfl
                  | some lf =>
                    cases hlg : st.store.level? (.inner j) with
                    | none => exact Both.pure cap _ rfl
                    | some lg =>
                      cases hlh : st.store.level? (.inner k) with
                      | none => exact Both.pure cap _ rfl
                      | some lh =>
                        simp only
                        exact forkC_both
                          (c1C := fun s => iteC cap p fuel s (st.store.cofT (min (min lf lg) lh) (.inner i))
                            (st.store.cofT (min (min lf lg) lh) (.inner j)) (st.store.cofT (min (min lf lg) lh) (.inner k)))
                          (c0C := fun s => iteC cap p fuel s (st.store.cofE (min (min lf lg) lh) (.inner i))
                            (st.store.cofE (min (min lf lg) lh) (.inner j)) (st.store.cofE (min (min lf lg) lh) (.inner k)))
                          (c1S := fun s => iteS p fuel s (st.store.cofT (min (min lf lg) lh) (.inner i))
                            (st.store.cofT (min (min lf lg) lh) (.inner j)) (st.store.cofT (min (min lf lg) lh) (.inner k)))
                          (c0S := fun s => iteS p fuel s (st.store.cofE (min (min lf lg) lh) (.inner i))
                            (st.store.cofE (min (min lf lg) lh) (.inner j)) (st.store.cofE (min (min lf lg) lh) (.inner k)))
                          (st := st.tickd) (ih _ _ _ _) (fun st1 => ih st1 _ _ _)

/-! ## the invariant survives a failing run -/

theorem notC_inv {p : Policy} (pok : p.OK) (cap : Nat) (fuel : Nat) : ∀ (st : St) (f : Edge) (a : BDD),
    Inv st → Denotes st.store f a → a.size ≤ fuel → Inv (notC cap p fuel st f).2 := by
  induction fuel with
  | zero => intro st f a hinv _ _; exact hinv
  | succ fuel ih =>
    intro st f a hinv hf hsz
    have hsucc : ∀ e st', notC cap p (fuel + 1) st f = (some e, st') → Inv st' := by
      intro e st' h
      have hb := (notC_both cap p (fuel + 1) st f).1.ok e (by rw [h])
      rw [h] at hb
      have P := notS_spec pok (fuel + 1) st f a hinv hf hsz
      rw [hb.1] at P
      exact P.inv
    cases hf with
    | @term x => exact hinv
    | @inner i l t e tt te hi hft hfe =>
      simp only [BDD.size] at hsz
      cases hget : p.get st.tick st.cache (.not, [.inner i]) with
      | some h => simp only [notC, hget]; exact hinv.tickd
      | none =>
        simp only [notC, hget, hi] at hsucc ⊢
        refine forkC_inv (ih _ _ tt hinv.tickd hft (by omega)) ?_ hsucc
        intro r1 st1 h
        have hb := (notC_both cap p fuel st.tickd t).1.ok r1 (by rw [h])
        rw [h] at hb
        have P := notS_spec pok fuel st.tickd t tt hinv.tickd hft (by omega)
        rw [hb.1] at P
        exact ih st1 e te P.inv (hfe.mono P.le) (by omega)

theorem applyC_inv {p : Policy} (pok : p.OK) (cap : Nat) (op : Op) (fuel : Nat) :
    ∀ (st : St) (f g : Edge) (a b : BDD),
    Inv st → Denotes st.store f a → Denotes st.store g b → a.size + b.size ≤ fuel →
    Inv (applyC cap p op fuel st f g).2 := by
  induction fuel with
  | zero => intro st f g a b hinv _ _ _; exact hinv
  | succ fuel ih =>
    intro st f g a b hinv hf hg hsz
    have hsucc : ∀ e st', applyC cap p op (fuel + 1) st f g = (some e, st') → Inv st' := by
      intro e st' h
      have hb := (applyC_both cap p op (fuel + 1) st f g).1.ok e (by rw [h])
      rw [h] at hb
      have P := applyS_spec pok op (fuel + 1) st f g a b hinv hf hg hsz
      rw [hb.1] at P
      exact P.inv
    have hinj := inj_of_unique hinv.1
    have hc := terminalBinS_corr op hinj hf hg
    have hsa := size_pos a
    have hsb := size_pos b
    cases hS : terminalBinS op f g with
    | done e => simp only [applyC, hS]; exact hinv
    | notOf e =>
      simp only [applyC, hS]
      cases hT : terminalBin op a b with
      | done t => rw [hS, hT] at hc; exact hc.elim
      | binary o x y => rw [hS, hT] at hc; exact hc.elim
      | notOf t =>
        rw [hS, hT] at hc
        have hsh := terminalBin_shape op a b
        rw [hT] at hsh
        have : t.size ≤ fuel := by
          rcases hsh with h | h <;> subst h <;> omega
        exact notC_inv pok cap fuel st e t hinv hc this
    | binary tag o1 o2 =>
      cases hget : p.get st.tick st.cache (tag, [o1, o2]) with
      | some h => simp only [applyC, hS, hget]; exact hinv.tickd
      | none =>
        cases hT : terminalBin op a b with
        | done t => rw [hS, hT] at hc; exact hc.elim
        | notOf t => rw [hS, hT] at hc; exact hc.elim
        | binary o x y =>
          have hsp := terminalBin_spec op a b
          rw [hT] at hsp
          obtain ⟨_, _, _, hla, hlb⟩ := hsp
          cases a with
          | leaf _ => simp [isLeaf] at hla
          | node lf ft fe =>
          cases b with
          | leaf _ => simp [isLeaf] at hlb
          | node lg gt ge =>
          simp only [applyC, hS, hget, level?_denotes hf, level?_denotes hg] at hsucc ⊢
          generalize hl : min lf lg = m at hsucc ⊢
          have hmin : m = lf ∨ m = lg := by omega
          have h1a := tcofT_size_le m (.node lf ft fe)
          have h1b := tcofT_size_le m (.node lg gt ge)
          have h0a := tcofE_size_le m (.node lf ft fe)
          have h0b := tcofE_size_le m (.node lg gt ge)
          have sz : (tcofT m (.node lf ft fe)).size + (tcofT m (.node lg gt ge)).size ≤ fuel ∧
              (tcofE m (.node lf ft fe)).size + (tcofE m (.node lg gt ge)).size ≤ fuel := by
            rcases hmin with h | h <;> subst h
            · have := tcofT_size_lt m ft fe; have := tcofE_size_lt m ft fe; omega
            · have := tcofT_size_lt m gt ge; have := tcofE_size_lt m gt ge; omega
          refine forkC_inv (ih _ _ _ _ _ hinv.tickd (cofT_denotes m hf) (cofT_denotes m hg) sz.1) ?_ hsucc
          intro r1 st1 h
          have hb := (applyC_both cap p op fuel st.tickd (st.store.cofT m f) (st.store.cofT m g)).1.ok
            r1 (by rw [h])
          rw [h] at hb
          have P : Post st.store _ (applyS p op fuel st.tickd (st.store.cofT m f) (st.store.cofT m g)) :=
            applyS_spec pok op fuel st.tickd _ _ _ _ hinv.tickd (cofT_denotes m hf)
              (cofT_denotes m hg) sz.1
          rw [hb.1] at P
          exact ih st1 _ _ _ _ P.inv ((cofE_denotes m hf).mono P.le) ((cofE_denotes m hg).mono P.le) sz.2

theorem iteC_inv {p : Policy} (pok : p.OK) (cap : Nat) (fuel : Nat) :
    ∀ (st : St) (f g h : Edge) (a b c : BDD),
    Inv st → Denotes st.store f a → Denotes st.store g b → Denotes st.store h c →
    a.size + b.size + c.size ≤ fuel → Inv (iteC cap p fuel st f g h).2 := by
  induction fuel with
  | zero => intro st f g h a b c hinv _ _ _ _; exact hinv
  | succ fuel ih =>
    intro st f g h a b c hinv hf hg hh hsz
    have hsucc : ∀ e st', iteC cap p (fuel + 1) st f g h = (some e, st') → Inv st' := by
      intro e st' hr
      have hb := (iteC_both cap p (fuel + 1) st f g h).1.ok e (by rw [hr])
      rw [hr] at hb
      have P := iteS_spec pok (fuel + 1) st f g h a b c hinv hf hg hh hsz
      rw [hb.1] at P
      exact P.inv
    have hinj := inj_of_unique hinv.1
    have hsa := size_pos a
    have hsb := size_pos b
    have hsc := size_pos c
    simp only [iteC] at hsucc ⊢
    by_cases hgh : g = h
    · simp only [hgh, if_true]; exact hinv
    · simp only [hgh, if_false] at hsucc ⊢
      by_cases hfg : f = g
      · simp only [hfg, if_true]
        exact applyC_inv pok cap _ fuel st _ _ _ _ hinv hg hh (by omega)
      · simp only [hfg, if_false] at hsucc ⊢
        by_cases hfh : f = h
        · simp only [hfh, if_true]
          exact applyC_inv pok cap _ fuel st _ _ _ _ hinv hh hg (by omega)
        · simp only [hfh, if_false] at hsucc ⊢
          cases hf with
          | @term x => exact hinv
          | @inner i l t e tt te hi hft hfe =>
            have hdf : Denotes st.store (.inner i) (.node l tt te) := .inner hi hft hfe
            cases hg with
            | @term y =>
              cases hh with
              | @term z =>
                cases y
                · exact notC_inv pok cap fuel st _ _ hinv hdf (by omega)
                · exact hinv
              | @inner k l'' t'' e'' tt'' te'' hk hht hhe =>
                have hdh : Denotes st.store (.inner k) (.node l'' tt'' te'') := .inner hk hht hhe
                cases y <;> exact applyC_inv pok cap _ fuel st _ _ _ _ hinv hdf hdh (by omega)
            | @inner j l' t' e' tt' te' hj hgt hge =>
              have hdg : Denotes st.store (.inner j) (.node l' tt' te') := .inner hj hgt hge
              cases hh with
              | @term z =>
                cases z <;> exact applyC_inv pok cap _ fuel st _ _ _ _ hinv hdf hdg (by omega)
              | @inner k l'' t'' e'' tt'' te'' hk hht hhe =>
                have hdh : Denotes st.store (.inner k) (.node l'' tt'' te'') := .inner hk hht hhe
                simp only at hsucc ⊢
                cases hget : p.get st.tick st.cache (.ite, [.inner i, .inner j, .inner k]) with
                | some r => exact hinv.tickd
                | none =>
                  simp only [hget, level?_denotes hdf, level?_denotes hdg, level?_denotes hdh] at hsucc ⊢
                  generalize hl : min (min l l') l'' = m at hsucc ⊢
                  have hmin : m = l ∨ m = l' ∨ m = l'' := by omega
                  have ha1 := tcofT_size_le m (.node l tt te)
                  have hb1 := tcofT_size_le m (.node l' tt' te')
                  have hc1 := tcofT_size_le m (.node l'' tt'' te'')
                  have ha0 := tcofE_size_le m (.node l tt te)
                  have hb0 := tcofE_size_le m (.node l' tt' te')
                  have hc0 := tcofE_size_le m (.node l'' tt'' te'')
                  have sz : (tcofT m (.node l tt te)).size + (tcofT m (.node l' tt' te')).size +
                      (tcofT m (.node l'' tt'' te'')).size ≤ fuel ∧
                      (tcofE m (.node l tt te)).size + (tcofE m (.node l' tt' te')).size +
                      (tcofE m (.node l'' tt'' te'')).size ≤ fuel := by
                    rcases hmin with h | h | h <;> subst h
                    · have := tcofT_size_lt m tt te; have := tcofE_size_lt m tt te; omega
                    · have := tcofT_size_lt m tt' te'; have := tcofE_size_lt m tt' te'; omega
                    · have := tcofT_size_lt m tt'' te''; have := tcofE_size_lt m tt'' te''; omega
                  refine forkC_inv (ih _ _ _ _ _ _ _ hinv.tickd (cofT_denotes m hdf) (cofT_denotes m hdg)
                    (cofT_denotes m hdh) sz.1) ?_ hsucc
                  intro r1 st1 hr
                  have hb := (iteC_both cap p fuel st.tickd (st.store.cofT m (.inner i))
                    (st.store.cofT m (.inner j)) (st.store.cofT m (.inner k))).1.ok r1 (by rw [hr])
                  rw [hr] at hb
                  have P : Post st.store _ (iteS p fuel st.tickd (st.store.cofT m (.inner i))
                      (st.store.cofT m (.inner j)) (st.store.cofT m (.inner k))) :=
                    iteS_spec pok fuel st.tickd _ _ _ _ _ _ hinv.tickd (cofT_denotes m hdf)
                      (cofT_denotes m hdg) (cofT_denotes m hdh) sz.1
                  rw [hb.1] at P
                  exact ih st1 _ _ _ _ _ _ P.inv ((cofE_denotes m hdf).mono P.le)
                    ((cofE_denotes m hdg).mono P.le) ((cofE_denotes m hdh).mono P.le) sz.2

end OxiddModel.Bdd.Refine
