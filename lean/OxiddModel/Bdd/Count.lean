import OxiddModel.Bdd.Canon

/-!
# Model counting (`sat_count_edge`) and node counting — lemmas for C12 / C03

All statements are for arbitrary trees (no bound on depth or levels). The headline theorems are
collected in `PropertiesC12.lean`.
-/
namespace OxiddModel.Bdd
open BDD

/-! ## vocabulary -/

/-- every level occurring in the diagram is `< v` (the caller's `vars` covers the diagram) -/
def LevelsLt (v : Nat) : BDD → Prop
  | .leaf _ => True
  | .node l t e => l < v ∧ LevelsLt v t ∧ LevelsLt v e

/-- reference count: the number of ways to assign the `m` levels `[k, k+m)` (all other levels as in
`σ`) such that `g` holds — plain enumeration of all `2^m` assignments, lowest level first -/
def countModels (g : (Nat → Bool) → Bool) : Nat → Nat → (Nat → Bool) → Nat
  | _, 0, σ => if g σ then 1 else 0
  | k, m+1, σ => countModels g (k+1) m (upd σ k true) + countModels g (k+1) m (upd σ k false)

/-- all bit vectors of length `m` -/
def bitvecs : Nat → List (List Bool)
  | 0 => [[]]
  | m+1 => (bitvecs m).map (true :: ·) ++ (bitvecs m).map (false :: ·)

/-- write the bit vector `bs` onto the levels `k, k+1, …` of `σ` -/
def overlay (σ : Nat → Bool) : Nat → List Bool → Nat → Bool
  | _, [] => σ
  | k, b :: bs => overlay (upd σ k b) (k+1) bs

/-! ## `countModels` -/

/-- `countModels g k m σ` only looks at `g` on assignments that agree with `σ` below `k` -/
theorem countModels_congr (g g' : (Nat → Bool) → Bool) (k m : Nat) (σ : Nat → Bool)
    (h : ∀ τ, (∀ v, v < k → τ v = σ v) → g τ = g' τ) :
    countModels g k m σ = countModels g' k m σ := by
  induction m generalizing k σ with
  | zero => simp only [countModels, h σ (fun _ _ => rfl)]
  | succ m ih =>
    simp only [countModels]
    rw [ih (k+1) (upd σ k true), ih (k+1) (upd σ k false)]
    · intro τ hτ
      apply h
      intro v hv
      rw [hτ v (by omega), upd_ne]
      omega
    · intro τ hτ
      apply h
      intro v hv
      rw [hτ v (by omega), upd_ne]
      omega

/-- sanity: the enumeration visits `2^m` assignments -/
theorem countModels_true (k m : Nat) (σ : Nat → Bool) : countModels (fun _ => true) k m σ = 2 ^ m := by
  induction m generalizing k σ with
  | zero => rfl
  | succ m ih => simp only [countModels, ih, Nat.pow_succ]; omega

theorem countModels_le (g : (Nat → Bool) → Bool) (k m : Nat) (σ : Nat → Bool) :
    countModels g k m σ ≤ 2 ^ m := by
  induction m generalizing k σ with
  | zero => simp only [countModels]; split <;> simp
  | succ m ih =>
    simp only [countModels, Nat.pow_succ]
    have := ih (k+1) (upd σ k true)
    have := ih (k+1) (upd σ k false)
    omega

/-- `countModels` is literally the number of bit vectors of length `m` which, written onto the
levels `[k, k+m)`, satisfy `g` -/
theorem countModels_eq_countP (g : (Nat → Bool) → Bool) (k m : Nat) (σ : Nat → Bool) :
    countModels g k m σ = (bitvecs m).countP (fun bs => g (overlay σ k bs)) := by
  induction m generalizing k σ with
  | zero =>
    have h : overlay σ k [] = σ := rfl
    simp only [countModels, bitvecs]
    cases hg : g σ <;> simp [h, hg]
  | succ m ih =>
    simp only [countModels, bitvecs, List.countP_append, List.countP_map, ih]
    rfl

theorem bitvecs_length (m : Nat) : ∀ bs ∈ bitvecs m, bs.length = m := by
  induction m with
  | zero => simp [bitvecs]
  | succ m ih =>
    intro bs hbs
    simp only [bitvecs, List.mem_append, List.mem_map] at hbs
    rcases hbs with ⟨a, ha, rfl⟩ | ⟨a, ha, rfl⟩ <;> simp [ih a ha]

theorem bitvecs_complete (bs : List Bool) : bs ∈ bitvecs bs.length := by
  induction bs with
  | nil => simp [bitvecs]
  | cons b bs ih =>
    simp only [List.length_cons, bitvecs, List.mem_append, List.mem_map]
    cases b
    · exact .inr ⟨bs, ih, rfl⟩
    · exact .inl ⟨bs, ih, rfl⟩

theorem bitvecs_nodup (m : Nat) : (bitvecs m).Nodup := by
  induction m with
  | zero => simp [bitvecs]
  | succ m ih =>
    simp only [bitvecs]
    rw [List.nodup_append]
    refine ⟨?_, ?_, ?_⟩
    · exact List.Pairwise.map _ (fun a b h => by simpa using h) ih
    · exact List.Pairwise.map _ (fun a b h => by simpa using h) ih
    · intro a ha b hb
      simp only [List.mem_map] at ha hb
      obtain ⟨_, _, rfl⟩ := ha
      obtain ⟨_, _, rfl⟩ := hb
      simp


/-- what `overlay` does: level `l ≥ k` gets bit `l - k` of the vector if there is one -/
theorem overlay_apply (σ : Nat → Bool) (k : Nat) (bs : List Bool) (l : Nat) :
    overlay σ k bs l = if k ≤ l then (bs[l - k]?).getD (σ l) else σ l := by
  induction bs generalizing σ k with
  | nil => simp [overlay]
  | cons b bs ih =>
    simp only [overlay, ih]
    by_cases h1 : k + 1 ≤ l
    · have h2 : k ≤ l := by omega
      have h3 : l - k = (l - (k + 1)) + 1 := by omega
      have h4 : l ≠ k := by omega
      simp only [h1, h2, if_true, h3, List.getElem?_cons_succ, upd_ne σ b h4]
    · by_cases h2 : l = k
      · subst h2
        simp [upd, h1]
      · have h3 : ¬ k ≤ l := by omega
        simp only [h1, h3, if_false, upd_ne σ b h2]

theorem overlay_zero (bs : List Bool) (l : Nat) :
    overlay (fun _ => false) 0 bs l = (bs[l]?).getD false := by
  rw [overlay_apply]; simp

/-! ## `countFrom` is the reference count -/

theorem ordered_levelsLt_leaf {k : Nat} {f : BDD} (ho : Ordered k f) (hl : LevelsLt k f) :
    ∃ b, f = .leaf b := by
  cases ho with
  | leaf => exact ⟨_, rfl⟩
  | node h _ _ => have := hl.1; omega

theorem LevelsLt.mono {v w : Nat} {f : BDD} (h : LevelsLt v f) (hvw : v ≤ w) : LevelsLt w f := by
  induction f with
  | leaf => trivial
  | node l t e iht ihe => exact ⟨by have := h.1; omega, iht h.2.1, ihe h.2.2⟩

/-- `countFrom (k+m) k f` is the number of models of `f` over the levels `[k, k+m)` -/
theorem countFrom_eq_countModels (m : Nat) : ∀ (k : Nat) (f : BDD) (σ : Nat → Bool),
    Ordered k f → LevelsLt (k+m) f → countFrom (k+m) k f = countModels f.eval k m σ := by
  induction m with
  | zero =>
    intro k f σ ho hl
    obtain ⟨b, rfl⟩ := ordered_levelsLt_leaf ho hl
    cases b <;> simp [countFrom, countModels, eval]
  | succ m ih =>
    intro k f σ ho hl
    cases ho with
    | leaf =>
      rename_i b
      simp only [countModels]
      have h1 := ih (k+1) (.leaf b) (upd σ k true) .leaf trivial
      have h2 := ih (k+1) (.leaf b) (upd σ k false) .leaf trivial
      rw [← h1, ← h2]
      simp only [countFrom]
      have e1 : k + (m + 1) - k = m + 1 := by omega
      have e2 : k + 1 + m - (k + 1) = m := by omega
      rw [e1, e2, Nat.pow_succ]
      split <;> omega
    | node hkl ht he =>
      rename_i l t e
      simp only [countModels]
      by_cases hlk : l = k
      · subst hlk
        have hl' : LevelsLt (l + 1 + m) t ∧ LevelsLt (l + 1 + m) e :=
          ⟨hl.2.1.mono (by omega), hl.2.2.mono (by omega)⟩
        rw [countModels_congr (BDD.node l t e).eval t.eval (l+1) m (upd σ l true),
          countModels_congr (BDD.node l t e).eval e.eval (l+1) m (upd σ l false),
          ← ih (l+1) t _ ht hl'.1, ← ih (l+1) e _ he hl'.2]
        · simp only [countFrom]
          have e1 : l + (m + 1) = l + 1 + m := by omega
          rw [e1]
          simp
        · intro τ hτ
          have : τ l = false := by rw [hτ l (by omega)]; simp [upd]
          simp [eval, this]
        · intro τ hτ
          have : τ l = true := by rw [hτ l (by omega)]; simp [upd]
          simp [eval, this]
      · have ho' : Ordered (k+1) (.node l t e) := .node (by omega) ht he
        have hl' : LevelsLt (k + 1 + m) (.node l t e) := hl.mono (by omega)
        rw [← ih (k+1) _ (upd σ k true) ho' hl', ← ih (k+1) _ (upd σ k false) ho' hl']
        simp only [countFrom]
        have e1 : k + (m + 1) = k + 1 + m := by omega
        have e2 : l - k = (l - (k + 1)) + 1 := by omega
        rw [e1, e2, Nat.pow_succ]
        generalize countFrom (k + 1 + m) (l + 1) t + countFrom (k + 1 + m) (l + 1) e = c
        generalize 2 ^ (l - (k + 1)) = p
        rw [Nat.mul_assoc, Nat.mul_comm 2 c, ← Nat.mul_assoc]
        omega

/-! ## `sat_count_edge` -/

/-- the `>> 1` of `sat_count_edge` is exact: below a node of level `l` both children's counts carry
the factor `2^(l+1)` -/
theorem satCount_eq_scaled {k vars : Nat} {f : BDD} (ho : Ordered k f) (hl : LevelsLt vars f)
    (hk : k ≤ vars) : satCount vars f = 2 ^ k * countFrom vars k f := by
  induction ho with
  | @leaf n b =>
    cases b
    · simp [satCount, countFrom]
    · simp only [satCount, countFrom, if_true, ← Nat.pow_add]
      congr 1; omega
  | @node n l t e hnl _ _ iht ihe =>
    have hlv : l < vars := hl.1
    simp only [satCount, countFrom, iht hl.2.1 (by omega), ihe hl.2.2 (by omega)]
    rw [Nat.shiftRight_eq_div_pow, ← Nat.mul_add, Nat.pow_succ, Nat.pow_one,
      Nat.mul_comm (2 ^ l) 2, Nat.mul_assoc, Nat.mul_div_cancel_left _ (by omega),
      ← Nat.mul_assoc, ← Nat.pow_add]
    congr 2; omega

theorem countFrom_eq_zero_iff {f : BDD} (hr : Reduced f) (vars k : Nat) :
    countFrom vars k f = 0 ↔ f = .leaf false := by
  induction f generalizing k with
  | leaf b =>
    cases b
    · simp [countFrom]
    · simp only [countFrom, if_true]
      have : 0 < 2 ^ (vars - k) := Nat.two_pow_pos _
      constructor
      · intro h; omega
      · intro h; cases h
  | node l t e iht ihe =>
    simp only [countFrom]
    constructor
    · intro h
      exfalso
      have hp : 0 < 2 ^ (l - k) := Nat.two_pow_pos _
      rcases Nat.mul_eq_zero.mp h with h | h
      · omega
      · have h1 := (iht hr.2.1 (l+1)).mp (by omega)
        have h2 := (ihe hr.2.2 (l+1)).mp (by omega)
        exact hr.1 (h1.trans h2.symm)
    · intro h; cases h

/-! ## node count -/

/-- `g` is a subterm of (= a node of the shared diagram of) `f` -/
def Subterm (g : BDD) : BDD → Prop
  | .leaf b => g = .leaf b
  | .node l t e => g = .node l t e ∨ Subterm g t ∨ Subterm g e

theorem Subterm.refl (f : BDD) : Subterm f f := by
  cases f with
  | leaf => rfl
  | node => exact .inl rfl

theorem Subterm.size_le {g f : BDD} (h : Subterm g f) : g.size ≤ f.size := by
  induction f with
  | leaf b => cases h; exact Nat.le_refl _
  | node l t e iht ihe =>
    rcases h with rfl | h | h
    · exact Nat.le_refl _
    · have := iht h; simp only [size]; omega
    · have := ihe h; simp only [size]; omega

theorem Subterm.trans {a b c : BDD} (hab : Subterm a b) (hbc : Subterm b c) : Subterm a c := by
  induction c with
  | leaf x => cases hbc; exact hab
  | node l t e iht ihe =>
    rcases hbc with rfl | h | h
    · exact hab
    · exact .inr (.inl (iht h))
    · exact .inr (.inr (ihe h))

/-- a list of trees is closed under taking subterms -/
def SubClosed (acc : List BDD) : Prop := ∀ x ∈ acc, ∀ y, Subterm y x → y ∈ acc

/-- the invariant of the accumulating traversal -/
theorem subtrees_spec (f : BDD) : ∀ acc : List BDD, acc.Nodup → SubClosed acc →
    (subtrees f acc).Nodup ∧ SubClosed (subtrees f acc) ∧
      ∀ x, x ∈ subtrees f acc ↔ x ∈ acc ∨ Subterm x f := by
  induction f with
  | leaf b =>
    intro acc hn hc
    simp only [subtrees]
    split
    · rename_i h
      rw [List.contains_iff_mem] at h
      refine ⟨hn, hc, fun x => ⟨.inl, ?_⟩⟩
      rintro (h' | h')
      · exact h'
      · cases h'; exact h
    · rename_i h
      rw [List.contains_iff_mem] at h
      refine ⟨List.nodup_cons.mpr ⟨h, hn⟩, ?_, ?_⟩
      · intro x hx y hy
        rcases List.mem_cons.mp hx with rfl | hx
        · cases hy; exact List.mem_cons_self ..
        · exact List.mem_cons_of_mem _ (hc x hx y hy)
      · intro x
        simp only [List.mem_cons, Subterm]
        constructor
        · rintro (h' | h')
          · exact .inr h'
          · exact .inl h'
        · rintro (h' | h')
          · exact .inr h'
          · exact .inl h'
  | node l t e iht ihe =>
    intro acc hn hc
    simp only [subtrees]
    split
    · rename_i h
      rw [List.contains_iff_mem] at h
      refine ⟨hn, hc, fun x => ⟨.inl, ?_⟩⟩
      rintro (h' | h')
      · exact h'
      · exact hc _ h x h'
    · rename_i h
      rw [List.contains_iff_mem] at h
      obtain ⟨n1, c1, m1⟩ := iht acc hn hc
      obtain ⟨n2, c2, m2⟩ := ihe (subtrees t acc) n1 c1
      have hnot : BDD.node l t e ∉ subtrees e (subtrees t acc) := by
        intro hm
        rcases (m2 _).mp hm with hm | hm
        · rcases (m1 _).mp hm with hm | hm
          · exact h hm
          · have := hm.size_le; simp only [size] at this; omega
        · have := hm.size_le; simp only [size] at this; omega
      refine ⟨List.nodup_cons.mpr ⟨hnot, n2⟩, ?_, ?_⟩
      · intro x hx y hy
        rcases List.mem_cons.mp hx with rfl | hx
        · rcases hy with rfl | hy | hy
          · exact List.mem_cons_self ..
          · exact List.mem_cons_of_mem _ ((m2 y).mpr (.inl ((m1 y).mpr (.inr hy))))
          · exact List.mem_cons_of_mem _ ((m2 y).mpr (.inr hy))
        · exact List.mem_cons_of_mem _ (c2 x hx y hy)
      · intro x
        simp only [List.mem_cons, Subterm, m2, m1]
        constructor
        · rintro (h' | (h' | h') | h')
          · exact .inr (.inl h')
          · exact .inl h'
          · exact .inr (.inr (.inl h'))
          · exact .inr (.inr (.inr h'))
        · rintro (h' | h' | h' | h')
          · exact .inr (.inl (.inl h'))
          · exact .inl h'
          · exact .inr (.inl (.inr h'))
          · exact .inr (.inr h')

end OxiddModel.Bdd
