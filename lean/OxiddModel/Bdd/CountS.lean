import OxiddModel.Bdd.Guarantee

/-!
# `SatCountCache` and `sat_count_edge` on the id store; managers with a gc epoch; histories

Store-level model of the *reused* model-count cache of property C12 (simple BDD rules).

Rust code modelled
* `crates/oxidd-core/src/util/mod.rs`: `SatCountCache { map, vars, epoch, cache_all }`,
  `clear_if_invalid(manager, vars)` (`CountCache`, `CountCache.clearIfInvalid`);
* `crates/oxidd-rules-bdd/src/simple/apply_rec.rs`: `sat_count_edge` and its `inner` recursion
  (`innerS`, `satCountS`): terminal → `terminal_val` / `0`; `do_cache = cache_all ||
  ref_count() > 1`; `if do_cache && let Some(n) = map.get(&id) { return n }`; then-child first,
  `(t + e) >> 1`; `if do_cache { map.insert(id, n) }`. Numbers are exact naturals (the integer
  instances have `MIN_EXP = 0`, so `terminal_val = 1 << vars` and there is no rescaling);
* `crates/oxidd-manager-index/src/manager.rs`: `gc_count`, advanced by `gc` *before* the first
  node is freed (`self.gc_count.fetch_add(1, Relaxed)` is the second statement of `gc`) and by
  `reorder` (at its end; `reorder` has `&mut self`, so nothing can observe the manager in between).

The node store, `Denotes`, `mkNode`, `sweep` are those of `StoreRefine.lean` / `Guarantee.lean`.
Ids of freed slots are handed out again by `Store.alloc` (first free slot), which is what makes a
stale cache entry dangerous.

## The manager and its histories

`Mgr` = store + `gcCount` + number of variables + the live handles (root edges, by position).
`HOp` are the steps of a history. The store-changing steps are *abstract* so that they cover every
implementation the other areas prove correct:

* `ext s' e` — any operation that only *extends* the store (`s.Le s'`: occupied slots keep their
  content) and returns the new handle `e`: this is what `mkNode`, `intern`, `notS`, `applyS`,
  `iteS`, `quantS`, … do (`mkNode_le`, `Post.le`, …); free slots may be filled, i.e. ids recycled;
* `clone i`, `drop i` — handle bookkeeping; dropping never frees a slot (nodes die, they are only
  removed by a collection);
* `gc s'` — a collection: `gcCount` is advanced and the store becomes any `s'` in which the live
  handles keep their denotation (`StableOn`), e.g. `Store.sweep` or its iteration. Everything else
  may be freed;
* `reorder s' hs'` — a reordering: `gcCount` is advanced, store and handles are replaced by
  anything (nodes rewritten in place, ids freed and re-issued);
* `addVars k`;
* `setCacheAll b` — the user flips the public field `cache_all`;
* `count i vars` — `sat_count` of handle `i` with the ONE long-lived cache.

For the interleaving of a collection with other threads (the collector holds the manager only
*shared*) the two halves of `gc` are available separately: `gcBegin` (advance `gcCount`) and
`gcFree s'` (free nodes, `gcCount` untouched). `HOp.Atomic` marks the histories in which `gcFree`
does not occur, i.e. collections are atomic (`gc s'`).
-/
namespace OxiddModel.Bdd.CountS
open OxiddModel.Bdd OxiddModel.Bdd.BDD OxiddModel.Bdd.Refine

/-! ## the cache -/

/-- `SatCountCache<N, S>`; `map` is an association list node id ↦ count (newest first) -/
structure CountCache where
  map : List (Nat × Nat)
  vars : Nat
  epoch : Nat
  cacheAll : Bool
deriving Repr, DecidableEq

/-- `SatCountCache::default()` -/
def CountCache.new : CountCache := ⟨[], 0, 0, false⟩

/-- `clear_if_invalid`: `if epoch != self.epoch || vars != self.vars { self.epoch = epoch;
self.vars = vars; self.map.clear() }` -/
def CountCache.clearIfInvalid (c : CountCache) (gcCount vars : Nat) : CountCache :=
  if gcCount ≠ c.epoch ∨ vars ≠ c.vars then { c with epoch := gcCount, vars := vars, map := [] }
  else c

/-- `map.insert(id, n)` (only executed when `id` is not a key, see `innerS`) -/
def CountCache.insert (c : CountCache) (id n : Nat) : CountCache :=
  { c with map := (id, n) :: c.map }

/-! ## the recursion -/

/-- `inner` of `sat_count_edge`. `rc` is `ref_count()` of the node in slot `id`, `tv` the terminal
value. Recursion by fuel (the size of the denoted tree suffices); a dangling edge yields 0 (excluded
by `Denotes`). -/
def innerS (s : Store) (rc : Nat → Nat) (tv : Nat) : Nat → CountCache → Edge → CountCache × Nat
  | 0, c, _ => (c, 0)
  | _+1, c, .term b => (c, if b then tv else 0)
  | fuel+1, c, .inner i =>
    match s.get? i with
    | none => (c, 0)
    | some n =>
      let doCache := c.cacheAll || decide (rc i > 1)
      match (if doCache then c.map.lookup i else none) with
      | some v => (c, v)
      | none =>
        let r1 := innerS s rc tv fuel c n.t
        let r0 := innerS s rc tv fuel r1.1 n.e
        let v := (r1.2 + r0.2) >>> 1
        (if doCache then r0.1.insert i v else r0.1, v)

/-- `sat_count_edge`: `cache.clear_if_invalid(manager, vars)`, terminal value `1 << vars`, `inner` -/
def satCountS (s : Store) (rc : Nat → Nat) (gcCount : Nat) (fuel : Nat) (c : CountCache) (e : Edge)
    (vars : Nat) : CountCache × Nat :=
  innerS s rc (2 ^ vars) fuel (c.clearIfInvalid gcCount vars) e

/-! ## reference counts -/

/-- number of stored edges pointing to slot `j` -/
def Store.parents (s : Store) (j : Nat) : Nat :=
  (s.nodes.toList.map fun o =>
    match o with
    | some n => (if n.t = .inner j then 1 else 0) + (if n.e = .inner j then 1 else 0)
    | none => 0).sum

/-! ## the manager -/

instance : DecidableEq Store := fun a b =>
  decidable_of_iff (a.nodes = b.nodes) ⟨fun h => by cases a; cases b; simp_all, fun h => h ▸ rfl⟩

structure Mgr where
  store : Store
  gcCount : Nat
  numVars : Nat
  handles : List Edge
deriving DecidableEq

def Mgr.new : Mgr := ⟨⟨#[]⟩, 0, 0, []⟩

/-- `ref_count()`: live handles + stored parent edges (dead parents included until collected) -/
def Mgr.rc (m : Mgr) (j : Nat) : Nat := m.handles.count (.inner j) + Store.parents m.store j

/-- state of a history: the manager and the one long-lived cache -/
structure HState where
  mgr : Mgr
  cache : CountCache
deriving DecidableEq

def HState.new : HState := ⟨Mgr.new, CountCache.new⟩

inductive HOp where
  /-- any store-extending operation returning the handle `e` -/
  | ext (s' : Store) (e : Edge)
  | clone (i : Nat)
  | drop (i : Nat)
  /-- atomic collection -/
  | gc (s' : Store)
  /-- first half of a collection: `gc_count.fetch_add(1)` -/
  | gcBegin
  /-- second half of a collection: nodes are freed -/
  | gcFree (s' : Store)
  /-- end of a collection (`gc_ongoing.unlock()`): nothing observable in the code as it is -/
  | gcEnd
  | reorder (s' : Store) (hs' : List Edge)
  | addVars (k : Nat)
  | setCacheAll (b : Bool)
  /-- `sat_count(vars)` of handle `i` through the long-lived cache, with recursion fuel -/
  | count (i : Nat) (vars : Nat) (fuel : Nat)

/-- one step; the second component is the result of a `count` -/
def HOp.run : HOp → HState → HState × Option Nat
  | .ext s' e, st => (⟨{ st.mgr with store := s', handles := st.mgr.handles ++ [e] }, st.cache⟩, none)
  | .clone i, st =>
    (⟨{ st.mgr with handles := st.mgr.handles ++ (st.mgr.handles[i]?).toList }, st.cache⟩, none)
  | .drop i, st => (⟨{ st.mgr with handles := st.mgr.handles.eraseIdx i }, st.cache⟩, none)
  | .gc s', st => (⟨{ st.mgr with store := s', gcCount := st.mgr.gcCount + 1 }, st.cache⟩, none)
  | .gcBegin, st => (⟨{ st.mgr with gcCount := st.mgr.gcCount + 1 }, st.cache⟩, none)
  | .gcFree s', st => (⟨{ st.mgr with store := s' }, st.cache⟩, none)
  | .gcEnd, st => (st, none)
  | .reorder s' hs', st =>
    (⟨{ st.mgr with store := s', handles := hs', gcCount := st.mgr.gcCount + 1 }, st.cache⟩, none)
  | .addVars k, st => (⟨{ st.mgr with numVars := st.mgr.numVars + k }, st.cache⟩, none)
  | .setCacheAll b, st => (⟨st.mgr, { st.cache with cacheAll := b }⟩, none)
  | .count i vars fuel, st =>
    match st.mgr.handles[i]? with
    | none => (st, none)
    | some e =>
      let r := satCountS st.mgr.store st.mgr.rc st.mgr.gcCount fuel st.cache e vars
      (⟨st.mgr, r.1⟩, some r.2)

/-- every live handle denotes a tree -/
def Mgr.HandlesOK (m : Mgr) : Prop := ∀ e, e ∈ m.handles → ∃ t, Denotes m.store e t

/-- side conditions of a step (what the operations of the library guarantee) -/
def HOp.Valid : HOp → HState → Prop
  | .ext s' e, st => st.mgr.store.Le s' ∧ ∃ t, Denotes s' e t
  | .gc s', st => StableOn st.mgr.handles st.mgr.store s'
  | .gcFree s', st => StableOn st.mgr.handles st.mgr.store s'
  | .reorder s' hs', _ => ∀ e, e ∈ hs' → ∃ t, Denotes s' e t
  | .count i _ fuel, st => ∀ e t, st.mgr.handles[i]? = some e → Denotes st.mgr.store e t → t.size ≤ fuel
  | _, _ => True

/-- collections are atomic: the history does not free nodes outside `gc` / `reorder` -/
def HOp.Atomic : HOp → Prop
  | .gcFree _ => False
  | _ => True

def runAll : List HOp → HState → HState × List (Option Nat)
  | [], st => (st, [])
  | o :: os, st =>
    let r := o.run st
    let rs := runAll os r.1
    (rs.1, r.2 :: rs.2)

def ValidAll : List HOp → HState → Prop
  | [], _ => True
  | o :: os, st => o.Valid st ∧ ValidAll os (o.run st).1

/-! ## concrete instances of the abstract steps (used by the witnesses and the driver) -/

/-- iterate `sweep` until nothing changes (at most `k` times): the cascade of a collection (a freed
node releases its children, which live on lower levels and are visited later in the same pass) -/
def sweepN (roots : List Edge) : Nat → Store → Store
  | 0, s => s
  | k+1, s =>
    let s' := s.sweep roots
    if s'.nodes = s.nodes then s else sweepN roots k s'

/-- the collection of the index manager on the id store -/
def gcS (m : Mgr) : Store := sweepN m.handles m.store.nodes.size m.store

theorem sweepN_stable (roots : List Edge) : ∀ (k : Nat) (s : Store), StableOn roots s (sweepN roots k s)
  | 0, _ => StableOn.refl _ _
  | k+1, s => by
    simp only [sweepN]
    split
    · exact StableOn.refl _ _
    · exact (sweep_stable s roots).trans (sweepN_stable roots k _)

theorem gcS_valid (st : HState) : (HOp.gc (gcS st.mgr)).Valid st := sweepN_stable _ _ _

/-! ## executable checks of the side conditions (for concrete histories: witnesses, driver) -/

/-- unfold an edge into the tree it denotes (`none`: dangling edge or fuel exhausted) -/
def unfoldS? (s : Store) : Nat → Edge → Option BDD
  | _, .term b => some (.leaf b)
  | 0, .inner _ => none
  | fuel+1, .inner i =>
    match s.get? i with
    | none => none
    | some n =>
      match unfoldS? s fuel n.t, unfoldS? s fuel n.e with
      | some t, some e => some (.node n.level t e)
      | _, _ => none

/-- `s.Le s'`, checked slot by slot -/
def leB (s s' : Store) : Bool :=
  (List.range s.nodes.size).all fun i =>
    match s.get? i with
    | none => true
    | some n => s'.get? i == some n

/-- the edges of `H` unfold to the same trees in `s` and `s'` -/
def stableB (F : Nat) (H : List Edge) (s s' : Store) : Bool :=
  H.all fun e =>
    match unfoldS? s F e with
    | none => false
    | some t => unfoldS? s' F e == some t

/-- `HOp.Valid`, decided with unfolding fuel `F` -/
def HOp.validB (F : Nat) : HOp → HState → Bool
  | .ext s' e, st => leB st.mgr.store s' && (unfoldS? s' F e).isSome
  | .gc s', st => stableB F st.mgr.handles st.mgr.store s'
  | .gcFree s', st => stableB F st.mgr.handles st.mgr.store s'
  | .reorder s' hs', _ => hs'.all fun e => (unfoldS? s' F e).isSome
  | .count i _ fuel, st =>
    match st.mgr.handles[i]? with
    | none => true
    | some e =>
      match unfoldS? st.mgr.store F e with
      | none => false
      | some t => decide (t.size ≤ fuel)
  | _, _ => true

def validAllB (F : Nat) : List HOp → HState → Bool
  | [], _ => true
  | o :: os, st => o.validB F st && validAllB F os (o.run st).1

end OxiddModel.Bdd.CountS
