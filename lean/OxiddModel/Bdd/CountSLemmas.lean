import OxiddModel.Bdd.CountS
import OxiddModel.Bdd.PropertiesC12

/-!
# Lemmas about the memoised model count on the id store

`CacheOK s c`: every entry of the cache map is the tree-level count (for `c.vars`) of the tree its
node id denotes in `s`. `innerS_spec`: the recursion of `sat_count_edge` started with such a cache
returns the tree-level `satCount` of the denoted tree and leaves such a cache — for every store,
every `ref_count` function (i.e. whatever nodes the in-degree rule selects), every flag.
-/
namespace OxiddModel.Bdd.CountS
open OxiddModel.Bdd OxiddModel.Bdd.BDD OxiddModel.Bdd.Refine

/-- every entry is the count (for the cache's `vars`) of the tree its id denotes -/
def CacheOK (s : Store) (c : CountCache) : Prop :=
  ∀ id n, (id, n) ∈ c.map → ∃ t, Denotes s (.inner id) t ∧ n = satCount c.vars t

theorem CacheOK.mono {s s' : Store} {c : CountCache} (h : CacheOK s c) (hle : s.Le s') :
    CacheOK s' c := by
  intro id n hm
  obtain ⟨t, hd, hn⟩ := h id n hm
  exact ⟨t, hd.mono hle, hn⟩

theorem CacheOK.empty (s : Store) (v ep : Nat) (b : Bool) : CacheOK s ⟨[], v, ep, b⟩ := by
  intro id n hm; cases hm

theorem CacheOK.setAll {s : Store} {c : CountCache} (h : CacheOK s c) (b : Bool) :
    CacheOK s { c with cacheAll := b } := h

theorem CacheOK.insert {s : Store} {c : CountCache} (h : CacheOK s c) {i : Nat} {t : BDD}
    (hd : Denotes s (.inner i) t) : CacheOK s (c.insert i (satCount c.vars t)) := by
  intro id n hm
  simp only [CountCache.insert, List.mem_cons] at hm
  rcases hm with hm | hm
  · cases hm; exact ⟨t, hd, rfl⟩
  · exact h id n hm

/-- postcondition of the recursion -/
structure InnerPost (s : Store) (c : CountCache) (t : BDD) (r : CountCache × Nat) : Prop where
  val : r.2 = satCount c.vars t
  ok : CacheOK s r.1
  vars : r.1.vars = c.vars
  epoch : r.1.epoch = c.epoch
  all : r.1.cacheAll = c.cacheAll
  sub : ∀ x, x ∈ c.map → x ∈ r.1.map

theorem innerS_spec (s : Store) (rc : Nat → Nat) : ∀ (fuel : Nat) (c : CountCache) (e : Edge)
    (t : BDD) (tv : Nat), tv = 2 ^ c.vars → CacheOK s c → Denotes s e t → t.size ≤ fuel →
    InnerPost s c t (innerS s rc tv fuel c e) := by
  intro fuel
  induction fuel with
  | zero =>
    intro c e t tv _ _ _ hsz
    have := size_pos t
    omega
  | succ fuel ih =>
    intro c e t tv htv hok hd hsz
    cases hd with
    | @term b =>
      simp only [innerS]
      exact ⟨by simp [satCount, htv], hok, rfl, rfl, rfl, fun _ h => h⟩
    | @inner i l et ee tt te hi ht he =>
      simp only [size] at hsz
      simp only [innerS, hi]
      cases hl : (if (c.cacheAll || decide (rc i > 1)) = true then c.map.lookup i else none) with
      | some v =>
        simp only
        split at hl
        · obtain ⟨t', hd', hv⟩ := hok i v (lookup_mem hl)
          have := Denotes.functional hd' (Denotes.inner hi ht he)
          subst this
          exact ⟨hv, hok, rfl, rfl, rfl, fun _ h => h⟩
        · cases hl
      | none =>
        simp only
        have P1 := ih c et tt tv htv hok ht (by omega)
        have P0 := ih (innerS s rc tv fuel c et).1 ee te tv (by rw [P1.vars]; exact htv) P1.ok he
          (by omega)
        have hval : ((innerS s rc tv fuel c et).2 +
            (innerS s rc tv fuel (innerS s rc tv fuel c et).1 ee).2) >>> 1 =
            satCount c.vars (.node l tt te) := by
          rw [P1.val, P0.val, P1.vars]; rfl
        rw [hval]
        split
        · have hins := P0.ok.insert (i := i) (t := .node l tt te) (.inner hi ht he)
          rw [P0.vars, P1.vars] at hins
          refine ⟨rfl, hins, ?_, ?_, ?_, ?_⟩
          · simp only [CountCache.insert]; rw [P0.vars, P1.vars]
          · simp only [CountCache.insert]; rw [P0.epoch, P1.epoch]
          · simp only [CountCache.insert]; rw [P0.all, P1.all]
          · intro x hx
            simp only [CountCache.insert]
            exact List.mem_cons_of_mem _ (P0.sub x (P1.sub x hx))
        · exact ⟨rfl, P0.ok, by rw [P0.vars, P1.vars], by rw [P0.epoch, P1.epoch],
            by rw [P0.all, P1.all], fun x hx => P0.sub x (P1.sub x hx)⟩

/-- `clear_if_invalid` establishes `CacheOK` from "valid if the epoch is current" -/
theorem clearIfInvalid_spec (s : Store) (c : CountCache) (gcCount vars : Nat)
    (h : c.epoch = gcCount → CacheOK s c) :
    CacheOK s (c.clearIfInvalid gcCount vars) ∧ (c.clearIfInvalid gcCount vars).epoch = gcCount ∧
    (c.clearIfInvalid gcCount vars).vars = vars ∧
    (c.clearIfInvalid gcCount vars).cacheAll = c.cacheAll := by
  unfold CountCache.clearIfInvalid
  split
  · exact ⟨CacheOK.empty _ _ _ _, rfl, rfl, rfl⟩
  · rename_i hne
    have h1 : gcCount = c.epoch := Classical.byContradiction fun x => hne (.inl x)
    have h2 : vars = c.vars := Classical.byContradiction fun x => hne (.inr x)
    exact ⟨h h1.symm, h1.symm, h2.symm, rfl⟩

/-! ## soundness of the executable side-condition checks -/

theorem unfoldS?_sound {s : Store} (fuel : Nat) : ∀ {x : Edge} {a : BDD},
    unfoldS? s fuel x = some a → Denotes s x a := by
  induction fuel with
  | zero =>
    intro x a h
    cases x with
    | term b => simp only [unfoldS?, Option.some.injEq] at h; subst h; exact .term
    | inner i => simp [unfoldS?] at h
  | succ fuel ih =>
    intro x a h
    cases x with
    | term b => simp only [unfoldS?, Option.some.injEq] at h; subst h; exact .term
    | inner i =>
      simp only [unfoldS?] at h
      cases hi : s.get? i with
      | none => simp [hi] at h
      | some n =>
        simp only [hi] at h
        cases ht : unfoldS? s fuel n.t with
        | none => simp [ht] at h
        | some t =>
          cases he : unfoldS? s fuel n.e with
          | none => simp [ht, he] at h
          | some e =>
            simp only [ht, he, Option.some.injEq] at h
            subst h
            obtain ⟨l, nt, ne⟩ := n
            exact .inner hi (ih ht) (ih he)

theorem leB_sound {s s' : Store} (h : leB s s' = true) : s.Le s' := by
  intro i n hi
  have hlt : i < s.nodes.size := by
    apply Classical.byContradiction
    intro hge
    have : s.nodes[i]? = none := Array.getElem?_eq_none (by omega)
    simp [Store.get?, this] at hi
  have := List.all_eq_true.mp h i (List.mem_range.mpr hlt)
  simp only [hi] at this
  exact beq_iff_eq.mp this

theorem stableB_sound {F : Nat} {H : List Edge} {s s' : Store} (h : stableB F H s s' = true) :
    StableOn H s s' := by
  intro e he t hd
  have := List.all_eq_true.mp h e he
  cases hu : unfoldS? s F e with
  | none => simp [hu] at this
  | some t' =>
    simp only [hu] at this
    have h1 := unfoldS?_sound F hu
    have h2 := unfoldS?_sound F (beq_iff_eq.mp this)
    rw [Denotes.functional hd h1]
    exact h2

theorem HOp.validB_sound {F : Nat} (o : HOp) (st : HState) (h : o.validB F st = true) :
    o.Valid st := by
  cases o with
  | ext s' e =>
    simp only [HOp.validB, Bool.and_eq_true] at h
    refine ⟨leB_sound h.1, ?_⟩
    cases hu : unfoldS? s' F e with
    | none => simp [hu] at h
    | some t => exact ⟨t, unfoldS?_sound F hu⟩
  | gc s' => exact stableB_sound h
  | gcFree s' => exact stableB_sound h
  | reorder s' hs' =>
    intro e he
    have := List.all_eq_true.mp h e he
    cases hu : unfoldS? s' F e with
    | none => simp [hu] at this
    | some t => exact ⟨t, unfoldS?_sound F hu⟩
  | count i vars fuel =>
    intro e t hg hd
    simp only [HOp.validB, hg] at h
    cases hu : unfoldS? st.mgr.store F e with
    | none => simp [hu] at h
    | some t' =>
      simp only [hu, decide_eq_true_eq] at h
      rw [Denotes.functional hd (unfoldS?_sound F hu)]
      exact h
  | _ => trivial

theorem validAllB_sound {F : Nat} : ∀ (ops : List HOp) (st : HState), validAllB F ops st = true →
    ValidAll ops st := by
  intro ops
  induction ops with
  | nil => intro _ _; trivial
  | cons o os ih =>
    intro st h
    simp only [validAllB, Bool.and_eq_true] at h
    exact ⟨o.validB_sound st h.1, ih _ h.2⟩

end OxiddModel.Bdd.CountS
