import OxiddModel.Util.Proto
import OxiddModel.Bdd.CountS

/-!
# Driver of the protocol `countcache` (C12, cache half)

Runs the id-store model of `CountS.lean` — the very `HOp.run` / `satCountS` / `innerS` /
`CountCache.clearIfInvalid` that `PropertiesC12S.lean` is about — on the operation lines of
`harness/src/bin/c12_cache.rs` and prints, after every `count`, the result, the size of the cache
map before and after, and the canonicalised content of the map (level and structural hash of the
tree of every cached id, with the stored number, sorted).

Model of the harness operations in terms of `HOp`:
* `build h tt` — Shannon expansion in the current level order; the Rust side creates the nodes of
  the result and the variable nodes `(l, T, F)` of the levels the result mentions: `HOp.ext s' e`
  with `s'` = those variable nodes and the tree interned into the store;
* `clone`, `drop` — `HOp.clone`, `HOp.drop`;
* `gc` — `HOp.gc (gcS mgr)` (iterated `Store.sweep` from the live handles);
* `reorder o` — nothing if the order is unchanged (the library returns early, `gc_count` stays);
  otherwise `HOp.reorder s' hs'` with the handles' functions re-expanded in the new order and
  interned into an empty store (the generator collects before it reorders, and `level_swap`
  removes orphans at once, so the real store holds exactly the reachable nodes afterwards:
  `nodes=` is compared);
* `addvars k` — `HOp.addVars k`; `cacheall b` — `HOp.setCacheAll b`;
* `newcache` — the cache object is replaced by `CountCache.new` (flag kept, as the harness does);
* `count h vars` — `HOp.count i vars fuel`;
* `racegc p r` — oracle-only (the interleaving of `count_during_collection_wrong` on the real
  code): answered `ok`.
-/
namespace OxiddModel.Bdd.CountS.Driver
open OxiddModel OxiddModel.Bdd OxiddModel.Bdd.BDD OxiddModel.Bdd.Refine OxiddModel.Bdd.CountS

structure DState where
  st : Option HState := none
  names : List String := []
  /-- level → variable -/
  order : List Nat := []

/-! ## truth tables and trees -/

def hexVal (c : Char) : Option Nat :=
  if '0' ≤ c ∧ c ≤ '9' then some (c.toNat - '0'.toNat)
  else if 'a' ≤ c ∧ c ≤ 'f' then some (c.toNat - 'a'.toNat + 10)
  else if 'A' ≤ c ∧ c ≤ 'F' then some (c.toNat - 'A'.toNat + 10)
  else none

/-- table as a bit set: bit `a` is the value under assignment `a`; digit `i` holds bits `4i..4i+3` -/
def parseTT (hex : String) (n : Nat) : Option Nat :=
  let cs := hex.toList
  let rec go : List Char → Nat → Nat → Option Nat
    | [], _, acc => some acc
    | c :: cs, i, acc =>
      match hexVal c with
      | none => none
      | some d => go cs (i + 1) (acc + d <<< (4 * i))
  match go cs 0 0 with
  | none => none
  | some tt => if cs.length * 4 < 2 ^ n ∨ tt ≥ 2 ^ (2 ^ n) then none else some tt

/-- Shannon expansion along the level order, with the reduction rule (`mk`) -/
def shannon (f : Nat → Bool) : Nat → List Nat → Nat → BDD
  | _, [], a => .leaf (f a)
  | l, v :: vs, a => mk l (shannon f (l + 1) vs (a ||| (1 <<< v))) (shannon f (l + 1) vs a)

def levelsOf : BDD → List Nat → List Nat
  | .leaf _, acc => acc
  | .node l t e, acc =>
    let acc := if acc.contains l then acc else l :: acc
    levelsOf e (levelsOf t acc)

/-- value of a tree (over levels) under an assignment of the variables, given level → variable -/
def evalVars (order : List Nat) (t : BDD) (a : Nat) : Bool :=
  t.eval fun l => a.testBit (order.getD l 0)

/-! ## canonical printing -/

def treeStr : BDD → String
  | .leaf b => if b then "T" else "F"
  | .node l t e => s!"({l} {treeStr t} {treeStr e})"

def mix (l a b : UInt64) : UInt64 :=
  let h := (l + 3) * 0x00000100000001B3
  let h := (h ^^^ a) * 0x9E3779B97F4A7C15
  let h := (h ^^^ (b >>> 7) ^^^ (b <<< 13)) * 0xC2B2AE3D27D4EB4F
  h ^^^ (h >>> 29)

def treeHash : BDD → UInt64
  | .leaf b => if b then 1 else 2
  | .node l t e => mix l.toUInt64 (treeHash t) (treeHash e)

def hex16 (x : UInt64) : String :=
  let ds := (Nat.toDigits 16 x.toNat)
  String.ofList (List.replicate (16 - ds.length) '0' ++ ds)

def occupied (s : Store) : Nat := (s.nodes.toList.filter Option.isSome).length

/-- insertion sort on strings (byte order, as Rust's `sort()` on `String`s of ASCII) -/
def insertStr (x : String) : List String → List String
  | [] => [x]
  | y :: ys => if x ≤ y then x :: y :: ys else y :: insertStr x ys

def sortStr (l : List String) : List String := l.foldr insertStr []

def entryStr (s : Store) (p : Nat × Nat) : String :=
  match unfoldS? s 64 (.inner p.1) with
  | some (.node l t e) => s!"{l}:{hex16 (treeHash (.node l t e))}={p.2}"
  | _ => s!"dangling={p.2}"

/-! ## the steps -/

def idxOf (names : List String) (h : String) : Option Nat :=
  let i := names.findIdx (· == h)
  if i < names.length then some i else none

def parseOrder (w : String) : Option (List Nat) :=
  (w.splitOn ",").mapM String.toNat?

def isPerm (o : List Nat) (n : Nat) : Bool :=
  o.length == n && (List.range n).all o.contains

def step (d : DState) (line : String) : DState × String :=
  let bad := (d, "bad-op")
  match words line, d.st with
  | ["mgr", n], none =>
    match n.toNat? with
    | some n =>
      if n > 12 then bad
      else ({ st := some ⟨{ Mgr.new with numVars := n }, CountCache.new⟩, names := [],
              order := List.range n }, "ok")
    | none => bad
  | ["racegc", p, r], _ =>
    -- oracle-only operation of the harness (a count inside a collection on another thread, on a
    -- manager of its own); nothing to predict
    match p.toNat?, r.toNat? with
    | some p, some _ => if p < 2 ∨ p > 20 then bad else (d, "ok")
    | _, _ => bad
  | _, none => bad
  | ["build", h, hex], some st =>
    match parseTT hex st.mgr.numVars with
    | none => bad
    | some tt =>
      if d.names.contains h then bad else
      let t := shannon tt.testBit 0 d.order 0
      -- the variable nodes touched by `BDDFunction::var`, then the result
      let s1 := (levelsOf t []).foldl (fun s l => (intern s (.node l (.leaf true) (.leaf false))).1)
        st.mgr.store
      let r := intern s1 t
      let st' := ((HOp.ext r.1 r.2).run st).1
      ({ d with st := some st', names := d.names ++ [h] }, s!"{treeStr t} nodes={occupied r.1}")
  | ["clone", h, h2], some st =>
    match idxOf d.names h with
    | none => bad
    | some i =>
      if d.names.contains h2 then bad else
      ({ d with st := some ((HOp.clone i).run st).1, names := d.names ++ [h2] }, "ok")
  | ["drop", h], some st =>
    match idxOf d.names h with
    | none => bad
    | some i => ({ d with st := some ((HOp.drop i).run st).1, names := d.names.eraseIdx i }, "ok")
  | ["gc"], some st =>
    let s' := gcS st.mgr
    ({ d with st := some ((HOp.gc s').run st).1 }, s!"nodes={occupied s'} bump=1")
  | ["reorder", o], some st =>
    match parseOrder o with
    | none => bad
    | some o =>
      if !isPerm o st.mgr.numVars then bad else
      if o = d.order then
        (d, s!"nodes={occupied st.mgr.store} bump=0 order={",".intercalate (o.map toString)}")
      else
        -- re-expand every handle's function in the new order, into an empty store
        let trees := st.mgr.handles.map fun e =>
          match unfoldS? st.mgr.store 64 e with
          | some t => shannon (evalVars d.order t) 0 o 0
          | none => .leaf false
        let r := trees.foldl (fun (acc : Store × List Edge) t =>
          let x := intern acc.1 t; (x.1, acc.2 ++ [x.2])) (⟨#[]⟩, [])
        let st' := ((HOp.reorder r.1 r.2).run st).1
        ({ d with st := some st', order := o },
          s!"nodes={occupied r.1} bump=1 order={",".intercalate (o.map toString)}")
  | ["addvars", k], some st =>
    match k.toNat? with
    | none => bad
    | some k =>
      if st.mgr.numVars + k > 12 then bad else
      let st' := ((HOp.addVars k).run st).1
      ({ d with st := some st', order := d.order ++ (List.range k).map (· + st.mgr.numVars) },
        s!"n={st'.mgr.numVars} bump=0")
  | ["cacheall", b], some st =>
    ({ d with st := some ((HOp.setCacheAll (b == "1")).run st).1 }, "ok")
  | ["newcache"], some st =>
    ({ d with st := some ⟨st.mgr, { CountCache.new with cacheAll := st.cache.cacheAll }⟩ }, "ok")
  | ["count", h, vars], some st =>
    match idxOf d.names h, vars.toNat? with
    | some i, some vars =>
      if vars < st.mgr.numVars ∨ vars > 40 then bad else
      let before := st.cache.map.length
      let r := (HOp.count i vars 64).run st
      let c := r.1.cache
      let entries := sortStr (c.map.map (entryStr st.mgr.store))
      ({ d with st := some r.1 },
        s!"count={r.2.getD 0} before={before} after={c.map.length} cache={",".intercalate entries}")
    | _, _ => bad
  | _, _ => bad

def proto : Proto := { σ := DState, init := {}, step := step }

end OxiddModel.Bdd.CountS.Driver
