import OxiddModel.Util.Proto
import OxiddModel.Bdd.DriverRc
import OxiddModel.Bdd.RcQ
import Std.Data.HashMap

/-!
Line-protocol driver `bdd-rcq`: a superset of `bdd-rc` (`DriverRc.lean`; every line that driver
knows is handed to it unchanged). Additional lines, in the syntax of the `bdd` protocol
(`Driver.lean`, `harness/src/bf.rs`, `harness/src/kinds.rs`), executed on the counter model
`RcQ.lean` under the capacity `nodes=` of the `mgr` line with the exact apply cache:

* `quant h forall|exists|unique f hvars` (`quantR`), `applyq h <q> <op> f g hvars`
  (`applyQuantR`): `hvars` must be a positive cube (else `bad-op`, as in the harness);
* `restrict h f hcube` (`restrictR`), `pickset h f hcube` (`pickCubeDDSetR`): `hcube` must be a
  cube of literals; `pick h f <choice bits>` (`pickCubeDDR`);
* `mksubst <sid> v=h …`: a substitution object — it holds a **clone** of every replacement
  (counted external references) and a fresh identifier; an object of the same name is dropped
  afterwards; `dropsubst <sid>` drops the clones; `subst h f <sid>` = `substitute_edge`
  (`substituteEdgeR`: `substitute_prepare` — clones of the replacements, variable nodes for the
  other levels, all counted —, `substitute`, drop of the vector).

`dump` (complete store with `ref_count()`), `gc`, `rc`, `ninner` are those of `bdd-rc`.
The variable order is the identity.
-/
namespace OxiddModel.Bdd.DriverRcQ
open OxiddModel OxiddModel.Bdd OxiddModel.Bdd.Refine OxiddModel.Bdd.Rc OxiddModel.Bdd.DriverRc

structure QSt where
  d : DSt := {}
  /-- substitution objects: identifier and (level, counted replacement edge) pairs -/
  substs : Std.HashMap String (Nat × List (Nat × Edge)) := {}
  nextId : Nat := 0

def parseQuant : String → Option Quant
  | "forall" => some .forall_ | "exists" => some .exists_ | "unique" => some .unique
  | _ => none

def parseBin (s : String) : Nat := s.foldl (fun a c => 2 * a + (if c == '1' then 1 else 0)) 0

/-- fuel for the recursions and for the inner `set_pop` / `apply_bin` / `apply_ite` calls -/
def fuelQ (d : DSt) : Nat := 4 * d.n + 32

/-- the diagram of a conjunction of positive literals (a variable set) -/
def isPosCube (s : Store) : Nat → Edge → Bool
  | 0, _ => false
  | _+1, .term b => b
  | fuel+1, .inner i =>
    match s.get? i with
    | some n => n.e == .term false && isPosCube s fuel n.t
    | none => false

/-- the diagram of a conjunction of literals -/
def isLitCube (s : Store) : Nat → Edge → Bool
  | 0, _ => false
  | _+1, .term b => b
  | fuel+1, .inner i =>
    match s.get? i with
    | some n =>
      (n.e == .term false && isLitCube s fuel n.t) || (n.t == .term false && isLitCube s fuel n.e)
    | none => false

def lift (q : QSt) (x : DSt × String) : QSt × String := ({ q with d := x.1 }, x.2)

def parsePairs (d : DSt) (pairs : List String) : Option (List (Nat × Edge)) :=
  pairs.mapM fun p =>
    match p.splitOn "=" with
    | [v, hn] =>
      match v.toNat?, d.h[hn]? with
      | some v, some e => some (v, e)
      | _, _ => none
    | _ => none

def step (q : QSt) (line : String) : QSt × String :=
  let d := q.d
  let ws := words line
  match ws with
  | "mgr" :: _ => ({ d := (DriverRc.step d line).1 }, (DriverRc.step d line).2)
  | ["quant", name, qn, a, vs] =>
    match parseQuant qn, d.h[a]?, d.h[vs]? with
    | some qq, some f, some vars =>
      if isPosCube d.r.st.store (fuelQ d) vars then
        lift q (put d name (quantR d.cap Policy.exact qq (fuelQ d) (fuelQ d) d.r f vars))
      else (q, "bad-op")
    | _, _, _ => (q, "bad-op")
  | ["applyq", name, qn, op, a, b, vs] =>
    match parseQuant qn, parseOp op, d.h[a]?, d.h[b]?, d.h[vs]? with
    | some qq, some op, some f, some g, some vars =>
      if isPosCube d.r.st.store (fuelQ d) vars then
        lift q (put d name (applyQuantR d.cap Policy.exact qq op (fuelQ d) (fuelQ d) d.r f g vars))
      else (q, "bad-op")
    | _, _, _, _, _ => (q, "bad-op")
  | ["restrict", name, a, b] =>
    match d.h[a]?, d.h[b]? with
    | some f, some c =>
      if isLitCube d.r.st.store (fuelQ d) c then
        lift q (put d name (restrictR d.cap Policy.exact (fuelQ d) d.r f c))
      else (q, "bad-op")
    | _, _ => (q, "bad-op")
  | ["pick", name, a, bits] =>
    match d.h[a]? with
    | some f =>
      lift q (put d name (pickCubeDDR d.cap (fun l => (parseBin bits).testBit l) (fuelQ d) d.r f))
    | none => (q, "bad-op")
  | ["pickset", name, a, b] =>
    match d.h[a]?, d.h[b]? with
    | some f, some ls =>
      if isLitCube d.r.st.store (fuelQ d) ls then
        lift q (put d name (pickCubeDDSetR d.cap (fuelQ d) (fuelQ d) d.r f ls))
      else (q, "bad-op")
    | _, _ => (q, "bad-op")
  | "mksubst" :: sid :: pairs =>
    match parsePairs d pairs with
    | some ps =>
      -- `reps.push(f.clone())` for every pair, then the old object of that name (if any) is dropped
      let r1 := cloneAll d.r (ps.map (·.2))
      let r2 := match q.substs[sid]? with
        | some old => dropAll r1 (old.2.map (·.2))
        | none => r1
      ({ q with d := { d with r := r2 }, substs := q.substs.insert sid (q.nextId, ps),
                nextId := q.nextId + 1 }, "ok")
    | none => (q, "bad-op")
  | ["subst", name, a, sid] =>
    match d.h[a]?, q.substs[sid]? with
    | some f, some (id, ps) =>
      lift q (put d name (substituteEdgeR d.cap Policy.exact ps id (fuelQ d) (fuelQ d) d.r f))
    | _, _ => (q, "bad-op")
  | ["dropsubst", sid] =>
    match q.substs[sid]? with
    | some old =>
      ({ q with d := { d with r := dropAll d.r (old.2.map (·.2)) }, substs := q.substs.erase sid }, "ok")
    | none => (q, "bad-op")
  | _ => lift q (DriverRc.step d line)

def proto : Proto := { σ := QSt, init := {}, step := step }

end OxiddModel.Bdd.DriverRcQ
