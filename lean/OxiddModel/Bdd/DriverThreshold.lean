import OxiddModel.Util.Proto
import OxiddModel.Bdd.ThresholdQ

/-!
Line-protocol driver `c14t`: the **store-level** model with a node capacity, executed beside the
real index-based BDD manager (scenario `c14_threshold`). Unlike the `bdd` driver (tree level, no
notion of a slot) it keeps the id-indexed `Refine.Store` with all garbage, the apply cache
(`Policy.exact`, cleared by `gc`) and the handle table, runs `applyC/notC/iteC/quantC/
applyQuantC/restrictC/substituteEdgeC` with the capacity left by the ballast, and prints for every
operation `OOM` or the canonical tree of the result followed by the number of nodes the
operation added (`+d`). So every line is a prediction of *whether* the real operation runs out of
memory, *what* it returns and *how many* slots it takes.

Ballast (nodes over variables no operand uses) is not stored in the model: `ballast j` computes how
many ballast nodes leave exactly `j` slots free (`cap − count − j`, printed, so the real manager's
count — garbage included — is compared with the model's) and the capacity handed to the
algorithms is `cap − ballast`.

Variables are identified with levels (the scenario never reorders).
-/
namespace OxiddModel.Bdd.ThresholdDriver
open OxiddModel OxiddModel.Bdd OxiddModel.Bdd.Refine

structure TSt where
  cap : Nat := 0
  ballast : Nat := 0
  st : Refine.St := ⟨⟨#[]⟩, [], 0⟩
  h : List (String × Edge) := []
  substs : List (String × Nat × List (Nat × Edge)) := []
  nextId : Nat := 0
  /-- free slots left by the last `ballast` line -/
  free : Option Nat := none
  /-- the current group (`begin` … `end`): the smallest number of free slots that succeeded -/
  grp : Option (Option Nat) := none

def fuelN : Nat := 100000

def pol : Policy := Policy.exact

partial def showE (s : Store) : Edge → String
  | .term true => "T"
  | .term false => "F"
  | .inner i =>
    match s.get? i with
    | some n => s!"(v{n.level} {showE s n.t} {showE s n.e})"
    | none => "?"

def parseOp : String → Option Op
  | "and" => some .and | "or" => some .or | "nand" => some .nand | "nor" => some .nor
  | "xor" => some .xor | "equiv" => some .equiv | "imp" => some .imp | "imp_strict" => some .impStrict
  | _ => none

def parseQuant : String → Option Quant
  | "forall" => some .forall_ | "exists" => some .exists_ | "unique" => some .unique
  | _ => none

namespace TSt

def get (s : TSt) (name : String) : Option Edge :=
  match name with
  | "T" => some (.term true)
  | "F" => some (.term false)
  | _ => s.h.lookup name

/-- the capacity the model store (without the ballast) may grow to -/
def capEff (s : TSt) : Nat := s.cap - s.ballast

def roots (s : TSt) : List Edge :=
  s.h.map (·.2) ++ s.substs.flatMap (fun x => x.2.2.map (·.2))

/-- `gc`: the cache is cleared and every node not reachable from a handle is removed (the real
collector frees a node and then, in the same collection, its children that became unreferenced:
the one-pass `sweep` is iterated until nothing changes) -/
def gcStore (roots : List Edge) : Nat → Store → Store
  | 0, st => st
  | n+1, st =>
    let st' := st.sweep roots
    if st'.count = st.count then st' else gcStore roots n st'

def gc (s : TSt) : TSt :=
  { s with st := ⟨gcStore s.roots (s.st.store.count + 1) s.st.store, [], s.st.tick⟩ }

/-- finish an operation: bind the handle on success; output `OOM` or `<tree> +<delta>` -/
def finish (s : TSt) (name : String) (before : Nat) (r : Option Edge × Refine.St) : TSt × String :=
  match r.1 with
  | none => ({ s with st := r.2 }, "OOM")
  | some e =>
    let grp := match s.grp, s.free with
      | some g, some j => some (some (match g with | some m => min m j | none => j))
      | g, _ => g
    let s' := { s with st := r.2, h := (name, e) :: s.h.filter (·.1 ≠ name), grp := grp }
    (s', s!"{showE r.2.store e} +{r.2.store.count - before}")

end TSt

/-- one literal: `get_or_insert(level, [⊤, ⊥])` / `[⊥, ⊤]` -/
def litC (cap : Nat) (st : Refine.St) (neg : Bool) (v : Nat) : Option Edge × Refine.St :=
  match st.store.mkNodeC cap v (.term (!neg)) (.term neg) with
  | none => (none, st)
  | some m => (some m.2, ⟨m.1, st.cache, st.tick⟩)

/-- a cube `⊤ ∧ l1 ∧ l2 ∧ …` built left to right; every literal and every partial conjunction is an
operation of its own -/
def cubeC (cap : Nat) : List (Bool × Nat) → Refine.St → Edge → Option Edge × Refine.St
  | [], st, acc => (some acc, st)
  | (neg, v) :: ls, st, acc =>
    match litC cap st neg v with
    | (none, st1) => (none, st1)
    | (some x, st1) =>
      match applyC cap pol .and fuelN st1 acc x with
      | (none, st2) => (none, st2)
      | (some acc', st2) => cubeC cap ls st2 acc'

def parseLit (w : String) : Option (Bool × Nat) :=
  match (w.drop 1).toString.toNat? with
  | some v => if w.startsWith "-" then some (true, v) else if w.startsWith "+" then some (false, v) else none
  | none => none

def parsePair (s : TSt) (w : String) : Option (Nat × Edge) :=
  match w.splitOn "=" with
  | [v, hname] =>
    match v.toNat?, s.get hname with
    | some v, some e => some (v, e)
    | _, _ => none
  | _ => none

def step (s : TSt) (line : String) : TSt × String :=
  let before := s.st.store.count
  let cap := s.capEff
  match words line with
  | "mgr" :: c :: _ =>
    match (c.drop 4).toString.toNat? with
    | some c => ({ cap := c }, "ok")
    | none => (s, "bad-op")
  | ["var", name, v] =>
    match v.toNat? with
    | some v => s.finish name before (litC cap s.st false v)
    | none => (s, "bad-op")
  | ["notvar", name, v] =>
    match v.toNat? with
    | some v => s.finish name before (litC cap s.st true v)
    | none => (s, "bad-op")
  | ["op", name, "not", f] =>
    match s.get f with
    | some f => s.finish name before (notC cap pol fuelN s.st f)
    | none => (s, "bad-op")
  | ["op", name, "ite", f, g, k] =>
    match s.get f, s.get g, s.get k with
    | some f, some g, some k => s.finish name before (iteC cap pol fuelN s.st f g k)
    | _, _, _ => (s, "bad-op")
  | ["op", name, o, f, g] =>
    match parseOp o, s.get f, s.get g with
    | some o, some f, some g => s.finish name before (applyC cap pol o fuelN s.st f g)
    | _, _, _ => (s, "bad-op")
  | "cube" :: name :: lits =>
    match lits.mapM parseLit with
    | some ls => s.finish name before (cubeC cap ls s.st (.term true))
    | none => (s, "bad-op")
  | ["quant", name, q, f, vs] =>
    match parseQuant q, s.get f, s.get vs with
    | some q, some f, some vs => s.finish name before (quantC cap pol q fuelN fuelN s.st f vs)
    | _, _, _ => (s, "bad-op")
  | ["applyq", name, q, o, f, g, vs] =>
    match parseQuant q, parseOp o, s.get f, s.get g, s.get vs with
    | some q, some o, some f, some g, some vs =>
      s.finish name before (applyQuantC cap pol q o fuelN fuelN s.st f g vs)
    | _, _, _, _, _ => (s, "bad-op")
  | ["restrict", name, f, cs] =>
    match s.get f, s.get cs with
    | some f, some cs => s.finish name before (restrictC cap pol fuelN s.st f cs)
    | _, _ => (s, "bad-op")
  | "mksubst" :: name :: pairs =>
    match pairs.mapM (parsePair s) with
    | some ps =>
      ({ s with substs := (name, s.nextId, ps) :: s.substs.filter (·.1 ≠ name), nextId := s.nextId + 1 }, "ok")
    | none => (s, "bad-op")
  | ["subst", name, f, sn] =>
    match s.get f, s.substs.lookup sn with
    | some f, some (id, ps) =>
      s.finish name before (substituteEdgeC cap pol ps id fuelN fuelN s.st f)
    | _, _ => (s, "bad-op")
  | ["drop", name] => ({ s with h := s.h.filter (·.1 ≠ name) }, "ok")
  | ["dropsubst", name] => ({ s with substs := s.substs.filter (·.1 ≠ name) }, "ok")
  | ["gc"] =>
    let s' := s.gc
    (s', s!"n={s'.st.store.count}")
  | ["nodes"] => (s, s!"n={s.st.store.count}")
  | ["ballast", j] =>
    match j.toNat? with
    | some j =>
      if s.ballast ≠ 0 ∨ s.st.store.count + j > s.cap then (s, "bad-op")
      else
        let k := s.cap - s.st.store.count - j
        ({ s with ballast := k, free := some j }, s!"ok {k}")
    | none => (s, "bad-op")
  | ["dropballast"] =>
    let s' := { s with ballast := 0, free := none }.gc
    (s', s!"n={s'.st.store.count}")
  | ["begin"] => ({ s with grp := some none }, "ok")
  | ["end"] =>
    match s.grp with
    | some (some j) => ({ s with grp := none }, s!"threshold={j}")
    | some none => ({ s with grp := none }, "threshold=none")
    | none => (s, "bad-op")
  | _ => (s, "bad-op")

def proto : OxiddModel.Proto := { σ := TSt, init := {}, step := step }

end OxiddModel.Bdd.ThresholdDriver
