import OxiddModel.Util.Proto
import OxiddModel.Bdd.Uniform
import OxiddModel.Bcdd.Uniform
import OxiddModel.Zbdd.Uniform
import Std.Data.HashMap

/-!
Line-protocol driver for the uniform sampler models (protocol `uniformprob`, Rust scenario
`c13_uniform`). One protocol serves the three Boolean kinds; a `kind bdd|bcdd|zbdd` line selects the
model for the following lines of the case.

```
kind bdd|bcdd|zbdd            -> ok
mgr <n> <v_0> … <v_{n-1}>     -> ok                      n variables, level i holds variable v_i
tt <h> <hex>                  -> the diagram             function with that truth table (bit a = value
                                                         under the assignment whose bit v is variable v)
allcounts <h>                 -> p_1 ; p_2 ; …           for every path of the sampler (then-first), the
                                                         pairs `v<var>:<t_count>:<e_count>` of the nodes
                                                         at which the closure is consulted (`-` if none);
                                                         `NONE` for the unsatisfiable function
pickseq <h> <a/b> …           -> <cube> | <ct:ce …> | <k>   the sampler on the random sequence a/b …:
                                                         returned vector, the counts computed, draws used
pickreal <h> <seed> <a/b> …   -> <cube>                  the same, vector only (the Rust side runs the real
                                                         `pick_cube_uniform` with `Rng::new_seed(seed)`; the
                                                         generator lists the numbers that generator yields)
pickuni <h> <seed> <reps>     -> ok                      oracle only
```
The diagram is built directly as the reduced ordered tree of the truth table under the given order
(Shannon expansion level by level through the kind's `mk`), independently of the apply algorithms
the Rust side uses; equality of the printed diagrams is canonicity.
-/
namespace OxiddModel.Bdd.DriverUniform

open OxiddModel

inductive Kind where
  | bdd | bcdd | zbdd
deriving DecidableEq, Repr, Inhabited

structure St where
  kind : Kind := .bdd
  n : Nat := 0
  l2v : Array Nat := #[]
  v2l : Array Nat := #[]
  hb : Std.HashMap String Bdd.BDD := {}
  hc : Std.HashMap String Bcdd.Edge := {}
  hz : Std.HashMap String Zbdd.ZDD := {}

namespace St
def lvl (s : St) (v : Nat) : Nat := s.v2l.getD v v
def vr (s : St) (l : Nat) : Nat := s.l2v.getD l l

partial def showB (s : St) : Bdd.BDD → String
  | .leaf true => "T"
  | .leaf false => "F"
  | .node l t e => s!"(v{s.vr l} {s.showB t} {s.showB e})"

mutual
partial def showN (s : St) : Bcdd.CNode → String
  | .top => "T"
  | .node l t en e => s!"(v{s.vr l} {s.showN t} {s.showE ⟨en, e⟩})"
partial def showE (s : St) (x : Bcdd.Edge) : String :=
  (if x.neg then "~" else "") ++ s.showN x.n
end

partial def showZ (s : St) : Zbdd.ZDD → String
  | .empty => "E"
  | .base => "B"
  | .node l hi lo => s!"(v{s.vr l} {s.showZ hi} {s.showZ lo})"
end St

def parseHex (s : String) : Nat :=
  s.foldl (fun a c =>
    let d := if c.isDigit then c.toNat - '0'.toNat
      else if 'a' ≤ c ∧ c ≤ 'f' then c.toNat - 'a'.toNat + 10
      else if 'A' ≤ c ∧ c ≤ 'F' then c.toNat - 'A'.toNat + 10 else 0
    16 * a + d) 0

def parseFrac (w : String) : Option Frac :=
  match w.splitOn "/" with
  | [a, b] =>
    match a.toNat?, b.toNat? with
    | some a, some b => some ⟨a, b⟩
    | _, _ => none
  | _ => none

def parseFracs (ws : List String) : Option (List Frac) := ws.mapM parseFrac

/-- reduced ordered tree of the truth table `tt` from level `l` on, variables of higher levels fixed
as in `fixed` -/
def buildB (s : St) (tt : Nat) : Nat → Nat → Nat → Bdd.BDD
  | 0, _, fixed => .leaf (tt.testBit fixed)
  | fuel + 1, l, fixed =>
    if l ≥ s.n then .leaf (tt.testBit fixed) else
    Bdd.mk l (buildB s tt fuel (l + 1) (fixed ||| (1 <<< s.vr l))) (buildB s tt fuel (l + 1) fixed)

def buildC (s : St) (tt : Nat) : Nat → Nat → Nat → Bcdd.Edge
  | 0, _, fixed => Bcdd.terminal (tt.testBit fixed)
  | fuel + 1, l, fixed =>
    if l ≥ s.n then Bcdd.terminal (tt.testBit fixed) else
    Bcdd.mk l (buildC s tt fuel (l + 1) (fixed ||| (1 <<< s.vr l))) (buildC s tt fuel (l + 1) fixed)

def buildZ (s : St) (tt : Nat) : Nat → Nat → Nat → Zbdd.ZDD
  | 0, _, fixed => if tt.testBit fixed then .base else .empty
  | fuel + 1, l, fixed =>
    if l ≥ s.n then (if tt.testBit fixed then .base else .empty) else
    Zbdd.mk l (buildZ s tt fuel (l + 1) (fixed ||| (1 <<< s.vr l))) (buildZ s tt fuel (l + 1) fixed)

/-! ## all sampler paths with the counts computed on them (then-first) -/

def allCountsB (vars : Nat) : Bdd.BDD → List (List (Nat × Nat × Nat))
  | .leaf true => [[]]
  | .leaf false => []
  | .node l t e =>
    if t = .leaf false then allCountsB vars e
    else if e = .leaf false then allCountsB vars t
    else
      let x := (l, Bdd.satCount vars t, Bdd.satCount vars e)
      (allCountsB vars t).map (x :: ·) ++ (allCountsB vars e).map (x :: ·)

def allCountsC (vars : Nat) : Bool → Bcdd.CNode → List (List (Nat × Nat × Nat))
  | tag, .top => if tag then [] else [[]]
  | tag, .node l t en e =>
    if Bcdd.isFalse ⟨tag, t⟩ then allCountsC vars (tag != en) e
    else if Bcdd.isFalse ⟨tag != en, e⟩ then allCountsC vars tag t
    else
      let x := (l, Bcdd.satCountGo vars tag t, Bcdd.satCountGo vars (tag != en) e)
      (allCountsC vars tag t).map (x :: ·) ++ (allCountsC vars (tag != en) e).map (x :: ·)

def allCountsZ (n : Nat) : Zbdd.ZDD → List (List (Nat × Nat × Nat))
  | .empty => []
  | .base => [[]]
  | .node l hi lo =>
    if hi = lo then allCountsZ n hi
    else if lo = .empty then allCountsZ n hi
    else
      let x := (l, Zbdd.satCount n n hi, Zbdd.satCount n n lo)
      (allCountsZ n hi).map (x :: ·) ++ (allCountsZ n lo).map (x :: ·)

def showAll (s : St) (ps : List (List (Nat × Nat × Nat))) : String :=
  if ps.isEmpty then "NONE" else
  " ; ".intercalate (ps.map fun p =>
    if p.isEmpty then "-" else joinSp (p.map fun x => s!"v{s.vr x.1}:{x.2.1}:{x.2.2}"))

def showCounts (cs : List (Nat × Nat)) : String :=
  if cs.isEmpty then "-" else joinSp (cs.map fun x => s!"{x.1}:{x.2}")

/-- the returned vector by variable number: `1`, `0`, `-` (don't care) -/
def cubeStr (s : St) (path : List (Nat × Bool)) : String :=
  String.ofList ((List.range s.n).map fun v =>
    match path.lookup (s.lvl v) with
    | some true => '1'
    | some false => '0'
    | none => '-')

/-- ZBDD: variables not on the path are false -/
def cubeStrZ (s : St) (path : List (Nat × Option Bool)) : String :=
  String.ofList ((List.range s.n).map fun v =>
    match path.lookup (s.lvl v) with
    | some (some true) => '1'
    | some (some false) => '0'
    | some none => '-'
    | none => '0')

/-- `(vector, counts, draws used)` of the sampler on the random sequence `rs` -/
def sample (s : St) (h : String) (rs : List Frac) : Option (Option (String × List (Nat × Nat))) :=
  match s.kind with
  | .bdd =>
    match s.hb[h]? with
    | some f =>
      match Bdd.pickUniform s.n rs f with
      | none => some none
      | some p => some (some (cubeStr s p, Bdd.uniformCounts s.n rs f))
    | none => none
  | .bcdd =>
    match s.hc[h]? with
    | some f =>
      match Bcdd.pickUniform s.n rs f with
      | none => some none
      | some p => some (some (cubeStr s p, Bcdd.uniformCounts s.n rs f.neg f.n))
    | none => none
  | .zbdd =>
    match s.hz[h]? with
    | some f =>
      match Zbdd.pickUniform s.n rs f with
      | none => some none
      | some p => some (some (cubeStrZ s p, Zbdd.uniformCounts s.n rs f))
    | none => none

def isPerm (n : Nat) (order : List Nat) : Bool :=
  order.length = n && order.all (· < n) && order.eraseDups.length = n

def step (s : St) (line : String) : St × String :=
  match words line with
  | ["kind", k] =>
    match k with
    | "bdd" => ({ kind := .bdd }, "ok")
    | "bcdd" => ({ kind := .bcdd }, "ok")
    | "zbdd" => ({ kind := .zbdd }, "ok")
    | _ => (s, "bad-op")
  | "mgr" :: n :: order =>
    match n.toNat?, order.mapM String.toNat? with
    | some n, some order =>
      if isPerm n order then
        let l2v := order.toArray
        let v2l := Id.run do
          let mut a := Array.replicate n 0
          for l in [0 : n] do
            a := a.set! (l2v.getD l 0) l
          return a
        ({ kind := s.kind, n := n, l2v := l2v, v2l := v2l }, "ok")
      else (s, "bad-op")
    | _, _ => (s, "bad-op")
  | ["tt", h, hex] =>
    let tt := parseHex hex
    match s.kind with
    | .bdd =>
      let f := buildB s tt (s.n + 1) 0 0
      ({ s with hb := s.hb.insert h f }, s.showB f)
    | .bcdd =>
      let f := buildC s tt (s.n + 1) 0 0
      ({ s with hc := s.hc.insert h f }, s.showE f)
    | .zbdd =>
      let f := buildZ s tt (s.n + 1) 0 0
      ({ s with hz := s.hz.insert h f }, s.showZ f)
  | ["allcounts", h] =>
    match s.kind with
    | .bdd =>
      match s.hb[h]? with
      | some f => (s, showAll s (allCountsB s.n f))
      | none => (s, "bad-op")
    | .bcdd =>
      match s.hc[h]? with
      | some f => (s, showAll s (allCountsC s.n f.neg f.n))
      | none => (s, "bad-op")
    | .zbdd =>
      match s.hz[h]? with
      | some f => (s, showAll s (allCountsZ s.n f))
      | none => (s, "bad-op")
  | "pickseq" :: h :: fr =>
    match parseFracs fr with
    | some rs =>
      match sample s h rs with
      | some none => (s, "NONE")
      | some (some (c, cs)) => (s, s!"{c} | {showCounts cs} | {cs.length}")
      | none => (s, "bad-op")
    | none => (s, "bad-op")
  | "pickreal" :: h :: seed :: fr =>
    match seed.toNat?, parseFracs fr with
    | some _, some rs =>
      match sample s h rs with
      | some none => (s, "NONE")
      | some (some (c, _)) => (s, c)
      | none => (s, "bad-op")
    | _, _ => (s, "bad-op")
  | ["stalecache", h, vars] =>
    -- the harness uses its count cache for another variable count; no effect on the model
    let known := match s.kind with
      | .bdd => s.hb.contains h
      | .bcdd => s.hc.contains h
      | .zbdd => s.hz.contains h
    if known && vars.toNat?.isSome then (s, "ok") else (s, "bad-op")
  | ["pickuni", h, seed, reps] =>
    let known := match s.kind with
      | .bdd => s.hb.contains h
      | .bcdd => s.hc.contains h
      | .zbdd => s.hz.contains h
    if known && seed.toNat?.isSome && reps.toNat?.isSome then (s, "ok") else (s, "bad-op")
  | _ => (s, "bad-op")

def proto : Proto := { σ := St, init := {}, step := step }

end OxiddModel.Bdd.DriverUniform
