import OxiddModel.Bdd.Store
import OxiddModel.Bdd.Count

/-!
# Garbage collection and reference counts of the node store — lemmas for C05

`Store.lean` models the unique table as a duplicate-free list of inner-node trees, `rc` as the
number of live handles plus stored parent edges, and `gc` as the single top-down pass of
`Manager::gc` (index manager): level by level, `retain` the nodes whose count is non-zero.

The central result is `gcLevels_range_inv`: after the levels `< k` have been visited the store is
`{n ∈ S | k ≤ level n ∨ Reach hs n}`. The *only* place where the order hypothesis
(`∃ k, Ordered k n` for every stored node) enters is `parent_level_lt`: every stored parent of a
node lives on a strictly smaller level, so when level `k` is visited all parents of its nodes
have already been decided. That is why one pass suffices (see `PropertiesC05.lean` for a
counterexample with the levels visited bottom-up).

All statements are for arbitrary stores and handle lists (no bounds).
-/
namespace OxiddModel.Bdd
open BDD

/-! ## vocabulary -/

/-- The hypotheses on a store `S` with live handles `hs` in a manager with `numLevels` levels. -/
structure StoreWF (hs : List BDD) (numLevels : Nat) (S : List BDD) : Prop where
  /-- the unique table holds every node once (hash consing) -/
  nodup : S.Nodup
  /-- only inner nodes are stored -/
  inner : ∀ n ∈ S, n.isLeaf = false
  /-- children of stored nodes are terminals or stored -/
  closed : Closed S
  /-- levels strictly increase along every edge -/
  ordered : ∀ n ∈ S, ∃ k, Ordered k n
  /-- every stored node's level exists in the manager -/
  levels : ∀ n ∈ S, ∀ l, levelOf n = some l → l < numLevels
  /-- every handle is a terminal or points to a stored node -/
  handles : ∀ h ∈ hs, h.isLeaf = true ∨ h ∈ S

/-- executable check of `Ordered` (used for concrete examples) -/
def orderedB : Nat → BDD → Bool
  | _, .leaf _ => true
  | k, .node l t e => decide (k ≤ l) && orderedB (l + 1) t && orderedB (l + 1) e

theorem orderedB_sound : ∀ (k : Nat) (n : BDD), orderedB k n = true → Ordered k n := by
  intro k n
  induction n generalizing k with
  | leaf b => intro _; exact .leaf
  | node l t e iht ihe =>
    intro h
    simp only [orderedB, Bool.and_eq_true, decide_eq_true_eq] at h
    exact .node h.1.1 (iht _ h.1.2) (ihe _ h.2)

/-! ## kids, levels -/

theorem inner_of_mem_kids {p c : BDD} (h : c ∈ kids p) : p.isLeaf = false := by
  cases p with
  | leaf b => simp [kids] at h
  | node l t e => rfl

theorem levelOf_of_inner {n : BDD} (h : n.isLeaf = false) : ∃ l, levelOf n = some l := by
  cases n with
  | leaf b => simp [isLeaf] at h
  | node l t e => exact ⟨l, rfl⟩

theorem inner_of_levelOf {n : BDD} {l : Nat} (h : levelOf n = some l) : n.isLeaf = false := by
  cases n with
  | leaf b => simp [levelOf] at h
  | node l t e => rfl

/-- **The one place where `Ordered` is used.** A parent lives on a strictly smaller level than each
of its inner children. -/
theorem parent_level_lt {p c : BDD} {lp lc : Nat} (ho : ∃ k, Ordered k p) (hc : c ∈ kids p)
    (hp : levelOf p = some lp) (hl : levelOf c = some lc) : lp < lc := by
  obtain ⟨k, ho⟩ := ho
  cases p with
  | leaf b => simp [kids] at hc
  | node l t e =>
    cases ho with
    | node hle ht he =>
      simp only [levelOf, Option.some.injEq] at hp
      subst hp
      simp only [kids, List.mem_cons, List.not_mem_nil, or_false] at hc
      rcases hc with rfl | rfl
      · cases ht with
        | leaf => simp [levelOf] at hl
        | node h1 _ _ => simp only [levelOf, Option.some.injEq] at hl; omega
      · cases he with
        | leaf => simp [levelOf] at hl
        | node h1 _ _ => simp only [levelOf, Option.some.injEq] at hl; omega

/-! ## sums and reference counts -/

theorem sum_map_eq_zero {α} (f : α → Nat) (l : List α) :
    (l.map f).sum = 0 ↔ ∀ x ∈ l, f x = 0 := by
  induction l with
  | nil => simp
  | cons a l ih => simp only [List.map_cons, List.sum_cons, Nat.add_eq_zero_iff, ih,
      List.mem_cons, forall_eq_or_imp]

/-- the count is zero iff no handle and no stored parent refers to the node -/
theorem rc_eq_zero (hs S : List BDD) (n : BDD) :
    rc hs S n = 0 ↔ n ∉ hs ∧ ∀ p ∈ S, n ∉ kids p := by
  simp only [rc, Nat.add_eq_zero_iff, List.count_eq_zero, sum_map_eq_zero]

theorem rc_pos (hs S : List BDD) (n : BDD) :
    0 < rc hs S n ↔ n ∈ hs ∨ ∃ p ∈ S, n ∈ kids p := by
  have h := rc_eq_zero hs S n
  constructor
  · intro hp
    apply Classical.byContradiction
    intro hc
    have : rc hs S n = 0 := h.mpr ⟨fun hm => hc (.inl hm), fun p hpS hk => hc (.inr ⟨p, hpS, hk⟩)⟩
    omega
  · intro hc
    apply Nat.pos_of_ne_zero
    intro h0
    obtain ⟨h1, h2⟩ := h.mp h0
    rcases hc with hc | ⟨p, hpS, hk⟩
    · exact h1 hc
    · exact h2 p hpS hk

/-- clone: one more handle to `h` increases the count of exactly `h` by exactly one -/
theorem rc_cons_handle (h : BDD) (hs S : List BDD) (n : BDD) :
    rc (h :: hs) S n = rc hs S n + (if h = n then 1 else 0) := by
  simp only [rc, List.count_cons, beq_iff_eq]
  omega

/-- drop: removing one occurrence of a live handle `h` decreases the count of exactly `h` by
exactly one -/
theorem rc_erase_handle (h : BDD) (hs S : List BDD) (n : BDD) (hm : h ∈ hs) :
    rc hs S n = rc (hs.erase h) S n + (if h = n then 1 else 0) := by
  simp only [rc, List.count_erase, beq_iff_eq]
  by_cases heq : h = n
  · subst heq
    have : 0 < hs.count h := List.count_pos_iff.mpr hm
    simp only [ite_true]
    omega
  · simp only [if_neg heq]
    omega

/-- a new stored node contributes one count per edge to each of its children -/
theorem rc_cons_node (p : BDD) (hs S : List BDD) (n : BDD) :
    rc hs (p :: S) n = rc hs S n + (kids p).count n := by
  simp only [rc, List.map_cons, List.sum_cons]
  omega

/-- the count does not depend on the order in which the table stores the nodes -/
theorem rc_perm {S S' : List BDD} (hp : S.Perm S') (hs : List BDD) (n : BDD) :
    rc hs S n = rc hs S' n := by
  simp only [rc]
  rw [(hp.map _).sum_nat]

theorem rc_perm_handles {hs hs' : List BDD} (hp : hs.Perm hs') (S : List BDD) (n : BDD) :
    rc hs S n = rc hs' S n := by
  simp only [rc]
  rw [hp.count_eq]

/-! ## reachability -/

theorem Reach.mono {hs hs' : List BDD} (hsub : ∀ x ∈ hs, x ∈ hs') {n : BDD} (h : Reach hs n) :
    Reach hs' n := by
  induction h with
  | root hm => exact .root (hsub _ hm)
  | kid _ hk ih => exact .kid ih hk

theorem Reach.trans {hs : List BDD} {a n : BDD} (h : Reach [a] n) (ha : Reach hs a) :
    Reach hs n := by
  induction h with
  | root hm =>
    simp only [List.mem_cons, List.not_mem_nil, or_false] at hm
    subst hm
    exact ha
  | kid _ hk ih => exact .kid ih hk

theorem Reach.cases_parent {hs : List BDD} {n : BDD} (h : Reach hs n) :
    n ∈ hs ∨ ∃ p, Reach hs p ∧ n ∈ kids p := by
  cases h with
  | root hm => exact .inl hm
  | kid hp hk => exact .inr ⟨_, hp, hk⟩

/-- everything reachable from the handles is a terminal or stored -/
theorem reach_mem_store {hs S : List BDD} (hclosed : Closed S)
    (hh : ∀ h ∈ hs, h.isLeaf = true ∨ h ∈ S) {n : BDD} (h : Reach hs n) :
    n.isLeaf = true ∨ n ∈ S := by
  induction h with
  | root hm => exact hh _ hm
  | kid _ hk ih =>
    rcases ih with ih | ih
    · rw [inner_of_mem_kids hk] at ih; cases ih
    · exact hclosed _ ih _ hk

/-- if all handles are terminals nothing else is reachable -/
theorem reach_of_leaf_handles {hs : List BDD} (hl : ∀ h ∈ hs, h.isLeaf = true) {n : BDD}
    (h : Reach hs n) : n.isLeaf = true := by
  induction h with
  | root hm => exact hl _ hm
  | kid _ hk ih => rw [inner_of_mem_kids hk] at ih; cases ih

theorem subterm_of_mem_kids {c p : BDD} (h : c ∈ kids p) : Subterm c p := by
  cases p with
  | leaf b => simp [kids] at h
  | node l t e =>
    simp only [kids, List.mem_cons, List.not_mem_nil, or_false] at h
    rcases h with rfl | rfl
    · exact .inr (.inl (Subterm.refl _))
    · exact .inr (.inr (Subterm.refl _))

/-- reachability from a single handle is the subterm relation -/
theorem reach_singleton_iff (h n : BDD) : Reach [h] n ↔ Subterm n h := by
  constructor
  · intro hr
    induction hr with
    | root hm =>
      simp only [List.mem_cons, List.not_mem_nil, or_false] at hm
      subst hm
      exact Subterm.refl _
    | kid _ hk ih => exact (subterm_of_mem_kids hk).trans ih
  · intro hs
    induction h with
    | leaf b => cases hs; exact .root (List.mem_singleton.mpr rfl)
    | node l t e iht ihe =>
      have hroot : Reach [BDD.node l t e] (BDD.node l t e) := .root (List.mem_singleton.mpr rfl)
      rcases hs with rfl | hs | hs
      · exact hroot
      · exact (iht hs).trans (.kid hroot (by simp [kids]))
      · exact (ihe hs).trans (.kid hroot (by simp [kids]))

theorem reach_iff_subterm (hs : List BDD) (n : BDD) : Reach hs n ↔ ∃ h ∈ hs, Subterm n h := by
  constructor
  · intro hr
    induction hr with
    | root hm => exact ⟨_, hm, Subterm.refl _⟩
    | kid _ hk ih =>
      obtain ⟨h, hm, hs⟩ := ih
      exact ⟨h, hm, (subterm_of_mem_kids hk).trans hs⟩
  · rintro ⟨h, hm, hs⟩
    exact ((reach_singleton_iff h n).mpr hs).trans (.root hm)

/-! ## `reachList` -/

theorem foldl_subtrees_spec (hs : List BDD) : ∀ acc : List BDD, acc.Nodup → SubClosed acc →
    (hs.foldl (fun acc t => subtrees t acc) acc).Nodup ∧
      ∀ x, x ∈ hs.foldl (fun acc t => subtrees t acc) acc ↔ x ∈ acc ∨ ∃ h ∈ hs, Subterm x h := by
  induction hs with
  | nil => intro acc hn _; simp [hn]
  | cons h hs ih =>
    intro acc hn hc
    obtain ⟨n1, c1, m1⟩ := subtrees_spec h acc hn hc
    obtain ⟨n2, m2⟩ := ih _ n1 c1
    refine ⟨n2, fun x => ?_⟩
    simp only [List.foldl_cons, m2, m1, List.mem_cons, exists_eq_or_imp]
    constructor
    · rintro ((h1 | h1) | h1)
      · exact .inl h1
      · exact .inr (.inl h1)
      · exact .inr (.inr h1)
    · rintro (h1 | h1 | h1)
      · exact .inl (.inl h1)
      · exact .inl (.inr h1)
      · exact .inr h1

/-- `reachList` enumerates exactly the reachable inner nodes -/
theorem mem_reachList (hs : List BDD) (n : BDD) :
    n ∈ reachList hs ↔ Reach hs n ∧ n.isLeaf = false := by
  obtain ⟨_, m⟩ := foldl_subtrees_spec hs [] List.nodup_nil (fun x hx => by cases hx)
  simp only [reachList, List.mem_filter, m, List.not_mem_nil, false_or, reach_iff_subterm,
    Bool.not_eq_true']

theorem reachList_nodup (hs : List BDD) : (reachList hs).Nodup := by
  obtain ⟨n, _⟩ := foldl_subtrees_spec hs [] List.nodup_nil (fun x hx => by cases hx)
  exact List.filter_sublist.nodup n

/-! ## the collection pass -/

theorem gcLevels_append (hs : List BDD) (ls ls' : List Nat) (S : List BDD) :
    gcLevels hs (ls ++ ls') S = gcLevels hs ls' (gcLevels hs ls S) := by
  induction ls generalizing S with
  | nil => rfl
  | cons l ls ih => simp only [List.cons_append, gcLevels, ih]

theorem gcLevel_sublist (hs : List BDD) (l : Nat) (S : List BDD) : (gcLevel hs l S).Sublist S :=
  List.filter_sublist

theorem gcLevels_sublist (hs : List BDD) (ls : List Nat) (S : List BDD) :
    (gcLevels hs ls S).Sublist S := by
  induction ls generalizing S with
  | nil => exact List.Sublist.refl _
  | cons l ls ih => exact (ih _).trans (gcLevel_sublist hs l S)

/-- whatever the order of the levels, the pass is a filter of the store -/
theorem gcLevels_eq_filter (hs : List BDD) (ls : List Nat) (S : List BDD) :
    ∃ P : BDD → Bool, gcLevels hs ls S = S.filter P := by
  induction ls generalizing S with
  | nil => exact ⟨fun _ => true, (List.filter_eq_self.mpr (fun _ _ => rfl)).symm⟩
  | cons l ls ih =>
    obtain ⟨P, hP⟩ := ih (gcLevel hs l S)
    refine ⟨fun a => P a && !(levelOf a == some l && rc hs S a == 0), ?_⟩
    simp only [gcLevels, hP]
    simp only [gcLevel, List.filter_filter]

/-- membership in one level's `retain` -/
theorem mem_gcLevel (hs : List BDD) (l : Nat) (S : List BDD) (n : BDD) :
    n ∈ gcLevel hs l S ↔ n ∈ S ∧ ¬ (levelOf n = some l ∧ rc hs S n = 0) := by
  simp only [gcLevel, List.mem_filter, Bool.not_eq_true', Bool.and_eq_false_iff,
    beq_eq_false_iff_ne, ne_eq]
  constructor
  · rintro ⟨h1, h2⟩
    refine ⟨h1, fun ⟨h3, h4⟩ => ?_⟩
    rcases h2 with h2 | h2
    · exact h2 h3
    · exact h2 h4
  · rintro ⟨h1, h2⟩
    refine ⟨h1, ?_⟩
    by_cases h3 : levelOf n = some l
    · exact .inr fun h4 => h2 ⟨h3, h4⟩
    · exact .inl h3

/-- One step of the top-down pass preserves the invariant
"the store is `{n ∈ S | k ≤ level n ∨ Reach hs n}`". -/
theorem gcLevel_step {hs S T : List BDD} {k : Nat} (hclosed : Closed S)
    (hord : ∀ n ∈ S, ∃ k, Ordered k n) (hh : ∀ h ∈ hs, h.isLeaf = true ∨ h ∈ S)
    (hT : ∀ n, n ∈ T ↔ n ∈ S ∧ ((∃ l, levelOf n = some l ∧ k ≤ l) ∨ Reach hs n)) :
    ∀ n, n ∈ gcLevel hs k T ↔
      n ∈ S ∧ ((∃ l, levelOf n = some l ∧ k + 1 ≤ l) ∨ Reach hs n) := by
  intro n
  rw [mem_gcLevel, hT]
  constructor
  · rintro ⟨⟨hS, hor⟩, hb⟩
    refine ⟨hS, ?_⟩
    by_cases hr : Reach hs n
    · exact .inr hr
    · rcases hor with ⟨l, hl, hkl⟩ | hor
      · refine .inl ⟨l, hl, ?_⟩
        apply Classical.byContradiction
        intro hlt
        have hlk : l = k := by omega
        subst hlk
        apply hb
        refine ⟨hl, (rc_eq_zero _ _ _).mpr ⟨fun hm => hr (.root hm), fun p hp hk => ?_⟩⟩
        obtain ⟨hpS, hpor⟩ := (hT p).mp hp
        rcases hpor with ⟨lp, hlp, hle⟩ | hpr
        · have := parent_level_lt (hord p hpS) hk hlp hl
          omega
        · exact hr (.kid hpr hk)
      · exact absurd hor hr
  · rintro ⟨hS, hor⟩
    refine ⟨⟨hS, ?_⟩, ?_⟩
    · rcases hor with ⟨l, hl, hkl⟩ | hor
      · exact .inl ⟨l, hl, by omega⟩
      · exact .inr hor
    · rintro ⟨hl, h0⟩
      rcases hor with ⟨l, hl', hkl⟩ | hor
      · rw [hl] at hl'
        simp only [Option.some.injEq] at hl'
        omega
      · obtain ⟨h1, h2⟩ := (rc_eq_zero _ _ _).mp h0
        rcases hor.cases_parent with hm | ⟨p, hp, hk⟩
        · exact h1 hm
        · refine h2 p ((hT p).mpr ⟨?_, .inr hp⟩) hk
          rcases reach_mem_store hclosed hh hp with hpl | hpS
          · rw [inner_of_mem_kids hk] at hpl; cases hpl
          · exact hpS

/-- **Invariant of the top-down pass**: after the levels `< k` have been visited the store is
`{n ∈ S | k ≤ level n ∨ Reach hs n}`. -/
theorem gcLevels_range_inv {hs S : List BDD}
    (hinner : ∀ n ∈ S, n.isLeaf = false) (hclosed : Closed S)
    (hord : ∀ n ∈ S, ∃ k, Ordered k n) (hh : ∀ h ∈ hs, h.isLeaf = true ∨ h ∈ S) :
    ∀ k n, n ∈ gcLevels hs (List.range k) S ↔
      n ∈ S ∧ ((∃ l, levelOf n = some l ∧ k ≤ l) ∨ Reach hs n) := by
  intro k
  induction k with
  | zero =>
    intro n
    simp only [List.range_zero, gcLevels]
    constructor
    · intro hS
      obtain ⟨l, hl⟩ := levelOf_of_inner (hinner n hS)
      exact ⟨hS, .inl ⟨l, hl, Nat.zero_le _⟩⟩
    · exact fun h => h.1
  | succ k ih =>
    rw [List.range_succ, gcLevels_append]
    exact gcLevel_step hclosed hord hh ih

/-- the pass removes exactly the unreachable nodes (membership form, minimal hypotheses) -/
theorem mem_gc {hs S : List BDD} {numLevels : Nat}
    (hinner : ∀ n ∈ S, n.isLeaf = false) (hclosed : Closed S)
    (hord : ∀ n ∈ S, ∃ k, Ordered k n)
    (hlev : ∀ n ∈ S, ∀ l, levelOf n = some l → l < numLevels)
    (hh : ∀ h ∈ hs, h.isLeaf = true ∨ h ∈ S) (n : BDD) :
    n ∈ gc hs numLevels S ↔ n ∈ S ∧ Reach hs n := by
  rw [gc, gcLevels_range_inv hinner hclosed hord hh]
  constructor
  · rintro ⟨hS, ⟨l, hl, hle⟩ | hr⟩
    · have := hlev n hS l hl
      omega
    · exact ⟨hS, hr⟩
  · rintro ⟨hS, hr⟩
    exact ⟨hS, .inr hr⟩

/-- the collected store, as a list: the stored nodes that are reachable, in their old order -/
theorem gc_eq_filter_reachList {hs S : List BDD} {numLevels : Nat}
    (hinner : ∀ n ∈ S, n.isLeaf = false) (hclosed : Closed S)
    (hord : ∀ n ∈ S, ∃ k, Ordered k n)
    (hlev : ∀ n ∈ S, ∀ l, levelOf n = some l → l < numLevels)
    (hh : ∀ h ∈ hs, h.isLeaf = true ∨ h ∈ S) :
    gc hs numLevels S = S.filter (fun n => decide (n ∈ reachList hs)) := by
  obtain ⟨P, hP⟩ := gcLevels_eq_filter hs (List.range numLevels) S
  have hm := mem_gc hinner hclosed hord hlev hh
  rw [gc, hP]
  apply List.filter_congr
  intro x hx
  have h1 := hm x
  rw [gc, hP, List.mem_filter] at h1
  by_cases hr : x ∈ reachList hs
  · rw [decide_eq_true hr]
    exact (h1.mpr ⟨hx, ((mem_reachList hs x).mp hr).1⟩).2
  · rw [decide_eq_false hr]
    cases hPx : P x with
    | false => rfl
    | true =>
      exact absurd ((mem_reachList hs x).mpr ⟨(h1.mp ⟨hx, hPx⟩).2, hinner x hx⟩) hr

theorem length_filter_add_length_filter_not {α} (p : α → Bool) (l : List α) :
    (l.filter p).length + (l.filter fun x => !p x).length = l.length := by
  induction l with
  | nil => rfl
  | cons a l ih =>
    cases h : p a <;> simp only [List.filter_cons, h, Bool.not_true, Bool.not_false, if_true,
      if_false, List.length_cons, Bool.false_eq_true] <;> omega

end OxiddModel.Bdd
