import OxiddModel.Bdd.RcSHistory
import OxiddModel.Reorder.SetOrderStore

/-!
# ONE manager state for operations, handles, garbage collection, `add_vars` and reordering

The pieces of C01/C03/C05/C08 exist separately: `RcS.lean` (id store with reference counters:
`var`, `not`, the eight binary operators, `ite`, each under a node capacity, `clone_edge`,
`drop_edge`, `Manager::gc`) and `Reorder/SwapStore.lean` + `SetOrderStore.lean` (`level_swap`,
`set_var_order` on a heap `(level, t, e, rc)` with one unique table per level). This file puts
them into **one machine**:

* `GSt`: the node store with stored level numbers, the apply cache with its time stamp and one
  reference counter per slot (`RSt` of `RcS.lean`), the number of variables/levels `n`, the order
  `{v2l, l2v}` (`var_level_map`), `gcCount` (`Manager::gc_count`) and the handle table `hs`
  (every live `BDDFunction` of the user: a multiset of owned edges, kept as a list so that a step
  can name a handle by position).
* the per-level unique tables (`LevelViewSet`s) are a *view* of that state: `toS` lists, for every
  level, the slots whose stored level number is that level (that this is exactly what the tables
  hold is `tbl_iff` of `SwapStore.Inv`, proved to be maintained by the reordering code).
  `toS : RSt → SStore` and `ofS : SStore → RSt` are the **bridge** between the two store
  representations; `toS_abs`, `toS_inv`, `ofS_*` (`GlobalSBridge.lean`) show that it is an
  isomorphism on states satisfying the invariants, and transport `RcInv`/`OrdInv`/`Unique`/`NoRed`
  to `SwapStore.Inv` and back.
* `Step`: `var v` / `not_var v` (node level through `v2l`), `not`, the eight binary operators, `ite`
  (the counted algorithms `varR/notR/applyR/iteR`, **each under its own capacity**, so each may
  fail with OutOfMemory at any allocation point), `clone`, `drop`, `gc` (`gcR`, `gc_count`
  advanced), `addVars k` (`Manager::add_vars`: `k` new empty levels at the bottom, both maps
  extended by the identity; no node is touched and nothing can fail), `setVarOrder order`
  (`set_var_order` → `Manager::reorder`: `pre_gc` clears the apply cache, `set_var_order_common` =
  `setVarOrderS`, `gc_count` advanced; nothing happens — not even the cache clear — when the request
  has at most one entry or the levels already are in the target order, as in the code).
  Out-of-memory *during reordering* is an abort in the code (known finding `KF-reorder-oom`), so —
  as in `SwapStore.lean` — the allocator of the reordering always succeeds; a request naming a
  variable twice or an unknown variable panics in the code and is a no-op here, like an operation
  step naming a handle position that does not exist and `var v` with `v ≥ n`.
* the recursion fuel of `notR/applyR/iteR` is `fuelOf n = 3 · 2^(n+1)`: more than the sizes of
  the unfoldings of three ordered diagrams over `n` levels (`size_lt_of_ordered`), so the fuel is
  never exhausted and is not a parameter of a history.
* `Cfg`: what the theorems quantify over besides the history — the cache policy (`Policy.OK`:
  exact / none / direct mapped with any hash and lock failures), the slot allocator of the
  reordering (`AllocOK`: any function returning a free slot) and the iteration order of the hash
  tables (`OrderOK`: any permutation).
* `Expr`/`track`: a **ghost** run beside the machine: for every handle the expression that produced
  it. The machine (`step`) never reads it.
-/
namespace OxiddModel.Bdd.Global
open OxiddModel.Bdd OxiddModel.Bdd.BDD OxiddModel.Bdd.Refine OxiddModel.Bdd.Rc
open OxiddModel.Reorder
open OxiddModel.Reorder.SwapStore (Heap SNode SStore setVarOrderS RState levelSwapG chainLe step2
  updateLevels)

/-! ## `bubble_sort` in a form the kernel can evaluate -/

/-- `bubblePass` of `Reorder/Model.lean` by structural recursion (the original recurses on
`a :: rest`, which is compiled by well-founded recursion and does not reduce in the kernel) -/
def bubblePassK : Nat → List Nat → Nat → List Nat × List Nat × Nat
  | a, [], _ => ([a], [], 0)
  | a, b :: rest, i =>
    if a > b then
      let r := bubblePassK a rest (i + 1)
      (b :: r.1, i :: r.2.1, if r.2.2 = 0 then i + 1 else r.2.2)
    else
      let r := bubblePassK b rest (i + 1)
      (a :: r.1, r.2.1, r.2.2)

def bubblePassL : List Nat → Nat → List Nat × List Nat × Nat
  | [], _ => ([], [], 0)
  | a :: l, i => bubblePassK a l i

def bubbleSortK : Nat → List Nat → List Nat × List Nat
  | 0, seq => (seq, [])
  | fuel + 1, seq =>
    let r := bubblePassL seq 0
    if r.2.1.isEmpty then (r.1, []) else
    let r' := bubbleSortK fuel r.1
    (r'.1, r.2.1 ++ r'.2)

theorem bubblePassK_eq (a : Nat) (l : List Nat) (i : Nat) :
    bubblePass (a :: l) i = bubblePassK a l i := by
  induction l generalizing a i with
  | nil => simp [bubblePass, bubblePassK]
  | cons b rest ih =>
    rw [bubblePass, bubblePassK]
    by_cases h : a > b
    · simp only [h, if_true]; rw [ih]
    · simp only [h, if_false]; rw [ih]

theorem bubblePassL_eq (l : List Nat) (i : Nat) : bubblePass l i = bubblePassL l i := by
  cases l with
  | nil => simp [bubblePass, bubblePassL]
  | cons a l => exact bubblePassK_eq a l i

theorem bubbleSortK_eq (fuel : Nat) (seq : List Nat) : bubbleSort fuel seq = bubbleSortK fuel seq := by
  induction fuel generalizing seq with
  | zero => rfl
  | succ fuel ih =>
    simp only [bubbleSort, bubbleSortK, bubblePassL_eq, ih]

/-- `setVarOrderS` (`Reorder/SetOrderStore.lean`) with `bubbleSortK` for `bubbleSort` -/
def setVarOrderK (al : Heap → Nat) (ord : List Nat → List Nat) (s : SStore) (l2v : List Nat)
    (order : List Nat) : SStore × List Nat :=
  let n := s.tables.length
  let target := sortOrder n (order.map fun v => l2v.idxOf v)
  let levels := List.range n
  let fromNe := levels.filter fun l => !(s.table l).isEmpty
  let neTarget := fromNe.map fun l => target.getD l l
  let sorted := levels.all fun l => target.getD l l == l
  if sorted then (s, l2v)
  else
    let r0 : RState := ⟨s, levels, l2v⟩
    let neSorted := chainLe 0 neTarget
    let r1 : RState × List Nat × Bool :=
      if !neSorted then
        let bs := bubbleSortK neTarget.length neTarget
        let r := bs.2.foldl (fun r i => levelSwapG al ord r (fromNe.getD i 0) (fromNe.getD (i + 1) 0)) r0
        if fromNe.length = n then (r, target, true)
        else (r, (fromNe.zip bs.1).foldl (fun t p => t.set p.1 p.2) target, false)
      else (r0, target, false)
    let r2 := if r1.2.2 then r1.1 else step2 (n * n + n) 0 r1.1 r1.2.1
    (updateLevels r2, r2.l2v)

/-- it *is* the verified model -/
theorem setVarOrderK_eq (al : Heap → Nat) (ord : List Nat → List Nat) (s : SStore)
    (l2v order : List Nat) : setVarOrderK al ord s l2v order = setVarOrderS al ord s l2v order := by
  unfold setVarOrderK setVarOrderS
  simp only [bubbleSortK_eq]

/-! ## the bridge between the two store representations -/

/-- the heap of `SwapStore.lean` seen in an `RSt`: slot `i` holds the node of the store together
with its counter -/
def toHeap (r : RSt) : Heap :=
  ⟨(List.range r.st.store.nodes.size).map fun i =>
    (r.st.store.get? i).map fun nd => (⟨nd.level, nd.t, nd.e, rcGet r.rc i⟩ : SNode)⟩

/-- the unique table of level `l`: the slots whose stored level number is `l` -/
def tableOf (s : Store) (l : Nat) : List Nat :=
  (List.range s.nodes.size).filter fun i =>
    match s.get? i with
    | some nd => nd.level == l
    | none => false

/-- `RSt` (+ the number of levels) as a `SwapStore.SStore` -/
def toS (r : RSt) (n : Nat) : SStore := ⟨toHeap r, (List.range n).map (tableOf r.st.store)⟩

def slotRc : Option SNode → Nat
  | some nd => nd.rc
  | none => 0

/-- a `SwapStore.SStore` as an `RSt` with an empty apply cache -/
def ofS (s : SStore) (tick : Nat) : RSt := ⟨⟨s.h.abs, [], tick⟩, (s.h.slots.map slotRc).toArray⟩

/-! ## the machine -/

/-- what a history does not fix -/
structure Cfg where
  p : Policy
  al : Heap → Nat
  ord : List Nat → List Nat

structure Cfg.OK (c : Cfg) : Prop where
  p : c.p.OK
  al : ∀ h : Heap, h.get? (c.al h) = none
  ord : ∀ l, (c.ord l).Perm l

/-- the simplest configuration: ideal cache, first free slot, tables iterated front to back -/
def Cfg.std : Cfg := ⟨Policy.exact, Heap.firstFree, id⟩

/-- the manager and the user's handles -/
structure GSt where
  /-- node store (stored level numbers), apply cache, time stamp; one counter per slot -/
  r : RSt
  /-- `num_vars() = num_levels()` -/
  n : Nat
  /-- `var_to_level` -/
  v2l : List Nat
  /-- `level_to_var` -/
  l2v : List Nat
  /-- `Manager::gc_count()` -/
  gcCount : Nat
  /-- the live handles (owned edges) -/
  hs : List Edge

def GSt.empty : GSt := ⟨RSt.empty, 0, [], [], 0, []⟩

inductive Step where
  /-- `var(v)` / `not_var(v)` (`neg`) -/
  | var (cap v : Nat) (neg : Bool)
  | not (cap a : Nat)
  | bin (cap : Nat) (op : Op) (a b : Nat)
  | ite (cap a b c : Nat)
  | clone (a : Nat)
  | drop (a : Nat)
  | gc
  | addVars (k : Nat)
  | setVarOrder (order : List Nat)
deriving DecidableEq, Repr

/-- more than the unfolded sizes of three ordered diagrams over `n` levels -/
def fuelOf (n : Nat) : Nat := 3 * 2 ^ (n + 1)

/-- the four step kinds that run an algorithm producing a new handle: `none` = the step names a
handle position / variable that does not exist (no-op), `some (none, r')` = OutOfMemory,
`some (some x, r')` = success with the owned result `x` -/
def opRes (c : Cfg) (g : GSt) : Step → Option (Option Edge × RSt)
  | .var cap v neg => if v < g.n then some (varR cap g.r (g.v2l.getD v 0) neg) else none
  | .not cap a =>
    match g.hs[a]? with
    | some f => some (notR cap c.p (fuelOf g.n) g.r f)
    | none => none
  | .bin cap op a b =>
    match g.hs[a]?, g.hs[b]? with
    | some f, some h => some (applyR cap c.p op (fuelOf g.n) g.r f h)
    | _, _ => none
  | .ite cap a b d =>
    match g.hs[a]?, g.hs[b]?, g.hs[d]? with
    | some f, some h, some k => some (iteR cap c.p (fuelOf g.n) g.r f h k)
    | _, _, _ => none
  | _ => none

/-- the request names each variable at most once and only variables of the manager -/
def reorderValid (g : GSt) (order : List Nat) : Bool :=
  decide order.Nodup && order.all fun v => decide (v < g.n)

/-- `sorted` of `set_var_order_common`: every level already is at its target position -/
def reorderSorted (g : GSt) (order : List Nat) : Bool :=
  let target := sortOrder g.n (order.map fun v => g.l2v.idxOf v)
  (List.range g.n).all fun l => target.getD l l == l

/-- `var_to_level` recomputed from `level_to_var` (the code updates both maps swap by swap) -/
def invPerm (n : Nat) (l2v : List Nat) : List Nat := (List.range n).map fun v => l2v.idxOf v

/-- `set_var_order(order)` -/
def reorder (c : Cfg) (g : GSt) (order : List Nat) : GSt :=
  if order.length ≤ 1 || !reorderValid g order || reorderSorted g order then g
  else
    let res := setVarOrderK c.al c.ord (toS g.r g.n) g.l2v order
    { r := ofS res.1 g.r.st.tick, n := g.n, v2l := invPerm g.n res.2, l2v := res.2,
      gcCount := g.gcCount + 1, hs := g.hs }

/-- a finished operation: the result becomes a new handle; after OutOfMemory the handles are
the old ones -/
def pushOp (g : GSt) : Option (Option Edge × RSt) → GSt
  | some (some x, r') => { g with r := r', hs := x :: g.hs }
  | some (none, r') => { g with r := r' }
  | none => g

def step (c : Cfg) (g : GSt) : Step → GSt
  | .clone a =>
    match g.hs[a]? with
    | some f => { g with r := cloneEdge g.r f, hs := f :: g.hs }
    | none => g
  | .drop a =>
    match g.hs[a]? with
    | some f => { g with r := dropEdge g.r f, hs := g.hs.eraseIdx a }
    | none => g
  | .gc => { g with r := gcR g.n g.r, gcCount := g.gcCount + 1 }
  | .addVars k =>
    { g with n := g.n + k, v2l := g.v2l ++ List.range' g.n k, l2v := g.l2v ++ List.range' g.n k }
  | .setVarOrder order => reorder c g order
  | .var cap v neg => pushOp g (opRes c g (.var cap v neg))
  | .not cap a => pushOp g (opRes c g (.not cap a))
  | .bin cap op a b => pushOp g (opRes c g (.bin cap op a b))
  | .ite cap a b d => pushOp g (opRes c g (.ite cap a b d))

/-- a history from the empty manager -/
def run (c : Cfg) (hist : List Step) : GSt := hist.foldl (step c) GSt.empty

/-! ## the ghost: which expression produced a handle -/

inductive Expr where
  | var (v : Nat) (neg : Bool)
  | not (e : Expr)
  | bin (op : Op) (e₁ e₂ : Expr)
  | ite (e₁ e₂ e₃ : Expr)
deriving DecidableEq, Repr, Inhabited

/-- the function of the VARIABLES an expression specifies -/
def Expr.fn : Expr → (Nat → Bool) → Bool
  | .var v neg, ρ => if neg then !ρ v else ρ v
  | .not e, ρ => !e.fn ρ
  | .bin op e₁ e₂, ρ => op.sem (e₁.fn ρ) (e₂.fn ρ)
  | .ite e₁ e₂ e₃, ρ => if e₁.fn ρ then e₂.fn ρ else e₃.fn ρ

/-- the expression of the handle a successful step creates -/
def newExpr (es : List Expr) : Step → Expr
  | .var _ v neg => .var v neg
  | .not _ a => .not (es.getD a default)
  | .bin _ op a b => .bin op (es.getD a default) (es.getD b default)
  | .ite _ a b d => .ite (es.getD a default) (es.getD b default) (es.getD d default)
  | _ => default

/-- the ghost step: a successful operation pushes its expression, a clone copies, a drop removes;
failed operations, `gc`, `addVars`, `setVarOrder` leave every handle's expression alone -/
def track (c : Cfg) (g : GSt) (es : List Expr) : Step → List Expr
  | .clone a => if a < g.hs.length then es.getD a default :: es else es
  | .drop a => es.eraseIdx a
  | .gc => es
  | .addVars _ => es
  | .setVarOrder _ => es
  | s =>
    match opRes c g s with
    | some (some _, _) => newExpr es s :: es
    | _ => es

/-- machine and ghost side by side -/
def runT (c : Cfg) (hist : List Step) : GSt × List Expr :=
  hist.foldl (fun x s => (step c x.1 s, track c x.1 x.2 s)) (GSt.empty, [])

theorem runT_fst (c : Cfg) (hist : List Step) : (runT c hist).1 = run c hist := by
  unfold runT run
  generalize GSt.empty = g0
  generalize ([] : List Expr) = e0
  induction hist generalizing g0 e0 with
  | nil => rfl
  | cons s rest ih => exact ih _ _

/-- value of a diagram under an assignment of the VARIABLES (levels outside the map read as
themselves, as in `OrderS.Order.var`) -/
def evalL (l2v : List Nat) (ρ : Nat → Bool) (t : BDD) : Bool := t.eval (fun l => ρ (l2v.getD l l))

end OxiddModel.Bdd.Global
