import OxiddModel.Bdd.GlobalS
import OxiddModel.Bdd.PropertiesC05R
import OxiddModel.Reorder.PropertiesStore

/-!
# The bridge between `Rc.RSt` and `SwapStore.SStore`

`toS` / `ofS` (`GlobalS.lean`) translate between the store of the operation algorithms
(`Array (Option Node)` + counter array) and the store of the reordering algorithm (list of slots
`(level, t, e, rc)` + per-level tables). Here:

* `toHeap_abs`: `toS` followed by forgetting counters and tables is the identity on the node array,
  so `Denotes` statements are literally the same on both sides;
* `toS_inv`: the invariants of the operation side (`RcInv` for the handle list, `OrdInv`, `Unique`,
  `NoRed`) give the invariant `SwapStore.Inv` of the reordering side for the handle multiset;
* `ofS_rc/ofS_ord/ofS_unique/ofS_nored`: `SwapStore.Inv` gives the invariants of the operation side.
-/
namespace OxiddModel.Bdd.Global
open OxiddModel.Bdd OxiddModel.Bdd.BDD OxiddModel.Bdd.Refine OxiddModel.Bdd.Rc
open OxiddModel.Reorder
open OxiddModel.Reorder.SwapStore (Heap SNode SStore)

/-- the handle multiset as the `ext` function of `SwapStore.Inv` -/
def extOfHs (hs : List Edge) : Nat → Nat := fun k => hs.count (.inner k)

/-! ## `toS` -/

theorem get?_lt {s : Store} {i : Nat} {nd : Node} (h : s.get? i = some nd) : i < s.nodes.size := by
  apply Classical.byContradiction
  intro hlt
  simp [Store.get?, hlt] at h

theorem toHeap_get? (r : RSt) (i : Nat) :
    (toHeap r).get? i =
      (r.st.store.get? i).map fun nd => (⟨nd.level, nd.t, nd.e, rcGet r.rc i⟩ : SNode) := by
  unfold toHeap Heap.get?
  simp only [List.getElem?_map]
  by_cases hi : i < r.st.store.nodes.size
  · simp [hi]
  · have : r.st.store.get? i = none := by simp [Store.get?, hi]
    simp [hi, this]

theorem toHeap_sh (r : RSt) (i : Nat) : (toHeap r).sh i = r.st.store.get? i := by
  unfold Heap.sh
  rw [toHeap_get?]
  cases r.st.store.get? i with
  | none => rfl
  | some nd => cases nd; rfl

theorem toHeap_rcOf (r : RSt) (i : Nat) :
    (toHeap r).rcOf i = if (r.st.store.get? i).isSome then rcGet r.rc i else 0 := by
  unfold Heap.rcOf
  rw [toHeap_get?]
  cases r.st.store.get? i <;> rfl

/-- forgetting the counters again gives back the node array -/
theorem toHeap_abs (r : RSt) : (toHeap r).abs = r.st.store := by
  have h : ∀ i, (toHeap r).abs.get? i = r.st.store.get? i := fun i => by
    rw [SwapStore.abs_get?, toHeap_sh]
  have hsz : (toHeap r).abs.nodes.size = r.st.store.nodes.size := by
    simp [Heap.abs, toHeap]
  cases hs : r.st.store with
  | mk nodes =>
    cases ha : (toHeap r).abs with
    | mk nodes' =>
      rw [hs, ha] at h hsz
      congr 1
      apply Array.ext hsz
      intro i h1 h2
      have := h i
      simp only [Store.get?, h1, h2, Array.getElem?_eq_getElem, Option.join_some] at this
      exact this

theorem refs_eq_parents (h : Heap) (i : Nat) : h.refs i = parents h.abs i := by
  unfold Heap.refs parents Heap.abs
  simp only [List.map_map]
  congr 1
  apply List.map_congr_left
  intro o _
  cases o with
  | none => rfl
  | some nd => simp [SwapStore.cntO, SwapStore.cntN, refsOpt, cnt, SNode.toNode]

theorem toS_table (r : RSt) (n l : Nat) :
    (toS r n).table l = if l < n then tableOf r.st.store l else [] := by
  unfold SStore.table toS
  simp only [List.getD_eq_getElem?_getD, List.getElem?_map]
  by_cases hl : l < n <;> simp [hl]

theorem mem_tableOf {s : Store} {l i : Nat} :
    i ∈ tableOf s l ↔ ∃ nd, s.get? i = some nd ∧ nd.level = l := by
  unfold tableOf
  simp only [List.mem_filter, List.mem_range]
  constructor
  · rintro ⟨_, h⟩
    cases hg : s.get? i with
    | none => simp [hg] at h
    | some nd => exact ⟨nd, rfl, by simpa [hg] using h⟩
  · rintro ⟨nd, hg, hl⟩
    exact ⟨get?_lt hg, by simp [hg, hl]⟩

theorem sum_zero_of_all {l : List Nat} (h : ∀ x ∈ l, x = 0) : l.sum = 0 := by
  induction l with
  | nil => rfl
  | cons a l ih =>
    rw [List.sum_cons, h a List.mem_cons_self, ih (fun x hx => h x (List.mem_cons_of_mem _ hx))]

theorem parents_zero_of_free {r : RSt} {ext : List Edge} (h : RcInv r ext) {j : Nat}
    (hj : r.st.store.get? j = none) : parents r.st.store j = 0 := by
  unfold parents
  apply sum_zero_of_all
  intro x hx
  obtain ⟨o, ho, rfl⟩ := List.mem_map.mp hx
  cases o with
  | none => rfl
  | some nd =>
    obtain ⟨k, hk, hko⟩ := List.mem_iff_getElem.mp ho
    have hg : r.st.store.get? k = some nd := by
      have hk' : k < r.st.store.nodes.size := by simpa using hk
      simp only [Store.get?, hk', Array.getElem?_eq_getElem, Option.join_some]
      simpa using hko
    obtain ⟨h1, h2⟩ := h.kids_ok k nd hg
    have c1 : cnt nd.t j = 0 := by
      unfold cnt; split
      · rename_i heq; rw [heq] at h1; obtain ⟨m, hm⟩ := h1; rw [hj] at hm; cases hm
      · rfl
    have c2 : cnt nd.e j = 0 := by
      unfold cnt; split
      · rename_i heq; rw [heq] at h2; obtain ⟨m, hm⟩ := h2; rw [hj] at hm; cases hm
      · rfl
    simp [refsOpt, c1, c2]

/-- **`toS_inv`.** The invariants of the operation side give the invariant of the reordering side
for the same handle multiset. -/
theorem toS_inv {r : RSt} {hs : List Edge} {n : Nat} (hrc : RcInv r hs) (ho : OrdInv n r)
    (hu : r.st.store.Unique) (hr : r.st.store.NoRed) :
    SwapStore.Inv (extOfHs hs) (toS r n) where
  tbl_iff l i := by
    rw [toS_table]
    show _ ↔ ∃ nd, (toHeap r).sh i = some nd ∧ nd.level = l
    rw [toHeap_sh]
    by_cases hl : l < n
    · simp only [hl, if_true]; exact mem_tableOf
    · simp only [hl, if_false]
      constructor
      · intro h; cases h
      · rintro ⟨nd, hg, hlv⟩
        have := ho.bound i nd hg
        omega
  tbl_nodup l := by
    rw [toS_table]
    split
    · exact List.Nodup.sublist List.filter_sublist List.nodup_range
    · exact List.nodup_nil
  ordered i nd hi k hk := by
    change (toHeap r).sh i = some nd at hi
    rw [toHeap_sh] at hi
    show ∃ m, (toHeap r).sh k = some m ∧ _
    rw [toHeap_sh]
    obtain ⟨h1, h2⟩ := hrc.kids_ok i nd hi
    have : r.st.store.has (.inner k) := by
      rcases hk with hk | hk
      · rw [hk] at h1; exact h1
      · rw [hk] at h2; exact h2
    obtain ⟨m, hm⟩ := this
    exact ⟨m, hm, ho.ord i nd k m hi hk hm⟩
  nored i nd hi := by
    change (toHeap r).sh i = some nd at hi
    rw [toHeap_sh] at hi
    exact hr i nd hi
  uniq i j nd hi hj := by
    change (toHeap r).sh i = some nd at hi
    change (toHeap r).sh j = some nd at hj
    rw [toHeap_sh] at hi hj
    exact hu i j nd hi hj
  rc j := by
    show (toHeap r).rcOf j = SwapStore.live01 (toHeap r) j + extOfHs hs j + (toHeap r).refs j
    rw [toHeap_rcOf, refs_eq_parents, toHeap_abs]
    unfold SwapStore.live01
    rw [toHeap_sh]
    cases hg : r.st.store.get? j with
    | some nd =>
      simp only [Option.isSome_some, if_true]
      rw [hrc.rc_eq j nd hg]; rfl
    | none =>
      simp only [Option.isSome_none]
      have h1 : extOfHs hs j = 0 := by
        unfold extOfHs
        apply List.count_eq_zero.mpr
        intro hm
        obtain ⟨m, hm⟩ := hrc.ext_ok _ hm
        rw [hg] at hm; cases hm
      rw [h1, parents_zero_of_free hrc hg]
      rfl

theorem toS_len (r : RSt) (n : Nat) : (toS r n).tables.length = n := by simp [toS]

/-! ## `ofS` -/

theorem ofS_rcGet (s : SStore) (tick i : Nat) : rcGet (ofS s tick).rc i = s.h.rcOf i := by
  unfold rcGet ofS Heap.rcOf Heap.get?
  simp only [Array.getD_eq_getD_getElem?, List.getElem?_toArray, List.getElem?_map]
  cases s.h.slots[i]? with
  | none => rfl
  | some o => cases o <;> rfl

theorem ofS_get? (s : SStore) (tick i : Nat) : (ofS s tick).st.store.get? i = s.h.sh i :=
  SwapStore.abs_get? s.h i

theorem count_pos_of_mem {hs : List Edge} {k : Nat} (h : .inner k ∈ hs) : 0 < extOfHs hs k :=
  List.count_pos_iff.mpr h

theorem ofS_rc {s : SStore} {hs : List Edge} (hinv : SwapStore.Inv (extOfHs hs) s) (tick : Nat) :
    RcInv (ofS s tick) hs where
  ext_ok e he := by
    cases e with
    | term b => trivial
    | inner k =>
      have := hinv.live_of_ext (count_pos_of_mem he)
      obtain ⟨nd, hnd⟩ := Option.ne_none_iff_exists'.mp this
      exact ⟨nd, by rw [ofS_get?]; exact hnd⟩
  kids_ok i nd hi := by
    rw [ofS_get?] at hi
    have key : ∀ c, (nd.t = c ∨ nd.e = c) → (ofS s tick).st.store.has c := by
      intro c hc
      cases c with
      | term b => trivial
      | inner k =>
        obtain ⟨m, hm, _⟩ := hinv.ordered i nd hi k hc
        exact ⟨m, by rw [ofS_get?]; exact hm⟩
    exact ⟨key _ (Or.inl rfl), key _ (Or.inr rfl)⟩
  cache_ok _ _ h := by cases h
  rc_eq i nd hi := by
    rw [ofS_get?] at hi
    rw [ofS_rcGet]
    have := hinv.rc i
    simp only [SwapStore.live01, hi, Option.isSome_some, if_true] at this
    rw [this, refs_eq_parents]
    rfl

theorem ofS_level_lt {ext : Nat → Nat} {s : SStore} (hinv : SwapStore.Inv ext s) {i : Nat} {nd : Node}
    (hi : s.h.sh i = some nd) : nd.level < s.tables.length := by
  apply Classical.byContradiction
  intro hc
  have := (hinv.tbl_iff nd.level i).mpr ⟨nd, hi, rfl⟩
  rw [SwapStore.table_of_ge (by omega)] at this
  cases this

theorem ofS_ord {ext : Nat → Nat} {s : SStore} (hinv : SwapStore.Inv ext s) (tick : Nat) :
    OrdInv s.tables.length (ofS s tick) where
  ord i nd j m hi hc hj := by
    rw [ofS_get?] at hi hj
    obtain ⟨m', hm', hlt⟩ := hinv.ordered i nd hi j hc
    rw [hj] at hm'; cases hm'; exact hlt
  bound i nd hi := by
    rw [ofS_get?] at hi
    exact ofS_level_lt hinv hi
  cache _ _ h := by cases h

theorem ofS_unique {ext : Nat → Nat} {s : SStore} (hinv : SwapStore.Inv ext s) (tick : Nat) :
    (ofS s tick).st.store.Unique := SwapStore.abs_unique hinv.uniq

theorem ofS_nored {ext : Nat → Nat} {s : SStore} (hinv : SwapStore.Inv ext s) (tick : Nat) :
    (ofS s tick).st.store.NoRed := by
  intro i nd hi
  rw [ofS_get?] at hi
  exact hinv.nored i nd hi

end OxiddModel.Bdd.Global
