import OxiddModel.Bdd.PropertiesC05R

/-!
# Every run of the algorithms keeps the store free of redundant nodes

`Post.nored` (`ApplyS.lean`) covers successful runs (through `intern`). A run that fails with
OutOfMemory leaves the nodes it had created so far; those, too, have distinct children, because
`reduce` only allocates after the test `t == e`. Proved for the capped algorithms
`notC/applyC/iteC` by induction on the fuel and transported to the counted algorithms
`notR/applyR/iteR` by erasure. No hypothesis on operands, cache or fuel.
-/
namespace OxiddModel.Bdd.Global
open OxiddModel.Bdd OxiddModel.Bdd.BDD OxiddModel.Bdd.Refine OxiddModel.Bdd.Rc

theorem mkNodeC_nored {cap : Nat} {s : Store} {l : Nat} {t e : Edge} {m : Store × Edge}
    (hr : s.NoRed) (h : s.mkNodeC cap l t e = some m) : m.1.NoRed := by
  rw [(mkNodeC_some h).1]
  exact mkNode_nored s l t e hr

theorem finishC_nored (cap : Nat) (p : Policy) (st : St) (key : Key) (l : Nat) (e1 e0 : Edge)
    (hr : st.store.NoRed) : (finishC cap p st key l e1 e0).2.store.NoRed := by
  unfold finishC
  cases hm : st.store.mkNodeC cap l e1 e0 with
  | none => exact hr
  | some m => exact mkNodeC_nored hr hm

theorem forkC_nored {cap : Nat} {p : Policy} {key : Key} {l : Nat} {c1 c0 : St → Option Edge × St}
    (h1 : ∀ s : St, s.store.NoRed → (c1 s).2.store.NoRed)
    (h0 : ∀ s : St, s.store.NoRed → (c0 s).2.store.NoRed) {st : St} (hr : st.store.NoRed) :
    (forkC cap p key l c1 c0 st).2.store.NoRed := by
  unfold forkC
  have a1 := h1 st hr
  cases hc1 : c1 st with
  | mk o1 st1 =>
    rw [hc1] at a1
    cases o1 with
    | none => exact a1
    | some r1 =>
      simp only
      have a0 := h0 st1 a1
      cases hc0 : c0 st1 with
      | mk o0 st0 =>
        rw [hc0] at a0
        cases o0 with
        | none => exact a0
        | some r0 => exact finishC_nored cap p st0 key l r1 r0 a0

theorem notC_nored (cap : Nat) (p : Policy) : ∀ (fuel : Nat) (st : St) (f : Edge),
    st.store.NoRed → (notC cap p fuel st f).2.store.NoRed := by
  intro fuel
  induction fuel with
  | zero => intro st f h; exact h
  | succ fuel ih =>
    intro st f h
    unfold notC
    split
    · exact h
    · split
      · exact h
      · split
        · exact h
        · exact forkC_nored (fun s hs => ih s _ hs) (fun s hs => ih s _ hs) h

theorem applyC_nored (cap : Nat) (p : Policy) (op : Op) : ∀ (fuel : Nat) (st : St) (f g : Edge),
    st.store.NoRed → (applyC cap p op fuel st f g).2.store.NoRed := by
  intro fuel
  induction fuel with
  | zero => intro st f g h; exact h
  | succ fuel ih =>
    intro st f g h
    unfold applyC
    split
    · exact h
    · exact notC_nored cap p fuel st _ h
    · split
      · exact h
      · split
        · exact forkC_nored (fun s hs => ih s _ _ hs) (fun s hs => ih s _ _ hs) h
        · exact h

theorem iteC_nored (cap : Nat) (p : Policy) : ∀ (fuel : Nat) (st : St) (f g h : Edge),
    st.store.NoRed → (iteC cap p fuel st f g h).2.store.NoRed := by
  intro fuel
  induction fuel with
  | zero => intro st f g h hr; exact hr
  | succ fuel ih =>
    intro st f g h hr
    unfold iteC
    split
    · exact hr
    · split
      · exact applyC_nored cap p _ fuel st _ _ hr
      · split
        · exact applyC_nored cap p _ fuel st _ _ hr
        · split
          · exact hr
          · split
            · exact applyC_nored cap p _ fuel st _ _ hr
            · exact applyC_nored cap p _ fuel st _ _ hr
            · exact applyC_nored cap p _ fuel st _ _ hr
            · exact applyC_nored cap p _ fuel st _ _ hr
            · split
              · exact hr
              · exact notC_nored cap p fuel st _ hr
            · split
              · exact hr
              · split
                · exact forkC_nored (fun s hs => ih s _ _ _ hs) (fun s hs => ih s _ _ _ hs) hr
                · exact hr

/-! ## the counted algorithms -/

theorem notR_nored (cap : Nat) (p : Policy) (fuel : Nat) (r : RSt) (f : Edge)
    (hr : r.st.store.NoRed) : (notR cap p fuel r f).2.st.store.NoRed := by
  rw [(C05R.notR_erase_eq cap p fuel r f).2]
  exact notC_nored cap p fuel r.st f hr

theorem applyR_nored (cap : Nat) (p : Policy) (op : Op) (fuel : Nat) (r : RSt) (f g : Edge)
    (hr : r.st.store.NoRed) : (applyR cap p op fuel r f g).2.st.store.NoRed := by
  rw [(C05R.applyR_erase cap p op fuel r f g).2]
  exact applyC_nored cap p op fuel r.st f g hr

theorem iteR_nored (cap : Nat) (p : Policy) (fuel : Nat) (r : RSt) (f g h : Edge)
    (hr : r.st.store.NoRed) : (iteR cap p fuel r f g h).2.st.store.NoRed := by
  rw [(C05R.iteR_erase cap p fuel r f g h).2]
  exact iteC_nored cap p fuel r.st f g h hr

end OxiddModel.Bdd.Global
