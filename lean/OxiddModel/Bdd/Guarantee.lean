import OxiddModel.Bdd.ApplyE

/-!
# Guarantee side of the rely/guarantee argument, and the collector

`ApplyE.lean` proves each algorithm correct against every environment satisfying `EnvOK` (the
*rely*). This file shows the *guarantee*: each atomic action the algorithms, the apply cache and
the collector perform is itself an `EnvOK` step for everybody else (`step_guarantee`), and so is a
complete operation of another thread (`runEnv_ok`).

The collector `Store.sweep roots` removes, in one pass, every node that is referenced neither by a
stored node nor by one of the `roots` — the nodes whose reference count is zero. It runs after
the cache is cleared (`pre_gc`), which is what keeps `CacheOK` (`Action.gc`).
-/
namespace OxiddModel.Bdd.Refine
open OxiddModel.Bdd OxiddModel.Bdd.BDD

/-! ## the collector -/

/-- is slot `j` referenced by a stored node? (its reference count without external handles) -/
def Store.refd (s : Store) (j : Nat) : Bool :=
  s.nodes.any fun o =>
    match o with
    | some n => n.t == .inner j || n.e == .inner j
    | none => false

/-- one collection pass: every node that is neither referenced by a stored node nor by one of the
`roots` (the edges held by anybody) is removed, all at once -/
def Store.sweep (s : Store) (roots : List Edge) : Store :=
  ⟨s.nodes.mapIdx fun j o => if roots.contains (.inner j) || s.refd j then o else none⟩

theorem get?_sweep (s : Store) (roots : List Edge) (j : Nat) :
    (s.sweep roots).get? j = if roots.contains (.inner j) || s.refd j then s.get? j else none := by
  simp only [Store.get?, Store.sweep, Array.getElem?_mapIdx]
  cases s.nodes[j]? with
  | none => simp
  | some o => split <;> simp [*]

theorem refd_of_child {s : Store} {i j : Nat} {n : Node} (hi : s.get? i = some n)
    (hc : n.t = .inner j ∨ n.e = .inner j) : s.refd j = true := by
  unfold Store.get? at hi
  cases hx : s.nodes[i]? with
  | none => simp [hx] at hi
  | some o =>
    simp [hx] at hi
    subst hi
    obtain ⟨hlt, hget⟩ := Array.getElem?_eq_some_iff.mp hx
    unfold Store.refd
    rw [Array.any_eq_true]
    refine ⟨i, hlt, ?_⟩
    rw [hget]
    rcases hc with h | h <;> simp [h]

theorem sweep_unique {s : Store} (roots : List Edge) (hu : s.Unique) : (s.sweep roots).Unique := by
  intro i j n hi hj
  rw [get?_sweep] at hi hj
  split at hi
  · split at hj
    · exact hu i j n hi hj
    · cases hj
  · cases hi

theorem sweep_denotes {s : Store} (roots : List Edge) {x : Edge} {a : BDD} (h : Denotes s x a) :
    (∀ j, x = .inner j → (roots.contains (.inner j) || s.refd j) = true) →
    Denotes (s.sweep roots) x a := by
  induction h with
  | term => intro _; exact .term
  | @inner i l t e tt te hi _ _ iht ihe =>
    intro hk
    have hki := hk i rfl
    refine .inner (by rw [get?_sweep, hki]; simpa using hi) (iht ?_) (ihe ?_)
    · intro j hj
      rw [refd_of_child hi (.inl hj)]; simp
    · intro j hj
      rw [refd_of_child hi (.inr hj)]; simp

theorem sweep_stable (s : Store) (roots : List Edge) : StableOn roots s (s.sweep roots) := by
  intro e he t hd
  refine sweep_denotes roots hd ?_
  intro j hj
  subst hj
  simp [he]

/-! ## guarantee: what the atomic actions of the algorithms do to everybody else -/

/-- the atomic actions of `notE`/`applyE`/`iteE`, of the cache and of the collector -/
inductive Action where
  /-- `reduce` = `get_or_insert` under the level lock -/
  | mk (l : Nat) (t e : Edge)
  /-- a cache query (changes nothing but the time stamp) -/
  | cacheGet
  /-- `apply_cache().add(..)` through any policy -/
  | cacheAdd (p : Policy) (k : Key) (r : Edge)
  /-- `apply_cache().clear()` / `pre_gc` -/
  | cacheClear
  /-- `gc`: the cache is cleared, then the unreferenced nodes are removed; `roots` are all edges
  held by any thread -/
  | gc (roots : List Edge)

def Action.run : Action → St → St
  | .mk l t e, st => ⟨(st.store.mkNode l t e).1, st.cache, st.tick⟩
  | .cacheGet, st => st.tickd
  | .cacheAdd p k r, st => ⟨st.store, p.add st.tick st.cache k r, st.tick + 1⟩
  | .cacheClear, st => ⟨st.store, [], st.tick⟩
  | .gc roots, st => ⟨st.store.sweep roots, [], st.tick⟩

/-- the condition under which the algorithms perform the action -/
def Action.Pre : Action → St → Prop
  | .cacheAdd p k r, st => p.OK ∧ EntryOK st.store k r
  | _, _ => True

/-- the edges an action must not invalidate: for the collector, the roots it was given -/
def Action.Protects : Action → List Edge → Prop
  | .gc roots, H => ∀ e, e ∈ H → e ∈ roots
  | _, _ => True

/-- **Guarantee.** Every atomic action keeps the invariant and the denotation of *any* list of
edges `H` (for the collector: any list contained in its roots). So each action of one thread is an
admissible environment step (`EnvOK`) for every other thread. -/
theorem step_guarantee (a : Action) (st : St) (H : List Edge) (hinv : Inv st) (hpre : a.Pre st)
    (hprot : a.Protects H) : Inv (a.run st) ∧ StableOn H st.store (a.run st).store := by
  cases a with
  | mk l t e =>
    exact ⟨⟨mkNode_unique _ _ _ _ hinv.1, hinv.2.mono (mkNode_le _ _ _ _)⟩,
      StableOn.of_le (mkNode_le _ _ _ _)⟩
  | cacheGet => exact ⟨hinv, StableOn.refl _ _⟩
  | cacheAdd p k r => exact ⟨⟨hinv.1, CacheOK.add hpre.1 hinv.2 hpre.2 _⟩, StableOn.refl _ _⟩
  | cacheClear => exact ⟨⟨hinv.1, CacheOK.nil _⟩, StableOn.refl _ _⟩
  | gc roots =>
    exact ⟨⟨sweep_unique roots hinv.1, CacheOK.nil _⟩, (sweep_stable st.store roots).subset hprot⟩

/-- an environment built from arbitrary actions (chosen per step, depending on the state and the
held edges) is admissible as soon as it respects the preconditions -/
theorem envOK_of_actions (pick : Nat → List Edge → St → Action)
    (hpre : ∀ k H st, Inv st → (pick k H st).Pre st) (hprot : ∀ k H st, (pick k H st).Protects H) :
    EnvOK (fun k H st => (pick k H st).run st) :=
  fun k H st hinv => step_guarantee _ st H hinv (hpre k H st hinv) (hprot k H st)

/-- sequential composition of admissible environments -/
theorem EnvOK.comp {env1 env2 : Env} (h1 : EnvOK env1) (h2 : EnvOK env2) :
    EnvOK (fun k H st => env2 k H (env1 k H st)) := by
  intro k H st hinv
  obtain ⟨i1, s1⟩ := h1 k H st hinv
  obtain ⟨i2, s2⟩ := h2 k H _ i1
  exact ⟨i2, s1.trans s2⟩

theorem EnvOK.id : EnvOK (fun _ _ st => st) := fun _ _ _ hinv => ⟨hinv, StableOn.refl _ _⟩

open Classical in
/-- a complete `apply_bin` run of another thread (itself exposed to the environment `env`), taken
as one environment step; the edges `H` of the observing thread are passed on as held edges -/
noncomputable def runEnv (p : Policy) (env : Env) (sch : Sched) (op : Op) (fuel : Nat) (f g : Edge) : Env :=
  fun k H st =>
    if ∃ a b, Denotes st.store f a ∧ Denotes st.store g b ∧ a.size + b.size ≤ fuel then
      (applyE p env sch op fuel k H st f g).1
    else st

/-- **Threads are each other's environment** (at call granularity): a whole operation of another
thread is an admissible environment step -/
theorem runEnv_ok {p : Policy} (pok : p.OK) {env : Env} (hok : EnvOK env) (sch : Sched) (op : Op)
    (fuel : Nat) (f g : Edge) : EnvOK (runEnv p env sch op fuel f g) := by
  intro k H st hinv
  unfold runEnv
  split
  · rename_i h
    obtain ⟨a, b, hf, hg, hsz⟩ := h
    have := applyE_spec pok hok sch op fuel k H st f g a b hinv hf hg hsz
    exact ⟨this.inv, this.stable.subset (fun e he => mem_tail2 _ he)⟩
  · exact ⟨hinv, StableOn.refl _ _⟩


end OxiddModel.Bdd.Refine
