import OxiddModel.Bdd.PropertiesC04
import OxiddModel.Bdd.PropertiesC05
import OxiddModel.Bdd.PropertiesC12
import OxiddModel.Bdd.PropertiesC13
import OxiddModel.Reorder.Properties

/-!
# An abstract manager over the tree-level model: states, commands, histories

The per-operation facts of C01–C05/C08/C12/C13 are statements about single calls on arbitrary trees.
Properties C01 and C03 quantify over *histories*: "regardless of the sequence of operations, handle
drops, garbage collections, variable additions and reorderings through which the handles were
obtained" / "after every step of every explored history". This file defines the machine over which
that induction is carried out; `PropertiesHistory.lean` contains the headline theorems.

## The machine

A state (`MState`) has
* `numLevels` – the number of levels (= variables) of the manager;
* `handles`   – the live function handles, by position, each the tree its root edge unfolds to;
* `store`     – the unique table: the set of stored inner nodes (hash consing makes a node and its
                unfolding interchangeable, so a duplicate-free list of trees, see `Store.lean`);
* `l2v`       – the level → variable map (a permutation of `[0, numLevels)`, permuted by `swap`);
* `spec`      – **ghost**: for each live handle the function *of the variables* it is supposed to
                denote, computed along the history from the propositional definitions
                (`Op.sem`, `qsem`, `override`, …) – never from the diagrams, with the two exceptions
                documented at `opResult` (the variable set / literal cube operand is read off its
                diagram, and the cube chosen by `pick_cube_dd` is recorded, its specification being
                a relation).

A command (`ManagerOp`) is one of
`const b | var l | notVar l | not i | bin op i j | ite i j k | quant q i j | applyQuant q op i j k |
restrict i j | pickDD choice i | clone i | drop i | gc | addVars k | swap u`
where `i j k` are positions in `handles` and `l`, `u` are levels. A command that is ill-formed in
the current state (position out of range, `l ≥ numLevels`, `u + 1 ≥ numLevels`, the `vars` operand
of a quantification not a variable set, the `vars` operand of `restrict` not a literal cube) leaves
the state unchanged. `drop i` removes the handle at position `i` (later handles move up by one).
`swap u` is `level_swap(u, u+1)`: every live handle *and every stored node* is replaced by its
`swapTree u` image and the level → variable map is transposed; a complete `set_var_order` is a list
of such commands (`bubbleSort_swaps`): `swapOps`, `reorder_preserves_functions`.

## Intermediate garbage

A real operation creates more nodes than the ones of its result (results of recursive calls that
are later merged or dropped). `step` therefore takes an extra parameter `g : List BDD` – arbitrary
trees; those that are well-formed nodes of the manager (`goodB`: ordered, reduced, levels below
`numLevels`) are inserted into the store together with all their subterms, *in addition to* the
inner nodes of the result (`extend`). `run` takes one such list per command, so the theorems about
`run` hold for every resolution of this nondeterminism. `withResult_covers` (and `extend_covers`)
show that *every* duplicate-free closed superset of the old store consisting of well-formed inner
nodes and holding the result is obtained (as a set) for a suitable `g`, so nothing between "exactly
the result's nodes" and "any well-formed superset" is left out. That intermediate nodes *are*
well-formed (they are outputs of `reduce` applied to well-formed children) is an assumption at this
level; ill-formed entries of `g` are ignored.

For `swap u` the new store is the image of the old store under `swapTree u` (injective on normal
forms, so still duplicate-free) plus the newly created lower-level children (and garbage). The real
`level_swap` frees old lower-level nodes that become unreferenced at once; here they stay until the
next `gc` – a superset, which the invariant and `gc_exact` cover.
-/
namespace OxiddModel.Bdd.History
open OxiddModel.Bdd OxiddModel.Bdd.BDD OxiddModel.Reorder

/-! ## well-formed trees of a manager with `n` levels -/

/-- normal form from level 0 on and all levels `< n` -/
def Good (n : Nat) (t : BDD) : Prop := NF 0 t ∧ LevelsLt n t

theorem Good.mono {n m : Nat} {t : BDD} (h : Good n t) (hnm : n ≤ m) : Good m t :=
  ⟨h.1, h.2.mono hnm⟩

theorem good_leaf (n : Nat) (b : Bool) : Good n (.leaf b) := ⟨⟨.leaf, trivial⟩, trivial⟩

/-- subterms (= nodes of the shared diagram) of a well-formed tree are well-formed -/
theorem Good.subterm {n : Nat} {t x : BDD} (h : Good n t) (hs : Subterm x t) : Good n x := by
  induction t with
  | leaf b => cases hs; exact h
  | node l a b iha ihb =>
    obtain ⟨⟨ho, hr⟩, hl⟩ := h
    cases ho with
    | node _ ha hb =>
      rcases hs with rfl | hs | hs
      · exact ⟨⟨.node (Nat.zero_le _) ha hb, hr⟩, hl⟩
      · exact iha ⟨⟨ha.mono (Nat.zero_le _), hr.2.1⟩, hl.2.1⟩ hs
      · exact ihb ⟨⟨hb.mono (Nat.zero_le _), hr.2.2⟩, hl.2.2⟩ hs

/-! executable checks (for the garbage parameter and for concrete examples) -/

def reducedB : BDD → Bool
  | .leaf _ => true
  | .node _ t e => (t != e) && reducedB t && reducedB e

def levelsLtB (n : Nat) : BDD → Bool
  | .leaf _ => true
  | .node l t e => decide (l < n) && levelsLtB n t && levelsLtB n e

def goodB (n : Nat) (t : BDD) : Bool := orderedB 0 t && reducedB t && levelsLtB n t

theorem reducedB_sound : ∀ t : BDD, reducedB t = true → Reduced t := by
  intro t
  induction t with
  | leaf b => intro _; trivial
  | node l t e iht ihe =>
    intro h
    simp only [reducedB, Bool.and_eq_true, bne_iff_ne, ne_eq] at h
    exact ⟨h.1.1, iht h.1.2, ihe h.2⟩

theorem levelsLtB_sound (n : Nat) : ∀ t : BDD, levelsLtB n t = true → LevelsLt n t := by
  intro t
  induction t with
  | leaf b => intro _; trivial
  | node l t e iht ihe =>
    intro h
    simp only [levelsLtB, Bool.and_eq_true, decide_eq_true_eq] at h
    exact ⟨h.1.1, iht h.1.2, ihe h.2⟩

theorem goodB_sound {n : Nat} {t : BDD} (h : goodB n t = true) : Good n t := by
  simp only [goodB, Bool.and_eq_true] at h
  exact ⟨⟨orderedB_sound 0 t h.1.1, reducedB_sound t h.1.2⟩, levelsLtB_sound n t h.2⟩

theorem orderedB_complete {k : Nat} {t : BDD} (h : Ordered k t) : orderedB k t = true := by
  induction h with
  | leaf => rfl
  | node hl _ _ iht ihe => simp [orderedB, hl, iht, ihe]

theorem reducedB_complete : ∀ t : BDD, Reduced t → reducedB t = true := by
  intro t
  induction t with
  | leaf b => intro _; rfl
  | node l t e iht ihe =>
    intro h
    simp only [reducedB, Bool.and_eq_true, bne_iff_ne, ne_eq]
    exact ⟨⟨h.1, iht h.2.1⟩, ihe h.2.2⟩

theorem levelsLtB_complete (n : Nat) : ∀ t : BDD, LevelsLt n t → levelsLtB n t = true := by
  intro t
  induction t with
  | leaf b => intro _; rfl
  | node l t e iht ihe =>
    intro h
    simp only [levelsLtB, Bool.and_eq_true, decide_eq_true_eq]
    exact ⟨⟨h.1, iht h.2.1⟩, ihe h.2.2⟩

/-- the check accepts exactly the well-formed trees -/
theorem goodB_iff {n : Nat} {t : BDD} : goodB n t = true ↔ Good n t := by
  refine ⟨goodB_sound, fun h => ?_⟩
  simp only [goodB, Bool.and_eq_true]
  exact ⟨⟨orderedB_complete h.1.1, reducedB_complete t h.1.2⟩, levelsLtB_complete n t h.2⟩

/-- `IsVarSet n` as a check -/
def isVarSetB : Nat → BDD → Bool
  | _, .leaf b => b
  | n, .node l t e => decide (n ≤ l) && (e == .leaf false) && isVarSetB (l + 1) t

theorem isVarSetB_sound : ∀ (v : BDD) (n : Nat), isVarSetB n v = true → IsVarSet n v := by
  intro v
  induction v with
  | leaf b => intro n h; simp only [isVarSetB] at h; subst h; exact .top
  | node l t e iht _ =>
    intro n h
    simp only [isVarSetB, Bool.and_eq_true, decide_eq_true_eq, beq_iff_eq] at h
    obtain ⟨⟨h1, h2⟩, h3⟩ := h
    subst h2
    exact .node h1 (iht _ h3)

/-- `IsLitCube n` as a check -/
def isLitCubeB : Nat → BDD → Bool
  | _, .leaf b => b
  | n, .node l t e =>
    decide (n ≤ l) &&
      ((e == .leaf false && isLitCubeB (l + 1) t) || (t == .leaf false && isLitCubeB (l + 1) e))

theorem isLitCubeB_sound : ∀ (v : BDD) (n : Nat), isLitCubeB n v = true → IsLitCube n v := by
  intro v
  induction v with
  | leaf b => intro n h; simp only [isLitCubeB] at h; subst h; exact .top
  | node l t e iht ihe =>
    intro n h
    simp only [isLitCubeB, Bool.and_eq_true, Bool.or_eq_true, decide_eq_true_eq, beq_iff_eq] at h
    obtain ⟨h1, ⟨h2, h3⟩ | ⟨h2, h3⟩⟩ := h
    · subst h2; exact .pos h1 (iht _ h3)
    · subst h2; exact .neg h1 (ihe _ h3)

/-! ## a reduced diagram mentions only levels its function depends on -/

theorem levelsLt_eval_congr {n : Nat} {t : BDD} (h : LevelsLt n t) {σ τ : Nat → Bool}
    (hστ : ∀ v, v < n → σ v = τ v) : t.eval σ = t.eval τ := by
  induction t with
  | leaf b => rfl
  | node l a b iha ihb =>
    simp only [eval, hστ l h.1, iha h.2.1, ihb h.2.2]

theorem levelsLt_indep {n : Nat} {t : BDD} (h : LevelsLt n t) {l : Nat} (hl : n ≤ l)
    (σ : Nat → Bool) (b : Bool) : t.eval (upd σ l b) = t.eval σ :=
  levelsLt_eval_congr h (fun v hv => upd_ne σ b (by omega))

/-- **Essential variables.** If the function of a normal-form diagram does not depend on any level
`≥ n` then no such level occurs in the diagram. -/
theorem nf_levelsLt_of_indep {n : Nat} {t : BDD} : ∀ {k : Nat}, NF k t →
    (∀ l, n ≤ l → ∀ σ b, t.eval (upd σ l b) = t.eval σ) → LevelsLt n t := by
  induction t with
  | leaf b => intro _ _ _; trivial
  | node l a b iha ihb =>
    intro k hnf hi
    obtain ⟨ho, hr⟩ := hnf
    cases ho with
    | node hkl ha hb =>
      have hln : l < n := by
        apply Classical.byContradiction
        intro hnl
        have hi' := hi l (by omega)
        apply hr.1
        apply canon a b (l + 1) ha hb hr.2.1 hr.2.2
        intro σ
        rw [← eval_node_upd_true (e := b) ha σ, hi' σ true, ← hi' σ false,
          eval_node_upd_false (t := a) hb σ]
      refine ⟨hln, iha ⟨ha, hr.2.1⟩ (fun l' hl' σ c => ?_), ihb ⟨hb, hr.2.2⟩ (fun l' hl' σ c => ?_)⟩
      · rw [← eval_node_upd_true (e := b) ha (upd σ l' c), ← eval_node_upd_true (e := b) ha σ,
          upd_comm σ c true (by omega : l' ≠ l), hi l' hl']
      · rw [← eval_node_upd_false (t := a) hb (upd σ l' c), ← eval_node_upd_false (t := a) hb σ,
          upd_comm σ c false (by omega : l' ≠ l), hi l' hl']

theorem good_of_indep {n : Nat} {r : BDD} (hnf : NF 0 r)
    (hi : ∀ l, n ≤ l → ∀ σ b, r.eval (upd σ l b) = r.eval σ) :
    Good n r := ⟨hnf, nf_levelsLt_of_indep hnf hi⟩

/-! ## every operation maps well-formed operands to a well-formed result -/

theorem good_var {n l : Nat} (h : l < n) : Good n (var l) ∧ Good n (notVar l) := by
  have h1 := bdd_var_nf l
  refine ⟨⟨⟨h1.1.1.mono (Nat.zero_le _), h1.1.2⟩, ?_⟩, ⟨⟨h1.2.1.mono (Nat.zero_le _), h1.2.2⟩, ?_⟩⟩ <;>
    simp [var, notVar, LevelsLt, h]

theorem good_not {n : Nat} {f : BDD} (hf : Good n f) : Good n (applyNot f) :=
  good_of_indep (bdd_not_nf f 0 hf.1) (fun l hl σ b => by
    rw [applyNot_eval, applyNot_eval, levelsLt_indep hf.2 hl])

theorem good_bin (op : Op) {n : Nat} {f g : BDD} (hf : Good n f) (hg : Good n g) :
    Good n (applyBin op f g) :=
  good_of_indep (bdd_apply_nf op f g 0 hf.1 hg.1) (fun l hl σ b => by
    rw [applyBin_eval, applyBin_eval, levelsLt_indep hf.2 hl, levelsLt_indep hg.2 hl])

theorem good_ite {n : Nat} {f g h : BDD} (hf : Good n f) (hg : Good n g) (hh : Good n h) :
    Good n (applyIte f g h) :=
  good_of_indep (bdd_ite_nf f g h 0 hf.1 hg.1 hh.1) (fun l hl σ b => by
    rw [applyIte_eval, applyIte_eval, levelsLt_indep hf.2 hl, levelsLt_indep hg.2 hl,
      levelsLt_indep hh.2 hl])

theorem good_quant (q : Quant) {n : Nat} {f v : BDD} (hf : Good n f) (hv : IsVarSet 0 v) :
    Good n (quant q f v) :=
  good_of_indep (bdd_quant_nf q f v 0 hf.1) (fun l hl σ b => by
    rw [quant_sem q hf.1.1 hv, quant_sem q hf.1.1 hv]
    exact qsem_indep (g := f.eval) (levelsLt_indep hf.2 hl) _ σ b)

theorem good_applyQuant (q : Quant) (op : Op) {n : Nat} {f g v : BDD} (hf : Good n f)
    (hg : Good n g) (hv : IsVarSet 0 v) : Good n (applyQuant q op f g v) :=
  good_of_indep (bdd_apply_quant_nf q op f g v 0 hf.1 hg.1) (fun l hl σ b => by
    rw [applyQuant_sem q op hf.1.1 hg.1.1 hv, applyQuant_sem q op hf.1.1 hg.1.1 hv]
    refine qsem_indep (fun σ b => ?_) _ σ b
    show op.sem (f.eval (upd σ l b)) (g.eval (upd σ l b)) = op.sem (f.eval σ) (g.eval σ)
    rw [levelsLt_indep hf.2 hl, levelsLt_indep hg.2 hl])

theorem good_restrict {n : Nat} {f c : BDD} (hf : Good n f) (hc : IsLitCube 0 c) :
    Good n (restrict f c) :=
  good_of_indep (bdd_restrict_nf f c 0 hf.1) (fun l hl σ b => by
    rw [restrict_sem hf.1.1 hc, restrict_sem hf.1.1 hc]
    apply levelsLt_eval_congr hf.2
    intro v hv
    have hvl : v ≠ l := by omega
    simp only [override, upd, hvl, if_false])

theorem pickCubeDD_levelsLt (choice : Nat → Bool) {n : Nat} {f : BDD} (h : LevelsLt n f) :
    LevelsLt n (pickCubeDD choice f) := by
  induction f with
  | leaf b => exact h
  | node l t e iht ihe =>
    rw [pickCubeDD_node]
    split
    · exact ⟨h.1, iht h.2.1, trivial⟩
    · exact ⟨h.1, trivial, ihe h.2.2⟩

theorem good_pick (choice : Nat → Bool) {n : Nat} {f : BDD} (hf : Good n f) :
    Good n (pickCubeDD choice f) := by
  refine ⟨?_, pickCubeDD_levelsLt choice hf.2⟩
  by_cases h : f = .leaf false
  · subst h; exact ⟨.leaf, trivial⟩
  · exact (pickCubeDD_isCube choice hf.1.1 hf.1.2 h).nf

theorem swapLv_lt {u n x : Nat} (hu : u + 1 < n) (hx : x < n) : swapLv u x < n := by
  unfold swapLv; split <;> (try split) <;> omega

theorem good_swap {n u : Nat} (hu : u + 1 < n) {f : BDD} (hf : Good n f) : Good n (swapTree u f) :=
  good_of_indep (swapTree_nf u hf.1 (Nat.zero_le _)) (fun l hl σ b => by
    rw [swapTree_sem u hf.1.1, swapTree_sem u hf.1.1]
    apply levelsLt_eval_congr hf.2
    intro v hv
    have := swapLv_lt hu hv
    simp only [Function.comp]
    exact upd_ne σ b (by omega))

/-! ## the store: adding nodes -/

/-- insert all inner nodes reachable from `ts` (and from `S`) that are not yet in `S` -/
def extend (S ts : List BDD) : List BDD :=
  S ++ (reachList (S ++ ts)).filter (fun x => !S.contains x)

theorem mem_extend {S ts : List BDD} {x : BDD} :
    x ∈ extend S ts ↔ x ∈ S ∨ (Reach (S ++ ts) x ∧ x.isLeaf = false) := by
  simp only [extend, List.mem_append, List.mem_filter, mem_reachList, Bool.not_eq_true',
    List.contains_eq_mem, decide_eq_false_iff_not]
  constructor
  · rintro (h | ⟨h, _⟩)
    · exact .inl h
    · exact .inr h
  · rintro (h | h)
    · exact .inl h
    · by_cases hx : x ∈ S
      · exact .inl hx
      · exact .inr ⟨h, hx⟩

theorem extend_subset (S ts : List BDD) : ∀ x ∈ S, x ∈ extend S ts :=
  fun _ hx => mem_extend.mpr (.inl hx)

theorem extend_nodup {S : List BDD} (ts : List BDD) (hS : S.Nodup) : (extend S ts).Nodup := by
  rw [extend, List.nodup_append]
  refine ⟨hS, List.filter_sublist.nodup (reachList_nodup _), fun a ha b hb hab => ?_⟩
  subst hab
  simp only [List.mem_filter, Bool.not_eq_true', List.contains_eq_mem, decide_eq_false_iff_not] at hb
  exact hb.2 ha

/-- the extended store is a well-formed store for every handle list rooted in `S ++ ts` -/
theorem extend_wf {n : Nat} {S ts hs : List BDD} (hS : S.Nodup) (hin : ∀ x ∈ S, x.isLeaf = false)
    (hg : ∀ x ∈ S ++ ts, Good n x) (hh : ∀ h ∈ hs, h.isLeaf = true ∨ h ∈ S ++ ts) :
    StoreWF hs n (extend S ts) ∧ ∀ x ∈ extend S ts, Good n x := by
  have hreach : ∀ x ∈ extend S ts, Reach (S ++ ts) x := by
    intro x hx
    rcases mem_extend.mp hx with h | h
    · exact .root (List.mem_append_left _ h)
    · exact h.1
  have hgood : ∀ x, Reach (S ++ ts) x → Good n x := by
    intro x hx
    obtain ⟨h, hm, hsub⟩ := (reach_iff_subterm _ _).mp hx
    exact (hg h hm).subterm hsub
  have hstore : ∀ x, Reach (S ++ ts) x → x.isLeaf = true ∨ x ∈ extend S ts := by
    intro x hx
    cases hl : x.isLeaf
    · exact .inr (mem_extend.mpr (.inr ⟨hx, hl⟩))
    · exact .inl rfl
  refine ⟨⟨extend_nodup ts hS, ?_, ?_, ?_, ?_, ?_⟩, fun x hx => hgood x (hreach x hx)⟩
  · intro x hx
    rcases mem_extend.mp hx with h | h
    · exact hin x h
    · exact h.2
  · intro x hx c hc
    exact hstore c (.kid (hreach x hx) hc)
  · intro x hx
    exact ⟨0, (hgood x (hreach x hx)).1.1⟩
  · intro x hx l hl
    have := (hgood x (hreach x hx)).2
    cases x with
    | leaf b => simp [levelOf] at hl
    | node l' t e =>
      simp only [levelOf, Option.some.injEq] at hl
      subst hl
      exact this.1
  · intro h hm
    rcases hh h hm with hl | hl
    · exact .inl hl
    · exact hstore h (.root hl)

/-- **Every well-formed superset is reachable through the garbage parameter.** If `S'` is a
closed store of inner nodes containing `S`, then extending `S` by the nodes of `S'` yields exactly
the set `S'`. -/
theorem extend_covers {S S' : List BDD} (hsub : ∀ x ∈ S, x ∈ S') (hcl : Closed S')
    (hin : ∀ x ∈ S', x.isLeaf = false) (x : BDD) : x ∈ extend S S' ↔ x ∈ S' := by
  rw [mem_extend]
  constructor
  · rintro (h | ⟨hr, hl⟩)
    · exact hsub x h
    · have hh : ∀ h ∈ S ++ S', h.isLeaf = true ∨ h ∈ S' := by
        intro h hm
        rcases List.mem_append.mp hm with hm | hm
        · exact .inr (hsub h hm)
        · exact .inr hm
      rcases reach_mem_store hcl hh hr with h | h
      · rw [hl] at h; cases h
      · exact h
  · intro h
    exact .inr ⟨.root (List.mem_append_right _ h), hin x h⟩

/-! ## the level → variable map -/

theorem l2v_length {l2v : List Nat} {n : Nat} (hp : l2v.Perm (List.range n)) : l2v.length = n := by
  rw [hp.length_eq, List.length_range]

theorem lvFun_lt {l2v : List Nat} {n : Nat} (hp : l2v.Perm (List.range n)) {x : Nat} (hx : x < n) :
    lvFun l2v x < n := by
  have hlen := l2v_length hp
  have hx' : x < l2v.length := by omega
  unfold lvFun
  rw [List.getElem?_eq_getElem hx', Option.getD_some]
  exact List.mem_range.mp (hp.mem_iff.mp (List.getElem_mem hx'))

theorem lvFun_ge {l2v : List Nat} {n : Nat} (hp : l2v.Perm (List.range n)) {x : Nat} (hx : n ≤ x) :
    lvFun l2v x = x := by
  have hlen := l2v_length hp
  unfold lvFun
  rw [List.getElem?_eq_none (by omega), Option.getD_none]

/-- the level → variable map is injective (it is a permutation of `[0, n)` and the identity above) -/
theorem lvFun_inj {l2v : List Nat} {n : Nat} (hp : l2v.Perm (List.range n)) :
    ∀ x y, lvFun l2v x = lvFun l2v y → x = y := by
  intro x y h
  have hlen := l2v_length hp
  have hnd : l2v.Nodup := hp.nodup_iff.mpr List.nodup_range
  by_cases hx : x < n <;> by_cases hy : y < n
  · have hx' : x < l2v.length := by omega
    have hy' : y < l2v.length := by omega
    unfold lvFun at h
    rw [List.getElem?_eq_getElem hx', List.getElem?_eq_getElem hy', Option.getD_some,
      Option.getD_some] at h
    exact (List.getElem_inj hnd).mp h
  · have := lvFun_lt hp hx
    rw [h, lvFun_ge hp (by omega : n ≤ y)] at this
    omega
  · have := lvFun_lt hp hy
    rw [← h, lvFun_ge hp (by omega : n ≤ x)] at this
    omega
  · rw [lvFun_ge hp (by omega : n ≤ x), lvFun_ge hp (by omega : n ≤ y)] at h
    exact h

/-- adding `k` variables at the bottom does not change the map as a function -/
theorem lvFun_addVars {l2v : List Nat} {n : Nat} (hlen : l2v.length = n) (k : Nat) :
    lvFun (l2v ++ (List.range k).map (n + ·)) = lvFun l2v := by
  funext x
  unfold lvFun
  by_cases hx : x < n
  · rw [List.getElem?_append_left (by omega)]
  · rw [List.getElem?_append_right (by omega), List.getElem?_eq_none (l := l2v) (by omega)]
    by_cases hk : x - l2v.length < k
    · rw [List.getElem?_map, List.getElem?_range hk]
      simp only [Option.map_some, Option.getD_some, Option.getD_none]
      omega
    · rw [List.getElem?_eq_none (by simp; omega)]

theorem l2v_addVars {l2v : List Nat} {n : Nat} (hp : l2v.Perm (List.range n)) (k : Nat) :
    (l2v ++ (List.range k).map (n + ·)).Perm (List.range (n + k)) := by
  rw [List.range_add]
  exact hp.append_right _

/-- assignments of the levels and assignments of the variables correspond one to one -/
theorem upd_comp_inj {π : Nat → Nat} (hinj : ∀ x y, π x = π y → x = y) (ρ : Nat → Bool) (l : Nat)
    (b : Bool) : upd (ρ ∘ π) l b = upd ρ (π l) b ∘ π := by
  funext x
  simp only [upd, Function.comp]
  by_cases h : x = l
  · subst h; simp
  · have : π x ≠ π l := fun h' => h (hinj _ _ h')
    simp [h, this]

theorem comp_surj {π : Nat → Nat} (hinj : ∀ x y, π x = π y → x = y) (σ : Nat → Bool) :
    ∃ ρ : Nat → Bool, ρ ∘ π = σ := by
  classical
  refine ⟨fun v => if h : ∃ x, π x = v then σ (Classical.choose h) else false, ?_⟩
  funext x
  have hex : ∃ y, π y = π x := ⟨x, rfl⟩
  simp only [Function.comp]
  rw [dif_pos hex, hinj _ _ (Classical.choose_spec hex)]

/-- quantification over levels = quantification over the variables at those levels -/
theorem qsem_reindex {π : Nat → Nat} (hinj : ∀ x y, π x = π y → x = y) (q : Quant) (ls : List Nat)
    (g : (Nat → Bool) → Bool) (ρ : Nat → Bool) :
    qsem q ls g (ρ ∘ π) = qsem q (ls.map π) (fun ρ' => g (ρ' ∘ π)) ρ := by
  induction ls generalizing ρ with
  | nil => rfl
  | cons l ls ih =>
    simp only [List.map_cons, qsem_cons, q1]
    rw [upd_comp_inj hinj, upd_comp_inj hinj, ih, ih]

/-- a partial assignment of levels = the partial assignment of the variables at those levels -/
theorem override_reindex {π : Nat → Nat} (hinj : ∀ x y, π x = π y → x = y) (ρ : Nat → Bool)
    (lits : List (Nat × Bool)) :
    override (ρ ∘ π) lits = override ρ (lits.map fun p => (π p.1, p.2)) ∘ π := by
  induction lits with
  | nil => rfl
  | cons p lits ih =>
    obtain ⟨l, b⟩ := p
    simp only [List.map_cons]
    rw [override_cons, override_cons, ih, upd_comp_inj hinj]

/-! ## states and commands -/

/-- a Boolean function of the *variables* -/
abbrev Fn := (Nat → Bool) → Bool

structure MState where
  numLevels : Nat
  handles : List BDD
  store : List BDD
  l2v : List Nat
  /-- ghost: the function each live handle is supposed to denote -/
  spec : List Fn

/-- the observable (non-ghost) part of a state -/
def MState.core (s : MState) : Nat × List BDD × List BDD × List Nat :=
  (s.numLevels, s.handles, s.store, s.l2v)

/-- a fresh manager without variables -/
def init : MState := ⟨0, [], [], [], []⟩

inductive ManagerOp where
  | const (b : Bool)
  | var (l : Nat)
  | notVar (l : Nat)
  | not (i : Nat)
  | bin (op : Op) (i j : Nat)
  | ite (i j k : Nat)
  | quant (q : Quant) (i j : Nat)
  | applyQuant (q : Quant) (op : Op) (i j k : Nat)
  | restrict (i j : Nat)
  | pickDD (choice : Nat → Bool) (i : Nat)
  | clone (i : Nat)
  | drop (i : Nat)
  | gc
  | addVars (k : Nat)
  | swap (u : Nat)

/-- the function of the variables denoted by a diagram over levels -/
def den (l2v : List Nat) (t : BDD) : Fn := fun ρ => t.eval (ρ ∘ lvFun l2v)

/-- operand `i`: the handle together with its specified function -/
def MState.arg (s : MState) (i : Nat) : Option (BDD × Fn) :=
  match s.handles[i]?, s.spec[i]? with
  | some f, some sf => some (f, sf)
  | _, _ => none

/-- Result diagram and specified function of the commands that create a handle; `none` for an
ill-formed command (and for `drop`, `gc`, `addVars`, `swap`, which are handled by `step`).

The specified function is built from the *specified functions* of the operands by the propositional
definitions: `Op.sem`, `if-then-else`, `qsem` (iterated `∧/∨/⊕` of cofactors), `override`
(cofactor w.r.t. a partial assignment), all over *variables* (`lvFun l2v` translates levels).
Two places read a diagram: the set of quantified variables / the literals of the cube are read off
the `vars` operand, which must be (checked) a variable set / literal cube; and `pickDD` records the
function of the cube it chose – its specification is the relation of C13
(`pick_result_spec` in `PropertiesHistory.lean`), not a function of the operand's function. -/
def opResult (s : MState) : ManagerOp → Option (BDD × Fn)
  | .const b => some (.leaf b, fun _ => b)
  | .var l => if l < s.numLevels then some (var l, fun ρ => ρ (lvFun s.l2v l)) else none
  | .notVar l => if l < s.numLevels then some (notVar l, fun ρ => !ρ (lvFun s.l2v l)) else none
  | .not i => (s.arg i).bind fun a => some (applyNot a.1, fun ρ => !a.2 ρ)
  | .bin op i j => (s.arg i).bind fun a => (s.arg j).bind fun b =>
      some (applyBin op a.1 b.1, fun ρ => op.sem (a.2 ρ) (b.2 ρ))
  | .ite i j k => (s.arg i).bind fun a => (s.arg j).bind fun b => (s.arg k).bind fun c =>
      some (applyIte a.1 b.1 c.1, fun ρ => if a.2 ρ then b.2 ρ else c.2 ρ)
  | .quant q i j => (s.arg i).bind fun a => (s.arg j).bind fun v =>
      if isVarSetB 0 v.1 then
        some (quant q a.1 v.1, qsem q ((varsOf v.1).map (lvFun s.l2v)) a.2)
      else none
  | .applyQuant q op i j k => (s.arg i).bind fun a => (s.arg j).bind fun b => (s.arg k).bind fun v =>
      if isVarSetB 0 v.1 then
        some (applyQuant q op a.1 b.1 v.1,
          qsem q ((varsOf v.1).map (lvFun s.l2v)) (fun ρ => op.sem (a.2 ρ) (b.2 ρ)))
      else none
  | .restrict i j => (s.arg i).bind fun a => (s.arg j).bind fun c =>
      if isLitCubeB 0 c.1 then
        some (restrict a.1 c.1,
          fun ρ => a.2 (override ρ ((litsOf c.1).map fun p => (lvFun s.l2v p.1, p.2))))
      else none
  | .pickDD choice i => (s.arg i).bind fun a =>
      some (pickCubeDD choice a.1, den s.l2v (pickCubeDD choice a.1))
  | .clone i => s.arg i
  | .drop _ => none
  | .gc => none
  | .addVars _ => none
  | .swap _ => none

/-- the state after a command that produced the handle `r` with specified function `f` -/
def MState.withResult (s : MState) (r : BDD) (f : Fn) (g : List BDD) : MState :=
  { s with
    handles := s.handles ++ [r]
    spec := s.spec ++ [f]
    store := extend s.store (r :: g.filter (goodB s.numLevels)) }

/-- the state after `level_swap(u, u+1)` -/
def MState.swapped (s : MState) (u : Nat) (g : List BDD) : MState :=
  { s with
    handles := s.handles.map (swapTree u)
    store := extend (s.store.map (swapTree u)) (g.filter (goodB s.numLevels))
    l2v := swapAdj u s.l2v }

/-- One step. `g` is the intermediate garbage of the command (see the file header). -/
def step (s : MState) (op : ManagerOp) (g : List BDD) : MState :=
  match op with
  | .drop i =>
    if i < s.handles.length then
      { s with handles := s.handles.eraseIdx i, spec := s.spec.eraseIdx i }
    else s
  | .gc => { s with store := gc s.handles s.numLevels s.store }
  | .addVars k =>
    { s with numLevels := s.numLevels + k, l2v := s.l2v ++ (List.range k).map (s.numLevels + ·) }
  | .swap u => if u + 1 < s.numLevels then s.swapped u g else s
  | op =>
    match opResult s op with
    | some (r, f) => s.withResult r f g
    | none => s

/-- a history: commands with their intermediate garbage -/
def run : List (ManagerOp × List BDD) → MState → MState
  | [], s => s
  | (op, g) :: rest, s => run rest (step s op g)

theorem run_append (a b : List (ManagerOp × List BDD)) (s : MState) :
    run (a ++ b) s = run b (run a s) := by
  induction a generalizing s with
  | nil => rfl
  | cons x a ih => obtain ⟨op, g⟩ := x; simp only [List.cons_append, run, ih]

/-- the states a manager can be in -/
inductive Reachable : MState → Prop
  | init : Reachable init
  | step {s : MState} (op : ManagerOp) (g : List BDD) : Reachable s → Reachable (step s op g)

theorem reachable_run (h : List (ManagerOp × List BDD)) {s : MState} (hs : Reachable s) :
    Reachable (run h s) := by
  induction h generalizing s with
  | nil => exact hs
  | cons x h ih => obtain ⟨op, g⟩ := x; exact ih (.step op g hs)

theorem reachable_iff (s : MState) : Reachable s ↔ ∃ h, s = run h init := by
  constructor
  · intro hs
    induction hs with
    | init => exact ⟨[], rfl⟩
    | step op g _ ih =>
      obtain ⟨h, rfl⟩ := ih
      exact ⟨h ++ [(op, g)], by rw [run_append]; rfl⟩
  · rintro ⟨h, rfl⟩
    exact reachable_run h .init

/-- a complete reordering: the list of adjacent level swaps emitted by `bubbleSort` -/
def swapOps (sw : List Nat) : List (ManagerOp × List BDD) := sw.map fun u => (.swap u, [])

/-! ## the invariant -/

/-- **The invariant** (C01/C03 at tree level). -/
structure Inv (s : MState) : Prop where
  /-- every live handle is ordered and reduced from level 0 on, with all levels `< numLevels` -/
  handlesGood : ∀ h ∈ s.handles, Good s.numLevels h
  /-- the unique table is duplicate-free, holds inner nodes only, is closed under children, every
  stored node is ordered with an existing level, and every inner node of a live handle is stored -/
  storeWF : StoreWF s.handles s.numLevels s.store
  /-- every stored node is in normal form (in particular *reduced*) with all levels `< numLevels` -/
  storeGood : ∀ x ∈ s.store, Good s.numLevels x
  /-- the level → variable map is a permutation of the variables -/
  l2vPerm : s.l2v.Perm (List.range s.numLevels)
  specLen : s.spec.length = s.handles.length
  /-- every live handle denotes its specified function of the variables -/
  sem : ∀ (i : Nat) (f : BDD) (sf : Fn), s.handles[i]? = some f → s.spec[i]? = some sf →
    ∀ ρ, f.eval (ρ ∘ lvFun s.l2v) = sf ρ

/-! ## operands -/

theorem arg_eq_some {s : MState} {i : Nat} {a : BDD × Fn} :
    s.arg i = some a ↔ s.handles[i]? = some a.1 ∧ s.spec[i]? = some a.2 := by
  obtain ⟨f, sf⟩ := a
  unfold MState.arg
  split
  · rename_i h1 h2
    simp only [Option.some.injEq, Prod.mk.injEq, h1, h2]
  · rename_i hn
    constructor
    · intro h; cases h
    · rintro ⟨h1, h2⟩; exact absurd h2 (hn _ _ h1)

/-- what the invariant says about an operand -/
structure ArgOK (s : MState) (f : BDD) (sf : Fn) : Prop where
  mem : f ∈ s.handles
  good : Good s.numLevels f
  sem : ∀ ρ, f.eval (ρ ∘ lvFun s.l2v) = sf ρ

theorem Inv.arg {s : MState} (inv : Inv s) {i : Nat} {a : BDD × Fn} (h : s.arg i = some a) :
    ArgOK s a.1 a.2 := by
  obtain ⟨h1, h2⟩ := arg_eq_some.mp h
  have hm := List.mem_of_getElem? h1
  exact ⟨hm, inv.handlesGood _ hm, inv.sem i _ _ h1 h2⟩

/-- **Per-command correctness, lifted to a state satisfying the invariant.** The result of every
well-formed handle-creating command is a well-formed diagram of the manager and denotes the
function specified for it. -/
theorem opResult_spec {s : MState} (inv : Inv s) {op : ManagerOp} {r : BDD} {sr : Fn}
    (h : opResult s op = some (r, sr)) :
    Good s.numLevels r ∧ ∀ ρ, r.eval (ρ ∘ lvFun s.l2v) = sr ρ := by
  have hinj := lvFun_inj inv.l2vPerm
  cases op with
  | const b =>
    simp only [opResult, Option.some.injEq, Prod.mk.injEq] at h
    obtain ⟨rfl, rfl⟩ := h
    exact ⟨good_leaf _ _, fun _ => rfl⟩
  | var l =>
    simp only [opResult] at h
    split at h
    · rename_i hl
      simp only [Option.some.injEq, Prod.mk.injEq] at h
      obtain ⟨rfl, rfl⟩ := h
      exact ⟨(good_var hl).1, fun ρ => by simp [var, eval]⟩
    · cases h
  | notVar l =>
    simp only [opResult] at h
    split at h
    · rename_i hl
      simp only [Option.some.injEq, Prod.mk.injEq] at h
      obtain ⟨rfl, rfl⟩ := h
      exact ⟨(good_var hl).2, fun ρ => by simp [notVar, eval]⟩
    · cases h
  | not i =>
    simp only [opResult, Option.bind_eq_some_iff, Option.some.injEq, Prod.mk.injEq] at h
    obtain ⟨a, ha, rfl, rfl⟩ := h
    have A := inv.arg ha
    exact ⟨good_not A.good, fun ρ => by rw [applyNot_eval, A.sem]⟩
  | bin o i j =>
    simp only [opResult, Option.bind_eq_some_iff, Option.some.injEq, Prod.mk.injEq] at h
    obtain ⟨a, ha, b, hb, rfl, rfl⟩ := h
    have A := inv.arg ha
    have B := inv.arg hb
    exact ⟨good_bin o A.good B.good, fun ρ => by rw [applyBin_eval, A.sem, B.sem]⟩
  | ite i j k =>
    simp only [opResult, Option.bind_eq_some_iff, Option.some.injEq, Prod.mk.injEq] at h
    obtain ⟨a, ha, b, hb, c, hc, rfl, rfl⟩ := h
    have A := inv.arg ha
    have B := inv.arg hb
    have C := inv.arg hc
    exact ⟨good_ite A.good B.good C.good, fun ρ => by rw [applyIte_eval, A.sem, B.sem, C.sem]⟩
  | quant q i j =>
    simp only [opResult, Option.bind_eq_some_iff] at h
    obtain ⟨a, ha, v, hv, h⟩ := h
    split at h
    · rename_i hvs
      simp only [Option.some.injEq, Prod.mk.injEq] at h
      obtain ⟨rfl, rfl⟩ := h
      have A := inv.arg ha
      have hvs' := isVarSetB_sound _ _ hvs
      refine ⟨good_quant q A.good hvs', fun ρ => ?_⟩
      rw [quant_sem q A.good.1.1 hvs', qsem_reindex hinj]
      exact congrFun (qsem_congr q _ (fun ρ' => A.sem ρ')) ρ
    · cases h
  | applyQuant q o i j k =>
    simp only [opResult, Option.bind_eq_some_iff] at h
    obtain ⟨a, ha, b, hb, v, hv, h⟩ := h
    split at h
    · rename_i hvs
      simp only [Option.some.injEq, Prod.mk.injEq] at h
      obtain ⟨rfl, rfl⟩ := h
      have A := inv.arg ha
      have B := inv.arg hb
      have hvs' := isVarSetB_sound _ _ hvs
      refine ⟨good_applyQuant q o A.good B.good hvs', fun ρ => ?_⟩
      rw [applyQuant_sem q o A.good.1.1 B.good.1.1 hvs', qsem_reindex hinj]
      exact congrFun (qsem_congr q _ (fun ρ' => by
        show o.sem (a.1.eval (ρ' ∘ _)) (b.1.eval (ρ' ∘ _)) = _
        rw [A.sem, B.sem])) ρ
    · cases h
  | restrict i j =>
    simp only [opResult, Option.bind_eq_some_iff] at h
    obtain ⟨a, ha, c, hc, h⟩ := h
    split at h
    · rename_i hcs
      simp only [Option.some.injEq, Prod.mk.injEq] at h
      obtain ⟨rfl, rfl⟩ := h
      have A := inv.arg ha
      have hcs' := isLitCubeB_sound _ _ hcs
      refine ⟨good_restrict A.good hcs', fun ρ => ?_⟩
      rw [restrict_sem A.good.1.1 hcs', override_reindex hinj]
      exact A.sem _
    · cases h
  | pickDD choice i =>
    simp only [opResult, Option.bind_eq_some_iff, Option.some.injEq, Prod.mk.injEq] at h
    obtain ⟨a, ha, rfl, rfl⟩ := h
    exact ⟨good_pick choice (inv.arg ha).good, fun _ => rfl⟩
  | clone i =>
    have A := inv.arg (show s.arg i = some (r, sr) from h)
    exact ⟨A.good, A.sem⟩
  | drop i => cases h
  | gc => cases h
  | addVars k => cases h
  | swap u => cases h

/-! ## each kind of step preserves the invariant -/

theorem inv_withResult {s : MState} (inv : Inv s) {r : BDD} {f : Fn} (g : List BDD)
    (hr : Good s.numLevels r) (hsem : ∀ ρ, r.eval (ρ ∘ lvFun s.l2v) = f ρ) :
    Inv (s.withResult r f g) := by
  have hg : ∀ x ∈ s.store ++ r :: g.filter (goodB s.numLevels), Good s.numLevels x := by
    intro x hx
    rcases List.mem_append.mp hx with hx | hx
    · exact inv.storeGood x hx
    · rcases List.mem_cons.mp hx with rfl | hx
      · exact hr
      · exact goodB_sound (List.mem_filter.mp hx).2
  have hh : ∀ h ∈ s.handles ++ [r],
      h.isLeaf = true ∨ h ∈ s.store ++ r :: g.filter (goodB s.numLevels) := by
    intro h hm
    rcases List.mem_append.mp hm with hm | hm
    · exact (inv.storeWF.handles h hm).imp id (List.mem_append_left _)
    · rw [List.mem_singleton] at hm
      subst hm
      exact .inr (List.mem_append_right _ (List.mem_cons_self ..))
  obtain ⟨wf, sg⟩ := extend_wf (hs := s.handles ++ [r]) inv.storeWF.nodup inv.storeWF.inner hg hh
  refine ⟨?_, wf, sg, inv.l2vPerm, ?_, ?_⟩
  · intro h hm
    rcases List.mem_append.mp hm with hm | hm
    · exact inv.handlesGood h hm
    · rw [List.mem_singleton] at hm
      subst hm
      exact hr
  · show (s.spec ++ [f]).length = (s.handles ++ [r]).length
    rw [List.length_append, List.length_append, inv.specLen]
    rfl
  · intro i f' sf' h1 h2 ρ
    have h1' : (s.handles ++ [r])[i]? = some f' := h1
    have h2' : (s.spec ++ [f])[i]? = some sf' := h2
    rw [List.getElem?_append] at h1' h2'
    rw [inv.specLen] at h2'
    by_cases hi : i < s.handles.length
    · rw [if_pos hi] at h1' h2'
      exact inv.sem i _ _ h1' h2' ρ
    · rw [if_neg hi] at h1' h2'
      cases hk : i - s.handles.length with
      | zero =>
        rw [hk] at h1' h2'
        simp only [List.getElem?_cons_zero, Option.some.injEq] at h1' h2'
        subst h1' h2'
        exact hsem ρ
      | succ k =>
        rw [hk] at h1'
        simp at h1'

theorem inv_drop {s : MState} (inv : Inv s) (i : Nat) :
    Inv { s with handles := s.handles.eraseIdx i, spec := s.spec.eraseIdx i } := by
  refine ⟨fun h hm => inv.handlesGood h (List.mem_of_mem_eraseIdx hm),
    { inv.storeWF with handles := fun h hm => inv.storeWF.handles h (List.mem_of_mem_eraseIdx hm) },
    inv.storeGood, inv.l2vPerm, ?_, ?_⟩
  · show (s.spec.eraseIdx i).length = (s.handles.eraseIdx i).length
    rw [List.length_eraseIdx, List.length_eraseIdx, inv.specLen]
  · intro j f sf h1 h2 ρ
    have h1' : (s.handles.eraseIdx i)[j]? = some f := h1
    have h2' : (s.spec.eraseIdx i)[j]? = some sf := h2
    rw [List.getElem?_eraseIdx] at h1' h2'
    by_cases hj : j < i
    · rw [if_pos hj] at h1' h2'
      exact inv.sem j _ _ h1' h2' ρ
    · rw [if_neg hj] at h1' h2'
      exact inv.sem (j + 1) _ _ h1' h2' ρ

theorem inv_gc {s : MState} (inv : Inv s) :
    Inv { s with store := gc s.handles s.numLevels s.store } :=
  ⟨inv.handlesGood, gc_wf inv.storeWF,
    fun x hx => inv.storeGood x ((gc_sublist ..).subset hx), inv.l2vPerm, inv.specLen, inv.sem⟩

theorem inv_addVars {s : MState} (inv : Inv s) (k : Nat) :
    Inv { s with numLevels := s.numLevels + k,
                 l2v := s.l2v ++ (List.range k).map (s.numLevels + ·) } := by
  refine ⟨fun h hm => (inv.handlesGood h hm).mono (Nat.le_add_right _ _), ?_,
    fun x hx => (inv.storeGood x hx).mono (Nat.le_add_right _ _), l2v_addVars inv.l2vPerm k,
    inv.specLen, ?_⟩
  · exact { inv.storeWF with
      levels := fun x hx l hl => Nat.lt_of_lt_of_le (inv.storeWF.levels x hx l hl)
        (Nat.le_add_right _ _) }
  · intro i f sf h1 h2 ρ
    show f.eval (ρ ∘ lvFun (s.l2v ++ (List.range k).map (s.numLevels + ·))) = sf ρ
    rw [lvFun_addVars (l2v_length inv.l2vPerm)]
    exact inv.sem i f sf h1 h2 ρ

theorem swapTree_isLeaf (u : Nat) (t : BDD) : (swapTree u t).isLeaf = t.isLeaf := by
  cases t with
  | leaf b => rfl
  | node l a b =>
    simp only [swapTree]
    split <;> (try split) <;> (try split) <;> rfl

theorem nodup_map_swap {n : Nat} (u : Nat) {S : List BDD} (hS : S.Nodup)
    (hg : ∀ x ∈ S, Good n x) : (S.map (swapTree u)).Nodup := by
  induction S with
  | nil => exact List.nodup_nil
  | cons a S ih =>
    rw [List.nodup_cons] at hS
    rw [List.map_cons, List.nodup_cons]
    refine ⟨?_, ih hS.2 (fun x hx => hg x (List.mem_cons_of_mem _ hx))⟩
    intro hm
    obtain ⟨y, hy, heq⟩ := List.mem_map.mp hm
    have := swapTree_inj u (hg y (List.mem_cons_of_mem _ hy)).1 (hg a (List.mem_cons_self ..)).1 heq
    subst this
    exact hS.1 hy

/-- the variables seen through the transposed map at the transposed levels are the old ones -/
theorem swap_den {l2v : List Nat} {u : Nat} (hu : u + 1 < l2v.length) {n : Nat} {t : BDD}
    (ht : Ordered n t) (ρ : Nat → Bool) :
    (swapTree u t).eval (ρ ∘ lvFun (swapAdj u l2v)) = t.eval (ρ ∘ lvFun l2v) := by
  rw [swapTree_sem u ht]
  congr 1
  funext x
  simp only [Function.comp]
  rw [lvFun_swapAdj l2v u hu]

theorem inv_swapped {s : MState} (inv : Inv s) {u : Nat} (hu : u + 1 < s.numLevels)
    (g : List BDD) : Inv (s.swapped u g) := by
  have hg : ∀ x ∈ s.store.map (swapTree u) ++ g.filter (goodB s.numLevels),
      Good s.numLevels x := by
    intro x hx
    rcases List.mem_append.mp hx with hx | hx
    · obtain ⟨y, hy, rfl⟩ := List.mem_map.mp hx
      exact good_swap hu (inv.storeGood y hy)
    · exact goodB_sound (List.mem_filter.mp hx).2
  have hin : ∀ x ∈ s.store.map (swapTree u), x.isLeaf = false := by
    intro x hx
    obtain ⟨y, hy, rfl⟩ := List.mem_map.mp hx
    rw [swapTree_isLeaf]
    exact inv.storeWF.inner y hy
  have hh : ∀ h ∈ s.handles.map (swapTree u),
      h.isLeaf = true ∨ h ∈ s.store.map (swapTree u) ++ g.filter (goodB s.numLevels) := by
    intro h hm
    obtain ⟨y, hy, rfl⟩ := List.mem_map.mp hm
    rcases inv.storeWF.handles y hy with hl | hl
    · left; rw [swapTree_isLeaf]; exact hl
    · exact .inr (List.mem_append_left _ (List.mem_map_of_mem hl))
  obtain ⟨wf, sg⟩ := extend_wf (hs := s.handles.map (swapTree u))
    (nodup_map_swap u inv.storeWF.nodup inv.storeGood) hin hg hh
  refine ⟨?_, wf, sg, (swapAdj_perm u s.l2v).trans inv.l2vPerm, ?_, ?_⟩
  · intro h hm
    obtain ⟨y, hy, rfl⟩ := List.mem_map.mp hm
    exact good_swap hu (inv.handlesGood y hy)
  · show s.spec.length = (s.handles.map (swapTree u)).length
    rw [List.length_map, inv.specLen]
  · intro i f sf h1 h2 ρ
    have h1' : (s.handles.map (swapTree u))[i]? = some f := h1
    rw [List.getElem?_map, Option.map_eq_some_iff] at h1'
    obtain ⟨f0, hf0, rfl⟩ := h1'
    show (swapTree u f0).eval (ρ ∘ lvFun (swapAdj u s.l2v)) = sf ρ
    rw [swap_den (by rw [l2v_length inv.l2vPerm]; exact hu)
      (inv.handlesGood f0 (List.mem_of_getElem? hf0)).1.1]
    exact inv.sem i f0 sf hf0 h2 ρ

theorem inv_opResult {s : MState} (inv : Inv s) (op : ManagerOp) (g : List BDD) :
    Inv (match opResult s op with
      | some (r, f) => s.withResult r f g
      | none => s) := by
  cases h : opResult s op with
  | none => exact inv
  | some p =>
    obtain ⟨r, f⟩ := p
    obtain ⟨hr, hsem⟩ := opResult_spec inv h
    exact inv_withResult inv g hr hsem

/-- **The garbage parameter reaches every admissible store.** Whatever store `S'` a real operation
leaves behind – as long as it contains the old store, is closed under children, consists of
well-formed inner nodes and holds the result's root – passing `S'` as the garbage parameter yields
a store with exactly the elements of `S'`. (The order of the list is immaterial: every statement
about stores here is about membership, `Nodup` and `Perm`.) -/
theorem withResult_covers {s : MState} {r : BDD} {f : Fn} {S' : List BDD}
    (hsub : ∀ x ∈ s.store, x ∈ S') (hcl : Closed S') (hin : ∀ x ∈ S', x.isLeaf = false)
    (hg : ∀ x ∈ S', Good s.numLevels x) (hr : r.isLeaf = true ∨ r ∈ S') (x : BDD) :
    x ∈ (s.withResult r f S').store ↔ x ∈ S' := by
  have hfil : S'.filter (goodB s.numLevels) = S' :=
    List.filter_eq_self.mpr (fun a ha => goodB_iff.mpr (hg a ha))
  show x ∈ extend s.store (r :: S'.filter (goodB s.numLevels)) ↔ x ∈ S'
  rw [hfil, mem_extend]
  constructor
  · rintro (h | ⟨hreach, hl⟩)
    · exact hsub x h
    · have hh : ∀ h ∈ s.store ++ r :: S', h.isLeaf = true ∨ h ∈ S' := by
        intro h hm
        rcases List.mem_append.mp hm with hm | hm
        · exact .inr (hsub h hm)
        · rcases List.mem_cons.mp hm with rfl | hm
          · exact hr
          · exact .inr hm
      rcases reach_mem_store hcl hh hreach with h | h
      · rw [hl] at h; cases h
      · exact h
  · intro h
    exact .inr ⟨.root (List.mem_append_right _ (List.mem_cons_of_mem _ h)), hin x h⟩

end OxiddModel.Bdd.History
