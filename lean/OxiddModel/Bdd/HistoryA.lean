import OxiddModel.Bdd.ApplyA
import OxiddModel.Bdd.HistoryS

/-!
# Histories under different build configurations

A *configuration* `Cfg` fixes everything the build/run-time configuration of the library
influences at this level: the slot allocator (`alloc`: index-based vs. pointer-based manager,
free-list/bump/chunked allocation), the apply-cache behaviour (`policy`: cache present or not,
capacity, hash, lock failures) and the eviction choices (`ev`).

Because two configurations place nodes in different slots, a recorded history cannot mention
edges literally. The commands of `HistoryS.lean` are reused with operands read as *handle
references*: `Edge.inner i` is the `i`-th handle of the run's handle table (initial handles
followed by the results of the previous commands, like `h7 = and h1 h2` in a recorded operation
file), `Edge.term b` is the constant `b`.

`history_equiv`: two runs of the same history under two configurations, started in equivalent
states (`Equiv`: same trees stored, same number of nodes, handle tables denoting the same trees
position by position, invariants), end in equivalent states.
-/
namespace OxiddModel.Bdd.Refine
open OxiddModel.Bdd OxiddModel.Bdd.BDD

structure Cfg where
  alloc : Alloc
  policy : Policy
  ev : Nat → Key × Edge → Bool

structure Cfg.OK (c : Cfg) : Prop where
  alloc : AllocOK c.alloc
  policy : c.policy.OK

/-- manager state + handle table -/
structure HSt where
  st : St
  hs : List Edge

/-- operand of a recorded command → edge of this run -/
def resolve (hs : List Edge) : Edge → Edge
  | .term b => .term b
  | .inner i => hs.getD i (.term false)

def stepH (cfg : Cfg) (fuel : Nat) : Cmd → HSt → HSt
  | .not f, h =>
    let r := notA cfg.alloc cfg.policy fuel h.st (resolve h.hs f)
    ⟨r.1, h.hs ++ [r.2]⟩
  | .bin op f g, h =>
    let r := applyA cfg.alloc cfg.policy op fuel h.st (resolve h.hs f) (resolve h.hs g)
    ⟨r.1, h.hs ++ [r.2]⟩
  | .ite f g k, h =>
    let r := iteA cfg.alloc cfg.policy fuel h.st (resolve h.hs f) (resolve h.hs g) (resolve h.hs k)
    ⟨r.1, h.hs ++ [r.2]⟩
  | .cacheOp n, h => ⟨⟨h.st.store, h.st.cache.filter (cfg.ev n), h.st.tick⟩, h.hs⟩

def runH (cfg : Cfg) (fuel : Nat) : List Cmd → HSt → HSt
  | [], h => h
  | c :: cs, h => runH cfg fuel cs (stepH cfg fuel c h)

/-- the operands are handles denoting trees, and the fuel suffices -/
def ValidH (fuel : Nat) (h : HSt) : Cmd → Prop
  | .not f => ∃ a, Denotes h.st.store (resolve h.hs f) a ∧ a.size ≤ fuel
  | .bin _ f g => ∃ a b, Denotes h.st.store (resolve h.hs f) a ∧
      Denotes h.st.store (resolve h.hs g) b ∧ a.size + b.size ≤ fuel
  | .ite f g k => ∃ a b c, Denotes h.st.store (resolve h.hs f) a ∧
      Denotes h.st.store (resolve h.hs g) b ∧ Denotes h.st.store (resolve h.hs k) c ∧
      a.size + b.size + c.size ≤ fuel
  | .cacheOp _ => True

def ValidAllH (cfg : Cfg) (fuel : Nat) : List Cmd → HSt → Prop
  | [], _ => True
  | c :: cs, h => ValidH fuel h c ∧ ValidAllH cfg fuel cs (stepH cfg fuel c h)

/-- structural invariants of one run (C03-style): hash consing, reducedness, no dangling edges,
sound cache -/
structure Good (h : HSt) : Prop where
  unique : h.st.store.Unique
  nored : h.st.store.NoRed
  wf : h.st.store.WF
  cache : CacheOK h.st.store h.st.cache

/-- the handle tables denote the same trees, position by position -/
def Agree (h₁ h₂ : HSt) : Prop :=
  h₁.hs.length = h₂.hs.length ∧
  ∀ i, i < h₁.hs.length → ∃ t, Denotes h₁.st.store (h₁.hs.getD i (.term false)) t ∧
    Denotes h₂.st.store (h₂.hs.getD i (.term false)) t

/-- observational equivalence of two runs -/
structure Equiv (h₁ h₂ : HSt) : Prop where
  good₁ : Good h₁
  good₂ : Good h₂
  same : SameTrees h₁.st.store h₂.st.store
  count : h₁.st.store.count = h₂.st.store.count
  agree : Agree h₁ h₂

theorem Agree.transfer {h₁ h₂ : HSt} (ha : Agree h₁ h₂) (e : Edge) (a : BDD)
    (hd : Denotes h₁.st.store (resolve h₁.hs e) a) : Denotes h₂.st.store (resolve h₂.hs e) a := by
  cases e with
  | term b =>
    simp only [resolve] at hd ⊢
    cases hd; exact .term
  | inner i =>
    simp only [resolve] at hd ⊢
    by_cases hi : i < h₁.hs.length
    · obtain ⟨t, d1, d2⟩ := ha.2 i hi
      rw [Denotes.functional hd d1]; exact d2
    · have e1 : h₁.hs.getD i (.term false) = .term false := by
        rw [List.getD_eq_getElem?_getD, List.getElem?_eq_none (by omega)]; rfl
      have e2 : h₂.hs.getD i (.term false) = .term false := by
        rw [List.getD_eq_getElem?_getD, List.getElem?_eq_none (by rw [← ha.1]; omega)]; rfl
      rw [e1] at hd; rw [e2]
      cases hd; exact .term

theorem getD_append_lt {hs : List Edge} {x d : Edge} {i : Nat} (h : i < hs.length) :
    (hs ++ [x]).getD i d = hs.getD i d := by
  simp only [List.getD_eq_getElem?_getD, List.getElem?_append_left h]

theorem getD_append_eq {hs : List Edge} {x d : Edge} : (hs ++ [x]).getD hs.length d = x := by
  simp [List.getD_eq_getElem?_getD]

/-- after an operation whose two runs satisfy `PostA` for the same reduced tree -/
theorem equiv_after {cfg₁ cfg₂ : Cfg} (ok₁ : cfg₁.OK) (ok₂ : cfg₂.OK) {h₁ h₂ : HSt}
    (heq : Equiv h₁ h₂) {T : BDD} (hT : Reduced T) {R₁ R₂ : St × Edge}
    (P₁ : PostA cfg₁.alloc h₁.st.store T R₁) (P₂ : PostA cfg₂.alloc h₂.st.store T R₂) :
    Equiv ⟨R₁.1, h₁.hs ++ [R₁.2]⟩ ⟨R₂.1, h₂.hs ++ [R₂.2]⟩ := by
  have c₁ := P₁.canon heq.good₁.nored
  have c₂ := P₂.canon heq.good₂.nored
  have s₁ : R₁.1.store = (internA cfg₁.alloc h₁.st.store T).1 := congrArg Prod.fst c₁
  have s₂ : R₂.1.store = (internA cfg₂.alloc h₂.st.store T).1 := congrArg Prod.fst c₂
  have w₁ := (internA_spec ok₁.alloc h₁.st.store T heq.good₁.unique heq.good₁.wf hT).2
  have w₂ := (internA_spec ok₂.alloc h₂.st.store T heq.good₂.unique heq.good₂.wf hT).2
  obtain ⟨hsame, hcount⟩ := internA_same ok₁.alloc ok₂.alloc T _ _ heq.good₁.unique heq.good₂.unique
    heq.good₁.wf heq.good₂.wf hT heq.same heq.count
  refine ⟨⟨P₁.inv.1, P₁.nored heq.good₁.nored, by rw [s₁]; exact w₁, P₁.inv.2⟩,
    ⟨P₂.inv.1, P₂.nored heq.good₂.nored, by rw [s₂]; exact w₂, P₂.inv.2⟩, ?_, ?_, ?_⟩
  · show SameTrees R₁.1.store R₂.1.store
    rw [s₁, s₂]; exact hsame
  · show R₁.1.store.count = R₂.1.store.count
    rw [s₁, s₂]; exact hcount
  · refine ⟨by simp [heq.agree.1], ?_⟩
    intro i hi
    simp only [List.length_append, List.length_singleton] at hi
    by_cases hlt : i < h₁.hs.length
    · obtain ⟨t, d1, d2⟩ := heq.agree.2 i hlt
      refine ⟨t, ?_, ?_⟩
      · show Denotes R₁.1.store ((h₁.hs ++ [R₁.2]).getD i _) t
        rw [getD_append_lt hlt]; exact d1.mono P₁.le
      · show Denotes R₂.1.store ((h₂.hs ++ [R₂.2]).getD i _) t
        rw [getD_append_lt (by rw [← heq.agree.1]; exact hlt)]; exact d2.mono P₂.le
    · have hi' : i = h₁.hs.length := by omega
      subst hi'
      refine ⟨T, ?_, ?_⟩
      · show Denotes R₁.1.store ((h₁.hs ++ [R₁.2]).getD h₁.hs.length _) T
        rw [getD_append_eq]; exact P₁.den
      · show Denotes R₂.1.store ((h₂.hs ++ [R₂.2]).getD h₁.hs.length _) T
        rw [heq.agree.1, getD_append_eq]; exact P₂.den

/-- one command -/
theorem stepH_equiv {cfg₁ cfg₂ : Cfg} (ok₁ : cfg₁.OK) (ok₂ : cfg₂.OK) (fuel : Nat) (c : Cmd)
    {h₁ h₂ : HSt} (heq : Equiv h₁ h₂) (hv : ValidH fuel h₁ c) :
    Equiv (stepH cfg₁ fuel c h₁) (stepH cfg₂ fuel c h₂) ∧ ValidH fuel h₂ c := by
  have i₁ : Inv h₁.st := ⟨heq.good₁.unique, heq.good₁.cache⟩
  have i₂ : Inv h₂.st := ⟨heq.good₂.unique, heq.good₂.cache⟩
  have red := fun {x : Edge} {a : BDD} (h : Denotes h₁.st.store x a) =>
    denotes_reduced heq.good₁.unique heq.good₁.nored h
  cases c with
  | not f =>
    obtain ⟨a, hf, hsz⟩ := hv
    have hf' := heq.agree.transfer f a hf
    exact ⟨equiv_after ok₁ ok₂ heq (applyNot_reduced a)
      (notA_spec ok₁.alloc ok₁.policy fuel _ _ a i₁ hf hsz)
      (notA_spec ok₂.alloc ok₂.policy fuel _ _ a i₂ hf' hsz), a, hf', hsz⟩
  | bin op f g =>
    obtain ⟨a, b, hf, hg, hsz⟩ := hv
    have hf' := heq.agree.transfer f a hf
    have hg' := heq.agree.transfer g b hg
    exact ⟨equiv_after ok₁ ok₂ heq (applyBin_reduced op a b (red hf) (red hg))
      (applyA_spec ok₁.alloc ok₁.policy op fuel _ _ _ a b i₁ hf hg hsz)
      (applyA_spec ok₂.alloc ok₂.policy op fuel _ _ _ a b i₂ hf' hg' hsz), a, b, hf', hg', hsz⟩
  | ite f g k =>
    obtain ⟨a, b, c, hf, hg, hk, hsz⟩ := hv
    have hf' := heq.agree.transfer f a hf
    have hg' := heq.agree.transfer g b hg
    have hk' := heq.agree.transfer k c hk
    exact ⟨equiv_after ok₁ ok₂ heq (applyIte_reduced a b c (red hf) (red hg) (red hk))
      (iteA_spec ok₁.alloc ok₁.policy fuel _ _ _ _ a b c i₁ hf hg hk hsz)
      (iteA_spec ok₂.alloc ok₂.policy fuel _ _ _ _ a b c i₂ hf' hg' hk' hsz),
      a, b, c, hf', hg', hk', hsz⟩
  | cacheOp n =>
    refine ⟨⟨⟨heq.good₁.unique, heq.good₁.nored, heq.good₁.wf,
        heq.good₁.cache.sub (fun x hx => (List.mem_filter.mp hx).1)⟩,
      ⟨heq.good₂.unique, heq.good₂.nored, heq.good₂.wf,
        heq.good₂.cache.sub (fun x hx => (List.mem_filter.mp hx).1)⟩,
      heq.same, heq.count, heq.agree⟩, trivial⟩

/-- **whole histories** -/
theorem history_equiv {cfg₁ cfg₂ : Cfg} (ok₁ : cfg₁.OK) (ok₂ : cfg₂.OK) (fuel : Nat)
    (cs : List Cmd) : ∀ (h₁ h₂ : HSt), Equiv h₁ h₂ → ValidAllH cfg₁ fuel cs h₁ →
    Equiv (runH cfg₁ fuel cs h₁) (runH cfg₂ fuel cs h₂) ∧ ValidAllH cfg₂ fuel cs h₂ := by
  induction cs with
  | nil => intro h₁ h₂ heq _; exact ⟨heq, trivial⟩
  | cons c cs ih =>
    intro h₁ h₂ heq hv
    obtain ⟨e1, v2⟩ := stepH_equiv ok₁ ok₂ fuel c heq hv.1
    obtain ⟨e, v⟩ := ih _ _ e1 hv.2
    exact ⟨e, v2, v⟩

end OxiddModel.Bdd.Refine
