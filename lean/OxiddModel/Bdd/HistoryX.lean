import OxiddModel.Bdd.KeysX
import OxiddModel.Bdd.HistoryS

/-!
# Histories over all cached operations: every result is the specified tree, whatever the cache does

`HistoryS.lean` treats histories of `not`/`bin`/`ite` whose operands are fixed edges and shows that
results *and stores* are independent of the cache. With `quant`, `apply_quant` and `substitute`
the slot in which a new node is allocated may depend on cache hits (`quant_ids_depend_on_cache`),
so a later command cannot name an earlier result by its slot. Here operands are **registers**:
register `i` is the `i`-th entry of the list consisting of the initial edges followed by the
results of the commands executed so far. The reference semantics `runAllT` computes the same
history on trees with the tree-level functions of `Model.lean`.

`historyX_spec`: for every history there is a fuel bound `N` (depending on the denoted trees only)
such that every run — any admissible policy, any eviction choices at the `cacheOp` points, any
sound initial cache, any hash-consed initial store whose registers denote the given trees — keeps
`Unique ∧ CacheOKX` (and `NoRed`), only extends the store, and ends with registers denoting exactly
`runAllT`. `historyX_transparent`: two such runs (even from different stores) yield, register by
register, edges denoting the same trees; registers whose tree is present in a common hash-consed
extension are equal edges there.

Substitution ids: a `subst id pairs f` command is valid only if `reg id` is the vector prepared
from `pairs` (`ValidT`), i.e. along the history an id is used for one substitution only.
-/
namespace OxiddModel.Bdd.Refine
open OxiddModel.Bdd OxiddModel.Bdd.BDD

inductive CmdX where
  | not (f : Nat)
  | bin (op : Op) (f g : Nat)
  | ite (f g h : Nat)
  | quant (q : Quant) (f vars : Nat)
  | applyQuant (q : Quant) (op : Op) (f g vars : Nat)
  | restrict (f vars : Nat)
  /-- `substitute_edge` with the pairs `(level, register)` and substitution id `id` -/
  | subst (id : Nat) (pairs : List (Nat × Nat)) (f : Nat)
  /-- the cache may drop entries here (which ones is decided by the run's `ev n`) -/
  | cacheOp (n : Nat)
deriving Repr

/-- register access (out of range: ⊥) -/
def regE (env : List Edge) (i : Nat) : Edge := env.getD i (.term false)
def regT (envT : List BDD) (i : Nat) : BDD := envT.getD i (.leaf false)

theorem reg_denotes {s : Store} {env : List Edge} {envT : List BDD} (h : DenotesL s env envT)
    (i : Nat) : Denotes s (regE env i) (regT envT i) := by
  induction h generalizing i with
  | nil => simp only [regE, regT, List.getD_nil]; exact .term
  | cons hd _ ih =>
    cases i with
    | zero => simpa [regE, regT] using hd
    | succ i => simpa [regE, regT] using ih i

theorem DenotesL.snoc {s : Store} {es : List Edge} {ts : List BDD} {e : Edge} {t : BDD}
    (h : DenotesL s es ts) (he : Denotes s e t) : DenotesL s (es ++ [e]) (ts ++ [t]) := by
  induction h with
  | nil => exact .cons he .nil
  | cons hd _ ih => exact .cons hd ih

theorem pairs_denotes {s : Store} {env : List Edge} {envT : List BDD} (h : DenotesL s env envT)
    (pairs : List (Nat × Nat)) :
    DenotesP s (pairs.map fun p => (p.1, regE env p.2)) (pairs.map fun p => (p.1, regT envT p.2)) := by
  induction pairs with
  | nil => exact .nil
  | cons p ps ih => exact .cons (reg_denotes h p.2) ih

/-- one command on the store; `fuel` is used for the main recursion and for the inner calls -/
def CmdX.run (cfg : CacheCfg) (fuel : Nat) : CmdX → St × List Edge → St × List Edge
  | .not f, (st, env) =>
    let r := notS cfg.policy fuel st (regE env f); (r.1, env ++ [r.2])
  | .bin op f g, (st, env) =>
    let r := applyS cfg.policy op fuel st (regE env f) (regE env g); (r.1, env ++ [r.2])
  | .ite f g h, (st, env) =>
    let r := iteS cfg.policy fuel st (regE env f) (regE env g) (regE env h); (r.1, env ++ [r.2])
  | .quant q f vars, (st, env) =>
    let r := quantS cfg.policy q fuel fuel st (regE env f) (regE env vars); (r.1, env ++ [r.2])
  | .applyQuant q op f g vars, (st, env) =>
    let r := applyQuantS cfg.policy q op fuel fuel st (regE env f) (regE env g) (regE env vars)
    (r.1, env ++ [r.2])
  | .restrict f vars, (st, env) =>
    let r := restrictS cfg.policy fuel st (regE env f) (regE env vars); (r.1, env ++ [r.2])
  | .subst id pairs f, (st, env) =>
    let r := substituteEdgeS cfg.policy (pairs.map fun p => (p.1, regE env p.2)) id fuel fuel st
      (regE env f)
    (r.1, env ++ [r.2])
  | .cacheOp n, (st, env) => (⟨st.store, st.cache.filter (cfg.ev n), st.tick⟩, env)

/-- the reference semantics on trees -/
def CmdX.runT : CmdX → List BDD → List BDD
  | .not f, envT => envT ++ [applyNot (regT envT f)]
  | .bin op f g, envT => envT ++ [applyBin op (regT envT f) (regT envT g)]
  | .ite f g h, envT => envT ++ [applyIte (regT envT f) (regT envT g) (regT envT h)]
  | .quant q f vars, envT => envT ++ [Bdd.quant q (regT envT f) (regT envT vars)]
  | .applyQuant q op f g vars, envT =>
    envT ++ [Bdd.applyQuant q op (regT envT f) (regT envT g) (regT envT vars)]
  | .restrict f vars, envT => envT ++ [Bdd.restrict (regT envT f) (regT envT vars)]
  | .subst _ pairs f, envT =>
    envT ++ [substitute (substPrepare (pairs.map fun p => (p.1, regT envT p.2))) (regT envT f)]
  | .cacheOp _, envT => envT

/-- a substitution id is used for the substitution it is registered for -/
def CmdX.ValidT (reg : Nat → List BDD) : CmdX → List BDD → Prop
  | .subst id pairs _, envT => reg id = substPrepare (pairs.map fun p => (p.1, regT envT p.2))
  | _, _ => True

def runAllX (cfg : CacheCfg) (fuel : Nat) : List CmdX → St × List Edge → St × List Edge
  | [], x => x
  | c :: cs, x => runAllX cfg fuel cs (c.run cfg fuel x)

def runAllT : List CmdX → List BDD → List BDD
  | [], envT => envT
  | c :: cs, envT => runAllT cs (c.runT envT)

def ValidAllT (reg : Nat → List BDD) : List CmdX → List BDD → Prop
  | [], _ => True
  | c :: cs, envT => c.ValidT reg envT ∧ ValidAllT reg cs (c.runT envT)

/-- what a run of a (list of) command(s) guarantees -/
structure HPost (reg : Nat → List BDD) (s : Store) (envT : List BDD) (R : St × List Edge) : Prop where
  inv : InvX reg R.1
  le : s.Le R.1.store
  nored : s.NoRed → R.1.store.NoRed
  den : DenotesL R.1.store R.2 envT

theorem HPost.ofW {reg : Nat → List BDD} {st : St} {env : List Edge} {envT : List BDD} {T : BDD}
    {R : St × Edge} (henv : DenotesL st.store env envT) (h : PostW reg st.store T R) :
    HPost reg st.store (envT ++ [T]) (R.1, env ++ [R.2]) :=
  ⟨h.inv, h.le, h.nored, (henv.mono h.le).snoc h.den⟩

/-- one command -/
theorem CmdX.run_spec (reg : Nat → List BDD) (c : CmdX) (envT : List BDD) (hv : c.ValidT reg envT) :
    ∃ N, ∀ (cfg : CacheCfg), cfg.policy.OK → ∀ fuel, N ≤ fuel →
      ∀ (st : St) (env : List Edge), InvX reg st → DenotesL st.store env envT →
        HPost reg st.store (c.runT envT) (c.run cfg fuel (st, env)) := by
  cases c with
  | not f =>
    refine ⟨(regT envT f).size, fun cfg pok fuel hN st env hinv henv => ?_⟩
    exact HPost.ofW henv (notS_specX pok reg fuel st _ _ hinv (reg_denotes henv f) hN).toW
  | bin op f g =>
    refine ⟨(regT envT f).size + (regT envT g).size, fun cfg pok fuel hN st env hinv henv => ?_⟩
    exact HPost.ofW henv (applyS_specX pok reg op fuel st _ _ _ _ hinv (reg_denotes henv f)
      (reg_denotes henv g) hN).toW
  | ite f g h =>
    refine ⟨(regT envT f).size + (regT envT g).size + (regT envT h).size,
      fun cfg pok fuel hN st env hinv henv => ?_⟩
    exact HPost.ofW henv (iteS_specX pok reg fuel st _ _ _ _ _ _ hinv (reg_denotes henv f)
      (reg_denotes henv g) (reg_denotes henv h) hN).toW
  | quant q f vars =>
    refine ⟨max (regT envT f).size (quantNeed q (regT envT f) (regT envT vars)),
      fun cfg pok fuel hN st env hinv henv => ?_⟩
    exact HPost.ofW henv (quantS_spec pok reg q fuel fuel st _ _ _ _ hinv (reg_denotes henv f)
      (reg_denotes henv vars) (by omega) (by omega))
  | applyQuant q op f g vars =>
    obtain ⟨N, h⟩ := applyQuantS_spec reg q op _ (regT envT f) (regT envT g) (regT envT vars)
      (Nat.le_refl _)
    refine ⟨max N ((regT envT f).size + (regT envT g).size),
      fun cfg pok fuel hN st env hinv henv => ?_⟩
    exact HPost.ofW henv (h cfg.policy pok fuel fuel (by omega) (by omega) st _ _ _ hinv
      (reg_denotes henv f) (reg_denotes henv g) (reg_denotes henv vars))
  | restrict f vars =>
    refine ⟨(regT envT f).size + (regT envT vars).size, fun cfg pok fuel hN st env hinv henv => ?_⟩
    exact HPost.ofW henv (restrictS_spec pok reg fuel st _ _ _ _ hinv (reg_denotes henv f)
      (reg_denotes henv vars) hN).toW
  | subst id pairs f =>
    refine ⟨max (regT envT f).size
      (substNeed (substPrepare (pairs.map fun p => (p.1, regT envT p.2))) (regT envT f)),
      fun cfg pok fuel hN st env hinv henv => ?_⟩
    exact HPost.ofW henv (substituteEdgeS_spec pok reg _ _ id fuel fuel st _ _ hinv
      (pairs_denotes henv pairs) hv (reg_denotes henv f) (by omega) (by omega))
  | cacheOp n =>
    refine ⟨0, fun cfg pok fuel _ st env hinv henv => ?_⟩
    exact ⟨⟨hinv.1, hinv.2.sub (fun x hx => (List.mem_filter.mp hx).1)⟩, Store.Le.refl _, id, henv⟩

/-- **every run of a history computes the reference semantics** -/
theorem historyX_spec (reg : Nat → List BDD) (cs : List CmdX) : ∀ (envT : List BDD),
    ValidAllT reg cs envT →
    ∃ N, ∀ (cfg : CacheCfg), cfg.policy.OK → ∀ fuel, N ≤ fuel →
      ∀ (st : St) (env : List Edge), InvX reg st → DenotesL st.store env envT →
        HPost reg st.store (runAllT cs envT) (runAllX cfg fuel cs (st, env)) := by
  induction cs with
  | nil =>
    intro envT _
    exact ⟨0, fun cfg _ fuel _ st env hinv henv => ⟨hinv, Store.Le.refl _, id, henv⟩⟩
  | cons c cs ih =>
    intro envT hv
    obtain ⟨N1, h1⟩ := CmdX.run_spec reg c envT hv.1
    obtain ⟨N2, h2⟩ := ih (c.runT envT) hv.2
    refine ⟨max N1 N2, fun cfg pok fuel hN st env hinv henv => ?_⟩
    have P1 := h1 cfg pok fuel (by omega) st env hinv henv
    have P2 := h2 cfg pok fuel (by omega) (c.run cfg fuel (st, env)).1 (c.run cfg fuel (st, env)).2
      P1.inv P1.den
    exact ⟨P2.inv, P1.le.trans P2.le, fun hr => P2.nored (P1.nored hr), P2.den⟩

/-- **History transparency.** Two runs of the same history with arbitrary (different) admissible
policies, eviction choices, sound initial caches, time stamps — and even different hash-consed
initial stores, as long as the initial registers denote the same trees: the final registers
(initial edges and all results) denote, position by position, the same trees `runAllT cs envT`; and
in every common hash-consed extension `s'` of the two final stores the two register lists are equal
edge by edge. -/
theorem historyX_transparent (reg1 reg2 : Nat → List BDD) (cs : List CmdX) (envT : List BDD)
    (hv1 : ValidAllT reg1 cs envT) (hv2 : ValidAllT reg2 cs envT) :
    ∃ N, ∀ (cfg1 cfg2 : CacheCfg), cfg1.policy.OK → cfg2.policy.OK → ∀ fuel1 fuel2, N ≤ fuel1 →
      N ≤ fuel2 → ∀ (st1 st2 : St) (env1 env2 : List Edge), InvX reg1 st1 → InvX reg2 st2 →
        DenotesL st1.store env1 envT → DenotesL st2.store env2 envT →
        DenotesL (runAllX cfg1 fuel1 cs (st1, env1)).1.store (runAllX cfg1 fuel1 cs (st1, env1)).2
          (runAllT cs envT) ∧
        DenotesL (runAllX cfg2 fuel2 cs (st2, env2)).1.store (runAllX cfg2 fuel2 cs (st2, env2)).2
          (runAllT cs envT) ∧
        ∀ s', (runAllX cfg1 fuel1 cs (st1, env1)).1.store.Le s' →
          (runAllX cfg2 fuel2 cs (st2, env2)).1.store.Le s' → s'.Unique →
          (runAllX cfg1 fuel1 cs (st1, env1)).2 = (runAllX cfg2 fuel2 cs (st2, env2)).2 := by
  obtain ⟨N1, h1⟩ := historyX_spec reg1 cs envT hv1
  obtain ⟨N2, h2⟩ := historyX_spec reg2 cs envT hv2
  refine ⟨max N1 N2, ?_⟩
  intro cfg1 cfg2 ok1 ok2 fuel1 fuel2 hf1 hf2 st1 st2 env1 env2 i1 i2 d1 d2
  have P1 := h1 cfg1 ok1 fuel1 (by omega) st1 env1 i1 d1
  have P2 := h2 cfg2 ok2 fuel2 (by omega) st2 env2 i2 d2
  refine ⟨P1.den, P2.den, fun s' l1 l2 hu => ?_⟩
  have e1 := P1.den.mono l1
  have e2 := P2.den.mono l2
  generalize (runAllX cfg1 fuel1 cs (st1, env1)).2 = r1 at e1
  generalize (runAllX cfg2 fuel2 cs (st2, env2)).2 = r2 at e2
  generalize runAllT cs envT = ts at e1 e2
  induction e1 generalizing r2 with
  | nil => cases e2; rfl
  | cons hd _ ih =>
    cases e2 with
    | cons hd' tl' => rw [inj_of_unique hu _ _ _ hd hd', ih _ tl']

end OxiddModel.Bdd.Refine
