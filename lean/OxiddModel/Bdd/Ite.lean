import OxiddModel.Bdd.Apply

/-! `apply_ite`: semantics and normal form, for all operand triples. -/
namespace OxiddModel.Bdd
open BDD

theorem applyIte_eval (f g h : BDD) (σ : Nat → Bool) :
    (applyIte f g h).eval σ = if f.eval σ then g.eval σ else h.eval σ := by
  fun_induction applyIte f g h
  case case12 lf ft fe lg gt ge lh ht he l _ _ _ ih1 ih2 =>
    simp only [dite_eq_ite] at ih1 ih2
    rw [mk_eval, ih1, ih2]
    cases hσ : σ l
    · simp only [Bool.false_eq_true, if_false]
      rw [cof_eval_false σ l lf ft fe hσ, cof_eval_false σ l lg gt ge hσ, cof_eval_false σ l lh ht he hσ]
    · simp only [if_true]
      rw [cof_eval_true σ l lf ft fe hσ, cof_eval_true σ l lg gt ge hσ, cof_eval_true σ l lh ht he hσ]
  all_goals (try simp only [applyBin_eval, applyNot_eval, Op.sem, eval])
  case case11 lf ft fe gb hb hgb _ _ hne =>
    cases gb <;> cases hb <;> simp_all
  all_goals grind

theorem applyIte_ordered (f g h : BDD) (n : Nat) (hf : Ordered n f) (hg : Ordered n g) (hh : Ordered n h) :
    Ordered n (applyIte f g h) := by
  fun_induction applyIte f g h generalizing n
  case case12 lf ft fe lg gt ge lh ht he l _ _ _ ih1 ih2 =>
    simp only [dite_eq_ite] at ih1 ih2
    have hlf : l ≤ lf := Nat.le_trans (Nat.min_le_left _ _) (Nat.min_le_left _ _)
    have hlg : l ≤ lg := Nat.le_trans (Nat.min_le_left _ _) (Nat.min_le_right _ _)
    have hlh : l ≤ lh := Nat.min_le_right _ _
    have hn : n ≤ l := by
      cases hf with | node a _ _ => cases hg with | node b _ _ => cases hh with | node c _ _ =>
        exact Nat.le_min.mpr ⟨Nat.le_min.mpr ⟨a, b⟩, c⟩
    exact mk_ordered hn
      (ih1 _ (cof_ordered_t hlf hf) (cof_ordered_t hlg hg) (cof_ordered_t hlh hh))
      (ih2 _ (cof_ordered_e hlf hf) (cof_ordered_e hlg hg) (cof_ordered_e hlh hh))
  all_goals first
    | assumption
    | exact applyBin_ordered _ _ _ _ (by assumption) (by assumption)
    | exact applyNot_ordered (by assumption)

theorem applyIte_reduced (f g h : BDD) (hf : Reduced f) (hg : Reduced g) (hh : Reduced h) :
    Reduced (applyIte f g h) := by
  fun_induction applyIte f g h
  case case12 lf ft fe lg gt ge lh ht he l _ _ _ ih1 ih2 =>
    simp only [dite_eq_ite] at ih1 ih2
    exact mk_reduced
      (ih1 (cof_reduced_t hf) (cof_reduced_t hg) (cof_reduced_t hh))
      (ih2 (cof_reduced_e hf) (cof_reduced_e hg) (cof_reduced_e hh))
  all_goals first
    | assumption
    | exact applyBin_reduced _ _ _ (by assumption) (by assumption)
    | exact applyNot_reduced _

theorem applyIte_nf (f g h : BDD) (n : Nat) (hf : NF n f) (hg : NF n g) (hh : NF n h) :
    NF n (applyIte f g h) :=
  ⟨applyIte_ordered f g h n hf.1 hg.1 hh.1, applyIte_reduced f g h hf.2 hg.2 hh.2⟩

end OxiddModel.Bdd
