import OxiddModel.Bdd.ApplyQuantS
import OxiddModel.Bdd.RestrictS
import OxiddModel.Bdd.SubstS

/-!
# Which entries an operation can add to the apply cache

`Grows P c c'`: every entry of `c'` is an entry of `c` or has a key satisfying `P`. For each
algorithm the keys of the entries it (and everything it calls) can create are determined:

* `notS`, `applyS`, `iteS`: base keys (`IsBaseKey`: one of the ten tags with its own arity);
* `quantS q`: base keys (inner `apply_bin::<Q>`) and `(quant q, [·, ·])`;
* `restrictS`: `(Restrict, [·, ·])` only;
* `substituteS … id`: base keys (inner `apply_ite`) and `(Substitute, [·], [id])` — **this id**;
* `applyQuantS q op`: base keys, `(quant q, [·, ·])` and `(applyQuant q op, [·, ·, ·])`.

Together with `encKey_inj` this is "each operator is memoised under its own operator value, with
all its operands".
-/
namespace OxiddModel.Bdd.Refine
open OxiddModel.Bdd OxiddModel.Bdd.BDD

/-- every entry of `c'` is an entry of `c` or has a key satisfying `P` -/
def Grows (P : Key → Prop) (c c' : Cache) : Prop := ∀ x, x ∈ c' → x ∈ c ∨ P x.1

theorem Grows.refl (P : Key → Prop) (c : Cache) : Grows P c c := fun _ h => .inl h

theorem Grows.trans {P : Key → Prop} {a b c : Cache} (h1 : Grows P a b) (h2 : Grows P b c) :
    Grows P a c := by
  intro x hx
  rcases h2 x hx with h | h
  · exact h1 x h
  · exact .inr h

theorem Grows.mono {P Q : Key → Prop} {a b : Cache} (hpq : ∀ k, P k → Q k) (h : Grows P a b) :
    Grows Q a b := fun x hx => (h x hx).imp id (hpq _)

theorem Grows.add {p : Policy} (pok : p.OK) {P : Key → Prop} {key : Key} (hk : P key) (t : Nat)
    (c : Cache) (r : Edge) : Grows P c (p.add t c key r) := by
  intro x hx
  rcases pok.add_sub t c key r x hx with h | h
  · exact .inl h
  · subst h; exact .inr hk

theorem finishS_grows {p : Policy} (pok : p.OK) {P : Key → Prop} {key : Key} (hk : P key)
    (st : St) (l : Nat) (e1 e0 : Edge) : Grows P st.cache (finishS p st key l e1 e0).1.cache :=
  Grows.add pok hk _ _ _

theorem addS_grows {p : Policy} (pok : p.OK) {P : Key → Prop} {key : Key} (hk : P key)
    (st : St) (r : Edge) : Grows P st.cache (addS p st key r).1.cache :=
  Grows.add pok hk _ _ _

/-! ## base operations -/

/-- a key of `apply_not` / `apply_bin::<OP>` / `apply_ite`: tag with its own arity -/
def IsBaseKey (k : Key) : Prop := k.2.length = OpTag.arity k.1

theorem arity_tagOf (op : Op) : OpTag.arity (tagOf op) = 2 := by cases op <;> rfl

/-- an extended key is never a base key -/
theorem not_isBaseKey_ext {k : XKey} (h : ∀ t, k.op ≠ .base t) : ¬ IsBaseKey (encKey k) := by
  rw [encKey_ext h]
  simp [IsBaseKey, OpTag.arity]

theorem notS_grows {p : Policy} (pok : p.OK) (fuel : Nat) : ∀ (st : St) (f : Edge),
    Grows IsBaseKey st.cache (notS p fuel st f).1.cache := by
  induction fuel with
  | zero => intro st f; exact Grows.refl _ _
  | succ fuel ih =>
    intro st f
    cases f with
    | term b => exact Grows.refl _ _
    | inner i =>
      simp only [notS]
      split
      · exact Grows.refl _ _
      · split
        · exact Grows.refl _ _
        · exact ((ih st.tickd _).trans (ih _ _)).trans
            (finishS_grows pok (P := IsBaseKey) (show IsBaseKey (.not, [_]) from rfl) _ _ _ _)

theorem applyS_grows {p : Policy} (pok : p.OK) (op : Op) (fuel : Nat) : ∀ (st : St) (f g : Edge),
    Grows IsBaseKey st.cache (applyS p op fuel st f g).1.cache := by
  induction fuel with
  | zero => intro st f g; exact Grows.refl _ _
  | succ fuel ih =>
    intro st f g
    simp only [applyS]
    cases hS : terminalBinS op f g with
    | done h => exact Grows.refl _ _
    | notOf h => exact notS_grows pok fuel st h
    | binary tag o1 o2 =>
      have htag := (terminalBinS_tag op f g tag o1 o2 hS).1
      have hk : IsBaseKey (tag, [o1, o2]) := by rw [htag]; exact (arity_tagOf op).symm
      simp only
      split
      · exact Grows.refl _ _
      · split
        · exact ((ih st.tickd _ _).trans (ih _ _ _)).trans (finishS_grows pok hk _ _ _ _)
        · exact Grows.refl _ _

theorem iteS_grows {p : Policy} (pok : p.OK) (fuel : Nat) : ∀ (st : St) (f g h : Edge),
    Grows IsBaseKey st.cache (iteS p fuel st f g h).1.cache := by
  induction fuel with
  | zero => intro st f g h; exact Grows.refl _ _
  | succ fuel ih =>
    intro st f g h
    simp only [iteS]
    split
    · exact Grows.refl _ _
    · split
      · exact applyS_grows pok _ fuel st _ _
      · split
        · exact applyS_grows pok _ fuel st _ _
        · split
          · exact Grows.refl _ _
          · split
            · exact applyS_grows pok _ fuel st _ _
            · exact applyS_grows pok _ fuel st _ _
            · exact applyS_grows pok _ fuel st _ _
            · exact applyS_grows pok _ fuel st _ _
            · split
              · exact Grows.refl _ _
              · exact notS_grows pok fuel st _
            · split
              · exact Grows.refl _ _
              · split
                · exact ((ih st.tickd _ _ _).trans (ih _ _ _ _)).trans
                    (finishS_grows pok (P := IsBaseKey)
                      (show IsBaseKey (.ite, [_, _, _]) from rfl) _ _ _ _)
                · exact Grows.refl _ _

/-! ## the extended operations -/

def IsQuantKey (q : Quant) (k : Key) : Prop := ∃ f v, k = encKey (quantKey q f v)
def IsRestrictKey (k : Key) : Prop := ∃ f v, k = encKey (restrictKey f v)
def IsSubstKey (id : Nat) (k : Key) : Prop := ∃ f, k = encKey (substKey f id)
def IsApplyQuantKey (q : Quant) (op : Op) (k : Key) : Prop :=
  ∃ f g v, k = encKey (applyQuantKey q op f g v)

theorem quantS_grows {p : Policy} (pok : p.OK) (q : Quant) (af : Nat) (fuel : Nat) :
    ∀ (st : St) (f vars : Edge),
    Grows (fun k => IsBaseKey k ∨ IsQuantKey q k) st.cache (quantS p q af fuel st f vars).1.cache := by
  induction fuel with
  | zero => intro st f vars; exact Grows.refl _ _
  | succ fuel ih =>
    intro st f vars
    cases f with
    | term b => simp only [quantS]; split <;> exact Grows.refl _ _
    | inner i =>
      simp only [quantS]
      split
      · exact Grows.refl _ _
      · rename_i fn _
        generalize (if q ≠ .unique then st.store.setPopS af vars fn.level else vars) = vars'
        split
        · exact Grows.refl _ _
        · split
          · exact Grows.refl _ _
          · split
            · exact Grows.refl _ _
            · split
              · exact Grows.refl _ _
              · split
                · exact (((ih st.tickd _ _).trans (ih _ _ _)).trans
                    ((applyS_grows pok _ af _ _ _).mono (fun _ h => .inl h))).trans
                    (addS_grows pok (.inr ⟨_, _, rfl⟩) _ _)
                · exact ((ih st.tickd _ _).trans (ih _ _ _)).trans
                    (finishS_grows pok (.inr ⟨_, _, rfl⟩) _ _ _ _)

theorem restrictS_grows {p : Policy} (pok : p.OK) (fuel : Nat) : ∀ (st : St) (f vars : Edge),
    Grows IsRestrictKey st.cache (restrictS p fuel st f vars).1.cache := by
  induction fuel with
  | zero => intro st f vars; exact Grows.refl _ _
  | succ fuel ih =>
    intro st f vars
    simp only [restrictS]
    split
    · exact Grows.refl _ _
    · split
      · exact Grows.refl _ _
      · split
        · exact Grows.refl _ _
        · split
          · exact Grows.refl _ _
          · exact ((ih st.tickd _ _).trans (ih _ _ _)).trans
              (finishS_grows pok ⟨_, _, rfl⟩ _ _ _ _)

theorem substituteS_grows {p : Policy} (pok : p.OK) (subst : List Edge) (id af : Nat) (fuel : Nat) :
    ∀ (st : St) (f : Edge),
    Grows (fun k => IsBaseKey k ∨ IsSubstKey id k) st.cache
      (substituteS p subst id af fuel st f).1.cache := by
  induction fuel with
  | zero => intro st f; exact Grows.refl _ _
  | succ fuel ih =>
    intro st f
    cases f with
    | term b => exact Grows.refl _ _
    | inner i =>
      simp only [substituteS]
      split
      · exact Grows.refl _ _
      · split
        · exact Grows.refl _ _
        · split
          · exact Grows.refl _ _
          · exact (((ih st.tickd _).trans (ih _ _)).trans
              ((iteS_grows pok af _ _ _ _).mono (fun _ h => .inl h))).trans
              (addS_grows pok (.inr ⟨_, rfl⟩) _ _)

theorem aqBodyS_grows {p : Policy} (pok : p.OK) (q : Quant) (op : Op) (af : Nat)
    (rec : St → Edge → Edge → Edge → St × Edge)
    (hrec : ∀ st f g vars, Grows (fun k => IsBaseKey k ∨ IsQuantKey q k ∨ IsApplyQuantKey q op k)
      st.cache (rec st f g vars).1.cache) (st : St) (f g vars : Edge) :
    Grows (fun k => IsBaseKey k ∨ IsQuantKey q k ∨ IsApplyQuantKey q op k) st.cache
      (aqBodyS p q op af rec st f g vars).1.cache := by
  have happly : ∀ (o : Op) (st' : St) (x y : Edge),
      Grows (fun k => IsBaseKey k ∨ IsQuantKey q k ∨ IsApplyQuantKey q op k) st'.cache
        (applyS p o af st' x y).1.cache :=
    fun o st' x y => (applyS_grows pok o af st' x y).mono (fun _ h => .inl h)
  unfold aqBodyS
  split
  · split
    · rename_i fn gn _ _
      generalize (if q ≠ .unique then st.store.setPopS af vars (min fn.level gn.level) else vars)
        = vars'
      simp only
      split
      · exact happly _ _ _ _
      · split
        · exact Grows.refl _ _
        · split
          · exact Grows.refl _ _
          · split
            · exact happly _ _ _ _
            · split
              · exact Grows.refl _ _
              · split
                · exact (((hrec st.tickd _ _ _).trans (hrec _ _ _ _)).trans
                    (happly _ _ _ _)).trans (addS_grows pok (.inr (.inr ⟨_, _, _, rfl⟩)) _ _)
                · exact ((hrec st.tickd _ _ _).trans (hrec _ _ _ _)).trans
                    (finishS_grows pok (.inr (.inr ⟨_, _, _, rfl⟩)) _ _ _ _)
    · exact Grows.refl _ _
  · exact Grows.refl _ _

theorem applyQuantS_grows {p : Policy} (pok : p.OK) (q : Quant) (op : Op) (af : Nat) (fuel : Nat) :
    ∀ (st : St) (f g vars : Edge),
    Grows (fun k => IsBaseKey k ∨ IsQuantKey q k ∨ IsApplyQuantKey q op k) st.cache
      (applyQuantS p q op af fuel st f g vars).1.cache := by
  induction fuel with
  | zero => intro st f g vars; exact Grows.refl _ _
  | succ fuel ih =>
    intro st f g vars
    have hq : ∀ (st' : St) (x y : Edge),
        Grows (fun k => IsBaseKey k ∨ IsQuantKey q k ∨ IsApplyQuantKey q op k) st'.cache
          (quantS p q af af st' x y).1.cache :=
      fun st' x y => (quantS_grows pok q af af st' x y).mono
        (fun _ h => h.elim .inl (fun h => .inr (.inl h)))
    simp only [applyQuantS]
    split
    · exact aqBodyS_grows pok q op af _ ih st _ _ vars
    · exact ((notS_grows pok af st _).mono (fun _ h => .inl h)).trans (hq _ _ _)
    · exact hq _ _ _

end OxiddModel.Bdd.Refine
