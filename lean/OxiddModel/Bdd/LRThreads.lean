import OxiddModel.Bdd.LRThreadsStable
import OxiddModel.Bdd.LockStepsReduce

/-!
# `LRThreads`: the micro-step machine with the lock table AND the reference counters

`LThreads` (`LockSteps.lean`) splits the atomic actions of `Threads.lean` into lock / body /
unlock micro-steps but has no counters; `RThreads` has the counters but atomic actions and an
atomic sweep of a whole level. `LRThreads` has both.

A configuration `LRCfg` consists of

* `lc : LCfg` — the micro state of `LThreads`: unique table, apply cache, time stamp, **lock
  table**, the micro control state of every thread (phases inside the critical sections), the
  collector's control state;
* `ac : RCfg` — the **counters** `ac.rst.rc` (one per slot) and, per thread, the counter view of
  its control state (`RTask`: which edges it owns, which releases are pending after `reduce`);
  `ac.rst.st` / `ac.threads` repeat store, cache and control state of `lc` — `LRInv.rel` proves
  that they agree at every reachable configuration (same store, same time stamp, `erase` of the
  one = `abs` of the other, caches equal up to buckets already cleared by an incomplete `pre_gc`);
* `vis : Visit` — where the sweeper is inside the level it has locked.

Micro-steps (`LRCfg.step`):

* **threads**: the micro-steps of `LThreads` (blocking `lock(level)`, bucket `try_lock`, lookup,
  write, unlock, …; ownership guards). The counter operations are **single atomic RMW steps, not
  lock protected**: the `retain` / `release` / `rc := 2` of `RThreads` take place at the commit
  point of the micro-step sequence they belong to (`clone_edge` in a terminal case or of a handle,
  `retain(found)` / `add_node` inside `get_or_insert`, the clone of a cache hit), and every pending
  `release` after `reduce` (children of the rejected node, `e` when `t == e`) is a micro-step of its
  own that needs no lock;
* **collector**: `try_lock(gc_ongoing)`, lock + clear of every bucket, `lock(level l)`,
  `unlock(level l)`, `post_gc`, release as in `LThreads` — but the sweep of the locked level is
  **node by node**: for every slot `j` in index order a micro-step **reads** the slot and its
  counter (`Visit.next j`); if it is a node of this level with `rc == 1` the sweeper remembers that
  (`Visit.seen j n`) and a **later** micro-step removes the node from the table, frees the slot and
  releases the children — without looking at the counter again. Micro-steps of all threads —
  including `retain` / `release` on nodes of the level being swept — interleave arbitrarily with
  these.

`Variant' .unlockedSweep` (negative witness only): the collector sweeps a level without locking it.
-/
namespace OxiddModel.Bdd.LRThreads
open OxiddModel.Bdd OxiddModel.Bdd.BDD OxiddModel.Bdd.Refine OxiddModel.Bdd.Threads
open OxiddModel.Bdd.RThreads OxiddModel.Bdd.LThreads
open OxiddModel.Bdd.Rc (RSt rcGet rcSet cloneEdge dropEdge RcInv parents gcSlot freeSlot)
open OxiddModel.Locks (Lock)

/-- the sweeper inside a locked level -/
inductive Visit where
  /-- next: read slot `j` and its counter -/
  | next (j : Nat)
  /-- slot `j` was seen to hold `n` (of this level) with `rc == 1`; next: remove and free it -/
  | seen (j : Nat) (n : Node)
deriving DecidableEq, Repr

structure LRCfg where
  lc : LCfg
  ac : RCfg
  vis : Visit

/-- does the sweep hold the level lock (the code: yes) -/
inductive SweepVariant where
  | code
  | unlockedSweep
deriving DecidableEq, Repr

/-- the step of `RThreads` a commit label of `LThreads` stands for -/
def selR : Sel → Option RSel
  | .thread tid path => some (.thread tid path)
  | .gcBegin => some .gcBegin
  | .gcEnd => some .gcEnd
  | .gcLevel _ => none
  | .gc => none

/-- commit labels: the step of the machine with slot visits (`LRThreadsSlot.stepX`) that takes
place now, with the outcome of the `try_lock` of a cache access -/
abbrev XLabel := Option (Bool × XSel)

def freeStore (s : Store) (j : Nat) : Store := ⟨s.nodes.set! j none⟩

/-- the counters' side of a commit -/
def commit (cp : CachePar) (c : LRCfg) (lc' : LCfg) : Label → Option (LRCfg × XLabel)
  | none => some (⟨lc', c.ac, c.vis⟩, none)
  | some (b, sel) =>
    match selR sel with
    | some s => some (⟨lc', c.ac.step (polB cp b) s, c.vis⟩, some (b, .r s))
    | none => none

/-- **one micro-step of the machine** -/
def LRCfg.step (v : SweepVariant) (cp : CachePar) (c : LRCfg) : LSel → Option (LRCfg × XLabel)
  | .thread tid path =>
    if c.ac.stutters (.thread tid path) then
      -- a pending `release` of the selected leaf: one atomic RMW, no lock
      some (⟨c.lc, c.ac.step (polB cp true) (.thread tid path), c.vis⟩,
        some (true, .r (.thread tid path)))
    else
      match c.lc.step .code cp (.thread tid path) with
      | none => none
      | some (lc', l) => commit cp c lc' l
  | .gc ch =>
    match c.lc.gc with
    | .lvlLocked l =>
      if c.lc.sh.locks (.level l) = some .gc ∨ v = .unlockedSweep then
        match c.vis with
        | .next j =>
          if j < c.lc.sh.st.store.nodes.size then
            match c.lc.sh.st.store.get? j with
            | some n =>
              if n.level = l ∧ rcGet c.ac.rst.rc j = 1 then some (⟨c.lc, c.ac, .seen j n⟩, none)
              else some (⟨c.lc, c.ac, .next (j + 1)⟩, none)
            | none => some (⟨c.lc, c.ac, .next (j + 1)⟩, none)
          else some (⟨{ c.lc with gc := .lvlSwept l }, c.ac, .next 0⟩, none)
        | .seen j n =>
          some (⟨{ c.lc with sh := { c.lc.sh with
                    st := { c.lc.sh.st with store := freeStore c.lc.sh.st.store j } } },
                 { c.ac with rst := freeSlot c.ac.rst j n }, .next (j + 1)⟩,
            some (true, .gcSlot l j))
      else none
    | pc =>
      match v, pc, ch with
      | .unlockedSweep, .levels, .level l =>
        some (⟨{ c.lc with gc := .lvlLocked l }, c.ac, .next 0⟩, none)
      | _, _, _ =>
        match gcStep .code cp c.lc ch with
        | none => none
        | some (lc', l) => commit cp c lc' l

/-- run a schedule (disabled selections are skipped), collecting the commit labels -/
def LRCfg.run (v : SweepVariant) (cp : CachePar) (c : LRCfg) : List LSel → LRCfg × List (Bool × XSel)
  | [] => (c, [])
  | s :: ss =>
    match c.step v cp s with
    | none => c.run v cp ss
    | some (c', none) => c'.run v cp ss
    | some (c', some l) => let r := c'.run v cp ss; (r.1, l :: r.2)

/-- the machine with slot visits run along commit labels (cache policy per access) -/
def runXB (cp : CachePar) : RCfg → List (Bool × XSel) → RCfg
  | c, [] => c
  | c, (b, s) :: ls => runXB cp (stepX (polB cp b) c s) ls

def LRCfg.allDone (c : LRCfg) : Bool := c.lc.allDone

/-- the micro configuration an `RThreads` configuration starts as: all locks free, collector idle -/
def LRCfg.ofR (c : RCfg) : LRCfg :=
  ⟨⟨⟨c.rst.st, fun _ => none⟩, c.erase.threads.map liftThread, .idle⟩, c, .next 0⟩

end OxiddModel.Bdd.LRThreads
