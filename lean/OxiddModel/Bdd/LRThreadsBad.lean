import OxiddModel.Bdd.LRThreads
import OxiddModel.Bdd.LockStepsBad

/-!
# `LRThreads`: negative witnesses (by evaluation)

* `unlocked_sweep_use_after_free` — a sweep that does **not** hold the level lock
  (`SweepVariant.unlockedSweep`): the sweeper reads `rc == 1` for the node `¬x1` (slot 1, nobody
  refers to it); a thread computing `¬x1` enters `get_or_insert` on that level (the lock is free),
  finds the node, retains it (`rc = 2`) and returns it as its result handle; the sweeper, which has
  already made its decision, removes the node and frees the slot: the thread owns a handle to a
  free slot. `code_same_schedule_safe`: with the level lock the same schedule blocks the thread at
  `lock(level 1)` until the sweeper is done; the node is freed and nobody holds an edge to it.
* `nodewise_sweep_is_not_an_atomic_sweep` — with the level lock held, a node-by-node sweep that is
  interleaved with `release`s of another thread ends in a state that **no** atomic sweep of that
  level (`RThreads.RSel.gcLevel`) placed anywhere between the thread's steps produces: it keeps
  slot 0 (visited while `rc = 2`, released afterwards) and frees slot 1 (released before its
  visit); an atomic sweep before both releases frees nothing, between them only slot 0, after
  them both. This is why `reduction_rc` targets the machine with slot visits
  (`LRThreadsSlot.stepX`), of which the atomic sweep is the uninterrupted special case.
-/
namespace OxiddModel.Bdd.LRThreads.Bad
open OxiddModel.Bdd OxiddModel.Bdd.BDD OxiddModel.Bdd.Refine OxiddModel.Bdd.Threads
open OxiddModel.Bdd.RThreads OxiddModel.Bdd.LThreads OxiddModel.Bdd.LRThreads
open OxiddModel.Bdd.LThreads.Bad (cp)

/-- `#0 = x1`, `#1 = ¬x1` -/
def bS : Store := ⟨#[some ⟨1, .term true, .term false⟩, some ⟨1, .term false, .term true⟩]⟩

def a : LSel := .thread 0 []
def g : LSel := .gc .finish
def gl : LSel := .gc (.level 1)

/-! ## a sweep without the level lock -/

/-- one thread owns `x1` and computes `¬x1`; the node `¬x1` is stored but unreferenced (`rc = 1`) -/
def bR : RCfg := ⟨⟨⟨bS, [], 0⟩, #[2, 1]⟩, [⟨0, [some (.inner 0)], [.not 0], none⟩], false⟩

/-- `pre_gc` (5 steps), the sweeper enters level 1, visits slot 0 (`rc = 2`, kept), reads slot 1
(`rc = 1`: to be freed); the thread runs its whole operation (13 steps, `get_or_insert` finds
slot 1); the sweeper frees slot 1 -/
def sched : List LSel :=
  List.replicate 5 g ++ [gl] ++ List.replicate 2 g ++ List.replicate 13 a ++ [g]

/-- after the first 8 steps the sweeper has decided to free slot 1 -/
theorem sweeper_has_seen :
    ((LRCfg.ofR bR).run .unlockedSweep cp (sched.take 8)).1.vis =
      .seen 1 ⟨1, .term false, .term true⟩ := by decide +kernel

/-- **use after free without the level lock**: the thread has finished and owns the handle `#1`,
its counter is `2`, and slot 1 is free -/
theorem unlocked_sweep_use_after_free :
    ((LRCfg.ofR bR).run .unlockedSweep cp sched).1.ac.threads.map (·.hs) =
      [[some (.inner 0), some (.inner 1)]] ∧
    ((LRCfg.ofR bR).run .unlockedSweep cp sched).1.allDone = true ∧
    ((LRCfg.ofR bR).run .unlockedSweep cp sched).1.ac.rst.rc = #[2, 2] ∧
    ((LRCfg.ofR bR).run .unlockedSweep cp sched).1.lc.sh.st.store.get? 1 = none ∧
    ((LRCfg.ofR bR).run .unlockedSweep cp sched).1.ac.rst.st.store.get? 1 = none := by
  decide +kernel

/-- the same schedule with the level lock: the thread waits at `lock(level 1)` (its selections
are skipped), slot 1 is freed, the thread holds no edge to it, counters `#[2, 1]` -/
theorem code_same_schedule_safe :
    ((LRCfg.ofR bR).run .code cp sched).1.ac.threads.map (·.hs) = [[some (.inner 0)]] ∧
    ((LRCfg.ofR bR).run .code cp sched).1.ac.rst.rc = #[2, 1] ∧
    ((LRCfg.ofR bR).run .code cp sched).1.lc.sh.st.store.get? 1 = none ∧
    ((LRCfg.ofR bR).run .code cp sched).1.lc.sh.locks (.level 1) = some .gc ∧
    (((LRCfg.ofR bR).run .code cp sched).1.step .code cp a).isNone = true := by
  decide +kernel

/-- … and when the sweeper has left the level the thread re-creates the node (in the freed slot)
and finishes with a handle to a stored node -/
def schedCont : List LSel := sched ++ List.replicate 2 g ++ List.replicate 8 a

theorem code_continues_ok :
    ((LRCfg.ofR bR).run .code cp schedCont).1.allDone = true ∧
    ((LRCfg.ofR bR).run .code cp schedCont).1.ac.threads.map (·.hs) =
      [[some (.inner 0), some (.inner 1)]] ∧
    ((LRCfg.ofR bR).run .code cp schedCont).1.lc.sh.st.store.get? 1 =
      some ⟨1, .term false, .term true⟩ ∧
    ((LRCfg.ofR bR).run .code cp schedCont).1.ac.rst.rc = #[2, 2] := by
  decide +kernel

/-! ## a node-by-node sweep is not an atomic sweep -/

/-- one thread owns `x1` and `¬x1` and drops both -/
def nR : RCfg := ⟨⟨⟨bS, [], 0⟩, #[2, 2]⟩,
  [⟨0, [some (.inner 0), some (.inner 1)], [.drop 0, .drop 1], none⟩], false⟩

/-- `pre_gc`, `lock(level 1)`, visit slot 0 (`rc = 2`: kept); the thread drops both handles; visit
slot 1 (`rc = 1`), free it; end of the level -/
def nSched : List LSel :=
  List.replicate 5 g ++ [gl, g] ++ [a, a] ++ List.replicate 3 g

theorem nodewise_result :
    ((LRCfg.ofR nR).run .code cp nSched).1.lc.gc = .lvlSwept 1 ∧
    ((LRCfg.ofR nR).run .code cp nSched).1.ac.rst.st.store.nodes =
      #[some ⟨1, .term true, .term false⟩, none] ∧
    ((LRCfg.ofR nR).run .code cp nSched).1.ac.rst.rc = #[1, 1] ∧
    ((LRCfg.ofR nR).run .code cp nSched).1.allDone = true := by
  decide +kernel

def t : RSel := .thread 0 []

/-- **no placement of an atomic sweep of level 1 among the thread's two steps gives that store**:
before both drops it frees nothing, between them slot 0 only, after them both slots -/
theorem nodewise_sweep_is_not_an_atomic_sweep :
    (nR.run Policy.none [.gcBegin, .gcLevel 1, t, t]).rst.st.store.nodes =
      #[some ⟨1, .term true, .term false⟩, some ⟨1, .term false, .term true⟩] ∧
    (nR.run Policy.none [.gcBegin, t, .gcLevel 1, t]).rst.st.store.nodes =
      #[none, some ⟨1, .term false, .term true⟩] ∧
    (nR.run Policy.none [.gcBegin, t, t, .gcLevel 1]).rst.st.store.nodes = #[none, none] ∧
    ((LRCfg.ofR nR).run .code cp nSched).1.ac.rst.st.store.nodes =
      #[some ⟨1, .term true, .term false⟩, none] := by
  decide +kernel

end OxiddModel.Bdd.LRThreads.Bad
