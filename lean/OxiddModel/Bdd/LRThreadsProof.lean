import OxiddModel.Bdd.LRThreads

/-!
# `LRThreads`: every micro-step keeps lock ownership, coherence and exact counters

`LRInv cp F c`:
* `inv` — the lock-ownership invariant `CInv` of `LThreads` for the micro state;
* `rel` — **coherence**: the counter side `c.ac` (erased) is the configuration of `Threads.lean`
  the micro state `c.lc` stands for (`LockStepsRun.R`: same unique table, same time stamp, control
  states `RTask.erase = LTask.abs`, caches equal up to buckets cleared by an incomplete `pre_gc`);
* `rg` — the invariant `RGInv` of the counter machine for `c.ac` (exact counters, …);
* `vis` — what the sweeper has seen is still true: if it remembers "slot `j` holds `n`, `rc = 1`"
  then the collector is inside the sweep of `n`'s level, slot `j` still holds `n` and `rc j = 1`.

`LRInv.step`: every micro-step keeps `LRInv`, and its effect on the counter side is exactly the
step of the machine with slot visits named by its commit label (`stepX`), or nothing (label
`none`). The interesting cases: a thread's commit while the sweeper remembers a slot
(`seen_stable`; a `get_or_insert` on that level is impossible because the sweeper owns the level
lock — `mk_commit_owns`), and the sweeper's free step (it does NOT re-read the counter; by `vis`
the counter is still `1`, so the step is `gcSlot`).
-/
namespace OxiddModel.Bdd.LRThreads
open OxiddModel.Bdd OxiddModel.Bdd.BDD OxiddModel.Bdd.Refine OxiddModel.Bdd.Threads
open OxiddModel.Bdd.RThreads OxiddModel.Bdd.LThreads
open OxiddModel.Bdd.Rc (RSt rcGet rcSet cloneEdge dropEdge RcInv parents gcSlot freeSlot)
open OxiddModel.Locks (Lock)

/-! ## a `get_or_insert` commit is performed by the owner of the level lock -/

theorem mk_commit_owns {cp : CachePar} (hcap : 0 < cp.cap) {tid : Nat} {sh : Sh} {k : Nat}
    {active : Bool} {sta : St} (hrel : CRel cp k active sh.st sta)
    (hgc : ∀ b, b < cp.cap → (active = true ∨ b < k) → sh.locks (.bucket b) = some .gc)
    (p : Policy) (st : St) :
    ∀ (t : LTask) (pos path : List Bool) (o : MOut), TInv sh cp tid pos t →
      t.step .code cp tid sh pos path = some o → o.ev ≠ none →
      ∀ l a b, (t.abs.step p st path).1 = some (.mk l a b) → a ≠ b →
        ∃ q, sh.locks (.level l) = some (.task tid q) := by
  intro t
  induction t with
  | ret r => intro pos path o _ _ _ l a b hm; simp [LTask.abs, Task.step] at hm
  | call d c =>
    intro pos path o _ _ _ l a b hm
    simp only [LTask.abs, Task.step] at hm
    rcases entry_act p st d c with h1 | h1 <;> (rw [h1] at hm; cases hm)
  | miss d c key => intro pos path o _ _ _ l a b hm; simp [LTask.abs, Task.step] at hm
  | made key r => intro pos path o _ _ _ l a b hm; simp [LTask.abs, Task.step] at hm
  | cget d c key ph =>
    intro pos path o _ _ _ l a b hm
    cases ph with
    | locked =>
      simp only [LTask.abs, getAbs, Task.step] at hm
      rcases entry_act p st d c with h1 | h1 <;> (rw [h1] at hm; cases hm)
    | hit h => simp [LTask.abs, getAbs, Task.step] at hm
    | copied h => simp [LTask.abs, getAbs, Task.step] at hm
    | missed => simp [LTask.abs, getAbs, Task.step] at hm
  | cadd key r ph =>
    intro pos path o _ _ _ l a b hm
    cases ph <;> simp [LTask.abs, addAbs, Task.step] at hm
  | red isPar fr r1 r0 ph =>
    intro pos path o hinv _ _ l a b hm
    cases ph with
    | done r => simp [LTask.abs, redAbs, Task.step] at hm
    | gap => exact absurd hinv.2 (by simp [MkInv])
    | relocked => exact absurd hinv.2 (by simp [MkInv])
    | locked =>
      simp only [LTask.abs, redAbs] at hm
      rw [unred_step] at hm
      simp only [reduceOut, Option.some.injEq, Action.mk.injEq] at hm
      obtain ⟨rfl, _, _⟩ := hm
      exact fun _ => ⟨pos, hinv.2⟩
    | missed =>
      simp only [LTask.abs, redAbs] at hm
      rw [unred_step] at hm
      simp only [reduceOut, Option.some.injEq, Action.mk.injEq] at hm
      obtain ⟨rfl, _, _⟩ := hm
      exact fun _ => ⟨pos, hinv.2.1⟩
  | seq1 fr c0 t1 ih =>
    intro pos path o hinv h hev l a b hm hab
    simp only [LTask.step] at h
    split at h
    · rename_i r1 hr
      simp only [LTask.abs, Task.step, abs_ret?_of_ret? hr] at hm
      cases hm
    · cases h1 : t1.step .code cp tid sh pos path with
      | none => rw [h1] at h; cases h
      | some o1 =>
        rw [h1] at h; cases h
        have hs := task_sim hcap hrel hgc t1 pos path o1 hinv h1
        unfold TaskSim at hs
        cases hev1 : o1.ev with
        | none => exact absurd hev1 hev
        | some b1 =>
          rw [hev1] at hs
          simp only [LTask.abs, Task.step, hs.1] at hm
          exact ih pos path o1 hinv h1 hev l a b hm hab
  | seq0 fr r1 t0 ih =>
    intro pos path o hinv h hev l a b hm hab
    simp only [LTask.step] at h
    split at h
    · rename_i r0 hr
      simp only [LTask.abs, Task.step, abs_ret?_of_ret? hr, reduceOut, Option.some.injEq,
        Action.mk.injEq] at hm
      obtain ⟨_, rfl, rfl⟩ := hm
      unfold reduceStart at h
      rw [if_neg hab] at h
      split at h
      · cases h; exact absurd rfl hev
      · cases h
    · cases h1 : t0.step .code cp tid sh pos path with
      | none => rw [h1] at h; cases h
      | some o1 =>
        rw [h1] at h; cases h
        have hs := task_sim hcap hrel hgc t0 pos path o1 hinv h1
        unfold TaskSim at hs
        cases hev1 : o1.ev with
        | none => exact absurd hev1 hev
        | some b1 =>
          rw [hev1] at hs
          simp only [LTask.abs, Task.step, hs.1] at hm
          exact ih pos path o1 hinv h1 hev l a b hm hab
  | par fr t1 t0 ih1 ih0 =>
    intro pos path o hinv h hev l a b hm hab
    simp only [LTask.step] at h
    split at h
    · rename_i r1 r0 hr1 hr0
      simp only [LTask.abs, Task.step, abs_ret?_of_ret? hr1, abs_ret?_of_ret? hr0, reduceOut,
        Option.some.injEq, Action.mk.injEq] at hm
      obtain ⟨_, rfl, rfl⟩ := hm
      unfold reduceStart at h
      rw [if_neg hab] at h
      split at h
      · cases h; exact absurd rfl hev
      · cases h
    · split at h
      · rename_i hp
        cases h1 : t1.step .code cp tid sh (pos ++ [true]) path.tail with
        | none => rw [h1] at h; cases h
        | some o1 =>
          rw [h1] at h; cases h
          have hs := task_sim hcap hrel hgc t1 _ _ o1 hinv.1 h1
          unfold TaskSim at hs
          cases hev1 : o1.ev with
          | none => exact absurd hev1 hev
          | some b1 =>
            rw [hev1] at hs
            have hpa := pick_left_abs hp hs.1
            simp only [LTask.abs] at hm
            rw [par_step_left p st fr hs.1 hpa] at hm
            exact ih1 _ _ o1 hinv.1 h1 hev l a b hm hab
      · rename_i hp
        have hp : pickLeftL path t1 t0 = false := by simpa using hp
        cases h1 : t0.step .code cp tid sh (pos ++ [false]) path.tail with
        | none => rw [h1] at h; cases h
        | some o1 =>
          rw [h1] at h; cases h
          have hs := task_sim hcap hrel hgc t0 _ _ o1 hinv.2 h1
          unfold TaskSim at hs
          cases hev1 : o1.ev with
          | none => exact absurd hev1 hev
          | some b1 =>
            rw [hev1] at hs
            have hpa := pick_right_abs hp hs.1
            simp only [LTask.abs] at hm
            rw [par_step_right p st fr hs.1 hpa] at hm
            exact ih0 _ _ o1 hinv.2 h1 hev l a b hm hab

/-! ## small facts about steps -/

/-- what a thread selection that commits looks like -/
theorem thread_commit_inv {cp : CachePar} {lc lc' : LCfg} {tid : Nat} {path : List Bool} {b : Bool}
    {sel : Sel} (h : lc.step .code cp (.thread tid path) = some (lc', some (b, sel))) :
    sel = .thread tid path ∧ lc'.gc = lc.gc ∧
    ∃ lth, lc.threads[tid]? = some lth ∧
      (lth.cur = none ∨ (∃ lt r, lth.cur = some lt ∧ lt.ret? = some r) ∨
       ∃ lt o, lth.cur = some lt ∧ lt.ret? = none ∧
         lt.step .code cp tid lc.sh [] path = some o ∧ o.ev = some b) := by
  simp only [LCfg.step] at h
  split at h
  · cases h
  · rename_i lth hth
    cases h1 : lth.step .code cp tid lc.sh path with
    | none => rw [h1] at h; cases h
    | some out =>
      obtain ⟨sh', th', ev⟩ := out
      rw [h1] at h
      simp only [Option.map_some, Option.some.injEq, Prod.mk.injEq] at h
      obtain ⟨rfl, hl⟩ := h
      cases ev with
      | none => cases hl
      | some b' =>
        simp only [Option.map_some, Option.some.injEq, Prod.mk.injEq] at hl
        obtain ⟨rfl, rfl⟩ := hl
        refine ⟨rfl, rfl, lth, hth, ?_⟩
        unfold LThread.step at h1
        cases hc : lth.cur with
        | none => exact .inl rfl
        | some lt =>
          rw [hc] at h1
          dsimp only at h1
          cases hr : lt.ret? with
          | some r => exact .inr (.inl ⟨lt, r, rfl, hr⟩)
          | none =>
            rw [hr] at h1
            dsimp only at h1
            cases h2 : lt.step .code cp tid lc.sh [] path with
            | none => rw [h2] at h1; cases h1
            | some o =>
              rw [h2] at h1
              simp only [Option.map_some, Option.some.injEq, Prod.mk.injEq] at h1
              exact .inr (.inr ⟨lt, o, by first | rfl | exact hc, by first | rfl | exact hr, h2, h1.2.2⟩)

theorem thread_silent_gc {cp : CachePar} {lc lc' : LCfg} {tid : Nat} {path : List Bool} {l : Label}
    (h : lc.step .code cp (.thread tid path) = some (lc', l)) : lc'.gc = lc.gc := by
  simp only [LCfg.step] at h
  split at h
  · cases h; rfl
  · cases h1 : (‹LThread›).step .code cp tid lc.sh path with
    | none => rw [h1] at h; cases h
    | some out => rw [h1] at h; cases h; rfl

theorem gcStep_label {cp : CachePar} {c c' : LCfg} {ch : GcChoice} {b : Bool} {sel : Sel}
    (h : gcStep .code cp c ch = some (c', some (b, sel))) :
    sel = .gcBegin ∨ sel = .gcEnd ∨ ∃ l, sel = .gcLevel l := by
  unfold gcStep at h
  repeat' split at h
  all_goals first
    | (cases h; done)
    | (cases h; first | exact .inl rfl | exact .inr (.inl rfl) | exact .inr (.inr ⟨_, rfl⟩))

theorem find?_free {s : Store} {n : Node} (h : s.find? n = none) (j : Nat) :
    (freeStore s j).find? n = none := by
  apply find?_eq_none_of'
  intro i hi
  simp only [freeStore] at hi
  rw [Rc.get?_free] at hi
  split at hi
  · cases hi
  · exact find?_none h i hi

theorem freeSlot_tick (r : RSt) (i : Nat) (n : Node) : (freeSlot r i n).st.tick = r.st.tick := by
  simp [freeSlot]

/-! ## the invariant -/

structure LRInv (cp : CachePar) (F : Nat → List (Option BDD)) (c : LRCfg) : Prop where
  inv : CInv cp c.lc
  rel : R cp c.lc c.ac.erase
  rg : ∃ B, RGInv c.ac F B
  vis : ∀ j n, c.vis = .seen j n → c.lc.gc = .lvlLocked n.level ∧ Seen c.ac.rst j n

/-- the effect of a micro-step with label `l` on the counter side -/
def acAfter (cp : CachePar) (ac : RCfg) : XLabel → RCfg
  | none => ac
  | some (b, x) => stepX (polB cp b) ac x

theorem erase_thread_at {lc : LCfg} {ac : RCfg} (h : ac.erase.threads = lc.threads.map LThread.abs)
    {tid : Nat} {th : RThread} (hth : ac.threads[tid]? = some th) :
    ∃ lth, lc.threads[tid]? = some lth ∧ th.erase = lth.abs := by
  have h1 : ac.erase.threads[tid]? = some th.erase := by
    rw [getElem?_erase_threads, hth]; rfl
  rw [h, List.getElem?_map] at h1
  cases hl : lc.threads[tid]? with
  | none => rw [hl] at h1; cases h1
  | some lth =>
    rw [hl] at h1
    simp only [Option.map_some, Option.some.injEq] at h1
    exact ⟨lth, rfl, h1.symm⟩

/-- a thread commit while the sweeper remembers slot `j`: what it has seen stays true -/
theorem seen_after_commit {cp : CachePar} (hcap : 0 < cp.cap) {F : Nat → List (Option BDD)}
    {c : LRCfg} (hinv : LRInv cp F c) {lc' : LCfg} {tid : Nat} {path : List Bool} {b : Bool}
    (hs : c.lc.step .code cp (.thread tid path) = some (lc', some (b, .thread tid path)))
    {j : Nat} {n : Node} (hv : c.vis = .seen j n) :
    Seen (c.ac.step (polB cp b) (.thread tid path)).rst j n := by
  obtain ⟨hpc, hseen⟩ := hinv.vis j n hv
  obtain ⟨B, hB⟩ := hinv.rg
  have hact : c.ac.gcActive = true := by
    have := hinv.rel.active
    rw [hpc] at this
    exact this
  refine seen_stable hB hact hseen tid path (fun th hth t e ha => ?_)
  apply Classical.byContradiction
  intro hte
  obtain ⟨rt, hrt, hmk⟩ := RThread.step_mk ha
  obtain ⟨lth, hlth, heq⟩ := erase_thread_at hinv.rel.threads hth
  have hcur : lth.cur.map LTask.abs = some rt.erase := by
    have := congrArg Thread.cur heq
    simp only [RThread.erase, LThread.abs, hrt, Option.map_some] at this
    exact this.symm
  obtain ⟨_, _, lth', hlth', hcases⟩ := thread_commit_inv hs
  rw [hlth] at hlth'; cases hlth'
  have hown : c.lc.sh.locks (.level n.level) = some .gc := hinv.inv.gc.level _ (.inl hpc)
  rcases hcases with hnone | ⟨lt, r, hlt, hr⟩ | ⟨lt, o, hlt, _, hstep, hev⟩
  · rw [hnone] at hcur; cases hcur
  · rw [hlt] at hcur
    simp only [Option.map_some, Option.some.injEq] at hcur
    rw [← hcur, LTask.ret?_some hr] at hmk
    simp [LTask.abs, Task.step] at hmk
  · rw [hlt] at hcur
    simp only [Option.map_some, Option.some.injEq] at hcur
    rw [← hcur] at hmk
    obtain ⟨q, hq⟩ := mk_commit_owns hcap hinv.rel.st
      (fun b hb hh => hinv.inv.gc.buckets b (gcHolds_of hb hh)) _ _ lt [] path o
      (hinv.inv.tasks tid lth lt hlth hlt) hstep (by rw [hev]; simp) _ _ _ hmk hte
    rw [hown] at hq; cases hq

/-- **every micro-step keeps the invariant and is, on the counter side, the step of the machine
with slot visits named by its label** -/
theorem LRInv.step {cp : CachePar} (hcap : 0 < cp.cap) {F : Nat → List (Option BDD)}
    {c c' : LRCfg} {s : LSel} {l : XLabel} (hinv : LRInv cp F c)
    (h : c.step .code cp s = some (c', l)) :
    LRInv cp F c' ∧ c'.ac = acAfter cp c.ac l := by
  obtain ⟨B, hB⟩ := hinv.rg
  cases s with
  | thread tid path =>
    simp only [LRCfg.step] at h
    split at h
    · -- a pending release
      rename_i hst
      cases h
      obtain ⟨B', hB', _⟩ := RCfg.step_rginv (polB_ok cp true) hB (.thread tid path)
      refine ⟨⟨hinv.inv, ?_, ⟨B', hB'⟩, fun j n hv => ?_⟩, rfl⟩
      · show R cp c.lc (c.ac.step (polB cp true) (.thread tid path)).erase
        rw [RCfg.step_stutter _ _ _ hst]; exact hinv.rel
      · obtain ⟨hpc, hseen⟩ := hinv.vis j n hv
        refine ⟨hpc, ?_⟩
        have hact : c.ac.gcActive = true := by
          have := hinv.rel.active
          rw [hpc] at this
          exact this
        refine seen_stable hB hact hseen tid path (fun th hth t e ha => ?_)
        have hst' : th.stutters path = true := by
          simpa [RCfg.stutters, hth] using hst
        obtain ⟨_, d, hd⟩ := RThread.step_stutter (effPol (polB cp true) c.ac.gcActive) c.ac.rst.st
          th path hst'
        rw [hd] at ha; cases ha
    · rename_i hst
      have hst : c.ac.stutters (.thread tid path) = false := by simpa using hst
      cases hs : c.lc.step .code cp (.thread tid path) with
      | none => rw [hs] at h; cases h
      | some out =>
        obtain ⟨lc', lab⟩ := out
        rw [hs] at h
        dsimp only at h
        have hinv' := CInv.step hs hinv.inv
        have hsim := sim_step hcap hinv.inv hinv.rel hs
        have hgc := thread_silent_gc hs
        cases lab with
        | none =>
          simp only [commit] at h
          cases h
          refine ⟨⟨hinv', hsim, ⟨B, hB⟩, fun j n hv => ?_⟩, rfl⟩
          obtain ⟨hpc, hseen⟩ := hinv.vis j n hv
          exact ⟨by show lc'.gc = _; rw [hgc]; exact hpc, hseen⟩
        | some lb =>
          obtain ⟨b, sel⟩ := lb
          obtain ⟨rfl, _, _⟩ := thread_commit_inv hs
          simp only [commit, selR] at h
          cases h
          obtain ⟨B', hB', _⟩ := RCfg.step_rginv (polB_ok cp b) hB (.thread tid path)
          refine ⟨⟨hinv', ?_, ⟨B', hB'⟩, fun j n hv => ?_⟩, rfl⟩
          · show R cp lc' (c.ac.step (polB cp b) (.thread tid path)).erase
            rw [RCfg.step_proper _ _ _ hst (fun l hl => by cases hl)]
            exact hsim
          · obtain ⟨hpc, _⟩ := hinv.vis j n hv
            exact ⟨by show lc'.gc = _; rw [hgc]; exact hpc, seen_after_commit hcap hinv hs hv⟩
  | gc ch =>
    simp only [LRCfg.step] at h
    split at h
    · -- inside the sweep of level `l0`
      rename_i l0 hpc
      split at h
      · rename_i hown
        have hown : c.lc.sh.locks (.level l0) = some .gc := by
          rcases hown with h1 | h1
          · exact h1
          · cases h1
        have hgcinv : ∀ pc', (pc' = .lvlLocked l0 ∨ pc' = .lvlSwept l0) → GcInv cp c.lc.sh pc' := by
          intro pc' hpc'
          have hg := hinv.inv.gc
          rw [hpc] at hg
          refine ⟨fun b hb => hg.buckets b ?_, fun _ => hg.ongoing (by simp), fun l hl => ?_⟩
          · rcases hpc' with rfl | rfl <;> simpa [gcHolds] using hb
          · rcases hpc' with rfl | rfl <;> rcases hl with hl | hl <;> cases hl <;> exact hown
        split at h
        · -- read a slot
          rename_i j hvis
          have hnext : ∀ j' (lc1 : LCfg), lc1 = c.lc →
              LRInv cp F ⟨lc1, c.ac, .next j'⟩ := by
            intro j' lc1 h1
            subst h1
            exact ⟨hinv.inv, hinv.rel, ⟨B, hB⟩, fun _ _ hv => by cases hv⟩
          split at h
          · split at h
            · rename_i n hn
              split at h
              · rename_i hcond
                cases h
                refine ⟨⟨hinv.inv, hinv.rel, ⟨B, hB⟩, fun j' n' hv => ?_⟩, rfl⟩
                cases hv
                refine ⟨by rw [hcond.1]; exact hpc, ?_, hcond.2⟩
                have := hinv.rel.st.store
                show c.ac.rst.st.store.get? j = some n
                rw [show c.ac.rst.st.store = c.lc.sh.st.store from this]
                exact hn
              · cases h; exact ⟨hnext _ _ rfl, rfl⟩
            · cases h; exact ⟨hnext _ _ rfl, rfl⟩
          · -- all slots visited
            cases h
            refine ⟨⟨⟨hinv.inv.tasks, hgcinv _ (.inr rfl)⟩, ?_, ⟨B, hB⟩,
              fun _ _ hv => by cases hv⟩, rfl⟩
            have hr := hinv.rel
            refine ⟨?_, hr.threads, ?_⟩
            · have := hr.st; rw [hpc] at this; exact this
            · have := hr.active; rw [hpc] at this; exact this
        · -- free the slot that was seen
          rename_i j n hvis
          cases h
          obtain ⟨hpc', hseen⟩ := hinv.vis j n hvis
          have hl : n.level = l0 := by
            rw [hpc] at hpc'; cases hpc'; rfl
          have hact : c.ac.gcActive = true := by
            have := hinv.rel.active
            rw [hpc] at this
            exact this
          have hx : ({ c.ac with rst := freeSlot c.ac.rst j n } : RCfg) =
              stepX (polB cp true) c.ac (.gcSlot l0 j) := by
            simp only [stepX, hact, if_true]
            rw [gcSlot_of_frees hseen.1 hl hseen.2]
          obtain ⟨B', hB'⟩ := stepX_rginv (polB_ok cp true) hB (.gcSlot l0 j)
          have hstore : c.ac.rst.st.store = c.lc.sh.st.store := hinv.rel.st.store
          refine ⟨⟨⟨fun tid th t hth hcur => ?_, ?_⟩, ?_, ⟨B', by rw [hx]; exact hB'⟩,
            fun _ _ hv => by cases hv⟩, hx⟩
          · have hf : Foot .gc c.lc.sh { c.lc.sh with
                st := { c.lc.sh.st with store := freeStore c.lc.sh.st.store j } } :=
              ⟨fun _ => .inl rfl, fun m hm => .inl (find?_free hm j)⟩
            exact TInv.frame hf t [] (fun _ => by simp) (hinv.inv.tasks tid th t hth hcur)
          · have hg := hinv.inv.gc
            exact ⟨hg.buckets, hg.ongoing, hg.level⟩
          · have hr := hinv.rel
            refine ⟨⟨?_, ?_, ?_, ?_⟩, hr.threads, hr.active⟩
            · show (freeSlot c.ac.rst j n).st.store = freeStore c.lc.sh.st.store j
              rw [Rc.freeSlot_store, hstore]; rfl
            · show (freeSlot c.ac.rst j n).st.tick = c.lc.sh.st.tick
              rw [freeSlot_tick]; exact hr.st.tick
            · show c.lc.sh.st.cache = (freeSlot c.ac.rst j n).st.cache.filter _
              rw [Rc.freeSlot_cache]; exact hr.st.cache
            · intro ha
              show (freeSlot c.ac.rst j n).st.cache = []
              rw [Rc.freeSlot_cache]; exact hr.st.empty ha
      · cases h
    · -- every other collector step: as in `LThreads`
      rename_i pc hnl
      have hne : ∀ j n, c.vis ≠ .seen j n := by
        intro j n hv
        exact hnl _ (hinv.vis j n hv).1
      cases hs : gcStep .code cp c.lc ch with
      | none => rw [hs] at h; cases h
      | some out =>
        obtain ⟨lc', lab⟩ := out
        rw [hs] at h
        dsimp only at h
        have hs' : c.lc.step .code cp (.gc ch) = some (lc', lab) := hs
        have hinv' := CInv.step hs' hinv.inv
        have hsim := sim_step hcap hinv.inv hinv.rel hs'
        cases lab with
        | none =>
          simp only [commit] at h
          cases h
          exact ⟨⟨hinv', hsim, ⟨B, hB⟩, fun j n hv => absurd hv (hne j n)⟩, rfl⟩
        | some lb =>
          obtain ⟨b, sel⟩ := lb
          rcases gcStep_label hs with rfl | rfl | ⟨l1, rfl⟩
          · simp only [commit, selR] at h
            cases h
            obtain ⟨B', hB', _⟩ := RCfg.step_rginv (polB_ok cp b) hB .gcBegin
            exact ⟨⟨hinv', hsim, ⟨B', hB'⟩, fun j n hv => absurd hv (hne j n)⟩, rfl⟩
          · simp only [commit, selR] at h
            cases h
            obtain ⟨B', hB', _⟩ := RCfg.step_rginv (polB_ok cp b) hB .gcEnd
            exact ⟨⟨hinv', hsim, ⟨B', hB'⟩, fun j n hv => absurd hv (hne j n)⟩, rfl⟩
          · simp only [commit, selR] at h
            cases h

/-! ## runs -/

theorem runXB_append (cp : CachePar) (c : RCfg) (a b : List (Bool × XSel)) :
    runXB cp c (a ++ b) = runXB cp (runXB cp c a) b := by
  induction a generalizing c with
  | nil => rfl
  | cons x xs ih => obtain ⟨b', s⟩ := x; simp only [List.cons_append, runXB]; exact ih _

/-- **every run keeps the invariant, and its counter side is the run of the machine with slot
visits along the commit labels** -/
theorem LRInv.run {cp : CachePar} (hcap : 0 < cp.cap) {F : Nat → List (Option BDD)} :
    ∀ (ss : List LSel) {c : LRCfg}, LRInv cp F c →
      LRInv cp F (c.run .code cp ss).1 ∧
      (c.run .code cp ss).1.ac = runXB cp c.ac (c.run .code cp ss).2 := by
  intro ss
  induction ss with
  | nil => intro c h; exact ⟨h, rfl⟩
  | cons s ss ih =>
    intro c h
    simp only [LRCfg.run]
    cases hs : c.step .code cp s with
    | none => exact ih h
    | some out =>
      obtain ⟨c', l⟩ := out
      obtain ⟨h', hac⟩ := LRInv.step hcap h hs
      cases l with
      | none =>
        dsimp only
        obtain ⟨i1, i2⟩ := ih h'
        refine ⟨i1, ?_⟩
        rw [i2, hac]; rfl
      | some lb =>
        obtain ⟨b, x⟩ := lb
        dsimp only
        obtain ⟨i1, i2⟩ := ih h'
        refine ⟨i1, ?_⟩
        rw [i2, hac]; rfl

end OxiddModel.Bdd.LRThreads
