import OxiddModel.Bdd.LRThreadsProof
import OxiddModel.Bdd.LRThreadsBad
import OxiddModel.Bdd.PropertiesC07L

/-!
# C07 — the lock-table reduction lifted to the counter machine (`LRThreads` ⟶ `RThreads`)

`PropertiesC07L.reduction` discharges the atomicity assumption of `Threads.lean` by the locks;
`PropertiesC07R` proves exact counters for `RThreads` — atomic actions, atomic sweep of a level.
This file is about `LRThreads` (`LRThreads.lean`): micro-steps with a lock table as in `LThreads`,
`retain` / `release` as single atomic RMW steps that take no lock, and a collector that sweeps a
locked level **node by node** (read the counter; later: remove, free, release the children) while
the other threads' micro-steps — `retain` / `release` on nodes of that very level included —
interleave arbitrarily.

* `reduction_rc` — for every schedule of micro-steps the counter side of the final configuration is
  the run of **`RThreads` with slot visits** (`LRThreadsSlot.stepX`: the steps of `RThreads`, the
  sweep of a level split into the visits of its slots; the atomic sweep is the uninterrupted
  sequence of visits, `gcLevel_is_slots`) along the commit labels, coherent with the micro state
  (same unique table, time stamp, control states, `gcActive`); mutual exclusion (`CInv`) and the
  invariant of the counter machine (`RGInv`) hold.
* `rc_invariant_interleaved_locked`, `quiescent_exact_locked`, `no_use_after_free_locked` — the
  theorems of `PropertiesC07R` for `LRThreads`.
* `sweeper_frees_only_unreferenced` — whenever the sweeper is between reading a counter and
  freeing the node, the node is still stored, `rc = 1`, and neither a handle nor an owned edge of
  any thread nor a stored parent edge refers to it (`seen_stable` carried through every micro-step).
* negative witnesses (`LRThreadsBad`): `unlocked_sweep_use_after_free`,
  `nodewise_sweep_is_not_an_atomic_sweep`.
-/
namespace OxiddModel.Bdd.C07LR
open OxiddModel.Bdd OxiddModel.Bdd.BDD OxiddModel.Bdd.Refine OxiddModel.Bdd.Threads
open OxiddModel.Bdd.RThreads OxiddModel.Bdd.LThreads OxiddModel.Bdd.LRThreads
open OxiddModel.Bdd.Rc (RSt rcGet rcSet cloneEdge dropEdge RcInv parents gcSlot freeSlot)
open OxiddModel.Bdd.C07R (RInit rginv_init handleCount ownedCount ext_count ownedCount_done
  allDone_erase rheld_sub)
open OxiddModel.Locks (Lock)

/-- the final specification of the threads (as in `PropertiesC07R`) -/
abbrev specOf (c0 : RCfg) (ts0 : Nat → List (Option BDD)) := specF c0.erase ts0

theorem ofR_init0 {c0 : RCfg} {ts0 : Nat → List (Option BDD)} (hinit : RInit c0 ts0) :
    LInit0 (LRCfg.ofR c0).lc := by
  refine ⟨fun _ => rfl, fun tid th hth => ?_, rfl⟩
  simp only [LRCfg.ofR, List.getElem?_map] at hth
  cases he : c0.erase.threads[tid]? with
  | none => rw [he] at hth; cases hth
  | some tha =>
    rw [he] at hth
    simp only [Option.map_some, Option.some.injEq] at hth
    subst hth
    simp [liftThread, hinit.init.idle tid tha he]

/-- initial configurations satisfy the invariant -/
theorem lrinv_init {cp : CachePar} {c0 : RCfg} {ts0 : Nat → List (Option BDD)}
    (hinit : RInit c0 ts0) (hgc : c0.gcActive = false) :
    LRInv cp (specOf c0 ts0) (LRCfg.ofR c0) := by
  have h0 := ofR_init0 hinit
  refine ⟨h0.cinv, ?_, ⟨_, rginv_init hinit⟩, fun _ _ hv => by cases hv⟩
  have hR := R_init (cp := cp) h0
  have : (LRCfg.ofR c0).lc.abs0 = c0.erase := by
    simp only [LCfg.abs0, LRCfg.ofR, RCfg.erase, List.map_map, hgc]
    congr 1
    apply List.map_congr_left
    intro th _
    exact abs_liftThread th.erase
  rw [this] at hR
  exact hR

/-- **`reduction_rc`.** Let `c0` be an initial configuration of the counter machine (`RInit`: hash-
consed store, sound cache, idle threads, exact counters), started with all locks free and the
collector idle (`LRCfg.ofR`), `ss` ANY schedule of micro-steps — lock acquisitions, lookups,
writes, unlocks, `try_lock`s, atomic `retain`s / `release`s of all tasks, and the collector's
`pre_gc`, `lock(level)`, slot reads, slot frees, `unlock(level)`, `post_gc` in any interleaving —
and `ls` the commit labels the run emits. Then

* the **counter side** of the final configuration is the run of `RThreads` *with slot visits*
  (`runXB` = `stepX` per label: every critical section of a thread ONE atomic step of `RThreads`
  at its commit point, every visit of a slot that frees it ONE `gcSlot` step at the free step —
  although the sweeper read the counter in an earlier micro-step);
* it is **coherent** with the micro state: same unique table, same time stamp, the erased control
  state of every thread is the abstraction of its micro control state, `gcActive` ⇔ the collector
  is between the commit points of `gcBegin` and `gcEnd`;
* mutual exclusion (`CInv`) holds for the micro state and the invariant of the counter machine
  (`RGInv`: exact counters, …) for the counter side. -/
theorem reduction_rc {cp : CachePar} (hcap : 0 < cp.cap) (c0 : RCfg) (ts0 : Nat → List (Option BDD))
    (hinit : RInit c0 ts0) (hgc : c0.gcActive = false) (ss : List LSel) :
    let r := (LRCfg.ofR c0).run .code cp ss
    r.1.ac = runXB cp c0 r.2 ∧
    r.1.ac.rst.st.store = r.1.lc.sh.st.store ∧ r.1.ac.rst.st.tick = r.1.lc.sh.st.tick ∧
    r.1.ac.erase.threads = r.1.lc.threads.map LThread.abs ∧
    r.1.ac.gcActive = gcActiveOf r.1.lc.gc ∧
    CInv cp r.1.lc ∧ ∃ B, RGInv r.1.ac (specOf c0 ts0) B := by
  intro r
  obtain ⟨hI, hac⟩ := LRInv.run hcap ss (lrinv_init (cp := cp) hinit hgc)
  exact ⟨hac, hI.rel.st.store, hI.rel.st.tick, hI.rel.threads, hI.rel.active, hI.inv, hI.rg⟩

/-- the invariant at the end of any schedule of micro-steps -/
theorem reachable_lrinv {cp : CachePar} (hcap : 0 < cp.cap) (c0 : RCfg)
    (ts0 : Nat → List (Option BDD)) (hinit : RInit c0 ts0) (hgc : c0.gcActive = false)
    (ss : List LSel) : LRInv cp (specOf c0 ts0) ((LRCfg.ofR c0).run .code cp ss).1 :=
  (LRInv.run hcap ss (lrinv_init (cp := cp) hinit hgc)).1

/-- **`rc_invariant_interleaved_locked`.** After ANY schedule of micro-steps the counters are exact
for the counted references of the configuration: for every stored node `n`

`rc n = 1 + (handles on n over all threads) + (edges to n owned by some thread's continuation)
        + (stored parent edges of n)`

and every counted reference and child edge points to a stored node — at micro-step granularity,
in particular in the middle of a node-by-node sweep and between a `get_or_insert`'s lookup and its
unlock. -/
theorem rc_invariant_interleaved_locked {cp : CachePar} (hcap : 0 < cp.cap) (c0 : RCfg)
    (ts0 : Nat → List (Option BDD)) (hinit : RInit c0 ts0) (hgc : c0.gcActive = false)
    (ss : List LSel) :
    let c := ((LRCfg.ofR c0).run .code cp ss).1
    RcInv c.ac.rst c.ac.ext ∧
    ∀ i n, c.lc.sh.st.store.get? i = some n →
      rcGet c.ac.rst.rc i = 1 + handleCount c.ac i + ownedCount c.ac i + parents c.lc.sh.st.store i := by
  have hI := reachable_lrinv hcap c0 ts0 hinit hgc ss
  dsimp only
  generalize ((LRCfg.ofR c0).run .code cp ss).1 = c at hI
  obtain ⟨B, hG⟩ := hI.rg
  have hs : c.ac.rst.st.store = c.lc.sh.st.store := hI.rel.st.store
  refine ⟨hG.rc, fun i n hi => ?_⟩
  rw [← hs] at hi ⊢
  rw [hG.rc.rc_eq i n hi, ext_count]
  omega

theorem allDone_ac {cp : CachePar} {F : Nat → List (Option BDD)} {c : LRCfg} (hI : LRInv cp F c)
    (hd : c.allDone = true) : c.ac.allDone = true := by
  rw [← allDone_erase]
  exact C07L.allDone_abs hI.rel.threads hd

/-- **`quiescent_exact_locked`.** When all threads are done — after any complete schedule of
micro-steps, wherever the collector is — for every stored node `rc = 1 + handles + stored parent
edges`, i.e. `ref_count()` reports exactly handles + parent edges. -/
theorem quiescent_exact_locked {cp : CachePar} (hcap : 0 < cp.cap) (c0 : RCfg)
    (ts0 : Nat → List (Option BDD)) (hinit : RInit c0 ts0) (hgc : c0.gcActive = false)
    (ss : List LSel) (hdone : ((LRCfg.ofR c0).run .code cp ss).1.allDone = true) :
    let c := ((LRCfg.ofR c0).run .code cp ss).1
    ∀ i n, c.lc.sh.st.store.get? i = some n →
      rcGet c.ac.rst.rc i = 1 + handleCount c.ac i + parents c.lc.sh.st.store i ∧
      c.ac.rst.refCount i = handleCount c.ac i + parents c.lc.sh.st.store i := by
  have hI := reachable_lrinv hcap c0 ts0 hinit hgc ss
  have hrc := (rc_invariant_interleaved_locked hcap c0 ts0 hinit hgc ss).2
  dsimp only at hrc ⊢
  generalize ((LRCfg.ofR c0).run .code cp ss).1 = c at hI hrc hdone
  intro i n hi
  have := hrc i n hi
  rw [ownedCount_done (allDone_ac hI hdone)] at this
  exact ⟨by omega, by unfold RSt.refCount; omega⟩

/-- **`no_use_after_free_locked`.** After any schedule of micro-steps every edge any thread holds —
handles, operands of pending calls (borrowed cofactors), cache keys in frames, guarded results,
the edge `reduce` returned, edges still to be released — refers to a node that is in the unique
table of the micro state (or is a terminal): the node-by-node sweep never frees a node somebody
holds, although it acts on a counter value it read earlier. -/
theorem no_use_after_free_locked {cp : CachePar} (hcap : 0 < cp.cap) (c0 : RCfg)
    (ts0 : Nat → List (Option BDD)) (hinit : RInit c0 ts0) (hgc : c0.gcActive = false)
    (ss : List LSel) (i : Nat) (th : RThread)
    (hi : ((LRCfg.ofR c0).run .code cp ss).1.ac.threads[i]? = some th) :
    ∀ e, e ∈ th.held → ((LRCfg.ofR c0).run .code cp ss).1.lc.sh.st.store.has e := by
  have hI := reachable_lrinv hcap c0 ts0 hinit hgc ss
  obtain ⟨B, hG⟩ := hI.rg
  have hs : ((LRCfg.ofR c0).run .code cp ss).1.ac.rst.st.store =
      ((LRCfg.ofR c0).run .code cp ss).1.lc.sh.st.store := hI.rel.st.store
  rw [← hs]
  intro e he
  have hte : ((LRCfg.ofR c0).run .code cp ss).1.ac.erase.threads[i]? = some th.erase := by
    rw [getElem?_erase_threads, hi]; rfl
  have hinv := (hG.ginv.2.2 i th.erase hte).1
  have own : e ∈ th.owned → ((LRCfg.ofR c0).run .code cp ss).1.ac.rst.st.store.has e := fun ho =>
    hG.rc.ext_ok e (List.mem_flatMap.mpr ⟨th, List.mem_of_getElem? hi, ho⟩)
  unfold RThread.held at he
  rcases List.mem_append.mp he with h1 | h1
  · exact own (List.mem_append.mpr (.inl h1))
  · cases hc : th.cur with
    | none => rw [hc] at h1; cases h1
    | some t =>
      rw [hc] at h1
      rcases rheld_sub t e h1 with h2 | h2
      · refine ThreadInv.held_has hinv e ?_
        simp only [Thread.held, RThread.erase, hc, Option.map_some]
        exact List.mem_append.mpr (.inr h2)
      · exact own (by unfold RThread.owned; rw [hc]; exact List.mem_append.mpr (.inr h2))

/-- **The sweeper frees only what nobody can reach — although it decides first and frees later.**
Whenever the sweeper is between *reading* the counter of slot `j` (`rc == 1`) and *freeing* it —
after any number of micro-steps of other threads in between, `retain`s and `release`s on nodes of
the same level included — the collector is still inside the sweep of that level, slot `j` still
holds the node it saw, its counter is still `1`, and neither a handle, nor an edge owned by any
thread's continuation, nor a stored parent edge refers to it. (A node with `rc == 1` cannot be
retained by anyone who does not already hold a reference, except through `get_or_insert` on that
level — which needs the level lock the sweeper owns — or a cache hit — the cache is locked.) -/
theorem sweeper_frees_only_unreferenced {cp : CachePar} (hcap : 0 < cp.cap) (c0 : RCfg)
    (ts0 : Nat → List (Option BDD)) (hinit : RInit c0 ts0) (hgc : c0.gcActive = false)
    (ss : List LSel) (j : Nat) (n : Node)
    (hv : ((LRCfg.ofR c0).run .code cp ss).1.vis = .seen j n) :
    let c := ((LRCfg.ofR c0).run .code cp ss).1
    c.lc.gc = .lvlLocked n.level ∧ c.lc.sh.locks (.level n.level) = some .gc ∧
    c.lc.sh.st.store.get? j = some n ∧ rcGet c.ac.rst.rc j = 1 ∧
    handleCount c.ac j = 0 ∧ ownedCount c.ac j = 0 ∧ parents c.lc.sh.st.store j = 0 := by
  have hI := reachable_lrinv hcap c0 ts0 hinit hgc ss
  have hrc := (rc_invariant_interleaved_locked hcap c0 ts0 hinit hgc ss).2
  dsimp only at hrc ⊢
  generalize ((LRCfg.ofR c0).run .code cp ss).1 = c at hI hrc hv
  obtain ⟨hpc, hseen⟩ := hI.vis j n hv
  have hs : c.ac.rst.st.store = c.lc.sh.st.store := hI.rel.st.store
  have hget : c.lc.sh.st.store.get? j = some n := by rw [← hs]; exact hseen.1
  have := hrc j n hget
  have h1 : rcGet c.ac.rst.rc j = 1 := hseen.2
  refine ⟨hpc, hI.inv.gc.level _ (.inl hpc), hget, h1, ?_, ?_, ?_⟩ <;> omega

/-! ## non-vacuity -/

open OxiddModel.Bdd.LRThreads.Bad OxiddModel.Bdd.LThreads.Bad

/-- the configuration `bR` of `LRThreadsBad` (one thread owning `x1`, computing `¬x1`; the node
`¬x1` stored but unreferenced) is an initial configuration -/
theorem bS_get (i : Nat) : bS.get? i =
    match i with
    | 0 => some ⟨1, .term true, .term false⟩
    | 1 => some ⟨1, .term false, .term true⟩
    | _ => none := by
  match i with
  | 0 => rfl
  | 1 => rfl
  | i + 2 => simp [bS, Store.get?]

def bX1 : BDD := .node 1 (.leaf true) (.leaf false)
def bNX1 : BDD := .node 1 (.leaf false) (.leaf true)

theorem bS_x1 : Denotes bS (.inner 0) bX1 := .inner (bS_get 0) .term .term
theorem bS_nx1 : Denotes bS (.inner 1) bNX1 := .inner (bS_get 1) .term .term

theorem bR_init : RInit bR (fun _ => [some bX1]) where
  init := {
    unique := by
      intro i j n hi hj
      change bS.get? i = some n at hi
      change bS.get? j = some n at hj
      rw [bS_get] at hi hj
      match i, j with
      | 0, 0 => rfl
      | 1, 1 => rfl
      | 0, 1 => cases hi; cases hj
      | 1, 0 => cases hi; cases hj
      | i + 2, _ => cases hi
      | 0, j + 2 => cases hj
      | 1, j + 2 => cases hj
    cache := CacheOK.nil _
    nogc := fun h => by cases h
    idle := by
      intro i th hi
      match i, hi with
      | 0, hi => cases hi; rfl
    handles := by
      intro i th hi
      match i, hi with
      | 0, hi =>
        cases hi
        refine ⟨rfl, fun k => ?_⟩
        match k with
        | 0 => exact bS_x1
        | k + 1 => trivial }
  rc := {
    ext_ok := by
      intro e he
      simp [RCfg.ext, bR, RThread.owned, RThread.handles] at he
      subst he
      exact ⟨_, bS_get 0⟩
    kids_ok := by
      intro i n hi
      change bS.get? i = some n at hi
      rw [bS_get] at hi
      match i, hi with
      | 0, hi => cases hi; exact ⟨trivial, trivial⟩
      | 1, hi => cases hi; exact ⟨trivial, trivial⟩
    cache_ok := by intro k v h; cases h
    rc_eq := by
      intro i n hi
      change bS.get? i = some n at hi
      rw [bS_get] at hi
      match i, hi with
      | 0, hi => decide +kernel
      | 1, hi => decide +kernel }
  ord := by
    intro i n hi
    change bS.get? i = some n at hi
    rw [bS_get] at hi
    match i, hi with
    | 0, hi => cases hi; exact ⟨bX1, bS_x1, .node (Nat.zero_le _) .leaf .leaf⟩
    | 1, hi => cases hi; exact ⟨bNX1, bS_nx1, .node (Nat.zero_le _) .leaf .leaf⟩

/-- the schedule of `LRThreadsBad.code_continues_ok` (with the level lock): complete; 11 commit
labels for 32 scheduled micro-steps, among them the slot visit `gcSlot 1 1` -/
example : ((LRCfg.ofR bR).run .code cp schedCont).1.allDone = true ∧
    ((LRCfg.ofR bR).run .code cp schedCont).2.length = 11 ∧ schedCont.length = 32 ∧
    (true, XSel.gcSlot 1 1) ∈ ((LRCfg.ofR bR).run .code cp schedCont).2 := by decide +kernel

example := reduction_rc (cp := cp) (by decide) bR _ bR_init rfl schedCont
example := rc_invariant_interleaved_locked (cp := cp) (by decide) bR _ bR_init rfl schedCont
example := quiescent_exact_locked (cp := cp) (by decide) bR _ bR_init rfl schedCont
  code_continues_ok.1
example := no_use_after_free_locked (cp := cp) (by decide) bR _ bR_init rfl schedCont 0

/-- `sweeper_frees_only_unreferenced` applies in the middle of the run: after the first 8 + 6
steps the sweeper remembers slot 1 while the thread has run 6 micro-steps -/
example : ((LRCfg.ofR bR).run .code cp (sched.take 14)).1.vis = .seen 1 ⟨1, .term false, .term true⟩ := by
  decide +kernel
example := sweeper_frees_only_unreferenced (cp := cp) (by decide) bR _ bR_init rfl (sched.take 14) 1
  ⟨1, .term false, .term true⟩ (by decide +kernel)

/-- without the level lock `no_use_after_free_locked` fails (`unlocked_sweep_use_after_free`) -/
theorem unlocked_sweep_breaks_no_use_after_free :
    ∃ th, ((LRCfg.ofR bR).run .unlockedSweep cp sched).1.ac.threads[0]? = some th ∧
      Edge.inner 1 ∈ th.held ∧
      ¬ ((LRCfg.ofR bR).run .unlockedSweep cp sched).1.lc.sh.st.store.has (.inner 1) := by
  refine ⟨⟨0, [some (.inner 0), some (.inner 1)], [], none⟩, by decide +kernel, by decide +kernel, ?_⟩
  rintro ⟨n, hn⟩
  rw [unlocked_sweep_use_after_free.2.2.2.1] at hn
  cases hn

end OxiddModel.Bdd.C07LR
