import OxiddModel.Bdd.PropertiesC07R

/-!
# `RThreads` with the sweep of a level split into the visits of its slots (`XSel`, `stepX`)

`RThreads.RCfg.step (.gcLevel l)` sweeps a whole level in ONE step (`Rc.gcLevel` = the fold of
`Rc.gcSlot l` over all slots). In the code (`LevelViewSet::gc` = `retain(|e| rc != 1, free_slot)`
under the level mutex) the sweep visits the slots one after the other and the `retain`/`release`
of other threads — atomic read-modify-write operations that take no lock — interleave with the
visits. This file adds the **visit of one slot** as a step of its own:

* `XSel.gcSlot l i` = `Rc.gcSlot l · i`: if slot `i` holds a node of level `l` whose counter is `1`
  (only the table's reference) the node is removed from the table and its children are released;
* `stepX` / `runX`: the machine of `RThreads.lean` with this additional step (any interleaving of
  thread steps — `retain`, `release`, `get_or_insert`, cache accesses — with slot visits);
* `gcLevel_is_slots`: the atomic sweep of `RThreads` IS the uninterrupted sequence of the visits of
  all slots (so `runX` contains every run of `RThreads`);
* `stepX_rginv` / `runX_rginv`: the invariant `RGInv` of `RThreadsProof.lean` (exact counters for
  the counted references of all threads, `Threads.GInv` of the erased configuration, pending
  releases, ordered trees) is kept by every step, hence at every configuration reachable by ANY
  interleaving of thread steps and slot visits.

Why the target of the lock-level reduction is this machine and not `RThreads` itself: a sweep that
is interleaved with releases of other threads is in general **not** equal to an atomic sweep at any
single moment (`LRThreadsBad.lean`: it can keep a node that every atomic sweep placed after the
last release would free, and free a node that every atomic sweep placed before would keep); it
is a sequence of slot visits, each of which is atomic.
-/
namespace OxiddModel.Bdd.LRThreads
open OxiddModel.Bdd OxiddModel.Bdd.BDD OxiddModel.Bdd.Refine OxiddModel.Bdd.Threads
open OxiddModel.Bdd.RThreads
open OxiddModel.Bdd.Rc (RSt rcGet rcSet cloneEdge dropEdge RcInv parents gcSlot freeSlot)

/-- selectors of `RThreads` and the visit of one slot by the sweep of level `l` -/
inductive XSel where
  | r (s : RSel)
  | gcSlot (l i : Nat)
deriving DecidableEq, Repr

/-- one step: a step of `RThreads`, or one slot visit of a collection that is going on -/
def stepX (p : Policy) (c : RCfg) : XSel → RCfg
  | .r s => c.step p s
  | .gcSlot l i => if c.gcActive then { c with rst := gcSlot l c.rst i } else c

def runX (p : Policy) (c : RCfg) : List XSel → RCfg
  | [] => c
  | s :: ss => runX p (stepX p c s) ss

theorem runX_append (p : Policy) (c : RCfg) (a b : List XSel) :
    runX p c (a ++ b) = runX p (runX p c a) b := by
  induction a generalizing c with
  | nil => rfl
  | cons s ss ih => simp only [List.cons_append, runX]; exact ih _

/-- every schedule of `RThreads` is a schedule of this machine -/
theorem runX_r (p : Policy) (c : RCfg) (ss : List RSel) : runX p c (ss.map .r) = c.run p ss := by
  induction ss generalizing c with
  | nil => rfl
  | cons s ss ih => simp only [List.map_cons, runX, RCfg.run, stepX]; exact ih _

theorem runX_slots (p : Policy) (l : Nat) : ∀ (is : List Nat) (c : RCfg), c.gcActive = true →
    runX p c (is.map (.gcSlot l)) = { c with rst := is.foldl (gcSlot l) c.rst } := by
  intro is
  induction is with
  | nil => intro c _; rfl
  | cons i is ih =>
    intro c ha
    simp only [List.map_cons, runX, stepX, ha, if_true, List.foldl_cons]
    exact ih _ rfl

/-- **the atomic sweep of a level is the uninterrupted sequence of its slot visits** -/
theorem gcLevel_is_slots (p : Policy) (c : RCfg) (l : Nat) :
    c.step p (.gcLevel l) =
      runX p c ((List.range c.rst.st.store.nodes.size).map (.gcSlot l)) := by
  cases ha : c.gcActive with
  | true =>
    rw [runX_slots p l _ c ha]
    simp [RCfg.step, ha, Rc.gcLevel]
  | false =>
    simp only [RCfg.step, ha]
    generalize List.range c.rst.st.store.nodes.size = is
    induction is with
    | nil => rfl
    | cons i is ih => simp only [List.map_cons, runX, stepX, ha]; exact ih

/-! ## what a slot visit does -/

/-- the visit of slot `i` frees it -/
def Frees (r : RSt) (l i : Nat) : Prop :=
  ∃ n, r.st.store.get? i = some n ∧ n.level = l ∧ rcGet r.rc i = 1

theorem gcSlot_of_not_frees {r : RSt} {l i : Nat} (h : ¬ Frees r l i) : gcSlot l r i = r := by
  rw [Rc.gcSlot_eq]
  cases hi : r.st.store.get? i with
  | none => rfl
  | some n =>
    simp only
    split
    · rename_i hc; exact absurd ⟨n, hi, hc.1, hc.2⟩ h
    · rfl

theorem gcSlot_of_frees {r : RSt} {l i : Nat} {n : Node} (hi : r.st.store.get? i = some n)
    (hl : n.level = l) (hrc : rcGet r.rc i = 1) : gcSlot l r i = freeSlot r i n := by
  rw [Rc.gcSlot_eq, hi]
  simp [hl, hrc]

theorem get?_gcSlot_frees {r : RSt} {l i : Nat} (h : Frees r l i) (k : Nat) :
    (gcSlot l r i).st.store.get? k = if k = i then none else r.st.store.get? k := by
  obtain ⟨n, hi, hl, hrc⟩ := h
  rw [gcSlot_of_frees hi hl hrc, Rc.freeSlot_store, Rc.get?_free]

/-- the visit of a slot is a removal of an unprotected slot -/
theorem gcSlot_removal {c : RCfg} {F : Nat → List (Option BDD)} {B : Nat → Nat} (h : RGInv c F B)
    (l i : Nat) : Removal c.rst.st.store (gcSlot l c.rst i).st.store c.erase.roots := by
  by_cases hf : Frees c.rst l i
  · intro k
    rw [get?_gcSlot_frees hf]
    by_cases hk : k = i
    · subst hk
      refine ⟨.inr (by simp), fun hp => ?_⟩
      obtain ⟨n, hi, _, hrc⟩ := hf
      have := (rc_one_iff h.rc hi).mp hrc
      rw [prot_ext_roots h.pend] at this
      rw [this] at hp; cases hp
    · rw [if_neg hk]
      exact ⟨.inl rfl, fun _ => rfl⟩
  · rw [gcSlot_of_not_frees hf]
    exact fun k => ⟨.inl rfl, fun _ => rfl⟩

theorem gcSlot_cache (l : Nat) (r : RSt) (i : Nat) : (gcSlot l r i).st.cache = r.st.cache := by
  rw [Rc.gcSlot_eq]
  cases r.st.store.get? i with
  | none => rfl
  | some n =>
    simp only
    split
    · exact Rc.freeSlot_cache _ _ _
    · rfl

theorem gcSlot_tick (l : Nat) (r : RSt) (i : Nat) : (gcSlot l r i).st.tick = r.st.tick := by
  rw [Rc.gcSlot_eq]
  cases r.st.store.get? i with
  | none => rfl
  | some n =>
    simp only
    split
    · simp [freeSlot]
    · rfl

/-- **every step of the machine with slot visits keeps the invariant of the counter machine** -/
theorem stepX_rginv {p : Policy} (pok : p.OK) {c : RCfg} {F : Nat → List (Option BDD)}
    {B : Nat → Nat} (h : RGInv c F B) (sel : XSel) : ∃ B', RGInv (stepX p c sel) F B' := by
  cases sel with
  | r s =>
    obtain ⟨B', h', _⟩ := RCfg.step_rginv pok h s
    exact ⟨B', h'⟩
  | gcSlot l i =>
    cases ha : c.gcActive with
    | false =>
      have : stepX p c (.gcSlot l i) = c := by simp [stepX, ha]
      rw [this]; exact ⟨B, h⟩
    | true =>
      have e : stepX p c (.gcSlot l i) = { c with rst := gcSlot l c.rst i } := by
        simp [stepX, ha]
      rw [e]
      have hcache : c.rst.st.cache = [] := h.ginv.2.1 ha
      have hrem := gcSlot_removal h l i
      have hrc := Rc.gcSlot_rc (l := l) i h.rc hcache
      refine ⟨B, ⟨?_, hrc.1, ?_, h.ord.removal hrem⟩⟩
      · -- `GInv` of the erased configuration
        refine ⟨⟨hrem.unique h.ginv.1.1, ?_⟩, fun _ => hrc.2, ?_⟩
        · show CacheOK _ (gcSlot l c.rst i).st.cache
          rw [hrc.2]; exact CacheOK.nil _
        · exact removal_threads (c := c.erase) hrem h.ginv.2.2
      · -- pending releases: counted references are never freed
        intro k th t hk hc
        refine (h.pend k th t hk hc).keep (fun j n hm hj => ?_)
        have hmem : Edge.inner j ∈ c.ext := by
          refine List.mem_flatMap.mpr ⟨th, List.mem_of_getElem? hk, ?_⟩
          unfold RThread.owned
          rw [hc]
          exact List.mem_append.mpr (.inr hm)
        show (gcSlot l c.rst i).st.store.get? j = some n
        by_cases hf : Frees c.rst l i
        · rw [get?_gcSlot_frees hf]
          by_cases hji : j = i
          · subst hji
            obtain ⟨n', hn', _, h1⟩ := hf
            have := h.rc.rc_eq j n' hn'
            have hcnt : 0 < c.ext.count (.inner j) := List.count_pos_iff.mpr hmem
            omega
          · simp [hji, hj]
        · rw [gcSlot_of_not_frees hf]; exact hj

theorem runX_rginv {p : Policy} (pok : p.OK) : ∀ (ss : List XSel) {c : RCfg}
    {F : Nat → List (Option BDD)} {B : Nat → Nat}, RGInv c F B → ∃ B', RGInv (runX p c ss) F B' := by
  intro ss
  induction ss with
  | nil => intro c F B h; exact ⟨B, h⟩
  | cons s ss ih =>
    intro c F B h
    obtain ⟨B1, h1⟩ := stepX_rginv pok h s
    exact ih h1

end OxiddModel.Bdd.LRThreads
