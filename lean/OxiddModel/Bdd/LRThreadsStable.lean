import OxiddModel.Bdd.LRThreadsSlot
import OxiddModel.Bdd.LockStepsSim
import OxiddModel.Bdd.RcSLemmasAlg

/-!
# What the sweeper has seen stays true: a node with `rc == 1` cannot be revived behind its back

The visit of a slot by `LevelViewSet::gc` is not atomic: the sweeper **reads** the counter
(`rc == 1`: only the table's reference) and **then** removes the node from the table and frees it;
`retain`/`release` of other threads are atomic read-modify-write operations that take no lock and
may happen in between. `seen_stable` is the argument that this is safe:

if slot `j` holds node `n` with `rc j = 1` in a configuration satisfying the invariant of the
counter machine (`RGInv`: exact counters, borrowed edges reachable from handles) while a collection
is going on (apply cache cleared and locked), then after ANY step of ANY thread that is not a
`get_or_insert` (with `t ≠ e`) on the level of `n` (excluded by the level mutex the sweeper holds) slot `j` still
holds `n` and `rc j = 1`. Because:

* a `retain e` (`clone_edge` of an operand in a terminal case, `clone` of a handle) acts on an edge
  the thread **holds** (`step_retain_held`), held edges are owned or reachable from the thread's
  handles (`ThreadCov`), so their nodes are counted references or have a stored parent: `rc ≥ 2`;
* a `release e` acts on a counted reference (`rc ≥ 2`);
* a cache hit (which retains the cached result) is impossible: the cache is locked (`step_no_hit`);
* a `get_or_insert` that finds `n` is on `n`'s level; one that inserts allocates a free slot
  (`alloc_fresh`), and its children are counted references, so `n` does not become a child.
-/
namespace OxiddModel.Bdd.LRThreads
open OxiddModel.Bdd OxiddModel.Bdd.BDD OxiddModel.Bdd.Refine OxiddModel.Bdd.Threads
open OxiddModel.Bdd.RThreads
open OxiddModel.Bdd.Rc (RSt rcGet rcSet cloneEdge dropEdge RcInv parents gcSlot freeSlot)
open OxiddModel.Bdd.LThreads (Call.classify Call.entry_eq Entry)

/-! ## provenance of the retained edge -/

theorem classify_loc_ret {d : Nat} {c : Call} {h : Edge} (hc : Call.classify d c = .loc (.ret h)) :
    h ∈ c.edges ∨ ∃ b, h = .term b := by
  cases c with
  | not f =>
    cases f with
    | term b => simp only [Call.classify] at hc; cases hc; exact .inr ⟨_, rfl⟩
    | inner i => simp [Call.classify] at hc
  | bin op f g =>
    simp only [Call.classify] at hc
    have hs := Rc.terminalBinS_shape op f g
    cases ht : terminalBinS op f g with
    | done h' =>
      rw [ht] at hc hs
      cases hc
      rcases hs with rfl | rfl | ⟨b, rfl⟩
      · exact .inl (by simp [Call.edges])
      · exact .inl (by simp [Call.edges])
      · exact .inr ⟨b, rfl⟩
    | notOf h' => rw [ht] at hc; cases hc
    | binary tag o1 o2 => rw [ht] at hc; cases hc
  | ite f g k =>
    simp only [Call.classify] at hc
    repeat' split at hc
    all_goals (cases hc <;> exact .inl (by simp [Call.edges]))

theorem rentry_act_cases (p : Policy) (st : St) (d : Nat) (c : Call) :
    (∃ t, Call.classify d c = .loc t ∧
      (rentry p st d c).1 = (match t with | .ret h => RAct.retain h | _ => RAct.skip)) ∨
    (∃ key, Call.classify d c = .qry key ∧
      (rentry p st d c).1 = .cacheGet
        (match p.get st.tick st.cache key with | some h => some h | none => none)) := by
  unfold rentry
  rw [Call.entry_eq]
  cases hc : Call.classify d c with
  | loc t => exact .inl ⟨t, rfl, by cases t <;> rfl⟩
  | qry key =>
    refine .inr ⟨key, rfl, ?_⟩
    simp only [query]
    cases p.get st.tick st.cache key <;> rfl

theorem rentry_retain {p : Policy} {st : St} {d : Nat} {c : Call} {e : Edge}
    (h : (rentry p st d c).1 = .retain e) : e ∈ c.edges ∨ ∃ b, e = .term b := by
  rcases rentry_act_cases p st d c with ⟨t, hc, ha⟩ | ⟨key, _, ha⟩
  · cases t with
    | ret r => rw [ha] at h; cases h; exact classify_loc_ret hc
    | call | miss | seq1 | seq0 | par | made => rw [ha] at h; cases h
  · rw [ha] at h; cases h

theorem rentry_no_hit (st : St) (d : Nat) (c : Call) (x : Edge) :
    (rentry Policy.none st d c).1 ≠ .cacheGet (some x) := by
  intro h
  rcases rentry_act_cases Policy.none st d c with ⟨t, _, ha⟩ | ⟨key, _, ha⟩
  · rw [ha] at h; cases t <;> cases h
  · rw [ha] at h; simp [Policy.none] at h

theorem fork_ne_ret (d : Nat) (fr : Frame) (c1 c0 : Call) (f : Edge) : fork d fr c1 c0 ≠ .ret f := by
  cases d <;> simp [fork]

theorem expand_ret {s : Store} {d : Nat} {key : Key} {c : Call} {f : Edge}
    (h : c.expand s d key = .ret f) : f ∈ c.edges := by
  cases c with
  | not g =>
    simp only [Call.expand] at h
    split at h
    · cases h; simp [Call.edges]
    · split at h
      · cases h; simp [Call.edges]
      · exact absurd h (fork_ne_ret _ _ _ _ _)
  | bin op g k =>
    simp only [Call.expand] at h
    split at h
    · exact absurd h (fork_ne_ret _ _ _ _ _)
    · cases h; simp [Call.edges]
  | ite g k m =>
    simp only [Call.expand] at h
    split at h
    · exact absurd h (fork_ne_ret _ _ _ _ _)
    · cases h; simp [Call.edges]

theorem rexpand_act (s : Store) (d : Nat) (key : Key) (c : Call) :
    (rexpand s d key c).1 = .skip ∨ ∃ f, (rexpand s d key c).1 = .retain f ∧ f ∈ c.edges := by
  unfold rexpand
  cases he : c.expand s d key with
  | ret f => exact .inr ⟨f, rfl, expand_ret he⟩
  | call | miss | seq1 | seq0 | par | made => exact .inl rfl

theorem rreduce_act (st : St) (fr : Frame) (r1 r0 : Edge) :
    (rreduce st fr r1 r0).1 = .mk fr.lvl r1 r0 := by
  unfold rreduce
  split
  · rfl
  · split <;> rfl

/-- **the edge a task step retains is held by the task** (or a terminal) -/
theorem RTask.step_retain_held (p : Policy) (st : St) : ∀ (t : RTask) (path : List Bool) (e : Edge),
    (t.step p st path).1 = .retain e → e ∈ t.erase.held ∨ ∃ b, e = .term b := by
  intro t
  induction t with
  | ret r => intro path e h; simp [RTask.step] at h
  | call d c =>
    intro path e h
    simp only [RTask.step] at h
    rcases rentry_retain h with h1 | h1
    · exact .inl (by simpa [RTask.erase, Task.held] using h1)
    · exact .inr h1
  | miss d c key =>
    intro path e h
    simp only [RTask.step] at h
    rcases rexpand_act st.store d key c with h1 | ⟨f, h1, hf⟩
    · rw [h1] at h; cases h
    · rw [h1] at h; cases h
      exact .inl (by simp [RTask.erase, Task.held, hf])
  | made key r ds =>
    intro path e h
    cases ds <;> simp [RTask.step] at h
  | seq1 fr c0 t1 ih =>
    intro path e h
    simp only [RTask.step] at h
    split at h
    · cases h
    · rcases ih path e h with h1 | h1
      · exact .inl (by simp [RTask.erase, Task.held, h1])
      · exact .inr h1
  | seq0 fr r1 t0 ih =>
    intro path e h
    simp only [RTask.step] at h
    split at h
    · rw [rreduce_act] at h; cases h
    · rcases ih path e h with h1 | h1
      · exact .inl (by simp [RTask.erase, Task.held, h1])
      · exact .inr h1
  | par fr t1 t0 ih1 ih0 =>
    intro path e h
    simp only [RTask.step] at h
    split at h
    · rw [rreduce_act] at h; cases h
    · split at h
      · rcases ih1 _ e h with h1 | h1
        · exact .inl (by simp [RTask.erase, Task.held, h1])
        · exact .inr h1
      · rcases ih0 _ e h with h1 | h1
        · exact .inl (by simp [RTask.erase, Task.held, h1])
        · exact .inr h1

/-- with the cache locked no task step is a cache hit -/
theorem RTask.step_no_hit (st : St) : ∀ (t : RTask) (path : List Bool) (x : Edge),
    (t.step Policy.none st path).1 ≠ .cacheGet (some x) := by
  intro t
  induction t with
  | ret r => intro path x h; simp [RTask.step] at h
  | call d c => intro path x h; exact rentry_no_hit st d c x h
  | miss d c key =>
    intro path x h
    simp only [RTask.step] at h
    rcases rexpand_act st.store d key c with h1 | ⟨f, h1, _⟩ <;> (rw [h1] at h; cases h)
  | made key r ds => intro path x h; cases ds <;> simp [RTask.step] at h
  | seq1 fr c0 t1 ih =>
    intro path x h
    simp only [RTask.step] at h
    split at h
    · cases h
    · exact ih path x h
  | seq0 fr r1 t0 ih =>
    intro path x h
    simp only [RTask.step] at h
    split at h
    · rw [rreduce_act] at h; cases h
    · exact ih path x h
  | par fr t1 t0 ih1 ih0 =>
    intro path x h
    simp only [RTask.step] at h
    split at h
    · rw [rreduce_act] at h; cases h
    · split at h
      · exact ih1 _ x h
      · exact ih0 _ x h

theorem RThread.step_retain_held (p : Policy) (st : St) (th : RThread) (path : List Bool) (e : Edge)
    (h : (th.step p st path).1 = .retain e) : e ∈ th.erase.held ∨ ∃ b, e = .term b := by
  cases hc : th.cur with
  | some t =>
    cases hr : t.ret? with
    | some r => simp [RThread.step, hc, hr] at h
    | none =>
      simp only [RThread.step, hc, hr] at h
      rcases RTask.step_retain_held p st t path e h with h1 | h1
      · refine .inl ?_
        simp only [Thread.held, RThread.erase, hc, Option.map_some]
        exact List.mem_append.mpr (.inr h1)
      · exact .inr h1
  | none =>
    cases hs : th.script with
    | nil => simp [RThread.step, hc, hs] at h
    | cons c rest =>
      simp only [RThread.step, hc, hs] at h
      cases c with
      | not i => simp [startAct] at h
      | bin op i j => simp [startAct] at h
      | ite i j k => simp [startAct] at h
      | drop i => simp only [startAct] at h; split at h <;> cases h
      | clone i =>
        simp only [startAct] at h
        cases hi : hget th.hs i with
        | none => rw [hi] at h; cases h
        | some f =>
          rw [hi] at h; cases h
          refine .inl ?_
          simp only [Thread.held, RThread.erase, Thread.handles]
          refine List.mem_append.mpr (.inl ?_)
          simp only [List.mem_filterMap, id]
          simp only [hget] at hi
          cases hx : th.hs[i]? with
          | none => rw [hx] at hi; cases hi
          | some o =>
            rw [hx] at hi
            simp only [Option.join_some] at hi
            subst hi
            exact ⟨_, List.mem_of_getElem? hx, rfl⟩

theorem RThread.step_no_hit (st : St) (th : RThread) (path : List Bool) (x : Edge) :
    (th.step Policy.none st path).1 ≠ .cacheGet (some x) := by
  intro h
  cases hc : th.cur with
  | some t =>
    cases hr : t.ret? with
    | some r => simp [RThread.step, hc, hr] at h
    | none =>
      simp only [RThread.step, hc, hr] at h
      exact RTask.step_no_hit st t path x h
  | none =>
    cases hs : th.script with
    | nil => simp [RThread.step, hc, hs] at h
    | cons c rest =>
      simp only [RThread.step, hc, hs] at h
      cases c <;> simp only [startAct] at h <;> (try split at h) <;> cases h

/-! ## held edges are protected -/

/-- every edge a thread holds points to a protected slot: a counted reference or the child of a
stored node -/
theorem held_prot {c : RCfg} {F : Nat → List (Option BDD)} {B : Nat → Nat} (h : RGInv c F B)
    {tid : Nat} {th : RThread} (ht : c.threads[tid]? = some th) {j : Nat}
    (hm : Edge.inner j ∈ th.erase.held) : prot c.rst.st.store c.ext j = true := by
  rw [prot_ext_roots h.pend]
  have hte : c.erase.threads[tid]? = some th.erase := by
    rw [getElem?_erase_threads, ht]; rfl
  have hcov := (h.ginv.2.2 tid th.erase hte).2
  have hsub := owned_sub_roots hte
  have root_ok : Edge.inner j ∈ c.erase.roots → prot c.rst.st.store c.erase.roots j = true := by
    intro hr
    unfold prot
    have : c.erase.roots.contains (.inner j) = true := by simpa using hr
    rw [this]; rfl
  unfold Thread.held at hm
  rcases List.mem_append.mp hm with h1 | h1
  · exact root_ok (hsub _ (handles_sub_owned th.erase _ h1))
  · unfold ThreadCov at hcov
    cases hc : th.erase.cur with
    | none => rw [hc] at h1; cases h1
    | some t =>
      rw [hc] at h1 hcov
      rcases hcov.held _ h1 with h2 | h2
      · refine root_ok (hsub _ ?_)
        unfold Thread.owned
        rw [hc]
        exact List.mem_append.mpr (.inr h2)
      · exact h2.prot (fun e he => hsub e (handles_sub_owned th.erase e he)) j rfl

/-! ## the stability theorem -/

/-- what the sweeper has read: slot `j` holds `n` and only the table refers to it -/
def Seen (r : RSt) (j : Nat) (n : Node) : Prop := r.st.store.get? j = some n ∧ rcGet r.rc j = 1

theorem rcGet_cloneEdge_ne (r : RSt) (e : Edge) (j : Nat) (h : e ≠ .inner j) :
    rcGet (cloneEdge r e).rc j = rcGet r.rc j := by
  cases e with
  | term b => rfl
  | inner i =>
    simp only [cloneEdge, Rc.rcGet_rcSet]
    have : j ≠ i := fun hh => h (by rw [hh])
    simp [this]

theorem rcGet_dropEdge_ne (r : RSt) (e : Edge) (j : Nat) (h : e ≠ .inner j) :
    rcGet (dropEdge r e).rc j = rcGet r.rc j := by
  cases e with
  | term b => rfl
  | inner i =>
    simp only [dropEdge, Rc.rcGet_rcSet]
    have : j ≠ i := fun hh => h (by rw [hh])
    simp [this]

/-- **`seen_stable`**: see the file header. -/
theorem seen_stable {p : Policy} {c : RCfg} {F : Nat → List (Option BDD)} {B : Nat → Nat}
    (h : RGInv c F B) (ha : c.gcActive = true) {j : Nat} {n : Node} (hs : Seen c.rst j n)
    (tid : Nat) (path : List Bool)
    (hmk : ∀ th, c.threads[tid]? = some th → ∀ t e,
      (th.step (effPol p c.gcActive) c.rst.st path).1 = .mk n.level t e → t = e) :
    Seen (c.step p (.thread tid path)).rst j n := by
  obtain ⟨hj, hrc⟩ := hs
  cases ht : c.threads[tid]? with
  | none =>
    have e : c.step p (.thread tid path) = c := by simp [RCfg.step, ht]
    rw [e]; exact ⟨hj, hrc⟩
  | some th =>
    have e : (c.step p (.thread tid path)).rst =
        (th.step (effPol p c.gcActive) c.rst.st path).1.run c.rst := by
      simp [RCfg.step, ht]
    rw [e]
    have hnm := hmk th ht
    have hprot : prot c.rst.st.store c.ext j = false := (rc_one_iff h.rc hj).mp hrc
    have hcnt : c.ext.count (.inner j) = 0 := by
      have := h.rc.rc_eq j n hj; omega
    have hacct := ext_acct_set (l := c.threads) ht
      (RThread.step_acct (effPol p c.gcActive) c.rst.st th path)
    generalize hact : (th.step (effPol p c.gcActive) c.rst.st path).1 = a at hacct hnm
    cases a with
    | skip => exact ⟨hj, hrc⟩
    | cacheAdd q k x => exact ⟨hj, hrc⟩
    | cacheGet hit =>
      cases hit with
      | none => exact ⟨hj, hrc⟩
      | some x =>
        rw [ha] at hact
        exact absurd hact (RThread.step_no_hit c.rst.st th path x)
    | retain x =>
      have hne : x ≠ .inner j := by
        rintro rfl
        rcases RThread.step_retain_held _ _ th path _ hact with h1 | ⟨b, hb⟩
        · rw [held_prot h ht h1] at hprot; cases hprot
        · cases hb
      exact ⟨by simpa [RAct.run] using hj, by
        simp only [RAct.run]; rw [rcGet_cloneEdge_ne _ _ _ hne]; exact hrc⟩
    | release x =>
      have hne : x ≠ .inner j := by
        rintro rfl
        have h1 : [Edge.inner j].count (.inner j) ≤ c.ext.count (.inner j) := (hacct (.inner j)).1
        have h2 : [Edge.inner j].count (.inner j) = 1 := by simp
        rw [h2] at h1
        omega
      exact ⟨by simpa [RAct.run] using hj, by
        simp only [RAct.run]; rw [rcGet_dropEdge_ne _ _ _ hne]; exact hrc⟩
    | mk l t e' =>
      simp only [RAct.run, getOrInsert]
      by_cases hte : t = e'
      · simp only [hte, if_true]; exact ⟨hj, hrc⟩
      · simp only [hte, if_false]
        cases hf : c.rst.st.store.find? ⟨l, t, e'⟩ with
        | some i =>
          have hi := find?_some hf
          have hne : Edge.inner i ≠ .inner j := by
            intro hh
            cases hh
            rw [hj] at hi
            cases hi
            exact hte (hnm t e' rfl)
          exact ⟨by simpa using hj, by
            simp only []; rw [rcGet_cloneEdge_ne _ _ _ hne]; exact hrc⟩
        | none =>
          have hfresh := alloc_fresh c.rst.st.store ⟨l, t, e'⟩
          have hne : j ≠ (c.rst.st.store.alloc ⟨l, t, e'⟩).2 := by
            intro hh; rw [← hh, hj] at hfresh; cases hfresh
          refine ⟨?_, ?_⟩
          · show (c.rst.st.store.alloc ⟨l, t, e'⟩).1.get? j = some n
            rw [get?_alloc, if_neg hne]; exact hj
          · show rcGet (rcSet c.rst.rc _ 2) j = 1
            rw [Rc.rcGet_rcSet, if_neg hne]; exact hrc

end OxiddModel.Bdd.LRThreads
