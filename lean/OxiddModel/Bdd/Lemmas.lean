import OxiddModel.Bdd.Model

/-! Semantics and normal-form lemmas for the BDD tree model. -/
namespace OxiddModel.Bdd
open BDD

/-! ## basic facts -/

theorem BDD.Ordered.mono {n m : Nat} {a : BDD} (h : Ordered n a) (hmn : m ≤ n) : Ordered m a := by
  cases h with
  | leaf => exact .leaf
  | node hv ht he => exact .node (Nat.le_trans hmn hv) ht he

theorem eval_indep {n : Nat} {a : BDD} (h : Ordered n a) (σ τ : Nat → Bool)
    (hστ : ∀ v, n ≤ v → σ v = τ v) : a.eval σ = a.eval τ := by
  induction h with
  | leaf => rfl
  | node hv _ _ iht ihe =>
    simp only [eval]
    rw [hστ _ hv]
    rw [iht (fun w hw => hστ w (by omega)), ihe (fun w hw => hστ w (by omega))]

@[simp] theorem mk_eval (σ : Nat → Bool) (l : Nat) (t e : BDD) :
    (mk l t e).eval σ = if σ l then t.eval σ else e.eval σ := by
  unfold mk
  split
  · rename_i h; subst h; simp
  · simp [eval]

theorem mk_ordered {n l : Nat} {t e : BDD} (hl : n ≤ l) (ht : Ordered (l+1) t) (he : Ordered (l+1) e) :
    Ordered n (mk l t e) := by
  unfold mk
  split
  · exact ht.mono (by omega)
  · exact .node hl ht he

theorem mk_reduced {l : Nat} {t e : BDD} (ht : Reduced t) (he : Reduced e) : Reduced (mk l t e) := by
  unfold mk
  split
  · exact ht
  · rename_i h; exact ⟨h, ht, he⟩

theorem mk_nf {n l : Nat} {t e : BDD} (hl : n ≤ l) (ht : NF (l+1) t) (he : NF (l+1) e) :
    NF n (mk l t e) := ⟨mk_ordered hl ht.1 he.1, mk_reduced ht.2 he.2⟩

/-! ## `apply_not` -/

@[simp] theorem applyNot_eval (σ : Nat → Bool) (f : BDD) : (applyNot f).eval σ = !f.eval σ := by
  induction f with
  | leaf b => simp [applyNot, eval]
  | node l t e iht ihe => simp only [applyNot, mk_eval, eval, iht, ihe]; split <;> rfl

theorem applyNot_ordered {n : Nat} {f : BDD} (h : Ordered n f) : Ordered n (applyNot f) := by
  induction h with
  | leaf => exact .leaf
  | node hl _ _ iht ihe => exact mk_ordered hl iht ihe

theorem applyNot_reduced (f : BDD) : Reduced (applyNot f) := by
  induction f with
  | leaf b => trivial
  | node l t e iht ihe => exact mk_reduced iht ihe

theorem applyNot_nf {n : Nat} {f : BDD} (h : Ordered n f) : NF n (applyNot f) :=
  ⟨applyNot_ordered h, applyNot_reduced f⟩

/-! ## terminal cases -/

/-- what `terminal_bin` promises, per kind of result -/
def Operation.Spec (op : Op) (f g : BDD) : Operation → Prop
  | .done r => ∀ σ, r.eval σ = op.sem (f.eval σ) (g.eval σ)
  | .notOf h => (h = f ∨ h = g) ∧ ∀ σ, (!h.eval σ) = op.sem (f.eval σ) (g.eval σ)
  | .binary op' f' g' => op' = op ∧ f' = f ∧ g' = g ∧ f.isLeaf = false ∧ g.isLeaf = false

/-- the result of `terminal_bin` is one of the operands, a constant, or a request -/
def Operation.Shape (f g : BDD) : Operation → Prop
  | .done r => r = f ∨ r = g ∨ ∃ b, r = .leaf b
  | .notOf h => h = f ∨ h = g
  | .binary .. => True

/-- every arm of `terminal_bin` agrees with the propositional connective -/
theorem terminalBin_spec (op : Op) (f g : BDD) : (terminalBin op f g).Spec op f g := by
  cases op <;> simp only [terminalBin] <;>
    (by_cases hfg : f = g
     · subst hfg; simp [Operation.Spec, Op.sem, eval]
     · simp only [hfg, if_false]
       cases f with
       | leaf a =>
         cases g with
         | leaf b => cases a <;> cases b <;> simp_all [Operation.Spec, Op.sem, eval]
         | node lg gt ge => cases a <;> simp [Operation.Spec, Op.sem, eval]
       | node lf ft fe =>
         cases g with
         | leaf b => cases b <;> simp [Operation.Spec, Op.sem, eval]
         | node lg gt ge => simp [Operation.Spec, isLeaf])

theorem terminalBin_shape (op : Op) (f g : BDD) : (terminalBin op f g).Shape f g := by
  cases op <;> simp only [terminalBin] <;>
    (by_cases hfg : f = g
     · subst hfg; simp [Operation.Shape]
     · simp only [hfg, if_false]
       cases f with
       | leaf a =>
         cases g with
         | leaf b => cases a <;> cases b <;> simp_all [Operation.Shape]
         | node lg gt ge => cases a <;> simp [Operation.Shape]
       | node lf ft fe =>
         cases g with
         | leaf b => cases b <;> simp [Operation.Shape]
         | node lg gt ge => simp [Operation.Shape])

/-- every `Done`/`Not` arm of `terminal_bin` agrees with the propositional connective -/
theorem terminalCase_sound (op : Op) (f g r : BDD) (h : terminalCase op f g = some r)
    (σ : Nat → Bool) : r.eval σ = op.sem (f.eval σ) (g.eval σ) := by
  have hs := terminalBin_spec op f g
  unfold terminalCase at h
  cases hb : terminalBin op f g with
  | done r' => rw [hb] at h hs; simp at h; subst h; exact hs σ
  | notOf h' => rw [hb] at h hs; simp at h; subst h; rw [applyNot_eval]; exact hs.2 σ
  | binary => rw [hb] at h; simp at h

/-- `Binary` is returned exactly for two inner nodes -/
theorem terminalCase_none (op : Op) (f g : BDD) (h : terminalCase op f g = none) :
    (∃ lf ft fe, f = .node lf ft fe) ∧ (∃ lg gt ge, g = .node lg gt ge) := by
  have hs := terminalBin_spec op f g
  unfold terminalCase at h
  cases hb : terminalBin op f g with
  | done r' => rw [hb] at h; simp at h
  | notOf h' => rw [hb] at h; simp at h
  | binary op' f' g' =>
    rw [hb] at hs
    obtain ⟨_, _, _, hf, hg⟩ := hs
    cases f <;> cases g <;> simp_all [isLeaf]

theorem terminalCase_ordered (op : Op) (f g r : BDD) (n : Nat) (h : terminalCase op f g = some r)
    (hf : Ordered n f) (hg : Ordered n g) : Ordered n r := by
  have hs := terminalBin_shape op f g
  unfold terminalCase at h
  cases hb : terminalBin op f g with
  | done r' =>
    rw [hb] at h hs; simp at h; subst h
    rcases hs with h | h | ⟨b, h⟩ <;> subst h
    · exact hf
    · exact hg
    · exact .leaf
  | notOf h' =>
    rw [hb] at h hs; simp at h; subst h
    rcases hs with h | h <;> subst h
    · exact applyNot_ordered hf
    · exact applyNot_ordered hg
  | binary => rw [hb] at h; simp at h

theorem terminalCase_reduced (op : Op) (f g r : BDD) (h : terminalCase op f g = some r)
    (hf : Reduced f) (hg : Reduced g) : Reduced r := by
  have hs := terminalBin_shape op f g
  unfold terminalCase at h
  cases hb : terminalBin op f g with
  | done r' =>
    rw [hb] at h hs; simp at h; subst h
    rcases hs with h | h | ⟨b, h⟩ <;> subst h
    · exact hf
    · exact hg
    · trivial
  | notOf h' =>
    rw [hb] at h; simp at h; subst h
    exact applyNot_reduced _
  | binary => rw [hb] at h; simp at h

/-! ## cofactor selection -/

/-- the cofactor `apply_bin` selects for an operand at level `lf` when expanding at level `l ≤ lf` -/
theorem cof_eval_true (σ : Nat → Bool) (l lf : Nat) (ft fe : BDD)
    (hσ : σ l = true) :
    (if lf = l then ft else BDD.node lf ft fe).eval σ = (BDD.node lf ft fe).eval σ := by
  split
  · rename_i h; subst h; simp [eval, hσ]
  · rfl

theorem cof_eval_false (σ : Nat → Bool) (l lf : Nat) (ft fe : BDD)
    (hσ : σ l = false) :
    (if lf = l then fe else BDD.node lf ft fe).eval σ = (BDD.node lf ft fe).eval σ := by
  split
  · rename_i h; subst h; simp [eval, hσ]
  · rfl

theorem cof_ordered_t {n l lf : Nat} {ft fe : BDD} (hl : l ≤ lf) (ho : Ordered n (.node lf ft fe)) :
    Ordered (l+1) (if lf = l then ft else BDD.node lf ft fe) := by
  cases ho with
  | node hn ht he =>
    split
    · rename_i h; subst h; exact ht
    · exact .node (by omega) ht he

theorem cof_ordered_e {n l lf : Nat} {ft fe : BDD} (hl : l ≤ lf) (ho : Ordered n (.node lf ft fe)) :
    Ordered (l+1) (if lf = l then fe else BDD.node lf ft fe) := by
  cases ho with
  | node hn ht he =>
    split
    · rename_i h; subst h; exact he
    · exact .node (by omega) ht he

theorem cof_reduced_t {l lf : Nat} {ft fe : BDD} (hr : Reduced (.node lf ft fe)) :
    Reduced (if lf = l then ft else BDD.node lf ft fe) := by
  split
  · exact hr.2.1
  · exact hr

theorem cof_reduced_e {l lf : Nat} {ft fe : BDD} (hr : Reduced (.node lf ft fe)) :
    Reduced (if lf = l then fe else BDD.node lf ft fe) := by
  split
  · exact hr.2.2
  · exact hr

end OxiddModel.Bdd
