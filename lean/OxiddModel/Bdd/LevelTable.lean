import OxiddModel.Bdd.LevelTableSet
import OxiddModel.Bdd.AllocS

/-!
# The per-level unique table of the index manager on top of `RawTable` (model)

Source modelled: `/repo/crates/oxidd-manager-index/src/manager.rs`, `struct LevelViewSet` and
`impl LevelView for LevelView` (`get`, `get_or_insert`, `insert`, `remove`, `gc`), the level loop
of `Manager::gc`, `hash_node`; `/repo/crates/oxidd-manager-index/src/node/fixed_arity.rs`
(`impl Hash`/`impl PartialEq for NodeWithLevel`: **children only**, the level is not hashed and
not compared — each level has its own table); `reduce` of `oxidd-rules-bdd/src/simple/mod.rs`.

`LStore` = the node slot array of `Bdd/StoreRefine.lean` (`Store`) **plus** one
`HashTbl.Tbl` (the slot-for-slot model of `linear_hashtbl::raw::RawTable`, property C17) per
level.  The elements of a table are node ids; the hash passed for an id is
`h (children of nodes[id])` for an **arbitrary** `h : Edge → Edge → Nat` (`FxHasher` in the code;
nothing about it is used, total collisions included); the equality closure is "the node at this
id has these children" (`LevelViewSet::eq`).

Only the closure-taking probe functions come from `LevelTableProbe.lean`; `reserve`, rehash,
`insertInSlot`, `removeAtSlot`, `retain` are the `HashTbl` definitions (capacity rules,
tombstones, shrinking included).

Control flow mirrored from the Rust code:

* `get_or_insert`: `hash_node`, then `find_or_find_insert_slot` — which calls `reserve(1)`
  **before** probing, so the reported insert slot refers to the (possibly rehashed) table that is
  then written; on `Ok(slot)` the new node is dropped and the stored edge is cloned (the table may
  still have been rehashed); on `Err(slot)` first `insert(node)?` = `Store::add_node` (may fail
  with out-of-memory *after* the reserve; the slot array, not the table, is written), then
  `insert_in_slot_unchecked(hash, slot, e1)`.
* `gc`: `retain(|edge| rc != 1, |edge| free_slot(edge))`.  Reference counts are not part of
  `Store`; the predicate is a parameter `keep : id → Bool`.  (In the code it is read while the scan
  runs and `free_slot` decrements the counts of the dropped node's children; those live on other
  levels — `Ordered` — so the predicate on *this* table's ids is not affected by the drops of the
  same `retain` call.  This is the one place where the model is coarser than the code.)

Out-of-range level numbers index `self.unique_table[level]` out of bounds: `Err.panic`.
-/
namespace OxiddModel.Bdd.LevelTable
open OxiddModel.HashTbl OxiddModel.HashTbl.Tbl OxiddModel.Bdd.Refine

/-- slot array + one `RawTable` of ids per level -/
structure LStore where
  nodes : Array (Option Node)
  tables : Array Tbl
  deriving Repr

/-- forget the tables: the abstract store of `StoreRefine.lean` -/
def LStore.abs (s : LStore) : Store := ⟨s.nodes⟩

/-- the table of level `l` (an absent level has no table: reads as the empty one) -/
def LStore.tbl (s : LStore) (l : Nat) : Tbl := (s.tables[l]?).getD Tbl.new

def LStore.setTbl (s : LStore) (l : Nat) (t : Tbl) : LStore :=
  { s with tables := s.tables.setIfInBounds l t }

/-- `Manager::new` + `add_vars(n)`: no nodes, `n` empty level tables -/
def LStore.empty (n : Nat) : LStore := ⟨#[], Array.replicate n Tbl.new⟩

/-- `hash_node`: a function of the children only -/
abbrev Hash := Edge → Edge → Nat

/-- the children of the node at `id` -/
def kidsAt (nodes : Array (Option Node)) (id : Nat) : Option (Edge × Edge) :=
  ((nodes[id]?).join).map fun n => (n.t, n.e)

/-- what the level tables are keyed by: ids by the children of their nodes -/
def keyed (h : Hash) (nodes : Array (Option Node)) : Keyed (Edge × Edge) :=
  ⟨fun k => h k.1 k.2, kidsAt nodes⟩

/-- `LevelViewSet::eq(nodes, node)`: `|edge| nodes.inner_node_unchecked(edge) == node`
(on an id whose slot is empty the real closure reads a freed slot; `LInv` excludes that) -/
def eqc (nodes : Array (Option Node)) (t e : Edge) (id : Nat) : Bool :=
  match (nodes[id]?).join with
  | some n => n.t == t && n.e == e
  | none => false

/-- `Store::add_node`: the id of a free slot, or `none` = `Err(OutOfMemory)` -/
abbrev Add := Store → Node → Option Nat

/-- `LevelView::get` / `LevelViewSet::get` -/
def find (h : Hash) (s : LStore) (level : Nat) (t e : Edge) : Except Err (Option Nat) :=
  if s.tables.size ≤ level then .error .panic
  else getP (s.tbl level) (h t e) (eqc s.nodes t e)

/-- `LevelView::get_or_insert` / `LevelViewSet::get_or_insert`; `none` = `Err(OutOfMemory)` -/
def getOrInsert (h : Hash) (add : Add) (s : LStore) (level : Nat) (t e : Edge) :
    Except Err (LStore × Option Edge) :=
  if s.tables.size ≤ level then .error .panic
  else
    let hash := h t e
    match findOrFindInsertSlotP (s.tbl level) hash (eqc s.nodes t e) with
    | .error err => .error err
    | .ok (tb, .found slot) =>
      -- `drop(node)`; `nodes.clone_edge_unchecked(self.0.get_at_slot_unchecked(slot))`
      match tb.get slot with
      | .occ _ id => .ok (s.setTbl level tb, some (.inner id))
      | _ => .error .panic               -- debug_assert!(…is_hash(), "slot is empty")
    | .ok (tb, .vacant slot) =>
      match add s.abs ⟨level, t, e⟩ with
      | none => .ok (s.setTbl level tb, none)          -- `insert(node)?`
      | some a =>
        match tb.insertInSlot hash slot a with
        | .error err => .error err
        | .ok tb' =>
          .ok (⟨(s.abs.put a ⟨level, t, e⟩).nodes, s.tables.setIfInBounds level tb'⟩, some (.inner a))
    | .ok (_, .diverge) => .error .diverge

/-- `reduce` (`oxidd-rules-bdd/src/simple/mod.rs`): `if t == e { return t }`, else
`level.get_or_insert(node)` -/
def mkNode (h : Hash) (add : Add) (s : LStore) (level : Nat) (t e : Edge) :
    Except Err (LStore × Option Edge) :=
  if t = e then .ok (s, some t) else getOrInsert h add s level t e

/-- `LevelView::insert(edge)` / `LevelViewSet::insert`: file an existing node (the reordering code
re-inserts nodes whose children it has rewritten).  `true` = inserted, `false` = an equal node
is already there (the edge is released). -/
def insertEdge (h : Hash) (s : LStore) (level : Nat) (id : Nat) : Except Err (LStore × Bool) :=
  if s.tables.size ≤ level then .error .panic
  else
    match s.abs.get? id with
    | none => .error .panic              -- `nodes.inner_node(&edge)` on a free slot
    | some n =>
      let hash := h n.t n.e
      match findOrFindInsertSlotP (s.tbl level) hash (eqc s.nodes n.t n.e) with
      | .error err => .error err
      | .ok (tb, .found _) => .ok (s.setTbl level tb, false)
      | .ok (tb, .vacant slot) =>
        match tb.insertInSlot hash slot id with
        | .error err => .error err
        | .ok tb' => .ok (s.setTbl level tb', true)
      | .ok (_, .diverge) => .error .diverge

/-- `LevelViewSet::remove(nodes, node)`: take the entry with these children out of the table
(the slot array is not touched; `drop_unique_table_edge` is the caller's business) -/
def removeNode (h : Hash) (s : LStore) (level : Nat) (t e : Edge) : Except Err (LStore × Option Nat) :=
  if s.tables.size ≤ level then .error .panic
  else
    match removeP (s.tbl level) (h t e) (eqc s.nodes t e) with
    | .error err => .error err
    | .ok (tb, r) => .ok (s.setTbl level tb, r)

/-- `Store::free_slot` for every dropped id, in call order -/
def freeSlots (nodes : Array (Option Node)) (dropped : List Nat) : Array (Option Node) :=
  dropped.foldl (fun ns id => ns.setIfInBounds id none) nodes

/-- one iteration of `for level in &self.unique_table { … level.gc(store) … }` in `Manager::gc`:
`self.0.retain(|edge| rc(edge) != 1, |edge| store.free_slot(edge))` -/
def gcLevel (s : LStore) (level : Nat) (keep : Nat → Bool) : Except Err LStore :=
  if s.tables.size ≤ level then .error .panic
  else
    match (s.tbl level).retain keep with
    | .error err => .error err
    | .ok (tb, dropped) =>
      .ok ⟨freeSlots s.nodes dropped, s.tables.setIfInBounds level tb⟩

/-- `InnerNode::set_child` twice: rewrite the children of a stored node **in place**
(`level_swap` does this to the nodes of the old upper level) -/
def setChildren (s : LStore) (id : Nat) (t e : Edge) : LStore :=
  match s.abs.get? id with
  | some n => { s with nodes := s.nodes.setIfInBounds id (some { n with t := t, e := e }) }
  | none => s

/-! ## the abstract operations on `Store` that the above refine -/

/-- the unique-table part of `Store.mkNode`/`mkNodeA`/`mkNodeC` (everything after the reduction
rule): linear-search lookup, else allocate through `add` -/
def lookupOrAlloc (add : Add) (s : Store) (level : Nat) (t e : Edge) : Store × Option Edge :=
  match s.find? ⟨level, t, e⟩ with
  | some i => (s, some (.inner i))
  | none =>
    match add s ⟨level, t, e⟩ with
    | some a => (s.put a ⟨level, t, e⟩, some (.inner a))
    | none => (s, none)

/-- abstract level pass of the collector: every node of level `l` that `keep` rejects goes -/
def gcLevelA (s : Store) (l : Nat) (keep : Nat → Bool) : Store :=
  ⟨s.nodes.mapIdx fun i o =>
    match o with
    | some n => if n.level = l ∧ keep i = false then none else some n
    | none => none⟩

/-- the allocator returns free slots -/
def AddOK (add : Add) : Prop := ∀ (s : Store) (n : Node) (a : Nat), add s n = some a → s.get? a = none

/-! ## the invariant -/

/-- `LInv h s`:
* every level table is a keyed set (`KInv`): the C17 invariant `HashTbl.Inv` with
  "stored status = `from_hash(h (current children of the node))`", and no two ids in one table have
  equal children;
* the ids stored in the table of level `l` are exactly the ids of the live nodes of level `l`
  (so every live node's level has a table). -/
structure LInv (h : Hash) (s : LStore) : Prop where
  tbl : ∀ l, KInv (keyed h s.nodes) (s.tbl l)
  mem : ∀ l id, (s.tbl l).Mem id ↔ ∃ n, s.abs.get? id = some n ∧ n.level = l

end OxiddModel.Bdd.LevelTable
