import OxiddModel.Util.Proto
import OxiddModel.Bdd.LevelTable

/-!
Line-protocol driver `leveltbl`: the `LStore` model (slot array + one `HashTbl.Tbl` per level,
real capacity rules, tombstones, rehash) driven through the functions the theorems of
`PropertiesLevelTable.lean` are about (`mkNode`, `find`, `gcLevel`).  The harness side is
`/verif/harness/src/bin/c01_leveltbl.rs`: the same lines on a real `oxidd::bdd` manager through
`LevelView::get_or_insert` / `get` / `Manager::gc`.

Lines (handles are numbered in creation order; an operand is `T`, `F` or a handle number):

* `init <levels> <hm>` — fresh manager; `hm` selects the model's hash function (0: all nodes
  collide, 1: weak mixing, else: multiplicative) — the real side ignores it, the outputs must not
  depend on it.  → `ok`
* `mk <level> <t> <e>` — `reduce(level, t, e)`, the result becomes the next handle.
  → `e <rel> <len>`: `rel` = `T`/`F` or the smallest live handle number holding the same edge,
  `len` = `level(level).len()` afterwards.
* `find <level> <t> <e>` — `level(level).get(node)`. → `none` | `e <rel>` (`-`: no live handle)
* `drop <k>` → `ok`
* `gc` — `Manager::gc`: the level loop top-down, `keep id` = "referenced by a handle or by a
  stored node" evaluated right before each level's pass. → `gc <collected> <len0> <len1> …`
* `lens` → `lens <len0> <len1> …`

Node ids are never printed (the model allocates first-free, the real store uses free lists).
-/
namespace OxiddModel.Bdd.LevelTable.Driver
open OxiddModel.HashTbl OxiddModel.Bdd.Refine OxiddModel.Bdd.LevelTable

structure St where
  s : LStore
  hs : Array (Option Edge)
  hm : Nat
  ready : Bool
  dead : Bool

def St.init : St := { s := LStore.empty 0, hs := #[], hm := 0, ready := false, dead := false }

def code : Edge → Nat
  | .term false => 0
  | .term true => 1
  | .inner i => i + 2

def hashOf : Nat → Hash
  | 0 => fun _ _ => 5
  | 1 => fun t e => code t + 3 * code e
  | _ => fun t e => ((code t * 31 + code e) * 2654435761) % 18446744073709551616

def errLine : Err → String
  | .capacity => "PANIC"
  | .panic => "PANIC"
  | .diverge => "DIVERGE"

def operand (st : St) (w : String) : Option Edge :=
  if w = "T" then some (.term true)
  else if w = "F" then some (.term false)
  else match w.toNat? with
    | some k => (st.hs[k]?).join
    | none => none

/-- `T`/`F`, or the smallest live handle number holding `e` -/
def rel (hs : Array (Option Edge)) (e : Edge) : String :=
  match e with
  | .term true => "T"
  | .term false => "F"
  | _ =>
    match hs.findIdx? (· == some e) with
    | some k => toString k
    | none => "-"

def lens (s : LStore) : List String :=
  (List.range s.tables.size).map fun l => toString (s.tbl l).len

/-- reference counts without the table's own reference: handles + stored parent edges -/
def rcArr (st : St) : Array Nat :=
  let bump (a : Array Nat) (e : Edge) : Array Nat :=
    match e with
    | .inner i => a.modify i (· + 1)
    | .term _ => a
  let a0 := Array.replicate st.s.nodes.size 0
  let a1 := st.hs.foldl (fun a o => match o with | some e => bump a e | none => a) a0
  st.s.nodes.foldl (fun a o => match o with | some n => bump (bump a n.t) n.e | none => a) a1

/-- the level loop of `Manager::gc` -/
def gcAll (st : St) : Nat → Nat → Except Err St
  | 0, _ => .ok st
  | fuel + 1, l =>
    if st.s.tables.size ≤ l then .ok st
    else
      let rc := rcArr st
      match gcLevel st.s l (fun id => (rc[id]?).getD 0 != 0) with
      | .error e => .error e
      | .ok s' => gcAll { st with s := s' } fuel (l + 1)

def totalLen (s : LStore) : Nat :=
  (List.range s.tables.size).foldl (fun a l => a + (s.tbl l).len) 0

def stepWords (st : St) : List String → St × String
  | ["init", n, hm] =>
    match n.toNat?, hm.toNat? with
    | some n, some hm =>
      if n = 0 ∨ n > 64 then (st, "bad-op")
      else ({ s := LStore.empty n, hs := #[], hm := hm, ready := true, dead := false }, "ok")
    | _, _ => (st, "bad-op")
  | ["mk", l, t, e] =>
    if !st.ready then (st, "bad-op") else
    match l.toNat?, operand st t, operand st e with
    | some l, some t, some e =>
      if st.s.tables.size ≤ l then (st, "bad-op") else
      match mkNode (hashOf st.hm) (fun s n => some (firstFree s n)) st.s l t e with
      | .error err => ({ st with dead := true }, errLine err)
      | .ok (s', none) => ({ st with s := s' }, "oom")
      | .ok (s', some r) =>
        let hs := st.hs.push (some r)
        ({ st with s := s', hs := hs }, joinSp ["e", rel hs r, toString (s'.tbl l).len])
    | _, _, _ => (st, "bad-op")
  | ["find", l, t, e] =>
    if !st.ready then (st, "bad-op") else
    match l.toNat?, operand st t, operand st e with
    | some l, some t, some e =>
      if st.s.tables.size ≤ l then (st, "bad-op") else
      match find (hashOf st.hm) st.s l t e with
      | .error err => ({ st with dead := true }, errLine err)
      | .ok none => (st, "none")
      | .ok (some id) => (st, joinSp ["e", rel st.hs (.inner id)])
    | _, _, _ => (st, "bad-op")
  | ["drop", k] =>
    match k.toNat? with
    | some k =>
      match (st.hs[k]?).join with
      | some _ => ({ st with hs := st.hs.setIfInBounds k none }, "ok")
      | none => (st, "bad-op")
    | none => (st, "bad-op")
  | ["gc"] =>
    if !st.ready then (st, "bad-op") else
    match gcAll st st.s.tables.size 0 with
    | .error err => ({ st with dead := true }, errLine err)
    | .ok st' =>
      (st', joinSp (["gc", toString (totalLen st.s - totalLen st'.s)] ++ lens st'.s))
  | ["lens"] => if !st.ready then (st, "bad-op") else (st, joinSp ("lens" :: lens st.s))
  | _ => (st, "bad-op")

def step (st : St) (line : String) : St × String :=
  if st.dead then (st, "DEAD") else stepWords st (words line)

def proto : Proto := { σ := St, init := St.init, step := step }

end OxiddModel.Bdd.LevelTable.Driver
