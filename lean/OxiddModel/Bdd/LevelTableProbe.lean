import OxiddModel.HashTbl.Properties

/-!
# The probe loops of `RawTable` with the caller's equality closure

`/repo/crates/linear-hashtbl/src/raw.rs`: `find`, `find_or_find_insert_slot`, `get` and
`remove_entry` take `eq: impl Fn(&T) -> bool`.  The `HashTbl` model (`HashTbl/Model.lean`) fixes
the closure to `|k| *k == key` (that is how the `tbl` scenario and most users call it).  The unique
table of the index manager (`LevelViewSet`, `oxidd-manager-index/src/manager.rs`) passes a
*different* closure: "the node stored at this id has the same children as the node I look for".

This file states the four functions with the closure as a parameter (`…P`; same branches, same
order — the only change against `HashTbl.Tbl.findLoop`/`fofLoop` is `eq k` in place of `k = key`)
and proves the two facts that let every C17 theorem be reused without re-proving anything about
probing:

* `findLoop_eq_P` / `fofLoop_eq_P`: the `HashTbl` loops *are* the closure loops at `(· == key)`;
* `findP_congr` / `fofP_congr` / `removeP_congr`: a closure that agrees with `(· == key)` on the
  elements **stored in the table** (the closure is only ever called on those) gives the same
  result as the `HashTbl` function for `key` — for any hash value.

Nothing else about the table is modelled here: `reserve`, `insertInSlot`, `removeAtSlot`,
`retain` … are the `HashTbl` definitions.
-/
namespace OxiddModel.Bdd.LevelTable
open OxiddModel.HashTbl OxiddModel.HashTbl.Tbl

/-- the probe loop of `RawTable::find` with the closure `eq` -/
def findLoopP (t : Tbl) (hs : Nat) (eq : Nat → Bool) : Nat → Nat → FindRes
  | 0, _ => .diverge
  | fuel + 1, i =>
    match t.get i with
    | .occ st k =>
      if st = hs then
        if eq k then .found i else findLoopP t hs eq fuel (nextIdx t.cap i)
      else findLoopP t hs eq fuel (nextIdx t.cap i)
    | .free => .absent
    | .tomb => findLoopP t hs eq fuel (nextIdx t.cap i)

/-- `RawTable::find(hash, eq)` -/
def findP (t : Tbl) (h : Nat) (eq : Nat → Bool) : Except Err (Option Nat) :=
  if t.len = 0 then .ok none
  else if t.free = 0 then .error .panic       -- debug_assert_ne!(self.free, 0, "find may diverge")
  else if t.cap = 0 then .error .panic        -- debug_assert!(self.data.len().is_power_of_two())
  else
    match findLoopP t (fromHash h) eq t.cap (h &&& (t.cap - 1)) with
    | .found i => .ok (some i)
    | .absent => .ok none
    | .diverge => .error .diverge

/-- the probe loop of `RawTable::find_or_find_insert_slot` with the closure `eq` -/
def fofLoopP (t : Tbl) (hs : Nat) (eq : Nat → Bool) : Nat → Nat → Option Nat → SlotRes
  | 0, _, _ => .diverge
  | fuel + 1, i, ft =>
    match t.get i with
    | .occ st k =>
      if st = hs then
        if eq k then .found i else fofLoopP t hs eq fuel (nextIdx t.cap i) ft
      else fofLoopP t hs eq fuel (nextIdx t.cap i) ft
    | .free => .vacant (ft.getD i)
    | .tomb => fofLoopP t hs eq fuel (nextIdx t.cap i) (if ft.isNone then some i else ft)

/-- `RawTable::find_or_find_insert_slot(hash, eq)`: `reserve(1)` first (this may rehash), then
the probe -/
def findOrFindInsertSlotP (t : Tbl) (h : Nat) (eq : Nat → Bool) : Except Err (Tbl × SlotRes) :=
  match reserve t 1 with
  | .error e => .error e
  | .ok t =>
    if t.cap = 0 then .error .panic
    else
      match fofLoopP t (fromHash h) eq t.cap (h &&& (t.cap - 1)) none with
      | .diverge => .error .diverge
      | r => .ok (t, r)

/-- `RawTable::get(hash, eq)`: the stored element -/
def getP (t : Tbl) (h : Nat) (eq : Nat → Bool) : Except Err (Option Nat) :=
  match findP t h eq with
  | .error e => .error e
  | .ok none => .ok none
  | .ok (some i) => .ok (t.get i).key?

/-- `RawTable::remove_entry(hash, eq)`: the removed element -/
def removeP (t : Tbl) (h : Nat) (eq : Nat → Bool) : Except Err (Tbl × Option Nat) :=
  match findP t h eq with
  | .error e => .error e
  | .ok none => .ok (t, none)
  | .ok (some i) =>
    match removeAtSlot t i with
    | .error e => .error e
    | .ok t' => .ok (t', (t.get i).key?)

/-! ## the `HashTbl` loops are the instances at `(· == key)` -/

theorem findLoop_eq_P (t : Tbl) (hs key : Nat) : ∀ fuel i,
    findLoop t hs key fuel i = findLoopP t hs (fun k => k == key) fuel i := by
  intro fuel
  induction fuel with
  | zero => intro i; rfl
  | succ fuel ih =>
    intro i
    simp only [findLoop, findLoopP, beq_iff_eq, ih]
    rfl

theorem fofLoop_eq_P (t : Tbl) (hs key : Nat) : ∀ fuel i ft,
    fofLoop t hs key fuel i ft = fofLoopP t hs (fun k => k == key) fuel i ft := by
  intro fuel
  induction fuel with
  | zero => intro i ft; rfl
  | succ fuel ih =>
    intro i ft
    simp only [fofLoop, fofLoopP, beq_iff_eq, ih]
    rfl

theorem find_eq_P (t : Tbl) (h key : Nat) : t.find h key = findP t h (fun k => k == key) := by
  simp only [find, findP, findLoop_eq_P]
  rfl

theorem findOrFindInsertSlot_eq_P (t : Tbl) (h key : Nat) :
    t.findOrFindInsertSlot h key = findOrFindInsertSlotP t h (fun k => k == key) := by
  simp only [findOrFindInsertSlot, findOrFindInsertSlotP, fofLoop_eq_P]
  rfl

/-! ## congruence: only the closure's values on stored elements matter -/

theorem findLoopP_congr (t : Tbl) (hs : Nat) {eq eq' : Nat → Bool}
    (h : ∀ i k, t.get i = .occ hs k → eq k = eq' k) : ∀ fuel i,
    findLoopP t hs eq fuel i = findLoopP t hs eq' fuel i := by
  intro fuel
  induction fuel with
  | zero => intro i; rfl
  | succ fuel ih =>
    intro i
    simp only [findLoopP]
    cases hg : t.get i with
    | free => rfl
    | tomb => exact ih _
    | occ st k =>
      simp only
      by_cases hst : st = hs
      · subst hst
        simp only [if_true, h i k hg, ih]
      · simp only [hst, if_false, ih]

theorem fofLoopP_congr (t : Tbl) (hs : Nat) {eq eq' : Nat → Bool}
    (h : ∀ i k, t.get i = .occ hs k → eq k = eq' k) : ∀ fuel i ft,
    fofLoopP t hs eq fuel i ft = fofLoopP t hs eq' fuel i ft := by
  intro fuel
  induction fuel with
  | zero => intro i ft; rfl
  | succ fuel ih =>
    intro i ft
    simp only [fofLoopP]
    cases hg : t.get i with
    | free => rfl
    | tomb => exact ih _ _
    | occ st k =>
      simp only
      by_cases hst : st = hs
      · subst hst
        simp only [if_true, h i k hg, ih]
      · simp only [hst, if_false, ih]

/-- `find` with a closure that, on the stored elements, says "is this `key`" is `find … key` -/
theorem findP_congr (t : Tbl) (h key : Nat) {eq : Nat → Bool}
    (hag : ∀ x, t.Mem x → eq x = decide (x = key)) : findP t h eq = t.find h key := by
  rw [find_eq_P]
  simp only [findP]
  rw [findLoopP_congr t (fromHash h) (eq := eq) (eq' := fun k => k == key)]
  intro i k hg
  rw [hag k ⟨i, _, hg⟩]
  by_cases hk : k = key <;> simp [hk]

/-- the same for `find_or_find_insert_slot`; the agreement is needed on the table *after*
`reserve(1)` (whose elements are those of the table before, see `fofP_congr`) -/
theorem fofP_congr' (t : Tbl) (h key : Nat) {eq : Nat → Bool}
    (hag : ∀ t1, t.reserve 1 = .ok t1 → ∀ x, t1.Mem x → eq x = decide (x = key)) :
    findOrFindInsertSlotP t h eq = t.findOrFindInsertSlot h key := by
  rw [findOrFindInsertSlot_eq_P]
  simp only [findOrFindInsertSlotP]
  cases hr : t.reserve 1 with
  | error e => rfl
  | ok t1 =>
    simp only
    rw [fofLoopP_congr t1 (fromHash h) (eq := eq) (eq' := fun k => k == key)]
    intro i k hg
    rw [hag t1 hr k ⟨i, _, hg⟩]
    by_cases hk : k = key <;> simp [hk]

theorem fofP_congr {hf : Nat → Nat} {t : Tbl} (hinv : Inv hf t) (h key : Nat) {eq : Nat → Bool}
    (hag : ∀ x, t.Mem x → eq x = decide (x = key)) :
    findOrFindInsertSlotP t h eq = t.findOrFindInsertSlot h key := by
  apply fofP_congr'
  intro t1 hr x hx
  rcases reserve_spec hinv 1 with ⟨t', h1, _, h3, _⟩ | ⟨h1, _⟩
  · rw [h1] at hr; cases hr
    exact hag x ((h3 x).1 hx)
  · rw [h1] at hr; cases hr

/-- `remove_entry` with such a closure is `remove_entry … key`; the element handed back is `key` -/
theorem removeP_congr {hf : Nat → Nat} {t : Tbl} (hinv : Inv hf t) (key : Nat) {eq : Nat → Bool}
    (hag : ∀ x, t.Mem x → eq x = decide (x = key)) :
    removeP t (hf key) eq =
      (t.remove key (hf key)).map (fun r => (r.1, if r.2 then some key else none)) := by
  unfold removeP Tbl.remove
  rw [findP_congr t (hf key) key hag]
  rcases find_spec' hinv key with ⟨i, h1, h2⟩ | ⟨h1, _⟩
  · rw [h1]
    simp only [h2, Slot.key?]
    cases removeAtSlot t i <;> rfl
  · rw [h1]; rfl

end OxiddModel.Bdd.LevelTable
