import OxiddModel.Bdd.LevelTable

/-!
# The level tables refine the abstract store (proofs)

`LInv` is preserved by `getOrInsert`, `mkNode`, `gcLevel`, `insertEdge`, `removeNode`; under it the
hashed operations compute what the linear-search operations of `StoreRefine.lean` compute, and
`abs` commutes.  The table-level reasoning is entirely in `LevelTableSet.lean` (keyed sets, from
the C17 theorems); this file is the bookkeeping between the slot array and the tables.
-/
namespace OxiddModel.Bdd.LevelTable
open OxiddModel.HashTbl OxiddModel.HashTbl.Tbl OxiddModel.Bdd.Refine

/-! ## small facts -/

theorem getD_setIfInBounds (ts : Array Tbl) (l l' : Nat) (t : Tbl) (hl : l < ts.size) :
    ((ts.setIfInBounds l t)[l']?).getD Tbl.new = if l' = l then t else (ts[l']?).getD Tbl.new := by
  rw [Array.getElem?_setIfInBounds]
  by_cases h : l = l'
  · subst h; simp [hl]
  · have h' : ¬ l' = l := fun h' => h h'.symm
    simp [h, h']

theorem tbl_setTbl (s : LStore) (l l' : Nat) (t : Tbl) (hl : l < s.tables.size) :
    (s.setTbl l t).tbl l' = if l' = l then t else s.tbl l' :=
  getD_setIfInBounds s.tables l l' t hl

theorem tbl_mk (nodes : Array (Option Node)) (s : LStore) (l l' : Nat) (t : Tbl) (hl : l < s.tables.size) :
    (LStore.mk nodes (s.tables.setIfInBounds l t)).tbl l' = if l' = l then t else s.tbl l' :=
  getD_setIfInBounds s.tables l l' t hl

theorem kidsAt_eq (nodes : Array (Option Node)) (id : Nat) :
    kidsAt nodes id = ((Store.mk nodes).get? id).map fun n => (n.t, n.e) := rfl

theorem kidsAt_some {nodes : Array (Option Node)} {id : Nat} {n : Node}
    (h : (Store.mk nodes).get? id = some n) : kidsAt nodes id = some (n.t, n.e) := by
  rw [kidsAt_eq, h]; rfl

theorem kidsAt_eq_some {nodes : Array (Option Node)} {id : Nat} {t e : Edge}
    (h : kidsAt nodes id = some (t, e)) : ∃ n, (Store.mk nodes).get? id = some n ∧ n.t = t ∧ n.e = e := by
  rw [kidsAt_eq] at h
  cases hg : (Store.mk nodes).get? id with
  | none => rw [hg] at h; cases h
  | some n =>
    rw [hg] at h
    simp only [Option.map_some, Option.some.injEq, Prod.mk.injEq] at h
    exact ⟨n, rfl, h.1, h.2⟩

/-- the closure of `LevelViewSet::eq` is the keyed-set closure for the key "children" -/
theorem eqc_eq (h : Hash) (nodes : Array (Option Node)) (t e : Edge) :
    eqc nodes t e = (keyed h nodes).eq (t, e) := by
  funext id
  simp only [eqc, Keyed.eq, keyed, kidsAt]
  split
  · rename_i n hn
    simp only [hn, Option.map_some, Option.some.injEq, Prod.mk.injEq]
    by_cases h1 : n.t = t <;> by_cases h2 : n.e = e <;> simp [h1, h2]
  · rename_i hn
    simp [hn]

theorem find?_of_unique {s : Store} (hu : s.Unique) {n : Node} {i : Nat} (h : s.get? i = some n) :
    s.find? n = some i := by
  cases hf : s.find? n with
  | none => exact absurd h (find?_none hf i)
  | some j => rw [hu j i n (find?_some hf) h]

theorem find?_eq_none_of {s : Store} {n : Node} (h : ∀ i, s.get? i ≠ some n) : s.find? n = none := by
  cases hf : s.find? n with
  | none => rfl
  | some j => exact absurd (find?_some hf) (h j)

/-! ## consequences of `LInv` -/

/-- **hash consing from the tables**: no two slots hold the same node -/
theorem unique_of_LInv' {h : Hash} {s : LStore} (hinv : LInv h s) : s.abs.Unique := by
  intro i j n hi hj
  have mi := (hinv.mem n.level i).2 ⟨n, hi, rfl⟩
  have mj := (hinv.mem n.level j).2 ⟨n, hj, rfl⟩
  exact (hinv.tbl n.level).inj i j mi mj (by
    show kidsAt s.nodes i = kidsAt s.nodes j
    rw [kidsAt_some hi, kidsAt_some hj])

theorem LInv.level_lt {h : Hash} {s : LStore} (hinv : LInv h s) {id : Nat} {n : Node}
    (hn : s.abs.get? id = some n) : n.level < s.tables.size := by
  have hm := (hinv.mem n.level id).2 ⟨n, hn, rfl⟩
  by_cases hlt : n.level < s.tables.size
  · exact hlt
  · exfalso
    have : s.tbl n.level = Tbl.new := by
      unfold LStore.tbl
      rw [Array.getElem?_eq_none (by omega)]; rfl
    rw [this] at hm
    exact new_not_mem id hm

theorem LInv_empty (h : Hash) (n : Nat) : LInv h (LStore.empty n) := by
  have htbl : ∀ l, (LStore.empty n).tbl l = Tbl.new := by
    intro l
    unfold LStore.tbl LStore.empty
    simp only [Array.getElem?_replicate]
    split <;> rfl
  refine ⟨fun l => by rw [htbl]; exact KInv.new _, fun l id => ?_⟩
  rw [htbl]
  constructor
  · intro hm; exact (new_not_mem id hm).elim
  · rintro ⟨n', hn, _⟩
    simp [LStore.abs, LStore.empty, Store.get?] at hn

/-- replacing a level's table by one with the same elements -/
theorem LInv_setTbl {h : Hash} {s : LStore} (hinv : LInv h s) {level : Nat} (hl : level < s.tables.size)
    {t1 : Tbl} (h2 : KInv (keyed h s.nodes) t1) (h3 : ∀ x, t1.Mem x ↔ (s.tbl level).Mem x) :
    LInv h (s.setTbl level t1) := by
  refine ⟨fun l => ?_, fun l id => ?_⟩
  · rw [tbl_setTbl s level l t1 hl]
    split
    · exact h2
    · exact hinv.tbl l
  · rw [tbl_setTbl s level l t1 hl]
    split
    · rename_i hll; subst hll
      rw [h3 id]; exact hinv.mem l id
    · exact hinv.mem l id

/-- writing a new node into a free slot and its id into its level's table -/
theorem LInv_put {h : Hash} {s : LStore} (hinv : LInv h s) {level : Nat} (hl : level < s.tables.size)
    {a : Nat} (hfree : s.abs.get? a = none) {node : Node} (hnl : node.level = level) {t2 : Tbl}
    (hK : KInv (keyed h (s.abs.put a node).nodes) t2)
    (hm : ∀ x, t2.Mem x ↔ (x = a ∨ (s.tbl level).Mem x)) :
    LInv h ⟨(s.abs.put a node).nodes, s.tables.setIfInBounds level t2⟩ := by
  have hnot : ∀ l, ¬ (s.tbl l).Mem a := by
    intro l hma
    obtain ⟨n, hn, _⟩ := (hinv.mem l a).1 hma
    rw [hfree] at hn; cases hn
  have hget : ∀ x, (LStore.mk (s.abs.put a node).nodes (s.tables.setIfInBounds level t2)).abs.get? x
      = if x = a then some node else s.abs.get? x := fun x => get?_put s.abs a node x
  refine ⟨fun l => ?_, fun l id => ?_⟩
  · rw [tbl_mk _ s level l t2 hl]
    split
    · exact hK
    · refine (hinv.tbl l).congr rfl ?_
      intro x hx
      have hxa : x ≠ a := fun hxa => hnot l (hxa ▸ hx)
      show kidsAt (s.abs.put a node).nodes x = kidsAt s.nodes x
      rw [kidsAt_eq, kidsAt_eq]
      have := get?_put s.abs a node x
      simp only [hxa, if_false] at this
      rw [this]; rfl
  · rw [tbl_mk _ s level l t2 hl, hget]
    by_cases hll : l = level
    · subst hll
      simp only [if_true]
      rw [hm id]
      by_cases hia : id = a
      · subst hia
        simp only [if_true, true_or, true_iff]
        exact ⟨node, rfl, hnl⟩
      · simp only [hia, if_false, false_or]
        exact hinv.mem l id
    · simp only [hll, if_false]
      by_cases hia : id = a
      · subst hia
        simp only [if_true]
        constructor
        · intro hma; exact (hnot l hma).elim
        · rintro ⟨n, hn, hnl'⟩
          cases hn
          exact (hll (hnl'.symm.trans hnl)).elim
      · simp only [hia, if_false]
        exact hinv.mem l id

/-! ## `get` -/

/-- the hashed lookup (`LevelViewSet::get`) **is** the linear search of `Store.find?`, for any
hash function; in particular it terminates (no `Err.diverge`) and does not trip an assertion -/
theorem find_eq {h : Hash} {s : LStore} (hinv : LInv h s) {level : Nat} (hl : level < s.tables.size)
    (t e : Edge) : find h s level t e = .ok (s.abs.find? ⟨level, t, e⟩) := by
  unfold find
  have hl' : ¬ s.tables.size ≤ level := by omega
  simp only [hl', if_false]
  rw [eqc_eq h]
  have hu := unique_of_LInv' hinv
  rcases lookupK_spec (hinv.tbl level) (t, e) with ⟨id, h1, h2, h3⟩ | ⟨h1, h2⟩
  · have h1' : getP (s.tbl level) (h t e) ((keyed h s.nodes).eq (t, e)) = .ok (some id) := h1
    rw [h1']
    obtain ⟨n, hn, hnl⟩ := (hinv.mem level id).1 h2
    obtain ⟨n', hn', ht, he⟩ := kidsAt_eq_some (nodes := s.nodes) h3
    have : n' = n := by rw [show (Store.mk s.nodes).get? id = s.abs.get? id from rfl, hn] at hn'; cases hn'; rfl
    subst this
    have hnode : n' = ⟨level, t, e⟩ := by cases n'; simp_all
    rw [find?_of_unique hu (hnode ▸ hn)]
  · have h1' : getP (s.tbl level) (h t e) ((keyed h s.nodes).eq (t, e)) = .ok none := h1
    rw [h1']
    rw [find?_eq_none_of]
    intro i hi
    exact h2 i ((hinv.mem level i).2 ⟨_, hi, rfl⟩) (kidsAt_some hi)

/-! ## `get_or_insert` -/

theorem getOrInsert_refines' {h : Hash} {add : Add} {s : LStore} (hinv : LInv h s) {level : Nat}
    (hl : level < s.tables.size) (hadd : AddOK add) (t e : Edge) :
    (∃ s' r, getOrInsert h add s level t e = .ok (s', r) ∧ LInv h s' ∧
      s'.tables.size = s.tables.size ∧ (s'.abs, r) = lookupOrAlloc add s.abs level t e) ∨
    (getOrInsert h add s level t e = .error .capacity ∧
      checkCapacity (nextCapacity ((s.tbl level).len + 1)) = false) := by
  unfold getOrInsert
  have hl' : ¬ s.tables.size ≤ level := by omega
  simp only [hl', if_false]
  rw [eqc_eq h]
  have hu := unique_of_LInv' hinv
  have hsz : ∀ tb, (s.setTbl level tb).tables.size = s.tables.size := fun tb => by
    simp [LStore.setTbl]
  rcases probeK_spec (hinv.tbl level) (t, e) with ⟨t1, r, h1, h2, h3, h4⟩ | ⟨h1, h2⟩
  · left
    have h1' : findOrFindInsertSlotP (s.tbl level) (h t e) ((keyed h s.nodes).eq (t, e)) = .ok (t1, r) := h1
    rw [h1']
    rcases h4 with ⟨i, id, rfl, g1, g2, g3⟩ | ⟨sl, rfl, gv, gno⟩
    · simp only [g1]
      obtain ⟨n, hn, hnl⟩ := (hinv.mem level id).1 g2
      obtain ⟨n', hn', ht, he⟩ := kidsAt_eq_some (nodes := s.nodes) g3
      have : n' = n := by
        rw [show (Store.mk s.nodes).get? id = s.abs.get? id from rfl, hn] at hn'; cases hn'; rfl
      subst this
      have hnode : n' = ⟨level, t, e⟩ := by cases n'; simp_all
      refine ⟨s.setTbl level t1, some (.inner id), rfl, LInv_setTbl hinv hl h2 h3, hsz t1, ?_⟩
      unfold lookupOrAlloc
      rw [find?_of_unique hu (hnode ▸ hn)]
      rfl
    · simp only
      have hfind : s.abs.find? ⟨level, t, e⟩ = none := by
        apply find?_eq_none_of
        intro i hi
        exact gno i ((hinv.mem level i).2 ⟨_, hi, rfl⟩) (kidsAt_some hi)
      cases hadd' : add s.abs ⟨level, t, e⟩ with
      | none =>
        simp only
        refine ⟨s.setTbl level t1, none, rfl, LInv_setTbl hinv hl h2 h3, hsz t1, ?_⟩
        simp only [lookupOrAlloc, hfind, hadd']
        rfl
      | some a =>
        simp only
        have hfree := hadd _ _ _ hadd'
        have hnot : ∀ l, ¬ (s.tbl l).Mem a := by
          intro l hma
          obtain ⟨n, hn, _⟩ := (hinv.mem l a).1 hma
          rw [hfree] at hn; cases hn
        have ha : ¬ t1.Mem a := fun hm => hnot level ((h3 a).1 hm)
        have gno1 : ∀ id, t1.Mem id → (keyed h s.nodes).kf id ≠ some (t, e) :=
          fun id hid => gno id ((h3 id).1 hid)
        have hag : ∀ x, t1.Mem x →
            (keyed h (s.abs.put a ⟨level, t, e⟩).nodes).kf x = (keyed h s.nodes).kf x := by
          intro x hx
          have hxa : x ≠ a := fun hxa => ha (hxa ▸ hx)
          show kidsAt (s.abs.put a ⟨level, t, e⟩).nodes x = kidsAt s.nodes x
          rw [kidsAt_eq, kidsAt_eq]
          have := get?_put s.abs a ⟨level, t, e⟩ x
          simp only [hxa, if_false] at this
          rw [this]; rfl
        have hka : (keyed h (s.abs.put a ⟨level, t, e⟩).nodes).kf a = some (t, e) := by
          show kidsAt (s.abs.put a ⟨level, t, e⟩).nodes a = some (t, e)
          rw [kidsAt_eq]
          have := get?_put s.abs a ⟨level, t, e⟩ a
          simp only [if_true] at this
          rw [this]; rfl
        obtain ⟨t2, k1, k2, _, k4⟩ := insertK_spec (K' := keyed h (s.abs.put a ⟨level, t, e⟩).nodes)
          h2 gv gno1 rfl hag ha hka
        have k1' : t1.insertInSlot (h t e) sl a = .ok t2 := k1
        rw [k1']
        simp only
        refine ⟨_, _, rfl, ?_, by simp, ?_⟩
        · apply LInv_put hinv hl hfree rfl k2
          intro x; rw [k4 x, h3 x]
        · simp only [lookupOrAlloc, hfind, hadd']
          rfl
  · right
    have h1' : findOrFindInsertSlotP (s.tbl level) (h t e) ((keyed h s.nodes).eq (t, e)) = .error .capacity := h1
    rw [h1']
    exact ⟨rfl, h2⟩

/-! ## the level pass of the collector -/

theorem get?_freeSlots : ∀ (d : List Nat) (nodes : Array (Option Node)) (i : Nat),
    (Store.mk (freeSlots nodes d)).get? i = if i ∈ d then none else (Store.mk nodes).get? i := by
  intro d
  induction d with
  | nil => intro nodes i; simp [freeSlots]
  | cons x r ih =>
    intro nodes i
    have hcons : freeSlots nodes (x :: r) = freeSlots (nodes.setIfInBounds x none) r := rfl
    rw [hcons, ih]
    by_cases hir : i ∈ r
    · simp [hir]
    · simp only [hir, if_false, List.mem_cons, or_false]
      simp only [Store.get?, Array.getElem?_setIfInBounds]
      by_cases hix : i = x
      · subst hix
        simp only [if_true]
        split <;> simp_all
      · have : ¬ x = i := fun h => hix h.symm
        simp [hix, this]

theorem size_freeSlots : ∀ (d : List Nat) (nodes : Array (Option Node)),
    (freeSlots nodes d).size = nodes.size := by
  intro d
  induction d with
  | nil => intro nodes; rfl
  | cons x r ih =>
    intro nodes
    have hcons : freeSlots nodes (x :: r) = freeSlots (nodes.setIfInBounds x none) r := rfl
    rw [hcons, ih]; simp

theorem get?_gcLevelA (s : Store) (l : Nat) (keep : Nat → Bool) (i : Nat) :
    (gcLevelA s l keep).get? i =
      match s.get? i with
      | some n => if n.level = l ∧ keep i = false then none else some n
      | none => none := by
  simp only [gcLevelA, Store.get?, Array.getElem?_mapIdx]
  cases hx : s.nodes[i]? with
  | none => simp
  | some o =>
    cases o with
    | none => simp
    | some n =>
      simp only [Option.map_some, Option.join_some]

/-- two stores with the same size and the same `get?` are equal -/
theorem store_ext {a b : Store} (hs : a.nodes.size = b.nodes.size) (hg : ∀ i, a.get? i = b.get? i) :
    a = b := by
  cases a with | mk an => cases b with | mk bn =>
  congr 1
  apply Array.ext hs
  intro i h1 h2
  have := hg i
  simp only [Store.get?, Array.getElem?_eq_getElem h1, Array.getElem?_eq_getElem h2,
    Option.join_some] at this
  exact this

theorem gcLevel_refines' {h : Hash} {s : LStore} (hinv : LInv h s) {level : Nat}
    (hl : level < s.tables.size) (keep : Nat → Bool) :
    ∃ s', gcLevel s level keep = .ok s' ∧ LInv h s' ∧ s'.tables.size = s.tables.size ∧
      s'.abs = gcLevelA s.abs level keep := by
  unfold gcLevel
  have hl' : ¬ s.tables.size ≤ level := by omega
  simp only [hl', if_false]
  obtain ⟨tb, d, h1, h2, h3, _, h5⟩ := retainK_spec (hinv.tbl level) keep
  rw [h1]
  simp only
  -- what the slot array looks like afterwards
  have hget : ∀ i, (Store.mk (freeSlots s.nodes d)).get? i
      = match s.abs.get? i with
        | some n => if n.level = level ∧ keep i = false then none else some n
        | none => none := by
    intro i
    rw [get?_freeSlots]
    cases hg : s.abs.get? i with
    | none =>
      have : (Store.mk s.nodes).get? i = none := hg
      simp [this]
    | some n =>
      have hg' : (Store.mk s.nodes).get? i = some n := hg
      simp only [hg']
      by_cases hid : i ∈ d
      · obtain ⟨hm, hk⟩ := (h5 i).1 hid
        obtain ⟨n', hn', hl2⟩ := (hinv.mem level i).1 hm
        rw [hg] at hn'; cases hn'
        simp [hid, hl2, hk]
      · simp only [hid, if_false]
        split
        · rename_i hc
          exact (hid ((h5 i).2 ⟨(hinv.mem level i).2 ⟨n, hg, hc.1⟩, hc.2⟩)).elim
        · rfl
  have habs : (LStore.mk (freeSlots s.nodes d) (s.tables.setIfInBounds level tb)).abs
      = gcLevelA s.abs level keep := by
    apply store_ext
    · simp [LStore.abs, gcLevelA, size_freeSlots]
    · intro i
      rw [get?_gcLevelA]
      exact hget i
  refine ⟨_, rfl, ⟨fun l => ?_, fun l id => ?_⟩, by simp, habs⟩
  · -- the tables are keyed sets w.r.t. the new slot array
    rw [tbl_mk _ s level l tb hl]
    have hkeep : ∀ x, (s.tbl l).Mem x → (l ≠ level ∨ keep x = true) →
        kidsAt (freeSlots s.nodes d) x = kidsAt s.nodes x := by
      intro x hx hc
      rw [kidsAt_eq, kidsAt_eq, get?_freeSlots]
      have : x ∉ d := by
        intro hxd
        obtain ⟨hm, hk⟩ := (h5 x).1 hxd
        obtain ⟨n1, hn1, hl1⟩ := (hinv.mem l x).1 hx
        obtain ⟨n2, hn2, hl2⟩ := (hinv.mem level x).1 hm
        rw [hn1] at hn2; cases hn2
        rcases hc with hc | hc
        · exact hc (hl1.symm.trans hl2)
        · rw [hk] at hc; cases hc
      simp [this]
    split
    · rename_i hll; subst hll
      refine h2.congr rfl ?_
      intro x hx
      obtain ⟨hm, hk⟩ := (h3 x).1 hx
      exact hkeep x hm (.inr hk)
    · rename_i hll
      refine (hinv.tbl l).congr rfl ?_
      intro x hx
      exact hkeep x hx (.inl hll)
  · rw [tbl_mk _ s level l tb hl]
    show _ ↔ ∃ n, (Store.mk (freeSlots s.nodes d)).get? id = some n ∧ n.level = l
    rw [hget]
    split
    · rename_i hll; subst hll
      rw [h3 id, hinv.mem l id]
      constructor
      · rintro ⟨⟨n, hn, hnl⟩, hk⟩
        rw [hn]
        simp only [hk, Bool.true_eq_false, and_false, if_false]
        exact ⟨n, rfl, hnl⟩
      · intro hex
        cases hg : s.abs.get? id with
        | none => rw [hg] at hex; obtain ⟨_, hh, _⟩ := hex; cases hh
        | some n =>
          rw [hg] at hex
          simp only at hex
          split at hex
          · obtain ⟨_, hh, _⟩ := hex; cases hh
          · rename_i hc
            obtain ⟨n', hh, hnl⟩ := hex
            cases hh
            refine ⟨⟨n, rfl, hnl⟩, ?_⟩
            cases hk : keep id with
            | true => rfl
            | false => exact (hc ⟨hnl, hk⟩).elim
    · rename_i hll
      rw [hinv.mem l id]
      constructor
      · rintro ⟨n, hn, hnl⟩
        rw [hn]
        have : ¬ (n.level = level ∧ keep id = false) := fun hc => hll (hnl.symm.trans hc.1)
        simp only [this, if_false]
        exact ⟨n, rfl, hnl⟩
      · intro hex
        cases hg : s.abs.get? id with
        | none => rw [hg] at hex; obtain ⟨_, hh, _⟩ := hex; cases hh
        | some n =>
          rw [hg] at hex
          simp only at hex
          split at hex
          · obtain ⟨_, hh, _⟩ := hex; cases hh
          · obtain ⟨n', hh, hnl⟩ := hex
            cases hh
            exact ⟨n, rfl, hnl⟩

end OxiddModel.Bdd.LevelTable
