import OxiddModel.Bdd.LevelTableRefine

/-!
# Taking nodes out of their table, rewriting them in place, filing them again

Reordering (`oxidd_reorder::level_swap`) does what `get_or_insert`/`gc` never do: it changes the
children (and the level number) of a stored node **in place** (`set_child`, `set_level`).  Since
the node's hash is the hash of its children, this is only sound for a node that is *not* in a
table at that moment; afterwards it is filed again with `LevelView::insert`.  The repaired
`level_swap` (/repo 1415cc0) follows this protocol: `take()` the level's table (all its ids are
out), rewrite, `insert_unchecked` into the table of the node's new level, `remove` orphans.

`LInvX h s out` is `LInv` relative to a set `out` of live ids that are currently in no table:
the tables are keyed sets and hold exactly the live ids of their level that are not `out`.
`LInv h s ↔ LInvX h s ∅`.

* `takeLevel_spec` — `LevelView::take`: the level's ids become `out`, the taken table is still a
  keyed set (w.r.t. the slot array at that moment);
* `setNode_out` — rewriting an `out` node keeps `LInvX` (any new children, any new level);
* `insertEdge_spec` — `LevelView::insert` of an `out` node: filed (no longer `out`), or an equal
  node is already filed and the table is unchanged;
* `removeNode_spec` — `LevelView::remove`: the found id becomes `out`;
* `reinsert_restores'` — remove, rewrite, insert: `LInv` again, same slot array as the plain
  in-place rewrite.  Contrast: `stale_hash_breaks` (`PropertiesLevelTable.lean`) is the same
  rewrite *without* the remove/insert.
* `findTaken_spec'` — `TakenLevelView::get` on the taken table while some of its nodes have
  already been rewritten (their entries are stale): exact as long as no rewritten node currently
  has the searched children.
-/
namespace OxiddModel.Bdd.LevelTable
open OxiddModel.HashTbl OxiddModel.HashTbl.Tbl OxiddModel.Bdd.Refine

/-- `LInv` relative to the live ids `out` that are in no table -/
structure LInvX (h : Hash) (s : LStore) (out : Nat → Prop) : Prop where
  tbl : ∀ l, KInv (keyed h s.nodes) (s.tbl l)
  mem : ∀ l id, (s.tbl l).Mem id ↔ (∃ n, s.abs.get? id = some n ∧ n.level = l) ∧ ¬ out id

theorem linv_iff_linvX {h : Hash} {s : LStore} : LInv h s ↔ LInvX h s (fun _ => False) := by
  constructor
  · intro hi
    exact ⟨hi.tbl, fun l id => by rw [hi.mem l id]; simp⟩
  · intro hi
    exact ⟨hi.tbl, fun l id => by rw [hi.mem l id]; simp⟩

theorem LInvX.of_out_iff {h : Hash} {s : LStore} {out out' : Nat → Prop} (hi : LInvX h s out)
    (hoo : ∀ id, (∃ n, s.abs.get? id = some n) → (out id ↔ out' id)) : LInvX h s out' := by
  refine ⟨hi.tbl, fun l id => ?_⟩
  rw [hi.mem l id]
  constructor
  · rintro ⟨⟨n, hn, hl⟩, ho⟩
    exact ⟨⟨n, hn, hl⟩, fun ho' => ho ((hoo id ⟨n, hn⟩).2 ho')⟩
  · rintro ⟨⟨n, hn, hl⟩, ho⟩
    exact ⟨⟨n, hn, hl⟩, fun ho' => ho ((hoo id ⟨n, hn⟩).1 ho')⟩

/-- all `out` nodes filed again (or freed): the plain invariant -/
theorem LInvX.to_linv {h : Hash} {s : LStore} {out : Nat → Prop} (hi : LInvX h s out)
    (hno : ∀ id n, s.abs.get? id = some n → ¬ out id) : LInv h s :=
  linv_iff_linvX.2 (hi.of_out_iff fun id ⟨n, hn⟩ => ⟨fun ho => hno id n hn ho, fun hf => hf.elim⟩)

theorem LInvX_setTbl {h : Hash} {s : LStore} {out : Nat → Prop} (hinv : LInvX h s out) {level : Nat}
    (hl : level < s.tables.size) {t1 : Tbl} (h2 : KInv (keyed h s.nodes) t1)
    (h3 : ∀ x, t1.Mem x ↔ (s.tbl level).Mem x) : LInvX h (s.setTbl level t1) out := by
  refine ⟨fun l => ?_, fun l id => ?_⟩
  · rw [tbl_setTbl s level l t1 hl]
    split
    · exact h2
    · exact hinv.tbl l
  · rw [tbl_setTbl s level l t1 hl]
    split
    · rename_i hll; subst hll
      rw [h3 id]; exact hinv.mem l id
    · exact hinv.mem l id

/-! ## `take` -/

/-- `LevelView::take`: `std::mem::take(&mut self.set)` — the level gets a fresh empty table, the
old one is handed to the caller -/
def takeLevel (s : LStore) (l : Nat) : LStore × Tbl := (s.setTbl l Tbl.new, s.tbl l)

theorem takeLevel_spec {h : Hash} {s : LStore} {out : Nat → Prop} (hinv : LInvX h s out) {l : Nat}
    (hl : l < s.tables.size) :
    LInvX h (takeLevel s l).1 (fun id => out id ∨ (s.tbl l).Mem id) ∧
    KInv (keyed h s.nodes) (takeLevel s l).2 ∧ (takeLevel s l).1.nodes = s.nodes := by
  refine ⟨⟨fun l' => ?_, fun l' id => ?_⟩, hinv.tbl l, rfl⟩
  · show KInv (keyed h s.nodes) ((s.setTbl l Tbl.new).tbl l')
    rw [tbl_setTbl s l l' _ hl]
    split
    · exact KInv.new _
    · exact hinv.tbl l'
  · show ((s.setTbl l Tbl.new).tbl l').Mem id ↔ (∃ n, s.abs.get? id = some n ∧ n.level = l') ∧ _
    rw [tbl_setTbl s l l' _ hl]
    split
    · rename_i hll; subst hll
      constructor
      · intro hm; exact (new_not_mem id hm).elim
      · rintro ⟨hlive, hno⟩
        exact (hno (.inr ((hinv.mem l' id).2 ⟨hlive, fun ho => hno (.inl ho)⟩))).elim
    · rename_i hll
      rw [hinv.mem l' id]
      constructor
      · rintro ⟨hlive, ho⟩
        refine ⟨hlive, ?_⟩
        rintro (ho' | hm)
        · exact ho ho'
        · obtain ⟨⟨n, hn, hnl⟩, _⟩ := (hinv.mem l id).1 hm
          obtain ⟨n', hn', hnl'⟩ := hlive
          rw [hn] at hn'; cases hn'
          exact hll (hnl'.symm.trans hnl)
      · rintro ⟨hlive, hno⟩
        exact ⟨hlive, fun ho => hno (.inl ho)⟩

/-! ## rewriting a node that is in no table -/

/-- `set_child` … / `set_level` on the node at `id`: overwrite the slot (nothing happens on an
empty slot) -/
def setNode (s : LStore) (id : Nat) (n' : Node) : LStore :=
  match s.abs.get? id with
  | some _ => { s with nodes := s.nodes.setIfInBounds id (some n') }
  | none => s

theorem setChildren_eq_setNode (s : LStore) (id : Nat) (t e : Edge) {n : Node}
    (hn : s.abs.get? id = some n) : setChildren s id t e = setNode s id { n with t := t, e := e } := by
  simp [setChildren, setNode, hn]

theorem get?_setNode (s : LStore) (id : Nat) (n' : Node) (x : Nat) :
    (setNode s id n').abs.get? x =
      if x = id ∧ (s.abs.get? id).isSome then some n' else s.abs.get? x := by
  unfold setNode
  cases hg : s.abs.get? id with
  | none => simp
  | some n =>
    simp only [Option.isSome_some, and_true]
    simp only [LStore.abs, Store.get?, Array.getElem?_setIfInBounds]
    by_cases hx : x = id
    · subst hx
      simp only [if_true]
      have hlt : x < s.nodes.size := by
        simp only [LStore.abs, Store.get?] at hg
        by_cases hlt : x < s.nodes.size
        · exact hlt
        · rw [Array.getElem?_eq_none (by omega)] at hg; cases hg
      simp [hlt]
    · have : ¬ id = x := fun h => hx h.symm
      simp [hx, this]

theorem setNode_tables (s : LStore) (id : Nat) (n' : Node) : (setNode s id n').tables = s.tables := by
  unfold setNode; split <;> rfl

theorem setNode_tbl (s : LStore) (id : Nat) (n' : Node) (l : Nat) : (setNode s id n').tbl l = s.tbl l := by
  unfold LStore.tbl; rw [setNode_tables]

/-- a node that is in no table may be rewritten at will (children **and** level); the new level
must have a table, so that the node can be filed there later -/
theorem setNode_out {h : Hash} {s : LStore} {out : Nat → Prop} (hinv : LInvX h s out) {id : Nat}
    (ho : out id) (n' : Node) : LInvX h (setNode s id n') out := by
  have hnm : ∀ l, ¬ (s.tbl l).Mem id := fun l hm => ((hinv.mem l id).1 hm).2 ho
  refine ⟨fun l => ?_, fun l x => ?_⟩
  · rw [setNode_tbl]
    refine (hinv.tbl l).congr rfl ?_
    intro x hx
    have hxi : x ≠ id := fun hxi => hnm l (hxi ▸ hx)
    show kidsAt (setNode s id n').nodes x = kidsAt s.nodes x
    rw [kidsAt_eq, kidsAt_eq]
    have := get?_setNode s id n' x
    simp only [hxi, false_and, if_false] at this
    exact congrArg _ this
  · rw [setNode_tbl, get?_setNode, hinv.mem l x]
    by_cases hxi : x = id
    · subst hxi
      constructor
      · rintro ⟨_, hno⟩; exact (hno ho).elim
      · rintro ⟨_, hno⟩; exact (hno ho).elim
    · simp only [hxi, false_and, if_false]

/-! ## `insert` -/

theorem insertEdge_spec {h : Hash} {s : LStore} {out : Nat → Prop} (hinv : LInvX h s out)
    {level id : Nat} (hl : level < s.tables.size) {n : Node} (hn : s.abs.get? id = some n)
    (hnl : n.level = level) (ho : out id) :
    (∃ s', insertEdge h s level id = .ok (s', true) ∧ LInvX h s' (fun x => out x ∧ x ≠ id) ∧
      s'.nodes = s.nodes ∧ s'.tables.size = s.tables.size ∧
      ∀ x, (s.tbl level).Mem x → kidsAt s.nodes x ≠ some (n.t, n.e)) ∨
    (∃ s' id', insertEdge h s level id = .ok (s', false) ∧ LInvX h s' out ∧ s'.nodes = s.nodes ∧
      s'.tables.size = s.tables.size ∧
      (s.tbl level).Mem id' ∧ kidsAt s.nodes id' = some (n.t, n.e)) ∨
    (insertEdge h s level id = .error .capacity ∧
      checkCapacity (nextCapacity ((s.tbl level).len + 1)) = false) := by
  unfold insertEdge
  have hl' : ¬ s.tables.size ≤ level := by omega
  simp only [hl', if_false, hn]
  rw [eqc_eq h]
  have hsz : ∀ tb, (s.setTbl level tb).tables.size = s.tables.size := fun tb => by
    simp [LStore.setTbl]
  rcases probeK_spec (hinv.tbl level) (n.t, n.e) with ⟨t1, r, h1, h2, h3, h4⟩ | ⟨h1, h2⟩
  · have h1' : findOrFindInsertSlotP (s.tbl level) (h n.t n.e) ((keyed h s.nodes).eq (n.t, n.e))
        = .ok (t1, r) := h1
    rw [h1']
    rcases h4 with ⟨i, id', rfl, _, g2, g3⟩ | ⟨sl, rfl, gv, gno⟩
    · right; left
      exact ⟨s.setTbl level t1, id', rfl, LInvX_setTbl hinv hl h2 h3, rfl, hsz t1, g2, g3⟩
    · left
      simp only
      have ha : ¬ t1.Mem id := fun hm => ((hinv.mem level id).1 ((h3 id).1 hm)).2 ho
      have gno1 : ∀ x, t1.Mem x → (keyed h s.nodes).kf x ≠ some (n.t, n.e) :=
        fun x hx => gno x ((h3 x).1 hx)
      have hka : (keyed h s.nodes).kf id = some (n.t, n.e) := kidsAt_some hn
      obtain ⟨t2, k1, k2, _, k4⟩ := insertK_spec (K' := keyed h s.nodes) h2 gv gno1 rfl
        (fun _ _ => rfl) ha hka
      have k1' : t1.insertInSlot (h n.t n.e) sl id = .ok t2 := k1
      rw [k1']
      simp only
      refine ⟨s.setTbl level t2, rfl, ⟨fun l => ?_, fun l x => ?_⟩, rfl, hsz t2, gno⟩
      · show KInv (keyed h s.nodes) ((s.setTbl level t2).tbl l)
        rw [tbl_setTbl s level l t2 hl]
        split
        · exact k2
        · exact hinv.tbl l
      · show ((s.setTbl level t2).tbl l).Mem x ↔ (∃ m, s.abs.get? x = some m ∧ m.level = l) ∧ _
        rw [tbl_setTbl s level l t2 hl]
        split
        · rename_i hll; subst hll
          rw [k4 x, h3 x, hinv.mem l x]
          constructor
          · rintro (rfl | ⟨hlive, hno⟩)
            · exact ⟨⟨n, hn, hnl⟩, fun hc => hc.2 rfl⟩
            · exact ⟨hlive, fun hc => hno hc.1⟩
          · rintro ⟨hlive, hno⟩
            by_cases hxi : x = id
            · exact .inl hxi
            · exact .inr ⟨hlive, fun hox => hno ⟨hox, hxi⟩⟩
        · rename_i hll
          rw [hinv.mem l x]
          constructor
          · rintro ⟨hlive, hno⟩
            exact ⟨hlive, fun hc => hno hc.1⟩
          · rintro ⟨hlive, hno⟩
            refine ⟨hlive, fun hox => hno ⟨hox, ?_⟩⟩
            rintro rfl
            obtain ⟨m, hm, hml⟩ := hlive
            rw [hn] at hm; cases hm
            exact hll (hml.symm.trans hnl)
  · right; right
    have h1' : findOrFindInsertSlotP (s.tbl level) (h n.t n.e) ((keyed h s.nodes).eq (n.t, n.e))
        = .error .capacity := h1
    rw [h1']
    exact ⟨rfl, h2⟩

/-! ## `remove` -/

theorem removeNode_spec {h : Hash} {s : LStore} {out : Nat → Prop} (hinv : LInvX h s out)
    {level : Nat} (hl : level < s.tables.size) (t e : Edge) :
    (∃ s' id, removeNode h s level t e = .ok (s', some id) ∧ LInvX h s' (fun x => out x ∨ x = id) ∧
      s'.nodes = s.nodes ∧ s'.tables.size = s.tables.size ∧
      s.abs.get? id = some ⟨level, t, e⟩ ∧ ¬ out id) ∨
    (∃ s', removeNode h s level t e = .ok (s', none) ∧ LInvX h s' out ∧ s'.nodes = s.nodes ∧
      s'.tables.size = s.tables.size ∧
      ∀ x, (s.tbl level).Mem x → kidsAt s.nodes x ≠ some (t, e)) := by
  unfold removeNode
  have hl' : ¬ s.tables.size ≤ level := by omega
  simp only [hl', if_false]
  rw [eqc_eq h]
  have hsz : ∀ tb, (s.setTbl level tb).tables.size = s.tables.size := fun tb => by
    simp [LStore.setTbl]
  rcases removeK_spec (hinv.tbl level) (t, e) with ⟨t', id, h1, h2, _, h4, h5, h6⟩ | ⟨h1, h2⟩
  · left
    have h1' : removeP (s.tbl level) (h t e) ((keyed h s.nodes).eq (t, e)) = .ok (t', some id) := h1
    rw [h1']
    simp only
    obtain ⟨⟨n, hn, hnl⟩, hno⟩ := (hinv.mem level id).1 h4
    obtain ⟨n', hn', ht, he⟩ := kidsAt_eq_some (nodes := s.nodes) h5
    have : n' = n := by
      rw [show (Store.mk s.nodes).get? id = s.abs.get? id from rfl, hn] at hn'; cases hn'; rfl
    subst this
    have hnode : n' = ⟨level, t, e⟩ := by cases n'; simp_all
    refine ⟨s.setTbl level t', id, rfl, ⟨fun l => ?_, fun l x => ?_⟩, rfl, hsz t', hnode ▸ hn, hno⟩
    · show KInv (keyed h s.nodes) ((s.setTbl level t').tbl l)
      rw [tbl_setTbl s level l t' hl]
      split
      · exact h2
      · exact hinv.tbl l
    · show ((s.setTbl level t').tbl l).Mem x ↔ (∃ m, s.abs.get? x = some m ∧ m.level = l) ∧ _
      rw [tbl_setTbl s level l t' hl]
      split
      · rename_i hll; subst hll
        rw [h6 x, hinv.mem l x]
        constructor
        · rintro ⟨⟨hlive, hno'⟩, hne⟩
          exact ⟨hlive, fun hc => hc.elim hno' hne⟩
        · rintro ⟨hlive, hno'⟩
          exact ⟨⟨hlive, fun hc => hno' (.inl hc)⟩, fun hc => hno' (.inr hc)⟩
      · rename_i hll
        rw [hinv.mem l x]
        constructor
        · rintro ⟨hlive, hno'⟩
          refine ⟨hlive, fun hc => hc.elim hno' ?_⟩
          rintro rfl
          obtain ⟨m, hm, hml⟩ := hlive
          rw [hn] at hm; cases hm
          exact hll (hml.symm.trans hnl)
        · rintro ⟨hlive, hno'⟩
          exact ⟨hlive, fun hc => hno' (.inl hc)⟩
  · right
    have h1' : removeP (s.tbl level) (h t e) ((keyed h s.nodes).eq (t, e)) = .ok (s.tbl level, none) := h1
    rw [h1']
    simp only
    exact ⟨s.setTbl level (s.tbl level), rfl, LInvX_setTbl hinv hl (hinv.tbl level) (fun _ => Iff.rfl),
      rfl, hsz _, h2⟩

/-! ## the protocol: remove, rewrite, insert -/

/-- `remove(node)`, `set_child` ×2, `insert(edge)` on one level -/
def reinsert (h : Hash) (s : LStore) (level id : Nat) (t e t' e' : Edge) : Except Err (LStore × Bool) :=
  match removeNode h s level t e with
  | .error err => .error err
  | .ok (s1, _) => insertEdge h (setChildren s1 id t' e') level id

/-- taking the node out of its table under its *old* children, rewriting
the children, and filing it again restores `LInv`, and the slot array is the one of the plain
in-place rewrite — provided no other node of the level has the new children (otherwise `insert`
reports `false` and the caller must redirect, as `level_swap` does via `get_or_insert`). -/
theorem reinsert_restores' {h : Hash} {s : LStore} (hinv : LInv h s) {id : Nat} {n : Node}
    (hn : s.abs.get? id = some n) (t' e' : Edge)
    (hfresh : ∀ x m, s.abs.get? x = some m → m.level = n.level → m.t = t' → m.e = e' → x = id) :
    (∃ s', reinsert h s n.level id n.t n.e t' e' = .ok (s', true) ∧ LInv h s' ∧
      s'.abs = (setChildren s id t' e').abs) ∨
    (reinsert h s n.level id n.t n.e t' e' = .error .capacity) := by
  have hl := hinv.level_lt hn
  have hx := linv_iff_linvX.1 hinv
  unfold reinsert
  have hu := unique_of_LInv' hinv
  rcases removeNode_spec hx hl n.t n.e with ⟨s1, id1, h1, h2, h3, h3', h4, _⟩ | ⟨s1, h1, _, _, _, h5⟩
  · rw [h1]
    simp only
    have hid : id1 = id := hu id1 id _ h4 (by cases n; exact hn)
    subst hid
    have hn1 : s1.abs.get? id1 = some n := by
      show (Store.mk s1.nodes).get? id1 = some n
      rw [h3]; exact hn
    rw [setChildren_eq_setNode s1 id1 t' e' hn1]
    have h2' : LInvX h (setNode s1 id1 { n with t := t', e := e' }) (fun x => False ∨ x = id1) :=
      setNode_out h2 (.inr rfl) _
    have hn2 : (setNode s1 id1 { n with t := t', e := e' }).abs.get? id1
        = some { n with t := t', e := e' } := by
      rw [get?_setNode]; simp [hn1]
    have hl2 : n.level < (setNode s1 id1 { n with t := t', e := e' }).tables.size := by
      rw [setNode_tables, h3']; exact hl
    rcases insertEdge_spec h2' hl2 hn2 rfl (.inr rfl) with
      ⟨s3, g1, g2, g3, _, _⟩ | ⟨s3, id', g1, _, _, _, g5, g6⟩ | ⟨g1, _⟩
    · left
      refine ⟨s3, g1, ?_, ?_⟩
      · refine g2.to_linv ?_
        rintro x m _ ⟨hc | hc, hne⟩
        · exact hc
        · exact hne hc
      · show Store.mk s3.nodes = Store.mk (setChildren s id1 t' e').nodes
        rw [g3, setChildren_eq_setNode s id1 t' e' hn]
        unfold setNode
        rw [hn1, hn]
        simp only [h3]
    · -- an equal node is already filed: excluded by `hfresh`
      exfalso
      rw [setNode_tbl] at g5
      obtain ⟨⟨m, hm, hml⟩, hno⟩ := (h2.mem n.level id').1 g5
      have hne : id' ≠ id1 := fun hc => hno (.inr hc)
      have hm0 : s.abs.get? id' = some m := by
        show (Store.mk s.nodes).get? id' = some m
        rw [← h3]; exact hm
      rw [kidsAt_eq] at g6
      have hm2 : (setNode s1 id1 { n with t := t', e := e' }).abs.get? id' = some m := by
        rw [get?_setNode]; simp [hne, hm]
      rw [show (Store.mk (setNode s1 id1 { n with t := t', e := e' }).nodes).get? id'
        = (setNode s1 id1 { n with t := t', e := e' }).abs.get? id' from rfl, hm2] at g6
      simp only [Option.map_some, Option.some.injEq, Prod.mk.injEq] at g6
      exact hne (hfresh id' m hm0 hml g6.1 g6.2)
    · right; exact g1
  · -- the node is in its table: `remove` cannot miss it
    exfalso
    exact h5 id ((hinv.mem n.level id).2 ⟨n, hn, rfl⟩) (kidsAt_some hn)

/-! ## lookups in a taken table with stale entries -/

/-- `TakenLevelView::get(node)`: the taken table `tk` against the *current* slot array -/
def findTaken (h : Hash) (nodes : Array (Option Node)) (tk : Tbl) (t e : Edge) : Except Err (Option Nat) :=
  getP tk (h t e) (eqc nodes t e)

/-- the table was taken when the slot array was `nodes0`; since then some of its nodes were
rewritten in place.  The lookup for `(t, e)` is exact if none of the rewritten nodes now has the
children `(t, e)` — what `level_swap` needs of `old_upper.get(&node)`: the rewritten nodes all
have a child on the new upper level, the searched nodes have none. -/
theorem findTaken_spec' {h : Hash} {nodes0 nodes : Array (Option Node)} {tk : Tbl}
    (hK : KInv (keyed h nodes0) tk) (t e : Edge)
    (hst : ∀ x, tk.Mem x → kidsAt nodes x = kidsAt nodes0 x ∨ kidsAt nodes x ≠ some (t, e)) :
    (∃ id, findTaken h nodes tk t e = .ok (some id) ∧ tk.Mem id ∧ kidsAt nodes id = some (t, e) ∧
      kidsAt nodes0 id = some (t, e)) ∨
    (findTaken h nodes tk t e = .ok none ∧ ∀ id, tk.Mem id → kidsAt nodes id ≠ some (t, e)) := by
  unfold findTaken
  rw [eqc_eq h]
  exact lookupK_stale_spec (K := keyed h nodes) hK rfl (t, e) hst

end OxiddModel.Bdd.LevelTable
