import OxiddModel.Bdd.LevelTableProbe

/-!
# A `RawTable` of ids looked up by a key that lives *outside* the table

The unique table of one level (`LevelViewSet`) stores node **ids**; the key under which an id is
filed — the node's children — is not in the table but in the manager's slot array.  Abstractly:

* `K.kf : id → Option κ` — the key of an id (`none`: the id has no key, e.g. an empty node slot),
* `K.h : κ → Nat` — the hash function, **arbitrary**,
* the hash the callers pass for an id is `K.hf id = K.h (key of id)`,
* the equality closure for a searched key `k` is `K.eq k = fun id => K.kf id == some k`.

`KInv K t` — the C17 invariant `HashTbl.Inv K.hf t`, every stored id has a key, no two stored ids
have the same key — is the statement "`t` is a finite set of ids, keyed by `K.kf`".  This file
derives from the C17 theorems (`find_spec'`, `findOrFindInsertSlot_spec`, `insertInSlot_spec`,
`remove_spec'`, `retain_spec`) what the closure-driven operations do to such a set:

* `lookupK_spec` — `get(hash, eq)` returns the stored id with key `k`, or `None` iff there is none;
* `probeK_spec` — `find_or_find_insert_slot(hash, eq)`: the slot of that id, or an insert slot
  that is *valid for any id whose key will be `k`*;
* `insertK_spec` — `insert_in_slot_unchecked` of a new id into that slot, where the key function
  may change **off the table** (the new node is written into its slot after the probe);
* `removeK_spec`, `retainK_spec`; `KInv.congr` — the invariant only depends on the keys of the
  stored ids.

The reduction used throughout: on a table with `KInv`, the closure `K.eq k` agrees on the stored
ids with `(· == id₀)` where `id₀` is the stored id with key `k`, or — if there is none — with
`(· == x)` for any `x` not in the table (`findP_congr`, `fofP_congr`).
-/
namespace OxiddModel.Bdd.LevelTable
open OxiddModel.HashTbl OxiddModel.HashTbl.Tbl

/-- the invariant depends on the hash function only at the stored elements -/
theorem Inv.congr {hf hf' : Nat → Nat} {t : Tbl} (h : Inv hf t)
    (hag : ∀ x, t.Mem x → hf' x = hf x) : Inv hf' t :=
  ⟨h.capOK, h.lenOK, h.freeLe, h.freeGe, h.probe,
    fun i st k hg => by rw [hag k ⟨i, st, hg⟩]; exact h.statusOK i st k hg, h.uniq⟩

theorem le_sum_of_mem : ∀ (l : List Nat) (k : Nat), k ∈ l → k ≤ l.sum := by
  intro l
  induction l with
  | nil => intro k hk; cases hk
  | cons a r ih =>
    intro k hk
    rw [List.sum_cons]
    rcases List.mem_cons.1 hk with rfl | hk
    · omega
    · have := ih k hk; omega

/-- a table is finite: some number is not stored -/
theorem exists_not_mem (t : Tbl) : ∃ x, ¬ t.Mem x := by
  refine ⟨t.keys.sum + 1, fun h => ?_⟩
  have := le_sum_of_mem _ _ ((mem_keys_iff t _).2 h)
  omega

/-- what a table of ids is keyed by -/
structure Keyed (κ : Type) where
  /-- the hash function on keys (arbitrary) -/
  h : κ → Nat
  /-- the key of an id, read outside the table -/
  kf : Nat → Option κ

variable {κ : Type}

/-- the hash the callers pass for a stored id -/
def Keyed.hf (K : Keyed κ) (id : Nat) : Nat :=
  match K.kf id with
  | some k => K.h k
  | none => 0

/-- the equality closure for the searched key `k` -/
def Keyed.eq [DecidableEq κ] (K : Keyed κ) (k : κ) (id : Nat) : Bool := decide (K.kf id = some k)

theorem Keyed.hf_of_kf {K : Keyed κ} {id : Nat} {k : κ} (h : K.kf id = some k) : K.hf id = K.h k := by
  simp [Keyed.hf, h]

/-- "`t` is a finite set of ids keyed by `K.kf`" -/
structure KInv (K : Keyed κ) (t : Tbl) : Prop where
  inv : Inv K.hf t
  keyed : ∀ id, t.Mem id → ∃ k, K.kf id = some k
  inj : ∀ a b, t.Mem a → t.Mem b → K.kf a = K.kf b → a = b

/-- the invariant only looks at the keys of the stored ids -/
theorem KInv.congr {K K' : Keyed κ} {t : Tbl} (h : KInv K t) (hh : K'.h = K.h)
    (hag : ∀ x, t.Mem x → K'.kf x = K.kf x) : KInv K' t := by
  refine ⟨Inv.congr h.inv ?_, ?_, ?_⟩
  · intro x hx; simp only [Keyed.hf, hag x hx, hh]
  · intro id hid; rw [hag id hid]; exact h.keyed id hid
  · intro a b ha hb; rw [hag a ha, hag b hb]; exact h.inj a b ha hb

theorem KInv.of_mem {K : Keyed κ} {t t' : Tbl} (h : KInv K t) (hinv : Inv K.hf t')
    (hsub : ∀ x, t'.Mem x → t.Mem x) : KInv K t' :=
  ⟨hinv, fun id hid => h.keyed id (hsub id hid),
    fun a b ha hb => h.inj a b (hsub a ha) (hsub b hb)⟩

theorem KInv.new (K : Keyed κ) : KInv K Tbl.new :=
  ⟨new_inv _, fun id h => (new_not_mem id h).elim, fun a _ h => (new_not_mem a h).elim⟩

variable [DecidableEq κ]

/-- the closure is "is this `id₀`" on a table that stores the id `id₀` with key `k` -/
theorem eq_agree_present {K : Keyed κ} {t : Tbl} (hinv : KInv K t) {k : κ} {id0 : Nat}
    (hm : t.Mem id0) (hk : K.kf id0 = some k) :
    ∀ x, t.Mem x → K.eq k x = decide (x = id0) := by
  intro x hx
  unfold Keyed.eq
  by_cases hxe : x = id0
  · subst hxe; simp [hk]
  · have : K.kf x ≠ some k := fun h => hxe (hinv.inj x id0 hx hm (h.trans hk.symm))
    simp [this, hxe]

/-- the closure is "is this `x`", for any `x` outside the table, if no stored id has key `k` -/
theorem eq_agree_absent {K : Keyed κ} {t : Tbl} {k : κ}
    (hno : ∀ id, t.Mem id → K.kf id ≠ some k) {x0 : Nat} (hx0 : ¬ t.Mem x0) :
    ∀ x, t.Mem x → K.eq k x = decide (x = x0) := by
  intro x hx
  unfold Keyed.eq
  have h1 : x ≠ x0 := fun h => hx0 (h ▸ hx)
  simp [hno x hx, h1]

/-- the hash function redirected at one point outside the table -/
def hfAt (hf : Nat → Nat) (x0 hh : Nat) : Nat → Nat := fun x => if x = x0 then hh else hf x

theorem hfAt_inv {hf : Nat → Nat} {t : Tbl} (h : Inv hf t) {x0 : Nat} (hx0 : ¬ t.Mem x0) (hh : Nat) :
    Inv (hfAt hf x0 hh) t := by
  refine Inv.congr h ?_
  intro x hx
  have : x ≠ x0 := fun h => hx0 (h ▸ hx)
  simp [hfAt, this]

theorem hfAt_self (hf : Nat → Nat) (x0 hh : Nat) : hfAt hf x0 hh x0 = hh := by simp [hfAt]

/-! ## lookup -/

/-- `LevelViewSet::get`: `self.0.get(hash_node(node), eq(nodes, node))` -/
def lookupK (K : Keyed κ) (t : Tbl) (k : κ) : Except Err (Option Nat) := getP t (K.h k) (K.eq k)

/-- the hashed lookup terminates and returns the stored id with key `k`, if any — for any hash
function -/
theorem lookupK_spec {K : Keyed κ} {t : Tbl} (hinv : KInv K t) (k : κ) :
    (∃ id, lookupK K t k = .ok (some id) ∧ t.Mem id ∧ K.kf id = some k) ∨
    (lookupK K t k = .ok none ∧ ∀ id, t.Mem id → K.kf id ≠ some k) := by
  unfold lookupK getP
  by_cases hex : ∃ id0, t.Mem id0 ∧ K.kf id0 = some k
  · obtain ⟨id0, hm, hk⟩ := hex
    left
    rw [findP_congr t (K.h k) id0 (eq_agree_present hinv hm hk), ← Keyed.hf_of_kf hk]
    rcases find_spec' hinv.inv id0 with ⟨i, h1, h2⟩ | ⟨_, h2⟩
    · rw [h1]
      simp only [h2, Slot.key?]
      exact ⟨id0, rfl, hm, hk⟩
    · exact (h2 hm).elim
  · have hno : ∀ id, t.Mem id → K.kf id ≠ some k := fun id hm hk => hex ⟨id, hm, hk⟩
    right
    obtain ⟨x0, hx0⟩ := exists_not_mem t
    rw [findP_congr t (K.h k) x0 (eq_agree_absent hno hx0)]
    have hi := hfAt_inv hinv.inv hx0 (K.h k)
    rcases find_spec' hi x0 with ⟨i, _, h2⟩ | ⟨h1, _⟩
    · exact (hx0 ⟨i, _, h2⟩).elim
    · rw [hfAt_self] at h1
      rw [h1]
      exact ⟨rfl, hno⟩

/-- **lookup in a table with stale entries.**  The table was filed under the key function `K0`
(`KInv K0 t`); meanwhile the keys of some stored ids have changed (`K.kf x ≠ K0.kf x`: the node was
rewritten in place and not re-filed, as `level_swap` does with the nodes of the *taken* old upper
level while it still looks nodes up in that table).  A lookup with the closure over the *current*
keys is still exact **provided no stale id currently has the searched key**: it returns the
up-to-date id with key `k`, or `None` iff no stored id has the current key `k`.  (Without the
proviso the answer depends on the hash function: see `stale_hash_breaks`.) -/
theorem lookupK_stale_spec {K0 K : Keyed κ} {t : Tbl} (hinv : KInv K0 t) (hh : K.h = K0.h) (k : κ)
    (hst : ∀ x, t.Mem x → K.kf x = K0.kf x ∨ K.kf x ≠ some k) :
    (∃ id, lookupK K t k = .ok (some id) ∧ t.Mem id ∧ K.kf id = some k ∧ K0.kf id = some k) ∨
    (lookupK K t k = .ok none ∧ ∀ id, t.Mem id → K.kf id ≠ some k) := by
  unfold lookupK getP
  rw [hh]
  by_cases hex : ∃ id0, t.Mem id0 ∧ K.kf id0 = some k
  · obtain ⟨id0, hm, hk⟩ := hex
    have hk0 : K0.kf id0 = some k := by
      rcases hst id0 hm with h | h
      · rw [← h]; exact hk
      · exact (h hk).elim
    left
    have hag : ∀ x, t.Mem x → K.eq k x = decide (x = id0) := by
      intro x hx
      unfold Keyed.eq
      by_cases hxe : x = id0
      · subst hxe; simp [hk]
      · have : K.kf x ≠ some k := by
          rcases hst x hx with h | h
          · rw [h]; exact fun h' => hxe (hinv.inj x id0 hx hm (h'.trans hk0.symm))
          · exact h
        simp [this, hxe]
    rw [findP_congr t (K0.h k) id0 hag, ← Keyed.hf_of_kf hk0]
    rcases find_spec' hinv.inv id0 with ⟨i, h1, h2⟩ | ⟨_, h2⟩
    · rw [h1]
      simp only [h2, Slot.key?]
      exact ⟨id0, rfl, hm, hk, hk0⟩
    · exact (h2 hm).elim
  · have hno : ∀ id, t.Mem id → K.kf id ≠ some k := fun id hm hk => hex ⟨id, hm, hk⟩
    right
    obtain ⟨x0, hx0⟩ := exists_not_mem t
    rw [findP_congr t (K0.h k) x0 (eq_agree_absent hno hx0)]
    have hi := hfAt_inv hinv.inv hx0 (K0.h k)
    rcases find_spec' hi x0 with ⟨i, _, h2⟩ | ⟨h1, _⟩
    · exact (hx0 ⟨i, _, h2⟩).elim
    · rw [hfAt_self] at h1
      rw [h1]
      exact ⟨rfl, hno⟩

/-! ## `find_or_find_insert_slot` -/

/-- the facts about an insert slot `s` reported for hash `hh` that `insert_in_slot_unchecked`
relies on -/
structure Vacant (t : Tbl) (hh s : Nat) : Prop where
  isCap : IsCap t.cap
  spare : t.cap / 4 + 1 ≤ t.free
  lt : s < t.cap
  empty : t.get s = .free ∨ t.get s = .tomb
  path : ∃ ds, ds < t.cap ∧ walk t.cap ds (hh % t.cap) = s ∧
    ∀ d', d' < ds → (t.get (walk t.cap d' (hh % t.cap))).isFree = false

/-- `find_or_find_insert_slot(hash(k), eq k)` on a keyed set: the table may have been rehashed
(same elements), and the answer is the slot of the stored id with key `k`, or — iff there is no
such id — an insert slot.  The only failure is the capacity check of the growth. -/
theorem probeK_spec {K : Keyed κ} {t : Tbl} (hinv : KInv K t) (k : κ) :
    (∃ t1 r, findOrFindInsertSlotP t (K.h k) (K.eq k) = .ok (t1, r) ∧ KInv K t1 ∧
      (∀ x, t1.Mem x ↔ t.Mem x) ∧
      ((∃ i id, r = .found i ∧ t1.get i = .occ (fromHash (K.h k)) id ∧ t.Mem id ∧ K.kf id = some k) ∨
       (∃ s, r = .vacant s ∧ Vacant t1 (K.h k) s ∧ ∀ id, t.Mem id → K.kf id ≠ some k))) ∨
    (findOrFindInsertSlotP t (K.h k) (K.eq k) = .error .capacity ∧
      checkCapacity (nextCapacity (t.len + 1)) = false) := by
  by_cases hex : ∃ id0, t.Mem id0 ∧ K.kf id0 = some k
  · obtain ⟨id0, hm, hk⟩ := hex
    rw [fofP_congr hinv.inv (K.h k) id0 (eq_agree_present hinv hm hk), ← Keyed.hf_of_kf hk]
    rcases findOrFindInsertSlot_spec hinv.inv id0 with ⟨t1, r, h1, h2, h3, _, _, h6⟩ | h
    · left
      refine ⟨t1, r, h1, hinv.of_mem h2 (fun x hx => (h3 x).1 hx), h3, ?_⟩
      rcases h6 with ⟨i, rfl, g⟩ | ⟨s, _, _, _, _, g4⟩
      · exact .inl ⟨i, id0, rfl, g, hm, hk⟩
      · exact (g4 ((h3 id0).2 hm)).elim
    · exact .inr h
  · have hno : ∀ id, t.Mem id → K.kf id ≠ some k := fun id hm hk => hex ⟨id, hm, hk⟩
    obtain ⟨x0, hx0⟩ := exists_not_mem t
    rw [fofP_congr hinv.inv (K.h k) x0 (eq_agree_absent hno hx0)]
    have hi := hfAt_inv hinv.inv hx0 (K.h k)
    have hspec := findOrFindInsertSlot_spec hi x0
    rw [hfAt_self] at hspec
    rcases hspec with ⟨t1, r, h1, h2, h3, hc, h5, h6⟩ | h
    · left
      have h2' : Inv K.hf t1 := by
        refine Inv.congr h2 ?_
        intro x hx
        have : x ≠ x0 := fun h => hx0 (h ▸ (h3 x).1 hx)
        simp [hfAt, this]
      refine ⟨t1, r, h1, hinv.of_mem h2' (fun x hx => (h3 x).1 hx), h3, ?_⟩
      rcases h6 with ⟨i, _, g⟩ | ⟨s, rfl, g1, g2, g3, _⟩
      · exact (hx0 ((h3 x0).1 ⟨i, _, g⟩)).elim
      · exact .inr ⟨s, rfl, ⟨hc, h5, g1, g2, g3⟩, hno⟩
    · exact .inr h

/-! ## insertion of a new id into the reported slot -/

omit [DecidableEq κ] in
/-- `insert_in_slot_unchecked(hash(k), slot, a)` for a new id `a` whose key *is now* `k`: between
the probe and the insertion the key function may have changed anywhere off the table (the node
`a` has been written into the slot array).  The result is the keyed set `t ∪ {a}`. -/
theorem insertK_spec {K K' : Keyed κ} {t : Tbl} (hinv : KInv K t) {k : κ} {s : Nat}
    (hv : Vacant t (K.h k) s) (hno : ∀ id, t.Mem id → K.kf id ≠ some k)
    (hh : K'.h = K.h) (hag : ∀ x, t.Mem x → K'.kf x = K.kf x)
    {a : Nat} (ha : ¬ t.Mem a) (hka : K'.kf a = some k) :
    ∃ t2, t.insertInSlot (K.h k) s a = .ok t2 ∧ KInv K' t2 ∧ t2.cap = t.cap ∧
      ∀ x, t2.Mem x ↔ (x = a ∨ t.Mem x) := by
  have hinv' : KInv K' t := hinv.congr hh hag
  have hha : K'.hf a = K.h k := by rw [Keyed.hf_of_kf hka, hh]
  have hpath := hv.path
  rw [← hha] at hpath
  obtain ⟨t2, h1, h2, h3, h4⟩ := insertInSlot_spec hinv'.inv hv.isCap hv.lt hv.empty hpath ha hv.spare
  rw [hha] at h1
  refine ⟨t2, h1, ⟨h2, ?_, ?_⟩, h3, h4⟩
  · intro id hid
    rcases (h4 id).1 hid with rfl | hid
    · exact ⟨k, hka⟩
    · exact hinv'.keyed id hid
  · intro x y hx hy hxy
    have hno' : ∀ id, t.Mem id → K'.kf id ≠ some k := fun id hid => by rw [hag id hid]; exact hno id hid
    rcases (h4 x).1 hx with rfl | hx <;> rcases (h4 y).1 hy with rfl | hy
    · rfl
    · exact (hno' y hy (hxy ▸ hka)).elim
    · exact (hno' x hx (hxy ▸ hka)).elim
    · exact hinv'.inj x y hx hy hxy

/-! ## removal, retain -/

/-- `remove_entry(hash(k), eq k)` -/
theorem removeK_spec {K : Keyed κ} {t : Tbl} (hinv : KInv K t) (k : κ) :
    (∃ t' id, removeP t (K.h k) (K.eq k) = .ok (t', some id) ∧ KInv K t' ∧ t'.cap = t.cap ∧
      t.Mem id ∧ K.kf id = some k ∧ ∀ x, t'.Mem x ↔ (t.Mem x ∧ x ≠ id)) ∨
    (removeP t (K.h k) (K.eq k) = .ok (t, none) ∧ ∀ id, t.Mem id → K.kf id ≠ some k) := by
  by_cases hex : ∃ id0, t.Mem id0 ∧ K.kf id0 = some k
  · obtain ⟨id0, hm, hk⟩ := hex
    left
    rw [← Keyed.hf_of_kf hk, removeP_congr hinv.inv id0 (eq_agree_present hinv hm hk)]
    obtain ⟨t', b, h1, h2, h3, h4, h5⟩ := remove_spec' hinv.inv id0
    have hb : b = true := h4.2 hm
    subst hb
    rw [h1]
    exact ⟨t', id0, rfl, hinv.of_mem h2 (fun x hx => ((h5 x).1 hx).1), h3, hm, hk, h5⟩
  · have hno : ∀ id, t.Mem id → K.kf id ≠ some k := fun id hm hk => hex ⟨id, hm, hk⟩
    right
    obtain ⟨x0, hx0⟩ := exists_not_mem t
    have hi := hfAt_inv hinv.inv hx0 (K.h k)
    have hc := removeP_congr hi x0 (eq_agree_absent hno hx0)
    rw [hfAt_self] at hc
    rw [hc]
    obtain ⟨t', b, h1, _, _, h4, _⟩ := remove_spec' hi x0
    rw [hfAt_self] at h1
    have hb : b = false := by
      cases b with
      | false => rfl
      | true => exact (hx0 (h4.1 rfl)).elim
    subst hb
    unfold Tbl.remove at h1 ⊢
    rcases find_spec' hi x0 with ⟨i, _, g2⟩ | ⟨g1, _⟩
    · exact (hx0 ⟨i, _, g2⟩).elim
    · rw [hfAt_self] at g1
      rw [g1]
      exact ⟨rfl, hno⟩

omit [DecidableEq κ] in
/-- `retain(keep, drop)`: the keyed set restricted to `keep`; the others are dropped once each -/
theorem retainK_spec {K : Keyed κ} {t : Tbl} (hinv : KInv K t) (p : Nat → Bool) :
    ∃ t' d, t.retain p = .ok (t', d) ∧ KInv K t' ∧
      (∀ x, t'.Mem x ↔ (t.Mem x ∧ p x = true)) ∧
      d.Nodup ∧ (∀ x, x ∈ d ↔ (t.Mem x ∧ p x = false)) := by
  obtain ⟨t', d, h1, h2, h3, h4, h5⟩ := retain_spec hinv.inv p
  have h3' : ∀ x, t'.Mem x ↔ (t.Mem x ∧ p x = true) := fun x => by
    rw [← mem_keys_iff, ← mem_keys_iff]; exact h3 x
  refine ⟨t', d, h1, hinv.of_mem h2 (fun x hx => ((h3' x).1 hx).1), h3', h4, ?_⟩
  intro x; rw [← mem_keys_iff]; exact h5 x

end OxiddModel.Bdd.LevelTable
