import OxiddModel.Bdd.Threads
import OxiddModel.Locks.Model

/-!
# `LThreads`: the interleaving machine of `Threads.lean` at the granularity of lock operations

`Threads.lean` executes `get_or_insert`, a cache query, a cache insertion and the sweep of one level
as ONE step each and *assumes* that the code makes them atomic. This file defines the finer machine
in which these actions are **critical sections made of micro-steps**, protected by the real locks:

| atomic action of `Threads` | micro-steps here | code |
|---|---|---|
| `Action.mk l t e` (`reduce`) | `t == e` test (local); `lock(level l)` (blocks while owned); read the table (`find?`); on a miss allocate + write (`alloc`); `unlock(level l)` | `reduce` (rules-bdd simple/mod.rs:66-73), `LevelViewSet::get_or_insert` under `unique_table[l].lock()` (manager.rs:1435, 1717-1748) |
| `Action.cacheGet` | `try_lock(bucket b)` (owned ⇒ the query is a miss, nothing else happens); compare the entry with the key; copy the result edge; `unlock` | `DMApplyCache::get_extended` (direct.rs:421-440) |
| `Action.cacheAdd` | `try_lock(bucket b)` (owned ⇒ the entry is not stored); write the entry; `unlock` | `add_extended` (direct.rs:443-463) |
| `gcBegin` | `try_lock(gc_ongoing)`; for every bucket in index order: `lock` (blocks while a thread owns it), `clear`, keep it locked | `Manager::gc` (manager.rs:1482-1505), `pre_gc` (direct.rs:478-488) |
| `gcLevel l` | `lock(level l)` (blocks while a thread owns it); sweep; `unlock(level l)` | manager.rs:1511-1524 |
| `gcEnd` | for every bucket: `unlock`; `unlock(gc_ongoing)` | `post_gc` (direct.rs:490-499), manager.rs:1533 |

The shared state contains a **lock table** (`Sh.locks`: owner of every lock, lock identifiers are
those of `Locks.Model`). Every micro-step that touches data protected by a lock is **guarded by
ownership**: it is enabled only if the acting task owns the lock (`guardOwn`); `lock` is enabled
only while the lock is free, `try_lock` is always enabled. Everything else is as in `Threads`:
same `Call`s, same program text (`Call.classify` = `Call.entry`, `Call.expand`, `fork`), same
threads / scripts / handles, any interleaving of micro-steps of different tasks.

The owner of a lock is a **task**, i.e. a thread id together with the position of the leaf of the
call tree that runs (`Who.task tid pos`; the two branches of a fork of the parallel recursor run
on different pool workers and exclude each other like different threads), or a collector
(`Who.gc`).

Every step carries a label `ev` saying whether it is the **commit point** of the atomic action it
belongs to (`some b`: the action of `Threads` takes place now, `b = false` iff a `try_lock` just
failed) or not (`none`). Labels do not influence the behaviour; they are what `LockStepsSim.lean`
proves correct.

`Variant` switches on two *defects* used for the negative witnesses only (`LockStepsBad.lean`);
all theorems are about `Variant.code`.

Not split further (one micro-step each, under the lock): the lookup in the level's table; slot
allocation together with the insertion (the slot allocator has its own synchronisation, area
`Alloc`); the sweep of one level (its interleaving with `retain`/`release`, which are not lock
protected, is the subject of `RThreads`).
-/
namespace OxiddModel.Bdd.LThreads
open OxiddModel.Bdd OxiddModel.Bdd.BDD OxiddModel.Bdd.Refine OxiddModel.Bdd.Threads
open OxiddModel.Locks (Lock)

/-! ## lock table -/

/-- who can own a lock: the task at position `pos` of the call tree of thread `tid`, or the
collector -/
inductive Who where
  | task (tid : Nat) (pos : List Bool)
  | gc
deriving DecidableEq, Repr

/-- the shared state: unique table, apply cache, time stamp (`St`) and the owner of every lock -/
structure Sh where
  st : St
  locks : Lock → Option Who

def setLock (lk : Lock → Option Who) (L : Lock) (v : Option Who) : Lock → Option Who :=
  fun L' => if L' = L then v else lk L'

/-- the lock becomes owned by `w` -/
def Sh.acq (sh : Sh) (L : Lock) (w : Who) : Sh := { sh with locks := setLock sh.locks L (some w) }
/-- the lock becomes free -/
def Sh.rel (sh : Sh) (L : Lock) : Sh := { sh with locks := setLock sh.locks L none }
/-- a cache access has taken place (time stamp of `St`) -/
def Sh.tick (sh : Sh) : Sh := { sh with st := sh.st.tickd }

/-- the two seeded defects (negative witnesses); the code is `Variant.code` -/
structure Variant where
  /-- `get_or_insert` keeps the level lock between lookup and insertion -/
  mkHoldsLock : Bool
  /-- `pre_gc` keeps the buckets locked until `post_gc` -/
  gcLocksBuckets : Bool

def Variant.code : Variant := ⟨true, true⟩

/-- parameters of the direct-mapped cache: number of buckets, hash function -/
structure CachePar where
  cap : Nat
  hash : Key → Nat

/-- the bucket of a key (`DMApplyCache::bucket`, direct.rs:358) -/
def CachePar.bkt (cp : CachePar) (k : Key) : Nat := cp.hash k % cp.cap

/-! ## control states -/

/-- inside a cache query, holding the bucket lock -/
inductive GetPh where
  | locked
  | hit (h : Edge)
  | copied (h : Edge)
  | missed
deriving DecidableEq, Repr

/-- inside a cache insertion, holding the bucket lock -/
inductive AddPh where
  | locked
  | written
deriving DecidableEq, Repr

/-- inside `get_or_insert`. `gap` / `relocked` occur only in the defective variant that releases
the level lock between lookup and insertion. -/
inductive MkPh where
  | locked
  | missed
  | gap
  | relocked
  | done (r : Edge)
deriving DecidableEq, Repr

/-- `Task` of `Threads.lean` with the control states inside the critical sections -/
inductive LTask where
  | call (d : Nat) (c : Call)
  | cget (d : Nat) (c : Call) (key : Key) (ph : GetPh)
  | miss (d : Nat) (c : Call) (key : Key)
  | seq1 (fr : Frame) (c0 : Call) (t1 : LTask)
  | seq0 (fr : Frame) (r1 : Edge) (t0 : LTask)
  | par (fr : Frame) (t1 t0 : LTask)
  | red (isPar : Bool) (fr : Frame) (r1 r0 : Edge) (ph : MkPh)
  | made (key : Key) (r : Edge)
  | cadd (key : Key) (r : Edge) (ph : AddPh)
  | ret (r : Edge)
deriving DecidableEq, Repr

def LTask.ret? : LTask → Option Edge
  | .ret r => some r
  | _ => none

/-- the frame that is about to `reduce`: both results are there -/
def unred (isPar : Bool) (fr : Frame) (r1 r0 : Edge) : Task :=
  match isPar with
  | true => .par fr (.ret r1) (.ret r0)
  | false => .seq0 fr r1 (.ret r0)

/-- **the control state of `Threads` a micro-state stands for**: before the commit point of a
critical section the state before the atomic action, from the commit point on the state after
it -/
def getAbs (d : Nat) (c : Call) (key : Key) : GetPh → Task
  | .locked => .call d c
  | .hit h => .ret h
  | .copied h => .ret h
  | .missed => .miss d c key

def addAbs (key : Key) (r : Edge) : AddPh → Task
  | .locked => .made key r
  | .written => .ret r

def redAbs (isPar : Bool) (fr : Frame) (r1 r0 : Edge) : MkPh → Task
  | .done r => .made fr.key r
  | _ => unred isPar fr r1 r0

def LTask.abs : LTask → Task
  | .call d c => .call d c
  | .cget d c key ph => getAbs d c key ph
  | .miss d c key => .miss d c key
  | .seq1 fr c0 t1 => .seq1 fr c0 t1.abs
  | .seq0 fr r1 t0 => .seq0 fr r1 t0.abs
  | .par fr t1 t0 => .par fr t1.abs t0.abs
  | .red isPar fr r1 r0 ph => redAbs isPar fr r1 r0 ph
  | .made key r => .made key r
  | .cadd key r ph => addAbs key r ph
  | .ret r => .ret r

/-- a control state of `Threads` as a control state of this machine -/
def lift : Task → LTask
  | .call d c => .call d c
  | .miss d c key => .miss d c key
  | .seq1 fr c0 t1 => .seq1 fr c0 (lift t1)
  | .seq0 fr r1 t0 => .seq0 fr r1 (lift t0)
  | .par fr t1 t0 => .par fr (lift t1) (lift t0)
  | .made key r => .made key r
  | .ret r => .ret r

/-! ## the entry of a call without the cache access -/

/-- what the entry of a call does before any shared access: a thread-local step (terminal case or
delegation), or a cache query under `key` -/
inductive Entry where
  | loc (t : Task)
  | qry (key : Key)

/-- the case analysis of `Call.entry` (`Threads.lean`), same branches in the same order -/
def Call.classify (d : Nat) : Call → Entry
  | .not f =>
    match f with
    | .term b => .loc (.ret (.term (!b)))
    | .inner _ => .qry (.not, [f])
  | .bin op f g =>
    match terminalBinS op f g with
    | .done h => .loc (.ret h)
    | .notOf h => .loc (.call d (.not h))
    | .binary tag o1 o2 => .qry (tag, [o1, o2])
  | .ite f g h =>
    if g = h then .loc (.ret g) else
    if f = g then .loc (.call d (.bin .or f h)) else
    if f = h then .loc (.call d (.bin .and f g)) else
    match f with
    | .term b => .loc (.ret (if b then g else h))
    | .inner _ =>
      match g, h with
      | .term true, .inner _ => .loc (.call d (.bin .or f h))
      | .term false, .inner _ => .loc (.call d (.bin .impStrict f h))
      | .inner _, .term true => .loc (.call d (.bin .imp f g))
      | .inner _, .term false => .loc (.call d (.bin .and f g))
      | .term gb, .term _ => if gb then .loc (.ret f) else .loc (.call d (.not f))
      | .inner _, .inner _ => .qry (.ite, [f, g, h])

/-! ## micro-steps of a task -/

/-- result of a micro-step: new shared state, new control state, commit label -/
structure MOut where
  sh : Sh
  t : LTask
  ev : Option Bool

/-- a step on data protected by `L` is enabled only for the owner of `L` -/
def guardOwn (sh : Sh) (L : Lock) (w : Who) (o : MOut) : Option MOut :=
  if sh.locks L = some w then some o else none

/-- `reduce(level, t, e)`: the `t == e` test, else the blocking `lock(level)` -/
def reduceStart (sh : Sh) (w : Who) (isPar : Bool) (fr : Frame) (r1 r0 : Edge) : Option MOut :=
  if r1 = r0 then some ⟨sh, .made fr.key r1, some true⟩ else
  match sh.locks (.level fr.lvl) with
  | none => some ⟨sh.acq (.level fr.lvl) w, .red isPar fr r1 r0 .locked, none⟩
  | some _ => none

/-- allocate a slot, write the node, insert it into the table of its level -/
def writeNode (sh : Sh) (isPar : Bool) (fr : Frame) (r1 r0 : Edge) : MOut :=
  let r := sh.st.store.alloc ⟨fr.lvl, r1, r0⟩
  ⟨{ sh with st := ⟨r.1, sh.st.cache, sh.st.tick⟩ }, .red isPar fr r1 r0 (.done (.inner r.2)),
    some true⟩

/-- which branch of a `par` node moves (as `pickLeft` of `Threads.lean`, on the control states of
this machine) -/
def pickLeftL (path : List Bool) (t1 t0 : LTask) : Bool :=
  match t1.ret?, t0.ret? with
  | some _, _ => false
  | none, some _ => true
  | none, none => path.headD true

/-- **one micro-step of the task tree** of thread `tid`; `pos` is the position of `t` in the tree
(the branch choices above it), `path` the scheduler's choices below. `none`: the step is not
enabled (a `lock` on an owned lock, or — never, see `access_by_owner` — an access by a
non-owner). -/
def LTask.step (v : Variant) (cp : CachePar) (tid : Nat) (sh : Sh) :
    List Bool → LTask → List Bool → Option MOut
  | _, .ret r, _ => some ⟨sh, .ret r, none⟩
  | pos, .call d c, _ =>
    match Call.classify d c with
    | .loc t => some ⟨sh, lift t, some true⟩
    | .qry key =>
      match sh.locks (.bucket (cp.bkt key)) with
      | none => some ⟨sh.acq (.bucket (cp.bkt key)) (.task tid pos), .cget d c key .locked, none⟩
      | some _ => some ⟨sh.tick, .miss d c key, some false⟩
  | pos, .cget d c key ph, _ =>
    guardOwn sh (.bucket (cp.bkt key)) (.task tid pos) <|
      match ph with
      | .locked =>
        match sh.st.cache.lookup key with
        | some h => ⟨sh.tick, .cget d c key (.hit h), some true⟩
        | none => ⟨sh.tick, .cget d c key .missed, some true⟩
      | .hit h => ⟨sh, .cget d c key (.copied h), none⟩
      | .copied h => ⟨sh.rel (.bucket (cp.bkt key)), .ret h, none⟩
      | .missed => ⟨sh.rel (.bucket (cp.bkt key)), .miss d c key, none⟩
  | _, .miss d c key, _ => some ⟨sh, lift (c.expand sh.st.store d key), some true⟩
  | pos, .seq1 fr c0 t1, path =>
    match t1.ret? with
    | some r1 => some ⟨sh, .seq0 fr r1 (.call 0 c0), some true⟩
    | none => (t1.step v cp tid sh pos path).map fun o => { o with t := .seq1 fr c0 o.t }
  | pos, .seq0 fr r1 t0, path =>
    match t0.ret? with
    | some r0 => reduceStart sh (.task tid pos) false fr r1 r0
    | none => (t0.step v cp tid sh pos path).map fun o => { o with t := .seq0 fr r1 o.t }
  | pos, .par fr t1 t0, path =>
    match t1.ret?, t0.ret? with
    | some r1, some r0 => reduceStart sh (.task tid pos) true fr r1 r0
    | _, _ =>
      if pickLeftL path t1 t0 then
        (t1.step v cp tid sh (pos ++ [true]) path.tail).map fun o => { o with t := .par fr o.t t0 }
      else
        (t0.step v cp tid sh (pos ++ [false]) path.tail).map fun o => { o with t := .par fr t1 o.t }
  | pos, .red isPar fr r1 r0 ph, _ =>
    match ph with
    | .gap =>
      match sh.locks (.level fr.lvl) with
      | none => some ⟨sh.acq (.level fr.lvl) (.task tid pos), .red isPar fr r1 r0 .relocked, none⟩
      | some _ => none
    | .locked =>
      guardOwn sh (.level fr.lvl) (.task tid pos) <|
        match sh.st.store.find? ⟨fr.lvl, r1, r0⟩ with
        | some i => ⟨sh, .red isPar fr r1 r0 (.done (.inner i)), some true⟩
        | none => ⟨sh, .red isPar fr r1 r0 .missed, none⟩
    | .missed =>
      guardOwn sh (.level fr.lvl) (.task tid pos) <|
        if v.mkHoldsLock then writeNode sh isPar fr r1 r0
        else ⟨sh.rel (.level fr.lvl), .red isPar fr r1 r0 .gap, none⟩
    | .relocked => guardOwn sh (.level fr.lvl) (.task tid pos) (writeNode sh isPar fr r1 r0)
    | .done r =>
      guardOwn sh (.level fr.lvl) (.task tid pos) ⟨sh.rel (.level fr.lvl), .made fr.key r, none⟩
  | pos, .made key r, _ =>
    match sh.locks (.bucket (cp.bkt key)) with
    | none => some ⟨sh.acq (.bucket (cp.bkt key)) (.task tid pos), .cadd key r .locked, none⟩
    | some _ => some ⟨sh.tick, .ret r, some false⟩
  | pos, .cadd key r ph, _ =>
    guardOwn sh (.bucket (cp.bkt key)) (.task tid pos) <|
      match ph with
      | .locked =>
        ⟨{ sh with st := ⟨sh.st.store,
            (key, r) :: sh.st.cache.filter (fun x => cp.hash x.1 % cp.cap != cp.hash key % cp.cap),
            sh.st.tick + 1⟩ }, .cadd key r .written, some true⟩
      | .written => ⟨sh.rel (.bucket (cp.bkt key)), .ret r, none⟩

/-! ## threads -/

structure LThread where
  depth : Nat
  hs : List (Option Edge)
  script : List Cmd
  cur : Option LTask
deriving DecidableEq, Repr

def LThread.abs (th : LThread) : Thread := ⟨th.depth, th.hs, th.script, th.cur.map LTask.abs⟩

def liftThread (th : Thread) : LThread := ⟨th.depth, th.hs, th.script, th.cur.map lift⟩

/-- one micro-step of a thread (issuing a command and storing a result are thread-local, as in
`Threads.lean`) -/
def LThread.step (v : Variant) (cp : CachePar) (tid : Nat) (sh : Sh) (th : LThread)
    (path : List Bool) : Option (Sh × LThread × Option Bool) :=
  match th.cur with
  | some t =>
    match t.ret? with
    | some r => some (sh, { th with hs := th.hs ++ [some r], cur := none }, some true)
    | none => (t.step v cp tid sh [] path).map fun o => (o.sh, { th with cur := some o.t }, o.ev)
  | none =>
    match th.script with
    | [] => some (sh, th, none)
    | c :: rest => some (sh, liftThread (c.start th.abs rest), some true)

def LThread.done (th : LThread) : Bool := th.cur.isNone && th.script.isEmpty

/-! ## the collector -/

/-- control state of `Manager::gc` -/
inductive GcPc where
  | idle
  /-- holds `gc_ongoing` and buckets `< b` (cleared); next: `lock(bucket b)` -/
  | locking (b : Nat)
  /-- holds buckets `≤ b`; next: clear bucket `b` -/
  | clearing (b : Nat)
  /-- holds all buckets; next: lock some level, or start `post_gc` -/
  | levels
  | lvlLocked (l : Nat)
  | lvlSwept (l : Nat)
  /-- `post_gc`: buckets `≥ b` still held; next: `unlock(bucket b)` -/
  | unlocking (b : Nat)
  /-- next: `gc_ongoing.unlock()` -/
  | release
deriving DecidableEq, Repr

/-- what the scheduler tells the collector between two levels -/
inductive GcChoice where
  | level (l : Nat)
  | finish
deriving DecidableEq, Repr

structure LCfg where
  sh : Sh
  threads : List LThread
  gc : GcPc

/-- the collector's root set (= `Cfg.roots` of the configuration this one stands for) -/
def LCfg.roots (c : LCfg) : List Edge := (c.threads.map LThread.abs).flatMap Thread.owned

inductive LSel where
  | thread (tid : Nat) (path : List Bool)
  | gc (ch : GcChoice)
deriving DecidableEq, Repr

/-- label of a step of the machine: the step of `Threads` that takes place now (with the outcome
of the `try_lock` of a cache access) -/
abbrev Label := Option (Bool × Sel)

def clearBucket (cp : CachePar) (c : Cache) (b : Nat) : Cache :=
  c.filter (fun x => cp.hash x.1 % cp.cap != b)

/-- **one micro-step of the collector** -/
def gcStep (v : Variant) (cp : CachePar) (c : LCfg) (ch : GcChoice) : Option (LCfg × Label) :=
  match c.gc with
  | .idle =>
    match c.sh.locks .gcOngoing with
    | none => some ({ c with sh := c.sh.acq .gcOngoing .gc, gc := .locking 0 }, none)
    | some _ => some (c, none)
  | .locking b =>
    match c.sh.locks (.bucket b) with
    | none => some ({ c with sh := c.sh.acq (.bucket b) .gc, gc := .clearing b }, none)
    | some _ => none
  | .clearing b =>
    if c.sh.locks (.bucket b) = some .gc then
      let sh1 : Sh := { c.sh with st := ⟨c.sh.st.store, clearBucket cp c.sh.st.cache b, c.sh.st.tick⟩ }
      let sh2 : Sh := if v.gcLocksBuckets then sh1 else sh1.rel (.bucket b)
      if b + 1 < cp.cap then some ({ c with sh := sh2, gc := .locking (b + 1) }, none)
      else some ({ c with sh := sh2, gc := .levels }, some (true, .gcBegin))
    else none
  | .levels =>
    match ch with
    | .level l =>
      match c.sh.locks (.level l) with
      | none => some ({ c with sh := c.sh.acq (.level l) .gc, gc := .lvlLocked l }, none)
      | some _ => none
    | .finish => some ({ c with gc := .unlocking 0 }, none)
  | .lvlLocked l =>
    if c.sh.locks (.level l) = some .gc then
      some ({ c with
        sh := { c.sh with st := { c.sh.st with store := sweepLevel c.sh.st.store c.roots l } },
        gc := .lvlSwept l }, some (true, .gcLevel l))
    else none
  | .lvlSwept l =>
    if c.sh.locks (.level l) = some .gc then
      some ({ c with sh := c.sh.rel (.level l), gc := .levels }, none)
    else none
  | .unlocking b =>
    if c.sh.locks (.bucket b) = some .gc ∨ v.gcLocksBuckets = false then
      some ({ c with sh := c.sh.rel (.bucket b),
                     gc := if b + 1 < cp.cap then .unlocking (b + 1) else .release },
        if b = 0 then some (true, .gcEnd) else none)
    else none
  | .release =>
    if c.sh.locks .gcOngoing = some .gc then
      some ({ c with sh := c.sh.rel .gcOngoing, gc := .idle }, none)
    else none

/-! ## the machine -/

/-- **one micro-step of the machine**; `none`: the selected step is not enabled -/
def LCfg.step (v : Variant) (cp : CachePar) (c : LCfg) : LSel → Option (LCfg × Label)
  | .thread tid path =>
    match c.threads[tid]? with
    | none => some (c, none)
    | some th =>
      (th.step v cp tid c.sh path).map fun o =>
        ({ c with sh := o.1, threads := c.threads.set tid o.2.1 },
          o.2.2.map fun b => (b, .thread tid path))
  | .gc ch => gcStep v cp c ch

/-- run a schedule; a selected step that is not enabled is skipped (the thread spins / sleeps).
Returns the final configuration and the labels of the commit points in order. -/
def LCfg.run (v : Variant) (cp : CachePar) (c : LCfg) : List LSel → LCfg × List (Bool × Sel)
  | [] => (c, [])
  | s :: ss =>
    match c.step v cp s with
    | none => c.run v cp ss
    | some (c', none) => c'.run v cp ss
    | some (c', some l) => let r := c'.run v cp ss; (r.1, l :: r.2)

def LCfg.allDone (c : LCfg) : Bool := c.threads.all LThread.done

/-- reachable configurations -/
inductive Reach (v : Variant) (cp : CachePar) (c0 : LCfg) : LCfg → Prop where
  | refl : Reach v cp c0 c0
  | step {c c' : LCfg} {l : Label} (s : LSel) : Reach v cp c0 c → c.step v cp s = some (c', l) →
      Reach v cp c0 c'

/-- the configuration of `Threads` a configuration of this machine stands for, given the cache
of `Threads` (`LockStepsSim.CRel`: the two caches differ only in buckets the collector has
already cleared in a `pre_gc` that is not complete yet) -/
def gcActiveOf : GcPc → Bool
  | .levels | .lvlLocked _ | .lvlSwept _ | .unlocking 0 => true
  | _ => false

/-- buckets `< clearedOf pc` have been cleared by a `pre_gc` that is still locking buckets -/
def clearedOf : GcPc → Nat
  | .locking b => b
  | .clearing b => b
  | _ => 0

end OxiddModel.Bdd.LThreads
