import OxiddModel.Bdd.LockSteps
import OxiddModel.Bdd.PropertiesC06

/-!
# `LThreads`: what goes wrong without the locks (negative witnesses, by evaluation)

Two defective variants of the machine (`Variant`), each with a concrete schedule on the store
`exStore` of `PropertiesC06` (`#0 = x1`, `#1 = x0 ∧ x1`, `#2 = x0 ∨ x1`), and the same schedule on
the code's variant for comparison.

* `check_then_act_*` — `get_or_insert` releases the level lock between lookup and insertion
  (`mkHoldsLock = false`): two threads computing `¬x1` both miss, both insert: the unique table
  holds the node twice (`¬ Unique`), the two threads hold different edges for the same function.
* `unlocked_buckets_*` — `pre_gc` clears the buckets but does not keep them locked
  (`gcLocksBuckets = false`; the seeded change `C07-cache-unlocked-during-gc`): a thread adds an
  entry while the collection is going on, drops its result, the sweep frees the node, a later
  query of another thread **hits** the stale entry and returns an edge to a free slot.
-/
namespace OxiddModel.Bdd.LThreads.Bad
open OxiddModel.Bdd OxiddModel.Bdd.BDD OxiddModel.Bdd.Refine OxiddModel.Bdd.Threads
open OxiddModel.Bdd.LThreads OxiddModel.Bdd.C06

/-- two buckets (bucket = number of operands) -/
def cp : CachePar := ⟨2, fun k => k.2.length⟩

/-- `get_or_insert` releases the level lock between lookup and insertion -/
def checkThenAct : Variant := ⟨false, true⟩
/-- `pre_gc` does not keep the buckets locked -/
def bucketsUnlocked : Variant := ⟨true, false⟩

def a : LSel := .thread 0 []
def b : LSel := .thread 1 []
def g : LSel := .gc .finish

/-! ## check-then-act -/

/-- both threads own `#0 = x1` and compute `¬x1` -/
def cfg1 : LCfg := ⟨⟨⟨exStore, [], 0⟩, fun _ => none⟩,
  [⟨0, [some (.inner 0)], [.not 0], none⟩, ⟨0, [some (.inner 0)], [.not 0], none⟩], .idle⟩

/-- thread 0 runs up to the gap between lookup and insertion, so does thread 1, then both finish -/
def sched1 : List LSel :=
  List.replicate 11 a ++ List.replicate 11 b ++ List.replicate 10 a ++ List.replicate 10 b

/-- after the first 22 steps both threads are in the gap: both have looked up `(1, ⊥, ⊤)` without
finding it and hold no lock -/
theorem check_then_act_gap :
    ((cfg1.run checkThenAct cp (List.replicate 11 a ++ List.replicate 11 b)).1.threads.map (·.cur)) =
      [some (.red false ⟨(.not, [.inner 0]), 1⟩ (.term false) (.term true) .gap),
       some (.red false ⟨(.not, [.inner 0]), 1⟩ (.term false) (.term true) .gap)] := by
  decide +kernel

/-- **check-then-act creates a duplicate node**: slots 3 and 4 hold the same node, and the two
threads end with different handles for `¬x1` -/
theorem check_then_act_duplicate :
    (cfg1.run checkThenAct cp sched1).1.sh.st.store.get? 3 = some ⟨1, .term false, .term true⟩ ∧
    (cfg1.run checkThenAct cp sched1).1.sh.st.store.get? 4 = some ⟨1, .term false, .term true⟩ ∧
    (cfg1.run checkThenAct cp sched1).1.threads.map (·.hs) =
      [[some (.inner 0), some (.inner 3)], [some (.inner 0), some (.inner 4)]] ∧
    (cfg1.run checkThenAct cp sched1).1.allDone = true := by
  decide +kernel

theorem check_then_act_not_unique : ¬ (cfg1.run checkThenAct cp sched1).1.sh.st.store.Unique := by
  intro hu
  have := hu 3 4 _ check_then_act_duplicate.1 check_then_act_duplicate.2.1
  cases this

/-- the same schedule on the code's variant (the steps of thread 1 that would enter the critical
section while thread 0 is inside are not enabled and are skipped): one node, same handle -/
theorem code_same_schedule_unique :
    (cfg1.run .code cp sched1).1.sh.st.store.nodes =
      #[some ⟨1, .term true, .term false⟩, some ⟨0, .inner 0, .term false⟩,
        some ⟨0, .term true, .inner 0⟩, some ⟨1, .term false, .term true⟩] ∧
    (cfg1.run .code cp sched1).1.threads.map (·.hs) =
      [[some (.inner 0), some (.inner 3)], [some (.inner 0), some (.inner 3)]] ∧
    (cfg1.run .code cp sched1).1.allDone = true := by
  decide +kernel

/-! ## buckets not locked during a collection -/

/-- thread 0 computes `¬x1` and drops the result; thread 1 computes `¬x1` later -/
def cfg2 : LCfg := ⟨⟨⟨exStore, [], 0⟩, fun _ => none⟩,
  [⟨0, [some (.inner 0)], [.not 0, .drop 1], none⟩, ⟨0, [some (.inner 0)], [.not 0], none⟩], .idle⟩

/-- thread 0 creates `#3 = ¬x1` (12 steps); the collector takes `gc_ongoing` and clears both
buckets (5 steps); thread 0 adds `(Not, [#0]) ↦ #3` to the cache, stores and drops its handle
(5 steps); the collector sweeps level 1 and finishes (7 steps); thread 1 computes `¬x1` (6 steps) -/
def sched2 : List LSel :=
  List.replicate 12 a ++ List.replicate 5 g ++ List.replicate 5 a ++
    [.gc (.level 1), g, g, g, g, g, g] ++ List.replicate 6 b

/-- **a stale cache hit**: the entry added during the collection survives, the sweep frees slot 3,
and thread 1's query hits: its result handle `#3` points to a free slot -/
theorem unlocked_buckets_stale_hit :
    (cfg2.run bucketsUnlocked cp sched2).1.sh.st.cache = [((.not, [.inner 0]), .inner 3)] ∧
    (cfg2.run bucketsUnlocked cp sched2).1.sh.st.store.get? 3 = none ∧
    (cfg2.run bucketsUnlocked cp sched2).1.threads.map (·.hs) =
      [[some (.inner 0), none], [some (.inner 0), some (.inner 3)]] ∧
    (cfg2.run bucketsUnlocked cp sched2).1.allDone = true ∧
    (cfg2.run bucketsUnlocked cp sched2).1.gc = .idle := by
  decide +kernel

/-- the result of thread 1 denotes nothing, and the cache is unsound -/
theorem unlocked_buckets_dangling :
    (¬ ∃ T, Denotes (cfg2.run bucketsUnlocked cp sched2).1.sh.st.store (.inner 3) T) ∧
    ¬ CacheOK (cfg2.run bucketsUnlocked cp sched2).1.sh.st.store
        (cfg2.run bucketsUnlocked cp sched2).1.sh.st.cache := by
  have h3 := unlocked_buckets_stale_hit.2.1
  constructor
  · rintro ⟨T, hd⟩
    cases hd with
    | inner hi _ _ => rw [h3] at hi; cases hi
  · intro hc
    obtain ⟨ts, T, _, _, hd⟩ := hc (.not, [.inner 0]) (.inner 3)
      (by rw [unlocked_buckets_stale_hit.1]; exact List.mem_cons_self)
    cases hd with
    | inner hi _ _ => rw [h3] at hi; cases hi

/-- the same schedule on the code's variant: thread 0's add fails (`try_lock` on a bucket the
collector owns), the cache stays empty during the collection, thread 1 misses and recomputes
(it is in the middle of that after its 6 steps) -/
theorem code_same_schedule_no_stale :
    (cfg2.run .code cp sched2).1.sh.st.cache = [] ∧
    (cfg2.run .code cp sched2).1.sh.st.store.get? 3 = none ∧
    (cfg2.run .code cp sched2).1.threads.map (·.hs) =
      [[some (.inner 0), none], [some (.inner 0)]] := by
  decide +kernel

end OxiddModel.Bdd.LThreads.Bad
