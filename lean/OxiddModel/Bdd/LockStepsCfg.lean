import OxiddModel.Bdd.LockStepsInv

/-!
# `LThreads`: the ownership invariant holds in every reachable configuration

`CInv cp c`: every task tree of every thread satisfies `TInv`, the collector satisfies `GcInv`.
`CInv.step` (one micro-step of any actor), `CInv.reach`.
-/
namespace OxiddModel.Bdd.LThreads
open OxiddModel.Bdd OxiddModel.Bdd.BDD OxiddModel.Bdd.Refine OxiddModel.Bdd.Threads
open OxiddModel.Locks (Lock)

structure CInv (cp : CachePar) (c : LCfg) : Prop where
  tasks : ∀ tid th t, c.threads[tid]? = some th → th.cur = some t → TInv c.sh cp tid [] t
  gc : GcInv cp c.sh c.gc

/-- a micro-step of a thread: footprint of one of its leaves, own invariant re-established -/
theorem LThread.step_foot {cp : CachePar} {tid : Nat} {sh sh' : Sh} {th th' : LThread}
    {path : List Bool} {ev : Option Bool}
    (h : th.step .code cp tid sh path = some (sh', th', ev))
    (hinv : ∀ t, th.cur = some t → TInv sh cp tid [] t) :
    ∃ pos, Foot (.task tid pos) sh sh' ∧ ∀ t, th'.cur = some t → TInv sh' cp tid [] t := by
  unfold LThread.step at h
  split at h
  · rename_i t hcur
    split at h
    · cases h
      exact ⟨[], Foot.refl _ _, fun t ht => by cases ht⟩
    · cases h1 : t.step .code cp tid sh [] path with
      | none => rw [h1] at h; cases h
      | some o =>
        rw [h1] at h; cases h
        obtain ⟨sfx, hf, hi⟩ := OxiddModel.Bdd.LThreads.step_foot cp tid sh t [] path o (hinv t hcur) h1
        refine ⟨[] ++ sfx, hf, fun t' ht' => ?_⟩
        cases ht'; exact hi
  · split at h
    · cases h; exact ⟨[], Foot.refl _ _, hinv⟩
    · cases h
      refine ⟨[], Foot.refl _ _, fun t ht => ?_⟩
      simp only [liftThread, Option.map_eq_some_iff] at ht
      obtain ⟨t', _, rfl⟩ := ht
      exact TInv_lift _ _ _ _ _

/-- a micro-step of the collector: its footprint, its invariant re-established -/
theorem gcStep_foot {cp : CachePar} {c c' : LCfg} {ch : GcChoice} {l : Label}
    (h : gcStep .code cp c ch = some (c', l)) (hinv : GcInv cp c.sh c.gc) :
    Foot .gc c.sh c'.sh ∧ GcInv cp c'.sh c'.gc ∧ c'.threads = c.threads := by
  unfold gcStep at h
  split at h
  · -- idle
    split at h
    · rename_i hfree
      cases h
      refine ⟨Foot.acq hfree, ⟨fun b hb => by simp [gcHolds] at hb, fun _ => by simp [Sh.acq],
        fun l hl => by rcases hl with hl | hl <;> cases hl⟩, rfl⟩
    · cases h; exact ⟨Foot.refl _ _, hinv, rfl⟩
  · -- locking b
    rename_i b hpc
    split at h
    · rename_i hfree
      cases h
      rw [hpc] at hinv
      refine ⟨Foot.acq hfree, ⟨fun b' hb' => ?_, fun _ => ?_, fun l hl => by rcases hl with hl | hl <;> cases hl⟩, rfl⟩
      · simp only [gcHolds, decide_eq_true_eq] at hb'
        by_cases hbb : b' = b
        · subst hbb; simp [Sh.acq]
        · simp only [Sh.acq]
          rw [setLock_ne _ _ (by intro hh; cases hh; exact hbb rfl)]
          exact hinv.buckets b' (by simp [gcHolds]; omega)
      · simp only [Sh.acq]
        rw [setLock_ne _ _ (by intro hh; cases hh)]
        exact hinv.ongoing (by simp)
    · cases h
  · -- clearing b
    rename_i b hpc
    rw [hpc] at hinv
    split at h
    · simp only [Variant.code_gc, if_true] at h
      split at h
      · cases h
        refine ⟨Foot.cache _ _ _ _, ⟨fun b' hb' => ?_, fun _ => hinv.ongoing (by simp),
          fun l hl => by rcases hl with hl | hl <;> cases hl⟩, rfl⟩
        simp only [gcHolds, decide_eq_true_eq] at hb'
        exact hinv.buckets b' (by simp [gcHolds]; omega)
      · rename_i hlast
        cases h
        refine ⟨Foot.cache _ _ _ _, ⟨fun b' hb' => ?_, fun _ => hinv.ongoing (by simp),
          fun l hl => by rcases hl with hl | hl <;> cases hl⟩, rfl⟩
        simp only [gcHolds, decide_eq_true_eq] at hb'
        exact hinv.buckets b' (by simp [gcHolds]; omega)
    · cases h
  · -- levels
    rename_i hpc
    rw [hpc] at hinv
    split at h
    · rename_i l
      split at h
      · rename_i hfree
        cases h
        refine ⟨Foot.acq hfree, ⟨fun b' hb' => ?_, fun _ => ?_, fun l' hl' => ?_⟩, rfl⟩
        · simp only [Sh.acq]
          rw [setLock_ne _ _ (by intro hh; cases hh)]
          exact hinv.buckets b' (by simpa [gcHolds] using hb')
        · simp only [Sh.acq]
          rw [setLock_ne _ _ (by intro hh; cases hh)]
          exact hinv.ongoing (by simp)
        · rcases hl' with hl' | hl' <;> cases hl'
          simp [Sh.acq]
      · cases h
    · cases h
      exact ⟨Foot.refl _ _, ⟨fun b' hb' => hinv.buckets b' (by simpa [gcHolds] using hb'),
        fun _ => hinv.ongoing (by simp), fun l hl => by rcases hl with hl | hl <;> cases hl⟩, rfl⟩
  · -- lvlLocked l
    rename_i l hpc
    rw [hpc] at hinv
    split at h
    · cases h
      refine ⟨⟨fun _ => .inl rfl, fun n hn => .inl (find?_sweepLevel hn _ _)⟩,
        ⟨fun b' hb' => hinv.buckets b' (by simpa [gcHolds] using hb'),
        fun _ => hinv.ongoing (by simp), fun l' hl' => ?_⟩, rfl⟩
      rcases hl' with hl' | hl' <;> cases hl'
      exact hinv.level l (.inl rfl)
    · cases h
  · -- lvlSwept l
    rename_i l hpc
    rw [hpc] at hinv
    split at h
    · rename_i hown
      cases h
      refine ⟨Foot.rel hown, ⟨fun b' hb' => ?_, fun _ => ?_,
        fun l hl => by rcases hl with hl | hl <;> cases hl⟩, rfl⟩
      · simp only [Sh.rel]
        rw [setLock_ne _ _ (by intro hh; cases hh)]
        exact hinv.buckets b' (by simpa [gcHolds] using hb')
      · simp only [Sh.rel]
        rw [setLock_ne _ _ (by intro hh; cases hh)]
        exact hinv.ongoing (by simp)
    · cases h
  · -- unlocking b
    rename_i b hpc
    rw [hpc] at hinv
    split at h
    · rename_i hown
      have hown : c.sh.locks (.bucket b) = some .gc := by
        rcases hown with h1 | h1
        · exact h1
        · cases h1
      cases h
      refine ⟨Foot.rel hown, ⟨fun b' hb' => ?_, fun _ => ?_, fun l hl => ?_⟩, rfl⟩
      · dsimp only at hb' ⊢
        split at hb'
        · simp only [gcHolds, Bool.and_eq_true, decide_eq_true_eq] at hb'
          simp only [Sh.rel]
          rw [setLock_ne _ _ (by intro hh; cases hh; omega)]
          exact hinv.buckets b' (by simp [gcHolds]; omega)
        · simp [gcHolds] at hb'
      · simp only [Sh.rel]
        rw [setLock_ne _ _ (by intro hh; cases hh)]
        exact hinv.ongoing (by simp)
      · dsimp only at hl
        split at hl <;> rcases hl with hl | hl <;> cases hl
    · cases h
  · -- release
    rename_i hpc
    split at h
    · rename_i hown
      cases h
      exact ⟨Foot.rel hown, ⟨fun b hb => by simp [gcHolds] at hb, fun hh => absurd rfl hh,
        fun l hl => by rcases hl with hl | hl <;> cases hl⟩, rfl⟩
    · cases h

/-- **the invariant is preserved by every micro-step of the machine** -/
theorem CInv.step {cp : CachePar} {c c' : LCfg} {s : LSel} {l : Label}
    (h : c.step .code cp s = some (c', l)) (hinv : CInv cp c) : CInv cp c' := by
  cases s with
  | gc ch =>
    obtain ⟨hf, hg, hth⟩ := gcStep_foot h hinv.gc
    refine ⟨fun tid th t hth' hcur => ?_, hg⟩
    rw [hth] at hth'
    exact TInv.frame hf t [] (fun _ => by simp) (hinv.tasks tid th t hth' hcur)
  | thread tid path =>
    simp only [LCfg.step] at h
    split at h
    · cases h; exact hinv
    · rename_i th hth
      cases h1 : th.step .code cp tid c.sh path with
      | none => rw [h1] at h; cases h
      | some o =>
        obtain ⟨sh', th', ev⟩ := o
        rw [h1] at h; cases h
        obtain ⟨pos, hf, hi⟩ := LThread.step_foot h1 (fun t ht => hinv.tasks tid th t hth ht)
        refine ⟨fun tid' th'' t hth'' hcur => ?_, GcInv.frame hf (by simp) hinv.gc⟩
        dsimp only at hth'' ⊢
        rw [List.getElem?_set] at hth''
        split at hth''
        · rename_i heq
          split at hth''
          · cases hth''; subst heq; exact hi t hcur
          · cases hth''
        · rename_i hne
          refine TInv.frame hf t [] (fun sfx => ?_) (hinv.tasks tid' th'' t hth'' hcur)
          intro hh; cases hh; exact hne rfl

theorem CInv.reach {cp : CachePar} {c0 c : LCfg} (hr : Reach .code cp c0 c) (h0 : CInv cp c0) :
    CInv cp c := by
  induction hr with
  | refl => exact h0
  | step s _ hs ih => exact CInv.step hs ih

/-- initial configurations: no lock is owned, no operation is in progress, the collector is idle -/
structure LInit0 (c : LCfg) : Prop where
  free : ∀ L, c.sh.locks L = none
  idle : ∀ (tid : Nat) (th : LThread), c.threads[tid]? = some th → th.cur = none
  gc : c.gc = .idle

theorem LInit0.cinv {cp : CachePar} {c : LCfg} (h : LInit0 c) : CInv cp c := by
  refine ⟨fun tid th t hth hcur => ?_, ?_⟩
  · rw [h.idle tid th hth] at hcur; cases hcur
  · rw [h.gc]
    exact ⟨fun b hb => by simp [gcHolds] at hb, fun hh => absurd rfl hh,
      fun l hl => by rcases hl with hl | hl <;> cases hl⟩

end OxiddModel.Bdd.LThreads

