import OxiddModel.Bdd.LockStepsLive

/-!
# `LThreads`: the converse ownership invariant — every owner in the lock table is inside the
critical section of that lock

`LockStepsInv.TInv` / `GcInv` say: *an actor inside a critical section owns the lock*. This file
proves the converse for every reachable configuration (`Conv`):

* if the lock table says `L` is owned by the task at position `pos` of thread `tid`, then thread
  `tid` exists, has an operation in progress, and the leaf at `pos` of its call tree is inside the
  critical section of `L` (`held`: `cget`/`cadd` on the bucket, `red` on the level);
* if it says `L` is owned by the collector, then the collector's control state says so (`gcHeld`:
  `gc_ongoing` whenever not idle, buckets as `gcHolds`, the level between `lock` and `unlock`);
* `GcWf`: the bucket index of `pre_gc`/`post_gc` stays below the number of buckets.

Consequences (`LockStepsDeadlock2.lean`): the owner of a lock always has an enabled step, no
reachable configuration is a deadlock, at quiescence the lock table is empty.
-/
namespace OxiddModel.Bdd.LThreads
open OxiddModel.Bdd OxiddModel.Bdd.BDD OxiddModel.Bdd.Refine OxiddModel.Bdd.Threads
open OxiddModel.Locks (Lock)

/-- the locks the leaves of a task tree hold (lock, owner): the critical sections they are in -/
def held (cp : CachePar) (tid : Nat) : List Bool → LTask → List (Lock × Who)
  | pos, .cget _ _ key _ => [(.bucket (cp.bkt key), .task tid pos)]
  | pos, .cadd key _ _ => [(.bucket (cp.bkt key), .task tid pos)]
  | pos, .red _ fr _ _ ph =>
    match ph with
    | .gap => []
    | _ => [(.level fr.lvl, .task tid pos)]
  | pos, .seq1 _ _ t => held cp tid pos t
  | pos, .seq0 _ _ t => held cp tid pos t
  | pos, .par _ t1 t0 => held cp tid (pos ++ [true]) t1 ++ held cp tid (pos ++ [false]) t0
  | _, .call _ _ => []
  | _, .miss _ _ _ => []
  | _, .made _ _ => []
  | _, .ret _ => []

theorem held_lift (cp : CachePar) (tid : Nat) (t : Task) : ∀ pos, held cp tid pos (lift t) = [] := by
  induction t with
  | call | miss | made | ret => intro _; rfl
  | seq1 fr c0 t1 ih => intro pos; simpa [lift, held] using ih pos
  | seq0 fr r1 t0 ih => intro pos; simpa [lift, held] using ih pos
  | par fr t1 t0 ih1 ih0 => intro pos; simp [lift, held, ih1, ih0]

theorem held_of_ret? {cp : CachePar} {tid : Nat} {t : LTask} {r : Edge} (h : t.ret? = some r)
    (pos : List Bool) : held cp tid pos t = [] := by
  rw [LTask.ret?_some h]; rfl

/-- the owners listed by `held` are leaves of this tree -/
theorem held_who {cp : CachePar} {tid : Nat} : ∀ (t : LTask) (pos : List Bool) (x : Lock × Who),
    x ∈ held cp tid pos t → ∃ sfx, x.2 = .task tid (pos ++ sfx) := by
  intro t
  induction t with
  | call | miss | made | ret => intro pos x hx; simp [held] at hx
  | cget d c key ph => intro pos x hx; simp [held] at hx; subst hx; exact ⟨[], by simp⟩
  | cadd key r ph => intro pos x hx; simp [held] at hx; subst hx; exact ⟨[], by simp⟩
  | seq1 fr c0 t1 ih => intro pos x hx; exact ih pos x hx
  | seq0 fr r1 t0 ih => intro pos x hx; exact ih pos x hx
  | par fr t1 t0 ih1 ih0 =>
    intro pos x hx
    simp only [held, List.mem_append] at hx
    rcases hx with hx | hx
    · obtain ⟨sfx, h⟩ := ih1 _ x hx
      exact ⟨[true] ++ sfx, by rw [h, List.append_assoc]⟩
    · obtain ⟨sfx, h⟩ := ih0 _ x hx
      exact ⟨[false] ++ sfx, by rw [h, List.append_assoc]⟩
  | red isPar fr r1 r0 ph =>
    intro pos x hx
    cases ph <;> simp [held] at hx <;> (subst hx; exact ⟨[], by simp⟩)

/-! ## a micro-step of a task tree: what it does to the lock table and to `held` -/

/-- the effect of a micro-step on lock table and critical sections: every lock owned afterwards was
owned by the same owner before or is now held by a leaf of this tree; a lock held by a leaf of
this tree before and still owned by it afterwards is still held by that leaf -/
def HeldStep (cp : CachePar) (tid : Nat) (pos : List Bool) (sh : Sh) (t : LTask) (o : MOut) : Prop :=
  ∀ L w, o.sh.locks L = some w →
    (sh.locks L = some w ∨ (L, w) ∈ held cp tid pos o.t) ∧
    ((L, w) ∈ held cp tid pos t → (L, w) ∈ held cp tid pos o.t)

theorem HeldStep.same {cp : CachePar} {tid : Nat} {pos : List Bool} {sh : Sh} {t : LTask} {o : MOut}
    (hl : o.sh.locks = sh.locks) (hh : ∀ x, x ∈ held cp tid pos t → x ∈ held cp tid pos o.t) :
    HeldStep cp tid pos sh t o := by
  intro L w h
  rw [hl] at h
  exact ⟨.inl h, hh _⟩

theorem HeldStep.acq {cp : CachePar} {tid : Nat} {pos : List Bool} {sh : Sh} {t t' : LTask}
    {L : Lock} {w : Who} {ev : Option Bool} (hn : held cp tid pos t = [])
    (hm : (L, w) ∈ held cp tid pos t') : HeldStep cp tid pos sh t ⟨sh.acq L w, t', ev⟩ := by
  intro L' w' h
  refine ⟨?_, fun hx => by rw [hn] at hx; cases hx⟩
  by_cases hL : L' = L
  · subst hL
    simp only [Sh.acq, setLock_same] at h
    cases h
    exact .inr hm
  · simp only [Sh.acq] at h
    rw [setLock_ne _ _ hL] at h
    exact .inl h

theorem HeldStep.rel {cp : CachePar} {tid : Nat} {pos : List Bool} {sh : Sh} {t t' : LTask}
    {L : Lock} {ev : Option Bool} (hn : ∀ x, x ∈ held cp tid pos t → x.1 = L) :
    HeldStep cp tid pos sh t ⟨sh.rel L, t', ev⟩ := by
  intro L' w' h
  by_cases hL : L' = L
  · subst hL
    simp [Sh.rel] at h
  · simp only [Sh.rel] at h
    rw [setLock_ne _ _ hL] at h
    exact ⟨.inl h, fun hx => absurd (hn _ hx) hL⟩

theorem reduceStart_held {cp : CachePar} {tid : Nat} {pos : List Bool} {sh : Sh} {t : LTask}
    {isPar : Bool} {fr : Threads.Frame} {r1 r0 : Edge} {o : MOut}
    (hn : held cp tid pos t = [])
    (h : reduceStart sh (.task tid pos) isPar fr r1 r0 = some o) : HeldStep cp tid pos sh t o := by
  unfold reduceStart at h
  split at h
  · cases h
    exact HeldStep.same rfl (fun x hx => by rw [hn] at hx; cases hx)
  · split at h
    · cases h
      exact HeldStep.acq hn (by simp [held])
    · cases h

theorem HeldStep.wrap {cp : CachePar} {tid : Nat} {pos : List Bool} {sh : Sh} {t t' : LTask}
    {o : MOut} {f : LTask → LTask} (h : HeldStep cp tid pos sh t o)
    (h1 : held cp tid pos t' = held cp tid pos t)
    (h2 : held cp tid pos (f o.t) = held cp tid pos o.t) :
    HeldStep cp tid pos sh t' { o with t := f o.t } := by
  intro L w hl
  have := h L w hl
  dsimp only
  rw [h1, h2]
  exact this

/-- **every micro-step of a task tree keeps lock table and critical sections in step** -/
theorem step_held (cp : CachePar) (tid : Nat) (sh : Sh) :
    ∀ (t : LTask) (pos path : List Bool) (o : MOut),
      t.step .code cp tid sh pos path = some o → HeldStep cp tid pos sh t o := by
  intro t
  induction t with
  | ret r =>
    intro pos path o h
    simp only [LTask.step] at h; cases h
    exact HeldStep.same rfl (fun _ hx => hx)
  | call d c =>
    intro pos path o h
    simp only [LTask.step] at h
    split at h
    · cases h
      exact HeldStep.same rfl (fun x hx => by simp [held] at hx)
    · split at h
      · cases h
        exact HeldStep.acq rfl (by simp [held])
      · cases h
        exact HeldStep.same rfl (fun x hx => by simp [held] at hx)
  | miss d c key =>
    intro pos path o h
    simp only [LTask.step] at h; cases h
    exact HeldStep.same rfl (fun x hx => by simp [held] at hx)
  | made key r =>
    intro pos path o h
    simp only [LTask.step] at h
    split at h
    · cases h
      exact HeldStep.acq rfl (by simp [held])
    · cases h
      exact HeldStep.same rfl (fun x hx => by simp [held] at hx)
  | cget d c key ph =>
    intro pos path o h
    simp only [LTask.step] at h
    obtain ⟨hown, rfl⟩ := guardOwn_some h
    cases ph with
    | locked =>
      dsimp only
      split
      · exact HeldStep.same rfl (fun _ hx => hx)
      · exact HeldStep.same rfl (fun _ hx => hx)
    | hit h => exact HeldStep.same rfl (fun _ hx => hx)
    | copied h => exact HeldStep.rel (fun x hx => by simp [held] at hx; rw [hx])
    | missed => exact HeldStep.rel (fun x hx => by simp [held] at hx; rw [hx])
  | cadd key r ph =>
    intro pos path o h
    simp only [LTask.step] at h
    obtain ⟨hown, rfl⟩ := guardOwn_some h
    cases ph with
    | locked => exact HeldStep.same rfl (fun _ hx => hx)
    | written => exact HeldStep.rel (fun x hx => by simp [held] at hx; rw [hx])
  | red isPar fr r1 r0 ph =>
    intro pos path o h
    cases ph with
    | gap =>
      simp only [LTask.step] at h
      split at h
      · cases h
        exact HeldStep.acq rfl (by simp [held])
      · cases h
    | relocked =>
      simp only [LTask.step] at h
      obtain ⟨hown, rfl⟩ := guardOwn_some h
      exact HeldStep.same rfl (fun _ hx => hx)
    | locked =>
      simp only [LTask.step] at h
      obtain ⟨hown, rfl⟩ := guardOwn_some h
      split
      · exact HeldStep.same rfl (fun _ hx => hx)
      · exact HeldStep.same rfl (fun _ hx => hx)
    | missed =>
      simp only [LTask.step, Variant.code_mk, if_true] at h
      obtain ⟨hown, rfl⟩ := guardOwn_some h
      exact HeldStep.same rfl (fun _ hx => hx)
    | done r =>
      simp only [LTask.step] at h
      obtain ⟨hown, rfl⟩ := guardOwn_some h
      exact HeldStep.rel (fun x hx => by simp [held] at hx; rw [hx])
  | seq1 fr c0 t1 ih =>
    intro pos path o h
    simp only [LTask.step] at h
    split at h
    · rename_i r1 hr
      cases h
      exact HeldStep.same rfl (fun x hx => by simp [held, held_of_ret? hr] at hx)
    · cases h1 : t1.step .code cp tid sh pos path with
      | none => rw [h1] at h; cases h
      | some o1 =>
        rw [h1] at h; cases h
        exact (ih pos path o1 h1).wrap (f := fun t => .seq1 fr c0 t) rfl rfl
  | seq0 fr r1 t0 ih =>
    intro pos path o h
    simp only [LTask.step] at h
    split at h
    · rename_i r0 hr
      exact reduceStart_held (by simp [held, held_of_ret? hr]) h
    · cases h1 : t0.step .code cp tid sh pos path with
      | none => rw [h1] at h; cases h
      | some o1 =>
        rw [h1] at h; cases h
        exact (ih pos path o1 h1).wrap (f := fun t => .seq0 fr r1 t) rfl rfl
  | par fr t1 t0 ih1 ih0 =>
    intro pos path o h
    simp only [LTask.step] at h
    split at h
    · rename_i r1 r0 hr1 hr0
      exact reduceStart_held (by simp [held, held_of_ret? hr1, held_of_ret? hr0]) h
    · split at h
      · cases h1 : t1.step .code cp tid sh (pos ++ [true]) path.tail with
        | none => rw [h1] at h; cases h
        | some o1 =>
          rw [h1] at h; cases h
          intro L w hl
          obtain ⟨ha, hb⟩ := ih1 _ _ o1 h1 L w hl
          simp only [held, List.mem_append]
          refine ⟨?_, fun hx => ?_⟩
          · rcases ha with ha | ha
            · exact .inl ha
            · exact .inr (.inl ha)
          · rcases hx with hx | hx
            · exact .inl (hb hx)
            · exact .inr hx
      · cases h1 : t0.step .code cp tid sh (pos ++ [false]) path.tail with
        | none => rw [h1] at h; cases h
        | some o1 =>
          rw [h1] at h; cases h
          intro L w hl
          obtain ⟨ha, hb⟩ := ih0 _ _ o1 h1 L w hl
          simp only [held, List.mem_append]
          refine ⟨?_, fun hx => ?_⟩
          · rcases ha with ha | ha
            · exact .inl ha
            · exact .inr (.inr ha)
          · rcases hx with hx | hx
            · exact .inl hx
            · exact .inr (hb hx)

/-! ## the collector -/

/-- the locks the collector holds according to its control state -/
def gcHeld (cap : Nat) (pc : GcPc) : Lock → Bool
  | .gcOngoing => pc != .idle
  | .bucket b => gcHolds cap pc b
  | .level l => pc == .lvlLocked l || pc == .lvlSwept l
  | _ => false

/-- the bucket index of `pre_gc` / `post_gc` is a bucket -/
def GcWf (cap : Nat) : GcPc → Prop
  | .locking b => b < cap
  | .clearing b => b < cap
  | .unlocking b => b < cap
  | _ => True

/-- a micro-step of the collector keeps "the collector owns only what its control state says" -/
theorem gcStep_held {cp : CachePar} (hcap : 0 < cp.cap) {c c' : LCfg} {ch : GcChoice} {l : Label}
    (h : gcStep .code cp c ch = some (c', l)) (hwf : GcWf cp.cap c.gc)
    (hg : ∀ L, c.sh.locks L = some .gc → gcHeld cp.cap c.gc L = true) :
    GcWf cp.cap c'.gc ∧ (∀ L, c'.sh.locks L = some .gc → gcHeld cp.cap c'.gc L = true) ∧
    (∀ L w, w ≠ .gc → c'.sh.locks L = some w → c.sh.locks L = some w) := by
  unfold gcStep at h
  split at h
  · -- idle
    rename_i hpc
    split at h
    · cases h
      refine ⟨hcap, fun L hL => ?_, fun L w hw hL => ?_⟩
      · by_cases hLL : L = .gcOngoing
        · subst hLL; rfl
        · simp only [Sh.acq] at hL
          rw [setLock_ne _ _ hLL] at hL
          have := hg L hL
          rw [hpc] at this
          cases L <;> simp_all [gcHeld, gcHolds]
      · by_cases hLL : L = .gcOngoing
        · subst hLL; simp [Sh.acq] at hL; exact absurd hL.symm hw
        · simp only [Sh.acq] at hL
          rwa [setLock_ne _ _ hLL] at hL
    · cases h; exact ⟨hwf, hg, fun _ _ _ h => h⟩
  · -- locking b
    rename_i b hpc
    rw [hpc] at hwf hg
    split at h
    · cases h
      refine ⟨hwf, fun L hL => ?_, fun L w hw hL => ?_⟩
      · by_cases hLL : L = .bucket b
        · subst hLL; simp [gcHeld, gcHolds]
        · simp only [Sh.acq] at hL
          rw [setLock_ne _ _ hLL] at hL
          have := hg L hL
          cases L <;> simp_all [gcHeld, gcHolds] <;> omega
      · by_cases hLL : L = .bucket b
        · subst hLL; simp [Sh.acq] at hL; exact absurd hL.symm hw
        · simp only [Sh.acq] at hL
          rwa [setLock_ne _ _ hLL] at hL
    · cases h
  · -- clearing b
    rename_i b hpc
    rw [hpc] at hwf hg
    split at h
    · simp only [Variant.code_gc, if_true] at h
      split at h
      · rename_i hlt
        cases h
        refine ⟨hlt, fun L hL => ?_, fun _ _ _ h => h⟩
        have := hg L hL
        cases L <;> simp_all [gcHeld, gcHolds] <;> omega
      · rename_i hlt
        cases h
        refine ⟨trivial, fun L hL => ?_, fun _ _ _ h => h⟩
        have := hg L hL
        have hwf' : b < cp.cap := hwf
        cases L <;> simp_all [gcHeld, gcHolds] <;> omega
    · cases h
  · -- levels
    rename_i hpc
    rw [hpc] at hwf hg
    split at h
    · rename_i lv
      split at h
      · cases h
        refine ⟨trivial, fun L hL => ?_, fun L w hw hL => ?_⟩
        · by_cases hLL : L = .level lv
          · subst hLL; simp [gcHeld]
          · simp only [Sh.acq] at hL
            rw [setLock_ne _ _ hLL] at hL
            have := hg L hL
            cases L <;> simp_all [gcHeld, gcHolds]
        · by_cases hLL : L = .level lv
          · subst hLL; simp [Sh.acq] at hL; exact absurd hL.symm hw
          · simp only [Sh.acq] at hL
            rwa [setLock_ne _ _ hLL] at hL
      · cases h
    · cases h
      refine ⟨hcap, fun L hL => ?_, fun _ _ _ h => h⟩
      have := hg L hL
      cases L <;> simp_all [gcHeld, gcHolds]
  · -- lvlLocked l
    rename_i lv hpc
    rw [hpc] at hwf hg
    split at h
    · cases h
      refine ⟨trivial, fun L hL => ?_, fun _ _ _ h => h⟩
      have := hg L hL
      cases L <;> simp_all [gcHeld, gcHolds]
    · cases h
  · -- lvlSwept l
    rename_i lv hpc
    rw [hpc] at hwf hg
    split at h
    · cases h
      refine ⟨trivial, fun L hL => ?_, fun L w hw hL => ?_⟩
      · by_cases hLL : L = .level lv
        · subst hLL; simp [Sh.rel] at hL
        · simp only [Sh.rel] at hL
          rw [setLock_ne _ _ hLL] at hL
          have := hg L hL
          cases L <;> simp_all [gcHeld, gcHolds]
      · by_cases hLL : L = .level lv
        · subst hLL; simp [Sh.rel] at hL
        · simp only [Sh.rel] at hL
          rwa [setLock_ne _ _ hLL] at hL
    · cases h
  · -- unlocking b
    rename_i b hpc
    rw [hpc] at hwf hg
    split at h
    · cases h
      have hwf' : b < cp.cap := hwf
      refine ⟨?_, fun L hL => ?_, fun L w hw hL => ?_⟩
      · dsimp only; split
        · assumption
        · trivial
      · by_cases hLL : L = .bucket b
        · subst hLL; simp [Sh.rel] at hL
        · simp only [Sh.rel] at hL
          rw [setLock_ne _ _ hLL] at hL
          have := hg L hL
          dsimp only
          split <;> cases L <;> simp_all [gcHeld, gcHolds] <;> omega
      · by_cases hLL : L = .bucket b
        · subst hLL; simp [Sh.rel] at hL
        · simp only [Sh.rel] at hL
          rwa [setLock_ne _ _ hLL] at hL
    · cases h
  · -- release
    rename_i hpc
    rw [hpc] at hwf hg
    split at h
    · cases h
      refine ⟨trivial, fun L hL => ?_, fun L w hw hL => ?_⟩
      · by_cases hLL : L = .gcOngoing
        · subst hLL; simp [Sh.rel] at hL
        · simp only [Sh.rel] at hL
          rw [setLock_ne _ _ hLL] at hL
          have := hg L hL
          cases L <;> simp_all [gcHeld, gcHolds]
      · by_cases hLL : L = .gcOngoing
        · subst hLL; simp [Sh.rel] at hL
        · simp only [Sh.rel] at hL
          rwa [setLock_ne _ _ hLL] at hL
    · cases h

/-! ## the converse invariant of a configuration -/

/-- **every owner recorded in the lock table is inside the critical section of that lock** -/
structure Conv (cp : CachePar) (c : LCfg) : Prop where
  tasks : ∀ L tid pos, c.sh.locks L = some (.task tid pos) →
    ∃ th t, c.threads[tid]? = some th ∧ th.cur = some t ∧ (L, Who.task tid pos) ∈ held cp tid [] t
  gc : ∀ L, c.sh.locks L = some .gc → gcHeld cp.cap c.gc L = true
  wf : GcWf cp.cap c.gc

theorem LInit0.conv {cp : CachePar} {c : LCfg} (h : LInit0 c) : Conv cp c := by
  refine ⟨fun L tid pos hl => ?_, fun L hl => ?_, ?_⟩
  · rw [h.free] at hl; cases hl
  · rw [h.free] at hl; cases hl
  · rw [h.gc]; trivial

/-- a thread step: lock table and critical sections of the thread's tree stay in step -/
theorem LThread.step_held {cp : CachePar} {tid : Nat} {sh sh' : Sh} {th th' : LThread}
    {path : List Bool} {ev : Option Bool}
    (h : th.step .code cp tid sh path = some (sh', th', ev)) :
    ∀ L w, sh'.locks L = some w →
      (sh.locks L = some w ∨ ∃ t', th'.cur = some t' ∧ (L, w) ∈ held cp tid [] t') ∧
      (∀ t, th.cur = some t → (L, w) ∈ held cp tid [] t →
        ∃ t', th'.cur = some t' ∧ (L, w) ∈ held cp tid [] t') := by
  unfold LThread.step at h
  split at h
  · rename_i t hcur
    split at h
    · rename_i r hr
      cases h
      intro L w hl
      refine ⟨.inl hl, fun t' ht' hx => ?_⟩
      rw [hcur] at ht'; cases ht'
      rw [held_of_ret? hr] at hx; cases hx
    · cases h1 : t.step .code cp tid sh [] path with
      | none => rw [h1] at h; cases h
      | some o =>
        rw [h1] at h; cases h
        intro L w hl
        obtain ⟨ha, hb⟩ := OxiddModel.Bdd.LThreads.step_held cp tid sh t [] path o h1 L w hl
        refine ⟨?_, fun t' ht' hx => ?_⟩
        · rcases ha with ha | ha
          · exact .inl ha
          · exact .inr ⟨o.t, rfl, ha⟩
        · rw [hcur] at ht'; cases ht'
          exact ⟨o.t, rfl, hb hx⟩
  · rename_i hcur
    split at h
    · cases h
      intro L w hl
      exact ⟨.inl hl, fun t ht => by rw [hcur] at ht; cases ht⟩
    · cases h
      intro L w hl
      exact ⟨.inl hl, fun t ht => by rw [hcur] at ht; cases ht⟩

/-- **the converse invariant is preserved by every micro-step of the machine** -/
theorem Conv.step {cp : CachePar} (hcap : 0 < cp.cap) {c c' : LCfg} {s : LSel} {l : Label}
    (h : c.step .code cp s = some (c', l)) (hinv : Conv cp c) : Conv cp c' := by
  cases s with
  | gc ch =>
    obtain ⟨hwf, hg, hk⟩ := gcStep_held hcap h hinv.wf hinv.gc
    have hth : c'.threads = c.threads := by
      have hgi : c.step .code cp (.gc ch) = gcStep .code cp c ch := rfl
      rw [hgi] at h
      unfold gcStep at h
      repeat' split at h
      all_goals first | (cases h; rfl) | cases h
    refine ⟨fun L tid pos hl => ?_, hg, hwf⟩
    rw [hth]
    exact hinv.tasks L tid pos (hk L _ (by simp) hl)
  | thread tid path =>
    simp only [LCfg.step] at h
    split at h
    · cases h; exact hinv
    · rename_i th hth
      cases h1 : th.step .code cp tid c.sh path with
      | none => rw [h1] at h; cases h
      | some o =>
        obtain ⟨sh', th', ev⟩ := o
        rw [h1] at h; cases h
        have hlen : tid < c.threads.length := by
          apply Classical.byContradiction; intro hl
          rw [List.getElem?_eq_none (by omega)] at hth; cases hth
        have hs := LThread.step_held h1
        refine ⟨fun L tid' pos hl => ?_, fun L hl => ?_, hinv.wf⟩
        · dsimp only at hl ⊢
          obtain ⟨ha, hb⟩ := hs L _ hl
          rcases ha with ha | ⟨t', ht', hx⟩
          · obtain ⟨th0, t0, hth0, hc0, hx0⟩ := hinv.tasks L tid' pos ha
            by_cases hit : tid' = tid
            · subst hit
              rw [hth] at hth0; cases hth0
              obtain ⟨t', ht', hx'⟩ := hb t0 hc0 hx0
              exact ⟨th', t', by simp [hlen], ht', hx'⟩
            · refine ⟨th0, t0, ?_, hc0, hx0⟩
              rw [List.getElem?_set_ne (fun e => hit e.symm)]
              exact hth0
          · obtain ⟨sfx, hw⟩ := held_who t' [] _ hx
            simp only [List.nil_append] at hw
            cases hw
            exact ⟨th', t', by simp [hlen], ht', hx⟩
        · dsimp only at hl
          obtain ⟨ha, _⟩ := hs L _ hl
          rcases ha with ha | ⟨t', ht', hx⟩
          · exact hinv.gc L ha
          · obtain ⟨sfx, hw⟩ := held_who t' [] _ hx
            cases hw

theorem Conv.reach {cp : CachePar} (hcap : 0 < cp.cap) {c0 c : LCfg} (hr : Reach .code cp c0 c)
    (h0 : Conv cp c0) : Conv cp c := by
  induction hr with
  | refl => exact h0
  | step s _ hs ih => exact Conv.step hcap hs ih

end OxiddModel.Bdd.LThreads
