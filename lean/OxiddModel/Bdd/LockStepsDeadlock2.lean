import OxiddModel.Bdd.LockStepsDeadlock

/-!
# `LThreads`: a lock's owner always has an enabled step; no reachable configuration is a deadlock

* `owner_enabled`: a leaf of a task tree that is inside a critical section (`held`) can be selected
  by a `par` path so that its next micro-step is enabled — inside a critical section a task only
  reads / writes / releases (guards hold by `TInv`), it never executes a blocking `lock`.
* `Good cp c`: ownership invariant `CInv` + its converse `Conv`; `Good.reach`.
* `thread_enabled_or_blocked`: an unfinished thread either has an enabled step or its selected
  leaf is at `lock(level l)` and `level l` is owned by an actor **that has an enabled step** (a
  task inside `get_or_insert` on `l`, or the collector between `lock(level l)` and `unlock`).
  So every wait-for chain has length one: the wait-for graph is acyclic.
* `no_deadlock`: some unfinished thread, or the collector inside a level section, has an enabled
  step. `collector_enabled_or_blocked`: the same for the collector.
* `locks_empty_of_quiescent`: all threads finished and collector idle ⇒ no lock is owned.
-/
namespace OxiddModel.Bdd.LThreads
open OxiddModel.Bdd OxiddModel.Bdd.BDD OxiddModel.Bdd.Refine OxiddModel.Bdd.Threads
open OxiddModel.Locks (Lock)

theorem guardOwn_of {sh : Sh} {L : Lock} {w : Who} (o : MOut) (h : sh.locks L = some w) :
    guardOwn sh L w o = some o := by simp [guardOwn, h]

theorem ret?_none_of_held {cp : CachePar} {tid : Nat} {pos : List Bool} {t : LTask} {x : Lock × Who}
    (h : x ∈ held cp tid pos t) : t.ret? = none := by
  cases hr : t.ret? with
  | none => rfl
  | some r => rw [held_of_ret? hr] at h; cases h

/-- **the owner of a lock has an enabled step**: a leaf inside a critical section can be selected,
and its micro-step is enabled -/
theorem owner_enabled (cp : CachePar) (tid : Nat) (sh : Sh) :
    ∀ (t : LTask) (pos : List Bool) (x : Lock × Who), x ∈ held cp tid pos t →
      TInv sh cp tid pos t → ∃ path o, t.step .code cp tid sh pos path = some o := by
  intro t
  induction t with
  | call | miss | made | ret => intro pos x hx; simp [held] at hx
  | cget d c key ph =>
    intro pos x _ hinv
    exact ⟨[], _, by simp only [LTask.step]; exact guardOwn_of _ hinv.2⟩
  | cadd key r ph =>
    intro pos x _ hinv
    exact ⟨[], _, by simp only [LTask.step]; exact guardOwn_of _ hinv⟩
  | red isPar fr r1 r0 ph =>
    intro pos x hx hinv
    cases ph with
    | gap => simp [held] at hx
    | relocked => exact absurd hinv.2 (by simp [MkInv])
    | locked => exact ⟨[], _, by simp only [LTask.step]; exact guardOwn_of _ hinv.2⟩
    | missed => exact ⟨[], _, by simp only [LTask.step]; exact guardOwn_of _ hinv.2.1⟩
    | done r => exact ⟨[], _, by simp only [LTask.step]; exact guardOwn_of _ hinv.2⟩
  | seq1 fr c0 t1 ih =>
    intro pos x hx hinv
    obtain ⟨path, o, ho⟩ := ih pos x hx hinv
    exact ⟨path, _, by simp only [LTask.step, ret?_none_of_held (t := t1) hx, ho]; rfl⟩
  | seq0 fr r1 t0 ih =>
    intro pos x hx hinv
    obtain ⟨path, o, ho⟩ := ih pos x hx hinv
    exact ⟨path, _, by simp only [LTask.step, ret?_none_of_held (t := t0) hx, ho]; rfl⟩
  | par fr t1 t0 ih1 ih0 =>
    intro pos x hx hinv
    simp only [held, List.mem_append] at hx
    rcases hx with hx | hx
    · obtain ⟨path, o, ho⟩ := ih1 _ x hx hinv.1
      have hr := ret?_none_of_held hx
      refine ⟨true :: path, { o with t := .par fr o.t t0 }, ?_⟩
      have hp : pickLeftL (true :: path) t1 t0 = true := by
        simp only [pickLeftL, hr]; cases t0.ret? <;> rfl
      simp only [LTask.step, hr, hp, if_true, List.tail_cons, ho]; rfl
    · obtain ⟨path, o, ho⟩ := ih0 _ x hx hinv.2
      have hr := ret?_none_of_held hx
      refine ⟨false :: path, { o with t := .par fr t1 o.t }, ?_⟩
      have hp : pickLeftL (false :: path) t1 t0 = false := by
        simp only [pickLeftL, hr]; cases t1.ret? <;> rfl
      cases hr1 : t1.ret? with
      | none => simp only [LTask.step, hr1, hp, List.tail_cons, ho]; rfl
      | some r1 => simp only [LTask.step, hr1, hr, hp, List.tail_cons, ho]; rfl

/-- ownership invariant and its converse -/
structure Good (cp : CachePar) (c : LCfg) : Prop where
  inv : CInv cp c
  conv : Conv cp c

theorem LInit0.good {cp : CachePar} {c : LCfg} (h : LInit0 c) : Good cp c := ⟨h.cinv, h.conv⟩

theorem Good.step {cp : CachePar} (hcap : 0 < cp.cap) {c c' : LCfg} {s : LSel} {l : Label}
    (h : c.step .code cp s = some (c', l)) (hg : Good cp c) : Good cp c' :=
  ⟨CInv.step h hg.inv, Conv.step hcap h hg.conv⟩

theorem Good.reach {cp : CachePar} (hcap : 0 < cp.cap) {c0 c : LCfg} (hr : Reach .code cp c0 c)
    (h0 : LInit0 c0) : Good cp c :=
  ⟨CInv.reach hr h0.cinv, Conv.reach hcap hr h0.conv⟩

theorem Good.run {cp : CachePar} (hcap : 0 < cp.cap) : ∀ (ss : List LSel) {c : LCfg}, Good cp c →
    Good cp (c.run .code cp ss).1 := by
  intro ss
  induction ss with
  | nil => intro c h; exact h
  | cons s ss ih =>
    intro c h
    simp only [LCfg.run]
    cases hs : c.step .code cp s with
    | none => exact ih h
    | some out =>
      obtain ⟨c', l⟩ := out
      cases l with
      | none => exact ih (h.step hcap hs)
      | some lb => exact ih (h.step hcap hs)

/-- an actor that is inside a critical section and has an enabled step -/
def OwnerMoves (cp : CachePar) (c : LCfg) : Who → Prop
  | .task tid _ => ∃ th path c' l, c.threads[tid]? = some th ∧ th.done = false ∧
      c.step .code cp (.thread tid path) = some (c', l)
  | .gc => (∃ lv, c.gc = .lvlLocked lv ∨ c.gc = .lvlSwept lv) ∧
      ∀ ch, ∃ c' l, c.step .code cp (.gc ch) = some (c', l)

theorem step_thread_some {cp : CachePar} {c : LCfg} {tid : Nat} {th : LThread} {t : LTask}
    {path : List Bool} {o : MOut} (hth : c.threads[tid]? = some th) (hcur : th.cur = some t)
    (hr : t.ret? = none) (ho : t.step .code cp tid c.sh [] path = some o) :
    c.step .code cp (.thread tid path) =
      some (⟨o.sh, c.threads.set tid { th with cur := some o.t }, c.gc⟩,
        o.ev.map fun b => (b, .thread tid path)) := by
  simp only [LCfg.step, hth, LThread.step, hcur, hr, ho]; rfl

/-- a task recorded as owner of a lock has an enabled step -/
theorem Good.task_owner_moves {cp : CachePar} {c : LCfg} (hg : Good cp c) {L : Lock} {tid : Nat}
    {pos : List Bool} (h : c.sh.locks L = some (.task tid pos)) :
    OwnerMoves cp c (.task tid pos) := by
  obtain ⟨th, t, hth, hcur, hx⟩ := hg.conv.tasks L tid pos h
  obtain ⟨path, o, ho⟩ := owner_enabled cp tid c.sh t [] _ hx (hg.inv.tasks tid th t hth hcur)
  exact ⟨th, path, _, _, hth, by simp [LThread.done, hcur],
    step_thread_some hth hcur (ret?_none_of_held hx) ho⟩

/-- the owner of a level lock has an enabled step -/
theorem Good.level_owner_moves {cp : CachePar} {c : LCfg} (hg : Good cp c) {lv : Nat} {w : Who}
    (h : c.sh.locks (.level lv) = some w) : OwnerMoves cp c w := by
  cases w with
  | task tid pos => exact hg.task_owner_moves h
  | gc =>
    have hh := hg.conv.gc _ h
    simp only [gcHeld, Bool.or_eq_true, beq_iff_eq] at hh
    refine ⟨⟨lv, hh⟩, fun ch => ?_⟩
    rcases hh with hh | hh
    · exact ⟨_, _, by simp only [LCfg.step, gcStep, hh, h, if_true]; rfl⟩
    · exact ⟨_, _, by simp only [LCfg.step, gcStep, hh, h, if_true]; rfl⟩

/-- **an unfinished thread is enabled, or waits (at `lock(level l)`) for an actor that is enabled** -/
theorem Good.thread_enabled_or_blocked {cp : CachePar} {c : LCfg} (hg : Good cp c) {tid : Nat}
    {th : LThread} (hth : c.threads[tid]? = some th) (path : List Bool) :
    (∃ c' l, c.step .code cp (.thread tid path) = some (c', l)) ∨
    (∃ t lv w, th.cur = some t ∧ t.blockedOn path = some lv ∧ c.sh.locks (.level lv) = some w ∧
      OwnerMoves cp c w) := by
  cases hs : c.step .code cp (.thread tid path) with
  | some out => exact .inl ⟨out.1, out.2, rfl⟩
  | none =>
    refine .inr ?_
    simp only [LCfg.step, hth, LThread.step] at hs
    cases hcur : th.cur with
    | none =>
      rw [hcur] at hs
      dsimp only at hs
      split at hs <;> simp at hs
    | some t =>
      rw [hcur] at hs
      dsimp only at hs
      cases hr : t.ret? with
      | some r => rw [hr] at hs; simp at hs
      | none =>
        rw [hr] at hs
        simp only [Option.map_eq_none_iff] at hs
        obtain ⟨lv, w, hb, hw⟩ :=
          task_disabled_only_at_lock cp tid c.sh t [] path (hg.inv.tasks tid th t hth hcur) hs
        exact ⟨t, lv, w, rfl, hb, hw, hg.level_owner_moves hw⟩

/-- **no reachable configuration is a deadlock** (statement on `Good` configurations): if some
thread has not finished, then an unfinished thread has an enabled step, or the collector is
between `lock(level l)` and `unlock(level l)` and its step is enabled -/
theorem Good.no_deadlock {cp : CachePar} {c : LCfg} (hg : Good cp c) (hnd : c.allDone = false) :
    (∃ tid th path c' l, c.threads[tid]? = some th ∧ th.done = false ∧
      c.step .code cp (.thread tid path) = some (c', l)) ∨
    ((∃ lv, c.gc = .lvlLocked lv ∨ c.gc = .lvlSwept lv) ∧
      ∀ ch, ∃ c' l, c.step .code cp (.gc ch) = some (c', l)) := by
  have : ∃ th, th ∈ c.threads ∧ th.done = false := by
    simp only [LCfg.allDone] at hnd
    have := (List.all_eq_false.mp hnd)
    obtain ⟨th, hm, hd⟩ := this
    exact ⟨th, hm, by simpa using hd⟩
  obtain ⟨th, hm, hd⟩ := this
  obtain ⟨tid, hth⟩ := List.mem_iff_getElem?.mp hm
  rcases hg.thread_enabled_or_blocked hth [] with ⟨c', l, hs⟩ | ⟨t, lv, w, _, _, _, hmv⟩
  · exact .inl ⟨tid, th, [], c', l, hth, hd, hs⟩
  · cases w with
    | task tid' pos =>
      obtain ⟨th', path, c', l, h1, h2, h3⟩ := hmv
      exact .inl ⟨tid', th', path, c', l, h1, h2, h3⟩
    | gc => exact .inr hmv

/-- the collector too: its step is enabled, or it waits for a lock whose owner is a task with an
enabled step -/
theorem Good.collector_enabled_or_blocked {cp : CachePar} {c : LCfg} (hg : Good cp c)
    (ch : GcChoice) :
    (∃ c' l, c.step .code cp (.gc ch) = some (c', l)) ∨
    (∃ L tid pos, c.sh.locks L = some (.task tid pos) ∧ OwnerMoves cp c (.task tid pos) ∧
      ((∃ b, L = .bucket b ∧ c.gc = .locking b) ∨ (∃ lv, L = .level lv ∧ c.gc = .levels))) := by
  cases hs : c.step .code cp (.gc ch) with
  | some out => exact .inl ⟨out.1, out.2, rfl⟩
  | none =>
    refine .inr ?_
    rcases gc_disabled_only_at_lock hg.inv.gc hs with ⟨b, w, hpc, hw⟩ | ⟨lv, w, hpc, _, hw⟩ | ⟨b, hpc, hb⟩
    · cases w with
      | task tid pos => exact ⟨_, tid, pos, hw, hg.task_owner_moves hw, .inl ⟨b, rfl, hpc⟩⟩
      | gc =>
        have := hg.conv.gc _ hw
        rw [hpc] at this
        simp [gcHeld, gcHolds] at this
    · cases w with
      | task tid pos => exact ⟨_, tid, pos, hw, hg.task_owner_moves hw, .inr ⟨lv, rfl, hpc⟩⟩
      | gc =>
        have := hg.conv.gc _ hw
        rw [hpc] at this
        simp [gcHeld] at this
    · have := hg.conv.wf
      rw [hpc] at this
      exact absurd this (by simp only [GcWf]; omega)

/-- **at quiescence the lock table is empty** -/
theorem Good.locks_empty {cp : CachePar} {c : LCfg} (hg : Good cp c) (hd : c.allDone = true)
    (hgc : c.gc = .idle) (L : Lock) : c.sh.locks L = none := by
  cases h : c.sh.locks L with
  | none => rfl
  | some w =>
    cases w with
    | task tid pos =>
      obtain ⟨th, t, hth, hcur, _⟩ := hg.conv.tasks L tid pos h
      have := List.all_eq_true.mp hd th (List.mem_of_getElem? hth)
      simp [LThread.done, hcur] at this
    | gc =>
      have := hg.conv.gc L h
      rw [hgc] at this
      cases L <;> simp [gcHeld, gcHolds] at this

/-- a finished thread owns no lock, whatever the others do -/
theorem Good.thread_done_owns_nothing {cp : CachePar} {c : LCfg} (hg : Good cp c) {tid : Nat}
    {th : LThread} (hth : c.threads[tid]? = some th) (hd : th.cur = none) (L : Lock)
    (pos : List Bool) : c.sh.locks L ≠ some (.task tid pos) := by
  intro h
  obtain ⟨th', t, hth', hcur, _⟩ := hg.conv.tasks L tid pos h
  rw [hth] at hth'; cases hth'
  rw [hd] at hcur; cases hcur

end OxiddModel.Bdd.LThreads
